/-
  Property C12 — spectra and solutions equal those of the dense matrix: the STRUCTURE part that
  makes "spectrum of the matrix = union of the block spectra" and "norm = dense norm" true.

  Theorems about `Arr.validB`, `Arr.elem`, `Arr.toDenseA`, `svdA`, `eighA` and the driver's
  "norm2" fold (Driver/Ops.lean), for every symmetry, all valid rank-2 arrays and arbitrary
  scalars.

  * `matrix_sector_injective` — row charge ↔ column charge is one-to-one on stored sectors (group
    cancellation, C17 laws), hence `column_keyed_tables_never_overwrite`,
    `svd_values_one_per_block`, `eigh_values_one_per_block`.
  * `toDense_is_direct_sum`, `toDense_entry` — non-zero elements / dense entries only inside the
    stored blocks, which pair rows and columns one-to-one: the dense form is block "diagonal" up
    to that pairing.
  * `norm_sq_blocks`, `norm_sq_gauge`, `norm_sq_phaseSync` — Σ over block data = Σ over stored
    addresses of `nsq (elem)`, independent of pending signs.

  CITED, not proved: singular values / eigenvalues of a direct sum are the union of those of
  the summands.  NOT proved here: the dense-level sum `norm_sq_eq_dense` (Σ over the positions
  of `to_dense`; needs the `locateAll` bijection of layer L2 and commutativity of the sum) and
  `solve_dense`.
-/
import SymmModel.Proofs.LinalgDense
import SymmModel.Proofs.LinalgFactors
import SymmModel.Proofs.LinalgSolve
import SymmModel.Model.GRat

namespace SymmModel.C12
open SymmModel LinalgLemmas

variable {R S : Type}

/-! ## 1. row charge ↔ column charge -/

/-- **matrix_sector_injective.**  In a valid rank-2 array every stored sector is a pair
    `[row charge, column charge]`; two stored sectors with the same row charge have the same
    column charge and vice versa; hence `sector ↦ row charge` and `sector ↦ column charge` are
    injective on the stored sectors. -/
theorem matrix_sector_injective (a : Arr R) (hv : a.validB = true) (h2 : a.ndim = 2) :
    (∀ s ∈ a.sectors, ∃ r c, s = [r, c])
    ∧ (∀ r c c', [r, c] ∈ a.sectors → [r, c'] ∈ a.sectors → c = c')
    ∧ (∀ r r' c, [r, c] ∈ a.sectors → [r', c] ∈ a.sectors → r = r')
    ∧ (a.sectors.map (fun s => s.getD 0 (0, 0))).Nodup
    ∧ (a.sectors.map (fun s => s.getD 1 (0, 0))).Nodup := by
  refine ⟨?_, ?_, ?_, rowCharges_nodup hv h2, colCharges_nodup hv h2⟩
  · intro s hs
    obtain ⟨i0, i1, hi⟩ := ndim_two h2
    obtain ⟨⟨_, b⟩, hm, rfl⟩ := List.mem_map.mp hs
    obtain ⟨r, c, m, n, B⟩ := mat_block hv hi hm
    exact ⟨r, c, B.hs⟩
  · intro r c c' h h'
    have := (sector_inj hv h2 h h').1 rfl
    exact (List.cons.inj (List.cons.inj this).2).1
  · intro r r' c h h'
    have := (sector_inj hv h2 h h').2 rfl
    exact (List.cons.inj this).1

/-- consequence: the dictionaries `qr`/`svd`/`eigh` build keyed by the column charge `c` or by
    the diagonal sector `(c, c)` never overwrite an entry: they have exactly one entry per
    stored block, in block order -/
theorem column_keyed_tables_never_overwrite (a : Arr R) (hv : a.validB = true) (h2 : a.ndim = 2)
    {β : Type} (f : Sector × Blk R → β) :
    adict (a.blocks.map (fun p => (p.1.getD 1 (0, 0), f p)))
      = a.blocks.map (fun p => (p.1.getD 1 (0, 0), f p))
    ∧ adict (a.blocks.map (fun p => ([p.1.getD 1 (0, 0), p.1.getD 1 (0, 0)], f p)))
      = a.blocks.map (fun p => ([p.1.getD 1 (0, 0), p.1.getD 1 (0, 0)], f p)) := by
  have hc := colCharges_nodup hv h2
  constructor
  · apply adict_of_nodup
    simpa [Arr.sectors, List.map_map, Function.comp_def] using hc
  · apply adict_of_nodup
    have h' := nodup_map_of_inj _ (fun c : Charge => [c, c]) hc (fun a _ b _ e => (List.cons.inj e).1)
    simpa [Arr.sectors, List.map_map, Function.comp_def] using h'

/-- the singular values returned by `svd` are exactly one kernel output per stored block, keyed
    by that block's column charge (none dropped, none merged, none under a wrong charge) -/
theorem svd_values_one_per_block (K : Kernels R) (x : Arr R) (hv : x.validB = true)
    (h2 : x.ndim = 2) :
    ∃ u s vh, svdA K x = .ok (u, s, vh)
      ∧ s.blocks = x.blocks.map (fun p => (p.1.getD 1 (0, 0), (K.svd p.2).2.1))
      ∧ (s.blocks.map (·.1)).Nodup :=
  ⟨_, _, _, svdA_eq K hv h2, rfl, by
    have := colCharges_nodup hv h2
    simpa [Arr.sectors, List.map_map, Function.comp_def, colOf] using this⟩

/-- the eigenvalues returned by a successful `eigh` are one 1-D block per stored block of the
    input, keyed by that block's column charge, in block order, each of the size that charge has
    on the column index (for a fermionic input with a non-dual column index the blocks of odd
    charges are negated: same keys, same shapes) -/
theorem eigh_values_one_per_block [Neg R] (K : Kernels R) (hK : K.ShapeOk) (a : Arr R)
    (hv : a.validB = true) (w : BVec R) (v : Arr R) (h : eighA K a = .ok (w, v)) :
    w.blocks.map (·.1) = a.sectors.map (fun s => s.getD 1 (0, 0))
    ∧ (w.blocks.map (·.1)).Nodup
    ∧ (∀ c wb, (c, wb) ∈ w.blocks →
        ∃ m, alookup (a.indices.getD 1 default).cm c = some m ∧ wb.shape = [m] ∧ wb.wf = true) := by
  obtain ⟨h2, _, _, _, _, _, _, _, _, _, hk, hb⟩ := eighA_spec hK hv h
  exact ⟨hk, by rw [hk]; exact colCharges_nodup hv h2, hb⟩

/-! ## 2. the dense form is a direct sum -/

/-- **toDense_is_direct_sum** (value view).  A non-zero element lies in a stored sector, and the
    stored sectors pair row charges with column charges one-to-one: for every row charge there
    is at most one column charge carrying non-zero elements, and conversely. -/
theorem toDense_is_direct_sum [Zero R] [Neg R] (a : Arr R) (hv : a.validB = true)
    (h2 : a.ndim = 2) :
    (∀ s off, a.elem s off ≠ 0 → s ∈ a.sectors)
    ∧ (∀ r c c' off off', a.elem [r, c] off ≠ 0 → a.elem [r, c'] off' ≠ 0 → c = c')
    ∧ (∀ r r' c off off', a.elem [r, c] off ≠ 0 → a.elem [r', c] off' ≠ 0 → r = r') := by
  obtain ⟨_, hc, hr, _, _⟩ := matrix_sector_injective a hv h2
  exact ⟨fun s off h => elem_ne_zero_mem h,
    fun r c c' off off' h h' => hc r c c' (elem_ne_zero_mem h) (elem_ne_zero_mem h'),
    fun r r' c off off' h h' => hr r r' c (elem_ne_zero_mem h) (elem_ne_zero_mem h')⟩

/-- the same at the level of `to_dense`: the entry at a position `p` of the box is the element
    at the address `locateAll` gives to `p` in the sorted charge tables; so a non-zero entry
    sits at a (row charge, column charge) that is a stored sector, i.e. inside one of the
    direct summands -/
theorem toDense_entry [Zero R] [Neg R] (a : Arr R) (d : Blk R) (h : a.toDenseA = .ok d)
    (p : List Nat) (hp : inBox a.shape p = true) :
    d.get p = (match Arr.locateAll a.indices p with
               | some (sec, off) => a.elem sec off
               | none => 0)
    ∧ (d.get p ≠ 0 → ∃ sec off, Arr.locateAll a.indices p = some (sec, off) ∧ sec ∈ a.sectors
          ∧ d.get p = a.elem sec off) := by
  have hg := (toDenseA_get h hp).2
  refine ⟨hg, fun hne => ?_⟩
  rw [hg] at hne ⊢
  cases hl : Arr.locateAll a.indices p with
  | none => rw [hl] at hne; exact absurd rfl hne
  | some q =>
    obtain ⟨sec, off⟩ := q
    rw [hl] at hne
    exact ⟨sec, off, rfl, elem_ne_zero_mem hne, rfl⟩

/-! ## 3. norm -/

/-- the model's `norm2` (Driver/Ops.lean, "norm2" with `nsq x = ⟨x.normSq, 0⟩`): sum over blocks
    of the sum of `nsq` over the block's data -/
def normSq2 [Zero S] [Add S] (nsq : R → S) (a : Arr R) : S :=
  a.blocks.foldl (fun acc (_, b) => acc + (b.map nsq).sumAll) 0

/-- sum of `nsq (elem)` over all stored addresses (sector, offset in the block's box), blocks in
    stored order, offsets in C order -/
def addrNormSq [Zero R] [Neg R] [Zero S] [Add S] (nsq : R → S) (a : Arr R) : S :=
  a.blocks.foldl (fun acc (s, b) =>
    acc + ((allIdx b.shape).map (fun off => nsq (a.elem s off))).foldl (· + ·) 0) 0

/-- **norm_sq_blocks.**  For `nsq` even (`nsq (-x) = nsq x`) the block-data sum equals the sum
    over stored addresses of `nsq` of the element (pending signs included). -/
theorem norm_sq_blocks [Zero R] [Neg R] [Zero S] [Add S] (nsq : R → S)
    (hneg : ∀ x, nsq (-x) = nsq x) (a : Arr R) (hnd : a.sectors.Nodup)
    (hwf : ∀ p ∈ a.blocks, p.2.wf = true) :
    normSq2 nsq a = addrNormSq nsq a := by
  unfold normSq2 addrNormSq
  apply foldl_ext'
  intro acc p hp
  obtain ⟨s, b⟩ := p
  simp only
  rw [block_normSq nsq hneg hnd hp (hwf _ hp)]

theorem norm_sq_blocks_valid [Zero R] [Neg R] [Zero S] [Add S] (nsq : R → S)
    (hneg : ∀ x, nsq (-x) = nsq x) (a : Arr R) (hv : a.validB = true) :
    normSq2 nsq a = addrNormSq nsq a :=
  norm_sq_blocks nsq hneg a (sectors_nodup hv)
    (fun p hp => (((validB_iff a).mp hv).2.2.2.1 p.1 p.2 hp).2.2.2)

/-- sign-gauge invariance: the address sum does not depend on the pending-sign table -/
theorem norm_sq_gauge [Zero R] [Neg R] [Zero S] [Add S] (nsq : R → S)
    (hneg : ∀ x, nsq (-x) = nsq x) (a : Arr R) (hv : a.validB = true)
    (ph : List (Sector × Int)) :
    addrNormSq nsq { a with phases := ph } = addrNormSq nsq a := by
  have h1 := norm_sq_blocks_valid nsq hneg a hv
  have h2 := norm_sq_blocks nsq hneg { a with phases := ph }
    (sectors_nodup (a := a) hv)
    (fun p hp => (((validB_iff a).mp hv).2.2.2.1 p.1 p.2 hp).2.2.2)
  exact h2.symm.trans h1

/-- … and is unchanged by `phase_sync` (which multiplies the signs into the data) -/
theorem norm_sq_phaseSync [Neg R] [Zero S] [Add S] (nsq : R → S)
    (hneg : ∀ x, nsq (-x) = nsq x) (a : Arr R) :
    normSq2 nsq a.phaseSync = normSq2 nsq a := by
  unfold normSq2 Arr.phaseSync
  simp only [List.foldl_map]
  apply foldl_ext'
  intro acc p _
  obtain ⟨s, b⟩ := p
  simp only
  split
  · simp only [negK_map nsq hneg]
  · rfl

/-! ## examples -/

/-- U1 matrix of total charge 1 with mixed directions and two blocks over the Gaussian
    rationals; the second block carries a pending sign -/
def exG : Arr GRat :=
  { sym := .U1, fermi := true, charge := (1, 0),
    indices := [Index.mk [((0, 0), 2), ((1, 0), 1)] false none,
                Index.mk [((-1, 0), 1), ((0, 0), 2)] true none],
    blocks := [([(0, 0), (-1, 0)], ⟨[2, 1], #[⟨1, 2⟩, ⟨0, 3⟩]⟩),
               ([(1, 0), (0, 0)], ⟨[1, 2], #[⟨-2, 0⟩, ⟨1, -1⟩]⟩)],
    phases := [([(1, 0), (0, 0)], -1)],
    oddpos := [(0, false)] }

example : exG.validB = true ∧ exG.ndim = 2 := by decide +kernel

/-- `|1+2i|² + |3i|² + |-2|² + |1-i|² = 5 + 9 + 4 + 2`, by blocks, by addresses (where the
    second block's elements carry the sign `-1`), and after `phase_sync` -/
example : normSq2 GRat.normSq exG = 20 ∧ addrNormSq GRat.normSq exG = 20
    ∧ normSq2 GRat.normSq exG.phaseSync = 20 := by decide +kernel

example : ∀ x : GRat, GRat.normSq (-x) = GRat.normSq x := by
  intro x
  show (-x.re) * (-x.re) + (-x.im) * (-x.im) = x.re * x.re + x.im * x.im
  rw [Rat.neg_mul, Rat.mul_neg, Rat.neg_neg, Rat.neg_mul, Rat.mul_neg, Rat.neg_neg]

/-- the element view: stored value with the pending sign, zero off the stored sectors -/
example : exG.elem [(1, 0), (0, 0)] [0, 1] = ⟨-1, 1⟩ ∧ exG.elem [(0, 0), (-1, 0)] [1, 0] = ⟨0, 3⟩
    ∧ exG.elem [(0, 0), (0, 0)] [0, 0] = 0 := by decide +kernel

end SymmModel.C12
