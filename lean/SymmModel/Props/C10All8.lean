/- Property C10 — umbrella incl. C10i (bracketings of the norm network that first contract a ket with a bra tensor). -/
import SymmModel.Props.C10All7
import SymmModel.Props.C10i
