/-
  Umbrella for property C02: C02All2 plus C06c (`tensordotA_kind_blind`, `tensordotA_synced_modes`).
-/
import SymmModel.Props.C02All2
import SymmModel.Props.C06All2
