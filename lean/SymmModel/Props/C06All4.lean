/-
  C06, all parts: C06All3 (C06, C06b, C06c, C06d) and C06e (contraction commutes with fusing;
  chains of `n` tensors in fused / auto mode).
-/
import SymmModel.Props.C06All3
import SymmModel.Props.C06e
