/-
  C13 — Truncated SVD keeps exactly what its cutoff and bond limit prescribe.

  Theorems about `SymmModel.keepCountsG` / `keepCounts` / `calcSubMaxBonds`
  (`Model/Trunc.lean`, the selection logic of `symmray.linalg.svd_truncated`), for every
  number of sectors and all rational values.

  `keepCountsG fix` is the model with (`fix = true`, repo today, commit 4bfec24) or without
  (`fix = false`, before) the repair of the `sall[-0]` wrap-around; `keepCounts` is
  `keepCountsG wrapFixed` and `wrapFixed = true`.  Statements that hold for both are stated
  for `keepCountsG fix`.

  Outside the theorems (validated numerically by harness/props/c13.py): float rounding in
  `sort`/`cumsum`/comparisons and in `int(frac * sz)`; orthonormality of LAPACK's factors
  (error identity); that the per-block singular values arrive non-increasing (`SortedDesc`).
-/
import SymmModel.Proofs.TruncLemmas
import Mathlib.Algebra.Ring.Defs

namespace SymmModel.C13
open SymmModel SymmModel.TruncLemmas

/-! ### keep_is_prefix -/

/-- **keep_is_prefix.**  With singular values arriving non-increasing in every sector, the count
    `n` of a sector is at most its length, its first `n` values (the ones line 336 keeps,
    `s[:n]`) are exactly the values `≥ abs_cutoff`, and the rest are exactly the values below. -/
theorem keep_is_prefix (fix : Bool) (s : List (Charge × List Rat)) (cutoff : Rat) (mode : Nat)
    (mb : Int) (t : Rat) (ht : threshold fix s cutoff mode mb = .ok t)
    (hs : ∀ p ∈ s, SortedDesc p.2) :
    List.Forall₂
      (fun p n => n ≤ p.2.length ∧ p.2.take n = p.2.filter (fun v => leRat t v) ∧
        p.2.drop n = p.2.filter (fun v => !leRat t v))
      s (keepCountsG fix s cutoff mode mb) := by
  rw [keepCountsG_eq ht, List.forall₂_map_right_iff, List.forall₂_same]
  intro p hp
  obtain ⟨h1, h2⟩ := filter_eq_take_of_desc (fun v => leRat t v) p.2 (sortedDesc_mono_pred (hs p hp) t)
  exact ⟨countGe_le_length t p.2, h1.symm, h2.symm⟩

example : ∀ p ∈ [(((0, 0) : Charge), ([3, 2, 2, 0] : List Rat)), ((1, 0), [5, 1])], SortedDesc p.2 := by
  unfold SortedDesc; decide +kernel
example : threshold true [((0, 0), [3, 2, 2, 0]), ((1, 0), [5, 1])] 2 1 (-1) = .ok 2 := by
  decide +kernel

/-- a prefix of a non-increasing list consists of its largest values (this is all the no-cutoff
    branch needs: "keeping the largest values within each charge", for any count `n`) -/
theorem prefix_is_largest (l : List Rat) (hs : SortedDesc l) (n : Nat) :
    ∀ x ∈ l.take n, ∀ y ∈ l.drop n, y ≤ x := by
  intro x hx y hy
  obtain ⟨i, hi, rfl⟩ := List.mem_take_iff_getElem.mp hx
  obtain ⟨j, hj, rfl⟩ := List.mem_iff_getElem.mp hy
  rw [List.getElem_drop]
  simp only [List.length_drop] at hj
  exact List.pairwise_iff_getElem.mp hs i (n + j) (by omega) (by omega) (by omega)

/-! ### keep_ge_discarded -/

/-- **keep_ge_discarded.**  Every kept value, of whatever sector, is at least the threshold and
    every discarded one is strictly below it; hence kept ≥ discarded across all sectors. -/
theorem keep_ge_discarded (fix : Bool) (s : List (Charge × List Rat)) (cutoff : Rat) (mode : Nat)
    (mb : Int) (t : Rat) (ht : threshold fix s cutoff mode mb = .ok t)
    (hs : ∀ p ∈ s, SortedDesc p.2) :
    (∀ a ∈ (keptValues s (keepCountsG fix s cutoff mode mb)).flatten, t ≤ a) ∧
    (∀ b ∈ (droppedValues s (keepCountsG fix s cutoff mode mb)).flatten, b < t) ∧
    (∀ a ∈ (keptValues s (keepCountsG fix s cutoff mode mb)).flatten,
      ∀ b ∈ (droppedValues s (keepCountsG fix s cutoff mode mb)).flatten, b < a) := by
  rw [keepCountsG_eq ht, keptValues_map, droppedValues_map]
  have hk : ∀ a ∈ (s.map (fun p => p.2.take (countGe t p.2))).flatten, t ≤ a := by
    intro a ha
    obtain ⟨l, hl, hal⟩ := List.mem_flatten.mp ha
    obtain ⟨p, hp, rfl⟩ := List.mem_map.mp hl
    obtain ⟨h1, _⟩ := filter_eq_take_of_desc (fun v => leRat t v) p.2 (sortedDesc_mono_pred (hs p hp) t)
    have : a ∈ p.2.filter (fun v => leRat t v) := by rw [h1]; exact hal
    simpa [leRat] using (List.mem_filter.mp this).2
  have hd : ∀ b ∈ (s.map (fun p => p.2.drop (countGe t p.2))).flatten, b < t := by
    intro b hb
    obtain ⟨l, hl, hbl⟩ := List.mem_flatten.mp hb
    obtain ⟨p, hp, rfl⟩ := List.mem_map.mp hl
    obtain ⟨_, h2⟩ := filter_eq_take_of_desc (fun v => leRat t v) p.2 (sortedDesc_mono_pred (hs p hp) t)
    have : b ∈ p.2.filter (fun v => !leRat t v) := by rw [h2]; exact hbl
    simpa [leRat] using (List.mem_filter.mp this).2
  exact ⟨hk, hd, fun a ha b hb => lt_of_lt_of_le (hd b hb) (hk a ha)⟩

/-! ### keep_rule_exact -/

/-- **keep_rule_exact (a).**  Position `j` of a sector is kept (`j < n`) iff its value is
    `≥` the threshold. -/
theorem keep_rule_exact (fix : Bool) (s : List (Charge × List Rat)) (cutoff : Rat) (mode : Nat)
    (mb : Int) (t : Rat) (ht : threshold fix s cutoff mode mb = .ok t)
    (hs : ∀ p ∈ s, SortedDesc p.2) :
    List.Forall₂ (fun p n => ∀ j (hj : j < p.2.length), j < n ↔ t ≤ p.2[j])
      s (keepCountsG fix s cutoff mode mb) := by
  rw [keepCountsG_eq ht, List.forall₂_map_right_iff, List.forall₂_same]
  intro p hp j hj
  obtain ⟨h1, h2⟩ := filter_eq_take_of_desc (fun v => leRat t v) p.2 (sortedDesc_mono_pred (hs p hp) t)
  constructor
  · intro hjn
    have hm : p.2[j] ∈ p.2.take (countGe t p.2) :=
      List.mem_take_iff_getElem.mpr ⟨j, by unfold countGe at *; omega, rfl⟩
    unfold countGe at hm
    rw [← h1] at hm
    simpa [leRat] using (List.mem_filter.mp hm).2
  · intro hle
    by_contra hc
    have hm : p.2[j] ∈ p.2.drop (countGe t p.2) := by
      rw [List.mem_iff_getElem]
      refine ⟨j - countGe t p.2, by simp; omega, ?_⟩
      rw [List.getElem_drop]
      congr 1; omega
    unfold countGe at hm
    rw [← h2] at hm
    have := (List.mem_filter.mp hm).2
    simp [leRat] at this
    exact absurd hle (not_le.mpr this)

/-- **keep_rule_exact (b): the threshold is the larger of the rule's and the bond limit's.** -/
theorem threshold_eq (fix : Bool) (s : List (Charge × List Rat)) (cutoff : Rat) (mode : Nat)
    (mb : Int) (t : Rat) (ht : threshold fix s cutoff mode mb = .ok t) :
    ∃ tr, ruleThreshold fix (sall s) cutoff mode = .ok tr ∧
      ((0 < mb ∧ mb < ((sall s).length : Int)) →
        ∃ h : (sall s).length - mb.toNat < (sall s).length,
          t = max tr ((sall s)[(sall s).length - mb.toNat])) ∧
      (¬ (0 < mb ∧ mb < ((sall s).length : Int)) → t = tr) := by
  unfold threshold at ht
  cases hr : ruleThreshold fix (sall s) cutoff mode with
  | error e => rw [hr] at ht; cases ht
  | ok tr =>
    rw [hr] at ht
    simp only [Except.ok.injEq] at ht
    refine ⟨tr, rfl, ?_, ?_⟩
    · intro hb
      have h0 : 1 ≤ mb.toNat := by omega
      have h1 : mb.toNat ≤ (sall s).length := by omega
      refine ⟨by omega, ?_⟩
      unfold bondClamp at ht
      simp only [hb, and_self, if_true] at ht
      rw [negIndex_eq (sall s) mb.toNat h0 h1] at ht
      simp only at ht
      rw [← ht]
      split
      · rename_i h; exact (max_eq_right (le_of_lt h)).symm
      · rename_i h; exact (max_eq_left (not_lt.mp h)).symm
    · intro hb
      unfold bondClamp at ht
      simp only [hb, if_false] at ht
      exact ht.symm

/-- the bond-limit threshold `sall[-mb]` is the `mb`-th largest of all singular values: at least
    `mb` values are `≥` it and fewer than `mb` are `>` it -/
theorem bond_threshold_char (s : List (Charge × List Rat)) (mb : Nat) (h0 : 0 < mb)
    (h1 : mb < (sall s).length) :
    mb ≤ countGe ((sall s)[(sall s).length - mb]'(by omega)) (s.flatMap (·.2)) ∧
    (s.flatMap (·.2)).countP (fun v => decide ((sall s)[(sall s).length - mb]'(by omega) < v)) < mb := by
  have hsorted := sall_sorted s
  have hk : (sall s).length - mb < (sall s).length := by omega
  constructor
  · have := countGe_getElem_ge (sall s) hsorted _ hk
    unfold countGe at this ⊢
    rw [← (sall_perm s).countP_eq]
    omega
  · rw [← (sall_perm s).countP_eq]
    set a := sall s with ha
    set k := a.length - mb with hkdef
    have e : a.countP (fun v => decide (a[k] < v))
        = (a.take (k + 1)).countP (fun v => decide (a[k] < v))
          + (a.drop (k + 1)).countP (fun v => decide (a[k] < v)) := by
      rw [← List.countP_append, List.take_append_drop]
    have z : (a.take (k + 1)).countP (fun v => decide (a[k] < v)) = 0 := by
      rw [List.countP_eq_zero]
      intro x hx
      simp only [decide_eq_true_eq, not_lt]
      obtain ⟨j, hj, rfl⟩ := List.mem_take_iff_getElem.mp hx
      rcases Nat.lt_or_ge j k with hlt | hge
      · exact List.pairwise_iff_getElem.mp hsorted j k (by omega) hk hlt
      · have : j = k := by omega
        subst this; exact le_refl _
    have le : (a.drop (k + 1)).countP (fun v => decide (a[k] < v)) ≤ (a.drop (k + 1)).length :=
      List.countP_le_length
    rw [e, z]
    simp only [List.length_drop] at le
    omega

/-- mode 1: the rule threshold is the cutoff itself -/
theorem rule_threshold_abs (fix : Bool) (sa : List Rat) (cutoff : Rat) :
    ruleThreshold fix sa cutoff 1 = .ok cutoff := by
  simp [ruleThreshold]

/-- mode 2: the rule threshold is `cutoff` times the largest of all singular values -/
theorem rule_threshold_rel (fix : Bool) (s : List (Charge × List Rat)) (cutoff tr : Rat)
    (h : ruleThreshold fix (sall s) cutoff 2 = .ok tr) :
    ∃ top, top ∈ s.flatMap (·.2) ∧ (∀ v ∈ s.flatMap (·.2), v ≤ top) ∧ tr = top * cutoff := by
  simp only [ruleThreshold] at h
  cases htop : negIndex (sall s) 1 with
  | error e => rw [htop] at h; simp at h
  | ok top =>
    rw [htop] at h
    simp only [Nat.reduceEqDiff, if_false, if_true, Except.ok.injEq] at h
    refine ⟨top, (sall_perm s).mem_iff.mp (negIndex_mem htop), ?_, h.symm⟩
    intro v hv
    have hv' : v ∈ sall s := (sall_perm s).mem_iff.mpr hv
    have hlen : 1 ≤ (sall s).length := List.length_pos_of_mem hv'
    rw [negIndex_eq (sall s) 1 (le_refl _) hlen] at htop
    simp only [Except.ok.injEq] at htop
    obtain ⟨j, hj, rfl⟩ := List.mem_iff_getElem.mp hv'
    rw [← htop]
    rcases Nat.lt_or_ge j ((sall s).length - 1) with hlt | hge
    · exact List.pairwise_iff_getElem.mp (sall_sorted s) j _ hj (by omega) hlt
    · have : j = (sall s).length - 1 := by omega
      subst this; exact le_refl _

/-- the weight budget of the cumulative modes: `cutoff` (3, 5) or `cutoff * total weight` (4, 6) -/
def budget (mode : Nat) (sa : List Rat) (cutoff : Rat) : Rat :=
  if mode = 4 ∨ mode = 6 then cutoff * (weights mode sa).sum else cutoff

/-- modes 3–6 (cumulative weight, `w = s²` for 3, 4 and `w = s` for 5, 6, relative to the total
    weight for 4, 6): with `sa` all values ascending, `n` values are kept by the rule where the
    discarded prefix `sa[:len-n]` is the longest whose cumulative weights all stay below the
    budget; the threshold is the first value after it.  If even the total weight is below the
    budget (`n = 0`), the repaired code keeps the largest value (threshold = maximum) and the
    old code wrapped to the minimum. -/
theorem rule_threshold_cumulative (fix : Bool) (sa : List Rat) (cutoff tr : Rat) (mode : Nat)
    (hm : mode = 3 ∨ mode = 4 ∨ mode = 5 ∨ mode = 6) (hnn : NonNeg sa)
    (h : ruleThreshold fix sa cutoff mode = .ok tr) :
    ∃ n, nChiAll mode sa cutoff = .ok n ∧ n ≤ sa.length ∧
      (∀ j, j < sa.length - n → ((weights mode sa).take (j + 1)).sum < budget mode sa cutoff) ∧
      (∀ j, sa.length - n ≤ j → j < sa.length →
        budget mode sa cutoff ≤ ((weights mode sa).take (j + 1)).sum) ∧
      (1 ≤ n → ∃ hk : sa.length - n < sa.length, tr = sa[sa.length - n]) ∧
      (n = 0 → ∃ hk : 0 < sa.length,
        tr = if fix then sa[sa.length - 1] else sa[0]) := by
  obtain ⟨rhs, hr, hn⟩ := ruleThreshold_cum_inv hm h
  have hwl : (weights mode sa).length = sa.length := weights_length mode sa
  have hcl : (cumsum (weights mode sa)).length = sa.length := by rw [cumsum_length, hwl]
  have hpos : 0 < sa.length := List.length_pos_of_mem (negIndex_mem hn)
  have hwn : NonNeg (weights mode sa) := weights_nonneg mode sa hnn
  have hrhs : rhs = budget mode sa cutoff := by
    unfold budget
    rcases condRhs_inv hr with ⟨hm46, tot, htot, rfl⟩ | ⟨hm46, rfl⟩
    · rw [cumsum_last _ (by omega)] at htot
      simp only [Except.ok.injEq] at htot
      simp only [hm46, if_true, htot]
    · simp only [hm46, if_false]
  have hnle : countGe rhs (cumsum (weights mode sa)) ≤ sa.length := by
    rw [← hcl]; exact countGe_le_length _ _
  obtain ⟨s1, s2⟩ := cum_split (weights mode sa) hwn rhs
  rw [hwl] at s1 s2
  refine ⟨countGe rhs (cumsum (weights mode sa)), ?_, hnle, ?_, ?_, ?_, ?_⟩
  · unfold nChiAll; simp only [hr]
  · rw [← hrhs]; exact s1
  · rw [← hrhs]; exact s2
  · intro h1
    have e : nChiAdjust fix (countGe rhs (cumsum (weights mode sa)))
        = countGe rhs (cumsum (weights mode sa)) := by unfold nChiAdjust; split <;> omega
    rw [e, negIndex_eq sa _ h1 hnle] at hn
    simp only [Except.ok.injEq] at hn
    exact ⟨by omega, hn.symm⟩
  · intro h0
    refine ⟨hpos, ?_⟩
    rw [h0] at hn
    cases fix with
    | true =>
      have e : nChiAdjust true 0 = 1 := by unfold nChiAdjust; simp
      rw [e, negIndex_eq sa 1 (le_refl _) hpos] at hn
      simp only [Except.ok.injEq] at hn
      simp [hn.symm]
    | false =>
      have e : nChiAdjust false 0 = 0 := by unfold nChiAdjust; simp
      rw [e, negIndex_zero sa hpos] at hn
      simp only [Except.ok.injEq] at hn
      simp [hn.symm]

example : NonNeg [1, 2] := by unfold NonNeg; decide +kernel

/-! ### keep_antitone_cutoff -/

/-- general form: a larger cutoff never keeps more in any sector, provided the larger cutoff does
    not hit the `n_chi_all = 0` wrap-around (automatic when `fix = true`). -/
theorem keep_antitone_cutoff_partial (fix : Bool) (s : List (Charge × List Rat)) (c1 c2 : Rat)
    (mode : Nat) (mb : Int) (hc : c1 ≤ c2) (hnn : ∀ p ∈ s, NonNeg p.2)
    (hnowrap : ∀ n, nChiAll mode (sall s) c2 = .ok n → 1 ≤ nChiAdjust fix n) :
    List.Forall₂ (· ≤ ·) (keepCountsG fix s c2 mode mb) (keepCountsG fix s c1 mode mb) := by
  unfold keepCountsG threshold
  cases h1 : ruleThreshold fix (sall s) c1 mode with
  | error e =>
    rw [ruleThreshold_error_indep (c2 := c2) h1]
    exact List.Forall₂.nil
  | ok t1 =>
    cases h2 : ruleThreshold fix (sall s) c2 mode with
    | error e =>
      have := ruleThreshold_error_indep (c2 := c1) h2
      rw [h1] at this; cases this
    | ok t2 =>
      have ht : t1 ≤ t2 := ruleThreshold_mono (sall_sorted s) (nonNeg_sall hnn) hc h1 h2 hnowrap
      exact forall2_counts s (bondClamp_mono (sall s) ht mb)

/-- **keep_antitone_cutoff** for the code as it stands (wrap-around repaired): for every mode,
    every bond limit and all cutoffs `c1 ≤ c2`, no sector keeps more at `c2` than at `c1`. -/
theorem keep_antitone_cutoff (s : List (Charge × List Rat)) (c1 c2 : Rat) (mode : Nat) (mb : Int)
    (hc : c1 ≤ c2) (hnn : ∀ p ∈ s, NonNeg p.2) :
    List.Forall₂ (· ≤ ·) (keepCounts s c2 mode mb) (keepCounts s c1 mode mb) := by
  unfold keepCounts wrapFixed
  exact keep_antitone_cutoff_partial true s c1 c2 mode mb hc hnn (fun n _ => nChiAdjust_true_pos n)

example : ∀ p ∈ [(((0, 0) : Charge), ([2, 1] : List Rat))], NonNeg p.2 := by
  unfold NonNeg; decide +kernel

/-- regression witness (finding #9, the code before commit 4bfec24): in mode 3 on the single
    sector `[2, 1]`, cutoff 4 keeps one value and the larger cutoff 6 keeps both. -/
theorem keep_antitone_cutoff_old_counterexample :
    keepCountsG false [((0, 0), [2, 1])] 4 3 (-1) = [1] ∧
    keepCountsG false [((0, 0), [2, 1])] 6 3 (-1) = [2] ∧
    ¬ List.Forall₂ (· ≤ ·) (keepCountsG false [((0, 0), [2, 1])] 6 3 (-1))
        (keepCountsG false [((0, 0), [2, 1])] 4 3 (-1)) := by
  have h1 : keepCountsG false [((0, 0), [2, 1])] 4 3 (-1) = [1] := by decide +kernel
  have h2 : keepCountsG false [((0, 0), [2, 1])] 6 3 (-1) = [2] := by decide +kernel
  refine ⟨h1, h2, ?_⟩
  rw [h1, h2]
  intro h
  cases h with
  | cons hab _ => omega

/-- the same input on the repaired code -/
theorem keep_antitone_cutoff_witness_fixed :
    keepCounts [((0, 0), [2, 1])] 4 3 (-1) = [1] ∧ keepCounts [((0, 0), [2, 1])] 6 3 (-1) = [1] := by
  constructor <;> decide +kernel

/-- the wrap-around cannot happen when the cutoff does not exceed the total weight
    (absolute modes 3, 5) / does not exceed 1 (relative modes 4, 6) -/
theorem nowrap_of_cutoff_le_total (sa : List Rat) (cutoff : Rat) (mode : Nat) (hnn : NonNeg sa)
    (hne : 0 < sa.length)
    (hle : if mode = 4 ∨ mode = 6 then cutoff ≤ 1 else cutoff ≤ (weights mode sa).sum) :
    ∀ n, nChiAll mode sa cutoff = .ok n → 1 ≤ n := by
  intro n hn
  unfold nChiAll at hn
  simp only at hn
  have hwl : (weights mode sa).length = sa.length := weights_length mode sa
  have hcl : (cumsum (weights mode sa)).length = sa.length := by rw [cumsum_length, hwl]
  have hwn := weights_nonneg mode sa hnn
  have hlast : negIndex (cumsum (weights mode sa)) 1 = .ok (weights mode sa).sum :=
    cumsum_last _ (by omega)
  have htot_nonneg : 0 ≤ (weights mode sa).sum := by
    have := cumsumFrom_ge 0 (weights mode sa) hwn _ (negIndex_mem hlast)
    exact this
  cases hc : condRhs mode (cumsum (weights mode sa)) cutoff with
  | error e => rw [hc] at hn; cases hn
  | ok rhs =>
    rw [hc] at hn
    simp only [Except.ok.injEq] at hn
    subst hn
    have hrhs : rhs ≤ (weights mode sa).sum := by
      rcases condRhs_inv hc with ⟨hm46, tot, htot, rfl⟩ | ⟨hm46, rfl⟩
      · rw [hlast] at htot
        simp only [Except.ok.injEq] at htot
        subst htot
        simp only [hm46, if_true] at hle
        calc cutoff * (weights mode sa).sum ≤ 1 * (weights mode sa).sum :=
              mul_le_mul_of_nonneg_right hle htot_nonneg
          _ = _ := one_mul _
      · simp only [hm46, if_false] at hle
        exact hle
    unfold countGe
    apply List.countP_pos_iff.mpr
    exact ⟨_, negIndex_mem hlast, by simpa [leRat] using hrhs⟩

/-! ### keep_le_maxBond -/

/-- "no tie at the bond-limit threshold": the `mb`-th largest value is strictly larger than the
    `(mb+1)`-th largest -/
def NoTieAtBond (s : List (Charge × List Rat)) (mb : Nat) : Prop :=
  (sall s).getD ((sall s).length - mb - 1) 0 < (sall s).getD ((sall s).length - mb) 0

instance (s : List (Charge × List Rat)) (mb : Nat) : Decidable (NoTieAtBond s mb) := by
  unfold NoTieAtBond; infer_instance

/-- **keep_le_maxBond.**  With a bond limit `mb ≥ 1` and no tie at its threshold, the total number
    of kept values is at most `mb`. -/
theorem keep_le_maxBond (fix : Bool) (s : List (Charge × List Rat)) (cutoff : Rat) (mode : Nat)
    (mb : Nat) (h0 : 0 < mb) (hnt : mb < (sall s).length → NoTieAtBond s mb) :
    sumNat (keepCountsG fix s cutoff mode (mb : Int)) ≤ mb := by
  unfold keepCountsG
  cases ht : threshold fix s cutoff mode (mb : Int) with
  | error e => simp [sumNat]
  | ok t =>
    simp only
    rw [sumNat_map_countGe_sall]
    rcases Nat.lt_or_ge mb (sall s).length with hlt | hge
    · have hk : (sall s).length - mb < (sall s).length := by omega
      have hb : (sall s)[(sall s).length - mb] ≤ t := by
        unfold threshold at ht
        cases hr : ruleThreshold fix (sall s) cutoff mode with
        | error e => rw [hr] at ht; cases ht
        | ok tr =>
          rw [hr] at ht
          simp only [Except.ok.injEq] at ht
          rw [← ht]
          exact bondClamp_ge_bond (sall s) tr mb h0 hlt
      have hstep : ∀ j (hj : j < (sall s).length - mb),
          (sall s)[j]'(by omega) < (sall s)[(sall s).length - mb] := by
        intro j hj
        have hnt' := hnt hlt
        unfold NoTieAtBond at hnt'
        rw [← List.getElem_eq_getD (h := by omega) 0, ← List.getElem_eq_getD (h := hk) 0] at hnt'
        rcases Nat.lt_or_ge j ((sall s).length - mb - 1) with h | h
        · exact lt_of_le_of_lt
            (List.pairwise_iff_getElem.mp (sall_sorted s) j _ (by omega) (by omega) h) hnt'
        · have : j = (sall s).length - mb - 1 := by omega
          subst this; exact hnt'
      have := countGe_getElem_eq (sall s) (sall_sorted s) _ hk hstep
      have h2 := countGe_anti hb (sall s)
      omega
    · exact le_trans (countGe_le_length t _) hge

example : NoTieAtBond [((0, 0), [3, 1]), ((1, 0), [2])] 2 := by decide +kernel

/-- **finding #14 (known, not repaired).**  Two equal one-value blocks with `max_bond = 1`: both
    are kept (the threshold is the tied value and `>=` keeps every copy of it). -/
theorem keep_le_maxBond_tie_counterexample :
    keepCountsG true [((0, 0), [1]), ((1, 0), [1])] (1 / 2) 1 1 = [1, 1] ∧
    keepCountsG false [((0, 0), [1]), ((1, 0), [1])] (1 / 2) 1 1 = [1, 1] ∧
    ¬ sumNat (keepCounts [((0, 0), [1]), ((1, 0), [1])] (1 / 2) 1 1) ≤ 1 ∧
    ¬ NoTieAtBond [((0, 0), [1]), ((1, 0), [1])] 1 := by
  refine ⟨by decide +kernel, by decide +kernel, by decide +kernel, by decide +kernel⟩

/-! ### the no-cutoff branch -/

/-- **nocutoff_total_eq_limit.**  With `0 ≤ max_bond < total number of values` the proportional
    split hands out exactly `max_bond`. -/
theorem nocutoff_total_eq_limit (sizes : List Nat) (mb : Nat) (h : mb < sumNat sizes) :
    sumNat (calcSubMaxBonds sizes (mb : Int)) = mb := by
  rw [calcSubMaxBonds_eq sizes mb h]
  obtain ⟨a1, a2⟩ := split_facts sizes mb h
  have hperm := argsortNat_perm (baseSplit sizes mb)
  have hlen : (argsortNat (baseSplit sizes mb)).length = sizes.length := by
    rw [hperm.length_eq, List.length_range, baseSplit_length]
  rw [sumNat_foldl_bump]
  · rw [List.length_take, hlen]
    omega
  · intro i hi
    have := hperm.mem_iff.mp (List.mem_of_mem_take hi)
    exact List.mem_range.mp this

example : (4 : Nat) < sumNat [3, 2, 5] := by decide

/-- outside that range the sizes are returned unchanged -/
theorem nocutoff_unlimited (sizes : List Nat) (mb : Int) (h : mb < 0 ∨ (sumNat sizes : Int) ≤ mb) :
    calcSubMaxBonds sizes mb = sizes := by
  unfold calcSubMaxBonds
  rcases h with h | h
  · simp [h]
  · by_cases h' : mb < 0
    · simp [h']
    · have : sumNat sizes ≤ mb.toNat := by omega
      simp [h', this]

/-- **nocutoff_each_le_size.**  No sector is asked to keep more values than it has (sectors are
    non-empty, as every stored block has a positive dimension). -/
theorem nocutoff_each_le_size (sizes : List Nat) (mb : Int) (hpos : ∀ sz ∈ sizes, 1 ≤ sz) :
    List.Forall₂ (· ≤ ·) (calcSubMaxBonds sizes mb) sizes := by
  by_cases hr : mb < 0 ∨ (sumNat sizes : Int) ≤ mb
  · rw [nocutoff_unlimited sizes mb hr]
    exact List.forall₂_same.mpr (fun _ _ => le_refl _)
  · have hmb : mb = ((mb.toNat : Nat) : Int) := by omega
    have hlt : mb.toNat < sumNat sizes := by omega
    rw [hmb, calcSubMaxBonds_eq sizes mb.toNat hlt]
    set m := mb.toNat
    have hperm := argsortNat_perm (baseSplit sizes m)
    have hnd : ((argsortNat (baseSplit sizes m)).take (m - sumNat (baseSplit sizes m))).Nodup :=
      ((hperm.nodup_iff).mpr List.nodup_range).sublist (List.take_sublist _ _)
    rw [List.forall₂_iff_get]
    refine ⟨by rw [length_foldl_bump, baseSplit_length], ?_⟩
    intro i h1 h2
    have hget := getElem?_foldl_bump _ (baseSplit sizes m) hnd i
    have hbase : (baseSplit sizes m)[i]? = some (m * sizes[i] / sumNat sizes) := by
      unfold baseSplit
      rw [List.getElem?_map, List.getElem?_eq_getElem h2]
      rfl
    rw [hbase, List.getElem?_eq_getElem h1] at hget
    simp only [Option.map_some, Option.some.injEq] at hget
    simp only [List.get_eq_getElem]
    rw [hget]
    have hsz : 1 ≤ sizes[i] := hpos _ (List.getElem_mem h2)
    have hT : 0 < sumNat sizes := by omega
    have hlt' : m * sizes[i] / sumNat sizes < sizes[i] := by
      rw [Nat.div_lt_iff_lt_mul hT, Nat.mul_comm m]
      exact Nat.mul_lt_mul_of_pos_left hlt (by omega)
    split <;> omega

example : ∀ sz ∈ [3, 2, 5], 1 ≤ sz := by decide

/-! ### absorbing the singular values -/

/-- **absorb_same_product.**  Entry-wise, in any commutative ring: splitting `s = r * r` over both
    factors (`absorb = 0`), putting `s` on the left (`-1`) or on the right (`1`) gives the same
    term `u_ik * s_k * v_kj` of the product. -/
theorem absorb_same_product {R : Type} [CommRing R] (u r s v : R) (h : r * r = s) :
    (u * r) * (r * v) = (u * s) * v ∧ (u * s) * v = u * (s * v) := by
  subst h
  constructor <;> ring

/-- the same for whole rows/columns: the `(i, j)` entry `Σ_k u_k * s_k * v_k` -/
theorem absorb_same_product_sum {R : Type} [CommRing R] (usv : List (R × R × R × R))
    (h : ∀ q ∈ usv, q.2.1 * q.2.1 = q.2.2.1) :
    (usv.map (fun q => (q.1 * q.2.1) * (q.2.1 * q.2.2.2))).sum
      = (usv.map (fun q => (q.1 * q.2.2.1) * q.2.2.2)).sum ∧
    (usv.map (fun q => (q.1 * q.2.2.1) * q.2.2.2)).sum
      = (usv.map (fun q => q.1 * (q.2.2.1 * q.2.2.2))).sum := by
  constructor
  · congr 1
    apply List.map_congr_left
    intro q hq
    exact (absorb_same_product q.1 q.2.1 q.2.2.1 q.2.2.2 (h q hq)).1
  · congr 1
    apply List.map_congr_left
    intro q _
    ring

/-! ### the rebuilt bond table -/

/-- the new bond chargemap lists exactly the sectors with a non-zero count, with that count -/
theorem bondChargemap_perm (s : List (Charge × List Rat)) (counts : List Nat) :
    (bondChargemap s counts).Perm (((s.map (·.1)).zip counts).filter (fun p => p.2 != 0)) :=
  isort_perm _ _

end SymmModel.C13
