/-
  Property C08, fourth part — fuse / unfuse / reshape at the level of dense POSITIONS.
  (Parts one to three: Props/C08.lean, C08b.lean, C08c.lean; umbrella: Props/C08All3.lean.)

  Conventions as before: valid abelian arrays, every rank / symmetry / sparsity pattern, arbitrary
  scalar type `R` with `Zero`, `Neg`.

  How the statements read.  Fusing is SPARSE: the table of a fused index lists only the
  sub-sectors that occur in stored blocks (Model/Fuse.lean `calcFuseBlockInfo`), so the dense box
  of the fused array is in general smaller than the row-major reshape of the transposed dense box
  of the original; the positions that are dropped all lie in sectors the original does not store
  (they hold `0`).  The exact relation is therefore stated through ADDRESSES: a position `P` of the
  fused dense array has the address `(ns, i) = locateAll x.indices P`; on every multi-axis group
  axis the fused index's own table (`FuseP.splitAddr`, the inverse of `joinAddr`, i.e. of
  "start of the sub-sector inside the fused charge + row-major `ravel` of the sub-offsets", see
  `C05.extentStart?_spec` / `C05.splitAddr_joinAddr_inverse`) splits `(ns[ax], i[ax])` into the
  sub-charges and sub-offsets of the group; the expanded lists are `(permuted s perm,
  permuted offs perm)` for the address `(s, offs) = locateAll a.indices p` of the original
  position `p`.  This is "row-major reshape of the transposed dense form composed with the
  permutation of fused positions that the fused index's sorted table describes".
-/
import SymmModel.Proofs.Dense4b
import SymmModel.Proofs.Dense4c
import SymmModel.Props.C08All2

namespace SymmModel.C08
open SymmModel Arr DenseP Dense3 Dense4 ReshapeP FuseP

variable {R : Type}

/-! ## 1. fuse, complete (any admissible list of groups, insert strategy) -/

/-- **fuse_toDense.**  `x = fuse(a, *groups)`.
    (→) every position `p` of a stored sector of `a` has an image `P` in the fused dense box whose
        address splits — by the fused indices' own tables — into the permuted address of `p`, and
        `dX[P] = dA[p]`;
    (←) every position `P` of the fused dense box either holds `0` or is such an image.
    Hence: the entries of `dX` at images are the entries of `dA`, every other entry of `dX` is `0`,
    and every entry of `dA` that has no image is `0` (it lies in a sector `a` does not store). -/
theorem fuse_toDense [Zero R] [Neg R] (a : Arr R) (groups : List (List Nat))
    (hv : a.validB = true) (hg : C05.groupsOkB groups a.ndim = true) (hnf : a.fermi = false)
    (hne : NoEmpty a) (x : Arr R) (hx : fuseCore a groups .insert = .ok x) (hnex : NoEmpty x) :
    let gi := calcFuseGroupInfo groups a.duals
    ∃ dA dX, toDenseA a = .ok dA ∧ toDenseA x = .ok dX ∧ dA.shape = a.shape
      ∧ dX.shape = x.shape
      ∧ (∀ p, inBox a.shape p = true → ∀ s offs, locateAll a.indices p = some (s, offs) →
          s ∈ a.sectors →
          ∃ P ns i, inBox x.shape P = true ∧ locateAll x.indices P = some (ns, i)
            ∧ ns ∈ x.sectors
            ∧ (∀ g gaxes, groups[g]? = some gaxes → gaxes.length ≠ 1 →
                splitAddr (x.indices.getD (gi.position + g) default) (ns.getD (gi.position + g) (0, 0))
                  (i.getD (gi.position + g) 0)
                  = some (gaxes.map (fun ax => s.getD ax (0, 0)), gaxes.map (fun ax => offs.getD ax 0)))
            ∧ (∀ g gaxes, groups[g]? = some gaxes → gaxes.length = 1 →
                [ns.getD (gi.position + g) (0, 0)] = gaxes.map (fun ax => s.getD ax (0, 0))
                ∧ [i.getD (gi.position + g) 0] = gaxes.map (fun ax => offs.getD ax 0))
            ∧ permuted s gi.perm = ns.take gi.position
                ++ (groups.map (fun gaxes => gaxes.map (fun ax => s.getD ax (0, 0)))).flatten
                ++ ns.drop (gi.position + groups.length)
            ∧ permuted offs gi.perm = i.take gi.position
                ++ (groups.map (fun gaxes => gaxes.map (fun ax => offs.getD ax 0))).flatten
                ++ i.drop (gi.position + groups.length)
            ∧ dX.get P = dA.get p)
      ∧ (∀ P, inBox x.shape P = true → ∀ ns i, locateAll x.indices P = some (ns, i) →
          dX.get P = 0 ∨
          ∃ p s offs, ∃ segs : List (Sector × List Nat), inBox a.shape p = true
            ∧ locateAll a.indices p = some (s, offs) ∧ s ∈ a.sectors ∧ ns ∈ x.sectors
            ∧ segs.length = groups.length
            ∧ (∀ g gaxes, groups[g]? = some gaxes →
                (gaxes.length = 1 →
                  segs[g]? = some ([ns.getD (gi.position + g) (0, 0)], [i.getD (gi.position + g) 0]))
                ∧ (gaxes.length ≠ 1 →
                    splitAddr (x.indices.getD (gi.position + g) default)
                      (ns.getD (gi.position + g) (0, 0)) (i.getD (gi.position + g) 0) = segs[g]?))
            ∧ permuted s gi.perm = ns.take gi.position ++ (segs.map (·.1)).flatten
                ++ ns.drop (gi.position + groups.length)
            ∧ permuted offs gi.perm = i.take gi.position ++ (segs.map (·.2)).flatten
                ++ i.drop (gi.position + groups.length)
            ∧ dX.get P = dA.get p) := by
  intro gi
  obtain ⟨dA, dX, h1, h2, s1, s2, fwd⟩ := fuse_toDense_partial a groups hv hg hnf hne x hx hnex
  exact ⟨dA, dX, h1, h2, s1, s2, fwd,
    fuse_dense_back_main a groups hv hg hnf hne x hx hnex dA dX h1 h2⟩

/-- the public `fuse` (no empty group) is `_fuse_core`, so `fuse_toDense` is about `fuseA` too -/
theorem fuseA_eq_fuseCore [Zero R] (a : Arr R) (groups : List (List Nat)) (expandEmpty : Bool)
    (hg : C05.groupsOkB groups a.ndim = true) :
    fuseA a groups .insert expandEmpty = fuseCore a groups .insert :=
  C05.fuseA_eq_fuseCore a groups .insert expandEmpty a.ndim hg

/-! ## 2. unfuse and reshape -/

/-- **unfuse_toDense.**  `y = unfuse(x, axis)` for a valid abelian `x` whose index at `axis` is a
    fused index: `y`'s indices are `x`'s with that index replaced by its sub-indices;
    (→) every position `P` of a stored sector of `x`, address `(ns, i)`, has an image `q` in the
        dense box of `y` with address `(ns, i)` where position `axis` is replaced by the
        sub-charges / sub-offsets `splitAddr` reads from the fused index, and `dY[q] = dX[P]`;
    (←) every position of `y` either holds `0` or is such an image.
    (The dense box of `y` is in general LARGER than that of `x`: sub-sectors that the fused
    index's table does not list are positions of `y` holding `0`.) -/
theorem unfuse_toDense [Zero R] [Neg R] (x : Arr R) (axis : Nat) (ix : Index) (subs : List Index)
    (exts : Extents) (hv : x.validB = true) (hf : x.fermi = false)
    (hix : x.indices[axis]? = some ix) (hsub : ix.sub = some (subs, exts)) (hnex : NoEmpty x)
    (y : Arr R) (hy : unfuseA x axis = .ok y) (hney : NoEmpty y) :
    ∃ dX dY, toDenseA x = .ok dX ∧ toDenseA y = .ok dY ∧ dX.shape = x.shape
      ∧ dY.shape = y.shape ∧ y.indices = replaceWithSeq x.indices axis subs
      ∧ (∀ P, inBox x.shape P = true → ∀ ns i, locateAll x.indices P = some (ns, i) →
          ns ∈ x.sectors →
          ∃ q ss so, inBox y.shape q = true
            ∧ splitAddr ix (ns.getD axis (0, 0)) (i.getD axis 0) = some (ss, so)
            ∧ locateAll y.indices q = some (replaceWithSeq ns axis ss, replaceWithSeq i axis so)
            ∧ dY.get q = dX.get P)
      ∧ (∀ q, inBox y.shape q = true → ∀ K J, locateAll y.indices q = some (K, J) →
          dY.get q = 0 ∨
          ∃ P ns i ss so, inBox x.shape P = true ∧ locateAll x.indices P = some (ns, i)
            ∧ ns ∈ x.sectors
            ∧ splitAddr ix (ns.getD axis (0, 0)) (i.getD axis 0) = some (ss, so)
            ∧ K = replaceWithSeq ns axis ss ∧ J = replaceWithSeq i axis so
            ∧ dY.get q = dX.get P) :=
  unfuse_dense_main x axis ix subs exts hv hf hix hsub hnex y hy hney

/-- a reshape whose plan is ONE fuse call (`calcReshapeArgs` returned `([], [grouping], [])`: the
    target merges runs of adjacent axes that the planner puts into one call, C07e
    `planner_forward_plan_runs`) IS that fuse: `fuse_toDense` describes its dense form -/
theorem reshape_one_fuse_call [Zero R] [Neg R] (a : Arr R) (ns full : List Int) (nsN : List Nat)
    (grouping : List (List Nat)) (hf : a.fermi = false)
    (h1 : findFullReshape ns a.size = .ok full)
    (h2 : full.mapM (fun (d : Int) => if d < 0 then (throw Err.notimpl : Except Err Nat) else pure d.toNat)
      = .ok nsN)
    (h3 : calcReshapeArgs a.shape nsN a.subsizes = .ok ([], [grouping], []))
    (hg : C05.groupsOkB grouping a.ndim = true) :
    reshapeArr a ns = fuseCore a grouping .insert := by
  rw [reshapeArr_eq a ns full nsN _ h1 h2 h3]
  simp only [applyPlan, List.foldlM_nil, List.foldlM_cons, bind, Except.bind, pure, Except.pure,
    fuseDispatch, hf, Bool.false_eq_true, if_false]
  rw [C05.fuseA_eq_fuseCore a grouping .insert true a.ndim hg]
  cases fuseCore a grouping .insert <;> rfl

/-- a reshape whose plan is ONE unfuse call IS that unfuse: `unfuse_toDense` describes it -/
theorem reshape_one_unfuse_call [Zero R] [Neg R] (a : Arr R) (ns full : List Int) (nsN : List Nat)
    (ax : Nat) (hf : a.fermi = false)
    (h1 : findFullReshape ns a.size = .ok full)
    (h2 : full.mapM (fun (d : Int) => if d < 0 then (throw Err.notimpl : Except Err Nat) else pure d.toNat)
      = .ok nsN)
    (h3 : calcReshapeArgs a.shape nsN a.subsizes = .ok ([ax], [], [])) :
    reshapeArr a ns = unfuseA a ax := by
  rw [reshapeArr_eq a ns full nsN _ h1 h2 h3]
  simp only [applyPlan, List.foldlM_nil, List.foldlM_cons, bind, Except.bind, pure, Except.pure,
    unfuseDispatch, hf, Bool.false_eq_true, if_false]
  cases unfuseA a ax <;> rfl

/-- **reshape_toDense, one fuse call**: the dense form of `reshape(a, newshape)` when the plan is a
    single fuse call — both directions of `fuse_toDense` -/
theorem reshape_toDense_one_call [Zero R] [Neg R] (a : Arr R) (ns full : List Int) (nsN : List Nat)
    (grouping : List (List Nat)) (hv : a.validB = true) (hf : a.fermi = false)
    (h1 : findFullReshape ns a.size = .ok full)
    (h2 : full.mapM (fun (d : Int) => if d < 0 then (throw Err.notimpl : Except Err Nat) else pure d.toNat)
      = .ok nsN)
    (h3 : calcReshapeArgs a.shape nsN a.subsizes = .ok ([], [grouping], []))
    (hg : C05.groupsOkB grouping a.ndim = true) (hne : NoEmpty a)
    (x : Arr R) (hx : reshapeArr a ns = .ok x) (hnex : NoEmpty x) :
    fuseCore a grouping .insert = .ok x
    ∧ ∃ dA dX, toDenseA a = .ok dA ∧ toDenseA x = .ok dX ∧ dA.shape = a.shape ∧ dX.shape = x.shape
      ∧ (∀ p, inBox a.shape p = true → ∀ s offs, locateAll a.indices p = some (s, offs) →
          s ∈ a.sectors → ∃ P, inBox x.shape P = true ∧ dX.get P = dA.get p)
      ∧ (∀ P, inBox x.shape P = true →
          dX.get P = 0 ∨ ∃ p, inBox a.shape p = true ∧ dX.get P = dA.get p) := by
  have hx' : fuseCore a grouping .insert = .ok x := by
    rw [← reshape_one_fuse_call a ns full nsN grouping hf h1 h2 h3 hg]; exact hx
  refine ⟨hx', ?_⟩
  obtain ⟨dA, dX, e1, e2, e3, e4, fwd, bwd⟩ := fuse_toDense a grouping hv hg hf hne x hx' hnex
  refine ⟨dA, dX, e1, e2, e3, e4, ?_, ?_⟩
  · intro p hp s offs hl hs
    obtain ⟨P, _, _, hP, _, _, _, _, _, _, hval⟩ := fwd p hp s offs hl hs
    exact ⟨P, hP, hval⟩
  · intro P hP
    obtain ⟨ns', i', hl⟩ := locateAll_isSome (idx := x.indices) (p := P) hP
    rcases bwd P hP ns' i' hl with h | ⟨p, _, _, _, hp, _, _, _, _, _, _, _, hval⟩
    · exact Or.inl h
    · exact Or.inr ⟨p, hp, hval⟩

/-! ## 3. single-operand einsum at dense level -/

/-- **einsum, permutation equations** (`"ijk->kij"`: no repeated label, every label kept): the
    dense form of `einsum` is `np.einsum` of the dense form, i.e. the transposed dense array with
    `perm[k]` = position in `lhs` of the `k`-th output label.  Lifted from `C02.einsumA_elem`. -/
theorem einsum_perm_toDense [AddMonoid R] [Neg R] (a : Arr R) (lhs rhs : List Nat)
    (hnd : lhs.Nodup) (hndr : rhs.Nodup) (h1 : ∀ q ∈ lhs, q ∈ rhs) (h2 : ∀ q ∈ rhs, q ∈ lhs)
    (hl : lhs.length = a.ndim) (hv : a.validB = true) (hf : a.fermi = false) (hne : NoEmpty a) :
    ∃ c dA dC, einsumA a lhs rhs = .ok c ∧ c.indices = permuted a.indices (einPermOf lhs rhs)
      ∧ toDenseA a = .ok dA ∧ toDenseA c = .ok dC ∧ dA.shape = a.shape
      ∧ dC.shape = permuted a.shape (einPermOf lhs rhs)
      ∧ ∀ p, inBox a.shape p = true → dC.get (permuted p (einPermOf lhs rhs)) = dA.get p :=
  einsum_perm_toDense_main a lhs rhs hnd hndr h1 h2 hl hv hf hne

/-- … and `np.einsum` on the dense array computes exactly that (`Blk.einsumK`, via
    `C02.einsumK_get`: no traced label, so the sum has the single term at the assembled index) -/
theorem einsum_perm_dense_kernel [AddMonoid R] (d : Blk R) (lhs rhs : List Nat)
    (h1 : ∀ q ∈ lhs, q ∈ rhs) (i : List Nat) (hi : inBox (d.einsumK lhs rhs).shape i = true) :
    (d.einsumK lhs rhs).get i = d.get (TdotP.einIdx lhs rhs i []) := by
  rw [C02.einsumK_get d lhs rhs i hi, einTraced_nil h1]
  simp [allIdx]

/-
  NOT proved (stated here as the remaining targets):
  * `reshape_toDense` for plans with several calls (`callsR runs` with runs separated by kept
    axes gives one fuse call per maximal block of adjacent runs; plans with unfuse calls followed
    by fuse calls): the composition of the position relations of `fuse_toDense` /
    `unfuse_toDense` along the plan.  Each single step is proved above and every intermediate
    array is valid (C01 `fuseCore_valid`, `unfuseA_valid`), but the composed relation needs an
    induction over the calls that was not carried out.  At CONTENT level (same multiset of
    non-zero dense entries) every certified plan is covered by `reshape_toDense_content` (part 3).
  * single-operand `einsum` at dense level (`np.einsum(eq, dense a) = dense (einsum eq a)`) with
    traced labels, beyond the matrix trace (`trace_toDense`, part 3) and the permutation
    equations (`einsum_perm_toDense`): `C02.einsumA_elem` gives the value view as a double sum
    over stored sectors and the traced offsets box; lifting it needs the re-indexing of the dense
    traced box into (charge, offset) pairs for several traced labels at once (the analogue of
    `sum_locateAll_reindex` restricted to the traced axes, with equal charge tables on each traced
    pair) — not done.
-/

/-! ## examples -/

section Examples4
open C08.Ex

namespace Ex4
/-- `C08.Ex.x` fused into a vector (only the fused charge 0 occurs: length 1 + 4 = 5 < 9) -/
def xf : Arr Int := match fuseCore x [[0, 1]] .insert with | .ok r => r | .error _ => x
/-- `C08.Ex.y` (only the (1,1) sector stored) fused: the sub-sector (0,0) is not even in the table -/
def yf : Arr Int := match fuseCore y [[0, 1]] .insert with | .ok r => r | .error _ => y
end Ex4
open Ex4

example : fuseCore x [[0, 1]] .insert = .ok xf ∧ fuseCore y [[0, 1]] .insert = .ok yf := ⟨rfl, rfl⟩
example : dataOf (toDenseA xf) = some ([5], [5, 1, 2, 3, 4])
    ∧ dataOf (toDenseA yf) = some ([4], [10, 20, 30, 40]) := by decide +kernel
example : NoEmpty xf ∧ NoEmpty yf ∧ xf.validB = true := by decide +kernel
-- position 3 of the fused vector has address (charge 0, offset 3); the table splits it into the
-- sub-charges (1,1) and sub-offsets (1,0): position (2,1) of the matrix
example : locateAll xf.indices [3] = some ([(0, 0)], [3])
    ∧ splitAddr (xf.indices.getD 0 default) (0, 0) 3 = some ([(1, 0), (1, 0)], [1, 0])
    ∧ locateAll x.indices [2, 1] = some ([(1, 0), (1, 0)], [1, 0]) := by decide +kernel
example := fuse_toDense (R := Int) x [[0, 1]] (by decide) (by decide) rfl (by decide) xf rfl
  (by decide +kernel)
example := fuse_toDense (R := Int) y [[0, 1]] (by decide) (by decide) rfl (by decide) yf rfl
  (by decide +kernel)
-- unfusing gives the matrix back (the sub-indices keep all their charges: the unfused box is 3×3
-- for `yf` too, the positions of the unlisted sub-sector (0,0) hold 0)
example : dataOf (unfuseA xf 0 >>= toDenseA) = some ([3, 3], [5, 0, 0, 0, 1, 2, 0, 3, 4])
    ∧ dataOf (unfuseA yf 0 >>= toDenseA) = some ([3, 3], [0, 0, 0, 0, 10, 20, 0, 30, 40]) := by
  decide +kernel
example (ix : Index) (subs : List Index) (exts : Extents) (h1 : xf.indices[0]? = some ix)
    (h2 : ix.sub = some (subs, exts)) (y' : Arr Int) (hy : unfuseA xf 0 = .ok y') (hn : NoEmpty y') :=
  unfuse_toDense (R := Int) xf 0 ix subs exts (by decide +kernel) rfl h1 h2 (by decide +kernel) y' hy hn
-- einsum "ij->ji"
example : einPermOf [0, 1] [1, 0] = [1, 0] := by decide
example : dataOf (einsumA x [0, 1] [1, 0] >>= toDenseA) = some ([3, 3], [5, 0, 0, 0, 1, 3, 0, 2, 4]) := by
  decide +kernel
example := einsum_perm_toDense (R := Int) x [0, 1] [1, 0] (by decide) (by decide) (by decide)
  (by decide) rfl (by decide) rfl (by decide)
-- reshape (3,3) → (9,) is that fuse call
example : calcReshapeArgs x.shape [9] x.subsizes = .ok ([], [[[0, 1]]], []) := by decide +kernel
example : dataOf (reshapeArr x [9] >>= toDenseA) = some ([5], [5, 1, 2, 3, 4]) := by decide +kernel

end Examples4

end SymmModel.C08
