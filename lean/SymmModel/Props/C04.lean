/-
  Property C04 — "A fermionic network's value does not depend on how it is contracted":
  the sign laws S1–S3 of DESIGN §5, for lists of ARBITRARY length.

  About the model definitions
    `koszul`, `swapsLoop`, `isOdd`, `permuted`                     (Model/Sym.lean, Model/Basic.lean)
    `oddLt` (= `FermionicOperator.__lt__`), `resolveScan`, `resolveCombinedOddpos`
                                                                   (Model/Fermi.lean)
  Vocabulary (defined in `SymmModel.Proofs.Koszul` / `SymmModel.Proofs.Oddpos`, namespaces
  `SymmModel.KoszulP` / `SymmModel.OddposP`):
    `compose p q = permuted p q`     composition with `transpose(transpose(x,p),q) = transpose(x, compose p q)`
    `oddCount par l`                 number of odd entries among the axes listed in `l`
    `oddR a b = oddLt b a`           "`a` before `b` is an inversion"
    `invR oddR l`                    number of inversions of `l` w.r.t. `oddLt`
                                     (`invR r (a :: l) = #(b ∈ l with r a b) + invR r l`)
    `mergeOddpos pa la lb`           the label part of `resolveCombinedOddpos` (`resolveCombinedOddpos_eq_merge`)
  "sorted" is `List.Pairwise (oddLt · · = true)`, "pairwise-distinct labels" is
  `List.Pairwise (fun a b => a.1 ≠ b.1)`.

  Complete: S1 (`permuted_compose`, `compose_isPerm`, `koszul_cocycle`), S2 (`block_move_sign`,
  `reverse_block_sign`), S3 (`oddLt_*`, `resolveScan_sorted`, `resolveScan_sign`, `resolveScan_fuel`,
  `resolveScan_total`, `resolveCombinedOddpos_eq_merge`, `oddpos_assoc`, annihilation of an
  adjacent conjugate pair).  NOT in this file (missing, see the report): S4–S7 (statements about
  `tensordotF`), and the annihilation of conjugate pairs that are not adjacent when met.
-/
import SymmModel.Proofs.Oddpos

namespace SymmModel.C04
open SymmModel SymmModel.KoszulP SymmModel.OddposP

/-! ## S1. transposes compose; the Koszul sign is a cocycle -/

/-- `transpose(transpose(x, p), q)` re-indexes like `transpose(x, compose p q)` (any list `l`
    whose positions `p` mentions are valid) -/
theorem permuted_compose {α : Type} (l : List α) (p q : List Nat) (hp : ∀ i ∈ p, i < l.length) :
    permuted (permuted l p) q = permuted l (compose p q) :=
  permuted_permuted l p q hp

/-- the composite of two permutations of `range n` is one -/
theorem compose_isPerm (p q : List Nat) (n : Nat) (hp : p.Perm (List.range n))
    (hq : q.Perm (List.range n)) : (compose p q).Perm (List.range n) :=
  compose_perm hp hq

/-- S1: `koszul par (p ∘ q) = koszul par p · koszul (par ∘ p) q` — a pair of odd entries is
    reversed by the composite iff it is reversed by exactly one factor -/
theorem koszul_cocycle (par : List Bool) (p q : List Nat) (n : Nat) (hpar : par.length = n)
    (hp : p.Perm (List.range n)) (hq : q.Perm (List.range n)) :
    koszul par (some (compose p q))
      = koszul par (some p) * koszul (permuted par p) (some q) :=
  koszul_cocycle' par p q n hpar hp hq

example : [2, 0, 1].Perm (List.range 3) ∧ [1, 2, 0].Perm (List.range 3) :=
  ⟨perm_of_isPerm (by decide), perm_of_isPerm (by decide)⟩
example : compose [2, 0, 1] [0, 2, 1] = [2, 1, 0]
    ∧ permuted (permuted ['a', 'b', 'c'] [2, 0, 1]) [0, 2, 1] = ['c', 'b', 'a'] := by decide
example : koszul [true, true, true] (some (compose [2, 0, 1] [0, 2, 1])) = -1
    ∧ koszul [true, true, true] (some [2, 0, 1]) = 1
    ∧ koszul (permuted [true, true, true] [2, 0, 1]) (some [0, 2, 1]) = -1 := by decide

/-- the length hypothesis is needed (a too short parity list is re-indexed with a shift) -/
theorem koszul_cocycle_needs_length :
    koszul [true, true] (some (compose [0, 2, 1] [1, 0, 2]))
      ≠ koszul [true, true] (some [0, 2, 1]) * koszul (permuted [true, true] [0, 2, 1]) (some [1, 0, 2]) := by
  decide

/-! ## S2. block moves -/

/-- moving a contiguous block with `a` odd entries past a contiguous block with `b` odd entries
    costs `(-1)^(a·b)` -/
theorem block_move_sign (par : List Bool) (xs A B ys : List Nat) (n : Nat)
    (h : (xs ++ A ++ B ++ ys).Perm (List.range n)) :
    koszul par (some (xs ++ B ++ A ++ ys))
      = koszul par (some (xs ++ A ++ B ++ ys)) * (-1 : Int) ^ (oddCount par A * oddCount par B) := by
  rw [← sgn_eq_pow]; exact koszul_block_move par xs A B ys n h

/-- reversing a contiguous block with `k` odd entries costs `(-1)^(k(k-1)/2)` -/
theorem reverse_block_sign (par : List Bool) (xs A ys : List Nat) (n : Nat)
    (h : (xs ++ A ++ ys).Perm (List.range n)) :
    koszul par (some (xs ++ A.reverse ++ ys))
      = koszul par (some (xs ++ A ++ ys))
        * (-1 : Int) ^ (oddCount par A * (oddCount par A - 1) / 2) := by
  rw [← sgn_eq_pow]; exact koszul_reverse_block par xs A ys n h

example : ([4] ++ [0, 2, 1] ++ [3, 5] ++ []).Perm (List.range 6) := perm_of_isPerm (by decide)
example : oddCount [true, true, true, true, false, true] [0, 2, 1] = 3
    ∧ oddCount [true, true, true, true, false, true] [3, 5] = 2
    ∧ koszul [true, true, true, true, false, true] (some ([4] ++ [3, 5] ++ [0, 2, 1] ++ [])) = -1
    ∧ koszul [true, true, true, true, false, true] (some ([4] ++ [0, 2, 1] ++ [3, 5] ++ [])) = -1
    ∧ koszul [true, true, true, true, false, true] (some ([4] ++ [0, 2, 1].reverse ++ [3, 5])) = 1 := by
  decide

/-! ## S3. odd-position labels -/

/-- `FermionicOperator.__lt__` is a strict total order on `(label, dual)`: irreflexive,
    transitive, asymmetric, and total on distinct entries — in particular on entries with
    distinct labels -/
theorem oddLt_strict_total :
    (∀ a, oddLt a a = false)
    ∧ (∀ a b c, oddLt a b = true → oddLt b c = true → oddLt a c = true)
    ∧ (∀ a b, oddLt a b = true → oddLt b a = false)
    ∧ (∀ a b, a ≠ b → oddLt a b = true ∨ oddLt b a = true)
    ∧ (∀ a b : Int × Bool, a.1 ≠ b.1 → oddLt a b = true ∨ oddLt b a = true) :=
  ⟨oddLt_irrefl, fun _ _ _ => oddLt_trans, fun _ _ => oddLt_asymm, fun _ _ => oddLt_total,
   fun _ _ => oddLt_total_of_label⟩

example : oddLt (3, true) (1, true) = true ∧ oddLt (1, true) (1, false) = true
    ∧ oddLt (1, false) (3, false) = true := by decide

/-- partial correctness, any fuel: on pairwise-distinct labels, whenever the scan returns, it
    returns a permutation of its input that is sorted w.r.t. `oddLt` -/
theorem resolveScan_sorted (fuel : Nat) (l : List (Int × Bool)) (ph : Int)
    (out : List (Int × Bool)) (ph' : Int)
    (hd : l.Pairwise (fun a b => a.1 ≠ b.1))
    (h : resolveScan fuel [] l ph = .ok (out, ph')) :
    out.Perm l ∧ out.Pairwise (fun a b => oddLt a b = true) := by
  have hdesc : Desc (l.head?.toList ++ []) := by cases l <;> simp [Desc]
  obtain ⟨o1, o2, _⟩ := resolveScan_spec fuel [] l ph out ph' (by simpa [LabelsDistinct] using hd) hdesc h
  exact ⟨by simpa using o1, o2⟩

/-- … and the returned sign is the input sign times `(-1)^(number of inversions w.r.t. oddLt)` -/
theorem resolveScan_sign (fuel : Nat) (l : List (Int × Bool)) (ph : Int)
    (out : List (Int × Bool)) (ph' : Int)
    (hd : l.Pairwise (fun a b => a.1 ≠ b.1))
    (h : resolveScan fuel [] l ph = .ok (out, ph')) :
    ph' = ph * (-1 : Int) ^ (invR oddR l) := by
  have hdesc : Desc (l.head?.toList ++ []) := by cases l <;> simp [Desc]
  obtain ⟨_, _, o3⟩ := resolveScan_spec fuel [] l ph out ph' (by simpa [LabelsDistinct] using hd) hdesc h
  rw [← sgn_eq_pow]; simpa using o3

/-- the sorted permutation of a list is unique, so `resolveScan_sorted` determines the output -/
theorem sorted_unique (l m : List (Int × Bool)) (hl : l.Pairwise (fun a b => oddLt a b = true))
    (hm : m.Pairwise (fun a b => oddLt a b = true)) (p : l.Perm m) : l = m :=
  oddSorted_unique hl hm p

/-- the fuel `n*n + 2*n + 4` that `resolveCombinedOddpos` passes always suffices: the scan never
    reports out-of-fuel (`Err.other`), for EVERY input (conjugate pairs and clashes included) -/
theorem resolveScan_fuel (l : List (Int × Bool)) (ph : Int) :
    resolveScan (l.length * l.length + 2 * l.length + 4) [] l ph ≠ .error Err.other :=
  resolveScan_fuel_ok l ph

/-- total correctness on pairwise-distinct labels with that fuel -/
theorem resolveScan_total (l : List (Int × Bool)) (ph : Int)
    (hd : l.Pairwise (fun a b => a.1 ≠ b.1)) :
    ∃ out, out.Perm l ∧ out.Pairwise (fun a b => oddLt a b = true) ∧
      resolveScan (l.length * l.length + 2 * l.length + 4) [] l ph
        = .ok (out, ph * (-1 : Int) ^ (invR oddR l)) := by
  rw [← sgn_eq_pow]; exact OddposP.resolveScan_total l ph hd

example : [((5 : Int), false), (7, true), (2, true), (1, false)].Pairwise (fun a b => a.1 ≠ b.1) := by
  decide
example : resolveScan 28 [] [(5, false), (7, true), (2, true), (1, false)] 1
    = .ok ([(7, true), (2, true), (1, false), (5, false)], -1)
    ∧ invR oddR [(5, false), (7, true), (2, true), (1, false)] = 3 := by decide

/-- `resolveCombinedOddpos` = `mergeOddpos` on the operands' parity and labels, then the lazy
    global sign; `mergeOddpos pa la lb` is the scan of `la ++ lb` started with the sign
    `-1` iff `pa` and `|lb|` odd -/
theorem resolveCombinedOddpos_eq_merge {R : Type} (left right new : Arr R) :
    resolveCombinedOddpos left right new
      = (mergeOddpos left.parity left.oddpos right.oddpos).map (fun r =>
          { (if r.2 == -1 then new.phaseGlobal else new) with oddpos := r.1 })
    ∧ ∀ pa la lb, mergeOddpos pa la lb
        = resolveScan ((la ++ lb).length * (la ++ lb).length + 2 * (la ++ lb).length + 4) []
            (la ++ lb) (if pa && lb.length % 2 == 1 then -1 else 1) :=
  ⟨resolveCombinedOddpos_eq left right new, fun _ _ _ => rfl⟩

/-- for pairwise-distinct labels the merge succeeds, returns the sorted merge and the sign
    `(-1)^(pa·|lb| + inversions of la ++ lb)` -/
theorem oddpos_sign (pa : Bool) (la lb : List (Int × Bool))
    (hd : (la ++ lb).Pairwise (fun a b => a.1 ≠ b.1)) :
    ∃ out, out.Perm (la ++ lb) ∧ out.Pairwise (fun a b => oddLt a b = true) ∧
      mergeOddpos pa la lb
        = .ok (out, (-1 : Int) ^ (pa.toNat * lb.length + invR oddR (la ++ lb))) := by
  rw [← sgn_eq_pow]; exact mergeOddpos_spec pa la lb hd

/-- S3 associativity: three operands `A, B, C` with parities `pa, pb, _` and pairwise-distinct
    labels.  Merging `(A,B)` then `C` and merging `A` with `(B,C)` both succeed, give the same
    final label list and the same total sign (the intermediate results have parity `pa xor pb`
    resp. `pb xor pc`; only the left operand's parity enters a merge).  The hypotheses
    `|l| % 2 = parity` of valid arrays are not needed. -/
theorem oddpos_assoc (pa pb : Bool) (la lb lc : List (Int × Bool))
    (hd : (la ++ lb ++ lc).Pairwise (fun a b => a.1 ≠ b.1)) :
    ∃ lab sab lbc sbc out s1 s2,
      mergeOddpos pa la lb = .ok (lab, sab) ∧
      mergeOddpos (xor pa pb) lab lc = .ok (out, s1) ∧
      mergeOddpos pb lb lc = .ok (lbc, sbc) ∧
      mergeOddpos pa la lbc = .ok (out, s2) ∧
      sab * s1 = sbc * s2 :=
  oddpos_assoc' pa pb la lb lc hd

example : ([((4 : Int), false)] ++ [(1, false), (6, true)] ++ [(3, false)]).Pairwise
    (fun (a b : Int × Bool) => a.1 ≠ b.1) := by decide
example : mergeOddpos true [(4, false)] [(1, false), (6, true)]
      = .ok ([(6, true), (1, false), (4, false)], -1)
    ∧ mergeOddpos (xor true false) [(6, true), (1, false), (4, false)] [(3, false)]
      = .ok ([(6, true), (1, false), (3, false), (4, false)], 1)
    ∧ mergeOddpos false [(1, false), (6, true)] [(3, false)]
      = .ok ([(6, true), (1, false), (3, false)], -1)
    ∧ mergeOddpos true [(4, false)] [(6, true), (1, false), (3, false)]
      = .ok ([(6, true), (1, false), (3, false), (4, false)], 1) := by decide

/-! ### conjugate pairs (same label, opposite dualness) -/

/-- one step of the scan at an adjacent conjugate pair, anywhere in the list (zipper state
    `pre`, cursor on `a`): the pair is removed, the cursor steps back one entry, and the sign is
    multiplied by `-1` iff the pair meets as ket-then-bra (`b.dual`) -/
theorem resolveScan_annihilate_step (f : Nat) (pre : List (Int × Bool)) (a b : Int × Bool)
    (rest : List (Int × Bool)) (ph : Int) (h1 : a.1 = b.1) (h2 : a.2 ≠ b.2) :
    resolveScan (f + 1) pre (a :: b :: rest) ph
      = resolveScan f pre.tail (pre.head?.toList ++ rest) (if b.2 then -ph else ph) :=
  resolveScan_annihilate f pre a b rest ph (by simp [h1]) (by simpa using h2)

/-- a list `xs ++ a :: b :: ys` whose prefix up to `a` is sorted with distinct labels: the scan
    walks to the pair, annihilates it with sign `-1` iff `b.dual`, and carries on with
    `xs ++ ys` from one entry before the gap -/
theorem resolveScan_annihilate_adjacent (xs : List (Int × Bool)) (a b : Int × Bool)
    (ys : List (Int × Bool)) (f : Nat) (ph : Int)
    (hs : (xs ++ [a]).Pairwise (fun x y => oddLt x y = true))
    (hd : (xs ++ [a]).Pairwise (fun x y => x.1 ≠ y.1))
    (h1 : a.1 = b.1) (h2 : a.2 ≠ b.2) :
    resolveScan (f + 1 + xs.length) [] (xs ++ a :: b :: ys) ph
      = resolveScan f xs.reverse.tail (xs.reverse.head?.toList ++ ys)
          (if b.2 then -ph else ph) :=
  OddposP.resolveScan_annihilate_adjacent xs a b ys f ph hs hd h1 h2

/-- a lone conjugate pair: ket-then-bra gives `-1`, bra-then-ket `+1`, nothing remains -/
theorem resolveScan_pair (f : Nat) (a b : Int × Bool) (ph : Int) (h1 : a.1 = b.1) (h2 : a.2 ≠ b.2) :
    resolveScan (f + 2) [] [a, b] ph = .ok ([], if b.2 then -ph else ph) :=
  OddposP.resolveScan_pair f a b ph h1 h2

/-- equal label and equal dualness is the code's `ValueError` -/
theorem resolveScan_clash_step (f : Nat) (pre : List (Int × Bool)) (a b : Int × Bool)
    (rest : List (Int × Bool)) (ph : Int) (h1 : a.1 = b.1) (h2 : a.2 = b.2) :
    resolveScan (f + 1) pre (a :: b :: rest) ph = .error Err.value :=
  resolveScan_clash f pre a b rest ph (by simp [h1]) (by simp [h2])

example : resolveScan 40 [] [(9, true), (2, false), (2, true), (4, false)] 1
      = .ok ([(9, true), (4, false)], -1)
    ∧ resolveScan 40 [] [(9, true), (2, true), (2, false), (4, false)] 1
      = .ok ([(9, true), (4, false)], 1)
    ∧ resolveScan 40 [] [(2, true), (2, true)] 1 = .error Err.value := by decide

end SymmModel.C04
