/-
  Property C10 — umbrella module incl. C10h (mixed operand orders in every mode, three-tensor chains and
  chains of any length conjugated tensor by tensor, along any bracketing and in any mode).
-/
import SymmModel.Props.C10All6
import SymmModel.Props.C10h
