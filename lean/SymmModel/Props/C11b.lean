/-
  Property C11 (second part) — `eigh` reconstruction, fermionic `solve`, and the two clauses of
  C13 about the values after truncation (absorb options, truncation error).

  Per-call value contracts (each is a hypothesis on the blocks of the call, because no kernel over
  an exact scalar type can meet them for every block; each has a concrete instance below):

    `K.EighBlock b`        (Proofs/LinalgMore.lean)   Σ_t (v[i,t]·w[t])·conj v[j,t] = b[i,j]
    `K.SolvesOn a b`       (Proofs/LinalgSolveRecon)  arr · K.solve arr bb = bb on paired blocks
    `K.OrthoBlock conj b`  (Proofs/LinalgMore5.lean)  columns of u, rows of vh orthonormal

  `eigh_reconstructs`            abelian: (ev · diag w) · ev† = a with the blockwise contraction
                                 and the abelian adjoint `Arr.adjA` (conj, then axes reversed).
  `eigh_reconstructs_fermionic`  `ev.multiply_diagonal(w, 1) @ ev.dagger()` = a (`matmulF`,
                                 `daggerF`), pending signs on `a` allowed (the model syncs first);
                                 the sign `eigh_fermionic` puts on the eigenvalues of odd charges
                                 when the column index is not dual cancels against the flip
                                 `__matmul__` applies to the dual first index of `ev†`.
  `solve_solves_fermionic`       even `a`, pending signs on both operands: `a @ solve(a, b)` has
                                 `b`'s value view on every sector `a` reaches.
  `absorb_products_agree(_truncated)`  the three absorb options of `svd_truncated`
                                 (linalg.py:368-381, model `absorbA`) give products with the same
                                 sectors, pending signs and value view.
  `truncation_error_block`, `truncation_error`  squared error of the truncated product =
                                 discarded squared weight, per block / per kept sector.

  Structural hypotheses of the eigh theorems: rank 2, charge zero, the two indices have opposite
  directions and equal chargemaps (then all stored sectors are `(c, c)` and square).  Fermionic
  statements need `oddpos = []` on the even operands (even arrays of the library carry no label).
-/
import SymmModel.Proofs.LinalgMore6
import SymmModel.Props.C11

namespace SymmModel.C11
open SymmModel LinalgLemmas

variable {R : Type}

/-! ## 1. eigh -/

/-- **eigh_reconstructs** (abelian). -/
theorem eigh_reconstructs [Zero R] [Add R] [Mul R] [Neg R] [Conj R]
    (hc0 : Conj.conj (0 : R) = 0) (K : Kernels R) (hK : K.ShapeOk) (a : Arr R)
    (hv : a.validB = true) (h2 : a.ndim = 2) (hch : a.charge = a.sym.zero)
    (hopp : (a.indices.getD 1 default).dual = !(a.indices.getD 0 default).dual)
    (hcm : (a.indices.getD 0 default).cm = (a.indices.getD 1 default).cm)
    (hf : a.fermi = false) (hE : ∀ p ∈ a.blocks, K.EighBlock p.2) :
    ∃ w ev, eighA K a = .ok (w, ev) ∧
      ∀ s off, AddrOf a s off →
        (tensordotBlockwise (multiplyDiagonal ev w 1) ev.adjA [0] [1] [0] [1]).elem s off
          = a.elem s off :=
  eigh_recon_abelian hc0 hK ⟨hv, h2, hch, hopp, hcm⟩ hf hE

/-- **eigh_reconstructs_fermionic.**  The kernel contract is on the blocks `eigh` really
    factorises, i.e. those of `a.phaseSync`. -/
theorem eigh_reconstructs_fermionic [Zero R] [Add R] [Mul R] [Neg R] [Conj R] [SignLaws R]
    (hc0 : Conj.conj (0 : R) = 0) (K : Kernels R) (hK : K.ShapeOk) (a : Arr R)
    (hv : a.validB = true) (h2 : a.ndim = 2) (hch : a.charge = a.sym.zero)
    (hopp : (a.indices.getD 1 default).dual = !(a.indices.getD 0 default).dual)
    (hcm : (a.indices.getD 0 default).cm = (a.indices.getD 1 default).cm)
    (hf : a.fermi = true) (ho : a.oddpos = [])
    (hE : ∀ p ∈ a.phaseSync.blocks, K.EighBlock p.2) :
    ∃ w ev y, eighA K a = .ok (w, ev)
      ∧ Arr.matmulF (multiplyDiagonal ev w 1) ev.daggerF = .ok y ∧ y.oddpos = []
      ∧ ∀ s off, AddrOf a s off → y.elem s off = a.elem s off :=
  eigh_recon_fermi hc0 hK ⟨hv, h2, hch, hopp, hcm⟩ hf ho hE

/-! ## 2. solve, fermionic -/

/-- **solve_solves_fermionic.**  `a` an EVEN valid fermionic matrix without labels, `b` a valid
    fermionic vector with at most one label; both may carry pending signs.  The kernel is correct
    on the block pairs the call forms after syncing.  Then `a @ x` succeeds, carries `b`'s label
    and has `b`'s element at every row of every sector of `b` paired with a block of `a`. -/
theorem solve_solves_fermionic [Zero R] [Add R] [Mul R] [Neg R] (hn0 : -(0 : R) = 0)
    (K : Kernels R) (hK : K.ShapeOk) (a b x : Arr R) (hva : a.validB = true)
    (hvb : b.validB = true) (hfa : a.fermi = true) (hfb : b.fermi = true)
    (heven : a.parity = false) (hao : a.oddpos = []) (hbo : b.oddpos.length ≤ 1)
    (hS : K.SolvesOn a.phaseSync b.phaseSync) (h : solveA K a b = .ok x) :
    ∃ y, Arr.matmulF a x = .ok y ∧ y.oddpos = b.oddpos ∧
      ∀ s arr, (s, arr) ∈ a.blocks → [s.getD 0 (0, 0)] ∈ b.sectors →
        ∀ i, i < arr.shape.getD 0 0 →
          y.elem [s.getD 0 (0, 0)] [i] = b.elem [s.getD 0 (0, 0)] [i] :=
  solve_recon_fermi hn0 hK hva hvb hfa hfb heven hao hbo hS h

/-! ## 3. absorbing the singular values (C13) -/

/-- hypothesis on the backend's `sqrt` for the blocks of a singular-value vector -/
def SqrtOn [Zero R] [Mul R] (sqrtK : Blk R → Blk R) (s : BVec R) : Prop :=
  ∀ q ∈ s.blocks, (sqrtK q.2).shape = q.2.shape
    ∧ ∀ t, t < q.2.shape.getD 0 0 → (sqrtK q.2).get [t] * (sqrtK q.2).get [t] = q.2.get [t]

/-- **absorb_products_agree.**  `u, s, vh` the factors of `svd` of a valid matrix; for any two
    absorb options the blockwise products of the absorbed factors have the same sectors, the same
    pending signs and the same element at every address of `x`. -/
theorem absorb_products_agree [CommRing R] (K : Kernels R) (hK : K.ShapeOk) (x : Arr R)
    (hv : x.validB = true) (h2 : x.ndim = 2) (u : Arr R) (s : BVec R) (vh : Arr R)
    (hsvd : svdA K x = .ok (u, s, vh)) (sqrtK : Blk R → Blk R) (hsq : SqrtOn sqrtK s)
    (m1 m2 : Absorb) :
    let P1 := tensordotBlockwise (absorbA m1 sqrtK u s vh).1 (absorbA m1 sqrtK u s vh).2 [0] [1] [0] [1]
    let P2 := tensordotBlockwise (absorbA m2 sqrtK u s vh).1 (absorbA m2 sqrtK u s vh).2 [0] [1] [0] [1]
    P1.sectors = P2.sectors ∧ P1.phases = P2.phases
      ∧ ∀ sec off, AddrOf x sec off → P1.elem sec off = P2.elem sec off := by
  have h' := Except.ok.inj ((svdA_eq K hv h2).symm.trans hsvd)
  have hu := (Prod.mk.inj h').1
  have hs := (Prod.mk.inj (Prod.mk.inj h').2).1
  have hvh := (Prod.mk.inj (Prod.mk.inj h').2).2
  subst hu hs hvh
  have hsh := svd_itemShape hK hv h2
  obtain ⟨e1, e2, e3⟩ := absorb_agree_items (aligned_svd (K := K) hv h2) sqrtK
    (fun p => (p.2.shape.getD 0 0, min (p.2.shape.getD 0 0) (p.2.shape.getD 1 0), p.2.shape.getD 1 0))
    hsh (fun p hp => by
      have := hsq (colOf p.1, (K.svd p.2).2.1) (List.mem_map.mpr ⟨p, hp, rfl⟩)
      rw [(hsh p hp).2.1] at this
      exact this) m1 m2
  refine ⟨e1, e2, fun sec off ha => e3 sec off ?_⟩
  rcases ha with h | ⟨b, hm, hbox⟩
  · exact Or.inl (by simpa [Arr.sectors] using h)
  · refine Or.inr ⟨(sec, b), hm, rfl, ?_⟩
    obtain ⟨i0, i1, hi⟩ := ndim_two h2
    obtain ⟨r, c, m, n, B⟩ := mat_block hv hi hm
    simpa [B.hshape] using hbox

/-- **absorb_products_agree_truncated.**  The same after the truncation step `applyCounts`
    (`counts` aligned with the stored blocks): sectors with count 0 are absent from both
    products, on the kept ones the full `m × n` boxes agree. -/
theorem absorb_products_agree_truncated [CommRing R] (K : Kernels R) (hK : K.ShapeOk) (x : Arr R)
    (hv : x.validB = true) (h2 : x.ndim = 2) (u : Arr R) (s : BVec R) (vh : Arr R)
    (hsvd : svdA K x = .ok (u, s, vh)) (counts : List Nat) (hlen : counts.length = x.blocks.length)
    (sqrtK : Blk R → Blk R) (hsq : SqrtOn sqrtK (applyCounts u s vh counts).2.1)
    (m1 m2 : Absorb) :
    let u' := (applyCounts u s vh counts).1
    let s' := (applyCounts u s vh counts).2.1
    let vh' := (applyCounts u s vh counts).2.2
    let P1 := tensordotBlockwise (absorbA m1 sqrtK u' s' vh').1 (absorbA m1 sqrtK u' s' vh').2 [0] [1] [0] [1]
    let P2 := tensordotBlockwise (absorbA m2 sqrtK u' s' vh').1 (absorbA m2 sqrtK u' s' vh').2 [0] [1] [0] [1]
    P1.sectors = P2.sectors ∧ P1.phases = P2.phases
      ∧ ∀ sec off, AddrOf x sec off → P1.elem sec off = P2.elem sec off := by
  have h' := Except.ok.inj ((svdA_eq K hv h2).symm.trans hsvd)
  have hu := (Prod.mk.inj h').1
  have hs := (Prod.mk.inj (Prod.mk.inj h').2).1
  have hvh := (Prod.mk.inj (Prod.mk.inj h').2).2
  subst hu hs hvh
  rw [applyCounts_eq (S := fun b => (K.svd b).2.1) hv h2 hlen] at hsq ⊢
  have hsh := trunc_itemShape hK hv h2 hlen
  obtain ⟨e1, e2, e3⟩ := absorb_agree_items (aligned_trunc (K := K) hv h2 hlen) sqrtK
    (fun t => (t.1.2.shape.getD 0 0, t.2, t.1.2.shape.getD 1 0)) hsh
    (fun t ht => by
      have := hsq (colOf t.1.1, ((K.svd t.1.2).2.1).sliceK [0] [t.2]) (List.mem_map.mpr ⟨t, ht, rfl⟩)
      simpa using this) m1 m2
  refine ⟨e1, e2, fun sec off ha => ?_⟩
  by_cases hk : sec ∈ (kept x counts).map (fun t => t.1.1)
  · obtain ⟨t, ht, rfl⟩ := List.mem_map.mp hk
    apply e3
    rcases ha with h | ⟨b, hm, hbox⟩
    · exact absurd (List.mem_map.mpr ⟨t.1, (kept_mem hlen ht).1, rfl⟩) h
    · refine Or.inr ⟨t, ht, rfl, ?_⟩
      have hb : b = t.1.2 := by
        have h1 := alookup_of_mem_nodup (sectors_nodup hv) hm
        have h2' := alookup_of_mem_nodup (sectors_nodup hv) (kept_mem hlen ht).1
        rw [h1] at h2'
        exact Option.some.inj h2'
      subst hb
      obtain ⟨i0, i1, hi⟩ := ndim_two h2
      obtain ⟨r, c, m, n, B⟩ := mat_block hv hi hm
      simpa [B.hshape] using hbox
  · exact e3 sec off (Or.inl hk)

/-! ## 4. truncation error (C13) -/

open Finset in
/-- **truncation_error_block.**  For one block `b` (`m × n`) with `(u, s, vh) = K.svd b` meeting
    the svd value contract and orthonormality, and any array of entries `P i j` equal to those of
    `u[:, :c] · diag(s[:c]) · vh[:c, :]` (`c ≤ min m n`):
    `‖b − P‖² = Σ_{c ≤ t < min m n} conj(s[t]) · s[t]`. -/
theorem truncation_error_block [CommRing R] (conj : R →+* R) (K : Kernels R)
    (hC : K.SVDContract) (b : Blk R) (m n : Nat) (hs : b.shape = [m, n]) (hwf : b.wf = true)
    (hO : K.OrthoBlock conj b) (c : Nat) (hc : c ≤ min m n) (P : Nat → Nat → R)
    (hP : ∀ i j, i < m → j < n → P i j
      = ∑ t ∈ range c, ((K.svd b).1.get [i, t] * (K.svd b).2.1.get [t]) * (K.svd b).2.2.get [t, j]) :
    ∑ i ∈ range m, ∑ j ∈ range n, conj (b.get [i, j] - P i j) * (b.get [i, j] - P i j)
      = ∑ t ∈ Ico c (min m n), conj ((K.svd b).2.1.get [t]) * (K.svd b).2.1.get [t] :=
  LinalgLemmas.truncation_error_block conj hC hs hwf hO hc P hP

open Finset in
/-- the sliced kernel factors do have those entries (so `truncation_error_block` applies to the
    block `u[:, :c] · diag(s[:c]) · vh[:c, :]` the truncated arrays store) -/
theorem truncated_block_entries [CommRing R] (K : Kernels R) (b : Blk R) (m n c i j : Nat)
    (hi : i < m) (hj : j < n) :
    ((((K.svd b).1.sliceK [0, 0] [m, c]).mulAxisK ((K.svd b).2.1.sliceK [0] [c]) 1).tensordotK
        ((K.svd b).2.2.sliceK [0, 0] [c, n]) [1] [0]).get [i, j]
      = ∑ t ∈ range c, ((K.svd b).1.get [i, t] * (K.svd b).2.1.get [t]) * (K.svd b).2.2.get [t, j] :=
  trunc_entry hi hj

open Finset in
/-- **truncation_error** (array level, per kept sector).  `u, s, vh = svd(x)`, truncated with
    `counts`; `(sec, b)` a stored block of `x` with count `c ≠ 0`, `c ≤ min m n`, whose kernel
    factors are orthonormal.  With `P` the blockwise product of the truncated factors (`s`
    absorbed to the left; by `absorb_products_agree_truncated` any option gives the same values):
    the squared norm of `x − P` on that sector is the discarded squared weight of that sector. -/
theorem truncation_error [CommRing R] (conj : R →+* R) (K : Kernels R) (hK : K.ShapeOk)
    (hC : K.SVDContract) (x : Arr R) (hv : x.validB = true) (h2 : x.ndim = 2)
    (u : Arr R) (s : BVec R) (vh : Arr R) (hsvd : svdA K x = .ok (u, s, vh))
    (counts : List Nat) (hlen : counts.length = x.blocks.length)
    (sec : Sector) (b : Blk R) (c : Nat) (hmem : ((sec, b), c) ∈ x.blocks.zip counts)
    (hc0 : c ≠ 0) (m n : Nat) (hs : b.shape = [m, n]) (hO : K.OrthoBlock conj b)
    (hc : c ≤ min m n) :
    let u' := (applyCounts u s vh counts).1
    let s' := (applyCounts u s vh counts).2.1
    let vh' := (applyCounts u s vh counts).2.2
    let P := tensordotBlockwise (absorbA .left id u' s' vh').1 (absorbA .left id u' s' vh').2
      [0] [1] [0] [1]
    ∑ i ∈ range m, ∑ j ∈ range n,
        conj (x.elem sec [i, j] - P.elem sec [i, j]) * (x.elem sec [i, j] - P.elem sec [i, j])
      = ∑ t ∈ Ico c (min m n), conj ((K.svd b).2.1.get [t]) * (K.svd b).2.1.get [t] := by
  have h' := Except.ok.inj ((svdA_eq K hv h2).symm.trans hsvd)
  have hu := (Prod.mk.inj h').1
  have hs' := (Prod.mk.inj (Prod.mk.inj h').2).1
  have hvh := (Prod.mk.inj (Prod.mk.inj h').2).2
  subst hu hs' hvh
  rw [applyCounts_eq (S := fun b => (K.svd b).2.1) hv h2 hlen]
  have hk : ((sec, b), c) ∈ kept x counts :=
    List.mem_filter.mpr ⟨hmem, by simpa using hc0⟩
  exact truncation_error_kept conj hK hC hv h2 hlen hk hs hO hc

/-! ## examples: every hypothesis is satisfiable, and the statements compute on concrete data -/

open scoped SymmModel.Lazy   -- `Conj Int` (trivial conjugation)

/-- abelian charge-zero matrix, opposite directions, equal chargemaps, diagonal blocks -/
def exEa : Arr Int :=
  { sym := .U1, fermi := false, charge := (0, 0),
    indices := [Index.mk [((0, 0), 2), ((1, 0), 1)] false none,
                Index.mk [((0, 0), 2), ((1, 0), 1)] true none],
    blocks := [([(0, 0), (0, 0)], ⟨[2, 2], #[2, 0, 0, 3]⟩), ([(1, 0), (1, 0)], ⟨[1, 1], #[5]⟩)] }

theorem isDiag_22 (x y : Int) : IsDiag ⟨[2, 2], #[x, 0, 0, y]⟩ := by
  intro m hs i j hi hj hne
  have hm : m = 2 := by
    have := congrArg List.length hs
    have h0 : ([2, 2] : List Nat) = [m, m] := hs
    exact (List.cons.inj h0).1.symm
  subst hm
  have : (i = 0 ∧ j = 1) ∨ (i = 1 ∧ j = 0) := by omega
  rcases this with ⟨rfl, rfl⟩ | ⟨rfl, rfl⟩ <;> rfl

theorem isDiag_11 (x : Int) : IsDiag ⟨[1, 1], #[x]⟩ := by
  intro m hs i j hi hj hne
  have h0 : ([1, 1] : List Nat) = [m, m] := hs
  have hm : m = 1 := (List.cons.inj h0).1.symm
  subst hm
  omega

/-- hypotheses of `eigh_reconstructs` for `exEa` and the diagonal kernel -/
example : Kernels.eighDiag.ShapeOk ∧ exEa.validB = true ∧ exEa.ndim = 2
    ∧ exEa.charge = exEa.sym.zero
    ∧ (exEa.indices.getD 1 default).dual = !(exEa.indices.getD 0 default).dual
    ∧ (exEa.indices.getD 0 default).cm = (exEa.indices.getD 1 default).cm ∧ exEa.fermi = false
    ∧ (∀ p ∈ exEa.blocks, Kernels.eighDiag.EighBlock p.2) := by
  refine ⟨eighDiag_shapeOk, by decide, rfl, by decide, by decide, by decide, rfl, ?_⟩
  intro p hp
  simp only [exEa, List.mem_cons, List.not_mem_nil, or_false] at hp
  rcases hp with rfl | rfl
  · exact eighDiag_block _ (isDiag_22 2 3)
  · exact eighDiag_block _ (isDiag_11 5)

/-- … and the reconstruction computed -/
example : ((eighA Kernels.eighDiag exEa).toOption.map (fun p =>
      (tensordotBlockwise (multiplyDiagonal p.2 p.1 1) p.2.adjA [0] [1] [0] [1]).blocks.map
        (fun q => (q.1, q.2.shape, q.2.data.toList)))
    == some [([(0, 0), (0, 0)], [2, 2], [2, 0, 0, 3]), ([(1, 0), (1, 0)], [1, 1], [5])]) = true := by
  decide +kernel

/-- fermionic version: row index dual, column index NOT dual (so `eigh_fermionic` negates the
    eigenvalues of the odd charge 1 and `__matmul__` flips `ev†`), a pending sign on the odd block -/
def exEf : Arr Int :=
  { sym := .U1, fermi := true, charge := (0, 0),
    indices := [Index.mk [((0, 0), 2), ((1, 0), 1)] true none,
                Index.mk [((0, 0), 2), ((1, 0), 1)] false none],
    blocks := [([(0, 0), (0, 0)], ⟨[2, 2], #[2, 0, 0, 3]⟩), ([(1, 0), (1, 0)], ⟨[1, 1], #[5]⟩)],
    phases := [([(1, 0), (1, 0)], -1)] }

example : exEf.validB = true ∧ exEf.ndim = 2 ∧ exEf.charge = exEf.sym.zero
    ∧ (exEf.indices.getD 1 default).dual = !(exEf.indices.getD 0 default).dual
    ∧ (exEf.indices.getD 0 default).cm = (exEf.indices.getD 1 default).cm ∧ exEf.fermi = true
    ∧ exEf.oddpos = []
    ∧ (∀ p ∈ exEf.phaseSync.blocks, Kernels.eighDiag.EighBlock p.2) := by
  refine ⟨by decide, rfl, by decide, by decide, by decide, rfl, rfl, ?_⟩
  intro p hp
  obtain ⟨b0, hb0, hor⟩ := phaseSync_mem (s := p.1) (b' := p.2) hp
  have hd : IsDiag b0 := by
    simp only [exEf, List.mem_cons, List.not_mem_nil, or_false, Prod.mk.injEq] at hb0
    rcases hb0 with ⟨_, rfl⟩ | ⟨_, rfl⟩
    · exact isDiag_22 2 3
    · exact isDiag_11 5
  rcases hor with h | h
  · rw [h]; exact eighDiag_block _ hd
  · rw [h]; exact eighDiag_block _ (isDiag_negK hd)

/-- the eigenvalue of the odd sector is stored negated (`-(-5) = 5`), the product has no pending
    signs and carries the value view of `exEf` (`-5` on the odd sector) -/
example : ((eighA Kernels.eighDiag exEf).toOption.bind (fun p =>
      (Arr.matmulF (multiplyDiagonal p.2 p.1 1) p.2.daggerF).toOption.map (fun y =>
        (p.1.blocks.map (fun q => (q.1, q.2.data.toList)),
         y.blocks.map (fun q => (q.1, q.2.data.toList)), y.phases, y.oddpos)))
    == some ([((0, 0), [2, 3]), ((1, 0), [5])],
        [([(0, 0), (0, 0)], [2, 0, 0, 3]), ([(1, 0), (1, 0)], [-5])], [], [])) = true := by
  decide +kernel

/-- even fermionic matrix with identity blocks; its column index is not dual, so the solution's
    index is dual and `solve_fermionic` flips it -/
def exSa : Arr Int :=
  { sym := .U1, fermi := true, charge := (0, 0),
    indices := [Index.mk [((0, 0), 1), ((1, 0), 2)] true none,
                Index.mk [((0, 0), 1), ((1, 0), 2)] false none],
    blocks := [([(0, 0), (0, 0)], eyeI 1), ([(1, 0), (1, 0)], eyeI 2)] }

/-- odd right-hand side with a label and a pending sign -/
def exSb : Arr Int :=
  { sym := .U1, fermi := true, charge := (-1, 0),
    indices := [Index.mk [((0, 0), 1), ((1, 0), 2)] true none],
    blocks := [([(1, 0)], ⟨[2], #[5, 6]⟩)],
    phases := [([(1, 0)], -1)], oddpos := [(7, false)] }

example : Kernels.solveCopy.ShapeOk ∧ exSa.validB = true ∧ exSb.validB = true
    ∧ exSa.fermi = true ∧ exSb.fermi = true ∧ exSa.parity = false ∧ exSa.oddpos = []
    ∧ exSb.oddpos.length ≤ 1 ∧ Kernels.solveCopy.SolvesOn exSa.phaseSync exSb.phaseSync
    ∧ (solveA Kernels.solveCopy exSa exSb).toOption.isSome = true := by
  refine ⟨solveCopy_shapeOk, by decide +kernel, by decide +kernel, rfl, rfl, by decide, rfl,
    by decide, ?_, by decide +kernel⟩
  apply solveCopy_solvesOn
  intro s arr hm
  rw [phaseSync_blocks_nil _ rfl] at hm
  simp only [exSa, List.mem_cons, List.not_mem_nil, or_false, Prod.mk.injEq] at hm
  rcases hm with ⟨_, rfl⟩ | ⟨_, rfl⟩
  · exact ⟨1, rfl⟩
  · exact ⟨2, rfl⟩

/-- `a @ solve(a, b)`: `b`'s values with its pending sign, `b`'s label, no pending sign -/
example : ((solveA Kernels.solveCopy exSa exSb).toOption.bind (fun x =>
      (Arr.matmulF exSa x).toOption.map (fun y =>
        ((x.indices.getD 0 default).dual, x.phases,
         y.blocks.map (fun q => (q.1, q.2.data.toList)), y.phases, y.oddpos)))
    == some (true, [([(1, 0)], -1)], [([(1, 0)], [-5, -6])], [], [(7, false)])) = true := by
  decide +kernel

/-- ALL hypotheses of the abelian `solve_solves` (Props/C11.lean) hold together, including
    `ShapeOk` (the example next to that theorem uses a kernel that is not shape-correct for
    arbitrary blocks and does not list `ShapeOk`) -/
example : Kernels.solveCopy.ShapeOk
    ∧ ({ exSa with fermi := false } : Arr Int).validB = true
    ∧ ({ exSb with fermi := false, phases := [], oddpos := [] } : Arr Int).phases = []
    ∧ Kernels.solveCopy.SolvesOn ({ exSa with fermi := false } : Arr Int)
        ({ exSb with fermi := false, phases := [], oddpos := [] } : Arr Int)
    ∧ (solveA Kernels.solveCopy ({ exSa with fermi := false } : Arr Int)
        ({ exSb with fermi := false, phases := [], oddpos := [] } : Arr Int)).toOption.isSome = true := by
  refine ⟨solveCopy_shapeOk, by decide +kernel, rfl, ?_, by decide +kernel⟩
  apply solveCopy_solvesOn
  intro s arr hm
  simp only [exSa, List.mem_cons, List.not_mem_nil, or_false, Prod.mk.injEq] at hm
  rcases hm with ⟨_, rfl⟩ | ⟨_, rfl⟩
  · exact ⟨1, rfl⟩
  · exact ⟨2, rfl⟩

/-- absorb: with `Kernels.trivialFactor` all singular values are 1, and `sqrt = id` works -/
example (u : Arr Int) (s : BVec Int) (vh : Arr Int)
    (h : svdA Kernels.trivialFactor exM = .ok (u, s, vh)) : SqrtOn id s := by
  have hv : exM.validB = true := by decide
  have h2 : exM.ndim = 2 := rfl
  have h' := Except.ok.inj ((svdA_eq Kernels.trivialFactor hv h2).symm.trans h)
  have hs := (Prod.mk.inj (Prod.mk.inj h').2).1
  subst hs
  intro q hq
  obtain ⟨p, hp, rfl⟩ := List.mem_map.mp hq
  obtain ⟨i0, i1, hi⟩ := ndim_two h2
  obtain ⟨r, c, m, n, B⟩ := mat_block hv hi (s := p.1) (b := p.2) hp
  refine ⟨rfl, ?_⟩
  intro t ht
  simp only [id, trivialFactor_s p.2 B.hshape] at ht ⊢
  have ht' : t < min m n := ht
  rw [onesI_get ht']; rfl

/-- the three options give the same product on `exM` -/
example : ((svdA Kernels.trivialFactor exM).toOption.map (fun p =>
      ([Absorb.left, Absorb.right, Absorb.both].map (fun mode =>
        (tensordotBlockwise (absorbA mode id p.1 p.2.1 p.2.2).1 (absorbA mode id p.1 p.2.1 p.2.2).2
          [0] [1] [0] [1]).blocks.map (fun q => (q.1, q.2.data.toList)))))
    == some (List.replicate 3
        [([(0, 0), (-1, 0)], [1, 2]), ([(1, 0), (0, 0)], [3, 4, 5])])) = true := by
  decide +kernel

/-- truncation error: a block with orthonormal rows, `b = I · diag(1, 1) · b` -/
def bSwap : Blk Int := ⟨[2, 2], #[0, 1, 1, 0]⟩

example : Kernels.trivialFactor.SVDContract
    ∧ Kernels.trivialFactor.OrthoBlock (RingHom.id Int) bSwap := by
  refine ⟨trivialFactor_svd, ?_⟩
  intro m n hs t t' ht ht'
  have h0 : ([2, 2] : List Nat) = [m, n] := hs
  have hm : m = 2 := (List.cons.inj h0).1.symm
  have hn : n = 2 := (List.cons.inj (List.cons.inj h0).2).1.symm
  subst hm hn
  have h1 : t = 0 ∨ t = 1 := by omega
  have h2 : t' = 0 ∨ t' = 1 := by omega
  rcases h1 with rfl | rfl <;> rcases h2 with rfl | rfl <;> decide

/-- keeping one of the two unit singular values of `bSwap` leaves squared error 1 -/
example : (Finset.range 2).sum (fun i => (Finset.range 2).sum (fun j =>
      (bSwap.get [i, j] - ((((Kernels.trivialFactor.svd bSwap).1.sliceK [0, 0] [2, 1]).mulAxisK
          ((Kernels.trivialFactor.svd bSwap).2.1.sliceK [0] [1]) 1).tensordotK
          ((Kernels.trivialFactor.svd bSwap).2.2.sliceK [0, 0] [1, 2]) [1] [0]).get [i, j]) ^ 2)) = 1 := by
  decide +kernel

end SymmModel.C11
