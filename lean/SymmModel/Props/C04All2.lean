import SymmModel.Props.C04All
import SymmModel.Props.C04c
