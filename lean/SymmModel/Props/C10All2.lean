/- umbrella for property C10: involutions / adjoint laws (C10), single-array norm (C10b), network
   form of the norm for two tensors (C10c) -/
import SymmModel.Props.C10All
import SymmModel.Props.C10c
