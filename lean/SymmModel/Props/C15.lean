/-
  SymmModel.Props.C15 — results do not depend on call history, caches or threads.

  Model: SymmModel/Model/Cache.lean (the fuse-information cache of
  `cached_fuse_block_info` as a sequential function and as a thread machine over its atomic
  dict operations; the default-contraction-mode global and its context manager; the hash-key
  trees).  Helper lemmas: SymmModel/Proofs/C15.lean.

  The statements about *results* are proved for every `Policy` (move-to-end on a hit or not,
  evict oldest or newest, guarded or unguarded pop): replacing LRU by FIFO, or evicting the
  newest entry, changes hit rates only.  `Policy.code` is the code in /repo today
  (`popitem` guarded since commit 039ae71); `Policy.unrepaired` is the code before it.
-/
import SymmModel.Proofs.C15
namespace SymmModel.C15
open SymmModel FuseCache

section generic
variable {α κ β : Type} [BEq κ] [LawfulBEq κ]

/-- For every cache size (any integer: 0 = disabled, 1, negative, …), every policy and every
    finite history of calls starting from the empty cache, every call returns `compute` of
    its own argument — provided the key determines the computed value. -/
theorem cache_coherent_all_histories (P : Policy) (S : CacheSpec α κ β)
    (hK : ∀ x y, S.keyOf x = S.keyOf y → S.compute x = S.compute y)
    (maxsize : Int) (xs : List α) :
    (runCallsP P S (FuseCache.empty maxsize) xs).1 = xs.map (fun x => some (S.compute x)) :=
  (runCallsP_spec P S hK xs (FuseCache.empty maxsize) (coherent_nil S)).1

/-- The same from any warm cache whose entries are all of the form `(keyOf x, compute x)`,
    and that form is kept (this is the invariant). -/
theorem cache_coherent_from_warm (P : Policy) (S : CacheSpec α κ β)
    (hK : ∀ x y, S.keyOf x = S.keyOf y → S.compute x = S.compute y)
    (c : FuseCache κ β) (hc : Coherent S c.entries) (xs : List α) :
    (runCallsP P S c xs).1 = xs.map (fun x => some (S.compute x)) ∧
    Coherent S (runCallsP P S c xs).2.entries :=
  ⟨(runCallsP_spec P S hK xs c hc).1, (runCallsP_spec P S hK xs c hc).2.1⟩

/-- Sequential histories never leave more than `maxsize` entries behind (for a negative
    `maxsize`: none). -/
theorem cache_size_bounded (P : Policy) (S : CacheSpec α κ β)
    (hK : ∀ x y, S.keyOf x = S.keyOf y → S.compute x = S.compute y)
    (maxsize : Int) (xs : List α) :
    (runCallsP P S (FuseCache.empty maxsize) xs).2.entries.length ≤ maxsize.toNat := by
  have h := (runCallsP_spec P S hK xs (FuseCache.empty maxsize) (coherent_nil S)).2.2.2
  exact h (by simp [FuseCache.empty])

/-- One call on a full-enough cache keeps the bound (the step form of `cache_size_bounded`). -/
theorem cache_size_bounded_step (P : Policy) (S : CacheSpec α κ β)
    (hK : ∀ x y, S.keyOf x = S.keyOf y → S.compute x = S.compute y)
    (c : FuseCache κ β) (hc : Coherent S c.entries) (x : α)
    (hle : c.entries.length ≤ c.maxsize.toNat) :
    (callP P S c x).cache.entries.length ≤ c.maxsize.toNat :=
  (callP_spec P S hK c x hc).2.2.2 hle

/-- A memoised pure function returns what the function returns, after any history of other
    calls and for any cache size (the `functools.lru_cache` analogue: key = the argument). -/
theorem memo_pure {α β : Type} [BEq α] [LawfulBEq α] (P : Policy) (f : α → β) (maxsize : Int)
    (xs : List α) :
    (runCallsP P ({ keyOf := id, compute := f } : CacheSpec α α β) (FuseCache.empty maxsize) xs).1
      = xs.map (fun x => some (f x)) :=
  cache_coherent_all_histories P _ (fun x y h => by simp only [id] at h; rw [h]) maxsize xs

/-- Thread machine: for every number of threads, every program per thread, every schedule,
    every policy and every cache size, starting from any coherent cache: every call that has
    completed returned `compute` of its own argument, in program order. -/
theorem interleaving_results_correct (P : Policy) (S : CacheSpec α κ β)
    (hK : ∀ x y, S.keyOf x = S.keyOf y → S.compute x = S.compute y)
    (c : FuseCache κ β) (hc : Coherent S c.entries) (progs : List (List α)) (sched : List Nat) :
    let m := runSched P S ⟨c, spawn progs⟩ sched
    (∀ t ∈ m.threads, ∀ p ∈ t.out, p.2 = S.compute p.1) ∧
    m.threads.map (fun t => t.out.map Prod.fst ++ t.todo) = progs ∧
    Coherent S m.cache.entries := by
  obtain ⟨⟨h1, h2, h3⟩, _, _⟩ := runSched_inv P S hK progs sched ⟨c, spawn progs⟩ (inv_spawn S c hc progs)
  exact ⟨fun t ht => (h2 t ht).1, h3, h1⟩

omit [LawfulBEq κ] in
/-- The code as it is (guarded `popitem`): in no schedule of any number of threads does any
    call raise.  No hypothesis on the key is needed. -/
theorem interleaving_no_raise (S : CacheSpec α κ β) (touch popLast : Bool)
    (c : FuseCache κ β) (progs : List (List α)) (sched : List Nat) :
    (runSched { touch := touch, popLast := popLast, guarded := true } S ⟨c, spawn progs⟩ sched).anyRaised
      = false := by
  have key : ∀ (sched : List Nat) (m : Machine α κ β), (∀ t ∈ m.threads, t.raised = false) →
      ∀ t ∈ (runSched { touch := touch, popLast := popLast, guarded := true } S m sched).threads,
        t.raised = false := by
    intro sched
    induction sched with
    | nil => intro m h; exact h
    | cons i rest ih =>
      intro m h
      simp only [runSched, List.foldl_cons]
      apply ih
      intro t' ht'
      unfold stepAt at ht'
      split at ht'
      · exact h t' ht'
      · rename_i t hti
        rcases List.mem_or_eq_of_mem_set ht' with ht' | ht'
        · exact h t' ht'
        · have hcnt := (stepThread_cnt { touch := touch, popLast := popLast, guarded := true } S m.cache t).2
          have hr := h t (List.mem_of_getElem? hti)
          rw [ht']
          rcases hcnt with ⟨_, _, _, e⟩ | ⟨_, _, _, _, e⟩ | ⟨_, _, _, hh | hh⟩
          · rw [e, hr]
          · rw [e, hr]
          · exact hh.2.2
          · simpa using hh.2
  simp only [Machine.anyRaised, List.any_eq_false]
  intro t ht
  have := key sched ⟨c, spawn progs⟩ (by
    intro t ht
    simp only [spawn, List.mem_map] at ht
    obtain ⟨p, _, rfl⟩ := ht
    rfl) t ht
  simp [this]

omit [LawfulBEq κ] in
/-- The unrepaired code (unguarded `popitem`) cannot raise either while the number of threads
    is at most `maxsize + 1`  (for `maxsize = 1`: two threads). -/
theorem interleaving_no_raise_unrepaired_partial (S : CacheSpec α κ β) (touch popLast : Bool)
    (c : FuseCache κ β) (progs : List (List α)) (sched : List Nat)
    (hT : (progs.length : Int) ≤ c.maxsize + 1) :
    (runSched { touch := touch, popLast := popLast, guarded := false } S ⟨c, spawn progs⟩ sched).anyRaised
      = false := by
  have h := runSched_cnt { touch := touch, popLast := popLast, guarded := false } S sched
    ⟨c, spawn progs⟩ (by simpa [spawn] using hT) (cntInv_spawn c progs)
  simp only [Machine.anyRaised, List.any_eq_false]
  intro t ht
  simp [h.1 t ht]

end generic

/-! ### the unrepaired step: the three-thread counterexample (regression) -/

/-- abstract keys: the function cached is the identity on `Nat` -/
def natSpec : CacheSpec Nat Nat Nat := { keyOf := id, compute := id }

/-- threads 0,1,2 call with keys 0,1,1 on an empty cache of `maxsize = 1`:
    all look up (miss), all insert (2 entries), all pass `len > 1`, then pop in turn. -/
def raceSchedule : List Nat := [0, 1, 2, 0, 1, 2, 0, 1, 2, 0, 1, 2]

/-- `interleaving_no_raise` is FALSE of the code before 039ae71: the third pop raises. -/
theorem interleaving_no_raise_unrepaired_false :
    (runSched Policy.unrepaired natSpec ⟨FuseCache.empty 1, spawn [[0], [1], [1]]⟩ raceSchedule).anyRaised
      = true := by decide

/-- which thread dies, and that the other two returned the right values -/
example :
    ((runSched Policy.unrepaired natSpec ⟨FuseCache.empty 1, spawn [[0], [1], [1]]⟩ raceSchedule).threads.map
      (fun t => (t.out, t.raised))) = [([(0, 0)], false), ([(1, 1)], false), ([], true)] := by decide

/-- the same schedule on the repaired code: nobody raises, everybody is right, cache empty -/
example :
    let m := runSched Policy.code natSpec ⟨FuseCache.empty 1, spawn [[0], [1], [1]]⟩ raceSchedule
    (m.threads.map (fun t => (t.out, t.raised)), m.cache.entries)
      = ([([(0, 0)], false), ([(1, 1)], false), ([(1, 1)], false)], []) := by decide

/-- the bound of `interleaving_no_raise_unrepaired_partial` is tight also for `maxsize = 2`
    (four threads) and for a negative size (two threads) -/
example :
    (runSched Policy.unrepaired natSpec ⟨FuseCache.empty 2, spawn [[0], [1], [2], [2]]⟩
      [0, 1, 2, 3, 0, 1, 2, 3, 0, 1, 2, 3, 0, 1, 2, 3]).anyRaised = true := by decide
example :
    (runSched Policy.unrepaired natSpec ⟨FuseCache.empty (-1), spawn [[0], [0]]⟩
      [0, 1, 0, 1, 0, 1, 0, 1]).anyRaised = true := by decide

/-- the hypothesis of the partial theorem is satisfiable (two threads, `maxsize = 1`) -/
example : ((([[0], [1]] : List (List Nat)).length : Int) ≤ (FuseCache.empty 1 : FuseCache Nat Nat).maxsize + 1) := by
  decide

/-! ### sequential function = one thread of the machine -/

/-- Running one thread alone for five steps (the longest path through a call) gives exactly
    what the sequential function `callP` gives: result and cache. -/
theorem call_eq_single_thread {α κ β : Type} [BEq κ] [LawfulBEq κ] (P : Policy)
    (S : CacheSpec α κ β) (c : FuseCache κ β) (x : α) :
    let m := runSched P S ⟨c, spawn [[x]]⟩ [0, 0, 0, 0, 0]
    m.cache.entries = (callP P S c x).cache.entries ∧
    m.threads.map (fun t => (t.out.map Prod.snd, t.raised)) =
      [match (callP P S c x).res with | some v => ([v], false) | none => ([], true)] := by
  rw [callP_eq]
  simp only [runSched, List.foldl_cons, List.foldl_nil, spawn, List.map_cons, List.map_nil]
  by_cases h0 : c.maxsize = 0
  · simp [stepAt, stepThread, h0, Thread.finish]
  by_cases hb : S.bypass x = true
  · simp [stepAt, stepThread, h0, hb, Thread.finish]
  cases hl : alookup c.entries (S.keyOf x) with
  | some v =>
    by_cases ht : P.touch = true
    · simp [stepAt, stepThread, h0, hb, hl, ht, Thread.finish, moveToEnd_isSome hl]
    · simp [stepAt, stepThread, h0, hb, hl, ht, Thread.finish]
  | none =>
    simp only [missBranch]
    by_cases hr : S.raises (S.compute x) = true
    · simp [stepAt, stepThread, h0, hb, hl, hr, Thread.finish]
    by_cases hlen : ((ainsert c.entries (S.keyOf x) (S.compute x)).length : Int) > c.maxsize
    · obtain ⟨es2, h2⟩ := popitem_isSome (β := β) P.popLast (ainsert_ne_nil c.entries (S.keyOf x) (S.compute x))
      simp [stepAt, stepThread, h0, hb, hl, hr, hlen, h2, Thread.finish]
    · simp [stepAt, stepThread, h0, hb, hl, hr, hlen, Thread.finish]

/-! ### the real cache: keys of arrays -/

/-- The key contains everything the plan reads: equal keys ⇒ equal plans (as values of
    `Except Err FuseInfo`, propositional equality — indices, extents, block map, errors). -/
theorem key_complete {R R' : Type} (a : Arr R) (a' : Arr R') (g g' : List (List Nat))
    (h : keyOfArr a g = keyOfArr a' g') : calcFuseBlockInfo a g = calcFuseBlockInfo a' g' := by
  obtain ⟨h1, h2, h3, h4⟩ := keyOfArr_inj a a' g g' h
  rw [calcFuseBlockInfo_reads, calcFuseBlockInfo_reads, h1, h2, h3, h4]

/-- …and nothing else: the key is exactly (indices with all their sub-structure, the ordered
    sector tuple, the symmetry, the groups).  One dualness, one block size, one charge label,
    one missing sector, the sub-index structure, the symmetry or the groups changed ⇒ another key. -/
theorem key_exact {R R' : Type} (a : Arr R) (a' : Arr R') (g g' : List (List Nat)) :
    keyOfArr a g = keyOfArr a' g' ↔
      (a.indices = a'.indices ∧ a.sectors = a'.sectors ∧ a.sym = a'.sym ∧ g = g') := by
  constructor
  · exact keyOfArr_inj a a' g g'
  · intro ⟨h1, h2, h3, h4⟩
    simp only [keyOfArr, h1, h2, h3, h4]

/-- the hypothesis of the generic theorems holds for the real cache -/
theorem fuseSpec_keyDetermines (R : Type) (maxsectors : Nat) :
    ∀ x y, (fuseSpec R maxsectors).keyOf x = (fuseSpec R maxsectors).keyOf y →
      (fuseSpec R maxsectors).compute x = (fuseSpec R maxsectors).compute y :=
  fun x y h => key_complete x.1 y.1 x.2 y.2 h

/-- C15 for `cached_fuse_block_info`, sequentially: whatever was called before (arrays that
    differ in one attribute included), with whatever cache size and sector limit, each call
    returns the plan `calc_fuse_block_info` computes for its own arguments. -/
theorem fuse_cache_history_independent (R : Type) (P : Policy) (maxsize : Int) (maxsectors : Nat)
    (calls : List (Arr R × List (List Nat))) :
    (runCallsP P (fuseSpec R maxsectors) (FuseCache.empty maxsize) calls).1
      = calls.map (fun x => some (calcFuseBlockInfo x.1 x.2)) :=
  cache_coherent_all_histories P (fuseSpec R maxsectors) (fuseSpec_keyDetermines R maxsectors) maxsize calls

/-- …and concurrently: every completed call of every thread in every schedule. -/
theorem fuse_cache_schedule_independent (R : Type) (P : Policy) (maxsize : Int) (maxsectors : Nat)
    (progs : List (List (Arr R × List (List Nat)))) (sched : List Nat) :
    ∀ t ∈ (runSched P (fuseSpec R maxsectors) ⟨FuseCache.empty maxsize, spawn progs⟩ sched).threads,
      ∀ p ∈ t.out, p.2 = calcFuseBlockInfo p.1.1 p.1.2 :=
  (interleaving_results_correct P (fuseSpec R maxsectors) (fuseSpec_keyDetermines R maxsectors)
    (FuseCache.empty maxsize) (coherent_nil _) progs sched).1

/-! ### the default contraction mode -/
open ModeCtx

/-- `with default_tensordot_mode(mode): body` — whatever the body does (sets the mode, nests
    further blocks, raises), the mode after the block is the mode before it. -/
theorem mode_ctx_restores {μ : Type} (mode : Option μ) (body : List (Act μ)) (s : State μ) :
    (exec (.withMode mode body) s).state = s := rfl

/-- the exception of a raising body still propagates out of the block -/
theorem mode_ctx_propagates {μ : Type} (mode : Option μ) (body : List (Act μ)) (s : State μ) :
    (exec (.withMode mode body) s).raised = (execList body mode).raised := rfl

/-- a whole program whose only direct `set` calls are inside `with` blocks (at any depth of
    `with`, arbitrarily nested with `try`) leaves the mode as it found it -/
theorem mode_ctx_restores_nested {μ : Type} (prog : List (Act μ)) (s : State μ)
    (h : noBareSetList prog = true) : (execList prog s).state = s :=
  execList_noBareSet prog s h

/-- `set_default_tensordot_mode(None)` is a no-op; any other value is stored -/
theorem mode_set_none_noop {μ : Type} (s : State μ) : ModeCtx.set none s = s := rfl
theorem mode_set_some {μ : Type} (m : μ) (s : State μ) : ModeCtx.get (ModeCtx.set (some m) s) = some m := rfl

/-- satisfiable, with a raising nested body that also sets the mode -/
example : noBareSetList
    [Act.withMode (some "fused") [Act.set (some "blockwise"), Act.withMode none [Act.get, Act.raise], Act.get],
     Act.tryExcept [Act.get]] = true := by decide
example : (execList
    [Act.tryExcept [Act.withMode (some "fused") [Act.set (some "blockwise"),
                      Act.withMode none [Act.get, Act.raise], Act.get]], Act.get] (some "auto")).trace
    = [none, some "auto"] := by decide

end SymmModel.C15
