/-
  Property C07 — umbrella module: all six parts of the property theorems.
-/
import SymmModel.Props.C07All4
import SymmModel.Props.C07f
