/-
  C06 (eighth part) — "fusing uncontracted indices before or after contraction is likewise
  equivalent", form (b): ONE group `g` of FREE legs of the LEFT operand at an ARBITRARY position,
  legs in ANY order, fused BEFORE the contraction WITHOUT a preliminary transposition — versus
  contracting first and fusing legs of the result AFTERWARDS.  Abelian, operands not aligned,
  blockwise contraction, either fuse strategy.

  * `shiftAxes a g x` (`TdotP.shiftAxes`): where the axis `x ∉ g` of `a` sits in `fuse(a, [g])`
    (`_fuse_core` puts the fused leg at `bondPos a g = min g`, the other legs keep their order):
    `shiftAxes_below` / `shiftAxes_mem_range` / `shiftAxes_injective` characterise it.
  * `tensordot_fuse_group_pre` — the renumbered contraction: `fuse(a, [g])` succeeds (strategy `m`),
    the public `tensordot` of the fused operand with `b` over `(xa.map (shiftAxes a g), xb)`
    succeeds, and at the result address read off ANY full address `(ML', MO')` of the fused operand's
    table box (free part `permuted · (freeAxes _ xa')`, followed by any address `(Rs, oR)` of `b`'s
    free legs) it holds the element of `tensordot(a, b, (xa, xb))` at the address read off the full
    address `(ML, MO)` of `a` that `(ML', MO')` decodes to (fused leg: through the fused index's own
    table, `decAx`; other legs copied).
  * `tensordot_fuse_group_commute` — before = after: with `c = tensordot(a, b, (xa, xb))` and ANY
    group `g'` of legs of `c`: `fuse(c, [g'])` succeeds, and whenever an address `(ns2, i2)` of its
    table box decodes (through ITS own table) to the same address of `c` as above — for the
    corresponding legs `g' = g.map (position among a's free legs)` the group part of that address
    is `(permuted ML g, permuted MO g)`: `result_group_part` — the two arrays hold the same
    element, the element of `c` there.
  NOT proved here (the brief's (c), (a')): a group of legs of the RIGHT operand (mirror image of
  `TdotP.group_commute`), the fermionic two-sided free-leg form, the transfer to fused / auto
  contraction modes.  Also not proved: that the address layouts of the two results coincide
  literally outside the fused leg (both are "free legs in order, fused leg at the smallest group
  position"); the statement is at decoded addresses, each side through its own table, as in
  C06e's `tensordot_fuse_free_commute`.
-/
import SymmModel.Props.C06g
import SymmModel.Proofs.FuseCommuteH2

namespace SymmModel.C06
open SymmModel SymmModel.TdotP SymmModel.GradedP SymmModel.RoutesP SymmModel.AssocP
open SymmModel.Assoc3P SymmModel.Assoc4P

variable {R : Type}

/-! ## the renumbering -/

/-- what `shiftAxes` is: the `j`-th axis outside the group goes to the `j`-th position other than
    the fused one -/
theorem shiftAxes_def [Zero R] (X : Arr R) {g : List Nat} (hne : g ≠ []) (hnd : g.Nodup)
    (hlt : ∀ x ∈ g, x < X.ndim) (x : Nat) :
    shiftAxes X g x
      = (freeAxes (FuseP.fusedArrM X [g]).ndim [bondPos X g]).getD ((freeAxes X.ndim g).idxOf x) 0 := by
  rw [one_ndim ⟨hne, hnd, hlt⟩]; rfl

/-- the renumbered axis is a position of the fused array other than the fused leg's -/
theorem shiftAxes_mem_range [Zero R] (X : Arr R) {g : List Nat} (hne : g ≠ []) (hnd : g.Nodup)
    (hlt : ∀ x ∈ g, x < X.ndim) {x : Nat} (hx : x < X.ndim) (hxg : x ∉ g) :
    shiftAxes X g x < (FuseP.fusedArrM X [g]).ndim ∧ shiftAxes X g x ≠ bondPos X g :=
  ⟨by rw [one_ndim ⟨hne, hnd, hlt⟩]; exact shiftAxes_lt ⟨hne, hnd, hlt⟩ ⟨hx, hxg⟩,
    shiftAxes_ne_pos ⟨hne, hnd, hlt⟩ ⟨hx, hxg⟩⟩

theorem shiftAxes_injective (X : Arr R) {g : List Nat} (hne : g ≠ []) (hnd : g.Nodup)
    (hlt : ∀ x ∈ g, x < X.ndim) {x y : Nat} (hx : x < X.ndim ∧ x ∉ g) (hy : y < X.ndim ∧ y ∉ g)
    (e : shiftAxes X g x = shiftAxes X g y) : x = y :=
  shiftAxes_inj ⟨hne, hnd, hlt⟩ hx hy e

/-- the renumbering transports every per-axis datum: reading a list `V'` of the fused array through
    the renumbered axes is reading the original's `V` through the original axes, whenever the
    untouched parts of `V'` and `V` agree (index tables: `one_free_indices`) -/
theorem shiftAxes_read [Zero R] {α : Type} (X : Arr R) {g : List Nat} (hne : g ≠ []) (hnd : g.Nodup)
    (hlt : ∀ x ∈ g, x < X.ndim) (d : α) {V' V : List α}
    (hV' : V'.length = (FuseP.fusedArrM X [g]).ndim) (hV : V.length = X.ndim)
    (hf : permuted V' (freeAxes (FuseP.fusedArrM X [g]).ndim [bondPos X g]) = permuted V (freeAxes X.ndim g))
    (l : List Nat) (hl : ∀ x ∈ l, x < X.ndim ∧ x ∉ g) :
    permuted V' (l.map (shiftAxes X g)) = permuted V l := by
  rw [one_ndim ⟨hne, hnd, hlt⟩] at hV' hf
  exact permuted_shift ⟨hne, hnd, hlt⟩ d hV' hV hf l hl

/-- the index tables of the renumbered contracted legs are those of the original contracted legs -/
theorem shiftAxes_indices [Zero R] (X : Arr R) {g : List Nat} (hne : g ≠ []) (hnd : g.Nodup)
    (hlt : ∀ x ∈ g, x < X.ndim) (l : List Nat) (hl : ∀ x ∈ l, x < X.ndim ∧ x ∉ g) :
    permuted (FuseP.fusedArrM X [g]).indices (l.map (shiftAxes X g)) = permuted X.indices l :=
  permuted_shift ⟨hne, hnd, hlt⟩ default (FuseP.newIdxM_length (OneOk.groupsOk ⟨hne, hnd, hlt⟩)) rfl
    (one_free_indices ⟨hne, hnd, hlt⟩) l hl

/-! ## fuse a free-leg group of the left operand, then contract -/

/-- **tensordot_fuse_group_pre.** -/
theorem tensordot_fuse_group_pre [AddCommMonoid R] [Mul R] [Neg R]
    (hz1 : ∀ x : R, 0 * x = 0) (hz2 : ∀ x : R, x * 0 = 0) (a b : Arr R) (xa xb g : List Nat) (m : FuseMode)
    (ha : a.validB = true) (hb : b.validB = true) (hfa : a.fermi = false) (hfb : b.fermi = false)
    (hnA : xa.Nodup) (hnB : xb.Nodup) (hA : ∀ x ∈ xa, x < a.ndim) (hB : ∀ x ∈ xb, x < b.ndim)
    (hlen : xa.length = xb.length)
    (hne : g ≠ []) (hnd : g.Nodup) (hlt : ∀ x ∈ g, x < a.ndim) (hdisj : ∀ x ∈ xa, x ∉ g) :
    fuseA a [g] m false = .ok (FuseP.fusedArrM a [g])
    ∧ tensordotA (FuseP.fusedArrM a [g]) b
        (.pair ((xa.map (shiftAxes a g)).map Int.ofNat) (xb.map Int.ofNat)) .blockwise
        = .ok (tensordotBlockwise (FuseP.fusedArrM a [g]) b
            (freeAxes (FuseP.fusedArrM a [g]).ndim (xa.map (shiftAxes a g))) (xa.map (shiftAxes a g)) xb
            (freeAxes b.ndim xb))
    ∧ ∀ (ML' ML : Sector) (MO' MO shp' shpA : List Nat) (Rs : Sector) (oR shpR : List Nat),
        Arr.blockShape? (FuseP.fusedArrM a [g]).indices ML' = some shp' → inBox shp' MO' = true →
        Arr.blockShape? a.indices ML = some shpA → inBox shpA MO = true →
        decAx a [g] 0 (ML'.getD (bondPos a g) (0, 0)) (MO'.getD (bondPos a g) 0)
          = some (permuted ML g, permuted MO g) →
        permuted ML' (freeAxes (FuseP.fusedArrM a [g]).ndim [bondPos a g]) = permuted ML (freeAxes a.ndim g) →
        permuted MO' (freeAxes (FuseP.fusedArrM a [g]).ndim [bondPos a g]) = permuted MO (freeAxes a.ndim g) →
        Arr.blockShape? (permuted b.indices (freeAxes b.ndim xb)) Rs = some shpR → inBox shpR oR = true →
        (tensordotBlockwise (FuseP.fusedArrM a [g]) b
            (freeAxes (FuseP.fusedArrM a [g]).ndim (xa.map (shiftAxes a g))) (xa.map (shiftAxes a g)) xb
            (freeAxes b.ndim xb)).elem
            (permuted ML' (freeAxes (FuseP.fusedArrM a [g]).ndim (xa.map (shiftAxes a g))) ++ Rs)
            (permuted MO' (freeAxes (FuseP.fusedArrM a [g]).ndim (xa.map (shiftAxes a g))) ++ oR)
          = (cPlain a b xa xb).elem
              (permuted ML (freeAxes a.ndim xa) ++ Rs) (permuted MO (freeAxes a.ndim xa) ++ oR) := by
  have h : OneOk a g := ⟨hne, hnd, hlt⟩
  have hA' : ∀ x ∈ xa.map (shiftAxes a g), x < (FuseP.fusedArrM a [g]).ndim := by
    intro y hy
    obtain ⟨x, hx, rfl⟩ := List.mem_map.mp hy
    rw [one_ndim h]; exact shiftAxes_lt h ⟨hA x hx, hdisj x hx⟩
  refine ⟨fuseA_any_mode a [g] m ha h.groupsOk, ?_, ?_⟩
  · exact tensordotA_blockwise_ok (FuseP.fusedArrM a [g]) b _ (xa.map (shiftAxes a g)) xb
      (ValidP.parseAxes_nat _ _ _ xb (by rw [List.length_map]; exact hlen) hA' hB)
  · intro ML' ML MO' MO shp' shpA Rs oR shpR h1 h2 h3 h4 h5 h6 h7 h8 h9
    exact group_commute hz1 hz2 a b xa xb g ha hb hfa (phases_nil_of_validB hb hfb) h hdisj hnA hnB hA hB hlen
      h1 h2 h3 h4 h5 h6 h7 h8 h9

/-- the group part of a result address: for the legs of the result that correspond to the group
    `g` of `a` (positions of `g`'s axes among `a`'s free legs), the group part of the result address
    `(permuted ML (free a) ++ Rs)` is the group part of `ML` -/
theorem result_group_part {α : Type} (n : Nat) (xa g : List Nat) (ML Rs : List α) (hML : ML.length = n)
    (hlt : ∀ x ∈ g, x < n) (hdisj : ∀ x ∈ g, x ∉ xa) :
    permuted (permuted ML (freeAxes n xa) ++ Rs) (g.map (fun x => (freeAxes n xa).idxOf x)) = permuted ML g := by
  have hl : (permuted ML (freeAxes n xa)).length = (freeAxes n xa).length :=
    permuted_length _ _ (by intro x hx; rw [hML]; exact (mem_freeAxes.mp hx).1)
  unfold permuted
  rw [List.filterMap_map]
  apply List.filterMap_congr
  intro x hx
  have hm : x ∈ freeAxes n xa := mem_freeAxes.mpr ⟨hlt x hx, hdisj x hx⟩
  have hi : (freeAxes n xa).idxOf x < (freeAxes n xa).length := List.idxOf_lt_length_of_mem hm
  simp only [Function.comp]
  show (permuted ML (freeAxes n xa) ++ Rs)[(freeAxes n xa).idxOf x]? = ML[x]?
  rw [List.getElem?_append_left (by rw [hl]; exact hi),
    permuted_getElem? ML (freeAxes n xa) (by intro y hy; rw [hML]; exact (mem_freeAxes.mp hy).1),
    List.getElem?_eq_getElem hi, List.getElem_idxOf hi]
  rfl

/-- **tensordot_fuse_group_commute** (abelian; left operand; group anywhere, any order; no
    preliminary transposition). -/
theorem tensordot_fuse_group_commute [AddCommMonoid R] [Mul R] [Neg R]
    (hz1 : ∀ x : R, 0 * x = 0) (hz2 : ∀ x : R, x * 0 = 0) (a b : Arr R) (xa xb g g' : List Nat)
    (m m' : FuseMode)
    (ha : a.validB = true) (hb : b.validB = true) (hfa : a.fermi = false) (hfb : b.fermi = false)
    (hsym : a.sym = b.sym) (hopp : ValidP.oppositeDualsB a b xa xb = true)
    (hnA : xa.Nodup) (hnB : xb.Nodup) (hA : ∀ x ∈ xa, x < a.ndim) (hB : ∀ x ∈ xb, x < b.ndim)
    (hne : g ≠ []) (hnd : g.Nodup) (hlt : ∀ x ∈ g, x < a.ndim) (hdisj : ∀ x ∈ xa, x ∉ g)
    (hne' : g' ≠ []) (hnd' : g'.Nodup) (hlt' : ∀ x ∈ g', x < (cPlain a b xa xb).ndim) :
    fuseA a [g] m false = .ok (FuseP.fusedArrM a [g])
    ∧ tensordotA a b (.pair (xa.map Int.ofNat) (xb.map Int.ofNat)) .blockwise = .ok (cPlain a b xa xb)
    ∧ fuseA (cPlain a b xa xb) [g'] m' false = .ok (FuseP.fusedArrM (cPlain a b xa xb) [g'])
    ∧ ∃ cf, tensordotA (FuseP.fusedArrM a [g]) b
          (.pair ((xa.map (shiftAxes a g)).map Int.ofNat) (xb.map Int.ofNat)) .blockwise = .ok cf
      ∧ ∀ (ML' ML : Sector) (MO' MO shp' shpA : List Nat) (Rs : Sector) (oR shpR : List Nat)
          (ns2 : Sector) (i2 shp2 : List Nat),
        Arr.blockShape? (FuseP.fusedArrM a [g]).indices ML' = some shp' → inBox shp' MO' = true →
        Arr.blockShape? a.indices ML = some shpA → inBox shpA MO = true →
        decAx a [g] 0 (ML'.getD (bondPos a g) (0, 0)) (MO'.getD (bondPos a g) 0)
          = some (permuted ML g, permuted MO g) →
        permuted ML' (freeAxes (FuseP.fusedArrM a [g]).ndim [bondPos a g]) = permuted ML (freeAxes a.ndim g) →
        permuted MO' (freeAxes (FuseP.fusedArrM a [g]).ndim [bondPos a g]) = permuted MO (freeAxes a.ndim g) →
        Arr.blockShape? (permuted b.indices (freeAxes b.ndim xb)) Rs = some shpR → inBox shpR oR = true →
        Arr.blockShape? (FuseP.fusedArrM (cPlain a b xa xb) [g']).indices ns2 = some shp2 → inBox shp2 i2 = true →
        decAx (cPlain a b xa xb) [g'] 0 (ns2.getD (bondPos (cPlain a b xa xb) g') (0, 0))
            (i2.getD (bondPos (cPlain a b xa xb) g') 0)
          = some (permuted (permuted ML (freeAxes a.ndim xa) ++ Rs) g',
                  permuted (permuted MO (freeAxes a.ndim xa) ++ oR) g') →
        permuted ns2 (freeAxes (FuseP.fusedArrM (cPlain a b xa xb) [g']).ndim [bondPos (cPlain a b xa xb) g'])
          = permuted (permuted ML (freeAxes a.ndim xa) ++ Rs) (freeAxes (cPlain a b xa xb).ndim g') →
        permuted i2 (freeAxes (FuseP.fusedArrM (cPlain a b xa xb) [g']).ndim [bondPos (cPlain a b xa xb) g'])
          = permuted (permuted MO (freeAxes a.ndim xa) ++ oR) (freeAxes (cPlain a b xa xb).ndim g') →
        cf.elem (permuted ML' (freeAxes (FuseP.fusedArrM a [g]).ndim (xa.map (shiftAxes a g))) ++ Rs)
            (permuted MO' (freeAxes (FuseP.fusedArrM a [g]).ndim (xa.map (shiftAxes a g))) ++ oR)
          = (FuseP.fusedArrM (cPlain a b xa xb) [g']).elem ns2 i2
        ∧ (FuseP.fusedArrM (cPlain a b xa xb) [g']).elem ns2 i2
          = (cPlain a b xa xb).elem
              (permuted ML (freeAxes a.ndim xa) ++ Rs) (permuted MO (freeAxes a.ndim xa) ++ oR) := by
  have hlen : xa.length = xb.length := by
    unfold ValidP.oppositeDualsB at hopp
    simp only [Bool.and_eq_true, beq_iff_eq] at hopp
    exact hopp.1
  have hvc : (cPlain a b xa xb).validB = true := by
    have := ValidP.tensordotBlockwise_valid a b xa xb ((ValidP.validB_iff _).mp ha)
      ((ValidP.validB_iff _).mp hb) hsym hfa hopp hnA hnB hA hB
    rw [without_range, without_range] at this
    exact (ValidP.validB_iff _).mpr this
  have hfc : (cPlain a b xa xb).fermi = false := (tensordotBlockwise_fields a b _ xa xb _).2.1.trans hfa
  have hcn : (cPlain a b xa xb).ndim = (freeAxes a.ndim xa).length + (freeAxes b.ndim xb).length :=
    tensordotBlockwise_rank a b xa xb
  obtain ⟨f1, t1, hpre⟩ := tensordot_fuse_group_pre hz1 hz2 a b xa xb g m ha hb hfa hfb hnA hnB hA hB hlen
    hne hnd hlt hdisj
  obtain ⟨f2, _, _, _, hpost⟩ := fuse_group_elem (cPlain a b xa xb) g' m' hvc hfc hne' hnd' hlt'
  refine ⟨f1, tensordotA_blockwise_ok a b _ xa xb (ValidP.parseAxes_nat a.ndim b.ndim xa xb hlen hA hB),
    f2, _, t1, ?_⟩
  intro ML' ML MO' MO shp' shpA Rs oR shpR ns2 i2 shp2 h1 h2 h3 h4 h5 h6 h7 h8 h9 k1 k2 k3 k4 k5
  have ebn : b.indices.length = b.ndim := rfl
  have hMLl : ML.length = a.ndim := (blockShape?_length h3).1
  have hMOl : MO.length = a.ndim := by rw [inBox_length h4, (blockShape?_length h3).2]; rfl
  have hRl : Rs.length = (freeAxes b.ndim xb).length := by
    rw [(blockShape?_length h8).1, permuted_length _ _ (by simpa [ebn] using mem_freeAxes_lt)]
  have hoRl : oR.length = (freeAxes b.ndim xb).length := by
    rw [inBox_length h9, (blockShape?_length h8).2, permuted_length _ _ (by simpa [ebn] using mem_freeAxes_lt)]
  have e1 := hpre ML' ML MO' MO shp' shpA Rs oR shpR h1 h2 h3 h4 h5 h6 h7 h8 h9
  have e2 := hpost ns2 i2 shp2 (permuted ML (freeAxes a.ndim xa) ++ Rs) (permuted MO (freeAxes a.ndim xa) ++ oR)
    k1 k2
    (by rw [List.length_append, permuted_length _ _ (by intro x hx; rw [hMLl]; exact (mem_freeAxes.mp hx).1),
          hRl, hcn])
    (by rw [List.length_append, permuted_length _ _ (by intro x hx; rw [hMOl]; exact (mem_freeAxes.mp hx).1),
          hoRl, hcn])
    k3 k4 k5
  exact ⟨e1.trans e2.symm, e2⟩

/-! ### non-vacuity and sanity -/

-- `exA[i,j,k]` with `exG[l,j',n]` over `j` (axis 1 of each): the group `g = [2, 0]` of free legs of
-- `exA` is NOT adjacent (it straddles the contracted axis) and listed in reversed order; the fused
-- leg sits at position 0, the contracted axis stays at position 1; the corresponding legs of the
-- result `c[i,k,l,n]` are `g' = [1, 0]`
example : exA.validB = true ∧ exG.validB = true ∧ exA.fermi = false ∧ exG.fermi = false
    ∧ exA.sym = exG.sym ∧ ValidP.oppositeDualsB exA exG [1] [1] = true
    ∧ ([2, 0] : List Nat).Nodup ∧ (∀ x ∈ ([2, 0] : List Nat), x < exA.ndim) ∧ (∀ x ∈ ([1] : List Nat), x ∉ ([2, 0] : List Nat))
    ∧ bondPos exA [2, 0] = 0 ∧ ([1] : List Nat).map (shiftAxes exA [2, 0]) = [1]
    ∧ shiftAxes exA [1, 0] 2 = 1 ∧ shiftAxes exA [2, 1] 0 = 0
    ∧ ([2, 0] : List Nat).map (fun x => (freeAxes exA.ndim [1]).idxOf x) = [1, 0]
    ∧ (∀ x ∈ ([1, 0] : List Nat), x < (cPlain exA exG [1] [1]).ndim)
    ∧ (cPlain exA exG [1] [1]).blocks.length ≠ 0 := by decide +kernel

-- sanity: the two routes on this example store the same non-zero data
example :
    (match fuseA exA [[2, 0]] .insert false, tensordotA exA exG (.pair [1] [1]) .blockwise with
     | .ok af, .ok c =>
        match tensordotA af exG (.pair [1] [1]) .blockwise, fuseA c [[1, 0]] .concat false with
        | .ok cf, .ok cq =>
          cf.blocks.all (fun p => (alookup cq.blocks p.1).map (·.data) == some p.2.data)
          && cq.blocks.all (fun p => (alookup cf.blocks p.1).map (·.data) == some p.2.data)
          && cf.blocks.length != 0
        | _, _ => false
     | _, _ => false) = true := by decide +kernel

end SymmModel.C06
