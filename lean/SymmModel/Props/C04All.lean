import SymmModel.Props.C04
import SymmModel.Props.C04b
