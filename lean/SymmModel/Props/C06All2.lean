/-
  C06 — umbrella module, round 2: `C06All` (alignment, fused = blockwise for abelian operands)
  plus `C06c` (operands of any kind with synced signs; `tensordot_fermionic` in fused / auto mode;
  transfer of the blockwise-only theorems C03 / C04 S4–S6 to fused / auto mode).
-/
import SymmModel.Props.C06All
import SymmModel.Props.C06c
