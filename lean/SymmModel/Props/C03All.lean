import SymmModel.Props.C03
import SymmModel.Props.C03b
