/-
  Umbrella for property C03: sign laws (C03), the graded refinement of the contraction, matrix
  product and trace (C03b), and the graded form of the single-array einsum proved next to the
  lazy-sign lemmas (Props/C09b: `C09.einsumF_refines_graded`).
-/
import SymmModel.Props.C03
import SymmModel.Props.C03b
import SymmModel.Props.C09b
