import SymmModel.Props.C05All2
import SymmModel.Props.C05e
