/-
  Property C05 — umbrella: part a (`Props/C05.lean`: plan, tables, address map; one-group forms of
  the round trip / insert = concat / element map) and part b (`Props/C05b.lean`: the general case
  for arbitrary lists of groups) and part c (`Props/C05c.lean`: the fermionic fuse).
-/
import SymmModel.Props.C05
import SymmModel.Props.C05b
import SymmModel.Props.C05c
