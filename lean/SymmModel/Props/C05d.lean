/-
  Property C05, part d.

  * item 3 — the sign of the fermionic fuse, factorised over the groups: `fuseSign_groups`,
    `koszul_vperm_groups`, `unfuseSign_reversal`.
      revSign par g        = (-1)^(k(k-1)/2), k = number of odd entries of `par` on the axes `g`
      groupSign a groups S g = flipSign(non-dual legs of g)(S) · revSign(parities S)(g)
      fuseSignF a groups s = Π_{g dual} groupSign (permuted s perm) g · koszul(parities s)(perm)
    (`g` ranges over the groups in their transposed, consecutive positions `newGroupsF`, "dual" =
    first axis dual; single-axis groups contribute 1.)
  * item 2 — `unfuseF_fuseF`: ONE composed theorem; unfusing every group of `fuseF a groups` with
    `unfuseF` (last group first, `unfuseGroupsF`) gives an array that is valid, has the indices /
    charge / labels of `transposeF a perm`, stores every transposed sector with the transposed shape
    and has, in the value view (pending signs included), exactly the values of `transposeF a perm`;
    every additional block has value zero.  The fuse signs cancel exactly.
  * item 4 (first half) — depth 2: the general theorems of part b do not assume plain indices; the
    explicit compositions `fuse_elem_depth2`, `unfuse_fuse_blocks_depth2`.

  Not proved here (see report): `fuseInsert_eq_fuseConcat` for several groups; `conj` commuting with
  `fuse` at depth ≤ 2.
-/
import SymmModel.Proofs.Fuse4Round6
import SymmModel.Props.C05All
import SymmModel.Props.C01

namespace SymmModel.C05
open SymmModel FuseP SymmModel.Lazy SymmModel.KoszulP

variable {R : Type} [Zero R] [Neg R]

/-! ## item 3: per-group factorisation of the fuse sign -/

/-- the Koszul sign of the virtual reversal of `fuseF` is the product of the reversal signs of the
    dual groups (for every parity list) -/
theorem koszul_vperm_groups (a : Arr R) (groups : List (List Nat)) (hg : groupsOkB groups a.ndim = true)
    (par : List Bool) :
    koszul par (some (vpermF a groups))
      = (((newGroupsF groups a.duals).filter (dualSel a groups)).map (revSign par)).foldr (· * ·) 1 := by
  rw [koszul_vpermF a groups (groupsOk_iff.1 hg), revProd_eq_foldr]

/-- **fuse sign per group**: transposition sign times, for every dual group, the flip of its
    non-dual legs and the reversal sign of its odd charges -/
theorem fuseSign_groups (a : Arr R) (groups : List (List Nat)) (hg : groupsOkB groups a.ndim = true)
    (s : Sector) :
    fuseSignF a groups s
      = (((newGroupsF groups a.duals).filter (dualSel a groups)).map (fun g =>
            flipSign a.sym (g.filter (fun ax =>
              !((a.transposeF (calcFuseGroupInfo groups a.duals).perm).indices.getD ax default).dual))
              (permuted s (calcFuseGroupInfo groups a.duals).perm)
            * revSign ((permuted s (calcFuseGroupInfo groups a.duals).perm).map a.sym.parity) g)).foldr (· * ·) 1
        * koszul (a.parities s) (some (calcFuseGroupInfo groups a.duals).perm) := by
  rw [fuseSignF_groups a groups (groupsOk_iff.1 hg), dualGroupsF_eq]
  rfl

/-- the new groups are consecutive runs: group `g` occupies `position + (sizes of earlier groups)`
    onwards, in the order of the group's axes -/
theorem newGroups_consecutive (groups : List (List Nat)) (duals : List Bool)
    (hg : groupsOkB groups duals.length = true) :
    (newGroupsF groups duals).flatten
      = (List.range groups.flatten.length).map (fun t => (calcFuseGroupInfo groups duals).position + t)
    ∧ (newGroupsF groups duals).map List.length = groups.map List.length := by
  refine ⟨newGroupsF_flatten (groupsOk_iff.1 hg), ?_⟩
  simp [newGroupsF, List.map_map, Function.comp]

/-- the Koszul sign of the virtual reversal of `unfuseF` (new legs `axis … axis+n-1`) is the
    reversal sign of those legs -/
theorem unfuseSign_reversal (par : List Bool) (ndim nnew axis : Nat) (h1 : axis < ndim) (h2 : 0 < nnew) :
    koszul par (some ((List.range (ndim + nnew - 1)).map (fun ax =>
        if axis ≤ ax && ax < axis + nnew then axis + nnew - (ax - axis) - 1 else ax)))
      = revSign par ((List.range nnew).map (fun t => axis + t)) :=
  koszul_unfuseVperm par ndim nnew axis h1 h2

example : revSign [true, false, true, true] [0, 2, 3] = -1 ∧ revSign [true, false, true, true] [0, 2] = -1
    ∧ revSign [true, false, true, true] [1, 2] = 1 := by decide

/-! ## item 2: the fermionic round trip -/

/-- unfuse every axis that `fuseF(*groups)` created with `unfuseF`, last group first -/
def unfuseGroupsF (groups : List (List Nat)) (position : Nat) (x : Arr R) : Except Err (Arr R) :=
  (List.range groups.length).reverse.foldlM
    (fun x g => if multiB groups g then Arr.unfuseF x (position + g) else pure x) x

/-- **unfuseF ∘ fuseF.**  For a valid fermionic array and any admissible groups: `fuseF` succeeds,
    unfusing all its groups with `unfuseF` succeeds, the result is valid, fermionic, has the indices
    of `transposeF a perm` and the charge / odd-position labels of `a`; every stored sector `s` of `a`
    is stored under `permuted s perm` with the transposed block shape and — pending signs included —
    the values of `transposeF a perm` on the whole box; every other stored block has value zero. -/
theorem unfuseF_fuseF [LawfulNeg R] (a : Arr R) (groups : List (List Nat)) (e : Bool)
    (hv : a.validB = true) (hf : a.fermi = true) (hg : groupsOkB groups a.ndim = true) :
    let gi := calcFuseGroupInfo groups a.duals
    ∃ y z, Arr.fuseF a groups .insert e = .ok y ∧ unfuseGroupsF groups gi.position y = .ok z
      ∧ z.validB = true ∧ z.fermi = true
      ∧ z.indices = (a.transposeF gi.perm).indices ∧ z.sym = a.sym ∧ z.charge = a.charge ∧ z.oddpos = a.oddpos
      ∧ (∀ s b, (s, b) ∈ a.blocks → ∃ V, alookup z.blocks (permuted s gi.perm) = some V
          ∧ V.shape = permuted b.shape gi.perm
          ∧ ∀ J, inBox V.shape J = true →
              z.elem (permuted s gi.perm) J = (a.transposeF gi.perm).elem (permuted s gi.perm) J)
      ∧ (∀ K V, alookup z.blocks K = some V → (∀ s b, (s, b) ∈ a.blocks → K ≠ permuted s gi.perm) →
          ∀ J, inBox V.shape J = true → z.elem K J = 0 ∧ (a.transposeF gi.perm).elem K J = 0) := by
  have hok := groupsOk_iff.1 hg
  obtain ⟨y, z, h1, h2, h3, h4, h5, h6, h7, h8, h9, h10⟩ := unfuseF_fuseF_M (a := a) (groups := groups) e hv hf hok
  have hfull := Full.of_valid hv hf
  have hisp : Arr.isPerm (calcFuseGroupInfo groups a.duals).perm a.ndim = true := by
    have := perm_isPerm (hokD hok); rwa [duals_length] at this
  have htr := hfull.trOk hisp
  -- the stored sectors of the sign-adjusted operand are the transposed stored sectors
  have hsec : (signAdj a groups).sectors = a.sectors.map (fun s => permuted s (calcFuseGroupInfo groups a.duals).perm) := by
    have key : ∀ x : Arr R, x.blocks = (a.transposeF (calcFuseGroupInfo groups a.duals).perm).blocks →
        x.phaseSync.sectors = a.sectors.map (fun s => permuted s (calcFuseGroupInfo groups a.duals).perm) := by
      intro x hx
      rw [phaseSync_sectors]
      unfold Arr.sectors
      rw [hx]
      exact transposeF_sectors htr
    unfold signAdj
    split
    · exact key _ (phaseFlip_blocks _ _)
    · exact key _ (phaseFlip_blocks _ _)
  refine ⟨y, z, h1, ?_, h3, h4, h5, h6, h7, h8, ?_, ?_⟩
  · rw [← h2, unfuseFromF_eq_foldlM]; rfl
  · intro s b hsb
    have hb : alookup a.blocks s = some b := alookup_of_mem_nodup (validArr_of_validB hv).nodup hsb
    obtain ⟨b4, hb4, hsh⟩ := signAdj_block (groups := groups) htr hb
    obtain ⟨V, hV, hVs, hVe⟩ := h9 (_, b4) (alookup_some_mem hb4)
    exact ⟨V, hV, by rw [hVs]; exact hsh, fun J hJ => hVe J (by rw [← hVs]; exact hJ)⟩
  · intro K V hl hK J hJ
    have hKn : ∀ sb4 ∈ (signAdj a groups).blocks, K ≠ sb4.1 := by
      intro sb4 hsb4 he
      have : sb4.1 ∈ (signAdj a groups).sectors := List.mem_map.2 ⟨sb4, hsb4, rfl⟩
      rw [hsec] at this
      obtain ⟨s, hs, hse⟩ := List.mem_map.1 this
      obtain ⟨sb, hsb, rfl⟩ := List.mem_map.1 hs
      exact hK sb.1 sb.2 hsb (by rw [he, ← hse])
    refine ⟨h10 K V hl hKn J hJ, ?_⟩
    apply elem_of_not_mem
    rw [transposeF_sectors htr]
    intro hm
    obtain ⟨s, hs, hse⟩ := List.mem_map.1 hm
    obtain ⟨sb, hsb, rfl⟩ := List.mem_map.1 hs
    exact hK sb.1 sb.2 hsb hse.symm

/-- pending signs of a result -/
def viewPh (r : Except Err (Arr Int)) : Option (List (Sector × Int)) := r.toOption.map (·.phases)

def fermiTrip : Except Err (Arr Int) := do
  let x ← Arr.fuseF exF' [[2, 1], [0]] .insert true
  unfuseGroupsF [[2, 1], [0]] 0 x

/-- fermionic round trip on the example with a pending sign: stored numbers and pending signs of the
    result are those of the transposed array -/
example : view fermiTrip = view (.ok (exF'.transposeF [2, 1, 0]))
    ∧ viewPh fermiTrip = viewPh (.ok (exF'.transposeF [2, 1, 0])) := by decide +kernel

/-! ## item 4 (first half): depth 2 -/

omit [Neg R] in
/-- fusing an array whose indices are themselves fused (depth 2): the element map of the second
    fuse reads the OUTER tables; the inner tables travel as sub-indices of the outer table, and
    `unfuse_elem` / `splitAddr` on them compose.  (The general theorems never assumed plain indices;
    this is the explicit composition, with validity of the intermediate array from C01.) -/
theorem unfuse_fuse_blocks_depth2 (a : Arr R) (g1 g2 : List (List Nat))
    (hv : a.validB = true) (hf : a.fermi = false) (h1 : groupsOkB g1 a.ndim = true) :
    ∃ x, fuseCore a g1 .insert = .ok x ∧ x.validB = true ∧
      (groupsOkB g2 x.ndim = true →
        let gi := calcFuseGroupInfo g2 x.duals
        ∃ x2 y, fuseCore x g2 .insert = .ok x2 ∧ unfuseGroups g2 gi.position x2 = .ok y
          ∧ y.indices = permuted x.indices gi.perm
          ∧ (∀ s b, (s, b) ∈ x.blocks → alookup y.blocks (permuted s gi.perm) = some (b.transposeK gi.perm))
          ∧ (∀ K V, alookup y.blocks K = some V →
              (∃ s b, (s, b) ∈ x.blocks ∧ K = permuted s gi.perm) ∨ AllZero V)) := by
  have hok := groupsOk_iff.1 h1
  have hx := fuseCore_multi_eq (validArr_of_validB hv) hok
  have hxv := C01.fuseCore_valid a _ g1 hv hf (admissible_of_groupsOk hok) hx
  exact ⟨_, hx, hxv, fun h2 => unfuse_fuse_blocks _ g2 hxv h2⟩

/-- depth-2 element map: `fuse_elem` for the second fuse, over the fused array of the first -/
theorem fuse_elem_depth2 (a : Arr R) (g1 g2 : List (List Nat))
    (hv : a.validB = true) (hf : a.fermi = false) (h1 : groupsOkB g1 a.ndim = true) :
    ∃ x, fuseCore a g1 .insert = .ok x ∧ x.validB = true ∧ x.fermi = false ∧
      (groupsOkB g2 x.ndim = true →
        let gi := calcFuseGroupInfo g2 x.duals
        ∃ x2, fuseCore x g2 .insert = .ok x2 ∧
          ∀ ns B, alookup x2.blocks ns = some B → ∀ i, inBox B.shape i = true →
            ∃ segs : List (Sector × List Nat), segs.length = g2.length
              ∧ (∀ g gaxes, g2[g]? = some gaxes →
                  (gaxes.length = 1 → segs[g]? = some ([ns.getD (gi.position + g) (0, 0)], [i.getD (gi.position + g) 0]))
                  ∧ (gaxes.length ≠ 1 →
                      splitAddr (x2.indices.getD (gi.position + g) default) (ns.getD (gi.position + g) (0, 0))
                        (i.getD (gi.position + g) 0) = segs[g]?))
              ∧ ∀ s offs, s.length = x.ndim → offs.length = x.ndim →
                  permuted s gi.perm = ns.take gi.position ++ (segs.map (·.1)).flatten
                    ++ ns.drop (gi.position + g2.length) →
                  permuted offs gi.perm = i.take gi.position ++ (segs.map (·.2)).flatten
                    ++ i.drop (gi.position + g2.length) →
                  x2.elem ns i = x.elem s offs) := by
  have hok := groupsOk_iff.1 h1
  have hx := fuseCore_multi_eq (validArr_of_validB hv) hok
  have hxv := C01.fuseCore_valid a _ g1 hv hf (admissible_of_groupsOk hok) hx
  have hxf : (fusedArrM a g1).fermi = false := hf
  exact ⟨_, hx, hxv, hxf, fun h2 => fuse_elem _ g2 hxv h2 hxf⟩

/-- depth-2 round trip on the rank-4 example: fuse (0,1), fuse the fused axis with the next one,
    unfuse twice -/
def depth2Trip : Except Err (Arr Int) := do
  let x ← fuseCore exB [[0, 1]] .insert
  let x2 ← fuseCore x [[0, 1]] .insert
  let y ← unfuseGroups [[0, 1]] 0 x2
  unfuseGroups [[0, 1]] 0 y
def depth1Trip : Except Err (Arr Int) := do
  let x ← fuseCore exB [[0, 1]] .insert
  unfuseGroups [[0, 1]] 0 x
example : view depth2Trip = view depth1Trip := by decide +kernel

end SymmModel.C05
