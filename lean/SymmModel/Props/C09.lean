/-
  Property C09 — lazily tracked fermionic signs are unobservable.

  All theorems are about the model definitions of Model/Fermi.lean (`phaseSync`, `phaseFlip`,
  `phaseTranspose`, `phaseGlobal`, `phaseSector`, `conjF`, `toDenseF`) and the value view
  `Arr.elem` of Model/Arr.lean, for EVERY array (all symmetries, ranks, block contents) over an
  arbitrary scalar type `R` with `[Zero R] [Neg R]` and the two laws `- - x = x`, `-0 = 0`
  (`Lazy.LawfulNeg`; for `conj` also `conj (-x) = - conj x`, `conj 0 = 0`, `conj (conj x) = x`:
  `Lazy.LawfulNegConj`).  Instances: `Int`, `GRat`.

  Hypotheses on the arrays are clauses of `Arr.validB` only (`full_of_valid`):
    `Lazy.SignOk a`  : stored sectors distinct; keys of the pending-sign table distinct, values `±1`;
    `Lazy.SecLen a`  : one charge per index in every stored sector (transposition laws);
    `Lazy.BlocksWf a`: every block has `prod shape` entries (canonical form);
    `Lazy.Full a`    : the three together;  `Lazy.Inv a` : the first two.
  `phaseSync_elem`, `phaseSync_idem`, `phaseSync_obsEq`, `toDense_sync`, `multiplyDiagonal_*`
  need no hypothesis at all.  Guards (where Python raises and the model is totalised) are stated
  as hypotheses: `Arr.isPerm axes ndim` for transpositions.  See the `…_needs_…` counterexamples
  for the exactness of the hypotheses.

  Signs are integers `±1` in the model and `R` has no integer action, so "σ * x" is written
  `sgnI σ x` (`-x` if `σ = -1`, else `x`).
-/
import SymmModel.Proofs.LazyLemmas

namespace SymmModel.C09
open SymmModel Lazy

variable {R : Type} [Zero R] [Neg R]

/-! ## 1. observational equality -/

/-- two arrays are observationally equal when symmetry, kind, indices, total charge, odd-position
    labels, the stored sectors with their block shapes, and the value `elem s off` (stored number
    times pending sign; zero for a missing sector) at every address agree -/
abbrev ObsEq (a b : Arr R) : Prop := Lazy.ObsEq a b

theorem obsEq_iff (a b : Arr R) :
    ObsEq a b ↔ a.sym = b.sym ∧ a.fermi = b.fermi ∧ a.indices = b.indices ∧ a.charge = b.charge
      ∧ a.oddpos = b.oddpos
      ∧ a.blocks.map (fun p => (p.1, p.2.shape)) = b.blocks.map (fun p => (p.1, p.2.shape))
      ∧ ∀ s off, a.elem s off = b.elem s off :=
  ⟨fun h => ⟨h.sym, h.fermi, h.indices, h.charge, h.oddpos, h.skel, h.elem⟩,
   fun ⟨h1, h2, h3, h4, h5, h6, h7⟩ => ⟨h1, h2, h3, h4, h5, h6, h7⟩⟩

theorem obsEq_refl (a : Arr R) : ObsEq a a := Lazy.ObsEq.refl a
theorem obsEq_symm {a b : Arr R} (h : ObsEq a b) : ObsEq b a := h.symm
theorem obsEq_trans {a b c : Arr R} (h : ObsEq a b) (h' : ObsEq b c) : ObsEq a c := h.trans h'

/-- observationally equal arrays have the same dense form (`to_dense` by meaning) -/
theorem toDense_congr {a b : Arr R} (h : ObsEq a b) : a.toDenseA = b.toDenseA :=
  toDenseA_congr h

/-- a valid fermionic array satisfies all invariants used below -/
theorem full_of_valid {a : Arr R} (h : a.validB = true) (hf : a.fermi = true) : Full a :=
  Full.of_valid h hf

theorem signOk_of_valid {a : Arr R} (h : a.validB = true) (hf : a.fermi = true) : SignOk a :=
  SignOk.of_valid h hf

/-! ## 2. synchronising -/

/-- synchronising leaves the value unchanged — for every array, no hypothesis -/
theorem phaseSync_elem [LawfulNeg R] (a : Arr R) (s : Sector) (off : List Nat) :
    a.phaseSync.elem s off = a.elem s off := Lazy.phaseSync_elem a s off

omit [Zero R] in
theorem phaseSync_phases (a : Arr R) : a.phaseSync.phases = [] := rfl

/-- synchronising is idempotent (exact structural equality) -/
theorem phaseSync_idem (a : Arr R) : a.phaseSync.phaseSync = a.phaseSync := Lazy.phaseSync_idem a

theorem phaseSync_obsEq [LawfulNeg R] (a : Arr R) : ObsEq a.phaseSync a := Lazy.phaseSync_obsEq a

/-- synchronising leaves the dense value unchanged, and the fermionic `to_dense` (which
    synchronises first) is the dense form of the value view -/
theorem toDense_sync [LawfulNeg R] (a : Arr R) :
    a.phaseSync.toDenseA = a.toDenseA ∧ a.toDenseF = a.toDenseA :=
  ⟨toDenseA_congr (Lazy.phaseSync_obsEq a), toDenseF_eq a⟩

/-! ## 3. the sign operations on the value view: pending signs are applied exactly once -/

/-- `phase_flip(*axs)`: sector `s` is multiplied by `-1` iff an odd number of the listed axes
    carry an odd charge in `s` -/
theorem phaseFlip_elem [LawfulNeg R] (a : Arr R) (axs : List Nat) (h : SignOk a) (s : Sector)
    (off : List Nat) :
    (a.phaseFlip axs).elem s off
      = sgnI (if (axs.filter (fun ax => a.sym.parity (s.getD ax (0, 0)))).length % 2 == 1
              then -1 else 1) (a.elem s off) :=
  Lazy.phaseFlip_elem a axs h s off

/-- `phase_transpose(axes)`: sector `s` is multiplied by the Koszul sign of `axes` on its
    parities (`axes = none`: the virtual reversal) -/
theorem phaseTranspose_elem [LawfulNeg R] (a : Arr R) (axes : Option (List Nat)) (h : SignOk a)
    (s : Sector) (off : List Nat) :
    (a.phaseTranspose axes).elem s off = sgnI (koszul (a.parities s) axes) (a.elem s off) :=
  Lazy.phaseTranspose_elem a axes h s off

/-- `phase_global()`: every element is negated -/
theorem phaseGlobal_elem [LawfulNeg R] (a : Arr R) (h : SignOk a) (s : Sector) (off : List Nat) :
    a.phaseGlobal.elem s off = - a.elem s off := Lazy.phaseGlobal_elem a h s off

/-- `phase_sector(s0)`: exactly sector `s0` is negated -/
theorem phaseSector_elem [LawfulNeg R] (a : Arr R) (s0 : Sector) (h : SignOk a) (s : Sector)
    (off : List Nat) :
    (a.phaseSector s0).elem s off = sgnI (if s0 = s then -1 else 1) (a.elem s off) :=
  Lazy.phaseSector_elem a s0 h s off

/-- `conj(phase_permutation, phase_dual)`: every element is conjugated and multiplied by the
    explicit sign `conjTotSign` (global odd-parity sign × dual-leg sign × reversal sign), which
    depends only on symmetry, indices, charge, labels and the sector -/
theorem conjF_elem [Conj R] [LawfulNegConj R] (a : Arr R) (pp pd : Bool) (h : SignOk a)
    (s : Sector) (off : List Nat) :
    (a.conjF pp pd).elem s off = sgnI (conjTotSign a pp pd s) (Conj.conj (a.elem s off)) :=
  Lazy.conjF_elem a pp pd h s off

/-- the effect of a sign operation does not depend on whether signs were pending -/
theorem signs_applied_once [LawfulNeg R] (a : Arr R) (h : SignOk a) :
    (∀ axs, ObsEq (a.phaseSync.phaseFlip axs) (a.phaseFlip axs))
    ∧ (∀ axes, ObsEq (a.phaseSync.phaseTranspose axes) (a.phaseTranspose axes))
    ∧ ObsEq a.phaseSync.phaseGlobal a.phaseGlobal
    ∧ (∀ s0, ObsEq (a.phaseSync.phaseSector s0) (a.phaseSector s0)) :=
  ⟨fun axs => phaseFlip_congr (Lazy.phaseSync_obsEq a) h.phaseSync h axs,
   fun axes => phaseTranspose_congr (Lazy.phaseSync_obsEq a) h.phaseSync h axes,
   phaseGlobal_congr (Lazy.phaseSync_obsEq a) h.phaseSync h,
   fun s0 => phaseSector_congr (Lazy.phaseSync_obsEq a) h.phaseSync h s0⟩

/-! ## 3b. `transpose` and `multiply_diagonal` on the value view -/

/-- `transpose(axes)`, block form: the element of the transposed sector is the element of the
    transposed stored block times the pending sign of the source sector times the Koszul sign -/
theorem transposeF_elem_block [LawfulNeg R] {a : Arr R} {axes : List Nat} (h : TrOk a axes)
    {s : Sector} {b : Blk R} (hb : alookup a.blocks s = some b) (off : List Nat) :
    (a.transposeF axes).elem (permuted s axes) off
      = sgnI (koszul (a.parities s) (some axes))
          (sgnI (a.getPhase s) ((b.transposeK axes).get off)) :=
  Lazy.transposeF_elem_block h hb off

/-- `transpose(axes)`, intrinsic form: Koszul sign times the value of `a` at the source address
    (`boxIdx`: canonical in-box multi-index; `srcIdx`: new axis `k` is old axis `axes[k]`) -/
theorem transposeF_elem [LawfulNeg R] {a : Arr R} {axes : List Nat} (h : TrOk a axes)
    (s : Sector) (hs : s.length = a.ndim) (off : List Nat) :
    (a.transposeF axes).elem (permuted s axes) off
      = sgnI (koszul (a.parities s) (some axes))
          (match alookup (a.blocks.map (fun p => (p.1, p.2.shape))) s with
           | none => 0
           | some shp => match boxIdx (permuted shp axes) off with
             | none => 0
             | some i => a.elem s (srcIdx shp.length axes i)) :=
  Lazy.transposeF_elem h s hs off

/-- `multiply_diagonal(v, axis)` (does not synchronise; pending signs stay pending) -/
theorem multiplyDiagonal_elem [Mul R] [LawfulMulNeg R] (a : Arr R) (v : BVec R) (axis : Nat)
    (s : Sector) (off : List Nat) :
    (multiplyDiagonal a v axis).elem s off
      = match alookup v.blocks (s.getD axis (0, 0)) with
        | none => 0
        | some vb => match alookup (a.blocks.map (fun p => (p.1, p.2.shape))) s with
          | none => 0
          | some shp => match boxIdx shp off with
            | none => 0
            | some i => a.elem s i * vb.get [i.getD axis 0] :=
  Lazy.multiplyDiagonal_elem a v axis s off

/-! ## 4. congruence: every operation gives equal results on observationally equal inputs
    (in particular on an array and on its synchronised copy) -/

theorem phaseFlip_congr [LawfulNeg R] {a a' : Arr R} (h : ObsEq a a') (ha : SignOk a)
    (ha' : SignOk a') (axs : List Nat) : ObsEq (a.phaseFlip axs) (a'.phaseFlip axs) :=
  Lazy.phaseFlip_congr h ha ha' axs

theorem phaseTranspose_congr [LawfulNeg R] {a a' : Arr R} (h : ObsEq a a') (ha : SignOk a)
    (ha' : SignOk a') (axes : Option (List Nat)) :
    ObsEq (a.phaseTranspose axes) (a'.phaseTranspose axes) :=
  Lazy.phaseTranspose_congr h ha ha' axes

theorem phaseGlobal_congr [LawfulNeg R] {a a' : Arr R} (h : ObsEq a a') (ha : SignOk a)
    (ha' : SignOk a') : ObsEq a.phaseGlobal a'.phaseGlobal := Lazy.phaseGlobal_congr h ha ha'

theorem phaseSector_congr [LawfulNeg R] {a a' : Arr R} (h : ObsEq a a') (ha : SignOk a)
    (ha' : SignOk a') (s0 : Sector) : ObsEq (a.phaseSector s0) (a'.phaseSector s0) :=
  Lazy.phaseSector_congr h ha ha' s0

theorem phaseSync_congr [LawfulNeg R] {a a' : Arr R} (h : ObsEq a a') :
    ObsEq a.phaseSync a'.phaseSync := Lazy.phaseSync_congr h

/-- `-x` (the driver's `neg`: negate every stored block) -/
theorem neg_congr [LawfulNeg R] {a a' : Arr R} (h : ObsEq a a') :
    ObsEq ({ a with blocks := a.blocks.map (fun (k, b) => (k, b.negK)) } : Arr R)
          ({ a' with blocks := a'.blocks.map (fun (k, b) => (k, b.negK)) } : Arr R) :=
  negA_congr h

/-- every elementwise map of the stored numbers that fixes `0` and commutes with negation:
    `x * c` (the driver's `smul`: `blocks.map (b.map (· * c))`), `x / c`, `conj x`, … -/
theorem mapVals_congr [LawfulNeg R] (f : R → R) (hf0 : f 0 = 0) (hfn : ∀ x, f (-x) = - f x)
    {a a' : Arr R} (h : ObsEq a a') :
    ObsEq ({ a with blocks := a.blocks.map (fun p => (p.1, p.2.map f)) } : Arr R)
          ({ a' with blocks := a'.blocks.map (fun p => (p.1, p.2.map f)) } : Arr R) :=
  Lazy.mapVals_congr f hf0 hfn h

/-- scalar multiplication as an instance -/
theorem smul_congr [Mul R] [LawfulMulNeg R] (c : R) {a a' : Arr R} (h : ObsEq a a') :
    ObsEq ({ a with blocks := a.blocks.map (fun p => (p.1, p.2.map (· * c))) } : Arr R)
          ({ a' with blocks := a'.blocks.map (fun p => (p.1, p.2.map (· * c))) } : Arr R) :=
  Lazy.mapVals_congr (· * c) (LawfulMulNeg.zero_mul c) (fun x => LawfulMulNeg.neg_mul x c) h

theorem conjF_congr [Conj R] [LawfulNegConj R] {a a' : Arr R} (h : ObsEq a a') (ha : SignOk a)
    (ha' : SignOk a') (pp pd : Bool) : ObsEq (a.conjF pp pd) (a'.conjF pp pd) :=
  Lazy.conjF_congr h ha ha' pp pd

theorem daggerF_congr [Conj R] [LawfulNegConj R] {a a' : Arr R} (h : ObsEq a a') (ha : Inv a)
    (ha' : Inv a') (pd : Bool) : ObsEq (a.daggerF pd) (a'.daggerF pd) :=
  Lazy.daggerF_congr h ha.sign ha'.sign ha.len ha'.len pd

theorem transposeF_congr [LawfulNeg R] {a a' : Arr R} {axes : List Nat} (h : ObsEq a a')
    (ha : Inv a) (ha' : Inv a') (hp : Arr.isPerm axes a.ndim = true) :
    ObsEq (a.transposeF axes) (a'.transposeF axes) :=
  Lazy.transposeF_congr h ⟨ha.sign, ha.len, hp⟩ ⟨ha'.sign, ha'.len, by rw [← h.ndim]; exact hp⟩

theorem multiplyDiagonal_congr [Mul R] [LawfulMulNeg R] {a a' : Arr R} (h : ObsEq a a')
    (v : BVec R) (axis : Nat) : ObsEq (multiplyDiagonal a v axis) (multiplyDiagonal a' v axis) :=
  Lazy.multiplyDiagonal_congr h v axis

/-! ### canonical form, and the operations that synchronise first -/

/-- observationally equal arrays (distinct sectors, well-formed blocks) have *equal*
    synchronised copies -/
theorem phaseSync_canonical [LawfulNeg R] {a a' : Arr R} (h : ObsEq a a') (ha : Full a)
    (ha' : Full a') : a.phaseSync = a'.phaseSync := canon h ha ha'

/-- binary blockwise arithmetic of two arrays (`_binary_blockwise_op` synchronises both
    operands): identical results for every block function and missing-block policy -/
theorem binaryBlockwise_congr [LawfulNeg R] {a a' b b' : Arr R} (ha : ObsEq a a')
    (hb : ObsEq b b') (fa : Full a) (fa' : Full a') (fb : Full b) (fb' : Full b')
    (fn : Blk R → Blk R → Blk R) (m : Missing) :
    binaryBlockwise fn m a.phaseSync.blocks b.phaseSync.blocks
      = binaryBlockwise fn m a'.phaseSync.blocks b'.phaseSync.blocks
    ∧ a.phaseSync = a'.phaseSync :=
  binaryBlockwise_sync_congr ha hb fa fa' fb fb' fn m

theorem tensordotF_congr [Add R] [Mul R] [LawfulNeg R] {a a' b b' : Arr R} (ha : ObsEq a a')
    (hb : ObsEq b b') (fa : Full a) (fa' : Full a') (fb : Full b) (fb' : Full b')
    (axes : AxesArg) (mode : TdotMode)
    (hg : ∀ axesA axesB, parseAxes a.ndim b.ndim axes = .ok (axesA, axesB) →
      Arr.isPerm (without (List.range a.ndim) axesA ++ axesA) a.ndim = true
      ∧ Arr.isPerm (axesB ++ without (List.range b.ndim) axesB) b.ndim = true) :
    a.tensordotF b axes mode = a'.tensordotF b' axes mode :=
  Lazy.tensordotF_congr ha hb fa fa' fb fb' axes mode hg

theorem matmulF_congr [Add R] [Mul R] [LawfulNeg R] {a a' b b' : Arr R} (ha : ObsEq a a')
    (hb : ObsEq b b') (fa : Full a) (fa' : Full a') (fb : Full b) (fb' : Full b') :
    a.matmulF b = a'.matmulF b' := Lazy.matmulF_congr ha hb fa fa' fb fb'

theorem traceF_congr [Add R] [LawfulNeg R] {a a' : Arr R} (ha : ObsEq a a')
    (fa : Full a) (fa' : Full a') : a.traceF = a'.traceF := Lazy.traceF_congr ha fa fa'

theorem einsumF_congr [Add R] [LawfulNeg R] {a a' : Arr R} (ha : ObsEq a a') (fa : Full a)
    (fa' : Full a') (lhs rhs : List Nat) : a.einsumF lhs rhs = a'.einsumF lhs rhs :=
  Lazy.einsumF_congr ha fa fa' lhs rhs

theorem fuseF_congr [LawfulNeg R] {a a' : Arr R} (ha : ObsEq a a') (fa : Full a) (fa' : Full a')
    (groups : List (List Nat)) (mode : FuseMode) (expandEmpty : Bool)
    (hne : (groups.filter (fun g => !g.isEmpty)).isEmpty = false)
    (hg : Arr.isPerm (calcFuseGroupInfo (groups.filter (fun g => !g.isEmpty)) a.duals).perm a.ndim = true) :
    a.fuseF groups mode expandEmpty = a'.fuseF groups mode expandEmpty :=
  Lazy.fuseF_congr ha fa fa' groups mode expandEmpty hne hg

theorem unfuseF_congr [LawfulNeg R] {a a' : Arr R} (ha : ObsEq a a')
    (fa : Full a) (fa' : Full a') (axis : Nat) : a.unfuseF axis = a'.unfuseF axis :=
  Lazy.unfuseF_congr ha fa fa' axis

theorem toDenseF_congr [LawfulNeg R] {a a' : Arr R} (ha : ObsEq a a') : a.toDenseF = a'.toDenseF := by
  rw [toDenseF_eq, toDenseF_eq]; exact toDenseA_congr ha

/-- each of these operations therefore gives the same result on an array and on its
    synchronised copy, e.g. -/
theorem tensordotF_sync [Add R] [Mul R] [LawfulNeg R] {a b : Arr R} (fa : Full a) (fb : Full b)
    (axes : AxesArg) (mode : TdotMode)
    (hg : ∀ axesA axesB, parseAxes a.ndim b.ndim axes = .ok (axesA, axesB) →
      Arr.isPerm (without (List.range a.ndim) axesA ++ axesA) a.ndim = true
      ∧ Arr.isPerm (axesB ++ without (List.range b.ndim) axesB) b.ndim = true) :
    a.phaseSync.tensordotF b.phaseSync axes mode = a.tensordotF b axes mode :=
  Lazy.tensordotF_congr (Lazy.phaseSync_obsEq a) (Lazy.phaseSync_obsEq b)
    ⟨fa.sign.phaseSync, fa.len.of_same (phaseSync_sectors a) rfl, fa.wf.phaseSync⟩ fa
    ⟨fb.sign.phaseSync, fb.len.of_same (phaseSync_sectors b) rfl, fb.wf.phaseSync⟩ fb axes mode hg

/-! ## 5. programs -/

/-- every operation of the program language gives observationally equal results on
    observationally equal inputs -/
theorem SOp.congr_obsEq [Conj R] [LawfulNegConj R] (op : SOp) {a a' : Arr R} (h : ObsEq a a')
    (ha : Inv a) (ha' : Inv a') (ho : op.ok a) : ObsEq (op.apply a) (op.apply a') :=
  op.apply_congr h ha ha' ho

/-- **Lazy signs are unobservable**: running any program of sign operations (`phase_flip`,
    `phase_transpose`, `phase_global`, `phase_sector`, `phase_sync`), negations, conjugations,
    adjoints and transpositions on `a` as written, and running it with `phase_sync()` inserted
    after every step, give observationally equal results.  `runOk`: every `transpose` in the
    program gets a permutation of the axes. -/
theorem Prog.lazy_unobservable [Conj R] [LawfulNegConj R] (p : List SOp) (a : Arr R)
    (h : Inv a) (ho : runOk p a) : ObsEq (run p a) (runSync p a) :=
  run_runSync p (Lazy.ObsEq.refl a) h h ho

/-- … and on `a` and on its synchronised copy -/
theorem Prog.sync_first [Conj R] [LawfulNegConj R] (p : List SOp) (a : Arr R) (h : Inv a)
    (ho : runOk p a) : ObsEq (run p a) (run p a.phaseSync) :=
  run_congr p (Lazy.phaseSync_obsEq a).symm h h.phaseSync ho

/-- consequently the dense values agree -/
theorem Prog.lazy_unobservable_dense [Conj R] [LawfulNegConj R] (p : List SOp) (a : Arr R)
    (h : Inv a) (ho : runOk p a) : (run p a).toDenseF = (runSync p a).toDenseF := by
  rw [toDenseF_eq, toDenseF_eq]
  exact toDenseA_congr (Prog.lazy_unobservable p a h ho)

/-! ## non-vacuity: a concrete Z2 fermionic array over `Int` with a pending sign -/

/-- Z2, rank 2, odd total charge, one label; sector `(1,0)` carries a pending `-1` -/
def exA : Arr Int :=
  { sym := .Z2, fermi := true, charge := (1, 0),
    indices := [Index.mk [((0, 0), 1), ((1, 0), 2)] false none,
                Index.mk [((0, 0), 2), ((1, 0), 1)] true none],
    blocks := [([(0, 0), (1, 0)], ⟨[1, 1], #[3]⟩), ([(1, 0), (0, 0)], ⟨[2, 2], #[1, 2, -4, 5]⟩)],
    phases := [([(1, 0), (0, 0)], -1)],
    oddpos := [(7, false)] }

example : exA.validB = true ∧ exA.fermi = true ∧ exA.phases ≠ [] := by decide

theorem exA_full : Full exA := full_of_valid (by decide) rfl
theorem exA_signOk : SignOk exA := exA_full.sign

/-- the value view sees the pending sign; the synchronised copy stores the negated block -/
example : exA.elem [(1, 0), (0, 0)] [1, 0] = 4 ∧ exA.phaseSync.elem [(1, 0), (0, 0)] [1, 0] = 4
    ∧ exA.phaseSync.blocks.map (fun p => (p.1, p.2.shape, p.2.data.toList))
        = [([(0, 0), (1, 0)], [1, 1], [3]), ([(1, 0), (0, 0)], [2, 2], [-1, -2, 4, -5])]
    ∧ exA.phaseSync.phases = [] := by decide +kernel

/-- `phase_flip(0)` negates the sector whose axis-0 charge is odd: the pending sign is consumed,
    on the lazy copy by clearing the table, on the synchronised copy by recording a new sign -/
example : (exA.phaseFlip [0]).phases = [] ∧ (exA.phaseSync.phaseFlip [0]).phases = [([(1, 0), (0, 0)], -1)]
    ∧ (exA.phaseFlip [0]).elem [(1, 0), (0, 0)] [1, 0] = -4
    ∧ (exA.phaseSync.phaseFlip [0]).elem [(1, 0), (0, 0)] [1, 0] = -4 := by decide +kernel

open scoped SymmModel.Lazy in
/-- a program instance -/
example : ObsEq
    (run [.transpose [1, 0], .flip [0], .conj true true, .global, .dagger true, .neg, .ptranspose none] exA)
    (runSync [.transpose [1, 0], .flip [0], .conj true true, .global, .dagger true, .neg, .ptranspose none] exA) :=
  Prog.lazy_unobservable _ exA exA_full.inv
    ⟨(by decide : Arr.isPerm [1, 0] exA.ndim = true), trivial, trivial, trivial, trivial, trivial, trivial,
      trivial⟩

/-- the guard of `tensordotF_congr` holds for a contraction of `exA` with itself over one axis -/
example : ∀ axesA axesB, parseAxes exA.ndim exA.ndim (.pair [1] [0]) = .ok (axesA, axesB) →
      Arr.isPerm (without (List.range exA.ndim) axesA ++ axesA) exA.ndim = true
      ∧ Arr.isPerm (axesB ++ without (List.range exA.ndim) axesB) exA.ndim = true := by
  intro axesA axesB h
  have : (axesA, axesB) = ([1], [0]) := by
    have h' : parseAxes exA.ndim exA.ndim (.pair [1] [0]) = .ok ([1], [0]) := by decide
    rw [h'] at h; cases h; rfl
  cases this; decide

/-- `transpose([1,0])`: the hypotheses hold, the pending sign travels with its sector, and the
    value at the transposed address is the value at the source address (no Koszul sign here:
    only one charge of the sector is odd) -/
example : TrOk exA [1, 0] := ⟨exA_signOk, exA_full.len, by decide⟩

example : (exA.transposeF [1, 0]).phases = [([(0, 0), (1, 0)], -1)]
    ∧ (exA.transposeF [1, 0]).elem [(0, 0), (1, 0)] [0, 1] = exA.elem [(1, 0), (0, 0)] [1, 0]
    ∧ koszul (exA.parities [(1, 0), (0, 0)]) (some [1, 0]) = 1 := by decide +kernel

/-- `multiply_diagonal` keeps the pending sign pending and drops the sector whose charge is
    missing from the vector -/
example :
    let v : BVec Int := ⟨[((0, 0), ⟨[2], #[10, 100]⟩)]⟩
    (multiplyDiagonal exA v 1).elem [(1, 0), (0, 0)] [1, 1] = -500
    ∧ (multiplyDiagonal exA v 1).sectors = [[(1, 0), (0, 0)]]
    ∧ (multiplyDiagonal exA v 1).phases = exA.phases := by decide +kernel

/-- the guards of `fuseF_congr` hold for fusing both axes of `exA` -/
example : (([[0, 1]] : List (List Nat)).filter (fun g => !g.isEmpty)).isEmpty = false
    ∧ Arr.isPerm (calcFuseGroupInfo (([[0, 1]] : List (List Nat)).filter (fun g => !g.isEmpty))
        exA.duals).perm exA.ndim = true := by decide

/-! ## exactness of the hypotheses -/

/-- values `±1` are needed: with a stored phase `5`, `phase_flip` records `-5`, which the value
    view (like the code) does not treat as a sign -/
theorem phaseFlip_elem_needs_pm :
    let a : Arr Int := { exA with phases := [([(1, 0), (0, 0)], 5)] }
    (a.phaseFlip [0]).elem [(1, 0), (0, 0)] [1, 0] = a.elem [(1, 0), (0, 0)] [1, 0] := by decide +kernel

/-- distinct sectors are needed: a sector stored twice is flipped twice -/
theorem phaseGlobal_elem_needs_distinct :
    let a : Arr Int := { exA with blocks := [([(1, 0), (0, 0)], ⟨[1, 1], #[3]⟩), ([(1, 0), (0, 0)], ⟨[1, 1], #[3]⟩)],
                                  phases := [] }
    a.phaseGlobal.elem [(1, 0), (0, 0)] [0, 0] = a.elem [(1, 0), (0, 0)] [0, 0] := by decide +kernel

/-- `f (-x) = - f x` is needed in `mapVals_congr`: an even map such as `abs` applied to the stored
    numbers sees the pending sign — the lazy and the synchronised copy give different values
    (the model-level form of the known finding "unary maps read stored blocks") -/
theorem mapVals_congr_needs_odd :
    let f : Int → Int := fun x => Int.natAbs x
    (mapVals f exA).elem [(1, 0), (0, 0)] [1, 0] = -4
    ∧ (mapVals f exA.phaseSync).elem [(1, 0), (0, 0)] [1, 0] = 4 := by decide +kernel

end SymmModel.C09
