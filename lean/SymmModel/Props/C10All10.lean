/- Property C10 — umbrella incl. C10k (mirror routes with the ket operand first). -/
import SymmModel.Props.C10All9
import SymmModel.Props.C10k
