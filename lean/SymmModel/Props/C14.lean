/-
  SymmModel.Props.C14 — "Operations never modify their operands unless asked to", proved on the heap
  model `SymmModel.Model.Heap` (objects with identity, CPython's primitive effects, every public
  operation transcribed as an effect program).

  The proof architecture: `Proofs/HeapLemmas.lean` proves ONCE (`safe_inv`) that any effect program
  which mutates only through variables it owns (objects it allocated itself, or the operands it was
  asked to modify) leaves every other pre-existing object identical.  Here each operation's program is
  shown to obey that discipline (`op_safe`), from which the frame theorems follow for every operation,
  every sequence of operations with arbitrary sharing of operands, and every abuse of the results.
-/
import SymmModel.Proofs.HeapLemmas
namespace SymmModel.C14
open SymmModel.Heap

/-- every object of `objs` that existed in `h` is identical (same slots / same ordered items) in `h'` -/
def Unchanged (h h' : Heap) (objs : List ObjId) : Prop :=
  ∀ i ∈ objs, ∀ o, h.get? i = some o → h'.get? i = some o

def unchangedB (h h' : Heap) (objs : List ObjId) : Bool :=
  objs.all fun i => match h.get? i with
    | some o => h'.get? i == some o
    | none => true

theorem unchanged_iff (h h' : Heap) (objs : List ObjId) : Unchanged h h' objs ↔ unchangedB h h' objs = true := by
  simp only [Unchanged, unchangedB, List.all_eq_true]
  constructor
  · intro hu i hi
    cases hg : h.get? i with
    | none => rfl
    | some o => simpa using hu i hi o hg
  · intro hb i hi o ho
    have := hb i hi
    simpa [ho] using this

instance (h h' : Heap) (objs : List ObjId) : Decidable (Unchanged h h' objs) :=
  decidable_of_iff _ (unchanged_iff h h' objs).symm

/-- ownership of the operand variables at the start of a call: exactly the operands the call is
    asked to modify -/
def flags (op : Op) (inplace : Bool) : List Bool :=
  (List.range op.arity).map fun j => (op.targets inplace).contains j

/-- at the end, the returned objects are owned (new, or the operands asked to be modified) -/
def ResOwned (op : Op) (inplace : Bool) : List Bool → Prop :=
  fun o' => ∀ r ∈ op.results inplace, o'.getD r false = true

/-! ## every operation obeys the ownership discipline -/

/-- unfold an operation's program and decide the ownership side conditions -/
local macro "op_simp" : tactic => `(tactic|
  simp [Op.prog, flags, ResOwned, Op.results, Op.targets, Op.alwaysInplace, Op.neverInplace, Op.arity,
    viaCopy, viaCopyWith, Safe, Cmd.ok, Cmd.push, safe_script, List.range, List.range.loop,
    safe_alignK_false, safe_alignK_true, safe_tdotBlockwiseK, safe_actsK])

theorem op_safe (op : Op) (inplace : Bool) : Safe (ResOwned op inplace) (flags op inplace) (op.prog inplace) := by
  cases op with
  | fuseA core es => cases core <;> cases inplace <;> op_simp
  | binaryA m =>
    cases inplace
    · op_simp; exact safe_binaryK (by rfl) (by rfl) _ _ _ (by op_simp)
    · op_simp; exact safe_binaryK (by rfl) (by rfl) _ _ _ (by op_simp)
  | binaryF m =>
    cases inplace
    · op_simp
      exact safe_syncedK (by rfl) _ _ _ (safe_binaryK (by rfl) (by rfl) _ _ _ (by op_simp))
        (safe_binaryK (by rfl) (by rfl) _ _ _ (by op_simp))
    · op_simp
      exact safe_syncedK (by rfl) _ _ _ (safe_binaryK (by rfl) (by rfl) _ _ _ (by op_simp))
        (safe_binaryK (by rfl) (by rfl) _ _ _ (by op_simp))
  | tdotFused p => cases inplace <;> (op_simp; exact safe_tdotFusedK (by rfl) _ _ _ _ (by op_simp))
  | tdotFermionic p =>
    have h23 : ([false, false, true, true] : List Bool).getD (if p.flipOnA = true then 2 else 3) false = true := by
      cases p.flipOnA <;> rfl
    cases inplace <;>
    · op_simp
      rw [safe_script h23, safe_script (by rfl), safe_script (by rfl)]
      cases p.fused with
      | some f =>
        dsimp only
        refine safe_tdotFusedK (by rfl) _ _ _ _ ?_
        intro v
        rw [safe_script (by rfl)]; op_simp
      | none =>
        dsimp only
        rw [safe_tdotBlockwiseK]
        op_simp
  | svd p => cases inplace <;> (op_simp; exact safe_svdK _ _ (by op_simp))
  | svdTruncated p t =>
    cases inplace <;>
    · op_simp
      refine safe_svdK _ _ ?_
      intro v
      have own : ∀ (l : List (Key × Val)) (g : Key × Val → List Mut),
          (∀ e m, m ∈ g e → m.tgt = 1 ∨ m.tgt = 2 ∨ m.tgt = 3) →
          ∀ m ∈ l.flatMap g, ([false, true, true, true] : List Bool).getD m.tgt false = true := by
        intro l g hg m hm
        simp only [List.mem_flatMap] at hm
        obtain ⟨e, _, hm⟩ := hm
        rcases hg e m hm with h | h | h <;> rw [h] <;> rfl
      rw [safe_mutsK _ (own _ _ (by intro e m hm; simp at hm; rcases hm with rfl | rfl | rfl <;> simp [Mut.tgt])),
          safe_mutsK _ (own _ _ (by intro e m hm; simp at hm; rcases hm with rfl | rfl | rfl <;> simp [Mut.tgt]))]
      intro v'
      simp only [Safe, Cmd.ok, Cmd.push]
      refine ⟨by rfl, by rfl, ?_⟩
      intro v''
      rw [safe_mutsK _ (own _ _ (by
        intro e m hm
        simp only [List.mem_append] at hm
        rcases hm with hm | hm
        · split at hm
          · simp at hm; subst hm; simp [Mut.tgt]
          · simp at hm
        · split at hm
          · simp at hm; subst hm; simp [Mut.tgt]
          · simp at hm))]
      op_simp
  | eigh p negate =>
    cases inplace <;>
    · op_simp
      refine safe_syncedK (by rfl) _ _ _ ?_ ?_ <;>
      · intro v
        simp only [Safe, Cmd.ok, Cmd.push, true_and]
        intro v'
        rw [safe_actsK (by rfl)]; op_simp
  | solve p fc =>
    cases inplace <;>
    · op_simp
      refine safe_syncedK (by rfl) _ _ _ ?_ ?_ <;>
      · refine safe_syncedK (by rfl) _ _ _ ?_ ?_ <;>
        · intro v
          simp only [Safe, Cmd.ok, Cmd.push, true_and]
          rw [safe_script (by rfl)]; op_simp
  | _ => cases inplace <;> op_simp

/-! ## one call -/

theorem envGet_take {l : List ObjId} {n j : Nat} (hj : j < n) : envGet (l.take n) j = envGet l j := by
  simp [envGet, List.getD, hj]

theorem flags_true {op : Op} {inplace : Bool} {j : Nat} (h : (flags op inplace).getD j false = true) :
    j < op.arity ∧ j ∈ op.targets inplace := by
  have hlt := getD_true_lt h
  simp only [flags, List.length_map, List.length_range] at hlt
  refine ⟨hlt, ?_⟩
  simp only [flags, List.getD, List.getElem?_map, List.getElem?_range hlt, Option.map_some,
    Option.getD_some, List.contains_iff_mem] at h
  exact h

theorem targets_lt_arity (op : Op) (inplace : Bool) : ∀ j ∈ op.targets inplace, j < op.arity := by
  cases op <;> cases inplace <;> simp [Op.targets, Op.alwaysInplace, Op.neverInplace, Op.arity]

/-- the operand objects a call is asked to modify -/
def targetObjs (op : Op) (inplace : Bool) (operands : List ObjId) : List ObjId :=
  (op.targets inplace).map (envGet operands)

/-- **the footprint of one call**: of the objects existing before the call, only the objects it was
    asked to modify may be rebound and only they / the dicts they pointed to may be mutated;
    every returned object is owned: it and the dicts it points to are new or belong to that footprint -/
theorem op_step (op : Op) (inplace : Bool) (h : Heap) (operands : List ObjId)
    (hn : op.arity ≤ operands.length)
    (htg : ∀ x ∈ targetObjs op inplace operands, x < h.size) :
    Step (· ∈ targetObjs op inplace operands) (· ∈ reachable h (targetObjs op inplace operands))
      h (op.run inplace h operands).1 ∧
    (∀ r ∈ (op.run inplace h operands).2,
      Own h (· ∈ targetObjs op inplace operands) (· ∈ reachableDicts h (targetObjs op inplace operands))
        (op.run inplace h operands).1 r) ∧
    (∀ x ∈ targetObjs op inplace operands,
      Own h (· ∈ targetObjs op inplace operands) (· ∈ reachableDicts h (targetObjs op inplace operands))
        (op.run inplace h operands).1 x) := by
  have I0 : Inv h (· ∈ targetObjs op inplace operands) (· ∈ reachableDicts h (targetObjs op inplace operands))
      h (operands.take op.arity) (flags op inplace) := by
    refine ⟨Step.refl _ _ _, by simp [flags, Nat.min_eq_left hn], ?_⟩
    intro j hj
    obtain ⟨hlt, hmem⟩ := flags_true hj
    rw [envGet_take hlt]
    have hx : envGet operands j ∈ targetObjs op inplace operands := List.mem_map_of_mem hmem
    refine ⟨htg _ hx, Or.inr hx, fun d hd => Or.inr ?_⟩
    simp only [reachableDicts, List.mem_flatMap]
    exact ⟨_, hx, hd⟩
  obtain ⟨ext, e2, hq, he, I⟩ := safe_inv (op.prog inplace) (op_safe op inplace) I0
  refine ⟨I.step.mono (fun _ e => e) ?_, ?_, ?_⟩
  · intro i hi
    simp only [reachable, List.mem_flatMap, List.mem_cons]
    rcases hi with hi | hi
    · exact ⟨i, hi, Or.inl rfl⟩
    · simp only [reachableDicts, List.mem_flatMap] at hi
      obtain ⟨x, hx, hd⟩ := hi
      exact ⟨x, hx, Or.inr hd⟩
  · intro r hr
    simp only [Op.run, List.mem_map] at hr
    obtain ⟨j, hj, rfl⟩ := hr
    exact I.own j (hq j hj)
  · intro x hx
    simp only [targetObjs, List.mem_map] at hx
    obtain ⟨j, hj, rfl⟩ := hx
    have hlt : j < op.arity := targets_lt_arity op inplace j hj
    have hfl : (flags op inplace).getD j false = true := by
      simp only [flags, List.getD, List.getElem?_map, List.getElem?_range hlt, Option.map_some,
        Option.getD_some, List.contains_iff_mem]
      exact hj
    have hlen : j < (flags op inplace).length := by simp [flags, hlt]
    have := I.own j (by rw [getD_append_left' hlen]; exact hfl)
    rw [he] at this
    have hj' : j < (operands.take op.arity).length := by simp [Nat.min_eq_left hn, hlt]
    simpa [Op.run, envGet, List.getD, List.getElem?_append_left hj', List.getElem?_take, hlt] using this

/-- an operation not asked to modify anything: nothing that existed is rebound or mutated -/
theorem op_step_out (op : Op) (inplace : Bool) (h : Heap) (operands : List ObjId)
    (hn : op.arity ≤ operands.length) (hout : op.targets inplace = []) :
    Step Never Never h (op.run inplace h operands).1 := by
  have htg : ∀ x ∈ targetObjs op inplace operands, x < h.size := by simp [targetObjs, hout]
  exact (op_step op inplace h operands hn htg).1.mono (by simp [targetObjs, hout])
    (by simp [targetObjs, hout, reachable])

/-- **`op_frame`**: an operation called without being asked to modify anything leaves EVERY
    object that existed before the call identical — in particular everything reachable from its
    operands, whatever they share with each other -/
theorem op_frame_all (op : Op) (inplace : Bool) (h : Heap) (operands : List ObjId)
    (hn : op.arity ≤ operands.length) (hout : op.targets inplace = []) (objs : List ObjId) :
    Unchanged h (op.run inplace h operands).1 objs := by
  intro i _ o ho
  exact (op_step_out op inplace h operands hn hout).same ho (fun e => e) (fun e => e)

theorem op_frame (op : Op) (h : Heap) (operands : List ObjId) (hn : op.arity ≤ operands.length)
    (hflag : op.alwaysInplace = false) {h' : Heap} {results : List ObjId}
    (hrun : op.run false h operands = (h', results)) :
    Unchanged h h' (reachable h operands) := by
  have := op_frame_all op false h operands hn (by simp [Op.targets, hflag]) (reachable h operands)
  rw [hrun] at this; exact this

/-- the in-place variant touches nothing but the operand it was asked to modify and that operand's
    dicts: all other operands (not sharing a dict with it) are unchanged -/
theorem op_frame_inplace (op : Op) (inplace : Bool) (h : Heap) (operands : List ObjId)
    (hn : op.arity ≤ operands.length)
    (htg : ∀ x ∈ targetObjs op inplace operands, x < h.size)
    (objs : List ObjId) (hdis : ∀ i ∈ objs, i ∉ reachable h (targetObjs op inplace operands)) :
    Unchanged h (op.run inplace h operands).1 objs := by
  obtain ⟨st, _, _⟩ := op_step op inplace h operands hn htg
  intro i hi o ho
  have hni := hdis i hi
  refine st.same ho ?_ hni
  intro hx
  apply hni
  simp only [reachable, List.mem_flatMap, List.mem_cons]
  exact ⟨i, hx, Or.inl rfl⟩

/-- **`no_shared_dict`**: after an out-of-place call every returned object, and every dict a returned
    object points to, was allocated by the call … -/
theorem result_objects_new (op : Op) (inplace : Bool) (h : Heap) (operands : List ObjId)
    (hn : op.arity ≤ operands.length) (hout : op.targets inplace = []) :
    ∀ r ∈ (op.run inplace h operands).2, h.size ≤ r ∧
      ∀ d ∈ dictsOf (op.run inplace h operands).1 r, h.size ≤ d := by
  have htg : ∀ x ∈ targetObjs op inplace operands, x < h.size := by simp [targetObjs, hout]
  obtain ⟨_, ow, _⟩ := op_step op inplace h operands hn htg
  intro r hr
  have w := ow r hr
  refine ⟨?_, fun d hd => ?_⟩
  · rcases w.self with h1 | h1
    · exact h1
    · simp [targetObjs, hout] at h1
  · rcases w.dicts d hd with h1 | h1
    · exact h1
    · simp [targetObjs, hout, reachableDicts] at h1

/-- … hence no mutable object is shared between results and operands (or anything else that existed) -/
theorem no_shared_dict (op : Op) (inplace : Bool) (h : Heap) (operands : List ObjId)
    (hn : op.arity ≤ operands.length) (hout : op.targets inplace = [])
    (hvalid : ∀ d ∈ reachableDicts h operands, d < h.size) :
    ∀ d, d ∈ reachableDicts (op.run inplace h operands).1 (op.run inplace h operands).2 →
      d ∉ reachableDicts h operands := by
  intro d hd hd'
  simp only [reachableDicts, List.mem_flatMap] at hd
  obtain ⟨r, hr, hdr⟩ := hd
  have h1 : h.size ≤ d := (result_objects_new op inplace h operands hn hout r hr).2 d hdr
  have h2 : d < h.size := hvalid d hd'
  exact absurd h2 (Nat.not_lt.mpr h1)

/-! ## programs of operations on shared operands -/

/-- every call is well formed and not asked to modify anything -/
def AllOut (cs : List Call) : Prop := ∀ c ∈ cs, c.op.arity ≤ c.args.length ∧ c.op.targets c.inplace = []

theorem prog_step (cs : List Call) (hout : AllOut cs) (h : Heap) (env : Env) :
    Step Never Never h (runCalls cs h env).1 := by
  induction cs generalizing h env with
  | nil => exact Step.refl _ _ _
  | cons c r ih =>
    obtain ⟨hn, ht⟩ := hout c (List.mem_cons_self ..)
    have s1 := op_step_out c.op c.inplace h (c.args.map (envGet env)) (by simpa using hn) ht
    exact s1.trans (ih (fun c' h' => hout c' (List.mem_cons_of_mem _ h')) _ _) (fun _ _ e => e) (fun _ _ e => e)

/-- **`prog_frame`**: any program of out-of-place operations — any length, any sharing pattern,
    results of earlier steps used as operands of later ones, the same object passed twice — leaves
    every object that existed before it identical -/
theorem prog_frame (cs : List Call) (hout : AllOut cs) (h : Heap) (env : Env) (objs : List ObjId) :
    Unchanged h (runCalls cs h env).1 objs := by
  intro i _ o ho
  exact (prog_step cs hout h env).same ho (fun e => e) (fun e => e)

theorem runCalls_append (cs1 cs2 : List Call) (h : Heap) (env : Env) :
    runCalls (cs1 ++ cs2) h env = runCalls cs2 (runCalls cs1 h env).1 (runCalls cs1 h env).2 := by
  induction cs1 generalizing h env with
  | nil => rfl
  | cons c r ih => simp only [List.cons_append, runCalls]; exact ih _ _

/-- … and every intermediate value is left identical by all later steps -/
theorem prog_frame_later (cs1 cs2 : List Call) (hout : AllOut cs2) (h : Heap) (env : Env)
    (objs : List ObjId) :
    Unchanged (runCalls cs1 h env).1 (runCalls (cs1 ++ cs2) h env).1 objs := by
  rw [runCalls_append]; exact prog_frame cs2 hout _ _ objs

/-- ownership discipline for a program of calls: whatever a call is asked to modify is an owned
    variable (a result of an earlier call); results of every call are owned afterwards -/
def CallsOwned : List Bool → List Call → Prop
  | _, [] => True
  | oo, c :: r => c.op.arity ≤ c.args.length ∧
      (∀ j ∈ c.op.targets c.inplace, oo.getD (c.args.getD j 0) false = true) ∧
      CallsOwned (oo ++ List.replicate (c.op.results c.inplace).length true) r

structure OInv (h0 h : Heap) (env : Env) (oo : List Bool) : Prop where
  step : Step Never Never h0 h
  len : oo.length = env.length
  own : ∀ j, oo.getD j false = true → Own h0 Never Never h (envGet env j)

theorem own_lift {h0 h h' : Heap} {WA WD : ObjId → Prop} {r : ObjId} (w : Own h WA WD h' r)
    (hs : h0.size ≤ h.size) (hA : ∀ x, WA x → h0.size ≤ x) (hD : ∀ d, WD d → h0.size ≤ d) :
    Own h0 Never Never h' r := by
  refine ⟨w.lt, ?_, fun d hd => ?_⟩
  · rcases w.self with h1 | h1
    · exact Or.inl (Nat.le_trans hs h1)
    · exact Or.inl (hA _ h1)
  · rcases w.dicts d hd with h1 | h1
    · exact Or.inl (Nat.le_trans hs h1)
    · exact Or.inl (hD _ h1)

theorem run_results_length (op : Op) (inplace : Bool) (h : Heap) (operands : List ObjId) :
    (op.run inplace h operands).2.length = (op.results inplace).length := by simp [Op.run]

theorem call_inv {h0 h : Heap} {env : Env} {oo : List Bool} (c : Call) (I : OInv h0 h env oo)
    (hn : c.op.arity ≤ c.args.length)
    (ht : ∀ j ∈ c.op.targets c.inplace, oo.getD (c.args.getD j 0) false = true) :
    OInv h0 (c.op.run c.inplace h (c.args.map (envGet env))).1
      (env ++ (c.op.run c.inplace h (c.args.map (envGet env))).2)
      (oo ++ List.replicate (c.op.results c.inplace).length true) := by
  -- the operands the call is asked to modify are owned variables
  have tgOwn : ∀ x ∈ targetObjs c.op c.inplace (c.args.map (envGet env)), Own h0 Never Never h x := by
    intro x hx
    simp only [targetObjs, List.mem_map] at hx
    obtain ⟨j, hj, rfl⟩ := hx
    have hlt : j < c.args.length := Nat.lt_of_lt_of_le (targets_lt_arity _ _ j hj) hn
    have : envGet (c.args.map (envGet env)) j = envGet env (c.args.getD j 0) := by
      simp [envGet, List.getD, List.getElem?_map, List.getElem?_eq_getElem hlt]
    rw [this]; exact I.own _ (ht j hj)
  have fA : ∀ x, x ∈ targetObjs c.op c.inplace (c.args.map (envGet env)) → h0.size ≤ x := by
    intro x hx
    rcases (tgOwn x hx).self with h1 | h1
    · exact h1
    · exact h1.elim
  have fD : ∀ d, d ∈ reachableDicts h (targetObjs c.op c.inplace (c.args.map (envGet env))) → h0.size ≤ d := by
    intro d hd
    simp only [reachableDicts, List.mem_flatMap] at hd
    obtain ⟨x, hx, hd⟩ := hd
    rcases (tgOwn x hx).dicts d hd with h1 | h1
    · exact h1
    · exact h1.elim
  obtain ⟨st, ro, to⟩ := op_step c.op c.inplace h (c.args.map (envGet env)) (by simpa using hn)
    (fun x hx => (tgOwn x hx).lt)
  refine ⟨I.step.trans st ?_ ?_, by simp [I.len, run_results_length], ?_⟩
  · intro i hi hx
    have := fA i hx
    omega
  · intro i hi hx
    simp only [reachable, List.mem_flatMap, List.mem_cons] at hx
    obtain ⟨x, hx, hd⟩ := hx
    rcases hd with rfl | hd
    · have := fA i hx; omega
    · have := fD i (by simp only [reachableDicts, List.mem_flatMap]; exact ⟨x, hx, hd⟩)
      omega
  · intro j hj
    by_cases hlt : j < oo.length
    · -- an older owned variable: a target of this call, or untouched by it
      rw [getD_append_left' hlt] at hj
      have hlt' : j < env.length := I.len ▸ hlt
      have : envGet (env ++ (c.op.run c.inplace h (c.args.map (envGet env))).2) j = envGet env j := by
        simp [envGet, List.getD, List.getElem?_append_left hlt']
      rw [this]
      by_cases hm : envGet env j ∈ targetObjs c.op c.inplace (c.args.map (envGet env))
      · exact own_lift (to _ hm) I.step.size fA fD
      · exact (I.own j hj).ext st hm
    · -- a result of this call
      have hge : oo.length ≤ j := Nat.le_of_not_lt hlt
      obtain ⟨k, rfl⟩ : ∃ k, j = oo.length + k := ⟨j - oo.length, by omega⟩
      have hk : k < (c.op.run c.inplace h (c.args.map (envGet env))).2.length := by
        have := getD_true_lt hj
        simp only [List.length_append, List.length_replicate] at this
        rw [run_results_length]; omega
      have : envGet (env ++ (c.op.run c.inplace h (c.args.map (envGet env))).2) (oo.length + k) =
          (c.op.run c.inplace h (c.args.map (envGet env))).2[k] := by
        simp [envGet, List.getD, I.len, List.getElem?_append_right, List.getElem?_eq_getElem hk]
      rw [this]
      exact own_lift (ro _ (List.getElem_mem hk)) I.step.size fA fD

theorem calls_inv {h0 : Heap} (cs : List Call) :
    ∀ {h : Heap} {env : Env} {oo : List Bool}, CallsOwned oo cs → OInv h0 h env oo →
      ∃ oo', OInv h0 (runCalls cs h env).1 (runCalls cs h env).2 oo' := by
  induction cs with
  | nil => intro h env oo _ I; exact ⟨oo, I⟩
  | cons c r ih =>
    intro h env oo hc I
    obtain ⟨hn, ht, hr⟩ := hc
    exact ih hr (call_inv c I hn ht)

/-- **`result_mutation_safe`**: run an operation out of place, then apply ANY program of operations
    that is only ever asked to modify the RESULTS (every `inplace=True` method, `modify`,
    `apply_to_arrays`, `set_params`, …, and further out-of-place calls whose results are abused in
    turn; operands may be read at will): every object that existed before the first call is
    identical at the end -/
theorem result_mutation_safe (op : Op) (inplace : Bool) (h : Heap) (operands : List ObjId)
    (hn : op.arity ≤ operands.length) (hout : op.targets inplace = [])
    (cs : List Call)
    (hcs : CallsOwned (List.replicate operands.length false ++
      List.replicate (op.results inplace).length true) cs)
    (objs : List ObjId) :
    Unchanged h (runCalls cs (op.run inplace h operands).1 (operands ++ (op.run inplace h operands).2)).1 objs := by
  have I0 : OInv h h operands (List.replicate operands.length false) :=
    ⟨Step.refl _ _ _, by simp, fun j hj => by
      have := getD_true_lt hj
      simp only [List.length_replicate] at this
      simp [List.getD, this] at hj⟩
  have I1 := call_inv (h0 := h) ⟨op, inplace, List.range operands.length⟩ I0
    (by simpa using hn) (by simp [hout])
  have hmap : (List.range operands.length).map (envGet operands) = operands := by
    apply List.ext_getElem
    · simp
    · intro i h1 h2
      simp only [List.length_map, List.length_range] at h1
      simp [envGet, List.getD, List.getElem?_eq_getElem h1]
  simp only [hmap] at I1
  obtain ⟨oo', I2⟩ := calls_inv cs hcs I1
  intro i _ o ho
  exact I2.step.same ho (fun e => e) (fun e => e)

/-! ## non-vacuity, and what the theorems exclude -/

/-- a fermionic array `x = 2` with two blocks and one pending sign -/
def h0 : Heap :=
  { objs := [.dict [(0, 0), (1, 1)], .dict [(1, -1)],
             .arr { indices := 5, charge := 1, blocks := 0, phases := some 1, oddpos := 3 }],
    bufs := [(0, []), (0, [])] }

def opT : Op := .transposeF (· + 10) (· + 1) (fun k => if k == 1 then -1 else 1) true

-- the hypotheses of `op_frame` / `no_shared_dict` hold for a call that really does something:
example : opT.arity ≤ [2].length ∧ opT.alwaysInplace = false ∧ opT.targets false = [] := by decide
example : ∀ d ∈ reachableDicts h0 [2], d < h0.size := by decide
-- out of place: a new array (object 5) with new dicts 3 → 6 (blocks) and 4 → 7 (signs); `x` is as before
example : (opT.run false h0 [2]).2 = [5] ∧ dictsOf (opT.run false h0 [2]).1 5 = [7, 6] ∧
    content (opT.run false h0 [2]).1 2 = content h0 2 ∧
    content (opT.run false h0 [2]).1 5 ≠ content h0 2 := by decide +kernel
-- in place: the same object is returned and it now holds the value the out-of-place call returned
example : (opT.run true h0 [2]).2 = [2] ∧
    content (opT.run true h0 [2]).1 2 = content (opT.run false h0 [2]).1 5 := by decide +kernel
-- `result_mutation_safe`: abusing the result in place (`phase_global`, `*= 2`, `modify`) is a program
-- whose calls are only asked to modify variable 1 = the result
example : CallsOwned (List.replicate [2].length false ++ List.replicate (opT.results false).length true)
    [⟨.phaseGlobal, true, [1]⟩, ⟨.scalarOp tMul, true, [1]⟩, ⟨.modify { indices := some 0 }, false, [1]⟩,
     ⟨.binaryF .outer, false, [1, 0]⟩, ⟨.phaseSync, true, [2]⟩] := by
  simp [CallsOwned, Op.arity, Op.targets, Op.alwaysInplace, Op.neverInplace, Op.results, opT]

/-- sharing a dict is rejected by the discipline, whatever follows … -/
theorem share_not_safe (Q : List Bool → Prop) (o : List Bool) (t s : Nat) (k : Prog) :
    ¬ Safe Q o (.cmd (.sharePhases t s) k) ∧ ¬ Safe Q o (.cmd (.shareBlocks t s) k) := by
  constructor <;> (intro h; simp [Safe, Cmd.ok] at h)

/-- … and rightly so.  `copy` that binds the operand's sign dict instead of a copy of it
    (`new._phases = self.phases`, mutant m42; `copy_with(phases=x.phases)` does the same through the
    public internal-use API): `phase_global(inplace=True)` on the RESULT changes the OPERAND. -/
def sharedCopy : Prog := .cmd (.copy 0) (.cmd (.sharePhases 1 0) .done)

theorem shared_sign_dict_leaks :
    let r := sharedCopy.run h0 [2]
    let r' := (Op.phaseGlobal.prog true).run r.1 [envGet r.2 1]
    Unchanged h0 r.1 (reachable h0 [2]) ∧ ¬ Unchanged h0 r'.1 (reachable h0 [2]) := by
  refine ⟨by decide +kernel, ?_⟩
  intro hu
  have := hu 1 (by decide) _ rfl
  revert this
  decide +kernel

/-- the same for the block dict: `x.copy_with(blocks=x.blocks)` keeps the caller's dict
    (`new._blocks = … if blocks is None else blocks`), so `y *= 2` on the result rewrites `x` -/
def sharedBlocks : Prog := .cmd (.copyWith 0 {}) (.cmd (.shareBlocks 1 0) .done)

theorem shared_block_dict_leaks :
    let r := sharedBlocks.run h0 [2]
    let r' := ((Op.scalarOp tMul).prog true).run r.1 [envGet r.2 1]
    ¬ Unchanged h0 r'.1 (reachable h0 [2]) := by
  intro r r' hu
  have := hu 0 (by decide) _ rfl
  revert this
  decide +kernel

end SymmModel.C14
