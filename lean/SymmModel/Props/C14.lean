/-
  SymmModel.Props.C14 — "Operations never modify their operands unless asked to", proved on the heap
  model `SymmModel.Model.Heap` (objects with identity, CPython's primitive effects, every public
  operation transcribed as an effect program).

  The proof architecture: `Proofs/HeapLemmas.lean` proves ONCE (`safe_inv`) that any effect program
  which mutates only through variables it owns (objects it allocated itself, or the operands it was
  asked to modify) leaves every other pre-existing object identical.  Here each operation's program is
  shown to obey that discipline (`op_safe`), from which the frame theorems follow for every operation,
  every sequence of operations with arbitrary sharing of operands, and every abuse of the results.
-/
import SymmModel.Proofs.HeapLemmas
import SymmModel.Proofs.HeapRefine
namespace SymmModel.C14
open SymmModel.Heap

/-- every object of `objs` that existed in `h` is identical (same slots / same ordered items) in `h'` -/
def Unchanged (h h' : Heap) (objs : List ObjId) : Prop :=
  ∀ i ∈ objs, ∀ o, h.get? i = some o → h'.get? i = some o

def unchangedB (h h' : Heap) (objs : List ObjId) : Bool :=
  objs.all fun i => match h.get? i with
    | some o => h'.get? i == some o
    | none => true

theorem unchanged_iff (h h' : Heap) (objs : List ObjId) : Unchanged h h' objs ↔ unchangedB h h' objs = true := by
  simp only [Unchanged, unchangedB, List.all_eq_true]
  constructor
  · intro hu i hi
    cases hg : h.get? i with
    | none => rfl
    | some o => simpa using hu i hi o hg
  · intro hb i hi o ho
    have := hb i hi
    simpa [ho] using this

instance (h h' : Heap) (objs : List ObjId) : Decidable (Unchanged h h' objs) :=
  decidable_of_iff _ (unchanged_iff h h' objs).symm

/-- ownership of the operand variables at the start of a call: exactly the operands the call is
    asked to modify -/
def flags (op : Op) (inplace : Bool) : List Bool :=
  (List.range op.arity).map fun j => (op.targets inplace).contains j

/-- at the end, the returned objects are owned (new, or the operands asked to be modified) -/
def ResOwned (op : Op) (inplace : Bool) : List Bool → Prop :=
  fun o' => ∀ r ∈ op.results inplace, o'.getD r false = true

/-! ## every operation obeys the ownership discipline -/

/-- unfold an operation's program and decide the ownership side conditions -/
local macro "op_simp" : tactic => `(tactic|
  simp [Op.prog, flags, ResOwned, Op.results, Op.targets, Op.alwaysInplace, Op.neverInplace, Op.arity,
    viaCopy, viaCopyWith, Safe, Cmd.ok, Cmd.push, safe_script, List.range, List.range.loop,
    safe_alignK_false, safe_alignK_true, safe_tdotBlockwiseK, safe_actsK])

theorem op_safe (op : Op) (inplace : Bool) : Safe (ResOwned op inplace) (flags op inplace) (op.prog inplace) := by
  cases op with
  | fuseA core es => cases core <;> cases inplace <;> op_simp
  | binaryA m =>
    cases inplace
    · op_simp; exact safe_binaryK (by rfl) (by rfl) _ _ _ (by op_simp)
    · op_simp; exact safe_binaryK (by rfl) (by rfl) _ _ _ (by op_simp)
  | binaryF m =>
    cases inplace
    · op_simp
      exact safe_syncedK (by rfl) _ _ _ (safe_binaryK (by rfl) (by rfl) _ _ _ (by op_simp))
        (safe_binaryK (by rfl) (by rfl) _ _ _ (by op_simp))
    · op_simp
      exact safe_syncedK (by rfl) _ _ _ (safe_binaryK (by rfl) (by rfl) _ _ _ (by op_simp))
        (safe_binaryK (by rfl) (by rfl) _ _ _ (by op_simp))
  | tdotFused p => cases inplace <;> (op_simp; exact safe_tdotFusedK (by rfl) _ _ _ _ (by op_simp))
  | tdotFermionic p =>
    have h23 : ([false, false, true, true] : List Bool).getD (if p.flipOnA = true then 2 else 3) false = true := by
      cases p.flipOnA <;> rfl
    cases inplace <;>
    · op_simp
      rw [safe_script h23, safe_script (by rfl), safe_script (by rfl)]
      cases p.fused with
      | some f =>
        dsimp only
        refine safe_tdotFusedK (by rfl) _ _ _ _ ?_
        intro v
        rw [safe_script (by rfl)]; op_simp
      | none =>
        dsimp only
        rw [safe_tdotBlockwiseK]
        op_simp
  | svd p => cases inplace <;> (op_simp; exact safe_svdK _ _ (by op_simp))
  | svdTruncated p t =>
    cases inplace <;>
    · op_simp
      refine safe_svdK _ _ ?_
      intro v
      have own : ∀ (l : List (Key × Val)) (g : Key × Val → List Mut),
          (∀ e m, m ∈ g e → m.tgt = 1 ∨ m.tgt = 2 ∨ m.tgt = 3) →
          ∀ m ∈ l.flatMap g, ([false, true, true, true] : List Bool).getD m.tgt false = true := by
        intro l g hg m hm
        simp only [List.mem_flatMap] at hm
        obtain ⟨e, _, hm⟩ := hm
        rcases hg e m hm with h | h | h <;> rw [h] <;> rfl
      rw [safe_mutsK _ (own _ _ (by intro e m hm; simp at hm; rcases hm with rfl | rfl | rfl <;> simp [Mut.tgt])),
          safe_mutsK _ (own _ _ (by intro e m hm; simp at hm; rcases hm with rfl | rfl | rfl <;> simp [Mut.tgt]))]
      intro v'
      simp only [Safe, Cmd.ok, Cmd.push]
      refine ⟨by rfl, by rfl, ?_⟩
      intro v''
      rw [safe_mutsK _ (own _ _ (by
        intro e m hm
        simp only [List.mem_append] at hm
        rcases hm with hm | hm
        · split at hm
          · simp at hm; subst hm; simp [Mut.tgt]
          · simp at hm
        · split at hm
          · simp at hm; subst hm; simp [Mut.tgt]
          · simp at hm))]
      op_simp
  | eigh p negate =>
    cases inplace <;>
    · op_simp
      refine safe_syncedK (by rfl) _ _ _ ?_ ?_ <;>
      · intro v
        simp only [Safe, Cmd.ok, Cmd.push, true_and]
        intro v'
        rw [safe_actsK (by rfl)]; op_simp
  | solve p fc =>
    cases inplace <;>
    · op_simp
      refine safe_syncedK (by rfl) _ _ _ ?_ ?_ <;>
      · refine safe_syncedK (by rfl) _ _ _ ?_ ?_ <;>
        · intro v
          simp only [Safe, Cmd.ok, Cmd.push, true_and]
          rw [safe_script (by rfl)]; op_simp
  | _ => cases inplace <;> op_simp

/-! ## one call -/

theorem envGet_take {l : List ObjId} {n j : Nat} (hj : j < n) : envGet (l.take n) j = envGet l j := by
  simp [envGet, List.getD, hj]

theorem flags_true {op : Op} {inplace : Bool} {j : Nat} (h : (flags op inplace).getD j false = true) :
    j < op.arity ∧ j ∈ op.targets inplace := by
  have hlt := getD_true_lt h
  simp only [flags, List.length_map, List.length_range] at hlt
  refine ⟨hlt, ?_⟩
  simp only [flags, List.getD, List.getElem?_map, List.getElem?_range hlt, Option.map_some,
    Option.getD_some, List.contains_iff_mem] at h
  exact h

theorem targets_lt_arity (op : Op) (inplace : Bool) : ∀ j ∈ op.targets inplace, j < op.arity := by
  cases op <;> cases inplace <;> simp [Op.targets, Op.alwaysInplace, Op.neverInplace, Op.arity]

/-- the operand objects a call is asked to modify -/
def targetObjs (op : Op) (inplace : Bool) (operands : List ObjId) : List ObjId :=
  (op.targets inplace).map (envGet operands)

/-- **the footprint of one call**: of the objects existing before the call, only the objects it was
    asked to modify may be rebound and only they / the dicts they pointed to may be mutated;
    every returned object is owned: it and the dicts it points to are new or belong to that footprint -/
theorem op_step (op : Op) (inplace : Bool) (h : Heap) (operands : List ObjId)
    (hn : op.arity ≤ operands.length)
    (htg : ∀ x ∈ targetObjs op inplace operands, x < h.size) :
    Step (· ∈ targetObjs op inplace operands) (· ∈ reachable h (targetObjs op inplace operands))
      h (op.run inplace h operands).1 ∧
    (∀ r ∈ (op.run inplace h operands).2,
      Own h (· ∈ targetObjs op inplace operands) (· ∈ reachableDicts h (targetObjs op inplace operands))
        (op.run inplace h operands).1 r) ∧
    (∀ x ∈ targetObjs op inplace operands,
      Own h (· ∈ targetObjs op inplace operands) (· ∈ reachableDicts h (targetObjs op inplace operands))
        (op.run inplace h operands).1 x) := by
  have I0 : Inv h (· ∈ targetObjs op inplace operands) (· ∈ reachableDicts h (targetObjs op inplace operands))
      h (operands.take op.arity) (flags op inplace) := by
    refine ⟨Step.refl _ _ _, by simp [flags, Nat.min_eq_left hn], ?_⟩
    intro j hj
    obtain ⟨hlt, hmem⟩ := flags_true hj
    rw [envGet_take hlt]
    have hx : envGet operands j ∈ targetObjs op inplace operands := List.mem_map_of_mem hmem
    refine ⟨htg _ hx, Or.inr hx, fun d hd => Or.inr ?_⟩
    simp only [reachableDicts, List.mem_flatMap]
    exact ⟨_, hx, hd⟩
  obtain ⟨ext, e2, hq, he, I⟩ := safe_inv (op.prog inplace) (op_safe op inplace) I0
  refine ⟨I.step.mono (fun _ e => e) ?_, ?_, ?_⟩
  · intro i hi
    simp only [reachable, List.mem_flatMap, List.mem_cons]
    rcases hi with hi | hi
    · exact ⟨i, hi, Or.inl rfl⟩
    · simp only [reachableDicts, List.mem_flatMap] at hi
      obtain ⟨x, hx, hd⟩ := hi
      exact ⟨x, hx, Or.inr hd⟩
  · intro r hr
    simp only [Op.run, List.mem_map] at hr
    obtain ⟨j, hj, rfl⟩ := hr
    exact I.own j (hq j hj)
  · intro x hx
    simp only [targetObjs, List.mem_map] at hx
    obtain ⟨j, hj, rfl⟩ := hx
    have hlt : j < op.arity := targets_lt_arity op inplace j hj
    have hfl : (flags op inplace).getD j false = true := by
      simp only [flags, List.getD, List.getElem?_map, List.getElem?_range hlt, Option.map_some,
        Option.getD_some, List.contains_iff_mem]
      exact hj
    have hlen : j < (flags op inplace).length := by simp [flags, hlt]
    have := I.own j (by rw [getD_append_left' hlen]; exact hfl)
    rw [he] at this
    have hj' : j < (operands.take op.arity).length := by simp [Nat.min_eq_left hn, hlt]
    simpa [Op.run, envGet, List.getD, List.getElem?_append_left hj', List.getElem?_take, hlt] using this

/-- an operation not asked to modify anything: nothing that existed is rebound or mutated -/
theorem op_step_out (op : Op) (inplace : Bool) (h : Heap) (operands : List ObjId)
    (hn : op.arity ≤ operands.length) (hout : op.targets inplace = []) :
    Step Never Never h (op.run inplace h operands).1 := by
  have htg : ∀ x ∈ targetObjs op inplace operands, x < h.size := by simp [targetObjs, hout]
  exact (op_step op inplace h operands hn htg).1.mono (by simp [targetObjs, hout])
    (by simp [targetObjs, hout, reachable])

/-- **`op_frame`**: an operation called without being asked to modify anything leaves EVERY
    object that existed before the call identical — in particular everything reachable from its
    operands, whatever they share with each other -/
theorem op_frame_all (op : Op) (inplace : Bool) (h : Heap) (operands : List ObjId)
    (hn : op.arity ≤ operands.length) (hout : op.targets inplace = []) (objs : List ObjId) :
    Unchanged h (op.run inplace h operands).1 objs := by
  intro i _ o ho
  exact (op_step_out op inplace h operands hn hout).same ho (fun e => e) (fun e => e)

theorem op_frame (op : Op) (h : Heap) (operands : List ObjId) (hn : op.arity ≤ operands.length)
    (hflag : op.alwaysInplace = false) {h' : Heap} {results : List ObjId}
    (hrun : op.run false h operands = (h', results)) :
    Unchanged h h' (reachable h operands) := by
  have := op_frame_all op false h operands hn (by simp [Op.targets, hflag]) (reachable h operands)
  rw [hrun] at this; exact this

/-- the in-place variant touches nothing but the operand it was asked to modify and that operand's
    dicts: all other operands (not sharing a dict with it) are unchanged -/
theorem op_frame_inplace (op : Op) (inplace : Bool) (h : Heap) (operands : List ObjId)
    (hn : op.arity ≤ operands.length)
    (htg : ∀ x ∈ targetObjs op inplace operands, x < h.size)
    (objs : List ObjId) (hdis : ∀ i ∈ objs, i ∉ reachable h (targetObjs op inplace operands)) :
    Unchanged h (op.run inplace h operands).1 objs := by
  obtain ⟨st, _, _⟩ := op_step op inplace h operands hn htg
  intro i hi o ho
  have hni := hdis i hi
  refine st.same ho ?_ hni
  intro hx
  apply hni
  simp only [reachable, List.mem_flatMap, List.mem_cons]
  exact ⟨i, hx, Or.inl rfl⟩

/-- **`no_shared_dict`**: after an out-of-place call every returned object, and every dict a returned
    object points to, was allocated by the call … -/
theorem result_objects_new (op : Op) (inplace : Bool) (h : Heap) (operands : List ObjId)
    (hn : op.arity ≤ operands.length) (hout : op.targets inplace = []) :
    ∀ r ∈ (op.run inplace h operands).2, h.size ≤ r ∧
      ∀ d ∈ dictsOf (op.run inplace h operands).1 r, h.size ≤ d := by
  have htg : ∀ x ∈ targetObjs op inplace operands, x < h.size := by simp [targetObjs, hout]
  obtain ⟨_, ow, _⟩ := op_step op inplace h operands hn htg
  intro r hr
  have w := ow r hr
  refine ⟨?_, fun d hd => ?_⟩
  · rcases w.self with h1 | h1
    · exact h1
    · simp [targetObjs, hout] at h1
  · rcases w.dicts d hd with h1 | h1
    · exact h1
    · simp [targetObjs, hout, reachableDicts] at h1

/-- … hence no mutable object is shared between results and operands (or anything else that existed) -/
theorem no_shared_dict (op : Op) (inplace : Bool) (h : Heap) (operands : List ObjId)
    (hn : op.arity ≤ operands.length) (hout : op.targets inplace = [])
    (hvalid : ∀ d ∈ reachableDicts h operands, d < h.size) :
    ∀ d, d ∈ reachableDicts (op.run inplace h operands).1 (op.run inplace h operands).2 →
      d ∉ reachableDicts h operands := by
  intro d hd hd'
  simp only [reachableDicts, List.mem_flatMap] at hd
  obtain ⟨r, hr, hdr⟩ := hd
  have h1 : h.size ≤ d := (result_objects_new op inplace h operands hn hout r hr).2 d hdr
  have h2 : d < h.size := hvalid d hd'
  exact absurd h2 (Nat.not_lt.mpr h1)

/-! ## programs of operations on shared operands -/

/-- every call is well formed and not asked to modify anything -/
def AllOut (cs : List Call) : Prop := ∀ c ∈ cs, c.op.arity ≤ c.args.length ∧ c.op.targets c.inplace = []

theorem prog_step (cs : List Call) (hout : AllOut cs) (h : Heap) (env : Env) :
    Step Never Never h (runCalls cs h env).1 := by
  induction cs generalizing h env with
  | nil => exact Step.refl _ _ _
  | cons c r ih =>
    obtain ⟨hn, ht⟩ := hout c (List.mem_cons_self ..)
    have s1 := op_step_out c.op c.inplace h (c.args.map (envGet env)) (by simpa using hn) ht
    exact s1.trans (ih (fun c' h' => hout c' (List.mem_cons_of_mem _ h')) _ _) (fun _ _ e => e) (fun _ _ e => e)

/-- **`prog_frame`**: any program of out-of-place operations — any length, any sharing pattern,
    results of earlier steps used as operands of later ones, the same object passed twice — leaves
    every object that existed before it identical -/
theorem prog_frame (cs : List Call) (hout : AllOut cs) (h : Heap) (env : Env) (objs : List ObjId) :
    Unchanged h (runCalls cs h env).1 objs := by
  intro i _ o ho
  exact (prog_step cs hout h env).same ho (fun e => e) (fun e => e)

theorem runCalls_append (cs1 cs2 : List Call) (h : Heap) (env : Env) :
    runCalls (cs1 ++ cs2) h env = runCalls cs2 (runCalls cs1 h env).1 (runCalls cs1 h env).2 := by
  induction cs1 generalizing h env with
  | nil => rfl
  | cons c r ih => simp only [List.cons_append, runCalls]; exact ih _ _

/-- … and every intermediate value is left identical by all later steps -/
theorem prog_frame_later (cs1 cs2 : List Call) (hout : AllOut cs2) (h : Heap) (env : Env)
    (objs : List ObjId) :
    Unchanged (runCalls cs1 h env).1 (runCalls (cs1 ++ cs2) h env).1 objs := by
  rw [runCalls_append]; exact prog_frame cs2 hout _ _ objs

/-- ownership discipline for a program of calls: whatever a call is asked to modify is an owned
    variable (a result of an earlier call); results of every call are owned afterwards -/
def CallsOwned : List Bool → List Call → Prop
  | _, [] => True
  | oo, c :: r => c.op.arity ≤ c.args.length ∧
      (∀ j ∈ c.op.targets c.inplace, oo.getD (c.args.getD j 0) false = true) ∧
      CallsOwned (oo ++ List.replicate (c.op.results c.inplace).length true) r

structure OInv (h0 h : Heap) (env : Env) (oo : List Bool) : Prop where
  step : Step Never Never h0 h
  len : oo.length = env.length
  own : ∀ j, oo.getD j false = true → Own h0 Never Never h (envGet env j)

theorem own_lift {h0 h h' : Heap} {WA WD : ObjId → Prop} {r : ObjId} (w : Own h WA WD h' r)
    (hs : h0.size ≤ h.size) (hA : ∀ x, WA x → h0.size ≤ x) (hD : ∀ d, WD d → h0.size ≤ d) :
    Own h0 Never Never h' r := by
  refine ⟨w.lt, ?_, fun d hd => ?_⟩
  · rcases w.self with h1 | h1
    · exact Or.inl (Nat.le_trans hs h1)
    · exact Or.inl (hA _ h1)
  · rcases w.dicts d hd with h1 | h1
    · exact Or.inl (Nat.le_trans hs h1)
    · exact Or.inl (hD _ h1)

theorem run_results_length (op : Op) (inplace : Bool) (h : Heap) (operands : List ObjId) :
    (op.run inplace h operands).2.length = (op.results inplace).length := by simp [Op.run]

theorem call_inv {h0 h : Heap} {env : Env} {oo : List Bool} (c : Call) (I : OInv h0 h env oo)
    (hn : c.op.arity ≤ c.args.length)
    (ht : ∀ j ∈ c.op.targets c.inplace, oo.getD (c.args.getD j 0) false = true) :
    OInv h0 (c.op.run c.inplace h (c.args.map (envGet env))).1
      (env ++ (c.op.run c.inplace h (c.args.map (envGet env))).2)
      (oo ++ List.replicate (c.op.results c.inplace).length true) := by
  -- the operands the call is asked to modify are owned variables
  have tgOwn : ∀ x ∈ targetObjs c.op c.inplace (c.args.map (envGet env)), Own h0 Never Never h x := by
    intro x hx
    simp only [targetObjs, List.mem_map] at hx
    obtain ⟨j, hj, rfl⟩ := hx
    have hlt : j < c.args.length := Nat.lt_of_lt_of_le (targets_lt_arity _ _ j hj) hn
    have : envGet (c.args.map (envGet env)) j = envGet env (c.args.getD j 0) := by
      simp [envGet, List.getD, List.getElem?_map, List.getElem?_eq_getElem hlt]
    rw [this]; exact I.own _ (ht j hj)
  have fA : ∀ x, x ∈ targetObjs c.op c.inplace (c.args.map (envGet env)) → h0.size ≤ x := by
    intro x hx
    rcases (tgOwn x hx).self with h1 | h1
    · exact h1
    · exact h1.elim
  have fD : ∀ d, d ∈ reachableDicts h (targetObjs c.op c.inplace (c.args.map (envGet env))) → h0.size ≤ d := by
    intro d hd
    simp only [reachableDicts, List.mem_flatMap] at hd
    obtain ⟨x, hx, hd⟩ := hd
    rcases (tgOwn x hx).dicts d hd with h1 | h1
    · exact h1
    · exact h1.elim
  obtain ⟨st, ro, to⟩ := op_step c.op c.inplace h (c.args.map (envGet env)) (by simpa using hn)
    (fun x hx => (tgOwn x hx).lt)
  refine ⟨I.step.trans st ?_ ?_, by simp [I.len, run_results_length], ?_⟩
  · intro i hi hx
    have := fA i hx
    omega
  · intro i hi hx
    simp only [reachable, List.mem_flatMap, List.mem_cons] at hx
    obtain ⟨x, hx, hd⟩ := hx
    rcases hd with rfl | hd
    · have := fA i hx; omega
    · have := fD i (by simp only [reachableDicts, List.mem_flatMap]; exact ⟨x, hx, hd⟩)
      omega
  · intro j hj
    by_cases hlt : j < oo.length
    · -- an older owned variable: a target of this call, or untouched by it
      rw [getD_append_left' hlt] at hj
      have hlt' : j < env.length := I.len ▸ hlt
      have : envGet (env ++ (c.op.run c.inplace h (c.args.map (envGet env))).2) j = envGet env j := by
        simp [envGet, List.getD, List.getElem?_append_left hlt']
      rw [this]
      by_cases hm : envGet env j ∈ targetObjs c.op c.inplace (c.args.map (envGet env))
      · exact own_lift (to _ hm) I.step.size fA fD
      · exact (I.own j hj).ext st hm
    · -- a result of this call
      have hge : oo.length ≤ j := Nat.le_of_not_lt hlt
      obtain ⟨k, rfl⟩ : ∃ k, j = oo.length + k := ⟨j - oo.length, by omega⟩
      have hk : k < (c.op.run c.inplace h (c.args.map (envGet env))).2.length := by
        have := getD_true_lt hj
        simp only [List.length_append, List.length_replicate] at this
        rw [run_results_length]; omega
      have : envGet (env ++ (c.op.run c.inplace h (c.args.map (envGet env))).2) (oo.length + k) =
          (c.op.run c.inplace h (c.args.map (envGet env))).2[k] := by
        simp [envGet, List.getD, I.len, List.getElem?_append_right, List.getElem?_eq_getElem hk]
      rw [this]
      exact own_lift (ro _ (List.getElem_mem hk)) I.step.size fA fD

theorem calls_inv {h0 : Heap} (cs : List Call) :
    ∀ {h : Heap} {env : Env} {oo : List Bool}, CallsOwned oo cs → OInv h0 h env oo →
      ∃ oo', OInv h0 (runCalls cs h env).1 (runCalls cs h env).2 oo' := by
  induction cs with
  | nil => intro h env oo _ I; exact ⟨oo, I⟩
  | cons c r ih =>
    intro h env oo hc I
    obtain ⟨hn, ht, hr⟩ := hc
    exact ih hr (call_inv c I hn ht)

/-- **`result_mutation_safe`**: run an operation out of place, then apply ANY program of operations
    that is only ever asked to modify the RESULTS (every `inplace=True` method, `modify`,
    `apply_to_arrays`, `set_params`, …, and further out-of-place calls whose results are abused in
    turn; operands may be read at will): every object that existed before the first call is
    identical at the end -/
theorem result_mutation_safe (op : Op) (inplace : Bool) (h : Heap) (operands : List ObjId)
    (hn : op.arity ≤ operands.length) (hout : op.targets inplace = [])
    (cs : List Call)
    (hcs : CallsOwned (List.replicate operands.length false ++
      List.replicate (op.results inplace).length true) cs)
    (objs : List ObjId) :
    Unchanged h (runCalls cs (op.run inplace h operands).1 (operands ++ (op.run inplace h operands).2)).1 objs := by
  have I0 : OInv h h operands (List.replicate operands.length false) :=
    ⟨Step.refl _ _ _, by simp, fun j hj => by
      have := getD_true_lt hj
      simp only [List.length_replicate] at this
      simp [List.getD, this] at hj⟩
  have I1 := call_inv (h0 := h) ⟨op, inplace, List.range operands.length⟩ I0
    (by simpa using hn) (by simp [hout])
  have hmap : (List.range operands.length).map (envGet operands) = operands := by
    apply List.ext_getElem
    · simp
    · intro i h1 h2
      simp only [List.length_map, List.length_range] at h1
      simp [envGet, List.getD, List.getElem?_eq_getElem h1]
  simp only [hmap] at I1
  obtain ⟨oo', I2⟩ := calls_inv cs hcs I1
  intro i _ o ho
  exact I2.step.same ho (fun e => e) (fun e => e)

/-! ## the in-place variant produces, in place, the value the out-of-place variant returns -/

/-- `new = self if inplace else self.copy(); body(new)` -/
theorem viaCopy_same (s : Script) {h : Heap} {x : ObjId} {a : ArrObj} {bd : Dict} {pd : Option Dict}
    (w : WFArr h x a bd pd) :
    ∃ r c, ((viaCopy 1 [] s true).run h [x]).2 = [x] ∧ ((viaCopy 1 [] s false).run h [x]).2 = [x, r] ∧
      content ((viaCopy 1 [] s true).run h [x]).1 x = some c ∧
      content ((viaCopy 1 [] s false).run h [x]).1 r = some c ∧
      ((viaCopy 1 [] s true).run h [x]).1.bufs = ((viaCopy 1 [] s false).run h [x]).1.bufs := by
  -- in place
  obtain ⟨hi, ai, bi, pi, ri, wi, ei⟩ := script_refines s 0 .done (env := [x]) (by simp) (by simpa [envGet] using w)
  -- out of place: the copy has the operand's content …
  obtain ⟨ac, bc, pc, wc, ec⟩ := copyWithArr_refines {} w
  rw [modifyP_empty, ← copyArr_eq] at ec
  rw [← copyArr_eq] at wc
  -- … and the same body runs on it
  obtain ⟨ho, ao, bo, po, ro, wo, eo⟩ := script_refines s 1 .done (h := (copyArr h x).1)
    (env := [x, (copyArr h x).2]) (by simp) (by simpa [envGet] using wc)
  have hpure : (cont ao bo po, ho.bufs) = (cont ai bi pi, hi.bufs) := by
    rw [eo, ei]; congr 1
  refine ⟨(copyArr h x).2, cont ai bi pi, ?_, ?_, ?_, ?_, ?_⟩
  · simp only [viaCopy, if_true, ri, Prog.run]
  · simp only [viaCopy, Bool.false_eq_true, if_false, Prog.run, runCmd, envGet, List.getD_cons_zero,
      List.cons_append, List.nil_append]
    simpa [Prog.run] using congrArg Prod.snd ro
  · simp only [viaCopy, if_true, ri, Prog.run]
    simpa [envGet] using wi.content
  · simp only [viaCopy, Bool.false_eq_true, if_false, Prog.run, runCmd, envGet, List.getD_cons_zero,
      List.cons_append, List.nil_append]
    have := congrArg Prod.fst ro
    simp only [Prog.run] at this
    rw [this]
    have hc := wo.content
    simp only [envGet, List.getD_cons_succ, List.getD_cons_zero] at hc
    rw [hc, (Prod.mk.inj hpure).1]
  · simp only [viaCopy, if_true, Bool.false_eq_true, if_false, Prog.run, runCmd, envGet, List.getD_cons_zero,
      List.cons_append, List.nil_append]
    have h1 := congrArg Prod.fst ro
    have h2 := congrArg Prod.fst ri
    simp only [Prog.run] at h1 h2
    rw [h1, h2, (Prod.mk.inj hpure).2]

/-- `m = …; self.modify(**m) if inplace else self.copy_with(**m)`, then `post` in place -/
theorem viaCopyWith_same (mf : Content → View → Mods) (post : Script) {h : Heap} {x : ObjId} {a : ArrObj}
    {bd : Dict} {pd : Option Dict} (w : WFArr h x a bd pd) :
    ∃ r c, ((viaCopyWith 1 [] mf post true).run h [x]).2 = [x] ∧
      ((viaCopyWith 1 [] mf post false).run h [x]).2 = [x, r] ∧
      content ((viaCopyWith 1 [] mf post true).run h [x]).1 x = some c ∧
      content ((viaCopyWith 1 [] mf post false).run h [x]).1 r = some c ∧
      ((viaCopyWith 1 [] mf post true).run h [x]).1.bufs = ((viaCopyWith 1 [] mf post false).run h [x]).1.bufs := by
  have w0 : WFArr h (envGet [x] 0) a bd pd := by simpa [envGet] using w
  have hv : View.at (([x] : Env).map (see h)) 0 = cont a bd pd := view_at (by simp) w0
  -- in place: `modify`, then `post`
  obtain ⟨a1, b1, p1, w1, e1⟩ := runAct_refines (.modify (mf (cont a bd pd) [])) w
  obtain ⟨hi, ai, bi, pi, ri, wi, ei⟩ := script_refines post 0 .done (env := [x]) (by simp)
    (by simpa [envGet] using w1)
  -- out of place: `copy_with`, then `post` on the copy
  obtain ⟨ac, bc, pc, wc, ec⟩ := copyWithArr_refines (mf (cont a bd pd) []) w
  obtain ⟨ho, ao, bo, po, ro, wo, eo⟩ := script_refines post 1 .done
    (h := (copyWithArr h x (mf (cont a bd pd) [])).1)
    (env := [x, (copyWithArr h x (mf (cont a bd pd) [])).2]) (by simp) (by simpa [envGet] using wc)
  have hpure : (cont ao bo po, ho.bufs) = (cont ai bi pi, hi.bufs) := by
    rw [eo, ei, ec, e1]; rfl
  have runIn : (viaCopyWith 1 [] mf post true).run h [x] = (hi, [x]) := by
    simp only [viaCopyWith, Prog.run, List.map_nil, hv, if_true, runCmd, envGet, List.getD_cons_zero]
    simpa [Prog.run, envGet] using ri
  have runOut : (viaCopyWith 1 [] mf post false).run h [x] =
      (ho, [x, (copyWithArr h x (mf (cont a bd pd) [])).2]) := by
    simp only [viaCopyWith, Prog.run, List.map_nil, hv, Bool.false_eq_true, if_false, runCmd, envGet,
      List.getD_cons_zero, List.cons_append, List.nil_append]
    simpa [Prog.run] using ro
  refine ⟨(copyWithArr h x (mf (cont a bd pd) [])).2, cont ai bi pi, ?_, ?_, ?_, ?_, ?_⟩
  · rw [runIn]
  · rw [runOut]
  · rw [runIn]; simpa [envGet] using wi.content
  · rw [runOut]
    have hc := wo.content
    simp only [envGet, List.getD_cons_succ, List.getD_cons_zero] at hc
    rw [hc, (Prod.mk.inj hpure).1]
  · rw [runIn, runOut, (Prod.mk.inj hpure).2]

/-- the same with a second, read-only operand `v` that shares no object with `x`
    (`x.multiply_diagonal(v, axis, inplace)`) -/
theorem viaCopy_same_other (s : Script) {h : Heap} {x v : ObjId} {a av : ArrObj} {bd bv : Dict}
    {pd pv : Option Dict} (wx : WFArr h x a bd pd) (wv : WFArr h v av bv pv) (hne : v ≠ x)
    (hb : av.blocks ∉ dictsOf h x) (hp : ∀ p, av.phases = some p → p ∉ dictsOf h x) :
    ∃ r c, ((viaCopy 2 [1] s true).run h [x, v]).2 = [x, v] ∧
      ((viaCopy 2 [1] s false).run h [x, v]).2 = [x, v, r] ∧
      content ((viaCopy 2 [1] s true).run h [x, v]).1 x = some c ∧
      content ((viaCopy 2 [1] s false).run h [x, v]).1 r = some c ∧
      ((viaCopy 2 [1] s true).run h [x, v]).1.bufs = ((viaCopy 2 [1] s false).run h [x, v]).1.bufs := by
  have hvb := get?_lt wv.blk
  have hvp : ∀ p, av.phases = some p → p < h.size := fun p hq =>
    get?_lt (wv.ph p hq).choose_spec.2.1
  -- in place
  obtain ⟨hi, ai, bi, pi, ri, wi, ei⟩ := script_refines_others s 0 [1] .done (n0 := h.size)
    (D0 := dictsOf h x) (env := [x, v]) (by simp) (by simpa [envGet] using wx)
    (by
      intro j hj
      simp only [List.mem_singleton] at hj
      subst hj
      exact ⟨by simp, av, bv, pv, by simpa [envGet] using wv, by simpa [envGet] using hne, hvb,
        by simpa [envGet] using hb, fun p hq => ⟨hvp p hq, by simpa [envGet] using hp p hq⟩⟩)
    (fun d hd => Or.inl (by simpa [envGet] using hd)) (Nat.le_refl _)
  -- out of place
  obtain ⟨ac, bc, pc, wc, ec⟩ := copyWithArr_refines {} wx
  rw [modifyP_empty, ← copyArr_eq] at ec
  rw [← copyArr_eq] at wc
  have cs := copyArr_spec h x
  have wv1 : WFArr (copyArr h x).1 v av bv pv := wf_ext cs.1 wv
  have hvlt : v < h.size := get?_lt wv.arr
  obtain ⟨ho, ao, bo, po, ro, wo, eo⟩ := script_refines_others s 2 [1] .done (n0 := h.size) (D0 := [])
    (h := (copyArr h x).1) (env := [x, v, (copyArr h x).2]) (by simp) (by simpa [envGet] using wc)
    (by
      intro j hj
      simp only [List.mem_singleton] at hj
      subst hj
      refine ⟨by simp, av, bv, pv, by simpa [envGet] using wv1, ?_, hvb, by simp, fun p hq => ⟨hvp p hq, by simp⟩⟩
      simp only [envGet, List.getD_cons_succ, List.getD_cons_zero]
      exact Nat.ne_of_lt (Nat.lt_of_lt_of_le hvlt cs.2.ge))
    (fun d hd => Or.inr (cs.2.dicts d (by simpa [envGet] using hd))) cs.1.size
  have hview : othersView (copyArr h x).1 [x, v, (copyArr h x).2] [1] = othersView h [x, v] [1] := by
    simp only [othersView, List.map_cons, List.map_nil, List.getD_cons_succ, List.getD_cons_zero]
    rw [see_arr wv1, see_arr wv]
  have hpure : (cont ao bo po, ho.bufs) = (cont ai bi pi, hi.bufs) := by
    rw [eo, ei, hview]; congr 1
  have runIn : (viaCopy 2 [1] s true).run h [x, v] = (hi, [x, v]) := by
    simp only [viaCopy, if_true]; simpa [Prog.run] using ri
  have runOut : (viaCopy 2 [1] s false).run h [x, v] = (ho, [x, v, (copyArr h x).2]) := by
    simp only [viaCopy, Bool.false_eq_true, if_false, Prog.run, runCmd, envGet, List.getD_cons_zero,
      List.cons_append, List.nil_append]
    simpa [Prog.run] using ro
  refine ⟨(copyArr h x).2, cont ai bi pi, ?_, ?_, ?_, ?_, ?_⟩
  · rw [runIn]
  · rw [runOut]
  · rw [runIn]; simpa [envGet] using wi.content
  · rw [runOut]
    have hc := wo.content
    simp only [envGet, List.getD_cons_succ, List.getD_cons_zero] at hc
    rw [hc, (Prod.mk.inj hpure).1]
  · rw [runIn, runOut, (Prod.mk.inj hpure).2]

/-- `inplace_same_value` for `multiply_diagonal` -/
theorem inplace_same_value_multiply_diagonal (chargeOf : Key → Key) {h : Heap} {x v : ObjId} {a av : ArrObj}
    {bd bv : Dict} {pd pv : Option Dict} (wx : WFArr h x a bd pd) (wv : WFArr h v av bv pv) (hne : v ≠ x)
    (hb : av.blocks ∉ dictsOf h x) (hp : ∀ p, av.phases = some p → p ∉ dictsOf h x) :
    ∃ r c, ((Op.multiplyDiagonal chargeOf).run true h [x, v]).2 = [x] ∧
      ((Op.multiplyDiagonal chargeOf).run false h [x, v]).2 = [r] ∧
      content ((Op.multiplyDiagonal chargeOf).run true h [x, v]).1 x = some c ∧
      content ((Op.multiplyDiagonal chargeOf).run false h [x, v]).1 r = some c ∧
      ((Op.multiplyDiagonal chargeOf).run true h [x, v]).1.bufs =
        ((Op.multiplyDiagonal chargeOf).run false h [x, v]).1.bufs := by
  obtain ⟨r, c, e1, e2, c1, c2, hbf⟩ := viaCopy_same_other (S.multiplyDiagonal chargeOf) wx wv hne hb hp
  refine ⟨r, c, ?_, ?_, c1, c2, hbf⟩
  · simp only [Op.run, Op.arity, Op.results, Op.targets, Op.alwaysInplace, Op.neverInplace, Op.prog]
    simp [e1, envGet]
  · simp only [Op.run, Op.arity, Op.results, Op.targets, Op.alwaysInplace, Op.neverInplace, Op.prog]
    simp [e2, envGet]

/-- the operations with an `inplace` switch that act on one array -/
def unaryFlagged : Op → Bool
  | .scalarOp _ | .unaryOpA _ | .unaryOpF _ | .conjA _ _ | .transposeA _ _ | .daggerA _ _ _ _ | .squeeze _ _
  | .expandDims _ | .fuseCore _ | .fuseA _ _ | .unfuseA _ | .unfuseAll _ | .reshape _ | .syncCharges _
  | .phaseFlip _ _ | .phaseTranspose _ | .phaseSector _ | .phaseGlobal | .phaseSync | .transposeF _ _ _ _
  | .conjF _ _ _ _ _ _ | .daggerF _ _ _ _ _ _ | .fuseF _ _ | .unfuseF _ => true
  | _ => false

theorem op_shape (op : Op) (hop : unaryFlagged op = true) :
    (∃ s, ∀ ip, op.prog ip = viaCopy 1 [] s ip) ∨
    (∃ mf post, ∀ ip, op.prog ip = viaCopyWith 1 [] mf post ip) := by
  cases op with
  | fuseA core es =>
    cases core with
    | none => exact Or.inl ⟨_, fun _ => rfl⟩
    | some f => exact Or.inr ⟨fun c _ => S.fuseMods f.plan f.fi c, expandsS es, fun _ => rfl⟩
  | fuseCore f => exact Or.inr ⟨fun c _ => S.fuseMods f.plan f.fi c, .nil, fun _ => rfl⟩
  | unfuseA u => exact Or.inr ⟨fun c _ => S.unfuseMods u.split u.fi c, .nil, fun _ => rfl⟩
  | syncCharges fi => exact Or.inr ⟨fun c _ => S.syncMods fi c, .nil, fun _ => rfl⟩
  | scalarOp _ => exact Or.inl ⟨_, fun _ => rfl⟩
  | unaryOpA _ => exact Or.inl ⟨_, fun _ => rfl⟩
  | unaryOpF _ => exact Or.inl ⟨_, fun _ => rfl⟩
  | conjA _ _ => exact Or.inl ⟨_, fun _ => rfl⟩
  | transposeA _ _ => exact Or.inl ⟨_, fun _ => rfl⟩
  | daggerA _ _ _ _ => exact Or.inl ⟨_, fun _ => rfl⟩
  | squeeze _ _ => exact Or.inl ⟨_, fun _ => rfl⟩
  | expandDims _ => exact Or.inl ⟨_, fun _ => rfl⟩
  | unfuseAll _ => exact Or.inl ⟨_, fun _ => rfl⟩
  | reshape _ => exact Or.inl ⟨_, fun _ => rfl⟩
  | phaseFlip _ _ => exact Or.inl ⟨_, fun _ => rfl⟩
  | phaseTranspose _ => exact Or.inl ⟨_, fun _ => rfl⟩
  | phaseSector _ => exact Or.inl ⟨_, fun _ => rfl⟩
  | phaseGlobal => exact Or.inl ⟨_, fun _ => rfl⟩
  | phaseSync => exact Or.inl ⟨_, fun _ => rfl⟩
  | transposeF _ _ _ _ => exact Or.inl ⟨_, fun _ => rfl⟩
  | conjF _ _ _ _ _ _ => exact Or.inl ⟨_, fun _ => rfl⟩
  | daggerF _ _ _ _ _ _ => exact Or.inl ⟨_, fun _ => rfl⟩
  | fuseF _ _ => exact Or.inl ⟨_, fun _ => rfl⟩
  | unfuseF _ => exact Or.inl ⟨_, fun _ => rfl⟩
  | _ => simp [unaryFlagged] at hop

theorem unaryFlagged_results (op : Op) (hop : unaryFlagged op = true) :
    op.arity = 1 ∧ op.results true = [0] ∧ op.results false = [1] := by
  cases op <;> first
    | (simp [unaryFlagged] at hop; done)
    | simp [Op.arity, Op.results, Op.targets, Op.alwaysInplace, Op.neverInplace]

/-- **`inplace_same_value`**: for every operation with an `inplace` switch acting on one well-formed
    array object, the in-place call returns the operand itself, and that object ends with exactly
    the abstract content (index tables, charge, ordered block dict, ordered sign dict, labels) of the
    object the out-of-place call returns from the same heap; both calls create the same buffers
    (same kernels on the same arguments, in the same order), so equal buffer ids mean equal data -/
theorem inplace_same_value (op : Op) (hop : unaryFlagged op = true) {h : Heap} {x : ObjId} {a : ArrObj}
    {bd : Dict} {pd : Option Dict} (w : WFArr h x a bd pd) :
    ∃ r c, (op.run true h [x]).2 = [x] ∧ (op.run false h [x]).2 = [r] ∧
      content (op.run true h [x]).1 x = some c ∧ content (op.run false h [x]).1 r = some c ∧
      (op.run true h [x]).1.bufs = (op.run false h [x]).1.bufs := by
  obtain ⟨har, hrt, hrf⟩ := unaryFlagged_results op hop
  simp only [Op.run, har, hrt, hrf, List.take_succ_cons, List.take_zero, List.map_cons, List.map_nil]
  rcases op_shape op hop with ⟨s, hs⟩ | ⟨mf, post, hs⟩
  · obtain ⟨r, c, e1, e2, c1, c2, hb⟩ := viaCopy_same s w
    rw [hs true, hs false]
    exact ⟨r, c, by rw [e1]; rfl, by rw [e2]; rfl, c1, c2, hb⟩
  · obtain ⟨r, c, e1, e2, c1, c2, hb⟩ := viaCopyWith_same mf post w
    rw [hs true, hs false]
    exact ⟨r, c, by rw [e1]; rfl, by rw [e2]; rfl, c1, c2, hb⟩

/-! ## non-vacuity, and what the theorems exclude -/

/-- a fermionic array `x = 2` with two blocks and one pending sign -/
def h0 : Heap :=
  { objs := [.dict [(0, 0), (1, 1)], .dict [(1, -1)],
             .arr { indices := 5, charge := 1, blocks := 0, phases := some 1, oddpos := 3 }],
    bufs := [(0, []), (0, [])] }

def opT : Op := .transposeF (· + 10) (· + 1) (fun k => if k == 1 then -1 else 1) true

-- the hypotheses of `op_frame` / `no_shared_dict` hold for a call that really does something:
example : opT.arity ≤ [2].length ∧ opT.alwaysInplace = false ∧ opT.targets false = [] := by decide
example : ∀ d ∈ reachableDicts h0 [2], d < h0.size := by decide
-- out of place: a new array (object 5) with new dicts 3 → 6 (blocks) and 4 → 7 (signs); `x` is as before
example : (opT.run false h0 [2]).2 = [5] ∧ dictsOf (opT.run false h0 [2]).1 5 = [7, 6] ∧
    content (opT.run false h0 [2]).1 2 = content h0 2 ∧
    content (opT.run false h0 [2]).1 5 ≠ content h0 2 := by decide +kernel
-- in place: the same object is returned and it now holds the value the out-of-place call returned
example : (opT.run true h0 [2]).2 = [2] ∧
    content (opT.run true h0 [2]).1 2 = content (opT.run false h0 [2]).1 5 := by decide +kernel
-- `result_mutation_safe`: abusing the result in place (`phase_global`, `*= 2`, `modify`) is a program
-- whose calls are only asked to modify variable 1 = the result
example : CallsOwned (List.replicate [2].length false ++ List.replicate (opT.results false).length true)
    [⟨.phaseGlobal, true, [1]⟩, ⟨.scalarOp tMul, true, [1]⟩, ⟨.modify { indices := some 0 }, false, [1]⟩,
     ⟨.binaryF .outer, false, [1, 0]⟩, ⟨.phaseSync, true, [2]⟩] := by
  simp [CallsOwned, Op.arity, Op.targets, Op.alwaysInplace, Op.neverInplace, Op.results, opT]

-- the well-formedness hypothesis of `inplace_same_value` holds for `x`, and the theorem applies to `opT`:
example : WFArr h0 2 { indices := 5, charge := 1, blocks := 0, phases := some 1, oddpos := 3 }
    [(0, 0), (1, 1)] (some [(1, -1)]) :=
  ⟨rfl, rfl, fun p hp => by cases hp; exact ⟨_, rfl, rfl, by decide⟩, fun hn => by cases hn⟩
example : unaryFlagged opT = true := rfl

/- `inplace_same_value` is proved for the 24 operations of `unaryFlagged` (one array operand).
   NOT proved (full statement kept here): the same conclusion for the in-place forms with a second,
   read-only operand other than `multiply_diagonal` (proved separately above) —
   `__iadd__/__isub__/__imul__/__itruediv__` with a block array (`binaryA`, `binaryF`) — under the
   hypothesis that the second operand shares no object with the first, and for
   `drop_misaligned_sectors(inplace=True)` (two targets):
     theorem inplace_same_value_binary (op) (h) (x y) (wx : WFArr h x …) (wy : WFArr h y …)
       (apart : ∀ i ∈ reachable h [y], i ∉ reachable h [x]) :
       ∃ r c, (op.run true h [x, y]).2 = [x] ∧ (op.run false h [x, y]).2 = [r] ∧
         content (op.run true h [x, y]).1 x = some c ∧ content (op.run false h [x, y]).1 r = some c
   Missing: a content-level meaning of `binaryK` (interleaved effects on the target and on the temporary
   dict `other_blocks`) and of `syncedK`; `script_refines_others` already covers the stability of the
   other operand.  The harness compares these
   in-place forms with the out-of-place results on the real code instead. -/

/-- sharing a dict is rejected by the discipline, whatever follows … -/
theorem share_not_safe (Q : List Bool → Prop) (o : List Bool) (t s : Nat) (k : Prog) :
    ¬ Safe Q o (.cmd (.sharePhases t s) k) ∧ ¬ Safe Q o (.cmd (.shareBlocks t s) k) := by
  constructor <;> (intro h; simp [Safe, Cmd.ok] at h)

/-- … and rightly so.  `copy` that binds the operand's sign dict instead of a copy of it
    (`new._phases = self.phases`, mutant m42; `copy_with(phases=x.phases)` does the same through the
    public internal-use API): `phase_global(inplace=True)` on the RESULT changes the OPERAND. -/
def sharedCopy : Prog := .cmd (.copy 0) (.cmd (.sharePhases 1 0) .done)

theorem shared_sign_dict_leaks :
    let r := sharedCopy.run h0 [2]
    let r' := (Op.phaseGlobal.prog true).run r.1 [envGet r.2 1]
    Unchanged h0 r.1 (reachable h0 [2]) ∧ ¬ Unchanged h0 r'.1 (reachable h0 [2]) := by
  refine ⟨by decide +kernel, ?_⟩
  intro hu
  have := hu 1 (by decide) _ rfl
  revert this
  decide +kernel

/-- the same for the block dict: `x.copy_with(blocks=x.blocks)` keeps the caller's dict
    (`new._blocks = … if blocks is None else blocks`), so `y *= 2` on the result rewrites `x` -/
def sharedBlocks : Prog := .cmd (.copyWith 0 {}) (.cmd (.shareBlocks 1 0) .done)

theorem shared_block_dict_leaks :
    let r := sharedBlocks.run h0 [2]
    let r' := ((Op.scalarOp tMul).prog true).run r.1 [envGet r.2 1]
    ¬ Unchanged h0 r'.1 (reachable h0 [2]) := by
  intro r r' hu
  have := hu 0 (by decide) _ rfl
  revert this
  decide +kernel

end SymmModel.C14
