/-
  Property C10 — umbrella: the involution / adjoint laws (`Props/C10.lean`) and the norm clause
  (`Props/C10b.lean`).  Both files use `namespace SymmModel.C10`.
-/
import SymmModel.Props.C10
import SymmModel.Props.C10b
