/-
  Property C07 — umbrella module: all seven parts of the property theorems.
-/
import SymmModel.Props.C07All5
import SymmModel.Props.C07g
