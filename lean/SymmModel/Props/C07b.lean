/-
  Property C07, second part — "reshaping never changes an array's content": array-level content
  preservation of unfuse / fuse / expand_dims / squeeze and of every certified reshape plan, for
  ABELIAN arrays; reshape to the current shape; number and sizes of the axes of the result.

  Vocabulary (Proofs/ReshapeMore.lean, namespace `ReshapeP`):
    `entrySum g a`     Σ of `g` over all stored entries of `a`
    `SameContent a b`  every additive statistic `Σ g(entry)` with `g 0 = 0` agrees — equivalently
                       (`content_perm_nonzero`) the multisets of NON-ZERO stored entries agree, and
                       (`content_normSq2`) so does the squared norm `C12.normSq2`.  Stored zeros may
                       be added (fusing materialises zero blocks) or dropped.
    `nzEntries a`      the non-zero stored entries, block after block
    `Sim x st`         the array `x` is described by the symbolic shape `st` of `C07.Plan.exec`

  The fuse statements hold for ARBITRARY admissible groupings (the general element map of C05b is
  available), so no restriction to one multi-axis group is needed; `applyPlan_content` assumes the
  plan certificate `Plan.wfB` (which makes every fuse call group consecutive axes).
-/
import SymmModel.Proofs.ReshapeMore

namespace SymmModel.C07
open SymmModel ReshapeP

variable {R : Type}

/-! ## what "same content" means -/

/-- same content ⇒ the multiset of non-zero stored entries (hence of their magnitudes) is the same -/
theorem content_perm_nonzero [Zero R] [DecidableEq R] {a b : Arr R} (h : SameContent a b) :
    (nzEntries a).Perm (nzEntries b) := h.perm_nonzero

/-- same content ⇒ the same squared norm (`C12.normSq2`, the driver's "norm2"), for every `nsq`
    with `nsq 0 = 0` into a commutative monoid -/
theorem content_normSq2 [Zero R] {a b : Arr R} (h : SameContent a b) {S : Type} [AddCommMonoid S]
    (nsq : R → S) (h0 : nsq 0 = 0) : C12.normSq2 nsq a = C12.normSq2 nsq b := h.normSq2 nsq h0

/-! ## A1. the single operations -/

/-- **fuseCore_multiset.**  Fusing (insert strategy, ANY admissible list of groups — one or several
    multi-axis groups, any position, any order of the axes inside a group) keeps the content: the
    fused array stores every original entry exactly once, plus zeros. -/
theorem fuseCore_multiset [Zero R] [DecidableEq R] (a x : Arr R) (groups : List (List Nat))
    (hv : a.validB = true) (hf : a.fermi = false) (hg : C05.groupsOkB groups a.ndim = true)
    (h : fuseCore a groups .insert = .ok x) :
    SameContent a x ∧ (nzEntries a).Perm (nzEntries x)
      ∧ ∀ (S : Type) [AddCommMonoid S] (nsq : R → S), nsq 0 = 0 → C12.normSq2 nsq a = C12.normSq2 nsq x :=
  let hc := fuseCore_sameContent a x groups hv hf hg h
  ⟨hc, hc.perm_nonzero, fun _ _ nsq h0 => hc.normSq2 nsq h0⟩

/-- the hook for general groupings is a theorem: no extra hypothesis is needed -/
theorem fuseCore_multiset_general [Zero R] (a x : Arr R) (groups : List (List Nat))
    (hv : a.validB = true) (hf : a.fermi = false) (hg : C05.groupsOkB groups a.ndim = true)
    (h : fuseCore a groups .insert = .ok x) : SameContent a x :=
  fuseCore_sameContent a x groups hv hf hg h

/-- the concat strategy, for one multi-axis group (where C05 proves it agrees with insert) -/
theorem fuseCore_concat_multiset [Zero R] (a y : Arr R) (gaxes : List Nat) (hv : a.validB = true)
    (hf : a.fermi = false) (hg : C05.groupsOkB [gaxes] a.ndim = true) (hlen : gaxes.length ≠ 1)
    (h : fuseCore a [gaxes] .concat = .ok y) : SameContent a y :=
  fuseCore_concat_sameContent a y gaxes hv hf hg hlen h

/-- the public `fuse` (non-empty admissible groups, either value of `expand_empty`) -/
theorem fuseA_multiset [Zero R] (a x : Arr R) (groups : List (List Nat)) (expandEmpty : Bool)
    (hv : a.validB = true) (hf : a.fermi = false) (hg : C05.groupsOkB groups a.ndim = true)
    (h : fuseA a groups .insert expandEmpty = .ok x) : SameContent a x :=
  fuseA_sameContent a x groups expandEmpty hv hf hg h

/-- **unfuseA_multiset.**  Unfusing any fused axis of any valid array keeps the content: the slices
    partition every block, the reshape of a slice does not touch its data. -/
theorem unfuseA_multiset [Zero R] [DecidableEq R] (x y : Arr R) (axis : Nat) (hv : x.validB = true)
    (h : unfuseA x axis = .ok y) :
    SameContent x y ∧ (nzEntries x).Perm (nzEntries y) :=
  let hc := unfuseA_sameContent x y axis hv h
  ⟨hc, hc.perm_nonzero⟩

/-- `expand_dims` (any charge) keeps the list of stored data, hence the content -/
theorem expandDims_multiset [Zero R] (a : Arr R) (axis : Nat) (c : Option Charge) (dual : Option Bool)
    (hnd : a.sectors.Nodup) : SameContent a (a.expandDims axis c dual) :=
  expandDims_sameContent a axis c dual hnd

/-- `squeeze` keeps the list of stored data, hence the content -/
theorem squeeze_multiset [Zero R] (a a' : Arr R) (axis : Option (List Nat)) (hsh : Arr.ShapesOk a)
    (hnd : a.sectors.Nodup) (h : a.squeeze axis = .ok a') : SameContent a a' :=
  squeeze_sameContent a a' axis hsh hnd h

/-- a fused index is at most as large as the product of its sub-indices (sparse fusing) -/
theorem fused_size_le (sym : Sym) (ix : Index) (hw : Index.wfB sym ix = true) (subs : List Index)
    (exts : Extents) (hs : ix.sub = some (subs, exts)) :
    ix.sizeTotal ≤ prod (subs.map Index.sizeTotal) :=
  sizeTotal_le_prod_subs hw hs

/-! ## A2 / A4. whole plans -/

/-- **applyPlan_content.**  Executing a certified plan (`Plan.wfB`: all axes in range, only fused
    axes unfused, every fuse call groups consecutive axes) on a valid abelian array keeps the
    content — by induction over the unfuse, fuse and expand steps. -/
theorem applyPlan_content [Zero R] [Neg R] (a r : Arr R)
    (t : List Nat × List (List (List Nat)) × List Nat) (newshape : List Nat)
    (hv : a.validB = true) (hf : a.fermi = false)
    (hwf : (Plan.ofTriple t).wfB a.shape a.subsizes newshape = true) (h : applyPlan a t = .ok r) :
    SameContent a r ∧ r.validB = true := by
  obtain ⟨st, hs, _, hc⟩ := applyPlan_sim a r t newshape hv hf hwf h
  exact ⟨hc, hs.valid⟩

/-- **reshape_axes_count.**  The result of a certified plan has exactly `newshape.length` axes, and
    axis `i` has total size at most `newshape[i]` (equal unless a fuse was sparse). -/
theorem applyPlan_axes_count [Zero R] [Neg R] (a r : Arr R)
    (t : List Nat × List (List (List Nat)) × List Nat) (newshape : List Nat)
    (hv : a.validB = true) (hf : a.fermi = false)
    (hwf : (Plan.ofTriple t).wfB a.shape a.subsizes newshape = true) (h : applyPlan a t = .ok r) :
    r.ndim = newshape.length ∧ List.Forall₂ (fun (d' d : Nat) => d' ≤ d) r.shape newshape := by
  obtain ⟨st, hs, hsz, _⟩ := applyPlan_sim a r t newshape hv hf hwf h
  obtain ⟨h1, h2⟩ := hs.axes_le
  rw [hsz] at h2
  refine ⟨by rw [h1, ← hsz]; simp [SymShape.sizes], ?_⟩
  simp only [Arr.shape]
  rw [List.forall₂_map_left_iff]
  exact h2

/-- the same for `AbelianArray.reshape` itself: when the plan the planner returns is certified, a
    successful `reshape(newshape)` keeps the content and returns the requested number of axes
    with sizes at most the requested ones -/
theorem reshape_axes_count [Zero R] [Neg R] (a r : Arr R) (ns full : List Int) (nsN : List Nat)
    (t : List Nat × List (List (List Nat)) × List Nat)
    (hv : a.validB = true) (hf : a.fermi = false)
    (h1 : findFullReshape ns a.size = .ok full)
    (h2 : full.mapM (fun (d : Int) => if d < 0 then (throw Err.notimpl : Except Err Nat) else pure d.toNat)
      = .ok nsN)
    (h3 : calcReshapeArgs a.shape nsN a.subsizes = .ok t)
    (hwf : (Plan.ofTriple t).wfB a.shape a.subsizes nsN = true)
    (h : reshapeArr a ns = .ok r) :
    SameContent a r ∧ r.validB = true ∧ r.ndim = nsN.length
      ∧ List.Forall₂ (fun (d' d : Nat) => d' ≤ d) r.shape nsN := by
  rw [reshapeArr_eq a ns full nsN t h1 h2 h3] at h
  obtain ⟨c1, c2⟩ := applyPlan_content a r t nsN hv hf hwf h
  obtain ⟨c3, c4⟩ := applyPlan_axes_count a r t nsN hv hf hwf h
  exact ⟨c1, c2, c3, c4⟩

/-! ## A3. reshaping to the current shape -/

/-- **reshape_self_identity.**  For an array without fused axes `reshape(shape)` returns the array
    itself — exact equality (the planner returns the empty plan, `reshape_self_id`). -/
theorem reshape_self_identity [Zero R] [Neg R] (a : Arr R) (h : ∀ ix ∈ a.indices, ix.sub = none) :
    reshapeArr a (a.shape.map Int.ofNat) = .ok a :=
  reshapeArr_self a h

/-! ## examples -/

section Examples
open C05

def nzOf (r : Except Err (Arr Int)) : Option (List Nat × List Int) :=
  match r with | .ok x => some (x.shape, nzEntries x) | .error _ => none

example : exA.validB = true ∧ exA.fermi = false ∧ exA.shape = [3, 3, 2] ∧ nzEntries exA = [1, 2, 3, 4, 5, 6] := by
  decide +kernel
-- `reshape(3, -1)`: the fused axis has size 3 < 6 requested (sparse fuse); same non-zero entries
example : nzOf (reshapeArr exA [3, -1]) = some ([3, 3], [1, 3, 4, 2, 5, 6]) := by decide +kernel
example : groupsOkB [[1, 2]] exA.ndim = true ∧ groupsOkB [[2, 0]] exA.ndim = true := by decide
example : nzOf (fuseCore exA [[2, 0]] .insert) = some ([4, 3], [1, 2, 3, 4, 5, 6]) := by decide +kernel
example : reshapeArr exA [3, 3, 2] = .ok exA := reshape_self_identity exA (by decide)

example := fuseCore_multiset (R := Int) exA _ [[2, 0]] (by decide) rfl (by decide) rfl
example : ∃ t, calcReshapeArgs exA.shape [3, 6] exA.subsizes = .ok t
    ∧ (Plan.ofTriple t).wfB exA.shape exA.subsizes [3, 6] = true := ⟨_, rfl, by decide⟩
example := reshape_axes_count (R := Int) exA _ [3, -1] [3, 6] [3, 6] _ (by decide) rfl rfl rfl rfl
  (by decide) rfl

end Examples

end SymmModel.C07
