/-
  Property C08 — umbrella module: all three parts of the property theorems.
-/
import SymmModel.Props.C08All
import SymmModel.Props.C08c
