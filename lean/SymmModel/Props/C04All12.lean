/- Property C04 — umbrella incl. C04j (several pairs at once or one after another: values). -/
import SymmModel.Props.C04All11
import SymmModel.Props.C04j
