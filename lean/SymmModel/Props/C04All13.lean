/- Property C04 — umbrella incl. C04k (two-step contraction: one-step call in any mode, label renamings, abelian trace-sum form). -/
import SymmModel.Props.C04All12
import SymmModel.Props.C04k
