/-
  SymmModel.Props.C14d — fourth part of property C14: the heap model tied to the VALUE model on `Arr`.

  (1) `psSem` (heap-side `phase_sync` on block values) is `Arr.phaseSync`; hence the fermionic in-place
      binary operators end at exactly what `Driver/Ops.lean` evaluates for `add / sub / mul` of fermionic
      arrays: `binaryBlockwise fn m a.phaseSync.blocks b.phaseSync.blocks`.
  (2) two more in-place operations end to end: `phase_sync(inplace=True)` denotes `Arr.phaseSync`,
      `multiply_diagonal(v, axis, inplace=True)` denotes `multiplyDiagonal`.
  (4) `_map_blocks` (hence `squeeze`, `expand_dims`), in place and out of place, end to end: block dict
      AND sign dict afterwards represent `Arr.mapBlocks` — the sign entries of stored blocks re-keyed, the
      stale ones discarded (library repair 2f542e3) — with no hypothesis on the sign table.
  (3) the frame theorems at the level users observe: an out-of-place call of ANY operation of both
      tables (and any program of such calls) leaves the DENOTATION of every pre-existing array unchanged.
-/
import SymmModel.Props.C14All2
import SymmModel.Proofs.Heap4Frame
import SymmModel.Proofs.Heap4Sync
import SymmModel.Proofs.Heap4MulDiag
namespace SymmModel.C14
open SymmModel.Heap

/-! ## (3) the first clause of C14 at the level of values -/

/-- **frame, denotation level, any operation given as an `OpSpec`**: a well-formed array `y` that
    existed before an out-of-place call is afterwards the same object with the same content, and — the
    buffer table being append-only — its content has the same denotation under every interpretation -/
theorem spec_frame_denotation (s : OpSpec) (ok : s.OK) (hout : s.targets = []) (h : Heap)
    (operands : List ObjId) (hn : s.arity ≤ operands.length) {y : ObjId} {ay : ArrObj} {bo : Dict}
    {po : Option Dict} (wy : WFArr h y ay bo po) (hok : BlocksOK h bo) :
    content (s.run h operands).1 y = content h y ∧
    ∀ (V : Type) (I : Nat → List V → V) (d : V),
      semContent I d (s.run h operands).1.bufs (cont ay bo po) = semContent I d h.bufs (cont ay bo po) := by
  have w' := wf_of_same (spec_frame_all s ok h operands hn hout) wy
  refine ⟨by rw [w'.content, wy.content], ?_⟩
  intro V I d
  simp only [semContent, cont]
  rw [semDict_bufext I d (spec_bufext s h operands) hok]

/-- … for the first operation table (every operand, every other live array; `inplace` may even be
    `true` for operations that have no in-place form) -/
theorem op_frame_denotation (op : Op) (inplace : Bool) (hout : op.targets inplace = []) (h : Heap)
    (operands : List ObjId) (hn : op.arity ≤ operands.length) {y : ObjId} {ay : ArrObj} {bo : Dict}
    {po : Option Dict} (wy : WFArr h y ay bo po) (hok : BlocksOK h bo) :
    content (op.run inplace h operands).1 y = content h y ∧
    ∀ (V : Type) (I : Nat → List V → V) (d : V),
      semContent I d (op.run inplace h operands).1.bufs (cont ay bo po) =
        semContent I d h.bufs (cont ay bo po) :=
  spec_frame_denotation (op.spec inplace) (op_spec_ok op inplace) hout h operands hn wy hok

/-- … for the second operation table -/
theorem op2_frame_denotation (op : Op2) (h : Heap) (operands : List ObjId) (hn : op.arity ≤ operands.length)
    {y : ObjId} {ay : ArrObj} {bo : Dict} {po : Option Dict} (wy : WFArr h y ay bo po) (hok : BlocksOK h bo) :
    content (op.run h operands).1 y = content h y ∧
    ∀ (V : Type) (I : Nat → List V → V) (d : V),
      semContent I d (op.run h operands).1.bufs (cont ay bo po) = semContent I d h.bufs (cont ay bo po) :=
  spec_frame_denotation op.spec (op2_spec_ok op) rfl h operands hn wy hok

/-- … and for every program of calls of both tables that is only ever asked to modify results of its
    own earlier calls (any length, any sharing, results abused in place) -/
theorem gprog_frame_denotation (cs : List GCall) (h : Heap) (env : Env)
    (hcs : GCallsOwned (List.replicate env.length false) cs) {y : ObjId} {ay : ArrObj} {bo : Dict}
    {po : Option Dict} (wy : WFArr h y ay bo po) (hok : BlocksOK h bo) :
    content (runG cs h env).1 y = content h y ∧
    ∀ (V : Type) (I : Nat → List V → V) (d : V),
      semContent I d (runG cs h env).1.bufs (cont ay bo po) = semContent I d h.bufs (cont ay bo po) := by
  have w' := wf_of_same (gprog_frame cs h env hcs) wy
  refine ⟨by rw [w'.content, wy.content], ?_⟩
  intro V I d
  simp only [semContent, cont]
  rw [semDict_bufext I d (runG_bufext cs h env) hok]

/-! ## (1) the fermionic binary operators end at the value model on `Arr` -/

section value
variable {R : Type} [Neg R] (fn : Blk R → Blk R → Blk R) (enc : Sector → Key)
  (I : Nat → List (Blk R) → Blk R) (d : Blk R)

/-- **`x ∘= y`, fermionic, end to end on `Arr`.**  `x`, `y` represent the value-model arrays `A`, `Bv`
    (`Rep`: block dict denotes the blocks, sign dict is the sign table, sectors encoded injectively as
    keys).  If the value model's fermionic binary operation — `binaryBlockwise fn m` on the
    SYNCHRONISED operands, exactly `Driver/Ops.lean`'s `binop` — yields the blocks `bl`, then after the
    in-place call `x`'s block dict denotes `bl`, and so does the block dict of the out-of-place result. -/
theorem binaryF_value' (hI : ∀ a b, I tFn [a, b] = fn a b) (hneg : ∀ v, I tNeg [v] = Blk.negK v)
    (m : Heap.Missing) {h : Heap} {x y : ObjId}
    {a ay : ArrObj} {bd bo : Dict} {pd po : Option Dict} (wx : WFArr h x a bd pd) (wy : WFArr h y ay bo po)
    (hne : y ≠ x) (hdis : ∀ q ∈ dictsOf h y, q ∉ dictsOf h x) (okx : BlocksOK h bd) (oky : BlocksOK h bo)
    (nx : (bd.map (·.1)).Nodup) (ny : (bo.map (·.1)).Nodup)
    {A Bv : Arr R} (rx : Rep enc I d h.bufs (cont a bd pd) A) (ry : Rep enc I d h.bufs (cont ay bo po) Bv)
    {Ss : List Sector} (hinj : InjOn enc Ss)
    (hA : ∀ e ∈ A.blocks, e.1 ∈ Ss) (hAp : ∀ e ∈ A.phases, e.1 ∈ Ss) (hApn : (A.phases.map (·.1)).Nodup)
    (hB : ∀ e ∈ Bv.blocks, e.1 ∈ Ss) (hBp : ∀ e ∈ Bv.phases, e.1 ∈ Ss) (hBpn : (Bv.phases.map (·.1)).Nodup)
    {bl : List (Sector × Blk R)}
    (hres : binaryBlockwise fn m.val A.phaseSync.blocks Bv.phaseSync.blocks = .ok bl) :
    ∃ r c, ((Op.binaryF m).run true h [x, y]).2 = [x] ∧ ((Op.binaryF m).run false h [x, y]).2 = [r] ∧
      content ((Op.binaryF m).run true h [x, y]).1 x = some c ∧
      content ((Op.binaryF m).run false h [x, y]).1 r = some c ∧
      semDict I d ((Op.binaryF m).run true h [x, y]).1.bufs c.blocks = encB enc bl ∧
      semDict I d ((Op.binaryF m).run false h [x, y]).1.bufs c.blocks = encB enc bl := by
  refine binaryF_value fn I d hI m wx wy hne hdis okx oky nx ny ?_
  rw [psSem_rep enc I d hneg rx nx hinj hA hAp hApn, psSem_rep enc I d hneg ry ny hinj hB hBp hBpn,
    binaryBlockwise_enc enc fn m.val hinj _ _ (phaseSync_blocks_keys A hA) (phaseSync_blocks_keys Bv hB), hres]
  rfl

/-- **`x ∘= x`, fermionic, pending signs or not, end to end on `Arr`** -/
theorem binaryF_self_value' (hI : ∀ a b, I tFn [a, b] = fn a b) (hneg : ∀ v, I tNeg [v] = Blk.negK v)
    (m : Heap.Missing) {h : Heap} {x : ObjId} {a : ArrObj} {bd : Dict} {pd : Option Dict}
    (wx : WFArr h x a bd pd) (okx : BlocksOK h bd) (nx : (bd.map (·.1)).Nodup)
    {A : Arr R} (rx : Rep enc I d h.bufs (cont a bd pd) A) {Ss : List Sector} (hinj : InjOn enc Ss)
    (hA : ∀ e ∈ A.blocks, e.1 ∈ Ss) (hAp : ∀ e ∈ A.phases, e.1 ∈ Ss) (hApn : (A.phases.map (·.1)).Nodup)
    {bl : List (Sector × Blk R)}
    (hres : binaryBlockwise fn m.val A.phaseSync.blocks A.phaseSync.blocks = .ok bl) :
    ∃ r ci co, ((Op.binaryF m).run true h [x, x]).2 = [x] ∧ ((Op.binaryF m).run false h [x, x]).2 = [r] ∧
      content ((Op.binaryF m).run true h [x, x]).1 x = some ci ∧
      content ((Op.binaryF m).run false h [x, x]).1 r = some co ∧
      semDict I d ((Op.binaryF m).run true h [x, x]).1.bufs ci.blocks = encB enc bl ∧
      semDict I d ((Op.binaryF m).run false h [x, x]).1.bufs co.blocks = encB enc bl := by
  refine binaryF_self_value fn I d hI m wx okx nx ?_
  rw [psSem_rep enc I d hneg rx nx hinj hA hAp hApn,
    binaryBlockwise_enc enc fn m.val hinj _ _ (phaseSync_blocks_keys A hA) (phaseSync_blocks_keys A hA), hres]
  rfl

/-! ## (2) `phase_sync(inplace=True)` denotes `Arr.phaseSync` -/

/-- **`phase_sync`, in place and out of place, end to end on `Arr`**: afterwards `x` (resp. the new
    object `r`) REPRESENTS `A.phaseSync`: block dict denoting the negated blocks, no pending sign -/
theorem phase_sync_value (hneg : ∀ v, I tNeg [v] = Blk.negK v) {h : Heap} {x : ObjId} {a : ArrObj}
    {bd : Dict} {pd : Option Dict} (wx : WFArr h x a bd pd) (okx : BlocksOK h bd)
    (nx : (bd.map (·.1)).Nodup) {A : Arr R} (rx : Rep enc I d h.bufs (cont a bd pd) A) {Ss : List Sector}
    (hinj : InjOn enc Ss) (hA : ∀ e ∈ A.blocks, e.1 ∈ Ss) (hAp : ∀ e ∈ A.phases, e.1 ∈ Ss)
    (hApn : (A.phases.map (·.1)).Nodup) :
    ∃ r c, (Op.phaseSync.run true h [x]).2 = [x] ∧ (Op.phaseSync.run false h [x]).2 = [r] ∧
      content (Op.phaseSync.run true h [x]).1 x = some c ∧
      content (Op.phaseSync.run false h [x]).1 r = some c ∧
      Rep enc I d (Op.phaseSync.run true h [x]).1.bufs c A.phaseSync ∧
      Rep enc I d (Op.phaseSync.run false h [x]).1.bufs c A.phaseSync ∧
      c.indices = a.indices ∧ c.charge = a.charge ∧ c.oddpos = a.oddpos := by
  obtain ⟨r, c, h1, h2, h3, h4, h5⟩ := inplace_same_value Op.phaseSync rfl wx
  -- the in-place run computes `S.phaseSync.pure`
  obtain ⟨h', a', b', p', run', w', e'⟩ := script_refines S.phaseSync 0 .done (env := [x]) (by simp)
    (by simpa [envGet] using wx)
  have hrun : (Op.phaseSync.run true h [x]).1 = h' := by
    simp only [Op.run, Op.arity, Op.prog, viaCopy, if_true, List.take_succ_cons, List.take_zero]
    rw [run']; rfl
  have hc : c = cont a' b' p' := by
    have := w'.content
    simp only [envGet, List.getD_cons_zero] at this
    rw [hrun, this] at h3
    exact (Option.some.inj h3).symm
  obtain ⟨_, _, sem, hi, hch, hodd, hph⟩ := phaseSync_abs I d h.bufs (cont a bd pd) [] okx
  simp only [List.append_nil] at sem hi hch hodd hph
  rw [← e'] at sem hi hch hodd hph
  have rep : Rep enc I d h'.bufs c A.phaseSync := by
    refine ⟨?_, ?_⟩
    · rw [hc, sem]; exact psSem_rep enc I d hneg rx nx hinj hA hAp hApn
    · rw [hc]
      have := psActs_ph (cont a bd pd)
      rw [← hph] at this
      rw [this]; rfl
  refine ⟨r, c, h1, h2, h3, h4, by rw [hrun]; exact rep, by rw [← h5, hrun]; exact rep, ?_, ?_, ?_⟩
  · rw [hc]; exact hi
  · rw [hc]; exact hch
  · rw [hc]; exact hodd

end value

/-! ## (2) `multiply_diagonal(v, axis, inplace=True)` denotes `multiplyDiagonal` -/

section muldiag
variable {R : Type} [Zero R] [Mul R] (enc : Sector → Key) (encC : Charge → Key)
  (I : Nat → List (Blk R) → Blk R) (d : Blk R)

/-- **`multiply_diagonal`, in place and out of place, end to end on `Arr`**: `x`'s block dict denotes
    the blocks of `A`, the vector `v`'s block dict those of the value-model vector `vv`; `chargeOf` is the
    code's `sector[axis]` on encoded keys; `I tMul` is the broadcast product.  Afterwards the block dict
    of `x` (resp. of the new object `r`) denotes the blocks of `multiplyDiagonal A vv axis`; index table,
    charge, pending signs and labels are untouched. -/
theorem multiply_diagonal_value (chargeOf : Key → Key) (axis : Nat)
    (hmul : ∀ b w, I tMul [b, w] = b.mulAxisK w axis) {h : Heap} {x v : ObjId} {a av : ArrObj}
    {bd bv : Dict} {pd pv : Option Dict} (wx : WFArr h x a bd pd) (wv : WFArr h v av bv pv) (hne : v ≠ x)
    (hb : av.blocks ∉ dictsOf h x) (hp : ∀ p, av.phases = some p → p ∉ dictsOf h x)
    (okx : BlocksOK h bd) (okv : BlocksOK h bv) (nx : (bd.map (·.1)).Nodup)
    {A : Arr R} {vv : BVec R} (rx : semDict I d h.bufs bd = encB enc A.blocks)
    (rv : semDict I d h.bufs bv = encV encC vv.blocks)
    (hch : ∀ e ∈ A.blocks, chargeOf (enc e.1) = encC (e.1.getD axis (0, 0)))
    {Sc : List Charge} (hinj : InjOnC encC Sc) (hvk : ∀ e ∈ vv.blocks, e.1 ∈ Sc)
    (hlook : ∀ e ∈ A.blocks, e.1.getD axis (0, 0) ∈ Sc) :
    ∃ r c, ((Op.multiplyDiagonal chargeOf).run true h [x, v]).2 = [x] ∧
      ((Op.multiplyDiagonal chargeOf).run false h [x, v]).2 = [r] ∧
      content ((Op.multiplyDiagonal chargeOf).run true h [x, v]).1 x = some c ∧
      content ((Op.multiplyDiagonal chargeOf).run false h [x, v]).1 r = some c ∧
      semDict I d ((Op.multiplyDiagonal chargeOf).run true h [x, v]).1.bufs c.blocks =
        encB enc (multiplyDiagonal A vv axis).blocks ∧
      semDict I d ((Op.multiplyDiagonal chargeOf).run false h [x, v]).1.bufs c.blocks =
        encB enc (multiplyDiagonal A vv axis).blocks ∧
      c.indices = a.indices ∧ c.charge = a.charge ∧ c.phases = pd ∧ c.oddpos = a.oddpos := by
  obtain ⟨r, c, h1, h2, h3, h4, h5⟩ := inplace_same_value_multiply_diagonal chargeOf wx wv hne hb hp
  -- the in-place run computes `pureV` of the script
  have hvb := get?_lt wv.blk
  have hvp : ∀ p, av.phases = some p → p < h.size := fun p hq => get?_lt (wv.ph p hq).choose_spec.2.1
  obtain ⟨hi, ai, bi, pi, ri, wi, ei⟩ := script_refines_others (S.multiplyDiagonal chargeOf) 0 [1] .done
    (n0 := h.size) (D0 := dictsOf h x) (env := [x, v]) (by simp) (by simpa [envGet] using wx)
    (by
      intro j hj
      simp only [List.mem_singleton] at hj
      subst hj
      exact ⟨by simp, av, bv, pv, by simpa [envGet] using wv, by simpa [envGet] using hne, hvb,
        by simpa [envGet] using hb, fun p hq => ⟨hvp p hq, by simpa [envGet] using hp p hq⟩⟩)
    (fun q hq => Or.inl (by simpa [envGet] using hq)) (Nat.le_refl _)
  have hview : othersView h [x, v] [1] = [Seen.arr (cont av bv pv)] := by
    simp only [othersView, List.map_cons, List.map_nil, List.getD_cons_succ, List.getD_cons_zero]
    rw [see_arr wv]
  rw [hview, multiplyDiagonal_pureV] at ei
  have hrun : ((Op.multiplyDiagonal chargeOf).run true h [x, v]).1 = hi := by
    simp only [Op.run, Op.arity, Op.prog, viaCopy, if_true]
    have := congrArg Prod.fst ri
    simpa [Prog.run] using this
  have hc : c = cont ai bi pi := by
    have := wi.content
    simp only [envGet, List.getD_cons_zero] at this
    rw [hrun, this] at h3
    exact (Option.some.inj h3).symm
  obtain ⟨sem, hi', hch', hodd, hph⟩ := multiplyDiagonal_abs I d chargeOf (cont a bd pd) h.bufs bv okx okv nx
  have hvb' : ((([Seen.arr (cont av bv pv)] : View).getD 0 Seen.none).toContent.blocks) = bv := rfl
  rw [hvb'] at ei
  rw [← ei] at sem hi' hch' hodd hph
  have semv : semDict I d hi.bufs c.blocks = encB enc (multiplyDiagonal A vv axis).blocks := by
    rw [hc]
    refine sem.trans ?_
    show mdSem I chargeOf (semDict I d h.bufs bd) (semDict I d h.bufs bv) = _
    rw [rx, rv]
    exact mdSem_enc enc encC I chargeOf axis hmul A vv hch hinj hvk hlook
  refine ⟨r, c, h1, h2, h3, h4, by rw [hrun]; exact semv, by rw [← h5, hrun]; exact semv, ?_, ?_, ?_, ?_⟩
  · rw [hc]; exact hi'
  · rw [hc]; exact hch'
  · rw [hc]; exact hph
  · rw [hc]; exact hodd

end muldiag

/-! ## (4) `_map_blocks`, `squeeze`, `expand_dims` denote `Arr.mapBlocks` (sign table included) -/

section mapvalue
variable {R : Type} (enc : Sector → Key) (I : Nat → List (Blk R) → Blk R) (d : Blk R)

/-- **`_map_blocks` (always in place), end to end on `Arr`**: `x` represents `A`; the kernel denotes
    `fb`; `fk` is `fs` on the encoded sectors of the stored blocks.  Afterwards `x` REPRESENTS
    `A.mapBlocks fs fb`: new block dict under the re-keyed sectors and — for a fermionic array — the
    sign dict holding exactly the re-keyed entries of the stored blocks (stale entries are discarded,
    as in the repaired library); index table, charge and labels untouched. -/
theorem map_blocks_value (fs : Sector → Sector) (fb : Blk R → Blk R) (fk : Key → Key) (tag : Nat)
    (hI : ∀ b, I tag [b] = fb b) {h : Heap} {x : ObjId} {a : ArrObj} {bd : Dict} {pd : Option Dict}
    (wx : WFArr h x a bd pd) (okx : BlocksOK h bd) {A : Arr R} (rx : Rep enc I d h.bufs (cont a bd pd) A)
    (hf : A.fermi = pd.isSome) {Ss : List Sector} (hinj : InjOn enc Ss) (hA : ∀ e ∈ A.blocks, e.1 ∈ Ss)
    (hAs : ∀ e ∈ A.blocks, fs e.1 ∈ Ss) (hAk : ∀ e ∈ A.blocks, fk (enc e.1) = enc (fs e.1))
    (hAp : ∀ e ∈ A.phases, e.1 ∈ Ss) :
    ∃ c, ((Op.mapBlocks fk tag).run true h [x]).2 = [x] ∧
      content ((Op.mapBlocks fk tag).run true h [x]).1 x = some c ∧
      Rep enc I d ((Op.mapBlocks fk tag).run true h [x]).1.bufs c (A.mapBlocks fs fb) ∧
      c.indices = a.indices ∧ c.charge = a.charge ∧ c.oddpos = a.oddpos := by
  obtain ⟨h', a', b', p', run', w', e'⟩ := script_refines (S.mapBlocks fk tag) 0 .done (env := [x]) (by simp)
    (by simpa [envGet] using wx)
  have hrun : ((Op.mapBlocks fk tag).run true h [x]) = (h', [x]) := by
    simp only [Op.run, Op.arity, Op.prog, List.take_succ_cons, List.take_zero]
    rw [run']; rfl
  have rep := mapBlocks_rep enc I d fs fb fk tag hI rx okx hf hinj hA hAs hAk hAp
  rw [← e'] at rep
  have hc := w'.content
  simp only [envGet, List.getD_cons_zero] at hc
  have e1 := congrArg Prod.fst e'
  rw [mapBlocks_pure] at e1
  simp only [cont] at e1
  refine ⟨cont a' b' p', by rw [hrun], by rw [hrun]; exact hc, by rw [hrun]; exact rep, ?_, ?_, ?_⟩
  · exact congrArg Content.indices e1
  · exact congrArg Content.charge e1
  · exact congrArg Content.oddpos e1


/-- **`squeeze`, in place and out of place, end to end on `Arr`**: afterwards `x` (resp. the new object
    `r`) REPRESENTS `A.mapBlocks fs fb` — which is what `Arr.squeeze` makes of blocks and sign table —
    under the index table `fi a.indices`; in particular a stale sign entry is never re-keyed onto a
    stored sector.  No hypothesis on the sign table beyond the injective encoding of its sectors. -/
theorem squeeze_value (fs : Sector → Sector) (fb : Blk R → Blk R) (fk : Key → Key) (fi : Nat → Nat)
    (hI : ∀ b, I tSlice [b] = fb b) {h : Heap} {x : ObjId} {a : ArrObj} {bd : Dict} {pd : Option Dict}
    (wx : WFArr h x a bd pd) (okx : BlocksOK h bd) {A : Arr R} (rx : Rep enc I d h.bufs (cont a bd pd) A)
    (hf : A.fermi = pd.isSome) {Ss : List Sector} (hinj : InjOn enc Ss) (hA : ∀ e ∈ A.blocks, e.1 ∈ Ss)
    (hAs : ∀ e ∈ A.blocks, fs e.1 ∈ Ss) (hAk : ∀ e ∈ A.blocks, fk (enc e.1) = enc (fs e.1))
    (hAp : ∀ e ∈ A.phases, e.1 ∈ Ss) :
    ∃ r c, ((Op.squeeze fk fi).run true h [x]).2 = [x] ∧ ((Op.squeeze fk fi).run false h [x]).2 = [r] ∧
      content ((Op.squeeze fk fi).run true h [x]).1 x = some c ∧
      content ((Op.squeeze fk fi).run false h [x]).1 r = some c ∧
      Rep enc I d ((Op.squeeze fk fi).run true h [x]).1.bufs c (A.mapBlocks fs fb) ∧
      Rep enc I d ((Op.squeeze fk fi).run false h [x]).1.bufs c (A.mapBlocks fs fb) ∧
      c.indices = fi a.indices ∧ c.charge = a.charge ∧ c.oddpos = a.oddpos := by
  obtain ⟨r, c, h1, h2, h3, h4, h5⟩ := inplace_same_value (Op.squeeze fk fi) rfl wx
  obtain ⟨h', a', b', p', run', w', e'⟩ := script_refines (S.squeeze fk fi) 0 .done (env := [x]) (by simp)
    (by simpa [envGet] using wx)
  have hrun : ((Op.squeeze fk fi).run true h [x]).1 = h' := by
    simp only [Op.run, Op.arity, Op.prog, viaCopy, if_true, List.take_succ_cons, List.take_zero]
    rw [run']; rfl
  have hc : c = cont a' b' p' := by
    have := w'.content
    simp only [envGet, List.getD_cons_zero] at this
    rw [hrun, this] at h3
    exact (Option.some.inj h3).symm
  have rep0 := mapBlocks_rep enc I d fs fb fk tSlice hI rx okx hf hinj hA hAs hAk hAp
  rw [squeeze_pure] at e'
  have e1 := congrArg Prod.fst e'
  have e2 := congrArg Prod.snd e'
  simp only at e1 e2
  have rep : Rep enc I d h'.bufs c (A.mapBlocks fs fb) := by
    rw [hc, e1, e2]
    exact ⟨rep0.blocks, rep0.phases⟩
  have e3 := e1
  rw [mapBlocks_pure] at e3
  simp only [cont] at e3
  refine ⟨r, c, h1, h2, h3, h4, by rw [hrun]; exact rep, by rw [← h5, hrun]; exact rep, ?_, ?_, ?_⟩
  · rw [hc]; exact congrArg Content.indices e3
  · rw [hc]; exact congrArg Content.charge e3
  · rw [hc]; exact congrArg Content.oddpos e3

/-- **`expand_dims`, in place and out of place, end to end on `Arr`** (as `squeeze_value`; the charge
    becomes `fc a.charge`) -/
theorem expand_dims_value (fs : Sector → Sector) (fb : Blk R → Blk R) (e : ExpandP)
    (hI : ∀ b, I tSlice [b] = fb b) {h : Heap} {x : ObjId} {a : ArrObj} {bd : Dict} {pd : Option Dict}
    (wx : WFArr h x a bd pd) (okx : BlocksOK h bd) {A : Arr R} (rx : Rep enc I d h.bufs (cont a bd pd) A)
    (hf : A.fermi = pd.isSome) {Ss : List Sector} (hinj : InjOn enc Ss) (hA : ∀ e ∈ A.blocks, e.1 ∈ Ss)
    (hAs : ∀ e ∈ A.blocks, fs e.1 ∈ Ss) (hAk : ∀ q ∈ A.blocks, e.fk (enc q.1) = enc (fs q.1))
    (hAp : ∀ e ∈ A.phases, e.1 ∈ Ss) :
    ∃ r c, ((Op.expandDims e).run true h [x]).2 = [x] ∧ ((Op.expandDims e).run false h [x]).2 = [r] ∧
      content ((Op.expandDims e).run true h [x]).1 x = some c ∧
      content ((Op.expandDims e).run false h [x]).1 r = some c ∧
      Rep enc I d ((Op.expandDims e).run true h [x]).1.bufs c (A.mapBlocks fs fb) ∧
      Rep enc I d ((Op.expandDims e).run false h [x]).1.bufs c (A.mapBlocks fs fb) ∧
      c.indices = e.fi a.indices ∧ c.charge = e.fc a.charge ∧ c.oddpos = a.oddpos := by
  obtain ⟨r, c, h1, h2, h3, h4, h5⟩ := inplace_same_value (Op.expandDims e) rfl wx
  obtain ⟨h', a', b', p', run', w', e'⟩ := script_refines (S.expandDims e.fk e.fi e.fc) 0 .done (env := [x])
    (by simp) (by simpa [envGet] using wx)
  have hrun : ((Op.expandDims e).run true h [x]).1 = h' := by
    simp only [Op.run, Op.arity, Op.prog, viaCopy, if_true, List.take_succ_cons, List.take_zero]
    rw [run']; rfl
  have hc : c = cont a' b' p' := by
    have := w'.content
    simp only [envGet, List.getD_cons_zero] at this
    rw [hrun, this] at h3
    exact (Option.some.inj h3).symm
  have rep0 := mapBlocks_rep enc I d fs fb e.fk tSlice hI rx okx hf hinj hA hAs hAk hAp
  rw [expandDims_pure] at e'
  have e1 := congrArg Prod.fst e'
  have e2 := congrArg Prod.snd e'
  simp only at e1 e2
  have rep : Rep enc I d h'.bufs c (A.mapBlocks fs fb) := by
    rw [hc, e1, e2]
    exact ⟨rep0.blocks, rep0.phases⟩
  have e3 := e1
  rw [mapBlocks_pure] at e3
  simp only [cont] at e3
  refine ⟨r, c, h1, h2, h3, h4, by rw [hrun]; exact rep, by rw [← h5, hrun]; exact rep, ?_, ?_, ?_⟩
  · rw [hc]; exact congrArg Content.indices e3
  · rw [hc]; exact congrArg Content.charge e3
  · rw [hc]; exact congrArg Content.oddpos e3

end mapvalue

/-! ## non-vacuity -/

/-- an encoding of the two sectors `[(0,0)]`, `[(1,0)]` as the keys 0, 1 -/
def encEx : Sector → Key := fun s => if s == [(0, 0)] then 0 else 1

-- it is injective on these sectors
example : InjOn encEx [[(0, 0)], [(1, 0)]] := by unfold InjOn; decide

-- one interpretation meets all kernel hypotheses at once (`tNeg`, `tFn`, `tMul`)
example {R : Type} [Zero R] [Mul R] [Neg R] (fn : Blk R → Blk R → Blk R) (axis : Nat) (d : Blk R) :
    ∃ I : Nat → List (Blk R) → Blk R, (∀ v, I tNeg [v] = Blk.negK v) ∧ (∀ a b, I tFn [a, b] = fn a b) ∧
      (∀ b w, I tMul [b, w] = b.mulAxisK w axis) :=
  ⟨fun tag args => match tag, args with
    | 6, [v] => Blk.negK v
    | 8, [a, b] => fn a b
    | 7, [b, w] => b.mulAxisK w axis
    | _, _ => d, fun _ => rfl, fun _ _ => rfl, fun _ _ => rfl⟩

-- the array `x = 2` of `h0` (two blocks, the second with a pending sign) represents a value-model array
example {R : Type} (I : Nat → List (Blk R) → Blk R) (d : Blk R) :
    Rep encEx I d h0.bufs (cont { indices := 5, charge := 1, blocks := 0, phases := some 1, oddpos := 3 }
        [(0, 0), (1, 1)] (some [(1, -1)]))
      { (default : Arr R) with blocks := [([(0, 0)], look I d h0.bufs 0), ([(1, 0)], look I d h0.bufs 1)],
                               phases := [([(1, 0)], -1)] } :=
  ⟨rfl, rfl⟩

-- and the side conditions of `binaryF_self_value'` / `phase_sync_value` hold for it
example : BlocksOK h0 [(0, 0), (1, 1)] ∧ (([(0, 0), (1, 1)] : Dict).map (·.1)).Nodup ∧
    (([([(1, 0)], -1)] : List (Sector × Int)).map (·.1)).Nodup := by
  refine ⟨by unfold BlocksOK DictOK; decide, by decide, by decide⟩

-- `_map_blocks` / `squeeze`: a STALE sign entry (key 1, no block) is discarded, not re-keyed onto the
-- stored sector 0 (`fk` maps every key to 0): before the library repair it flipped that block's sign
def h1 : Heap :=
  { objs := [.dict [(0, 0)], .dict [(1, -1)],
             .arr { indices := 5, charge := 1, blocks := 0, phases := some 1, oddpos := 3 }],
    bufs := [(0, [])] }

example : (content ((Op.mapBlocks (fun _ => 0) tSlice).run true h1 [2]).1 2).map (·.phases) = some (some []) := by
  decide
example : (content ((Op.squeeze (fun _ => 0) id).run true h1 [2]).1 2).map (·.phases) = some (some []) ∧
    ((Op.squeeze (fun _ => 0) id).run false h1 [2]).2 = [5] ∧
    (content ((Op.squeeze (fun _ => 0) id).run false h1 [2]).1 5).map (·.phases) = some (some []) := by
  decide
-- … while the entry of a stored block is re-keyed with its block
example : (content ((Op.mapBlocks (fun k => k + 7) tSlice).run true h0 [2]).1 2).map
    (fun c => (c.blocks.map (·.1), c.phases)) = some ([7, 8], some [(8, -1)]) := by
  decide

-- the hypotheses of `map_blocks_value` / `squeeze_value` hold for `h1`'s array with a stale entry in
-- the value model's sign table as well
example {R : Type} (I : Nat → List (Blk R) → Blk R) (d : Blk R) :
    Rep encEx I d h1.bufs (cont { indices := 5, charge := 1, blocks := 0, phases := some 1, oddpos := 3 }
        [(0, 0)] (some [(1, -1)]))
      { (default : Arr R) with fermi := true, blocks := [([(0, 0)], look I d h1.bufs 0)],
                               phases := [([(1, 0)], -1)] } :=
  ⟨rfl, rfl⟩

end SymmModel.C14
