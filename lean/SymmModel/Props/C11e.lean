/-
  Property C11 (fifth part) — reconstruction through `tensordot` in EVERY contraction mode, and
  `solve` with a labelled matrix.

  1. Fermionic arrays, `Arr.tensordotF` = `tensordot_fermionic(q, r, axes=([1],[0]), mode=…)`
     (what `sr.tensordot(q, r, 1)` does; C11/C11c go through `q @ r` = `Arr.matmulF`).
     `tensordot_fermionic` puts the bond flip on the SMALLER operand (`a.size <= b.size`), `@` always
     on the right one; the theorems hold for both branches because they are proved from the value
     semantics of the contraction (C03 `tensordotF_refines_graded` via `RoutesP.coreT_frame`): the
     graded sign of the single aligned sector pair is `-1` exactly on the sectors where
     `qr_fermionic` / `svd_fermionic` stored a pending `-1` on the right factor
     (`Recon2P.gradedSign_factors`, `rightF_elem`).
       `qr_reconstructs_tensordotF`, `svd_reconstructs_tensordotF`   mode = blockwise: the result
            IS `x` (labels, no pending sign, sectors in order, block shapes, every value);
       `qr_reconstructs_tensordotF_any_mode`, `svd_reconstructs_tensordotF_any_mode`
            mode = blockwise / fused / auto (fused, auto by `C06.tensordotF_modes_agree`): success,
            `x`'s labels, every sector of `x` stored, `x`'s element at every address of `x` that lies
            in the result's own block (C06c does not prove that the two boxes coincide).
     Any valid fermionic matrix, any pending signs, any sorted label list (`SortedLabels`), every
     symmetry; scalars `[AddCommMonoid R] [Mul R] [Neg R] [SignRing R]` (+ `0·x = x·0 = 0` for
     fused/auto); instances `Int`, `GRat` (`C03.signRingGRat`).
  2. Abelian arrays, fused / auto mode: `svd_reconstructs_fused` (the qr case is C11d), from
     `Recon2P.tdotA_factors_modes` (any shape-correct factor pair; `U·diag(s)` is one).
  3. `solve` with a matrix that carries labels itself: `solve_fermionic` gives the solution the
     labels of `b` ONLY (`b.copy_with`), so `a @ x` carries the sorted merge of `a`'s and `b`'s
     labels and the label-sort sign.  `solve_solves_fermionic_labelled`: the values are `± b`
     (`±` = the sign `mergeOddpos` returns) — all that can be said; `solve_labelled_matrix_not_b`:
     a valid even `a` with two labels for which `a @ solve(a,b)` has three labels and the value
     view `-b`.  So "`a @ solve(a, b) = b`" needs `a.oddpos = []` (C11b/C11c), as stated there.
-/
import SymmModel.Proofs.Recon2Modes
import SymmModel.Proofs.Recon2Solve

namespace SymmModel.C11
open SymmModel LinalgLemmas ReconP Recon2P

variable {R : Type}

/-! ## 1. fermionic, `tensordot_fermionic` -/

section fermi
variable [AddCommMonoid R] [Mul R] [Neg R] [GradedP.SignRing R]

/-- **qr_reconstructs_tensordotF.**  `tensordot_fermionic(q, r, ([1],[0]), mode="blockwise")` of
    the qr factors of a valid fermionic matrix `x` (sorted labels, any pending signs) succeeds and
    is `x`: labels, no pending sign, the same sectors in the same order, the block shapes `x`'s
    index tables give, and `x`'s element at every address. -/
theorem qr_reconstructs_tensordotF (K : Kernels R) (hK : K.ShapeOk) (hC : K.QRContract) (x : Arr R)
    (hv : x.validB = true) (h2 : x.ndim = 2) (hf : x.fermi = true)
    (hlab : SortedLabels x.oddpos) :
    ∃ q r c, qrA K x = .ok (q, r) ∧ q.tensordotF r (.pair [1] [0]) .blockwise = .ok c
      ∧ c.oddpos = x.oddpos ∧ c.phases = [] ∧ c.sectors = x.sectors
      ∧ (∀ p ∈ c.blocks, p.2.shape = Arr.blockShapeD x.indices p.1)
      ∧ ∀ s off, AddrOf x s off → c.elem s off = x.elem s off := by
  obtain ⟨c, h⟩ := tdotF_recon_blockwise (L := fun b => (K.qr b).1) (Rt := fun b => (K.qr b).2)
    hv h2 hf hlab (facShape_qr hK) hC
  exact ⟨_, _, c, qrA_eq K hv h2, h⟩

omit [Neg R] [GradedP.SignRing R] in
theorem svd_fold (K : Kernels R) (hK : K.ShapeOk) (hC : K.SVDContract) :
    ∀ b m n, b.shape = [m, n] → b.wf = true → ∀ i j, i < m → j < n →
      (List.range (min m n)).foldl
        (fun acc t => acc + (usOf K b).get [i, t] * (K.svd b).2.2.get [t, j]) 0 = b.get [i, j] := by
  intro b m n hs hwf i j hi hj
  obtain ⟨a1, _, _, _, _, _⟩ := hK.svd b m n hs hwf
  rw [← hC b m n hs hwf i j hi hj]
  apply foldl_ext'
  intro acc t ht
  rw [mulAxisK_get _ _ a1 hi (List.mem_range.mp ht)]

/-- **svd_reconstructs_tensordotF.**  Likewise
    `tensordot_fermionic(U.multiply_diagonal(s, 1), VH, ([1],[0]), mode="blockwise")` is `x`. -/
theorem svd_reconstructs_tensordotF (K : Kernels R) (hK : K.ShapeOk) (hC : K.SVDContract)
    (x : Arr R) (hv : x.validB = true) (h2 : x.ndim = 2) (hf : x.fermi = true)
    (hlab : SortedLabels x.oddpos) :
    ∃ u s vh c, svdA K x = .ok (u, s, vh)
      ∧ (multiplyDiagonal u s 1).tensordotF vh (.pair [1] [0]) .blockwise = .ok c
      ∧ c.oddpos = x.oddpos ∧ c.phases = [] ∧ c.sectors = x.sectors
      ∧ (∀ p ∈ c.blocks, p.2.shape = Arr.blockShapeD x.indices p.1)
      ∧ ∀ sec off, AddrOf x sec off → c.elem sec off = x.elem sec off := by
  obtain ⟨c, h⟩ := tdotF_recon_blockwise (L := usOf K) (Rt := fun b => (K.svd b).2.2)
    hv h2 hf hlab (facShape_us hK) (svd_fold K hK hC)
  refine ⟨_, _, _, c, svdA_eq K hv h2, ?_⟩
  rw [multiplyDiagonal_us K hv h2, ← rightF_us K x]
  exact h

/-- **qr_reconstructs_tensordotF_any_mode.**  For `mode ∈ {blockwise, fused, auto}`:
    `tensordot_fermionic(q, r, ([1],[0]), mode)` succeeds, carries `x`'s labels, stores every sector
    of `x`, and has `x`'s element (pending signs on both sides included) at every address of `x`
    inside a stored block of the result. -/
theorem qr_reconstructs_tensordotF_any_mode (hz1 : ∀ x : R, 0 * x = 0) (hz2 : ∀ x : R, x * 0 = 0)
    (K : Kernels R) (hK : K.ShapeOk) (hC : K.QRContract) (x : Arr R)
    (hv : x.validB = true) (h2 : x.ndim = 2) (hf : x.fermi = true)
    (hlab : SortedLabels x.oddpos) (mode : TdotMode) :
    ∃ q r c, qrA K x = .ok (q, r) ∧ q.tensordotF r (.pair [1] [0]) mode = .ok c
      ∧ c.oddpos = x.oddpos ∧ (∀ s ∈ x.sectors, s ∈ c.sectors)
      ∧ ∀ s V, alookup c.blocks s = some V → ∀ off, inBox V.shape off = true → AddrOf x s off →
          c.elem s off = x.elem s off := by
  have hmodes := fun (m : TdotMode) (hm : m = .fused ∨ m = .auto) =>
    tdotF_recon_modes (L := fun b => (K.qr b).1) (Rt := fun b => (K.qr b).2) hz1 hz2
      hv h2 hf hlab (facShape_qr hK) hC m hm
  cases mode with
  | blockwise =>
    obtain ⟨c, h1, h2', _, h4, _, h6⟩ := tdotF_recon_blockwise (L := fun b => (K.qr b).1)
      (Rt := fun b => (K.qr b).2) hv h2 hf hlab (facShape_qr hK) hC
    exact ⟨_, _, c, qrA_eq K hv h2, h1, h2', fun s hs => by rw [h4]; exact hs,
      fun s _ _ off _ ha => h6 s off ha⟩
  | fused =>
    obtain ⟨c, h1, h2', _, _, h5, h6⟩ := hmodes .fused (Or.inl rfl)
    exact ⟨_, _, c, qrA_eq K hv h2, h1, h2', h5, h6⟩
  | auto =>
    obtain ⟨c, h1, h2', _, _, h5, h6⟩ := hmodes .auto (Or.inr rfl)
    exact ⟨_, _, c, qrA_eq K hv h2, h1, h2', h5, h6⟩

/-- **svd_reconstructs_tensordotF_any_mode.** -/
theorem svd_reconstructs_tensordotF_any_mode (hz1 : ∀ x : R, 0 * x = 0) (hz2 : ∀ x : R, x * 0 = 0)
    (K : Kernels R) (hK : K.ShapeOk) (hC : K.SVDContract) (x : Arr R)
    (hv : x.validB = true) (h2 : x.ndim = 2) (hf : x.fermi = true)
    (hlab : SortedLabels x.oddpos) (mode : TdotMode) :
    ∃ u s vh c, svdA K x = .ok (u, s, vh)
      ∧ (multiplyDiagonal u s 1).tensordotF vh (.pair [1] [0]) mode = .ok c
      ∧ c.oddpos = x.oddpos ∧ (∀ sec ∈ x.sectors, sec ∈ c.sectors)
      ∧ ∀ sec V, alookup c.blocks sec = some V → ∀ off, inBox V.shape off = true →
          AddrOf x sec off → c.elem sec off = x.elem sec off := by
  have hmodes := fun (m : TdotMode) (hm : m = .fused ∨ m = .auto) =>
    tdotF_recon_modes (L := usOf K) (Rt := fun b => (K.svd b).2.2) hz1 hz2
      hv h2 hf hlab (facShape_us hK) (svd_fold K hK hC) m hm
  have hrew : ∀ m c, (leftF x (usOf K)).tensordotF (rightF x (usOf K) (fun b => (K.svd b).2.2))
        (.pair [1] [0]) m = .ok c →
      (multiplyDiagonal (leftF x (fun b => (K.svd b).1))
          ⟨x.blocks.map (fun p => (colOf p.1, (K.svd p.2).2.1))⟩ 1).tensordotF
        (rightF x (fun b => (K.svd b).1) (fun b => (K.svd b).2.2)) (.pair [1] [0]) m = .ok c := by
    intro m c h
    rw [multiplyDiagonal_us K hv h2, ← rightF_us K x]; exact h
  cases mode with
  | blockwise =>
    obtain ⟨c, h1, h2', _, h4, _, h6⟩ := tdotF_recon_blockwise (L := usOf K)
      (Rt := fun b => (K.svd b).2.2) hv h2 hf hlab (facShape_us hK) (svd_fold K hK hC)
    exact ⟨_, _, _, c, svdA_eq K hv h2, hrew _ c h1, h2', fun s hs => by rw [h4]; exact hs,
      fun s _ _ off _ ha => h6 s off ha⟩
  | fused =>
    obtain ⟨c, h1, h2', _, _, h5, h6⟩ := hmodes .fused (Or.inl rfl)
    exact ⟨_, _, _, c, svdA_eq K hv h2, hrew _ c h1, h2', h5, h6⟩
  | auto =>
    obtain ⟨c, h1, h2', _, _, h5, h6⟩ := hmodes .auto (Or.inr rfl)
    exact ⟨_, _, _, c, svdA_eq K hv h2, hrew _ c h1, h2', h5, h6⟩

end fermi

/-! ## 2. abelian, fused / auto mode: svd -/

/-- **svd_reconstructs_fused** (abelian).  `tensordot(U.multiply_diagonal(s,1), VH, ([1],[0]))` in
    `mode="fused"` and `mode="auto"` (the same result) succeeds for a valid abelian matrix with at
    least one block, stores every sector of `x`, and at every address of `x` inside a stored block
    of the result has `x`'s element. -/
theorem svd_reconstructs_fused [AddCommMonoid R] [Mul R] [Neg R]
    (hz1 : ∀ x : R, 0 * x = 0) (hz2 : ∀ x : R, x * 0 = 0) (K : Kernels R) (hK : K.ShapeOk)
    (hC : K.SVDContract) (x : Arr R) (hv : x.validB = true) (h2 : x.ndim = 2)
    (hf : x.fermi = false) (hne : x.blocks ≠ []) :
    ∃ u s vh c, svdA K x = .ok (u, s, vh)
      ∧ tensordotA (multiplyDiagonal u s 1) vh (.pair [1] [0]) .fused = .ok c
      ∧ tensordotA (multiplyDiagonal u s 1) vh (.pair [1] [0]) .auto = .ok c
      ∧ (∀ sec ∈ x.sectors, sec ∈ c.sectors)
      ∧ ∀ sec V, alookup c.blocks sec = some V → ∀ off, inBox V.shape off = true →
          AddrOf x sec off → c.elem sec off = x.elem sec off := by
  obtain ⟨c, e1, e2, hsec, hval⟩ := tdotA_factors_modes (L := usOf K)
    (Rt := fun b => (K.svd b).2.2) hz1 hz2 hv h2 hf hne (facShape_us hK)
  refine ⟨_, _, _, c, svdA_eq K hv h2, ?_, ?_, hsec, ?_⟩
  · rw [multiplyDiagonal_us K hv h2, ← rightF_us K x]; exact e1
  · rw [multiplyDiagonal_us K hv h2, ← rightF_us K x]; exact e2
  · intro sec V hl off hbox ha
    rw [hval sec V hl off hbox]
    have := svd_recon hK hC hv h2 hf sec off ha
    rw [multiplyDiagonal_us K hv h2, ← rightF_us K x] at this
    exact this

/-! ## 3. `solve` with a labelled matrix -/

/-- **solve_solves_fermionic_labelled.**  `a` a valid fermionic matrix carrying labels of its own
    (even or odd), `b` a valid fermionic vector, all label names distinct, pending signs anywhere.
    The solution `x` inherits `b`'s labels only, so `a @ x` succeeds with the SORTED MERGE `out` of
    the labels of `a` and `b` (a permutation of `a.oddpos ++ b.oddpos`; never `b.oddpos` unless
    `a.oddpos = []`), and its values are `ph · b` where `(out, ph) = mergeOddpos …` is the label
    sort with its sign (`-1` per transposition, and `(-1)^|labels b|` for odd `a`). -/
theorem solve_solves_fermionic_labelled [Zero R] [Add R] [Mul R] [Neg R] [Lazy.LawfulNeg R]
    (K : Kernels R) (hK : K.ShapeOk) (a b x : Arr R) (hva : a.validB = true)
    (hvb : b.validB = true) (hfa : a.fermi = true) (hfb : b.fermi = true)
    (hd : (a.oddpos ++ b.oddpos).Pairwise (fun p q => p.1 ≠ q.1))
    (hS : K.SolvesOn a.phaseSync b.phaseSync) (h : solveA K a b = .ok x) :
    ∃ y out ph, Arr.matmulF a x = .ok y
      ∧ OddposP.mergeOddpos a.parity a.oddpos b.oddpos = .ok (out, ph)
      ∧ x.oddpos = b.oddpos ∧ y.oddpos = out ∧ out.Perm (a.oddpos ++ b.oddpos)
      ∧ out.Pairwise (fun p q => oddLt p q = true) ∧
      ∀ s arr, (s, arr) ∈ a.blocks → [s.getD 0 (0, 0)] ∈ b.sectors →
        ∀ i, i < arr.shape.getD 0 0 →
          y.elem [s.getD 0 (0, 0)] [i] = Lazy.sgnI ph (b.elem [s.getD 0 (0, 0)] [i]) := by
  obtain ⟨y, out, ph, h1, h2, h3, h4, h5, h6⟩ :=
    solve_recon_fermi_labelled hK hva hvb hfa hfb hd hS h
  have hxo : x.oddpos = b.oddpos := by
    obtain ⟨_, _, hx⟩ := solveA_ok_eq hva h
    rw [hx]
    split
    · rw [(phaseFlip_fields _ [0]).2.2.2.2.2]; exact (syncB_fields (syncIf a) b).2.2.2.2
    · exact (syncB_fields (syncIf a) b).2.2.2.2
  exact ⟨y, out, ph, h1, h2, hxo, h3, h4, h5, h6⟩

/-! ## examples -/

open scoped SymmModel.Lazy

example : (∀ x : Int, 0 * x = 0) ∧ (∀ x : Int, x * 0 = 0) ∧ Kernels.trivialFactor.ShapeOk
    ∧ Kernels.trivialFactor.QRContract ∧ Kernels.trivialFactor.SVDContract
    ∧ exF3.validB = true ∧ exF3.ndim = 2 ∧ exF3.fermi = true ∧ SortedLabels exF3.oddpos :=
  ⟨Int.zero_mul, Int.mul_zero, trivialFactor_shapeOk, trivialFactor_qr, trivialFactor_svd,
    by decide, rfl, rfl, sortedLabels_ex⟩

/-- the theorems instantiate at `Int` with the exact kernel `trivialFactor` (class instances
    `AddCommMonoid Int`, `SignRing Int` resolve) -/
example (mode : TdotMode) :=
  qr_reconstructs_tensordotF_any_mode (R := Int) Int.zero_mul Int.mul_zero
    Kernels.trivialFactor trivialFactor_shapeOk trivialFactor_qr exF3 (by decide) rfl rfl
    sortedLabels_ex mode

/-- `exF3` (odd, three labels, a pending sign; `q` is the smaller operand, so `tensordot_fermionic`
    flips `q`): all three modes return `exF3`'s value view, no pending sign, the three labels -/
example : ((qrA Kernels.trivialFactor exF3).toOption.map (fun p =>
      (decide (p.1.size ≤ p.2.size),
       [TdotMode.blockwise, TdotMode.fused, TdotMode.auto].map (fun mode =>
        (p.1.tensordotF p.2 (.pair [1] [0]) mode).toOption.map (fun y =>
          (y.blocks.map (fun q => (q.1, q.2.shape, q.2.data.toList)), y.phases, y.oddpos)))))
    == some (true, List.replicate 3 (some
        ([([(0, 0), (1, 0)], [2, 1], [1, 2]), ([(1, 0), (2, 0)], [1, 3], [-3, -4, -5])], [],
         [(7, true), (2, false), (5, false)])))) = true := by decide +kernel

/-- a TALL odd matrix (blocks `3 × 1`, `2 × 1`): `q` is the larger operand, `tensordot_fermionic`
    flips `r` — the other branch -/
def exTall : Arr Int :=
  { sym := .U1, fermi := true, charge := (1, 0),
    indices := [Index.mk [((0, 0), 3), ((1, 0), 2)] true none,
                Index.mk [((1, 0), 1), ((2, 0), 1)] false none],
    blocks := [([(0, 0), (1, 0)], ⟨[3, 1], #[1, 2, 3]⟩), ([(1, 0), (2, 0)], ⟨[2, 1], #[4, 5]⟩)],
    phases := [([(0, 0), (1, 0)], -1)],
    oddpos := [(7, true), (2, false), (5, false)] }

example : exTall.validB = true ∧ SortedLabels exTall.oddpos := ⟨by decide, sortedLabels_ex⟩

example : ((qrA Kernels.trivialFactor exTall).toOption.map (fun p =>
      (decide (p.1.size ≤ p.2.size),
       [TdotMode.blockwise, TdotMode.fused, TdotMode.auto].map (fun mode =>
        (p.1.tensordotF p.2 (.pair [1] [0]) mode).toOption.map (fun y =>
          (y.blocks.map (fun q => (q.1, q.2.shape, q.2.data.toList)), y.phases, y.oddpos)))))
    == some (false, List.replicate 3 (some
        ([([(0, 0), (1, 0)], [3, 1], [-1, -2, -3]), ([(1, 0), (2, 0)], [2, 1], [4, 5])], [],
         [(7, true), (2, false), (5, false)])))) = true := by decide +kernel

/-- svd of `exT` through `tensordot_fermionic`, three modes -/
example : ((svdA Kernels.trivialFactor exT).toOption.map (fun p =>
      [TdotMode.blockwise, TdotMode.fused, TdotMode.auto].map (fun mode =>
        ((multiplyDiagonal p.1 p.2.1 1).tensordotF p.2.2 (.pair [1] [0]) mode).toOption.map (fun y =>
          (y.blocks.map (fun q => (q.1, q.2.data.toList)), y.phases, y.oddpos))))
    == some (List.replicate 3 (some
        ([([(0, 0), (1, 0)], [1, 2, 3, 4]), ([(1, 0), (2, 0)], [-5, -6, -7, -8])], [],
         [(7, true), (2, false), (5, false)])))) = true := by decide +kernel

/-- abelian svd of `exM`, fused / auto / blockwise -/
example : ((svdA Kernels.trivialFactor exM).toOption.map (fun p =>
      [TdotMode.fused, TdotMode.auto, TdotMode.blockwise].map (fun mode =>
        (tensordotA (multiplyDiagonal p.1 p.2.1 1) p.2.2 (.pair [1] [0]) mode).toOption.map (fun c =>
          c.blocks.map (fun q => (q.1, q.2.shape, q.2.data.toList)))))
    == some (List.replicate 3 (some
        [([(0, 0), (-1, 0)], [2, 1], [1, 2]), ([(1, 0), (0, 0)], [1, 3], [3, 4, 5])]))) = true := by
  decide +kernel

/-- `C11.exSa` (even, identity blocks) carrying two labels of its own -/
def exSaL : Arr Int := { exSa with oddpos := [(5, false), (9, false)] }

/-- **solve_labelled_matrix_not_b.**  Every hypothesis of `solve_solves_fermionic` /
    `_labels` except `a.oddpos = []` holds for `exSaL`, `exSb` (label `7`): `solve` succeeds with a
    valid solution carrying `b`'s label, `a @ x` is a valid array with the THREE labels `5 7 9`
    (not `b`'s one) and, the sort `5 9 7 → 5 7 9` being one transposition, a global pending sign:
    its value view is `-b` (`b` has values `-5, -6`; the product stores `-5, -6` with a pending
    `-1`). -/
theorem solve_labelled_matrix_not_b :
    exSaL.validB = true ∧ exSb.validB = true ∧ exSaL.fermi = true ∧ exSb.fermi = true
    ∧ exSaL.parity = false ∧ SortedLabels exSaL.oddpos ∧ SortedLabels exSb.oddpos
    ∧ (exSaL.oddpos ++ exSb.oddpos).Pairwise (fun p q => p.1 ≠ q.1)
    ∧ ((solveA Kernels.solveCopy exSaL exSb).toOption.bind (fun x =>
        (Arr.matmulF exSaL x).toOption.map (fun y =>
          (x.validB, x.oddpos, y.validB, y.blocks.map (fun q => (q.1, q.2.data.toList)), y.phases,
           y.oddpos, exSb.oddpos, y.elem [(1, 0)] [0], exSb.elem [(1, 0)] [0])))
      == some (true, [(7, false)], true, [([(1, 0)], [-5, -6])], [([(1, 0)], -1)],
          [(5, false), (7, false), (9, false)], [(7, false)], 5, -5)) = true := by
  refine ⟨by decide +kernel, by decide +kernel, rfl, rfl, by decide, ?_, ?_, by decide,
    by decide +kernel⟩
  · unfold SortedLabels OddposP.OddSorted OddposP.LabelsDistinct; decide
  · exact sortedLabels_of_short (by decide)

/-- the kernel hypothesis of `solve_solves_fermionic_labelled` holds for that pair too -/
example : Kernels.solveCopy.SolvesOn exSaL.phaseSync exSb.phaseSync := by
  apply solveCopy_solvesOn
  intro s arr hm
  rw [phaseSync_blocks_nil _ rfl] at hm
  simp only [exSaL, exSa, List.mem_cons, List.not_mem_nil, or_false, Prod.mk.injEq] at hm
  rcases hm with ⟨_, rfl⟩ | ⟨_, rfl⟩
  · exact ⟨1, rfl⟩
  · exact ⟨2, rfl⟩

end SymmModel.C11
