/-
  C06 (fourth part) — fused strategy = blockwise for EVERY admissible call, block shapes of the
  fused strategy's result, and the fused / auto-mode theorems of C06c WITHOUT the `OwnBox` side
  condition and without any restriction on the call shape.

  * `tensordotFused_obs_eq_blockwise_all`, `tensordotA_modes_agree_all`: the abelian theorems of
    C06b for EVERY call shape — empty left and/or right group (vector, scalar, rank-0 results) and
    an empty contraction in `mode = fused` included; plus: every block the fused result stores has
    exactly the shape that the operands' index tables give for its sector key.
  * `tensordotF_modes_agree_shapes`: `tensordotF_modes_agree` of C06c for every admissible call,
    plus the block shapes (`Arr.blockShape? (without a.indices xa ++ without b.indices xb) K`).
    So the "box of the result's own block" of C06c IS the table box (`ownBox_of_tableBox`).
  * `tensordotF_to_blockwise'` and the transferred theorems
    `tensordotF_refines_graded_any_mode'` (C03), `tdotF_axes_perm_any_mode'` (C04 S4),
    `tdotF_pretranspose_any_mode'` (S6), `tdotF_swap_any_mode'` (S5): the statements of the
    blockwise theorems, for `mode = fused / auto`, at every sector key and every address of the
    table box — no condition on the result's own blocks, no condition on the call shape.

  Scope: every admissible call (`RoutesP.Adm` for the fermionic, `validB` + `contractibleB` for the
  abelian theorems): any number of contracted axis pairs, any ranks — operands contracted
  completely (vector / scalar results, e.g. norms and `<psi|psi>`), rank-0 operands, and
  `mode = fused` with nothing to contract (`mode = auto` is then `blockwise`).
  * `tensordotF_modes_agree_weak`, `tensordotF_refines_graded_any_mode_weak`: the same under the
    WEAK guard of C04c (`AssocP.AdmW` / `tdotAdmissibleCommonB`: matched legs have opposite
    directions and charge tables that agree on the charges both list).  This is the form that
    applies INSIDE a chain of contractions, where an operand is the (pruned) result of an earlier
    contraction — the first step towards S7 in fused / auto mode.
  * `tdotF_assoc_any_mode`: S7 (associativity, chains and triangles, the statement of
    `C04.tdotF_assoc_labels`) with ALL FOUR calls in fused / auto mode: success, same labels,
    charge, symmetry, kind, and the same value at every `FreeAddr` address.
    `tdotF_assoc_any_mode_stored`: the same in terms of the stored data — both results store every
    sector of the blockwise result with the blockwise values, every other stored block is zero.
  NOT covered: `tensordot_fuse_commute`.
-/
import SymmModel.Props.C06All2
import SymmModel.Proofs.TdotFusedS4
import SymmModel.Props.C04d

namespace SymmModel.C06
open SymmModel SymmModel.TdotP SymmModel.GradedP SymmModel.RoutesP SymmModel.AssocP
open SymmModel.Lazy (sgnI)

variable {R : Type}

/-- **tensordotF_modes_agree_shapes.** -/
theorem tensordotF_modes_agree_shapes [AddCommMonoid R] [Mul R] [Neg R] [SignRing R]
    (hz1 : ∀ x : R, 0 * x = 0) (hz2 : ∀ x : R, x * 0 = 0) (a b : Arr R) (xa xb : List Nat)
    (h : Adm a b xa xb)
    (mode : TdotMode) (hmode : mode = .fused ∨ mode = .auto) :
    (∀ e, OddposP.mergeOddpos a.parity a.oddpos b.oddpos = .error e →
        a.tensordotF b (.pair (xa.map Int.ofNat) (xb.map Int.ofNat)) mode = .error e
        ∧ a.tensordotF b (.pair (xa.map Int.ofNat) (xb.map Int.ofNat)) .blockwise = .error e)
    ∧ (∀ r, OddposP.mergeOddpos a.parity a.oddpos b.oddpos = .ok r →
        ∃ rm rb, a.tensordotF b (.pair (xa.map Int.ofNat) (xb.map Int.ofNat)) mode = .ok rm
          ∧ a.tensordotF b (.pair (xa.map Int.ofNat) (xb.map Int.ofNat)) .blockwise = .ok rb
          ∧ rm.oddpos = rb.oddpos ∧ rm.charge = rb.charge ∧ rm.sym = rb.sym ∧ rm.fermi = rb.fermi
          ∧ rm.indices.length = rb.indices.length
          ∧ (∀ s ∈ rb.sectors, s ∈ rm.sectors)
          ∧ (∀ K V, alookup rm.blocks K = some V →
              Arr.blockShape? (without a.indices xa ++ without b.indices xb) K = some V.shape)
          ∧ (∀ K V, alookup rm.blocks K = some V → ∀ J, inBox V.shape J = true →
              rm.elem K J = rb.elem K J)) := by
  obtain ⟨he, hk⟩ := tensordotF_modes_all hz1 hz2 a b xa xb h mode hmode
  refine ⟨he, fun r hr => ?_⟩
  obtain ⟨rm, rb, h1, h2, f1, f2, f3, f4, f5, hsec, _, _, hshape, hel⟩ := hk r hr
  exact ⟨rm, rb, h1, h2, f1, f2, f3, f4, f5, hsec, hshape, hel⟩

/-- `OwnBox` of C06c follows from the table box -/
theorem ownBox_of_tableBox [AddCommMonoid R] [Mul R] [Neg R] [SignRing R]
    (hz1 : ∀ x : R, 0 * x = 0) (hz2 : ∀ x : R, x * 0 = 0) (a b rm : Arr R) (xa xb : List Nat)
    (h : Adm a b xa xb)
    (mode : TdotMode) (hmode : mode = .fused ∨ mode = .auto)
    (hm : a.tensordotF b (.pair (xa.map Int.ofNat) (xb.map Int.ofNat)) mode = .ok rm)
    (s : Sector) (o : List Nat)
    (ho : inBox (Arr.blockShapeD (without a.indices xa ++ without b.indices xb) s) o = true) :
    OwnBox rm s o := by
  obtain ⟨_, _, _, _, _, _, _, _, hshape, _⟩ :=
    tensordotF_to_blockwise_table hz1 hz2 a b rm xa xb h mode hmode hm
  exact ownBox_of_table hshape s o ho

/-- **transfer step, table box.** -/
theorem tensordotF_to_blockwise' [AddCommMonoid R] [Mul R] [Neg R] [SignRing R]
    (hz1 : ∀ x : R, 0 * x = 0) (hz2 : ∀ x : R, x * 0 = 0) (a b rm : Arr R) (xa xb : List Nat)
    (h : Adm a b xa xb)
    (mode : TdotMode) (hmode : mode = .fused ∨ mode = .auto)
    (hm : a.tensordotF b (.pair (xa.map Int.ofNat) (xb.map Int.ofNat)) mode = .ok rm) :
    ∃ rb, a.tensordotF b (.pair (xa.map Int.ofNat) (xb.map Int.ofNat)) .blockwise = .ok rb
      ∧ rm.oddpos = rb.oddpos ∧ rm.charge = rb.charge ∧ rm.sym = rb.sym ∧ rm.fermi = rb.fermi
      ∧ rm.indices.length = rb.indices.length
      ∧ (∀ s ∈ rb.sectors, s ∈ rm.sectors)
      ∧ ∀ s o, inBox (Arr.blockShapeD (without a.indices xa ++ without b.indices xb) s) o = true →
          rm.elem s o = rb.elem s o := by
  obtain ⟨rb, h1, f1, f2, f3, f4, f5, hsec, _, hel⟩ :=
    tensordotF_to_blockwise_table hz1 hz2 a b rm xa xb h mode hmode hm
  exact ⟨rb, h1, f1, f2, f3, f4, f5, hsec, hel⟩

/-- **C03 for fused / auto mode**, the statement of `C03.tensordotF_refines_graded_at`. -/
theorem tensordotF_refines_graded_any_mode' [AddCommMonoid R] [Mul R] [Neg R] [SignRing R]
    (hz1 : ∀ x : R, 0 * x = 0) (hz2 : ∀ x : R, x * 0 = 0) (a b c : Arr R) (xa xb : List Nat)
    (h : Adm a b xa xb)
    (mode : TdotMode) (hmode : mode = .fused ∨ mode = .auto)
    (hm : a.tensordotF b (.pair (xa.map Int.ofNat) (xb.map Int.ofNat)) mode = .ok c) :
    ∃ out ph, OddposP.mergeOddpos a.parity a.oddpos b.oddpos = .ok (out, ph)
      ∧ c.oddpos = out
      ∧ c.charge = a.sym.combine [a.charge, b.charge]
      ∧ ∀ (s : Sector) (oL oR : List Nat), oL.length = (freeAxes a.ndim xa).length →
          inBox (Arr.blockShapeD (without a.indices xa ++ without b.indices xb) s) (oL ++ oR) = true →
          c.elem s (oL ++ oR) = sgnI ph (gradedContract a b xa xb s oL oR) := by
  obtain ⟨rb, hb, f1, f2, _, _, _, _, hel⟩ :=
    tensordotF_to_blockwise' hz1 hz2 a b c xa xb h mode hmode hm
  have hadm : ValidP.tdotAdmissibleB a b xa xb = true := by
    unfold ValidP.tdotAdmissibleB
    simp only [Bool.and_eq_true, decide_eq_true_eq, List.all_eq_true]
    exact ⟨⟨⟨⟨⟨h.sym, h.con⟩, allDistinct_iff_nodup.mpr h.nA⟩, allDistinct_iff_nodup.mpr h.nB⟩, h.ltA⟩, h.ltB⟩
  obtain ⟨out, ph, g1, g2, g3, g4⟩ :=
    C03.tensordotF_refines_graded_at a b rb xa xb h.va h.vb h.fa h.fb hadm hb
  exact ⟨out, ph, g1, f1.trans g2, f2.trans g3, fun s oL oR hoL ho => by
    rw [hel s _ ho]; exact g4 s oL oR hoL ho⟩

/-- **C04 S4 for fused / auto mode.**  Listing the contracted axis pairs in another order: same
    labels, charge, symmetry, kind, rank, and the same element at every sector key and every
    address of the table box. -/
theorem tdotF_axes_perm_any_mode' [AddCommMonoid R] [Mul R] [Neg R] [SignRing R]
    (hz1 : ∀ x : R, 0 * x = 0) (hz2 : ∀ x : R, x * 0 = 0) (a b c1 c2 : Arr R) (xa xb π : List Nat)
    (h : Adm a b xa xb) (hπ : π.Perm (List.range xa.length))
   
    (mode : TdotMode) (hmode : mode = .fused ∨ mode = .auto)
    (h1 : a.tensordotF b (.pair ((permuted xa π).map Int.ofNat) ((permuted xb π).map Int.ofNat)) mode = .ok c1)
    (h2 : a.tensordotF b (.pair (xa.map Int.ofNat) (xb.map Int.ofNat)) mode = .ok c2) :
    c1.oddpos = c2.oddpos ∧ c1.charge = c2.charge ∧ c1.sym = c2.sym ∧ c1.fermi = c2.fermi
    ∧ c1.indices.length = c2.indices.length
    ∧ ∀ s o, inBox (Arr.blockShapeD (without a.indices xa ++ without b.indices xb) s) o = true →
        c1.elem s o = c2.elem s o := by
  have hπb : π.Perm (List.range xb.length) := h.len ▸ hπ
  obtain ⟨_, _, hlenπ, hfA⟩ := relist_ok h.nA h.ltA hπ
  obtain ⟨_, _, _, hfB⟩ := relist_ok h.nB h.ltB hπb
  have hwA : without a.indices (permuted xa π) = without a.indices xa := by
    rw [without_eq_permuted_freeAxes, without_eq_permuted_freeAxes]
    exact congrArg _ hfA
  have hwB : without b.indices (permuted xb π) = without b.indices xb := by
    rw [without_eq_permuted_freeAxes, without_eq_permuted_freeAxes]
    exact congrArg _ hfB
  obtain ⟨rb1, hb1, f1, f2, f3, f4, f5, _, hel1⟩ :=
    tensordotF_to_blockwise' hz1 hz2 a b c1 _ _ (h.relist hπ) mode hmode h1
  obtain ⟨rb2, hb2, g1, g2, g3, g4, g5, _, hel2⟩ :=
    tensordotF_to_blockwise' hz1 hz2 a b c2 xa xb h mode hmode h2
  have := C04.tdotF_axes_perm a b xa xb π h hπ
  rw [hb1, hb2] at this
  cases this
  rw [hwA, hwB] at hel1
  exact ⟨f1.trans g1.symm, f2.trans g2.symm, f3.trans g3.symm, f4.trans g4.symm, f5.trans g5.symm,
    fun s o ho => (hel1 s o ho).trans (hel2 s o ho).symm⟩

/-- **C04 S6 for fused / auto mode**, the statement of `C04.tdotF_pretranspose` with both calls in
    the same mode `fused` or `auto`. -/
theorem tdotF_pretranspose_any_mode' [AddCommMonoid R] [Mul R] [Neg R] [SignRing R]
    (hz1 : ∀ x : R, 0 * x = 0) (hz2 : ∀ x : R, x * 0 = 0) (a b c c' : Arr R)
    (p xa xa' q xb : List Nat) (h : Adm a b xa xb) (hp : Arr.isPerm p a.ndim = true)
    (hT : PreT a.ndim p xa xa' q)
    (mode : TdotMode) (hmode : mode = .fused ∨ mode = .auto)
    (hc : a.tensordotF b (.pair (xa.map Int.ofNat) (xb.map Int.ofNat)) mode = .ok c)
    (hc' : (a.transposeF p).tensordotF b (.pair (xa'.map Int.ofNat) (xb.map Int.ofNat)) mode = .ok c') :
    c'.oddpos = c.oddpos ∧ c'.charge = c.charge ∧ c'.sym = c.sym ∧ c'.fermi = c.fermi
    ∧ ∀ (L Rr : Sector) (oL oR : List Nat), L.length = (freeAxes a.ndim xa).length →
        oL.length = (freeAxes a.ndim xa).length →
        inBox (Arr.blockShapeD (without a.indices xa ++ without b.indices xb) (L ++ Rr))
          (oL ++ oR) = true →
        c'.elem (permuted L q ++ Rr) (permuted oL q ++ oR)
          = sgnI (koszul (L.map a.sym.parity) (some q)) (c.elem (L ++ Rr) (oL ++ oR)) := by
  have h' : Adm (a.transposeF p) b xa' xb := h.pre hp hT
  have hnd : (a.transposeF p).ndim = a.ndim := hT.lenT a.indices rfl
  obtain ⟨rb, hb, f1, f2, f3, f4, _, _, hel⟩ :=
    tensordotF_to_blockwise' hz1 hz2 a b c xa xb h mode hmode hc
  obtain ⟨rb', hb', g1, g2, g3, g4, _, _, hel'⟩ :=
    tensordotF_to_blockwise' hz1 hz2 (a.transposeF p) b c' xa' xb h' mode hmode hc'
  obtain ⟨rb'', hb'', k1, k2, k3, k4, kel⟩ := C04.tdotF_pretranspose a b rb p xa xa' q xb h hp hT hb
  rw [hb'] at hb''
  cases hb''
  refine ⟨g1.trans (k1.trans f1.symm), g2.trans (k2.trans f2.symm), g3.trans (k3.trans f3.symm),
    g4.trans (k4.trans f4.symm), ?_⟩
  intro L Rr oL oR hLl hoL hbox
  have hbox' := box_pre a (a.transposeF p) b p xa xa' q xb hT rfl L Rr hLl oL oR hoL hbox
  rw [hel' _ _ hbox', hel _ _ hbox]
  exact kel L Rr oL oR hLl hoL hbox

/-- **C04 S5 for fused / auto mode**, the statement of `C04.tdotF_swap` with both calls in the same
    mode `fused` or `auto`. -/
theorem tdotF_swap_any_mode' [AddCommMonoid R] [Mul R] [Neg R] [SignRing R]
    (hz1 : ∀ x : R, 0 * x = 0) (hz2 : ∀ x : R, x * 0 = 0) (a b c c' : Arr R) (xa xb : List Nat)
    (hmul : ∀ x y : R, x * y = y * x) (h : Adm a b xa xb)
    (hd : (a.oddpos ++ b.oddpos).Pairwise (fun x y => x.1 ≠ y.1))
   
    (mode : TdotMode) (hmode : mode = .fused ∨ mode = .auto)
    (hc : a.tensordotF b (.pair (xa.map Int.ofNat) (xb.map Int.ofNat)) mode = .ok c)
    (hc' : b.tensordotF a (.pair (xb.map Int.ofNat) (xa.map Int.ofNat)) mode = .ok c') :
    c'.oddpos = c.oddpos ∧ c'.charge = c.charge ∧ c'.sym = c.sym ∧ c'.fermi = c.fermi
    ∧ ∀ (L Rr : Sector) (oL oR : List Nat), L.length = (freeAxes a.ndim xa).length →
        Rr.length = (freeAxes b.ndim xb).length → oL.length = (freeAxes a.ndim xa).length →
        oR.length = (freeAxes b.ndim xb).length →
        inBox (Arr.blockShapeD (without a.indices xa ++ without b.indices xb) (L ++ Rr))
          (oL ++ oR) = true →
        c'.elem (Rr ++ L) (oR ++ oL)
          = sgnI (koszul ((L ++ Rr).map a.sym.parity)
              (some ((List.range Rr.length).map (L.length + ·) ++ List.range L.length)))
              (c.elem (L ++ Rr) (oL ++ oR)) := by
  have h' : Adm b a xb xa := h.swap
  obtain ⟨rb, hb, f1, f2, f3, f4, _, _, hel⟩ :=
    tensordotF_to_blockwise' hz1 hz2 a b c xa xb h mode hmode hc
  obtain ⟨rb', hb', g1, g2, g3, g4, _, _, hel'⟩ :=
    tensordotF_to_blockwise' hz1 hz2 b a c' xb xa h' mode hmode hc'
  obtain ⟨rb'', hb'', k1, k2, k3, k4, kel⟩ := C04.tdotF_swap a b rb xa xb hmul h hd hb
  rw [hb'] at hb''
  cases hb''
  refine ⟨g1.trans (k1.trans f1.symm), g2.trans (k2.trans f2.symm), g3.trans (k3.trans f3.symm),
    g4.trans (k4.trans f4.symm), ?_⟩
  intro L Rr oL oR hLl hRl hoL hoR hbox
  have hbox' := box_swap a b xa xb L Rr hLl hRl oL oR hoL hoR hbox
  rw [hel' _ _ hbox', hel _ _ hbox]
  exact kel L Rr oL oR hLl hRl hoL hoR hbox

/-! ## the abelian kernel, every call shape -/

/-- **tensordotFused_obs_eq_blockwise_all.**  `C06.tensordotFused_obs_eq_blockwise` without any
    condition on the groups: valid abelian operands with matching contracted legs and at least one
    aligned block — `tensordotViaFused` succeeds with a valid result that has the fields and the
    rank of the blockwise result, stores every sector the blockwise result stores, agrees with it
    on every stored entry (extra blocks are zero), and whose blocks have the table shapes.  Covers
    vector, scalar and rank-0 results and an empty contraction. -/
theorem tensordotFused_obs_eq_blockwise_all [AddCommMonoid R] [Mul R] [Neg R]
    (hz1 : ∀ x : R, 0 * x = 0) (hz2 : ∀ x : R, x * 0 = 0) (a b : Arr R) (xa xb : List Nat)
    (ha : a.validB = true) (hb : b.validB = true) (hfa : a.fermi = false) (hfb : b.fermi = false)
    (hsym : a.sym = b.sym) (hc : ValidP.contractibleB a b xa xb = true)
    (hnA : xa.Nodup) (hnB : xb.Nodup) (hA : ∀ x ∈ xa, x < a.ndim) (hB : ∀ x ∈ xb, x < b.ndim)
    (hbl : ((dropMisaligned a b xa xb).1.blocks.isEmpty || (dropMisaligned a b xa xb).2.blocks.isEmpty) = false) :
    ∃ c, tensordotViaFused a b (freeAxes a.ndim xa) xa xb (freeAxes b.ndim xb) = .ok c
      ∧ c.validB = true
      ∧ c.sym = a.sym ∧ c.fermi = a.fermi ∧ c.charge = a.sym.combine [a.charge, b.charge]
      ∧ c.phases = a.phases ∧ c.oddpos = a.oddpos
      ∧ c.indices.length =
          (tensordotBlockwise a b (freeAxes a.ndim xa) xa xb (freeAxes b.ndim xb)).indices.length
      ∧ (∀ s ∈ (tensordotBlockwise a b (freeAxes a.ndim xa) xa xb (freeAxes b.ndim xb)).sectors,
          s ∈ c.sectors)
      ∧ (∀ K V, alookup c.blocks K = some V → ∀ J, inBox V.shape J = true →
          c.elem K J =
            (tensordotBlockwise a b (freeAxes a.ndim xa) xa xb (freeAxes b.ndim xb)).elem K J)
      ∧ (∀ K V, alookup c.blocks K = some V →
          Arr.blockShape? (without a.indices xa ++ without b.indices xb) K = some V.shape) := by
  obtain ⟨c, h0, h1, h2, h3, h4, h5, h6, h7, h8, h9, _, h10⟩ :=
    abOk_all hz1 hz2 a b xa xb ha hb hfa hfb hsym hc hnA hnB hA hB hbl
  exact ⟨c, h0, h1, h2, h3, h4, h5, h6, h7, h8, h9, h10⟩

/-- **tensordotA_modes_agree_all.**  `C06.tensordotA_modes_agree` for every admissible call (any
    groups, aligned blocks or not): with parsed axes `(xa, xb)`, `mode = fused` succeeds with a
    result `c`, `mode = blockwise` returns `bw`, `mode = auto` returns `c` when something is
    contracted and `bw` otherwise; `c` and `bw` have the same fields and rank, `c` stores every
    sector of `bw` (no key twice), agrees with `bw` on every stored entry, and its blocks have the
    table shapes. -/
theorem tensordotA_modes_agree_all [AddCommMonoid R] [Mul R] [Neg R]
    (hz1 : ∀ x : R, 0 * x = 0) (hz2 : ∀ x : R, x * 0 = 0) (a b : Arr R) (axes : AxesArg)
    (xa xb : List Nat) (hparse : parseAxes a.ndim b.ndim axes = .ok (xa, xb))
    (ha : a.validB = true) (hb : b.validB = true) (hfa : a.fermi = false) (hfb : b.fermi = false)
    (hsym : a.sym = b.sym) (hc : ValidP.contractibleB a b xa xb = true)
    (hnA : xa.Nodup) (hnB : xb.Nodup) (hA : ∀ x ∈ xa, x < a.ndim) (hB : ∀ x ∈ xb, x < b.ndim) :
    ∃ c bw, tensordotA a b axes .fused = .ok c ∧ tensordotA a b axes .blockwise = .ok bw
      ∧ (xa ≠ [] → tensordotA a b axes .auto = .ok c)
      ∧ (xa = [] → tensordotA a b axes .auto = .ok bw)
      ∧ c.sym = bw.sym ∧ c.fermi = bw.fermi ∧ c.charge = bw.charge ∧ c.phases = bw.phases
      ∧ c.oddpos = bw.oddpos ∧ c.indices.length = bw.indices.length
      ∧ (∀ s ∈ bw.sectors, s ∈ c.sectors) ∧ c.sectors.Nodup
      ∧ (∀ K V, alookup c.blocks K = some V → ∀ J, inBox V.shape J = true → c.elem K J = bw.elem K J)
      ∧ (∀ K V, alookup c.blocks K = some V →
          Arr.blockShape? (without a.indices xa ++ without b.indices xb) K = some V.shape) := by
  obtain ⟨c, hcok, hsv, hnd, _, hshape⟩ := kernelOk_all hz1 hz2 a b xa xb ((ValidP.validB_iff a).mp ha)
    ((ValidP.validB_iff b).mp hb) (phases_nil_of_validB ha hfa) (phases_nil_of_validB hb hfb)
    hsym hc hnA hnB hA hB
  refine ⟨c, _, (tensordotA_fused' a b axes xa xb hparse).trans hcok,
    tensordotA_blockwise_ok a b axes xa xb hparse,
    fun hne => (tensordotA_auto_fused a b axes xa xb hparse hne).trans hcok, ?_,
    hsv.sym, hsv.fermi, hsv.charge, hsv.phases, hsv.oddpos, hsv.rank, hsv.sectors, hnd, hsv.elem, hshape⟩
  intro hxa
  subst hxa
  exact tensordotA_auto_outer a b axes xb hparse

/-! ## the weak guard: inside a chain of contractions -/

/-- **tensordotF_modes_agree_weak.**  `tensordotF_modes_agree_shapes` under the weak guard `AdmW`
    (an operand may be the pruned result of an earlier contraction, as in `(A·B)·C`). -/
theorem tensordotF_modes_agree_weak [AddCommMonoid R] [Mul R] [Neg R] [SignRing R]
    (hz1 : ∀ x : R, 0 * x = 0) (hz2 : ∀ x : R, x * 0 = 0) (a b : Arr R) (xa xb : List Nat)
    (h : AdmW a b xa xb) (mode : TdotMode) (hmode : mode = .fused ∨ mode = .auto) :
    (∀ e, OddposP.mergeOddpos a.parity a.oddpos b.oddpos = .error e →
        a.tensordotF b (.pair (xa.map Int.ofNat) (xb.map Int.ofNat)) mode = .error e
        ∧ a.tensordotF b (.pair (xa.map Int.ofNat) (xb.map Int.ofNat)) .blockwise = .error e)
    ∧ (∀ r, OddposP.mergeOddpos a.parity a.oddpos b.oddpos = .ok r →
        ∃ rm rb, a.tensordotF b (.pair (xa.map Int.ofNat) (xb.map Int.ofNat)) mode = .ok rm
          ∧ a.tensordotF b (.pair (xa.map Int.ofNat) (xb.map Int.ofNat)) .blockwise = .ok rb
          ∧ rm.oddpos = rb.oddpos ∧ rm.charge = rb.charge ∧ rm.sym = rb.sym ∧ rm.fermi = rb.fermi
          ∧ rm.indices.length = rb.indices.length
          ∧ (∀ s ∈ rb.sectors, s ∈ rm.sectors)
          ∧ (∀ K V, alookup rm.blocks K = some V →
              Arr.blockShape? (without a.indices xa ++ without b.indices xb) K = some V.shape)
          ∧ (∀ K V, alookup rm.blocks K = some V → ∀ J, inBox V.shape J = true →
              rm.elem K J = rb.elem K J)) := by
  obtain ⟨he, hk⟩ := tensordotF_modes_all_w hz1 hz2 a b xa xb h mode hmode
  refine ⟨he, fun r hr => ?_⟩
  obtain ⟨rm, rb, h1, h2, f1, f2, f3, f4, f5, hsec, _, _, hshape, hel⟩ := hk r hr
  exact ⟨rm, rb, h1, h2, f1, f2, f3, f4, f5, hsec, hshape, hel⟩

/-- **C03 / C04c refinement for fused / auto mode under the weak guard**: the statement of
    `C04.tensordotF_refines_graded_common` for `mode = fused / auto`. -/
theorem tensordotF_refines_graded_any_mode_weak [AddCommMonoid R] [Mul R] [Neg R] [SignRing R]
    (hz1 : ∀ x : R, 0 * x = 0) (hz2 : ∀ x : R, x * 0 = 0) (a b c : Arr R) (xa xb : List Nat)
    (ha : a.validB = true) (hb : b.validB = true) (hfa : a.fermi = true) (hfb : b.fermi = true)
    (hadm : tdotAdmissibleCommonB a b xa xb = true)
    (mode : TdotMode) (hmode : mode = .fused ∨ mode = .auto)
    (hm : a.tensordotF b (.pair (xa.map Int.ofNat) (xb.map Int.ofNat)) mode = .ok c) :
    ∃ out ph, OddposP.mergeOddpos a.parity a.oddpos b.oddpos = .ok (out, ph)
      ∧ c.oddpos = out
      ∧ c.charge = a.sym.combine [a.charge, b.charge]
      ∧ ∀ (s : Sector) (oL oR : List Nat), oL.length = (freeAxes a.ndim xa).length →
          inBox (Arr.blockShapeD (without a.indices xa ++ without b.indices xb) s) (oL ++ oR) = true →
          c.elem s (oL ++ oR) = sgnI ph (gradedContract a b xa xb s oL oR) := by
  have W := AdmW.of ha hb hfa hfb hadm
  obtain ⟨he, hk⟩ := tensordotF_modes_all_w hz1 hz2 a b xa xb W mode hmode
  cases hmo : OddposP.mergeOddpos a.parity a.oddpos b.oddpos with
  | error e => rw [(he e hmo).1] at hm; cases hm
  | ok r =>
    obtain ⟨rm', rb, h1, h2, f1, f2, _, _, _, hsec, _, _, hshape, hel⟩ := hk r hmo
    rw [h1] at hm
    cases hm
    obtain ⟨out, ph, g1, g2, g3, g4⟩ :=
      C04.tensordotF_refines_graded_common a b rb xa xb ha hb hfa hfb hadm h2
    refine ⟨out, ph, hmo.symm.trans g1, f1.trans g2, f2.trans g3, fun s oL oR hoL ho => ?_⟩
    rw [elem_everywhere hsec hel s _ (ownBox_of_table hshape s _ ho)]
    exact g4 s oL oR hoL ho

/-! ## S7 (associativity) with all four calls in fused / auto mode -/

/-
  Two forms.  `tdotF_assoc_any_mode_stored` (stored data): with `c1b` the blockwise result of
  route 1 (whose sectors, index tables and values are characterised by `C04.tdotF_assoc_labels`),
  both fused / auto results store every sector of `c1b`, on the box of such a block
  `c2m = c1m = c1b`, and every other block either of them stores is identically zero.
  `tdotF_assoc_any_mode` (below it): the `FreeAddr` form of C04d.
-/

/-- **tdotF_assoc_any_mode_stored.** -/
theorem tdotF_assoc_any_mode_stored [AddCommMonoid R] [Mul R] [Neg R] [SignRing R] [AssocLaws R]
    (hz1 : ∀ x : R, 0 * x = 0) (hz2 : ∀ x : R, x * 0 = 0)
    (A B C : Arr R) (xa1 xa3 xb1 xb2 xc2 xc3 : List Nat)
    (hA : A.validB = true) (hB : B.validB = true) (hC : C.validB = true)
    (hfA : A.fermi = true) (hfB : B.fermi = true) (hfC : C.fermi = true)
    (h1 : ValidP.tdotAdmissibleB A B xa1 xb1 = true) (h2 : ValidP.tdotAdmissibleB B C xb2 xc2 = true)
    (h3 : ValidP.contractibleB A C xa3 xc3 = true)
    (hnA : (xa1 ++ xa3).Nodup) (hnB : (xb1 ++ xb2).Nodup) (hnC : (xc2 ++ xc3).Nodup)
    (hltA : ∀ i ∈ xa3, i < A.ndim) (hltC : ∀ i ∈ xc3, i < C.ndim)
    (hL : Assoc2P.LabelRoutes A.parity B.parity A.oddpos B.oddpos C.oddpos)
    (mode : TdotMode) (hmode : mode = .fused ∨ mode = .auto) :
    ∃ ABm BCm c1m c2m ABb c1b : Arr R,
      A.tensordotF B (.pair (xa1.map Int.ofNat) (xb1.map Int.ofNat)) mode = .ok ABm
      ∧ ABm.tensordotF C (.pair ((Assoc2P.axesAB A.ndim B.ndim xa1 xa3 xb1 xb2).map Int.ofNat)
          ((xc3 ++ xc2).map Int.ofNat)) mode = .ok c1m
      ∧ B.tensordotF C (.pair (xb2.map Int.ofNat) (xc2.map Int.ofNat)) mode = .ok BCm
      ∧ A.tensordotF BCm (.pair ((xa1 ++ xa3).map Int.ofNat)
          ((Assoc2P.axesBC B.ndim C.ndim xb1 xb2 xc2 xc3).map Int.ofNat)) mode = .ok c2m
      ∧ A.tensordotF B (.pair (xa1.map Int.ofNat) (xb1.map Int.ofNat)) .blockwise = .ok ABb
      ∧ ABb.tensordotF C (.pair ((Assoc2P.axesAB A.ndim B.ndim xa1 xa3 xb1 xb2).map Int.ofNat)
          ((xc3 ++ xc2).map Int.ofNat)) .blockwise = .ok c1b
      ∧ c2m.oddpos = c1m.oddpos ∧ c2m.charge = c1m.charge ∧ c2m.sym = c1m.sym ∧ c2m.fermi = c1m.fermi
      ∧ c1m.oddpos = c1b.oddpos ∧ c1m.charge = c1b.charge
      ∧ (∀ s ∈ c1b.sectors, s ∈ c1m.sectors ∧ s ∈ c2m.sectors)
      ∧ (∀ s ∈ c1b.sectors, ∀ o, inBox (Arr.blockShapeD c1b.indices s) o = true →
          c2m.elem s o = c1m.elem s o ∧ c1m.elem s o = c1b.elem s o)
      ∧ (∀ s, s ∉ c1b.sectors → ∀ o, OwnBox c1m s o → c1m.elem s o = 0)
      ∧ (∀ s, s ∉ c1b.sectors → ∀ o, OwnBox c2m s o → c2m.elem s o = 0) := by
  obtain ⟨ABm, BCm, c1m, c2m, ABb, c1b, K⟩ := assoc_core hz1 hz2 A B C xa1 xa3 xb1 xb2 xc2 xc3
    hA hB hC hfA hfB hfC h1 h2 h3 hnA hnB hnC hltA hltC hL mode hmode
  exact ⟨ABm, BCm, c1m, c2m, ABb, c1b, K.call1, K.call2, K.call3, K.call4, K.callb1, K.callb2,
    K.oddpos, K.charge, K.sym, K.fermi, K.oddb, K.chargeb, K.secs, K.stored, K.zero1, K.zero2⟩

/-- **S7 tdotF_assoc_any_mode** — the statement of `C04.tdotF_assoc_labels` (chains and
    triangles, any labels satisfying `LabelRoutes`, in particular pairwise-distinct labels) with
    ALL FOUR calls in `mode = fused` or `auto`: the calls succeed and `c1m = (A·B)·C`,
    `c2m = A·(B·C)` have the same labels, charge, symmetry, kind and the same value at every
    address `(LA ++ LM ++ LC, oA ++ oM ++ oC)` of the original operands' tables (`FreeAddr`).
    (The sector LISTS and pruned index tables of the two results are not claimed equal: fused-mode
    results may store additional all-zero blocks — `tdotF_assoc_any_mode_stored`.) -/
theorem tdotF_assoc_any_mode [AddCommMonoid R] [Mul R] [Neg R] [SignRing R] [AssocLaws R]
    (hz1 : ∀ x : R, 0 * x = 0) (hz2 : ∀ x : R, x * 0 = 0)
    (A B C : Arr R) (xa1 xa3 xb1 xb2 xc2 xc3 : List Nat)
    (hA : A.validB = true) (hB : B.validB = true) (hC : C.validB = true)
    (hfA : A.fermi = true) (hfB : B.fermi = true) (hfC : C.fermi = true)
    (h1 : ValidP.tdotAdmissibleB A B xa1 xb1 = true) (h2 : ValidP.tdotAdmissibleB B C xb2 xc2 = true)
    (h3 : ValidP.contractibleB A C xa3 xc3 = true)
    (hnA : (xa1 ++ xa3).Nodup) (hnB : (xb1 ++ xb2).Nodup) (hnC : (xc2 ++ xc3).Nodup)
    (hltA : ∀ i ∈ xa3, i < A.ndim) (hltC : ∀ i ∈ xc3, i < C.ndim)
    (hL : Assoc2P.LabelRoutes A.parity B.parity A.oddpos B.oddpos C.oddpos)
    (mode : TdotMode) (hmode : mode = .fused ∨ mode = .auto) :
    ∃ ABm BCm c1m c2m : Arr R,
      A.tensordotF B (.pair (xa1.map Int.ofNat) (xb1.map Int.ofNat)) mode = .ok ABm
      ∧ ABm.tensordotF C (.pair ((Assoc2P.axesAB A.ndim B.ndim xa1 xa3 xb1 xb2).map Int.ofNat)
          ((xc3 ++ xc2).map Int.ofNat)) mode = .ok c1m
      ∧ B.tensordotF C (.pair (xb2.map Int.ofNat) (xc2.map Int.ofNat)) mode = .ok BCm
      ∧ A.tensordotF BCm (.pair ((xa1 ++ xa3).map Int.ofNat)
          ((Assoc2P.axesBC B.ndim C.ndim xb1 xb2 xc2 xc3).map Int.ofNat)) mode = .ok c2m
      ∧ c2m.oddpos = c1m.oddpos ∧ c2m.charge = c1m.charge ∧ c2m.sym = c1m.sym ∧ c2m.fermi = c1m.fermi
      ∧ ∀ (LA LM LC : Sector) (oA oM oC : List Nat),
          Assoc2P.FreeAddr A B C xa1 xa3 xb1 xb2 xc2 xc3 LA LM LC oA oM oC →
          c2m.elem (LA ++ LM ++ LC) (oA ++ oM ++ oC) = c1m.elem (LA ++ LM ++ LC) (oA ++ oM ++ oC) := by
  obtain ⟨ABm, BCm, c1m, c2m, ABb, c1b, K⟩ := assoc_core hz1 hz2 A B C xa1 xa3 xb1 xb2 xc2 xc3
    hA hB hC hfA hfB hfC h1 h2 h3 hnA hnB hnC hltA hltC hL mode hmode
  refine ⟨ABm, BCm, c1m, c2m, K.call1, K.call2, K.call3, K.call4, K.oddpos, K.charge, K.sym, K.fermi, ?_⟩
  intro LA LM LC oA oM oC fa
  by_cases hs : (LA ++ LM ++ LC) ∈ c1b.sectors
  · obtain ⟨t, ht⟩ := (K.secb _).mp hs
    obtain ⟨shp, hshp⟩ := triple_shape (Arr.shapesOk_of_validB hA) (Arr.shapesOk_of_validB hB)
      (Arr.shapesOk_of_validB hC) ht
    have ho : inBox (Arr.blockShapeD c1b.indices (LA ++ LM ++ LC)) (oA ++ oM ++ oC) = true := by
      rw [K.idxb, Arr.blockShapeD, ValidP.dropUnused_blockShape _ _ _ hs, hshp]
      exact freeAddr_inBox fa hshp
    exact (K.stored _ hs _ ho).1
  · rw [K.zero1 _ hs _ (fun V hl => freeAddr_inBox fa (K.shape1 _ V hl)),
      K.zero2 _ hs _ (fun V hl => freeAddr_inBox fa (K.shape2 _ V hl))]

/-- **S7 for pairwise-distinct labels** (the scope of C04, statement of `C04.tdotF_assoc`) with
    all four calls in fused / auto mode -/
theorem tdotF_assoc_any_mode_distinct [AddCommMonoid R] [Mul R] [Neg R] [SignRing R] [AssocLaws R]
    (hz1 : ∀ x : R, 0 * x = 0) (hz2 : ∀ x : R, x * 0 = 0)
    (A B C : Arr R) (xa1 xa3 xb1 xb2 xc2 xc3 : List Nat)
    (hA : A.validB = true) (hB : B.validB = true) (hC : C.validB = true)
    (hfA : A.fermi = true) (hfB : B.fermi = true) (hfC : C.fermi = true)
    (h1 : ValidP.tdotAdmissibleB A B xa1 xb1 = true) (h2 : ValidP.tdotAdmissibleB B C xb2 xc2 = true)
    (h3 : ValidP.contractibleB A C xa3 xc3 = true)
    (hnA : (xa1 ++ xa3).Nodup) (hnB : (xb1 ++ xb2).Nodup) (hnC : (xc2 ++ xc3).Nodup)
    (hltA : ∀ i ∈ xa3, i < A.ndim) (hltC : ∀ i ∈ xc3, i < C.ndim)
    (hd : (A.oddpos ++ B.oddpos ++ C.oddpos).Pairwise (fun x y => x.1 ≠ y.1))
    (mode : TdotMode) (hmode : mode = .fused ∨ mode = .auto) :
    ∃ ABm BCm c1m c2m : Arr R,
      A.tensordotF B (.pair (xa1.map Int.ofNat) (xb1.map Int.ofNat)) mode = .ok ABm
      ∧ ABm.tensordotF C (.pair ((Assoc2P.axesAB A.ndim B.ndim xa1 xa3 xb1 xb2).map Int.ofNat)
          ((xc3 ++ xc2).map Int.ofNat)) mode = .ok c1m
      ∧ B.tensordotF C (.pair (xb2.map Int.ofNat) (xc2.map Int.ofNat)) mode = .ok BCm
      ∧ A.tensordotF BCm (.pair ((xa1 ++ xa3).map Int.ofNat)
          ((Assoc2P.axesBC B.ndim C.ndim xb1 xb2 xc2 xc3).map Int.ofNat)) mode = .ok c2m
      ∧ c2m.oddpos = c1m.oddpos ∧ c2m.charge = c1m.charge ∧ c2m.sym = c1m.sym ∧ c2m.fermi = c1m.fermi
      ∧ ∀ (LA LM LC : Sector) (oA oM oC : List Nat),
          Assoc2P.FreeAddr A B C xa1 xa3 xb1 xb2 xc2 xc3 LA LM LC oA oM oC →
          c2m.elem (LA ++ LM ++ LC) (oA ++ oM ++ oC) = c1m.elem (LA ++ LM ++ LC) (oA ++ oM ++ oC) :=
  tdotF_assoc_any_mode hz1 hz2 A B C xa1 xa3 xb1 xb2 xc2 xc3 hA hB hC hfA hfB hfC h1 h2 h3 hnA hnB hnC
    hltA hltC (C04.labelRoutes_of_distinct _ _ _ _ _ hd) mode hmode

/-! ### non-vacuity and sanity -/

open SymmModel.C03 in
example : Adm gA gB [1] [1] ∧ Adm gA gB [0, 1, 2] [2, 1, 0] ∧ Adm gA gB [] [] :=
  ⟨Adm.of (by decide +kernel) (by decide +kernel) rfl rfl (by decide +kernel),
   Adm.of (by decide +kernel) (by decide +kernel) rfl rfl (by decide +kernel),
   Adm.of (by decide +kernel) (by decide +kernel) rfl rfl (by decide +kernel)⟩

-- full contraction (scalar result, as in `<psi|psi>`): auto = fused = blockwise, one block `[]`
open SymmModel.C03 in
example :
    (match gA.tensordotF gB (.pair [0, 1, 2] [2, 1, 0]) .auto,
           gA.tensordotF gB (.pair [0, 1, 2] [2, 1, 0]) .fused,
           gA.tensordotF gB (.pair [0, 1, 2] [2, 1, 0]) .blockwise with
     | .ok c, .ok c', .ok d =>
         c.indices.length == 0 && d.sectors == [[]] && c.sectors == [[]] && c'.sectors == [[]]
         && c.elem [] [] == d.elem [] [] && c'.elem [] [] == d.elem [] [] && c.oddpos == d.oddpos
     | _, _, _ => false) = true := by decide +kernel

-- `mode = fused` with nothing to contract: same elements as the blockwise outer product
open SymmModel.C03 in
example :
    (match gA.tensordotF gB (.pair [] []) .fused, gA.tensordotF gB (.pair [] []) .blockwise with
     | .ok c, .ok d =>
         c.indices.length == 6 && d.blocks.length == 16
         && d.blocks.all (fun p => (alookup c.blocks p.1).map (·.data) == some p.2.data
              && alookup c.phases p.1 == alookup d.phases p.1)
         && c.oddpos == d.oddpos
     | _, _ => false) = true := by decide +kernel

/-- a matrix over `(j', k')` for `exA[i,j,k]`: contracting it completely leaves a vector -/
def exV : Arr Int :=
  { sym := .Z2, fermi := false, indices := [ixJ.conj, ixK.conj], charge := c0,
    blocks := [([c0, c0], mkB [1, 2] 3), ([c1, c1], mkB [2, 2] (-2))] }

-- matrix · vector and vector · matrix (abelian): one operand contracted completely
example : exV.validB = true ∧ ValidP.contractibleB exA exV [1, 2] [0, 1] = true
    ∧ freeAxes exV.ndim [0, 1] = [] ∧ ValidP.contractibleB exV exA [0, 1] [1, 2] = true
    ∧ (match tensordotViaFused exA exV [0] [1, 2] [0, 1] [] with
       | .ok c => c.blocks.map (fun p => (p.1, p.2.shape, p.2.data))
       | .error _ => [])
      = (tensordotBlockwise exA exV [0] [1, 2] [0, 1] []).blocks.map (fun p => (p.1, p.2.shape, p.2.data))
    ∧ (match tensordotViaFused exV exA [] [0, 1] [1, 2] [0] with
       | .ok c => c.blocks.map (fun p => (p.1, p.2.shape, p.2.data))
       | .error _ => [])
      = (tensordotBlockwise exV exA [] [0, 1] [1, 2] [0]).blocks.map (fun p => (p.1, p.2.shape, p.2.data))
    ∧ (tensordotBlockwise exA exV [0] [1, 2] [0, 1] []).blocks.length = 1 := by decide +kernel

-- the weak guard inside a chain (C04c's example): `B·C` has pruned tables, `(A, B·C)` is not
-- `contractibleB` but satisfies the weak guard; auto = fused = blockwise on it, and the two routes
-- of the chain agree when ALL four calls run in `mode = auto`
open SymmModel.C03 SymmModel.C04 in
example : AdmW gA exBC [2] [0] ∧ ValidP.contractibleB gA exBC [2] [0] = false :=
  ⟨AdmW.of (by decide +kernel) (by decide +kernel) rfl (by decide +kernel) (by decide +kernel),
   by decide +kernel⟩

open SymmModel.C03 SymmModel.C04 in
example :
    (match gA.tensordotF exBC (.pair [2] [0]) .auto, gA.tensordotF exBC (.pair [2] [0]) .fused,
           gA.tensordotF exBC (.pair [2] [0]) .blockwise with
     | .ok c, .ok c', .ok d =>
         c.oddpos == d.oddpos && d.blocks.all (fun p =>
           (alookup c.blocks p.1).map (·.data) == some p.2.data
           && (alookup c'.blocks p.1).map (·.data) == some p.2.data
           && alookup c.phases p.1 == alookup d.phases p.1)
     | _, _, _ => false) = true := by decide +kernel

open SymmModel.C03 SymmModel.C04 in
example :
    (match (resOf (gA.tensordotF cB (.pair [2] [0]) .auto)).tensordotF cC (.pair [3] [0]) .auto,
           gA.tensordotF (resOf (cB.tensordotF cC (.pair [2] [0]) .auto)) (.pair [2] [0]) .auto with
     | .ok c1, .ok c2 =>
         c1.oddpos == c2.oddpos && c1.charge == c2.charge
         && c1.elem [(0,0),(1,0),(0,0),(0,0)] [1,1,0,0] == c2.elem [(0,0),(1,0),(0,0),(0,0)] [1,1,0,0]
         && c1.elem [(1,0),(0,0),(0,0),(0,0)] [0,0,0,0] == c2.elem [(1,0),(0,0),(0,0),(0,0)] [0,0,0,0]
         && c1.elem [(0,0),(1,0),(0,0),(0,0)] [1,1,0,0] != 0
     | _, _ => false) = true := by decide +kernel

-- the hypotheses of `tdotF_assoc_any_mode_stored` hold for C04c's odd chain `gA – cB – cC`
open SymmModel.C03 SymmModel.C04 in
example : gA.validB = true ∧ cB.validB = true ∧ cC.validB = true
    ∧ ValidP.tdotAdmissibleB gA cB [2] [0] = true ∧ ValidP.tdotAdmissibleB cB cC [2] [0] = true
    ∧ ValidP.contractibleB gA cC [] [] = true
    ∧ ([2] ++ [] : List Nat).Nodup ∧ ([0] ++ [2] : List Nat).Nodup ∧ ([0] ++ [] : List Nat).Nodup
    ∧ Assoc2P.LabelRoutes gA.parity cB.parity gA.oddpos cB.oddpos cC.oddpos :=
  ⟨by decide +kernel, by decide +kernel, by decide +kernel, by decide +kernel, by decide +kernel,
   by decide +kernel, by decide, by decide, by decide,
   C04.labelRoutes_of_distinct _ _ _ _ _ (by decide +kernel)⟩

end SymmModel.C06
