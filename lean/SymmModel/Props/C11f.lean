/-
  Property C11 (sixth part).

  1. `svd` / `svd_truncated` factors contracted with `tensordot_fermionic` (`Arr.tensordotF`,
     `Recon3P.svdTensordot`: `absorb=None` → `U.multiply_diagonal(s,1)`, `VH`; otherwise the absorbed
     `U'`, `VH'`) in EVERY contraction mode (blockwise / fused / auto) and for EVERY `absorb` option:
       `svd_absorb_tensordotF`                  no truncation: the product is `x`;
       `svd_truncated_tensordotF`               after truncation: labels, kept sectors, the partial
                                                 sums on kept blocks, zero elsewhere;
       `svd_truncated_tensordotF_minus_discarded`  `x − product` = exactly the discarded part;
       `truncation_error_tensordotF`            its squared norm = discarded squared weight.
     Statements are at every address of `x`'s index tables (`inBox (blockShapeD x.indices s) off`):
     no premise on the result's own blocks (C06d `tensordotF_to_blockwise'`).
     `qr_reconstructs_tensordotF_all_modes`, `svd_reconstructs_tensordotF_all_modes`: C11e's
     `*_any_mode` theorems without the own-box premise.
     Proof: `Recon3P.tdotF_pair` — the item-list version of `Recon2P.tdotF_factors` for any aligned
     pair of factors (`Recon3P.Pair`), then C06d.
  2. The structure clauses "every block of Q and U has orthonormal columns, every block of V† has
     orthonormal rows, R blocks are upper triangular, singular values …" are per-block kernel
     contracts (`K.QIsoBlock`, `K.OrthoBlock`, `K.RUpperBlock`, any predicate on the singular-value
     blocks).  `q_blocks_orthonormal`, `u_vh_blocks_orthonormal`, `r_blocks_upper_triangular`,
     `singular_values_inherit`: they hold for the VALUE VIEW of the returned arrays (pending signs
     included), abelian and fermionic inputs alike.  Array level, abelian, through the library's
     adjoint and contraction: `qr_isometry_array` (`Q†·Q = 1` on the bond), `svd_isometry_array`
     (`U†·U = 1`, `VH·VH† = 1`).
     NOT proved: the array-level statement for FERMIONIC factors through `dagger()` and `@`
     (`q.dagger() @ q`): the product is `±1` per bond charge with a sign that depends on the
     direction of `x`'s row index, on `x`'s parity and on its labels (see the examples at the end:
     `-1` on odd bond charges when the row index is dual, a further global `-1` for an odd `x` with
     one non-dual label — the convention of known finding `norm-odd-dual-label`).
-/
import SymmModel.Proofs.Recon3Prod
import SymmModel.Props.C11All3

namespace SymmModel.C11
open SymmModel LinalgLemmas ReconP Recon2P Recon3P

variable {R : Type}

/-! ## 1. `tensordot_fermionic`, every mode, every `absorb` -/

section tdot
variable [CommRing R]

theorem svdTensordot_def (sqrtK : Blk R → Blk R) (u : Arr R) (s : BVec R) (vh : Arr R)
    (tm : TdotMode) :
    svdTensordot none tm sqrtK u s vh = (multiplyDiagonal u s 1).tensordotF vh (.pair [1] [0]) tm
    ∧ ∀ m, svdTensordot (some m) tm sqrtK u s vh
        = (absorbA m sqrtK u s vh).1.tensordotF (absorbA m sqrtK u s vh).2 (.pair [1] [0]) tm :=
  ⟨rfl, fun _ => rfl⟩

/-- **svd_absorb_tensordotF.**  `u, s, vh = svd(x)`, `x` a valid fermionic matrix (sorted labels,
    any pending signs).  For every `absorb` option and every contraction mode the `tensordot` of the
    returned factors succeeds, carries `x`'s labels, stores every sector of `x`, and has `x`'s
    element at every address of `x`'s index tables. -/
theorem svd_absorb_tensordotF (K : Kernels R) (hK : K.ShapeOk) (hC : K.SVDContract) (x : Arr R)
    (hv : x.validB = true) (h2 : x.ndim = 2) (hf : x.fermi = true)
    (hlab : SortedLabels x.oddpos) (u : Arr R) (s : BVec R) (vh : Arr R)
    (hsvd : svdA K x = .ok (u, s, vh)) (sqrtK : Blk R → Blk R) (am : Option Absorb)
    (tm : TdotMode) (hsq : am = some .both → SqrtOn sqrtK s) :
    ∃ y, svdTensordot am tm sqrtK u s vh = .ok y
      ∧ y.oddpos = x.oddpos ∧ (∀ sec ∈ x.sectors, sec ∈ y.sectors)
      ∧ (tm = .blockwise → y.phases = [] ∧ y.sectors = x.sectors)
      ∧ ∀ sec off, inBox (Arr.blockShapeD x.indices sec) off = true →
          y.elem sec off = x.elem sec off := by
  obtain ⟨rfl, rfl, rfl⟩ := svd_factors_eq hv h2 hsvd
  exact svd_tdotF hK hC hv h2 hf hlab sqrtK am tm (fun hm => sqrtItems_svd hK hv h2 (hsq hm))

open Finset in
/-- **svd_truncated_tensordotF.**  After truncation with `counts`: for every `absorb` option and
    every contraction mode the `tensordot` of the returned factors succeeds, carries `x`'s labels,
    stores every sector with a non-zero count (in blockwise mode exactly those, no pending sign),
    has the entry `± Σ_{t<c} (u[i,t]·s[t])·vh[t,j]` on a kept block and `0` at every table address
    of every other sector. -/
theorem svd_truncated_tensordotF (K : Kernels R) (hK : K.ShapeOk) (x : Arr R)
    (hv : x.validB = true) (h2 : x.ndim = 2) (hf : x.fermi = true)
    (hlab : SortedLabels x.oddpos) (u : Arr R) (s : BVec R) (vh : Arr R)
    (hsvd : svdA K x = .ok (u, s, vh)) (counts : List Nat)
    (hlen : counts.length = x.blocks.length) (sqrtK : Blk R → Blk R) (am : Option Absorb)
    (tm : TdotMode) (hsq : am = some .both → SqrtOn sqrtK (applyCounts u s vh counts).2.1) :
    ∃ y, svdTensordot am tm sqrtK (applyCounts u s vh counts).1 (applyCounts u s vh counts).2.1
        (applyCounts u s vh counts).2.2 = .ok y
      ∧ y.oddpos = x.oddpos
      ∧ (∀ sec b c, ((sec, b), c) ∈ x.blocks.zip counts → c ≠ 0 → sec ∈ y.sectors)
      ∧ (tm = .blockwise → y.phases = []
          ∧ y.sectors = ((x.blocks.zip counts).filter (fun t => t.2 != 0)).map (fun t => t.1.1))
      ∧ (∀ sec b c, ((sec, b), c) ∈ x.blocks.zip counts → c ≠ 0 →
          ∀ m n, b.shape = [m, n] → ∀ i j, i < m → j < n →
            y.elem sec [i, j] = pend x sec (∑ t ∈ range c,
              ((K.svd b).1.get [i, t] * (K.svd b).2.1.get [t]) * (K.svd b).2.2.get [t, j]))
      ∧ (∀ sec b, ((sec, b), 0) ∈ x.blocks.zip counts → ∀ off,
          inBox (Arr.blockShapeD x.indices sec) off = true → y.elem sec off = 0)
      ∧ (∀ sec, sec ∉ x.sectors → ∀ off,
          inBox (Arr.blockShapeD x.indices sec) off = true → y.elem sec off = 0) := by
  obtain ⟨rfl, rfl, rfl⟩ := svd_factors_eq hv h2 hsvd
  rw [applyCounts_eq (S := fun b => (K.svd b).2.1) hv h2 hlen] at hsq ⊢
  obtain ⟨y, hy, hyo, hys, hbw, he, hz⟩ := trunc_tdotF hK hv h2 hf hlab hlen sqrtK am tm
    (fun hm => sqrtItems_trunc (hsq hm))
  have hkeys : ((x.blocks.zip counts).map (fun t => t.1.1)).Nodup := by
    have e : (x.blocks.zip counts).map (fun t => t.1.1)
        = ((x.blocks.zip counts).map (·.1)).map (·.1) := by rw [List.map_map]; rfl
    rw [e, tri_map_fst hlen]; exact sectors_nodup hv
  refine ⟨y, hy, hyo, ?_, hbw, ?_, ?_, ?_⟩
  · intro sec b c hm hc0
    exact hys sec (List.mem_map.mpr ⟨((sec, b), c), List.mem_filter.mpr ⟨hm, by simpa using hc0⟩, rfl⟩)
  · intro sec b c hm hc0 m n hs i j hi hj
    have hk : ((sec, b), c) ∈ kept x counts := List.mem_filter.mpr ⟨hm, by simpa using hc0⟩
    exact he _ hk m n hs i j hi hj
  · intro sec b hm off hbox
    apply hz _ _ off hbox
    intro hmem
    obtain ⟨t, ht, e⟩ := List.mem_map.mp hmem
    have ht' := List.mem_filter.mp ht
    have := List.inj_on_of_nodup_map hkeys ht'.1 hm e
    rw [this] at ht'
    simp at ht'
  · intro sec hns off hbox
    apply hz _ _ off hbox
    intro hmem
    obtain ⟨t, ht, e⟩ := List.mem_map.mp hmem
    exact hns (e ▸ List.mem_map.mpr ⟨t.1, (kept_mem hlen ht).1, rfl⟩)

open Finset in
/-- **svd_truncated_tensordotF_minus_discarded.**  Under the svd value contract: on a kept block
    `x − tensordot(U', VH')` is exactly the discarded part, in every mode, for every `absorb`. -/
theorem svd_truncated_tensordotF_minus_discarded (K : Kernels R) (hK : K.ShapeOk)
    (hC : K.SVDContract) (x : Arr R) (hv : x.validB = true) (h2 : x.ndim = 2)
    (hf : x.fermi = true) (hlab : SortedLabels x.oddpos) (u : Arr R) (s : BVec R) (vh : Arr R)
    (hsvd : svdA K x = .ok (u, s, vh)) (counts : List Nat)
    (hlen : counts.length = x.blocks.length) (sqrtK : Blk R → Blk R) (am : Option Absorb)
    (tm : TdotMode) (hsq : am = some .both → SqrtOn sqrtK (applyCounts u s vh counts).2.1) :
    ∃ y, svdTensordot am tm sqrtK (applyCounts u s vh counts).1 (applyCounts u s vh counts).2.1
        (applyCounts u s vh counts).2.2 = .ok y
      ∧ ∀ sec b c, ((sec, b), c) ∈ x.blocks.zip counts → c ≠ 0 →
          ∀ m n, b.shape = [m, n] → c ≤ min m n → ∀ i j, i < m → j < n →
            x.elem sec [i, j] - y.elem sec [i, j] = pend x sec (∑ t ∈ Ico c (min m n),
              ((K.svd b).1.get [i, t] * (K.svd b).2.1.get [t]) * (K.svd b).2.2.get [t, j]) := by
  obtain ⟨y, hy, _, _, _, he, _⟩ := svd_truncated_tensordotF K hK x hv h2 hf hlab u s vh
    hsvd counts hlen sqrtK am tm hsq
  refine ⟨y, hy, ?_⟩
  intro sec b c hm hc0 m n hs hc i j hi hj
  have hk : ((sec, b), c) ∈ kept x counts := List.mem_filter.mpr ⟨hm, by simpa using hc0⟩
  exact trunc_diff_fermi hC hv hlen hk hs hc hi hj (he sec b c hm hc0 m n hs i j hi hj)

open Finset in
/-- **truncation_error_tensordotF.** -/
theorem truncation_error_tensordotF (conj : R →+* R) (K : Kernels R) (hK : K.ShapeOk)
    (hC : K.SVDContract) (x : Arr R) (hv : x.validB = true) (h2 : x.ndim = 2)
    (hf : x.fermi = true) (hlab : SortedLabels x.oddpos) (u : Arr R) (s : BVec R) (vh : Arr R)
    (hsvd : svdA K x = .ok (u, s, vh)) (counts : List Nat)
    (hlen : counts.length = x.blocks.length) (sqrtK : Blk R → Blk R) (am : Option Absorb)
    (tm : TdotMode) (hsq : am = some .both → SqrtOn sqrtK (applyCounts u s vh counts).2.1) :
    ∃ y, svdTensordot am tm sqrtK (applyCounts u s vh counts).1 (applyCounts u s vh counts).2.1
        (applyCounts u s vh counts).2.2 = .ok y
      ∧ ∀ sec b c, ((sec, b), c) ∈ x.blocks.zip counts → c ≠ 0 →
          ∀ m n, b.shape = [m, n] → K.OrthoBlock conj b → c ≤ min m n →
            ∑ i ∈ range m, ∑ j ∈ range n,
                conj (x.elem sec [i, j] - y.elem sec [i, j]) * (x.elem sec [i, j] - y.elem sec [i, j])
              = ∑ t ∈ Ico c (min m n), conj ((K.svd b).2.1.get [t]) * (K.svd b).2.1.get [t] := by
  obtain ⟨y, hy, _, _, _, he, _⟩ := svd_truncated_tensordotF K hK x hv h2 hf hlab u s vh
    hsvd counts hlen sqrtK am tm hsq
  refine ⟨y, hy, ?_⟩
  intro sec b c hm hc0 m n hs hO hc
  have hk : ((sec, b), c) ∈ kept x counts := List.mem_filter.mpr ⟨hm, by simpa using hc0⟩
  exact trunc_error_fermi conj hC hv hlen hk hs hO hc
    (fun i j hi hj => he sec b c hm hc0 m n hs i j hi hj)

/-- **svd_reconstructs_tensordotF_all_modes.**  C11e's `svd_reconstructs_tensordotF_any_mode`
    without the own-box premise (the `absorb=None` case of `svd_absorb_tensordotF`). -/
theorem svd_reconstructs_tensordotF_all_modes (K : Kernels R) (hK : K.ShapeOk)
    (hC : K.SVDContract) (x : Arr R) (hv : x.validB = true) (h2 : x.ndim = 2)
    (hf : x.fermi = true) (hlab : SortedLabels x.oddpos) (tm : TdotMode) :
    ∃ u s vh c, svdA K x = .ok (u, s, vh)
      ∧ (multiplyDiagonal u s 1).tensordotF vh (.pair [1] [0]) tm = .ok c
      ∧ c.oddpos = x.oddpos ∧ (∀ sec ∈ x.sectors, sec ∈ c.sectors)
      ∧ ∀ sec off, inBox (Arr.blockShapeD x.indices sec) off = true →
          c.elem sec off = x.elem sec off := by
  obtain ⟨y, h1, h2', h3, _, h5⟩ := svd_absorb_tensordotF K hK hC x hv h2 hf hlab _ _ _
    (svdA_eq K hv h2) id none tm (fun h => by cases h)
  exact ⟨_, _, _, y, svdA_eq K hv h2, h1, h2', h3, h5⟩

end tdot

section qr
variable [AddCommMonoid R] [Mul R] [Neg R] [GradedP.SignRing R]

omit [AddCommMonoid R] [Mul R] [Neg R] [GradedP.SignRing R] in
/-- the factors of any shape-correct block maps are an aligned pair -/
theorem factors_pair {x : Arr R} {L Rt : Blk R → Blk R} (hv : x.validB = true) (h2 : x.ndim = 2)
    (hf : x.fermi = true) (hL : FacShape L Rt) :
    Pair x x.blocks (fun p => p.1) (fun p => L p.2) (fun p => Rt p.2)
      (fun p => (p.2.shape.getD 0 0, min (p.2.shape.getD 0 0) (p.2.shape.getD 1 0), p.2.shape.getD 1 0))
      (leftF x L) (rightF x L Rt) := by
  obtain ⟨i0, i1, hi⟩ := ndim_two h2
  have hi1 : x.indices.getD 1 default = i1 := by simp [hi]
  refine ⟨leftF_valid hv h2 hi hL, rightF_valid hv h2 hi hL, hf, rightF_fields.2.1.trans hf, rfl,
    rightF_rightOf hv h2 hf _ _,
    ⟨bondIx x L, (bondIx x L).conj, rfl, rightF_fields.2.2.1, (conj_cm _).symm,
      by rw [bondIx_eq hi, hi1]; rfl⟩,
    rfl, rfl, rfl, rightF_fields.2.2.2.2.1, fun p hp => List.mem_map.mpr ⟨p, hp, rfl⟩,
    sectors_nodup hv, ?_, ?_⟩
  · have := colCharges_nodup hv h2
    simpa [Arr.sectors, List.map_map, Function.comp_def, colOf] using this
  · intro p hp
    obtain ⟨r, c, m, n, B⟩ := mat_block hv hi (s := p.1) (b := p.2) hp
    obtain ⟨l1, _, l3, _⟩ := hL p.2 m n B.hshape B.hwf
    simp only [B.hshape, List.getD_cons_zero, List.getD_cons_succ]
    exact ⟨l1, l3⟩

/-- **qr_reconstructs_tensordotF_all_modes.**  C11e's `qr_reconstructs_tensordotF_any_mode`
    without the own-box premise: `x`'s element at every address of `x`'s index tables. -/
theorem qr_reconstructs_tensordotF_all_modes (hz1 : ∀ x : R, 0 * x = 0) (hz2 : ∀ x : R, x * 0 = 0)
    (K : Kernels R) (hK : K.ShapeOk) (hC : K.QRContract) (x : Arr R)
    (hv : x.validB = true) (h2 : x.ndim = 2) (hf : x.fermi = true)
    (hlab : SortedLabels x.oddpos) (tm : TdotMode) :
    ∃ q r c, qrA K x = .ok (q, r) ∧ q.tensordotF r (.pair [1] [0]) tm = .ok c
      ∧ c.oddpos = x.oddpos ∧ (∀ s ∈ x.sectors, s ∈ c.sectors)
      ∧ ∀ s off, inBox (Arr.blockShapeD x.indices s) off = true → c.elem s off = x.elem s off := by
  obtain ⟨i0, i1, hi⟩ := ndim_two h2
  obtain ⟨c, h1, h2', h3, _, h5, h6⟩ := tdotF_pair_any_mode hz1 hz2 hv h2 hf hlab
    (factors_pair (L := fun b => (K.qr b).1) (Rt := fun b => (K.qr b).2) hv h2 hf (facShape_qr hK)) tm
  refine ⟨_, _, c, qrA_eq K hv h2, h1, h2', h3, ?_⟩
  intro s off hbox
  by_cases hs : s ∈ x.sectors
  · obtain ⟨⟨s0, b⟩, hm, e⟩ := List.mem_map.mp hs
    have e' : s0 = s := e
    subst e'
    obtain ⟨r, c', m, n, B⟩ := mat_block hv hi hm
    have htab : Arr.blockShapeD x.indices s0 = [m, n] := by
      unfold Arr.blockShapeD
      rw [(((validB_iff x).mp hv).2.2.2.1 _ b hm).2.2.1, B.hshape]; rfl
    rw [htab] at hbox
    obtain ⟨i, j, rfl, hij⟩ := inBox_pair_elim hbox
    have := h5 (_, b) hm i j (by simpa [B.hshape] using hij.1) (by simpa [B.hshape] using hij.2)
    simp only [B.hshape, List.getD_cons_zero, List.getD_cons_succ] at this
    rw [this, hC b m n B.hshape B.hwf i j hij.1 hij.2, sgnI_ite, elem_of_mem (sectors_nodup hv) hm]
  · rw [h6 s hs off hbox]
    have h1' : alookup x.blocks s = none := (LinalgLemmas.alookup_eq_none_iff _ _).mpr hs
    simp [Arr.elem, h1']

end qr

/-! ## 2. properly structured factors -/

section structure_
variable [CommRing R]

/-- **q_blocks_orthonormal.**  If the QR kernel returns orthonormal columns on every stored block,
    every block of `q` — VALUE VIEW, pending signs of a fermionic `x` included — has orthonormal
    columns.  Abelian and fermionic inputs. -/
theorem q_blocks_orthonormal (conj : R →+* R) (K : Kernels R) (x : Arr R) (hv : x.validB = true)
    (h2 : x.ndim = 2) (hO : ∀ p ∈ x.blocks, K.QIsoBlock conj p.2) :
    ∃ q r, qrA K x = .ok (q, r) ∧
      ∀ s b, (s, b) ∈ x.blocks → ∀ m n, b.shape = [m, n] → ∀ t t', t < min m n → t' < min m n →
        (List.range m).foldl (fun acc i => acc + conj (q.elem s [i, t]) * q.elem s [i, t']) 0
          = if t = t' then 1 else 0 := by
  refine ⟨_, _, qrA_eq K hv h2, ?_⟩
  intro s b hm m n hs t t' ht ht'
  rw [leftF_gram conj hv hm m t t']
  exact hO (s, b) hm m n hs t t' ht ht'

/-- **u_vh_blocks_orthonormal.**  Likewise every block of `u` has orthonormal columns and every
    block of `vh` (on the diagonal sector of the block's column charge; for a fermionic `x` it may
    carry a pending `-1`) orthonormal rows. -/
theorem u_vh_blocks_orthonormal (conj : R →+* R) (K : Kernels R) (x : Arr R)
    (hv : x.validB = true) (h2 : x.ndim = 2) (hO : ∀ p ∈ x.blocks, K.OrthoBlock conj p.2) :
    ∃ u s vh, svdA K x = .ok (u, s, vh) ∧
      ∀ sec b, (sec, b) ∈ x.blocks → ∀ m n, b.shape = [m, n] → ∀ t t', t < min m n → t' < min m n →
        (List.range m).foldl (fun acc i => acc + conj (u.elem sec [i, t]) * u.elem sec [i, t']) 0
          = (if t = t' then 1 else 0)
        ∧ (List.range n).foldl (fun acc j =>
            acc + conj (vh.elem [col sec, col sec] [t, j]) * vh.elem [col sec, col sec] [t', j]) 0
          = (if t = t' then 1 else 0) := by
  refine ⟨_, _, _, svdA_eq K hv h2, ?_⟩
  intro sec b hm m n hs t t' ht ht'
  have := hO (sec, b) hm m n hs t t' ht ht'
  exact ⟨by rw [leftF_gram conj hv hm m t t']; exact this.1,
    by rw [show [col sec, col sec] = diagOf sec from rfl, rightF_gram conj hv h2 hm n t t']
       exact this.2⟩

/-- **r_blocks_upper_triangular.**  If the QR kernel returns upper-triangular `R` blocks, every
    block of `r` is upper triangular in the value view. -/
theorem r_blocks_upper_triangular (K : Kernels R) (x : Arr R) (hv : x.validB = true)
    (h2 : x.ndim = 2) (hU : ∀ p ∈ x.blocks, K.RUpperBlock p.2) :
    ∃ q r, qrA K x = .ok (q, r) ∧
      ∀ s b, (s, b) ∈ x.blocks → ∀ m n, b.shape = [m, n] → ∀ t j, t < min m n → j < t →
        r.elem [col s, col s] [t, j] = 0 := by
  refine ⟨_, _, qrA_eq K hv h2, ?_⟩
  intro s b hm m n hs t j ht hjt
  exact rightF_zero hv h2 hm [t, j] (hU (s, b) hm m n hs t j ht hjt)

omit [CommRing R] in
/-- **singular_values_inherit.**  Any per-block property of the singular values the kernel promises
    (non-negative, non-increasing, …) holds for every block of the returned `BlockVector`, which
    has exactly one block per stored block of `x`, keyed by its column charge. -/
theorem singular_values_inherit (K : Kernels R) (x : Arr R) (hv : x.validB = true)
    (h2 : x.ndim = 2) (P : Blk R → Prop) (hP : ∀ p ∈ x.blocks, P (K.svd p.2).2.1) :
    ∃ u s vh, svdA K x = .ok (u, s, vh) ∧ s.blocks.map (·.1) = x.sectors.map col
      ∧ ∀ q ∈ s.blocks, P q.2 := by
  refine ⟨_, _, _, svdA_eq K hv h2, ?_, ?_⟩
  · simp [Arr.sectors, List.map_map, Function.comp_def, colOf]
  · intro q hq
    obtain ⟨p, hp, rfl⟩ := List.mem_map.mp hq
    exact hP p hp

variable [Conj R]

/-- **qr_isometry_array** (abelian).  `Q† · Q` — the library's adjoint (`conj` then reversed
    axes, `Arr.adjA`) and blockwise contraction — stores one block per bond charge `c`, on `(c, c)`,
    and it is the identity: entry `[t, t']` is `1` if `t = t'` else `0`. -/
theorem qr_isometry_array (conj : R →+* R) (hcj : ∀ v : R, Conj.conj v = conj v) (K : Kernels R)
    (hK : K.ShapeOk) (x : Arr R) (hv : x.validB = true) (h2 : x.ndim = 2) (hf : x.fermi = false)
    (hO : ∀ p ∈ x.blocks, K.QIsoBlock conj p.2) :
    ∃ q r, qrA K x = .ok (q, r)
      ∧ (tensordotBlockwise q.adjA q [0] [1] [0] [1]).sectors = x.sectors.map (fun s => [col s, col s])
      ∧ ∀ s b, (s, b) ∈ x.blocks → ∀ m n, b.shape = [m, n] → ∀ t t', t < min m n → t' < min m n →
          (tensordotBlockwise q.adjA q [0] [1] [0] [1]).elem [col s, col s] [t, t']
            = if t = t' then 1 else 0 := by
  obtain ⟨g1, _, g3⟩ := gram_left_array conj hcj hv h2 hf (facShape_qr hK)
  refine ⟨_, _, qrA_eq K hv h2, g1, ?_⟩
  intro s b hm m n hs t t' ht ht'
  rw [show [col s, col s] = diagOf s from rfl, g3 s b hm m n hs t t' ht ht']
  exact hO (s, b) hm m n hs t t' ht ht'

/-- **svd_isometry_array** (abelian).  `U† · U = 1` and `VH · VH† = 1` on the bond index. -/
theorem svd_isometry_array (conj : R →+* R) (hcj : ∀ v : R, Conj.conj v = conj v) (K : Kernels R)
    (hK : K.ShapeOk) (x : Arr R) (hv : x.validB = true) (h2 : x.ndim = 2) (hf : x.fermi = false)
    (hO : ∀ p ∈ x.blocks, K.OrthoBlock conj p.2) :
    ∃ u s vh, svdA K x = .ok (u, s, vh)
      ∧ (tensordotBlockwise u.adjA u [0] [1] [0] [1]).sectors = x.sectors.map (fun s => [col s, col s])
      ∧ (tensordotBlockwise vh vh.adjA [0] [1] [0] [1]).sectors = x.sectors.map (fun s => [col s, col s])
      ∧ ∀ sec b, (sec, b) ∈ x.blocks → ∀ m n, b.shape = [m, n] → ∀ t t', t < min m n → t' < min m n →
          (tensordotBlockwise u.adjA u [0] [1] [0] [1]).elem [col sec, col sec] [t, t']
            = (if t = t' then 1 else 0)
          ∧ (tensordotBlockwise vh vh.adjA [0] [1] [0] [1]).elem [col sec, col sec] [t, t']
            = (if t = t' then 1 else 0) := by
  obtain ⟨g1, _, g3⟩ := gram_left_array conj hcj hv h2 hf (facShape_svd hK)
  obtain ⟨k1, _, k3⟩ := gram_right_array conj hcj hv h2 hf (facShape_svd hK)
  refine ⟨_, _, _, svdA_eq K hv h2, g1, k1, ?_⟩
  intro sec b hm m n hs t t' ht ht'
  have := hO (sec, b) hm m n hs
  refine ⟨?_, ?_⟩
  · rw [show [col sec, col sec] = diagOf sec from rfl, g3 sec b hm m n hs t t' ht ht']
    exact (this t t' ht ht').1
  · rw [show [col sec, col sec] = diagOf sec from rfl, k3 sec b hm m n hs t t' ht ht']
    have h' := (this t' t ht' ht).2
    rw [h']
    by_cases e : t = t'
    · subst e; rfl
    · have e' : ¬ t' = t := fun h => e h.symm
      simp [e, e']

end structure_

/-! ## examples -/

open scoped SymmModel.Lazy

/-- `exT` (odd, three labels, a pending sign) truncated with counts `[1, 2]`: every `absorb` option
    × every contraction mode gives the same product — first row of the first block kept, the second
    block with its pending sign -/
example : ((svdA Kernels.trivialFactor exT).toOption.map (fun p =>
      let t := applyCounts p.1 p.2.1 p.2.2 [1, 2]
      ([none, some Absorb.left, some Absorb.both, some Absorb.right].flatMap (fun am =>
        [TdotMode.blockwise, TdotMode.fused, TdotMode.auto].map (fun tm =>
          (svdTensordot am tm id t.1 t.2.1 t.2.2).toOption.map (fun y =>
            (y.blocks.map (fun q => (q.1, q.2.data.toList)), y.phases, y.oddpos))))))
    == some (List.replicate 12 (some
        ([([(0, 0), (1, 0)], [1, 2, 0, 0]), ([(1, 0), (2, 0)], [-5, -6, -7, -8])], [],
         [(7, true), (2, false), (5, false)])))) = true := by decide +kernel

/-- hypotheses of the truncated theorems hold for `exO`, `trivialFactor`, counts `[1, 2]`
    (C11c) and the scalar laws at `Int` -/
example (am : Option Absorb) (tm : TdotMode) :=
  svd_truncated_tensordotF (R := Int) Kernels.trivialFactor trivialFactor_shapeOk exO (by decide) rfl
    rfl sortedLabels_ex _ _ _ (svdA_eq Kernels.trivialFactor (by decide) rfl) [1, 2] rfl id am tm
    (fun _ => sqrtOn_id_trivial_trunc exO (by decide) rfl _ _ _
      (svdA_eq Kernels.trivialFactor (by decide) rfl) [1, 2] rfl (by decide))

/-- abelian matrix with upper-triangular `2 × 2` blocks: `trivialFactor` gives `q = 1`, `r = b` -/
def exUT : Arr Int :=
  { sym := .U1, fermi := false, charge := (1, 0),
    indices := [Index.mk [((0, 0), 2), ((1, 0), 2)] true none,
                Index.mk [((1, 0), 2), ((2, 0), 2)] false none],
    blocks := [([(0, 0), (1, 0)], ⟨[2, 2], #[1, 2, 0, 3]⟩), ([(1, 0), (2, 0)], ⟨[2, 2], #[5, 6, 0, 7]⟩)] }

theorem qiso_22 (b : Blk Int) (hs : b.shape = [2, 2])
    (h : ∀ t t', t < 2 → t' < 2 →
      (List.range 2).foldl (fun acc i => acc + (Kernels.trivialFactor.qr b).1.get [i, t]
          * (Kernels.trivialFactor.qr b).1.get [i, t']) 0 = (if t = t' then 1 else 0)) :
    Kernels.trivialFactor.QIsoBlock (RingHom.id Int) b := by
  intro m n hs' t t' ht ht'
  rw [hs] at hs'
  have hm : m = 2 := (List.cons.inj hs').1.symm
  have hn : n = 2 := (List.cons.inj (List.cons.inj hs').2).1.symm
  subst hm hn
  exact h t t' ht ht'

theorem rupper_22 (b : Blk Int) (hs : b.shape = [2, 2])
    (h : (Kernels.trivialFactor.qr b).2.get [1, 0] = 0) : Kernels.trivialFactor.RUpperBlock b := by
  intro m n hs' t j ht hjt
  rw [hs] at hs'
  have hm : m = 2 := (List.cons.inj hs').1.symm
  have hn : n = 2 := (List.cons.inj (List.cons.inj hs').2).1.symm
  subst hm hn
  have : t = 1 ∧ j = 0 := by
    have : t < 2 := ht
    omega
  obtain ⟨rfl, rfl⟩ := this
  exact h

example : exUT.validB = true ∧ exUT.ndim = 2 ∧ exUT.fermi = false
    ∧ (∀ v : Int, Conj.conj v = (RingHom.id Int) v)
    ∧ (∀ p ∈ exUT.blocks, Kernels.trivialFactor.QIsoBlock (RingHom.id Int) p.2)
    ∧ (∀ p ∈ exUT.blocks, Kernels.trivialFactor.RUpperBlock p.2) := by
  refine ⟨by decide, rfl, rfl, fun _ => rfl, ?_, ?_⟩
  · intro p hp
    simp only [exUT, List.mem_cons, List.not_mem_nil, or_false] at hp
    rcases hp with rfl | rfl <;>
    · apply qiso_22 _ rfl
      intro t t' ht ht'
      have h1 : t = 0 ∨ t = 1 := by omega
      have h2 : t' = 0 ∨ t' = 1 := by omega
      rcases h1 with rfl | rfl <;> rcases h2 with rfl | rfl <;> decide
  · intro p hp
    simp only [exUT, List.mem_cons, List.not_mem_nil, or_false] at hp
    rcases hp with rfl | rfl <;> exact rupper_22 _ rfl (by decide)

/-- `Q†·Q` of `exUT` at array level: identity blocks on the two bond charges; `r`'s blocks are
    the upper-triangular input blocks -/
example : ((qrA Kernels.trivialFactor exUT).toOption.map (fun p =>
      ((tensordotBlockwise p.1.adjA p.1 [0] [1] [0] [1]).blocks.map (fun q => (q.1, q.2.data.toList)),
       p.2.blocks.map (fun q => (q.1, q.2.data.toList))))
    == some ([([(1, 0), (1, 0)], [1, 0, 0, 1]), ([(2, 0), (2, 0)], [1, 0, 0, 1])],
             [([(1, 0), (1, 0)], [1, 2, 0, 3]), ([(2, 0), (2, 0)], [5, 6, 0, 7])])) = true := by
  decide +kernel

/-- fermionic `q.dagger() @ q` (NOT covered by a theorem): for `exT` (row index dual, odd, three
    labels) it is `-1` on the odd bond charge `1` and `+1` on the even one, no labels; with ONE
    non-dual label instead there is a further global pending `-1` -/
example : ([exT, { exT with oddpos := [(3, false)] }].map (fun a =>
      (qrA Kernels.trivialFactor a).toOption.bind (fun p =>
        (Arr.matmulF p.1.daggerF p.1).toOption.map (fun y =>
          (y.blocks.map (fun q => (q.1, q.2.data.toList)), y.phases, y.oddpos))))
    == [some ([([(1, 0), (1, 0)], [-1, 0, 0, -1]), ([(2, 0), (2, 0)], [1, 0, 0, 1])], [], []),
        some ([([(1, 0), (1, 0)], [-1, 0, 0, -1]), ([(2, 0), (2, 0)], [1, 0, 0, 1])],
              [([(1, 0), (1, 0)], -1), ([(2, 0), (2, 0)], -1)], [])]) = true := by
  decide +kernel

end SymmModel.C11
