/-
  Property C04 (route independence) — chains of `n` tensors: EVERY bracketing gives the same
  result as the left-nested contraction.
  MODEL: `Arr.tensordotF` (Model/Fermi.lean), `mode = blockwise`; valid fermionic tensors of any
  rank, symmetry, sparsity, parity, pending signs; scalars as in C04c–e (`AddCommMonoid`,
  `SignRing`, `AssocP.AssocLaws`; instances `Int`, `GRat`).

  Vocabulary (Proofs/Assoc3Seg.lean, Assoc4*.lean; namespaces `Assoc3P`, `Assoc4P`):
    `Seg`            a tensor (or a contracted piece of the chain) with the positions `l`, `r` of the
                     legs of its bond to the previous resp. next piece (`[]` at the chain ends);
    `Seg.comp`       contract the right bond of one piece with the left bond of the next (C04e);
    `STree`          a bracketing: binary tree with the tensors at the leaves, in chain order;
    `STree.eval`     contract along the bracketing; `evalL S ys` the left-nested contraction
                     `(((S·y₁)·y₂)·…)`; `t.first :: t.rest` the leaf sequence of `t`;
    `STree.OK`       every leaf valid, fermionic, its two bonds disjoint and in range (`LeafOK`);
                     consecutive leaves have the same symmetry and satisfy the weak guard
                     `contractibleCommonB` on their bond (`Link`) — a condition on the leaf
                     sequence only (`ok_iff_leaves`);
    `SegEqv`         `Eqv` of the arrays (C04e) and EQUAL open-bond positions;
    `Good F La labs T`  the invariants of a contracted piece `T` from tensor `F` to tensor `La`:
                     `LeafOK T`, labels a permutation of `labs`, open legs = pruned copies of the
                     end tensors' legs (so the guard towards the neighbours holds again).

  PROVED (no `_partial`):
    `chain_bracketing`       for every bracketing `t` with `t.OK` and pairwise-distinct labels:
                             `t.eval` succeeds, the left-nested contraction of its leaves succeeds,
                             the two results are `SegEqv`, both satisfy the invariants;
    `chain_bracketings_agree` two bracketings of the same leaf sequence give `SegEqv` results,
                             hence (`chain_dense`) the same `to_dense()`, labels, charge, tables;
    `chain_bracketing_GRat`  with the driver's instances;
    `comp_keeps_invariants`, `comp_congruence`, `comp_assoc` — the three steps of the induction;
    `tdotF_swap_weak`        S5 (`C04.tdotF_swap`) under the weak guard, i.e. for contracted pieces;
    `chain_root_swap`        OPERAND ORDER at the ROOT of a bracketing (commutative scalars): with
                             `Ta`, `Tb` the results of the two subtrees, `Tb·Ta` succeeds, has the
                             labels and charge of `(node a b).eval = Ta∘Tb`, and at the address with
                             the two free parts exchanged its value is the Koszul sign of the
                             rotation times the value of `Ta∘Tb` (= value of `transposeF _ rot`).
  Operand order is treated at the ROOT only: S5 is address-wise (the swapped result has its legs
  rotated, so `Seg`-positions of the open bonds change and the blocks come in another order); a
  swap at an inner node would have to be followed by that `transposeF` to re-enter the induction,
  which needs "`transposeF` preserves `Eqv`" and S6 under the weak guard — not done.
  NOT proved: `LabelRoutes` for fully paired label lists with k ≥ 2 labels per half (task 3 of this
  round; see the report: each of the 16 merges of `netLabelsB` is of one of the two forms
  "sorted kets followed by sorted duals" / "sorted duals followed by sorted kets" only on ONE
  route, the intermediate lists of the other route are interleaved, so `resolveScan_nested` does
  not apply and a normal-form theory of the scan is needed).
-/
import SymmModel.Proofs.Assoc4Swap
import SymmModel.Props.C04e

namespace SymmModel.C04
open SymmModel SymmModel.GradedP SymmModel.TdotP SymmModel.AssocP SymmModel.Assoc3P SymmModel.Assoc4P

variable {R : Type}

/-! ## vocabulary -/

theorem leafOK_def (S : Seg R) : LeafOK S ↔ (S.arr.validB = true ∧ S.arr.fermi = true
    ∧ (S.l ++ S.r).Nodup ∧ (∀ i ∈ S.l, i < S.arr.ndim) ∧ (∀ i ∈ S.r, i < S.arr.ndim)) :=
  ⟨fun h => ⟨h.valid, h.fermi, h.nd, h.ltl, h.ltr⟩, fun ⟨a, b, c, d, e⟩ => ⟨a, b, c, d, e⟩⟩

theorem link_def (S S' : Seg R) : Link S S' ↔ (S.arr.sym = S'.arr.sym
    ∧ contractibleCommonB S.arr S'.arr S.r S'.l = true) :=
  ⟨fun h => ⟨h.sym, h.con⟩, fun ⟨a, b⟩ => ⟨a, b⟩⟩

theorem tree_defs [Zero R] [Add R] [Mul R] [Neg R] (S y : Seg R) (a b : STree R) (ys : List (Seg R)) :
    (STree.leaf S).eval = .ok S
    ∧ (STree.node a b).eval = (match a.eval, b.eval with
        | .ok s1, .ok s2 => s1.comp s2
        | .error e, _ => .error e
        | .ok _, .error e => .error e)
    ∧ evalL S [] = .ok S
    ∧ evalL S (y :: ys) = (match S.comp y with
        | .ok s => evalL s ys
        | .error e => .error e)
    ∧ (STree.leaf S).first = S ∧ (STree.node a b).first = a.first
    ∧ (STree.leaf S).rest = [] ∧ (STree.node a b).rest = a.rest ++ b.first :: b.rest
    ∧ (STree.leaf S).labels = S.arr.oddpos ∧ (STree.node a b).labels = a.labels ++ b.labels
    ∧ ((STree.leaf S).OK ↔ LeafOK S)
    ∧ ((STree.node a b).OK ↔ a.OK ∧ b.OK ∧ Link a.last b.first) :=
  ⟨rfl, rfl, rfl, rfl, rfl, rfl, rfl, rfl, rfl, rfl, Iff.rfl, Iff.rfl⟩

/-- `OK` only depends on the leaf sequence: all leaves `LeafOK`, consecutive leaves linked -/
theorem ok_iff_leaves (t : STree R) :
    t.OK ↔ LeafOK t.first ∧ linked t.first t.rest := by
  induction t with
  | leaf S => exact ⟨fun h => ⟨h, trivial⟩, fun h => h.1⟩
  | node a b iha ihb =>
    constructor
    · intro h
      exact ⟨STree.ok_first (t := STree.node a b) h, STree.linked_rest (t := STree.node a b) h⟩
    · rintro ⟨h1, h2⟩
      have key : ∀ (S y : Seg R) (xs ys : List (Seg R)), linked S (xs ++ y :: ys) →
          linked S xs ∧ Link (lastD S xs) y ∧ LeafOK y ∧ linked y ys := by
        intro S y xs ys
        induction xs generalizing S with
        | nil => exact fun h => ⟨trivial, h.1, h.2.1, h.2.2⟩
        | cons x xs ih =>
          intro h
          obtain ⟨q1, q2, q3, q4⟩ := ih x h.2.2
          exact ⟨⟨h.1, h.2.1, q1⟩, q2, q3, q4⟩
      obtain ⟨q1, q2, q3, q4⟩ := key a.first b.first a.rest b.rest h2
      rw [STree.lastD_rest] at q2
      exact ⟨iha.mpr ⟨h1, q1⟩, ihb.mpr ⟨q3, q4⟩, q2⟩

/-! ## the three steps -/

theorem comp_keeps_invariants [AddCommMonoid R] [Mul R] [Neg R] [SignRing R] [AssocLaws R]
    {F1 L1 F2 L2 T1 T2 : Seg R} {labs1 labs2 : List (Int × Bool)}
    (g1 : Good F1 L1 labs1 T1) (g2 : Good F2 L2 labs2 T2) (lk : Link L1 F2)
    (hd : (labs1 ++ labs2).Pairwise (fun x y => x.1 ≠ y.1)) :
    ∃ T, T1.comp T2 = .ok T ∧ Good F1 L2 (labs1 ++ labs2) T := comp_good g1 g2 lk hd

theorem comp_congruence [AddCommMonoid R] [Mul R] [Neg R] [SignRing R] [AssocLaws R]
    {F1 L1 F2 L2 T1 T2 T1' T2' T : Seg R} {labs1 labs2 : List (Int × Bool)}
    (g1 : Good F1 L1 labs1 T1) (g2 : Good F2 L2 labs2 T2) (lk : Link L1 F2)
    (e1 : SegEqv T1 T1') (e2 : SegEqv T2 T2') (v1 : T1'.arr.validB = true) (v2 : T2'.arr.validB = true)
    (h : T1.comp T2 = .ok T) : ∃ T', T1'.comp T2' = .ok T' ∧ SegEqv T T' :=
  comp_congr g1 g2 lk e1 e2 v1 v2 h

theorem comp_assoc [AddCommMonoid R] [Mul R] [Neg R] [SignRing R] [AssocLaws R]
    {F1 L1 F2 L2 F3 L3 T1 T2 T3 : Seg R} {labs1 labs2 labs3 : List (Int × Bool)}
    (g1 : Good F1 L1 labs1 T1) (g2 : Good F2 L2 labs2 T2) (g3 : Good F3 L3 labs3 T3)
    (lk12 : Link L1 F2) (lk23 : Link L2 F3)
    (hd : (labs1 ++ labs2 ++ labs3).Pairwise (fun x y => x.1 ≠ y.1)) :
    ∃ S12 S23 L Rr : Seg R, T1.comp T2 = .ok S12 ∧ S12.comp T3 = .ok L
      ∧ T2.comp T3 = .ok S23 ∧ T1.comp S23 = .ok Rr ∧ SegEqv Rr L :=
  assoc_good g1 g2 g3 lk12 lk23 hd

/-! ## the theorem -/

/-- **chain_bracketing.**  A chain of `n` valid fermionic tensors (consecutive ones linked under the
    weak guard, each tensor's two bonds disjoint, labels pairwise distinct), any bracketing `t`:
    contracting along `t` succeeds, the left-nested contraction of the leaf sequence succeeds, and
    the two results are equivalent (`Eqv` arrays, equal open-bond positions); both are valid,
    carry a permutation of all labels, and their open legs are pruned copies of the end tensors'. -/
theorem chain_bracketing [AddCommMonoid R] [Mul R] [Neg R] [SignRing R] [AssocLaws R]
    (t : STree R) (hok : t.OK) (hd : t.labels.Pairwise (fun x y => x.1 ≠ y.1)) :
    ∃ T TL, t.eval = .ok T ∧ evalL t.first t.rest = .ok TL ∧ SegEqv T TL
      ∧ Good t.first t.last t.labels T ∧ Good t.first t.last t.labels TL := by
  obtain ⟨T, TL, e1, g1, e2, g2, h⟩ := tree_eqv_leftnested t hok hd
  exact ⟨T, TL, e1, e2, h, g1, g2⟩

/-- **chain_bracketings_agree.**  Two bracketings of the same leaf sequence. -/
theorem chain_bracketings_agree [AddCommMonoid R] [Mul R] [Neg R] [SignRing R] [AssocLaws R]
    (t t' : STree R) (hok : t.OK) (hd : t.labels.Pairwise (fun x y => x.1 ≠ y.1))
    (h1 : t'.first = t.first) (h2 : t'.rest = t.rest) :
    ∃ T T', t.eval = .ok T ∧ t'.eval = .ok T' ∧ SegEqv T' T ∧ T.arr.validB = true
      ∧ T'.arr.validB = true := by
  have hok' : t'.OK := by
    rw [ok_iff_leaves, h1, h2]; exact (ok_iff_leaves t).mp hok
  have hd' : OddposP.LabelsDistinct t'.labels := by
    rw [STree.labels_eq, h1, h2, ← STree.labels_eq]; exact hd
  obtain ⟨T, TL, e1, g1, e2, _, h⟩ := tree_eqv_leftnested t hok hd
  obtain ⟨T', TL', e1', g1', e2', _, h'⟩ := tree_eqv_leftnested t' hok' hd'
  rw [h1, h2, e2] at e2'
  obtain rfl := Except.ok.inj e2'
  exact ⟨T, T', e1, e1', h'.trans h.symm, g1.ok.valid, g1'.ok.valid⟩

/-- … hence the same dense array, labels, charge and index tables -/
theorem chain_dense [AddCommMonoid R] [Mul R] [Neg R] [SignRing R] [AssocLaws R]
    (t t' : STree R) (T T' : Seg R) (hok : t.OK) (hd : t.labels.Pairwise (fun x y => x.1 ≠ y.1))
    (h1 : t'.first = t.first) (h2 : t'.rest = t.rest)
    (e : t.eval = .ok T) (e' : t'.eval = .ok T') :
    T'.arr.toDenseF = T.arr.toDenseF ∧ T'.arr.oddpos = T.arr.oddpos ∧ T'.arr.charge = T.arr.charge
      ∧ T'.arr.indices = T.arr.indices ∧ T'.l = T.l ∧ T'.r = T.r := by
  obtain ⟨U, U', d, d', h, _, v'⟩ := chain_bracketings_agree t t' hok hd h1 h2
  rw [e] at d
  obtain rfl := Except.ok.inj d
  rw [e'] at d'
  obtain rfl := Except.ok.inj d'
  exact ⟨h.1.toDenseF v', h.1.oddpos, h.1.charge, h.1.indices, h.2.1, h.2.2⟩

/-- `chain_bracketing` with exactly the instances the driver is compiled with -/
theorem chain_bracketing_GRat (t : STree GRat) (hok : t.OK)
    (hd : t.labels.Pairwise (fun x y => x.1 ≠ y.1)) :
    ∃ T TL, @STree.eval GRat GRat.instZero GRat.instAdd GRat.instMul GRat.instNeg t = .ok T
      ∧ @evalL GRat GRat.instZero GRat.instAdd GRat.instMul GRat.instNeg t.first t.rest = .ok TL
      ∧ @SegEqv GRat GRat.instZero GRat.instNeg T TL
      ∧ @Arr.toDenseF GRat GRat.instZero GRat.instNeg T.arr
          = @Arr.toDenseF GRat GRat.instZero GRat.instNeg TL.arr := by
  obtain ⟨T, TL, e1, g1, e2, _, h⟩ :=
    @tree_eqv_leftnested GRat C02.addCommMonoidGRat GRat.instMul GRat.instNeg C03.signRingGRat
      assocLawsGRat t hok hd
  exact ⟨T, TL, e1, e2, h,
    @Eqv.toDenseF GRat C02.addCommMonoidGRat GRat.instMul GRat.instNeg C03.signRingGRat _ _ h.1
      g1.ok.valid⟩

/-! ## operand order -/

/-- **S5 under the weak guard** (same statement as `C04.tdotF_swap`, `contractibleCommonB` instead of
    `contractibleB`) -/
theorem tdotF_swap_weak [AddCommMonoid R] [Mul R] [Neg R] [SignRing R] (a b c : Arr R)
    (xa xb : List Nat) (hmul : ∀ x y : R, x * y = y * x)
    (ha : a.validB = true) (hb : b.validB = true) (hfa : a.fermi = true) (hfb : b.fermi = true)
    (hadm : tdotAdmissibleCommonB a b xa xb = true)
    (hd : (a.oddpos ++ b.oddpos).Pairwise (fun x y => x.1 ≠ y.1))
    (hc : tdF a b xa xb = .ok c) :
    ∃ c', tdF b a xb xa = .ok c'
      ∧ c'.oddpos = c.oddpos ∧ c'.charge = c.charge ∧ c'.sym = c.sym ∧ c'.fermi = c.fermi
      ∧ ∀ (L Rr : Sector) (oL oR : List Nat), L.length = (freeAxes a.ndim xa).length →
          Rr.length = (freeAxes b.ndim xb).length → oL.length = (freeAxes a.ndim xa).length →
          oR.length = (freeAxes b.ndim xb).length →
          inBox (Arr.blockShapeD (without a.indices xa ++ without b.indices xb) (L ++ Rr))
            (oL ++ oR) = true →
          c'.elem (Rr ++ L) (oR ++ oL)
            = Lazy.sgnI (koszul ((L ++ Rr).map a.sym.parity)
                (some ((List.range Rr.length).map (L.length + ·) ++ List.range L.length)))
                (c.elem (L ++ Rr) (oL ++ oR)) :=
  tdotF_swap_w a b c xa xb hmul (AdmW.of ha hb hfa hfb hadm) hd hc

/-- **chain_root_swap.**  Contraction order below the root arbitrary, operand order at the root
    reversed. -/
theorem chain_root_swap [AddCommMonoid R] [Mul R] [Neg R] [SignRing R] [AssocLaws R]
    (hmul : ∀ x y : R, x * y = y * x) (a b : STree R)
    (hok : (STree.node a b).OK) (hd : (a.labels ++ b.labels).Pairwise (fun x y => x.1 ≠ y.1)) :
    ∃ Ta Tb T c', a.eval = .ok Ta ∧ b.eval = .ok Tb ∧ (STree.node a b).eval = .ok T
      ∧ tdF Ta.arr Tb.arr Ta.r Tb.l = .ok T.arr
      ∧ tdF Tb.arr Ta.arr Tb.l Ta.r = .ok c'
      ∧ c'.oddpos = T.arr.oddpos ∧ c'.charge = T.arr.charge ∧ c'.sym = T.arr.sym
      ∧ ∀ (L Rr : Sector) (oL oR : List Nat), L.length = (freeAxes Ta.arr.ndim Ta.r).length →
          Rr.length = (freeAxes Tb.arr.ndim Tb.l).length →
          oL.length = (freeAxes Ta.arr.ndim Ta.r).length →
          oR.length = (freeAxes Tb.arr.ndim Tb.l).length →
          inBox (Arr.blockShapeD (without Ta.arr.indices Ta.r ++ without Tb.arr.indices Tb.l) (L ++ Rr))
            (oL ++ oR) = true →
          c'.elem (Rr ++ L) (oR ++ oL)
            = Lazy.sgnI (koszul ((L ++ Rr).map Ta.arr.sym.parity)
                (some ((List.range Rr.length).map (L.length + ·) ++ List.range L.length)))
                (T.arr.elem (L ++ Rr) (oL ++ oR)) :=
  root_swap hmul a b hok hd

/-! ## non-vacuity: the odd chain `gA – cB – cC – cD` of C04e as segments -/

open SymmModel.C03 in
def sA : Seg Int := ⟨gA, [], [2]⟩
def sB : Seg Int := ⟨cB, [0], [2]⟩
def sC : Seg Int := ⟨cC, [0], [1]⟩
def sD : Seg Int := ⟨cD, [0], []⟩

/-- the bracketing `(A·B)·(C·D)` -/
def exTree : STree Int := .node (.node (.leaf sA) (.leaf sB)) (.node (.leaf sC) (.leaf sD))
/-- the bracketing `A·((B·C)·D)` -/
def exTree' : STree Int := .node (.leaf sA) (.node (.node (.leaf sB) (.leaf sC)) (.leaf sD))

theorem exTree_ok : exTree.OK ∧ exTree.labels.Pairwise (fun x y => x.1 ≠ y.1)
    ∧ exTree'.first = exTree.first ∧ exTree'.rest = exTree.rest := by
  refine ⟨⟨⟨⟨by decide +kernel, by decide +kernel, by decide, by decide, by decide⟩,
      ⟨by decide +kernel, by decide +kernel, by decide, by decide, by decide⟩,
      ⟨by decide, by decide +kernel⟩⟩,
    ⟨⟨by decide +kernel, by decide +kernel, by decide, by decide, by decide⟩,
      ⟨by decide +kernel, by decide +kernel, by decide, by decide, by decide⟩,
      ⟨by decide, by decide +kernel⟩⟩,
    ⟨by decide, by decide +kernel⟩⟩, by decide, rfl, rfl⟩

def segOf (r : Except Err (Seg Int)) : Seg Int :=
  match r with
  | .ok s => s
  | .error _ => ⟨default, [], []⟩

/-- a sanity instance of the conclusion: the two bracketings and the left-nested contraction give
    the same labels, open bonds and values -/
example :
    ([segOf exTree.eval, segOf exTree'.eval, segOf (evalL exTree.first exTree.rest)].map (fun s =>
      (s.arr.oddpos, s.l, s.r, s.arr.elem [(1,0),(0,0),(0,0),(1,0)] [0,0,0,0],
        s.arr.elem [(0,0),(1,0),(0,0),(1,0)] [1,1,0,0])))
      = List.replicate 3 ([(5, true), (1, false), (3, false), (7, false)], [], [], 140, 280) := by
  decide +kernel

example : ∀ x y : Int, x * y = y * x := Int.mul_comm

end SymmModel.C04
