/-
  Property C04 (route independence) — S7 under the WEAK guard on every call, congruence of the
  contraction, and chains of four tensors: all five bracketings agree.
  MODEL: `Arr.tensordotF` (Model/Fermi.lean), `mode = blockwise`; valid fermionic operands of any
  rank, symmetry, sparsity, parity, pending signs; scalars as in C04c/C04d.

  WHY.  C04c/C04d prove S7 for three operands whose bonds satisfy the documented guard
  `contractibleB` (equal charge tables).  An intermediate result has PRUNED tables, so S7 could not
  be applied to it.  Here the first-level guards are weakened to `contractibleCommonB` (C04c:
  opposite directions, equal sizes on the charges both tables list), which intermediate results
  satisfy (`guard_after_left/right`), and validity of a result is re-proved under that guard
  (`tdotF_valid_common`; only the directions matter).

  Vocabulary (Proofs/Assoc3*.lean, namespace `SymmModel.Assoc3P`):
    `Eqv X X'`   same symmetry, kind, charge, labels, index tables, same SET of stored sectors, and
                 equal values at every offset of every stored block — equality up to block order
                 and up to the split between stored numbers and pending signs (`eqv_def`);
                 an equivalence relation (`eqv_equivalence`) implying equal `to_dense()`
                 (`eqv_toDenseF`);
    `tdF X Y xa xb`  = `X.tensordotF Y (.pair xa xb) .blockwise`.

  PROVED (no `_partial`):
    `tdotF_assoc_weak`     S7 in full (chains and triangles, legs anywhere) with weak guards on all
                           three bonds — same conclusion as `C04.tdotF_assoc_labels`;
    `tdotF_assoc_weak_eqv` the same as `Eqv c2 c1`;
    `tdotF_valid_common`   a successful call under the weak guard returns a valid fermionic array;
    `guard_after_left/right`  the guard of the next call in a chain;
    `tdotF_congr_eqv`      CONGRUENCE: equivalent operands give equivalent results (and the second
                           call succeeds);
    `chain4_bracketings`   `A·B·C·D` with distinct labels: the twelve calls of the five bracketings
                           `((AB)C)D`, `(A(BC))D`, `(AB)(CD)`, `A((BC)D)`, `A(B(CD))` succeed and the
                           five results are pairwise `Eqv`; `chain4_dense`: same `to_dense()`.
  The axis lists of `(A(BC))D` and `A((BC)D)` are those of `((AB)C)D` resp. `A(B(CD))`: equivalent
  intermediates have IDENTICAL index tables, hence the same leg positions.
  TOWARDS `n` TENSORS (`segment_assoc`): a chain segment is an array with the positions of the
  legs of its two open bonds (`Seg`); `Seg.comp` contracts the right bond of one segment with the
  left bond of the next and computes the open bonds of the result.  Composition is associative:
  `(S1∘S2)∘S3` and `S1∘(S2∘S3)` both succeed, their arrays are `Eqv`, and their open-bond positions
  are EQUAL lists.
  NOT proved: the statement for arbitrary bracketing trees over a list of `n` tensors.  Missing is
  only the induction over trees, with the invariants of a composed segment that make
  `segment_assoc`/`tdotF_congr_eqv` applicable again: validity and label permutation (`call_pack`),
  the guard towards the neighbouring segment (`guard_after_left/right`: its open legs are pruned
  copies of the end tensors' legs), and disjointness/range of the two open-bond position lists.
-/
import SymmModel.Proofs.Assoc3Seg
import SymmModel.Props.C04d

namespace SymmModel.C04
open SymmModel SymmModel.GradedP SymmModel.TdotP SymmModel.RoutesP SymmModel.AssocP SymmModel.Assoc3P
open SymmModel.Lazy (sgnI)

variable {R : Type}

/-! ## the equivalence -/

theorem eqv_def [Zero R] [Neg R] (X X' : Arr R) :
    Eqv X X' ↔ (X.sym = X'.sym ∧ X.fermi = X'.fermi ∧ X.charge = X'.charge ∧ X.oddpos = X'.oddpos
      ∧ X.indices = X'.indices ∧ (∀ s, s ∈ X.sectors ↔ s ∈ X'.sectors)
      ∧ ∀ (s : Sector) (o : List Nat),
          (s ∈ X.sectors → inBox (Arr.blockShapeD X.indices s) o = true) → X.elem s o = X'.elem s o) :=
  ⟨fun h => ⟨h.sym, h.fermi, h.charge, h.oddpos, h.indices, h.sectors, h.elem⟩,
   fun ⟨a, b, c, d, e, f, g⟩ => ⟨a, b, c, d, e, f, g⟩⟩

theorem eqv_equivalence [Zero R] [Neg R] :
    (∀ X : Arr R, Eqv X X) ∧ (∀ X Y : Arr R, Eqv X Y → Eqv Y X)
      ∧ (∀ X Y Z : Arr R, Eqv X Y → Eqv Y Z → Eqv X Z) :=
  ⟨Eqv.refl, fun _ _ => Eqv.symm, fun _ _ _ => Eqv.trans⟩

theorem eqv_toDenseF [AddCommMonoid R] [Mul R] [Neg R] [SignRing R] {X X' : Arr R} (h : Eqv X X')
    (hv : X.validB = true) : X.toDenseF = X'.toDenseF := h.toDenseF hv

/-! ## calls under the weak guard -/

/-- a successful call under the weak guard returns a valid fermionic array -/
theorem tdotF_valid_common [AddMonoid R] [Mul R] [Neg R] [SignRing R] (a b c : Arr R)
    (xa xb : List Nat)
    (ha : a.validB = true) (hb : b.validB = true) (hfa : a.fermi = true) (hfb : b.fermi = true)
    (hadm : tdotAdmissibleCommonB a b xa xb = true)
    (h : tdF a b xa xb = .ok c) : c.validB = true ∧ c.fermi = true := by
  have W := AdmW.of ha hb hfa hfb hadm
  have hv := ValidP.tensordotF_valid_of_opposite .blockwise ValidP.tdotASpec_blockwise a b c xa xb
    ((ValidP.validB_iff a).mp ha) ((ValidP.validB_iff b).mp hb) hfa hfb W.sym
    (opposite_of_commonB W.con) W.nA W.nB W.ltA W.ltB h
  refine ⟨(ValidP.validB_iff _).mpr hv, ?_⟩
  have h' := h
  unfold tdF at h'
  rw [tensordotF_eq_core_w a b xa xb W] at h'
  cases hm : OddposP.mergeOddpos a.parity a.oddpos b.oddpos with
  | error e => rw [hm] at h'; cases h'
  | ok r =>
    rw [hm] at h'
    simp only [Except.map, Except.ok.injEq] at h'
    subst h'
    rw [(finish_fields _ r).2.2.1, (coreT_frame_w a b xa xb W).fermi, hfa]

/-- the guard of `(A·B, C)` in a chain: from weak guards of `(A, B)` and `(B, C)` -/
theorem guard_after_left [AddCommMonoid R] [Mul R] [Neg R] [SignRing R] [AssocLaws R] (A B C AB : Arr R)
    (xa xb1 xb2 xc : List Nat)
    (hA : A.validB = true) (hB : B.validB = true) (hC : C.validB = true)
    (hfA : A.fermi = true) (hfB : B.fermi = true) (hfC : C.fermi = true)
    (h1 : tdotAdmissibleCommonB A B xa xb1 = true) (h2 : tdotAdmissibleCommonB B C xb2 xc = true)
    (hn : (xb1 ++ xb2).Nodup)
    (hd : (A.oddpos ++ B.oddpos).Pairwise (fun x y => x.1 ≠ y.1))
    (e : tdF A B xa xb1 = .ok AB) :
    tdotAdmissibleCommonB AB C (AssocP.axesAB A.ndim B.ndim xa xb1 xb2) xc = true := by
  have WAB := AdmW.of hA hB hfA hfB h1
  have WBC := AdmW.of hB hC hfB hfC h2
  obtain ⟨Z, ph, eZ, I, _⟩ := call_pack A B xa xb1 WAB hd
  unfold tdF at e
  rw [eZ] at e
  obtain rfl := Except.ok.inj e
  exact admW_toB (admW_after_left I WAB WBC (Mid.of hn (by
    intro i hi
    rcases List.mem_append.mp hi with h | h
    · exact WAB.ltB i h
    · exact WBC.ltA i h)))

/-- the guard of `(A, B·C)` in a chain -/
theorem guard_after_right [AddCommMonoid R] [Mul R] [Neg R] [SignRing R] [AssocLaws R] (A B C BC : Arr R)
    (xa xb1 xb2 xc : List Nat)
    (hA : A.validB = true) (hB : B.validB = true) (hC : C.validB = true)
    (hfA : A.fermi = true) (hfB : B.fermi = true) (hfC : C.fermi = true)
    (h1 : tdotAdmissibleCommonB A B xa xb1 = true) (h2 : tdotAdmissibleCommonB B C xb2 xc = true)
    (hn : (xb1 ++ xb2).Nodup)
    (hd : (B.oddpos ++ C.oddpos).Pairwise (fun x y => x.1 ≠ y.1))
    (e : tdF B C xb2 xc = .ok BC) :
    tdotAdmissibleCommonB A BC xa (AssocP.axesBC B.ndim xb1 xb2) = true := by
  have WAB := AdmW.of hA hB hfA hfB h1
  have WBC := AdmW.of hB hC hfB hfC h2
  obtain ⟨Z, ph, eZ, I, _⟩ := call_pack B C xb2 xc WBC hd
  unfold tdF at e
  rw [eZ] at e
  obtain rfl := Except.ok.inj e
  exact admW_toB (admW_after_right I WAB (Mid.of hn (by
    intro i hi
    rcases List.mem_append.mp hi with h | h
    · exact WAB.ltB i h
    · exact WBC.ltA i h)))

/-! ## S7 with weak guards -/

/-- **S7 in full with the weak guard on all three bonds** (applicable to intermediate results) -/
theorem tdotF_assoc_weak [AddCommMonoid R] [Mul R] [Neg R] [SignRing R] [AssocLaws R]
    (A B C : Arr R) (xa1 xa3 xb1 xb2 xc2 xc3 : List Nat)
    (hA : A.validB = true) (hB : B.validB = true) (hC : C.validB = true)
    (hfA : A.fermi = true) (hfB : B.fermi = true) (hfC : C.fermi = true)
    (h1 : tdotAdmissibleCommonB A B xa1 xb1 = true) (h2 : tdotAdmissibleCommonB B C xb2 xc2 = true)
    (h3 : contractibleCommonB A C xa3 xc3 = true)
    (hnA : (xa1 ++ xa3).Nodup) (hnB : (xb1 ++ xb2).Nodup) (hnC : (xc2 ++ xc3).Nodup)
    (hltA : ∀ i ∈ xa3, i < A.ndim) (hltC : ∀ i ∈ xc3, i < C.ndim)
    (hL : Assoc2P.LabelRoutes A.parity B.parity A.oddpos B.oddpos C.oddpos) :
    ∃ AB BC c1 c2 : Arr R,
      tdF A B xa1 xb1 = .ok AB
      ∧ tdF AB C (Assoc2P.axesAB A.ndim B.ndim xa1 xa3 xb1 xb2) (xc3 ++ xc2) = .ok c1
      ∧ tdF B C xb2 xc2 = .ok BC
      ∧ tdF A BC (xa1 ++ xa3) (Assoc2P.axesBC B.ndim C.ndim xb1 xb2 xc2 xc3) = .ok c2
      ∧ c2.oddpos = c1.oddpos ∧ c2.charge = c1.charge ∧ c2.sym = c1.sym ∧ c2.fermi = c1.fermi
      ∧ (∀ s, s ∈ c1.sectors ↔ ∃ t, Assoc2P.IsTriple A B C xa1 xa3 xb1 xb2 xc2 xc3 s t)
      ∧ (∀ s, s ∈ c2.sectors ↔ s ∈ c1.sectors)
      ∧ c2.indices = c1.indices
      ∧ c1.indices = dropUnused (permuted A.indices (freeAxes A.ndim (xa1 ++ xa3))
          ++ (permuted B.indices (freeAxes B.ndim (xb1 ++ xb2))
            ++ permuted C.indices (freeAxes C.ndim (xc2 ++ xc3)))) c1.sectors
      ∧ ∀ (LA LM LC : Sector) (oA oM oC : List Nat),
          Assoc2P.FreeAddr A B C xa1 xa3 xb1 xb2 xc2 xc3 LA LM LC oA oM oC →
          c2.elem (LA ++ LM ++ LC) (oA ++ oM ++ oC) = c1.elem (LA ++ LM ++ LC) (oA ++ oM ++ oC) :=
  tdotF_assoc_w A B C xa1 xa3 xb1 xb2 xc2 xc3 hA hB hC hfA hfB hfC h1 h2 h3 hnA hnB hnC hltA hltC hL

/-- … as an equivalence of the two results -/
theorem tdotF_assoc_weak_eqv [AddCommMonoid R] [Mul R] [Neg R] [SignRing R] [AssocLaws R]
    (A B C : Arr R) (xa1 xa3 xb1 xb2 xc2 xc3 : List Nat)
    (hA : A.validB = true) (hB : B.validB = true) (hC : C.validB = true)
    (hfA : A.fermi = true) (hfB : B.fermi = true) (hfC : C.fermi = true)
    (h1 : tdotAdmissibleCommonB A B xa1 xb1 = true) (h2 : tdotAdmissibleCommonB B C xb2 xc2 = true)
    (h3 : contractibleCommonB A C xa3 xc3 = true)
    (hnA : (xa1 ++ xa3).Nodup) (hnB : (xb1 ++ xb2).Nodup) (hnC : (xc2 ++ xc3).Nodup)
    (hltA : ∀ i ∈ xa3, i < A.ndim) (hltC : ∀ i ∈ xc3, i < C.ndim)
    (hL : Assoc2P.LabelRoutes A.parity B.parity A.oddpos B.oddpos C.oddpos) :
    ∃ AB BC c1 c2 : Arr R,
      tdF A B xa1 xb1 = .ok AB
      ∧ tdF AB C (Assoc2P.axesAB A.ndim B.ndim xa1 xa3 xb1 xb2) (xc3 ++ xc2) = .ok c1
      ∧ tdF B C xb2 xc2 = .ok BC
      ∧ tdF A BC (xa1 ++ xa3) (Assoc2P.axesBC B.ndim C.ndim xb1 xb2 xc2 xc3) = .ok c2
      ∧ Eqv c2 c1 :=
  assoc_eqv_w A B C xa1 xa3 xb1 xb2 xc2 xc3 (AdmW.of hA hB hfA hfB h1) (AdmW.of hB hC hfB hfC h2) h3
    hnA hnB hnC hltA hltC hL

/-! ## congruence -/

/-- **congruence of `tensordotF`**: replacing the operands by equivalent valid arrays gives an
    equivalent result; the call with the replaced operands succeeds. -/
theorem tdotF_congr_eqv [AddCommMonoid R] [Mul R] [Neg R] [SignRing R] (X X' Y Y' Z : Arr R)
    (xa xb : List Nat)
    (hX : X.validB = true) (hY : Y.validB = true) (hfX : X.fermi = true) (hfY : Y.fermi = true)
    (hadm : tdotAdmissibleCommonB X Y xa xb = true)
    (eX : Eqv X X') (eY : Eqv Y Y') (hX' : X'.validB = true) (hY' : Y'.validB = true)
    (e : tdF X Y xa xb = .ok Z) :
    ∃ Z', tdF X' Y' xa xb = .ok Z' ∧ Eqv Z Z' :=
  tdotF_congr (AdmW.of hX hY hfX hfY hadm) eX eY hX' hY' Z e

/-! ## towards chains of `n` tensors -/

/-- **segment_assoc.**  Composition of chain segments (array + positions of the two open bonds)
    is associative: both bracketings succeed, the arrays are equivalent and the open-bond
    positions coincide. -/
theorem segment_assoc [AddCommMonoid R] [Mul R] [Neg R] [SignRing R] [AssocLaws R] (S1 S2 S3 : Seg R)
    (h1 : S1.arr.validB = true) (h2 : S2.arr.validB = true) (h3 : S3.arr.validB = true)
    (f1 : S1.arr.fermi = true) (f2 : S2.arr.fermi = true) (f3 : S3.arr.fermi = true)
    (g12 : tdotAdmissibleCommonB S1.arr S2.arr S1.r S2.l = true)
    (g23 : tdotAdmissibleCommonB S2.arr S3.arr S2.r S3.l = true)
    (hn1 : (S1.l ++ S1.r).Nodup) (hl1 : ∀ i ∈ S1.l, i < S1.arr.ndim)
    (hn2 : (S2.l ++ S2.r).Nodup)
    (hn3 : (S3.l ++ S3.r).Nodup) (hr3 : ∀ i ∈ S3.r, i < S3.arr.ndim)
    (hd : (S1.arr.oddpos ++ S2.arr.oddpos ++ S3.arr.oddpos).Pairwise (fun x y => x.1 ≠ y.1)) :
    ∃ S12 S23 L Rr : Seg R, S1.comp S2 = .ok S12 ∧ S12.comp S3 = .ok L
      ∧ S2.comp S3 = .ok S23 ∧ S1.comp S23 = .ok Rr
      ∧ Eqv Rr.arr L.arr ∧ Rr.l = L.l ∧ Rr.r = L.r :=
  seg_assoc S1 S2 S3 (AdmW.of h1 h2 f1 f2 g12) (AdmW.of h2 h3 f2 f3 g23) hn1 hl1 hn2 hn3 hr3 hd

theorem seg_comp_def [Zero R] [Add R] [Mul R] [Neg R] (S1 S2 : Seg R) :
    S1.comp S2 = (tdF S1.arr S2.arr S1.r S2.l).map (fun z =>
      ⟨z, positions (freeAxes S1.arr.ndim S1.r) S1.l,
        AssocP.axesAB S1.arr.ndim S2.arr.ndim S1.r S2.l S2.r⟩) := rfl

open SymmModel.C03 in
/-- non-vacuity: the segments `(gA, [], [2])`, `(cB, [0], [2])`, `(cC, [0], [1])` of the chain below -/
example : (([] : List Nat) ++ [2]).Nodup ∧ ([0] ++ [2] : List Nat).Nodup ∧ ([0] ++ [1] : List Nat).Nodup
    ∧ (∀ i ∈ ([] : List Nat), i < gA.ndim) ∧ (∀ i ∈ [1], i < cC.ndim)
    ∧ (gA.oddpos ++ cB.oddpos ++ cC.oddpos).Pairwise (fun x y => x.1 ≠ y.1) := by decide +kernel

/-! ## four tensors in a chain -/

/-- **chain4_bracketings.**  Valid fermionic `A, B, C, D` with pairwise-distinct labels, bonds
    `A–B` (`xa ~ xb1`), `B–C` (`xb2 ~ xc1`), `C–D` (`xc2 ~ xd`) under the weak guard, the two bonds
    of `B` and of `C` disjoint.  All calls of the five bracketings succeed and the five results
    `T1 = ((AB)C)D`, `T2 = (A(BC))D`, `T3 = (AB)(CD)`, `T4 = A((BC)D)`, `T5 = A(B(CD))` are
    equivalent (`Eqv`); `T1` is valid. -/
theorem chain4_bracketings [AddCommMonoid R] [Mul R] [Neg R] [SignRing R] [AssocLaws R]
    (A B C D : Arr R) (xa xb1 xb2 xc1 xc2 xd : List Nat)
    (hA : A.validB = true) (hB : B.validB = true) (hC : C.validB = true) (hD : D.validB = true)
    (hfA : A.fermi = true) (hfB : B.fermi = true) (hfC : C.fermi = true) (hfD : D.fermi = true)
    (h1 : tdotAdmissibleCommonB A B xa xb1 = true) (h2 : tdotAdmissibleCommonB B C xb2 xc1 = true)
    (h3 : tdotAdmissibleCommonB C D xc2 xd = true)
    (hnB : (xb1 ++ xb2).Nodup) (hnC : (xc1 ++ xc2).Nodup)
    (hd : (A.oddpos ++ B.oddpos ++ C.oddpos ++ D.oddpos).Pairwise (fun x y => x.1 ≠ y.1)) :
    ∃ AB BC CD ABC1 ABC2 BCD1 BCD2 T1 T2 T3 T4 T5 : Arr R,
      tdF A B xa xb1 = .ok AB ∧ tdF B C xb2 xc1 = .ok BC ∧ tdF C D xc2 xd = .ok CD
      ∧ tdF AB C (AssocP.axesAB A.ndim B.ndim xa xb1 xb2) xc1 = .ok ABC1
      ∧ tdF A BC xa (AssocP.axesBC B.ndim xb1 xb2) = .ok ABC2
      ∧ tdF BC D (AssocP.axesAB B.ndim C.ndim xb2 xc1 xc2) xd = .ok BCD1
      ∧ tdF B CD xb2 (AssocP.axesBC C.ndim xc1 xc2) = .ok BCD2
      ∧ tdF ABC1 D (AssocP.axesAB AB.ndim C.ndim (AssocP.axesAB A.ndim B.ndim xa xb1 xb2) xc1 xc2) xd
          = .ok T1
      ∧ tdF ABC2 D (AssocP.axesAB AB.ndim C.ndim (AssocP.axesAB A.ndim B.ndim xa xb1 xb2) xc1 xc2) xd
          = .ok T2
      ∧ tdF AB CD (AssocP.axesAB A.ndim B.ndim xa xb1 xb2) (AssocP.axesBC C.ndim xc1 xc2) = .ok T3
      ∧ tdF A BCD1 xa (AssocP.axesBC B.ndim xb1 xb2) = .ok T4
      ∧ tdF A BCD2 xa (AssocP.axesBC B.ndim xb1 xb2) = .ok T5
      ∧ Eqv T2 T1 ∧ Eqv T3 T1 ∧ Eqv T4 T1 ∧ Eqv T5 T1 ∧ T1.validB = true :=
  chain4 A B C D xa xb1 xb2 xc1 xc2 xd (AdmW.of hA hB hfA hfB h1) (AdmW.of hB hC hfB hfC h2)
    (AdmW.of hC hD hfC hfD h3) hnB hnC hd

/-- **chain4_dense.**  For GIVEN results of the five bracketings: the same `to_dense()`. -/
theorem chain4_dense [AddCommMonoid R] [Mul R] [Neg R] [SignRing R] [AssocLaws R]
    (A B C D AB BC CD ABC1 ABC2 BCD1 BCD2 T1 T2 T3 T4 T5 : Arr R) (xa xb1 xb2 xc1 xc2 xd : List Nat)
    (hA : A.validB = true) (hB : B.validB = true) (hC : C.validB = true) (hD : D.validB = true)
    (hfA : A.fermi = true) (hfB : B.fermi = true) (hfC : C.fermi = true) (hfD : D.fermi = true)
    (h1 : tdotAdmissibleCommonB A B xa xb1 = true) (h2 : tdotAdmissibleCommonB B C xb2 xc1 = true)
    (h3 : tdotAdmissibleCommonB C D xc2 xd = true)
    (hnB : (xb1 ++ xb2).Nodup) (hnC : (xc1 ++ xc2).Nodup)
    (hd : (A.oddpos ++ B.oddpos ++ C.oddpos ++ D.oddpos).Pairwise (fun x y => x.1 ≠ y.1))
    (e1 : tdF A B xa xb1 = .ok AB) (e2 : tdF B C xb2 xc1 = .ok BC) (e3 : tdF C D xc2 xd = .ok CD)
    (e4 : tdF AB C (AssocP.axesAB A.ndim B.ndim xa xb1 xb2) xc1 = .ok ABC1)
    (e5 : tdF A BC xa (AssocP.axesBC B.ndim xb1 xb2) = .ok ABC2)
    (e6 : tdF BC D (AssocP.axesAB B.ndim C.ndim xb2 xc1 xc2) xd = .ok BCD1)
    (e7 : tdF B CD xb2 (AssocP.axesBC C.ndim xc1 xc2) = .ok BCD2)
    (e8 : tdF ABC1 D (AssocP.axesAB AB.ndim C.ndim (AssocP.axesAB A.ndim B.ndim xa xb1 xb2) xc1 xc2) xd
      = .ok T1)
    (e9 : tdF ABC2 D (AssocP.axesAB AB.ndim C.ndim (AssocP.axesAB A.ndim B.ndim xa xb1 xb2) xc1 xc2) xd
      = .ok T2)
    (e10 : tdF AB CD (AssocP.axesAB A.ndim B.ndim xa xb1 xb2) (AssocP.axesBC C.ndim xc1 xc2) = .ok T3)
    (e11 : tdF A BCD1 xa (AssocP.axesBC B.ndim xb1 xb2) = .ok T4)
    (e12 : tdF A BCD2 xa (AssocP.axesBC B.ndim xb1 xb2) = .ok T5) :
    T2.toDenseF = T1.toDenseF ∧ T3.toDenseF = T1.toDenseF ∧ T4.toDenseF = T1.toDenseF
      ∧ T5.toDenseF = T1.toDenseF ∧ T1.oddpos = T5.oddpos ∧ T1.charge = T5.charge
      ∧ T1.indices = T5.indices := by
  obtain ⟨AB', BC', CD', ABC1', ABC2', BCD1', BCD2', T1', T2', T3', T4', T5', d1, d2, d3, d4, d5, d6, d7,
    d8, d9, d10, d11, d12, q2, q3, q4, q5, hv⟩ :=
    chain4_bracketings A B C D xa xb1 xb2 xc1 xc2 xd hA hB hC hD hfA hfB hfC hfD h1 h2 h3 hnB hnC hd
  rw [e1] at d1; obtain rfl := Except.ok.inj d1
  rw [e2] at d2; obtain rfl := Except.ok.inj d2
  rw [e3] at d3; obtain rfl := Except.ok.inj d3
  rw [e4] at d4; obtain rfl := Except.ok.inj d4
  rw [e5] at d5; obtain rfl := Except.ok.inj d5
  rw [e6] at d6; obtain rfl := Except.ok.inj d6
  rw [e7] at d7; obtain rfl := Except.ok.inj d7
  rw [e8] at d8; obtain rfl := Except.ok.inj d8
  rw [e9] at d9; obtain rfl := Except.ok.inj d9
  rw [e10] at d10; obtain rfl := Except.ok.inj d10
  rw [e11] at d11; obtain rfl := Except.ok.inj d11
  rw [e12] at d12; obtain rfl := Except.ok.inj d12
  exact ⟨(q2.symm.toDenseF hv).symm, (q3.symm.toDenseF hv).symm, (q4.symm.toDenseF hv).symm,
    (q5.symm.toDenseF hv).symm, q5.oddpos.symm, q5.charge.symm, q5.indices.symm⟩

/-- `chain4_bracketings` with exactly the instances the driver is compiled with (equivalence of the
    two outermost bracketings and of their dense forms) -/
theorem chain4_GRat (A B C D : Arr GRat) (xa xb1 xb2 xc1 xc2 xd : List Nat)
    (hA : A.validB = true) (hB : B.validB = true) (hC : C.validB = true) (hD : D.validB = true)
    (hfA : A.fermi = true) (hfB : B.fermi = true) (hfC : C.fermi = true) (hfD : D.fermi = true)
    (h1 : tdotAdmissibleCommonB A B xa xb1 = true) (h2 : tdotAdmissibleCommonB B C xb2 xc1 = true)
    (h3 : tdotAdmissibleCommonB C D xc2 xd = true)
    (hnB : (xb1 ++ xb2).Nodup) (hnC : (xc1 ++ xc2).Nodup)
    (hd : (A.oddpos ++ B.oddpos ++ C.oddpos ++ D.oddpos).Pairwise (fun x y => x.1 ≠ y.1)) :
    ∃ AB ABC1 CD BCD2 T1 T5 : Arr GRat,
      @tdF GRat GRat.instZero GRat.instAdd GRat.instMul GRat.instNeg A B xa xb1 = .ok AB
      ∧ @tdF GRat GRat.instZero GRat.instAdd GRat.instMul GRat.instNeg AB C
          (AssocP.axesAB A.ndim B.ndim xa xb1 xb2) xc1 = .ok ABC1
      ∧ @tdF GRat GRat.instZero GRat.instAdd GRat.instMul GRat.instNeg ABC1 D
          (AssocP.axesAB AB.ndim C.ndim (AssocP.axesAB A.ndim B.ndim xa xb1 xb2) xc1 xc2) xd = .ok T1
      ∧ @tdF GRat GRat.instZero GRat.instAdd GRat.instMul GRat.instNeg C D xc2 xd = .ok CD
      ∧ @tdF GRat GRat.instZero GRat.instAdd GRat.instMul GRat.instNeg B CD xb2
          (AssocP.axesBC C.ndim xc1 xc2) = .ok BCD2
      ∧ @tdF GRat GRat.instZero GRat.instAdd GRat.instMul GRat.instNeg A BCD2 xa
          (AssocP.axesBC B.ndim xb1 xb2) = .ok T5
      ∧ @Eqv GRat GRat.instZero GRat.instNeg T5 T1
      ∧ @Arr.toDenseF GRat GRat.instZero GRat.instNeg T5
          = @Arr.toDenseF GRat GRat.instZero GRat.instNeg T1 := by
  obtain ⟨AB, BC, CD, ABC1, ABC2, BCD1, BCD2, T1, T2, T3, T4, T5, d1, d2, d3, d4, d5, d6, d7,
    d8, d9, d10, d11, d12, q2, q3, q4, q5, hv⟩ :=
    @chain4_bracketings GRat C02.addCommMonoidGRat GRat.instMul GRat.instNeg C03.signRingGRat
      assocLawsGRat A B C D xa xb1 xb2 xc1 xc2 xd hA hB hC hD hfA hfB hfC hfD h1 h2 h3 hnB hnC hd
  exact ⟨AB, ABC1, CD, BCD2, T1, T5, d1, d4, d8, d3, d7, d12, q5,
    (@Eqv.toDenseF GRat C02.addCommMonoidGRat GRat.instMul GRat.instNeg C03.signRingGRat _ _ q5.symm
      hv).symm⟩

/-! ## non-vacuity: an odd chain of four with pruned intermediates

`C03.gA[i,k,l]`, `cB[l',k',j]`, `cC[j',m]` (C04c: `B·C` has pruned tables) and `cD[m',n]`: all odd,
pending signs, labels `1`, `3`, `5†`, `7`. -/

open SymmModel.C03 in
def cD : Arr Int :=
  { sym := .Z2, fermi := true, indices := [ixk false, ixi true], charge := (1, 0),
    blocks := [([(0,0),(1,0)], mkB [1,1] 2), ([(1,0),(0,0)], mkB [2,2] (-1))],
    phases := [([(0,0),(1,0)], -1)], oddpos := [(7, false)] }

open SymmModel.C03 in
example : gA.validB = true ∧ cB.validB = true ∧ cC.validB = true ∧ cD.validB = true
    ∧ gA.fermi = true ∧ cB.fermi = true ∧ cC.fermi = true ∧ cD.fermi = true
    ∧ tdotAdmissibleCommonB gA cB [2] [0] = true ∧ tdotAdmissibleCommonB cB cC [2] [0] = true
    ∧ tdotAdmissibleCommonB cC cD [1] [0] = true
    ∧ ([0] ++ [2] : List Nat).Nodup ∧ ([0] ++ [1] : List Nat).Nodup
    ∧ (gA.oddpos ++ cB.oddpos ++ cC.oddpos ++ cD.oddpos).Pairwise (fun x y => x.1 ≠ y.1) := by
  decide +kernel

open SymmModel.C03 in
/-- the intermediate `B·C` does not satisfy the documented guard with `A`, but the weak one -/
example : ValidP.tdotAdmissibleB gA exBC [2] [0] = false
    ∧ tdotAdmissibleCommonB gA exBC [2] [0] = true := by decide +kernel

def exCD : Arr Int := resOf (tdF cC cD [1] [0])
def exABC1 : Arr Int := resOf (tdF exAB cC [3] [0])
open SymmModel.C03 in
def exABC2 : Arr Int := resOf (tdF gA exBC [2] [0])
def exBCD1 : Arr Int := resOf (tdF exBC cD [2] [0])
def exBCD2 : Arr Int := resOf (tdF cB exCD [2] [0])

open SymmModel.C03 in
/-- the axis lists of the statement on this instance, and a sanity instance of the conclusion:
    the five bracketings have the same labels and values (and not all the same stored signs) -/
example :
    AssocP.axesAB gA.ndim cB.ndim [2] [0] [2] = [3] ∧ AssocP.axesBC cB.ndim [0] [2] = [0]
    ∧ AssocP.axesAB cB.ndim cC.ndim [2] [0] [1] = [2] ∧ AssocP.axesBC cC.ndim [0] [1] = [0]
    ∧ AssocP.axesAB exAB.ndim cC.ndim [3] [0] [1] = [3]
    ∧ ([tdF exABC1 cD [3] [0], tdF exABC2 cD [3] [0], tdF exAB exCD [3] [0], tdF gA exBCD1 [2] [0],
        tdF gA exBCD2 [2] [0]].map (fun t =>
          (labelsOf t, elemOf t [(1,0),(0,0),(0,0),(1,0)] [0,0,0,0],
            elemOf t [(0,0),(1,0),(0,0),(1,0)] [1,1,0,0])))
      = List.replicate 5 ([(5, true), (1, false), (3, false), (7, false)], some 140, some 280)
    ∧ (phasesOf (tdF exABC1 cD [3] [0])).length = 2
    ∧ (phasesOf (tdF gA exBCD2 [2] [0])).length = 0 := by decide +kernel

end SymmModel.C04
