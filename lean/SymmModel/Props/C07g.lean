/-
  Property C07, seventh part.

  (1) THE ROUND-TRIP CLAUSE OF THE PROPERTY, VERBATIM.  "Reshaping to any shape obtained by merging
      adjacent axes and/or dropping size-one axes, and then back to the original shape, restores the
      original array."  The relation on shapes, independent of the planner: a list of segments
      `MSeg` — `run r` (`r ≠ []`: the adjacent axes `r` become one axis of size `prod r`; a run of one
      axis is an axis kept) or `drop` (a size-one axis disappears); old shape `shapeS segs`, target
      `targetS segs`; all sizes positive (`MSegOk`).
        `mergeDrop_normalise`   every such description can be rewritten as an `ItemsOk` item list —
                                the planner's own reading of the SAME pair of shapes: a size-one axis
                                facing a target dimension 1 is kept and a later one is the dropped
                                one (`pushSq`), ones at the ends of a run are squeezed axes, the run
                                proper starts and ends with sizes ≥ 2.
        `reshape_mergeDrop_roundtrip_fermionic` / `_abelian`
                                for a valid array without fused axes whose shape is `shapeS segs`:
                                `reshape(targetS segs)` succeeds, `reshape` back to the original
                                shape succeeds, and the result has exactly the value view of the
                                original (`VEq`: symmetry, kind, indices, charge, labels, every value
                                with pending signs multiplied in) and is valid.
      Excluded, exactly: the empty target (`targetS segs ≠ []`, known finding reshape-empty-target:
      the planner raises).  Arrays with fused axes are outside (known finding
      reshape-fused-window-match), see (2).
  (2) RESHAPE TO THE CURRENT SHAPE, fused axes allowed.  `selfWin shape subsizes`: some fused axis
      carries sub-sizes equal to the window of the shape that starts at its own position.
        `reshape_self_plan_iff`        the planner returns the empty plan  ⇔  `selfWin = false`
        `reshape_self_identity_fused`  `selfWin x.shape x.subsizes = false` ⇒ `x.reshape(x.shape)` IS
                                       `x` (equality of arrays) — for ANY array, abelian or
                                       fermionic, densely or sparsely fused
        `reshape_self_unfuses`         `selfWin = true` ⇒ every plan the planner returns contains an
                                       unfuse step
      The known finding's input (4,2) with sub-sizes (4,2) has `selfWin = true`
      (`window_match_is_selfWin`); a densely fused (8,2) with sub-sizes (4,2) has not.
      Not proved: the converse on arrays (that with a self-window the RESULT differs from `x`); the
      planner-level equivalence and `C07.reshape_self_id_fused_counterexample` stand for it.
  (3) `reshape_forward_elem_fermionic_call`: element-exact forward statement for one fuse call with
      several groups: `y.elem ns i = sgnI (fuseSignT a G s) (a.elem s offs)` with `s`, `offs` obtained
      by splitting every fused axis (`splitAddr`); `C05.fuseSign_groups` writes the sign as a product
      over the dual groups (flip of the non-dual legs · reversal sign); the transposition sign is 1.
      Several fuse calls: compose this statement call by call (not stated as one theorem).
-/
import SymmModel.Proofs.Reshape7c
import SymmModel.Props.C07f

namespace SymmModel.C07
open SymmModel SymmModel.Reshape SymmModel.Reshape5 ReshapeP FuseP

/-! ## (1) merging adjacent axes and dropping size-one axes -/

/-- **normalisation**: the planner's reading of a merge / drop description -/
theorem mergeDrop_normalise (segs : List MSeg) (hok : ∀ s ∈ segs, MSegOk s) :
    ∃ items, ItemsOk items ∧ shapeOf items = shapeS segs ∧ targetOf items = targetS segs :=
  normalise segs hok

theorem shapeS_pos (segs : List MSeg) (hok : ∀ s ∈ segs, MSegOk s) : ∀ d ∈ shapeS segs, 0 < d := by
  intro d hd
  simp only [shapeS, List.mem_flatMap] at hd
  obtain ⟨s, hs, hds⟩ := hd
  have := hok s hs
  cases s with
  | run r => exact this.2 d hds
  | drop => simp [MSeg.shape] at hds; omega

variable {R : Type} [Zero R] [Neg R] [Lazy.LawfulNeg R]

/-- **the round-trip clause, fermionic arrays** -/
theorem reshape_mergeDrop_roundtrip_fermionic (a : Arr R) (hv : a.validB = true) (hf : a.fermi = true)
    (hnf : ∀ ix ∈ a.indices, ix.sub = none) (segs : List MSeg) (hok : ∀ s ∈ segs, MSegOk s)
    (hshape : a.shape = shapeS segs) (hne : targetS segs ≠ []) :
    ∃ y z, reshapeArr a ((targetS segs).map Int.ofNat) = .ok y
      ∧ reshapeArr y (a.shape.map Int.ofNat) = .ok z ∧ z.validB = true ∧ z.fermi = true ∧ VEq z a := by
  obtain ⟨items, h1, h2, h3⟩ := normalise segs hok
  rw [← h3] at hne ⊢
  exact reshape_roundtrip_fermionic_items a hv hf hnf items (by rw [hshape, h2]) h1 hne
    (by rw [hshape]; exact shapeS_pos segs hok)

/-- **the round-trip clause, abelian arrays** -/
theorem reshape_mergeDrop_roundtrip_abelian (a : Arr R) (hv : a.validB = true) (hf : a.fermi = false)
    (hnf : ∀ ix ∈ a.indices, ix.sub = none) (segs : List MSeg) (hok : ∀ s ∈ segs, MSegOk s)
    (hshape : a.shape = shapeS segs) (hne : targetS segs ≠ []) :
    ∃ y z, reshapeArr a ((targetS segs).map Int.ofNat) = .ok y
      ∧ reshapeArr y (a.shape.map Int.ofNat) = .ok z ∧ z.validB = true ∧ z.fermi = false ∧ VEq z a := by
  obtain ⟨items, h1, h2, h3⟩ := normalise segs hok
  rw [← h3] at hne ⊢
  exact reshape_roundtrip_abelian_items a hv hf hnf items (by rw [hshape, h2]) h1 hne
    (by rw [hshape]; exact shapeS_pos segs hok)

-- the reading: (1,1,3,1) → (1,3) as "drop, keep 1, keep 3, drop" becomes "keep 1, squeeze, keep 3, squeeze"
example : shapeS [.drop, .run [1], .run [3], .drop] = [1, 1, 3, 1]
    ∧ targetS [.drop, .run [1], .run [3], .drop] = [1, 3]
    ∧ pushSq [.K 1, .K 3, .Sq] = [.K 1, .Sq, .K 3, .Sq] := by decide

/-! ## (2) reshape to the current shape -/

omit [Zero R] [Neg R] [Lazy.LawfulNeg R] in
/-- the planner returns the empty plan for `shape → shape` iff there is no self-window -/
theorem reshape_self_plan_iff (shape : List Nat) (subsizes : List (Option (List Nat)))
    (hlen : shape.length = subsizes.length) :
    calcReshapeArgs shape shape subsizes = .ok ([], [], []) ↔ selfWin shape subsizes = false := by
  constructor
  · intro h
    cases hw : selfWin shape subsizes with
    | false => rfl
    | true => exact absurd rfl (selfshape_plan_unfuses shape subsizes hw _ h)
  · exact selfshape_plan_empty shape subsizes hlen

omit [Zero R] [Neg R] [Lazy.LawfulNeg R] in
/-- with a self-window every plan contains an unfuse step -/
theorem reshape_self_unfuses (shape : List Nat) (subsizes : List (Option (List Nat)))
    (hw : selfWin shape subsizes = true) (t : List Nat × List (List (List Nat)) × List Nat)
    (h : calcReshapeArgs shape shape subsizes = .ok t) : t.1 ≠ [] :=
  selfshape_plan_unfuses shape subsizes hw t h

omit [Lazy.LawfulNeg R] in
/-- **reshape to the current shape is the identity**, fused axes allowed, when no fused axis carries
    sub-sizes equal to the window of the shape at its own position -/
theorem reshape_self_identity_fused (x : Arr R) (hw : selfWin x.shape x.subsizes = false) :
    reshapeArr x (x.shape.map Int.ofNat) = .ok x := by
  rw [reshapeArr_eq x _ _ x.shape ([], [], []) (findFullReshape_nat _ _) (mapM_toNat _)
    (selfshape_plan_empty x.shape x.subsizes (shape_subsizes_length x) hw)]
  rfl

/-- the known finding's input has a self-window; a densely fused axis of the full size has not -/
theorem window_match_is_selfWin :
    selfWin [4, 2] [some [4, 2], none] = true ∧ selfWin [8, 2] [some [4, 2], none] = false
    ∧ selfWin [8, 4, 2] [some [4, 2], none, none] = false := by decide

/-! ## (3) element by element -/

/-- **fermionic `reshape`, one fuse call with several groups, element by element** -/
theorem reshape_forward_elem_fermionic_call (a : Arr R) (G : List (List Nat)) (P : Nat)
    (hv : a.validB = true) (hf : a.fermi = true) (hc : CallOk G P 0 a.ndim) :
    ∃ y, applyPlan a ([], [G], []) = .ok y ∧
      ∀ ns B, alookup y.blocks ns = some B → ∀ i, inBox B.shape i = true →
        ∃ segs : List (Sector × List Nat), segs.length = G.length
          ∧ (∀ g gaxes, G[g]? = some gaxes →
              splitAddr (y.indices.getD (P + g) default) (ns.getD (P + g) (0, 0)) (i.getD (P + g) 0) = segs[g]?)
          ∧ ∀ s offs, s.length = a.ndim → offs.length = a.ndim →
              s = ns.take P ++ (segs.map (·.1)).flatten ++ ns.drop (P + G.length) →
              offs = i.take P ++ (segs.map (·.2)).flatten ++ i.drop (P + G.length) →
              y.elem ns i = Lazy.sgnI (fuseSignT a G s) (a.elem s offs) :=
  forward_elem_fermionic_call a G P hv hf hc

section Examples
open C05

example := reshape_mergeDrop_roundtrip_fermionic (R := Int) exG (by decide) rfl (by decide)
  [.run [2, 2], .run [2], .run [2]] (by decide) (by decide) (by decide)
example := reshape_mergeDrop_roundtrip_abelian (R := Int) exA (by decide) rfl (by decide)
  [.run [3], .run [3, 2]] (by decide) (by decide) (by decide)
example := reshape_forward_elem_fermionic_call (R := Int) exG [[0, 1], [2, 3]] 0 (by decide) rfl
  ⟨by decide, by decide, by decide, by decide, by decide⟩
-- a fused array reshaped to its own shape: fuse (1,2) of `exA`, sparse size 3 ≠ 3·2 window
example : (match fuseA exA [[1, 2]] with
    | .ok x => selfWin x.shape x.subsizes == false && (reshapeArr x (x.shape.map Int.ofNat) matches .ok _)
    | .error _ => false) = true := by decide +kernel

end Examples

end SymmModel.C07
