/-
  Property C10, network clause, final round — the MIXED operand orders of the halves of the norm
  network `{a, b, ā, b̄}`: one half contracted as `a·b` / `ā·b̄`, the other as `b̄·ā` / `b·a`.

  `a`, `b`: valid fermionic, bonded along `xa`/`xb` (`tdotAdmissibleB`), sorted distinct ket labels
  (`KetLabels`, all labels distinct); blockwise mode; commutative scalars (`hmul`; S5 of C04 needs
  it), `AddCommMonoid`, `NetLaws`.  `K = a·b`, `K̄ = ā·b̄`, `K' = b·a`, `K̄' = b̄·ā`;
  `crossAx m k` lists, for each leg of `p·q` in order, its position in `q·p` (`crossAx_def`).

  PROVED
  * `swap_eqv` — S5 as an equivalence of arrays: `q·p` and `(p·q).transposeF rot` have the same
    symmetry, charge, labels, INDEX TABLES (`dropUnused_rot`: pruning commutes with the rotation),
    sector set and values (`C04.eqv_def`), `rot` the rotation moving `p`'s dangling legs behind `q`'s.
  * `mixed_full` — a swapped half against the opposite half: if `P = p·q`, `P' = q·p` and `P·Y = r`
    is a full contraction (strong guard `Adm P Y` over all legs), then `P'·Y` with the crossed leg
    pairs succeeds and is a scalar with the labels and the value of `r`
    [`swap_eqv`, congruence `C04.tdotF_congr_eqv`, S6 `C04.tdotF_pretranspose`].
  * `network_norm_mixed` — the four mixed balanced bracketings
      `(b̄·ā)·(a·b)`, `(a·b)·(b̄·ā)`, `(ā·b̄)·(b·a)`, `(b·a)·(ā·b̄)`
    succeed and give `normSq (a·b)`, rank 0, no labels (with `normSq (b·a) = normSq (a·b)`,
    `C10.normSq_swap`).  Together with C10e/C10f: every balanced bracketing `(half)·(half)` of the
    four tensors, in every operand order of the halves and of the final call.

  * `network_norm_mixed_seq` — the sequential bracketing with mixed orders `((ā·b̄)·b)·a = normSq (a·b)`:
    `= K̄·(b·a)` by S7 under the weak guard for the triangle `(K̄, b, a)` (`Assoc3P.tdotF_assoc_w`;
    label hypothesis: `netLabelsB` of the swapped roles, automatic for at most one label per tensor:
    `network_norm_mixed_seq_oneKet`), then the third bracketing above (`crossAx k m = rotAx m k`).

  NOT COVERED (remaining):
  * the other sequential bracketings with mixed orders (`((a·b)·b̄)·ā`, `b̄·(ā·(a·b))`, …): each is the
    same argument with another triangle — not written out;
  * the mixed orders in fused / auto mode (the any-mode transfer of C10f applies to calls with the
    weak guard; `mixed_full` would have to be redone with `TdotP.Pad`);
  * three-tensor chains `a–b–c` (needs a three-tensor `conj_tensordot` with a flip set sparing the
    bond legs; `C04.chain_bracketing` would give the halves) — not attempted in this round;
  * `netLabelsB` for arbitrary sorted ket lists (decidable hypothesis of S1–S4).
-/
import SymmModel.Proofs.NormNet24
import SymmModel.Props.C10f

namespace SymmModel.C10
open SymmModel Lazy Norm NormNet TdotP

/-! ## vocabulary -/

theorem crossAx_def (m k : Nat) :
    crossAx m k = RoutesP.positions (rotAx m k) (List.range (m + k))
    ∧ rotAx m k = (List.range k).map (m + ·) ++ List.range m
    ∧ (crossAx m k).Perm (List.range (m + k)) := ⟨rfl, rfl, crossAx_perm m k⟩

example : crossAx 2 3 = [3, 4, 0, 1, 2] ∧ rotAx 2 3 = [2, 3, 4, 0, 1] := by decide

/-- pruning commutes with a rotation of the legs -/
theorem dropUnused_rot (W : List Index) (S S' : List Sector) (m : Nat) (hm : m ≤ W.length)
    (hS : ∀ s ∈ S, s.length = W.length)
    (hmem : ∀ s', s' ∈ S' ↔ ∃ s ∈ S, rotL m s = s') :
    dropUnused (rotL m W) S' = rotL m (dropUnused W S) :=
  NormNet.dropUnused_rot W S S' m hm hS hmem

section main
variable {R : Type} [AddCommMonoid R] [Mul R] [Neg R] [GradedP.SignRing R]

/-- **S5 as an equivalence of arrays** -/
theorem swap_eqv (hmul : ∀ x y : R, x * y = y * x) (p q P P' : Arr R) (xp xq : List Nat)
    (hp : p.validB = true) (hq : q.validB = true) (hfp : p.fermi = true) (hfq : q.fermi = true)
    (hadm : ValidP.tdotAdmissibleB p q xp xq = true)
    (hd : (p.oddpos ++ q.oddpos).Pairwise (fun x y => x.1 ≠ y.1))
    (eP : p.tensordotF q (.pair (xp.map Int.ofNat) (xq.map Int.ofNat)) .blockwise = .ok P)
    (eP' : q.tensordotF p (.pair (xq.map Int.ofNat) (xp.map Int.ofNat)) .blockwise = .ok P') :
    Assoc3P.Eqv P' (P.transposeF (rotAx (freeAxes p.ndim xp).length (freeAxes q.ndim xq).length)) := by
  have hv := ValidP.tensordotF_blockwise_valid p q P xp xq ((ValidP.validB_iff p).mp hp)
    ((ValidP.validB_iff q).mp hq) hfp hfq hadm eP
  have h := RoutesP.Adm.of hp hq hfp hfq hadm
  have hf : P.fermi = true := by
    obtain ⟨K, hK⟩ : ∃ K, K = P := ⟨P, rfl⟩
    have e := RoutesP.tensordotF_eq_core p q xp xq h
    rw [eP] at e
    cases hm : OddposP.mergeOddpos p.parity p.oddpos q.oddpos with
    | error err => rw [hm] at e; cases e
    | ok r =>
      rw [hm] at e
      have e' : P = RoutesP.finish (RoutesP.coreT p q xp xq) r := Except.ok.inj e
      rw [e', (finish_frame _ r).2.1, (RoutesP.coreT_frame p q xp xq h).fermi, hfp]
  exact NormNet.swap_eqv hmul p q P P' xp xq h hd eP eP' ((ValidP.validB_iff P).mpr hv) hf

/-- **a swapped half against the opposite half** -/
theorem mixed_full (hmul : ∀ x y : R, x * y = y * x) (p q P P' Y r : Arr R) (xp xq : List Nat)
    (h : RoutesP.Adm p q xp xq) (hd : (p.oddpos ++ q.oddpos).Pairwise (fun x y => x.1 ≠ y.1))
    (eP : p.tensordotF q (.pair (xp.map Int.ofNat) (xq.map Int.ofNat)) .blockwise = .ok P)
    (eP' : q.tensordotF p (.pair (xq.map Int.ofNat) (xp.map Int.ofNat)) .blockwise = .ok P')
    (hPv : P.validB = true) (hPf : P.fermi = true) (hP'v : P'.validB = true)
    (hA : RoutesP.Adm P Y (List.range P.ndim) (List.range P.ndim)) (hYn : Y.ndim = P.ndim)
    (hr : P.tensordotF Y (allAxes P.ndim) .blockwise = .ok r) :
    ∃ r', P'.tensordotF Y (.pair
          ((crossAx (freeAxes p.ndim xp).length (freeAxes q.ndim xq).length).map Int.ofNat)
          ((List.range P.ndim).map Int.ofNat)) .blockwise = .ok r'
      ∧ r'.ndim = 0 ∧ r'.oddpos = r.oddpos ∧ r'.elem [] [] = r.elem [] [] :=
  NormNet.mixed_full hmul p q P P' Y r xp xq h hd eP eP' hPv hPf hP'v hA hYn hr

end main

/-- **network_norm_mixed.**  The four balanced bracketings with the halves in mixed operand
    orders give `normSq (a·b)`. -/
theorem network_norm_mixed {R : Type} [AddCommMonoid R] [Mul R] [Neg R] [Conj R] [NetLaws R]
    (hmul : ∀ x y : R, x * y = y * x) (a b : Arr R) (xa xb : List Nat)
    (ha : a.validB = true) (hb : b.validB = true) (hfa : a.fermi = true) (hfb : b.fermi = true)
    (hadm : ValidP.tdotAdmissibleB a b xa xb = true)
    (hoA : KetLabels a.oddpos) (hoB : KetLabels b.oddpos)
    (hd : (a.oddpos ++ b.oddpos).Pairwise (fun x y => x.1 ≠ y.1)) :
    ∃ K Kb K' Kb',
      a.tensordotF b (.pair (xa.map Int.ofNat) (xb.map Int.ofNat)) .blockwise = .ok K
      ∧ (NormNet.braOf a xa).tensordotF (NormNet.braOf b xb)
          (.pair (xa.map Int.ofNat) (xb.map Int.ofNat)) .blockwise = .ok Kb
      ∧ b.tensordotF a (.pair (xb.map Int.ofNat) (xa.map Int.ofNat)) .blockwise = .ok K'
      ∧ (NormNet.braOf b xb).tensordotF (NormNet.braOf a xa)
          (.pair (xb.map Int.ofNat) (xa.map Int.ofNat)) .blockwise = .ok Kb'
      ∧ normSq K' = normSq K
      -- (b̄·ā)·(a·b)
      ∧ (∃ r, Kb'.tensordotF K (.pair
            ((crossAx (freeAxes a.ndim xa).length (freeAxes b.ndim xb).length).map Int.ofNat)
            ((List.range K.ndim).map Int.ofNat)) .blockwise = .ok r
          ∧ r.ndim = 0 ∧ r.oddpos = [] ∧ r.elem [] [] = normSq K)
      -- (a·b)·(b̄·ā)
      ∧ (∃ r, K.tensordotF Kb' (.pair
            ((crossAx (freeAxes b.ndim xb).length (freeAxes a.ndim xa).length).map Int.ofNat)
            ((List.range K.ndim).map Int.ofNat)) .blockwise = .ok r
          ∧ r.ndim = 0 ∧ r.oddpos = [] ∧ r.elem [] [] = normSq K)
      -- (ā·b̄)·(b·a)
      ∧ (∃ r, Kb.tensordotF K' (.pair
            ((crossAx (freeAxes b.ndim xb).length (freeAxes a.ndim xa).length).map Int.ofNat)
            ((List.range K.ndim).map Int.ofNat)) .blockwise = .ok r
          ∧ r.ndim = 0 ∧ r.oddpos = [] ∧ r.elem [] [] = normSq K)
      -- (b·a)·(ā·b̄)
      ∧ (∃ r, K'.tensordotF Kb (.pair
            ((crossAx (freeAxes a.ndim xa).length (freeAxes b.ndim xb).length).map Int.ofNat)
            ((List.range K.ndim).map Int.ofNat)) .blockwise = .ok r
          ∧ r.ndim = 0 ∧ r.oddpos = [] ∧ r.elem [] [] = normSq K) := by
  obtain ⟨K, Kb, K', Kb', T, m1, m2, m3, m4⟩ :=
    NormNet.network_norm_mixed hmul a b xa xb ha hb hfa hfb hadm hoA hoB hd
  exact ⟨K, Kb, K', Kb', T.eK, T.eKb, T.eK', T.eKb', T.val, m1, m2, m3, m4⟩

/-- **network_norm_mixed_seq.**  `((ā·b̄)·b)·a = normSq (a·b)`: the bra half contracted as `ā·b̄`, then
    the ket tensors one at a time in the order `b`, `a` -/
theorem network_norm_mixed_seq {R : Type} [AddCommMonoid R] [Mul R] [Neg R] [Conj R] [NetLaws R]
    [AssocP.AssocLaws R] (hmul : ∀ x y : R, x * y = y * x) (a b : Arr R) (xa xb : List Nat)
    (ha : a.validB = true) (hb : b.validB = true) (hfa : a.fermi = true) (hfb : b.fermi = true)
    (hadm : ValidP.tdotAdmissibleB a b xa xb = true)
    (hoA : KetLabels a.oddpos) (hoB : KetLabels b.oddpos)
    (hd : (a.oddpos ++ b.oddpos).Pairwise (fun x y => x.1 ≠ y.1))
    (hlab' : netLabelsB b.parity a.parity b.oddpos a.oddpos = true) :
    ∃ K Kb, a.tensordotF b (.pair (xa.map Int.ofNat) (xb.map Int.ofNat)) .blockwise = .ok K
      ∧ (NormNet.braOf a xa).tensordotF (NormNet.braOf b xb)
          (.pair (xa.map Int.ofNat) (xb.map Int.ofNat)) .blockwise = .ok Kb
      ∧ ∃ T c, Kb.tensordotF b (.pair
            (((List.range (freeAxes b.ndim xb).length).map ((freeAxes a.ndim xa).length + ·)).map
              Int.ofNat) ((freeAxes b.ndim xb).map Int.ofNat)) .blockwise = .ok T
        ∧ T.tensordotF a (.pair ((Assoc2P.axesAB Kb.ndim b.ndim
              ((List.range (freeAxes b.ndim xb).length).map ((freeAxes a.ndim xa).length + ·))
              (List.range (freeAxes a.ndim xa).length) (freeAxes b.ndim xb) xb).map Int.ofNat)
            ((freeAxes a.ndim xa ++ xa).map Int.ofNat)) .blockwise = .ok c
        ∧ c.ndim = 0 ∧ c.oddpos = [] ∧ c.elem [] [] = normSq K :=
  NormNet.network_norm_mixed_seq hmul a b xa xb ha hb hfa hfb hadm hoA hoB hd hlab'

/-- at most one ket label per tensor: no label hypothesis -/
theorem network_norm_mixed_seq_oneKet {R : Type} [AddCommMonoid R] [Mul R] [Neg R] [Conj R]
    [NetLaws R] [AssocP.AssocLaws R] (hmul : ∀ x y : R, x * y = y * x) (a b : Arr R)
    (xa xb : List Nat)
    (ha : a.validB = true) (hb : b.validB = true) (hfa : a.fermi = true) (hfb : b.fermi = true)
    (hadm : ValidP.tdotAdmissibleB a b xa xb = true)
    (hoA : OneKet a.oddpos) (hoB : OneKet b.oddpos)
    (hd : (a.oddpos ++ b.oddpos).Pairwise (fun x y => x.1 ≠ y.1)) :
    ∃ K Kb, a.tensordotF b (.pair (xa.map Int.ofNat) (xb.map Int.ofNat)) .blockwise = .ok K
      ∧ (NormNet.braOf a xa).tensordotF (NormNet.braOf b xb)
          (.pair (xa.map Int.ofNat) (xb.map Int.ofNat)) .blockwise = .ok Kb
      ∧ ∃ T c, Kb.tensordotF b (.pair
            (((List.range (freeAxes b.ndim xb).length).map ((freeAxes a.ndim xa).length + ·)).map
              Int.ofNat) ((freeAxes b.ndim xb).map Int.ofNat)) .blockwise = .ok T
        ∧ T.tensordotF a (.pair ((Assoc2P.axesAB Kb.ndim b.ndim
              ((List.range (freeAxes b.ndim xb).length).map ((freeAxes a.ndim xa).length + ·))
              (List.range (freeAxes a.ndim xa).length) (freeAxes b.ndim xb) xb).map Int.ofNat)
            ((freeAxes a.ndim xa ++ xa).map Int.ofNat)) .blockwise = .ok c
        ∧ c.ndim = 0 ∧ c.oddpos = [] ∧ c.elem [] [] = normSq K :=
  NormNet.network_norm_mixed_seq hmul a b xa xb ha hb hfa hfb hadm hoA.ketLabels hoB.ketLabels hd
    (netLabelsB_of_oneKet hb ha hfb hfa hoB hoA (labels_swap hd))

theorem crossAx_eq_rotAx (m k : Nat) : crossAx k m = rotAx m k := NormNet.crossAx_eq_rotAx m k

/-! ## non-vacuity -/

open scoped SymmModel.Lazy

/-- the four mixed norms of a concrete network, and `normSq K` -/
def mixedVals (a b : Arr Int) (xa xb : List Nat) : List (List Int) :=
  let mA := (freeAxes a.ndim xa).length
  let mB := (freeAxes b.ndim xb).length
  let P (x y : List Nat) : AxesArg := .pair (x.map Int.ofNat) (y.map Int.ofNat)
  let lab (o : List (Int × Bool)) : List Int := o.flatMap (fun p => [p.1, if p.2 then 1 else 0])
  let val (r : Except Err (Arr Int)) : List Int :=
    match r with | .ok c => [c.elem [] []] ++ lab c.oddpos | .error _ => [-1, -1]
  match a.tensordotF b (P xa xb) .blockwise,
      (NormNet.braOf a xa).tensordotF (NormNet.braOf b xb) (P xa xb) .blockwise,
      b.tensordotF a (P xb xa) .blockwise,
      (NormNet.braOf b xb).tensordotF (NormNet.braOf a xa) (P xb xa) .blockwise with
  | .ok K, .ok Kb, .ok K', .ok Kb' =>
    [ val (Kb'.tensordotF K (P (crossAx mA mB) (List.range K.ndim)) .blockwise),
      val (K.tensordotF Kb' (P (crossAx mB mA) (List.range K.ndim)) .blockwise),
      val (Kb.tensordotF K' (P (crossAx mB mA) (List.range K.ndim)) .blockwise),
      val (K'.tensordotF Kb (P (crossAx mA mB) (List.range K.ndim)) .blockwise),
      [normSq K] ]
  | _, _, _, _ => []

example : mixedVals C03.gA C03.gB [2] [0] = [[16422], [16422], [16422], [16422], [16422]] := by
  decide +kernel

example : mixedVals gAs C03.gB [2] [0] = [[2174], [2174], [2174], [2174], [2174]] := by
  decide +kernel

/-- `((ā·b̄)·b)·a` of a concrete network: the axes of the second call, the value, `normSq K` -/
def mixedSeqVals (a b : Arr Int) (xa xb : List Nat) : List (List Int) :=
  let fA := freeAxes a.ndim xa
  let fB := freeAxes b.ndim xb
  let sh := (List.range fB.length).map (fA.length + ·)
  let P (x y : List Nat) : AxesArg := .pair (x.map Int.ofNat) (y.map Int.ofNat)
  match a.tensordotF b (P xa xb) .blockwise,
      (NormNet.braOf a xa).tensordotF (NormNet.braOf b xb) (P xa xb) .blockwise with
  | .ok K, .ok Kb =>
    let ax := Assoc2P.axesAB Kb.ndim b.ndim sh (List.range fA.length) fB xb
    match Kb.tensordotF b (P sh fB) .blockwise with
    | .ok T => (match T.tensordotF a (P ax (fA ++ xa)) .blockwise with
      | .ok c => [ax.map Int.ofNat, [c.elem [] []], [normSq K]] | .error _ => [])
    | .error _ => []
  | _, _ => []

example : mixedSeqVals C03.gA C03.gB [2] [0] = [[0, 1, 2], [16422], [16422]]
    ∧ mixedSeqVals gAs C03.gB [2] [0] = [[0, 1, 2], [2174], [2174]] := by decide +kernel

example : ∃ K Kb K' Kb', C03.gA.tensordotF C03.gB (.pair [2] [0]) .blockwise = .ok K
    ∧ (NormNet.braOf C03.gA [2]).tensordotF (NormNet.braOf C03.gB [0]) (.pair [2] [0]) .blockwise = .ok Kb
    ∧ C03.gB.tensordotF C03.gA (.pair [0] [2]) .blockwise = .ok K'
    ∧ (NormNet.braOf C03.gB [0]).tensordotF (NormNet.braOf C03.gA [2]) (.pair [0] [2]) .blockwise = .ok Kb'
    ∧ normSq K' = normSq K
    ∧ (∃ r, Kb'.tensordotF K (.pair ((crossAx 2 2).map Int.ofNat)
          ((List.range K.ndim).map Int.ofNat)) .blockwise = .ok r
        ∧ r.ndim = 0 ∧ r.oddpos = [] ∧ r.elem [] [] = normSq K) := by
  obtain ⟨K, Kb, K', Kb', e1, e2, e3, e4, e5, m1, _⟩ :=
    network_norm_mixed Int.mul_comm C03.gA C03.gB [2] [0] (by decide +kernel) (by decide +kernel)
      rfl rfl (by decide +kernel) (OneKet.ketLabels (Or.inr ⟨1, rfl⟩))
      (OneKet.ketLabels (Or.inr ⟨3, rfl⟩)) (by decide)
  exact ⟨K, Kb, K', Kb', e1, e2, e3, e4, e5, m1⟩

end SymmModel.C10
