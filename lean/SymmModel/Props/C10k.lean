/-
  Property C10, network clause, round 9 — the MIRROR IMAGES of the ket-bra-first bracketings of the
  two-tensor norm network `{a, b, ā, b̄}`: the first call has the KET operand on the left (`a·ā`, `b·b̄`).

  `a`, `b` as in C10i/j: valid fermionic, bonded along `xa`/`xb` (`tdotAdmissibleB`), sorted distinct ket
  labels; blockwise mode; commutative scalars (`hmul`), `AddCommMonoid`, `NetLaws`, `AssocLaws`.
  `ā = braOf a xa`, `b̄ = braOf b xb`, `K = a·b`, `X = ā·a`, `Y = b̄·b` (C10j), and
  `X' = a·ā`, `Y' = b·b̄` (each contracted over all dangling legs).  `X'` has the legs
  `[a's bond legs, ā's bond legs]`; `kbM a.ndim xa` lists them as "`ā`'s bond legs in the order of `xa`, then
  `a`'s" (= the legs that `kbP` lists for `X`), `kbP a.ndim xa` as "`a`'s, then `ā`'s".

  PROVED
  * `tdotF_swap_eqv_merge` — S5 as an equivalence for operands whose labels need NOT be distinct: if both
    label merges succeed with the same list and `sba = sab · sgn(parity a · parity b)`, then `b·a` rotated
    back by `transposeF` is `Eqv` to `a·b`.  (`C04.tdotF_swap_eqv` is the instance where these three facts
    follow from the distinctness of the labels.)
  * `merge_ket_bra_labels` — the labels of `a·ā` and of `ā·a` annihilate completely in either order, with
    the explicit signs `ph0 p n · (-1)^n` and `ph0 p n`; they differ by `sgn(p·p)` (`p = n mod 2`).
  * `network_norm_ketfirst_piece` — `a·ā` succeeds, carries NO label, has rank `2·|xa|`, and is the block
    transpose of `ā·a` with NO extra sign: `(ā·a).transposeF (rotB k k)` is `Eqv` to `a·ā` (the Koszul
    sign of the exchange of the two leg blocks is the only sign).
  * `network_norm_mirror_hub` — for EVERY pair of sorted distinct ket label lists (no label check) the
    routes
        `(a·ā)·(b̄·b)`, `(b̄·b)·(a·ā)`, `(b·b̄)·(a·ā)`, `(a·ā)·(b·b̄)` (both listings of the leg pairs),
        `(b·b̄)·(ā·a)`, `(ā·a)·(b·b̄)`
    all succeed and give the ONE scalar of the hub of C10j.
  * `network_norm_mirror_tri_hub` — likewise the routes that contract `a·ā` with `b̄` alone, then with `b`
    (and with the roles of the tensors exchanged):
        `((a·ā)·b̄)·b`, `(b̄·(a·ā))·b`, `((b·b̄)·ā)·a`, `(ā·(b·b̄))·a`
    succeed and give the scalar of the hub; `network_norm_mirror_tri`, `network_norm_mirror_tri_oneKet`: it
    is `Σ|K|²` under the label checks / for at most one label per tensor.  [`(a·ā)·b̄` is `Eqv` to `(ā·a)·b̄`:
    S6 as an equivalence (`Net4P.pre_eqv`) for the exchange of the two leg blocks — the free block keeps
    its order, the induced transposition is the identity (`transposeF_range_eqv`) — and congruence;
    `b̄·(a·ā)` by S5 + S6 for the full contraction.]
  * `network_norm_mirror_all`, `network_norm_mirror_all_oneKet` — this scalar is `Σ|K|²` under the label
    checks of C10j (`netLabelsB`, `ketBraLabelsB` for `(a, b)` or `(b, a)`), resp. for at most one ket
    label per tensor (both label orders, no check).
  * `network_norm_mirror_pair` — written out: `(a·ā)·(b·b̄) = Σ|K|²`, rank 0, no labels, sign `+1` for
    every parity / dualness pattern.  NO FINDING: the model never produces a minus sign here.
  * `mirror_vals` evaluates the routes on the concrete networks of C10i (both label orders).

  NOT COVERED (remaining)
  * the routes that contract `a·ā` FIRST with the ket tensor `b` (`((a·ā)·b)·b̄`, `(b·(a·ā))·b̄`): their
    unmirrored versions `((ā·a)·b)·b̄` are not in the hub of C10j either;
  * fused / auto mode for the mirror routes (`Net4P.pad_call` applies as in C10j);
  * the nested routes of the three-tensor chain `c̄·(b̄·(ā·K3))`, `((K3·c̄)·b̄)·ā`, `K3 = (a·b)·c` (goal (1) of the
    round): NOT PROVED.  `chain3_nested_vals` evaluates both routes, with their axes lists in closed form,
    on the concrete chain `gA – gB – gC` of C10h for both label orders: all calls succeed and both give
    `Σ|K3|² = 117734`, rank 0, no labels (no sign anomaly); with `label a = 7` the intermediates `ā·K3`,
    `b̄·(ā·K3)` carry the un-annihilated lists `[7†, 3, 5, 7]`, `[7†, 5, 7]` (the scan does not bring the
    conjugate pair together, as in C10i `ketBraLabels_order`), so a general proof needs decidable label
    checks or an `Eqv`-up-to-labels form of S7.  Proof plan: S7 for the triangles `(c̄, b̄, ā·K3)` and
    `(c̄·b̄, ā, K3)` brings the route to `((c̄·b̄)·ā)·K3`; `(c̄·b̄)·ā` is a block transpose of `ā·(b̄·c̄)` (S5
    twice, `C04.tdotF_swap_eqv`; labels of the bra tensors are distinct); S6 for the full contraction
    (`scalar_pre`) and congruence reduce to `network_norm_chain3_routes`.
-/
import SymmModel.Proofs.NetNormM3
import SymmModel.Props.C10j

namespace SymmModel.C10
open SymmModel Lazy Norm NormNet TdotP
open SymmModel.Assoc3P (tdF Eqv)
open SymmModel.Assoc5P (rotB)
open SymmModel.KoszulP (sgn)
set_option linter.unusedSectionVars false

/-! ## vocabulary -/

theorem kbM_def (n : Nat) (xa : List Nat) :
    kbM n xa = (kbQ n xa).map (xa.length + ·) ++ kbQ n xa := rfl

theorem kbM_example : kbM 5 [3, 1] = [3, 2, 1, 0] ∧ kbP 5 [3, 1] = [1, 0, 3, 2]
    ∧ rotB 2 2 = [2, 3, 0, 1] := by decide

theorem ph0_def (p : Bool) (n : Nat) : ph0 p n = if p && n % 2 == 1 then -1 else 1 := rfl

/-! ## S5 without distinct labels -/

section gen
variable {R : Type} [AddCommMonoid R] [Mul R] [Neg R] [GradedP.SignRing R] [AssocP.AssocLaws R]

/-- **tdotF_swap_eqv_merge.**  S5 as an equivalence with the label merges as hypotheses. -/
theorem tdotF_swap_eqv_merge (hmul : ∀ x y : R, x * y = y * x) {a b : Arr R} {xa xb : List Nat}
    (W : AssocP.AdmW a b xa xb) (out : List (Int × Bool)) (sab sba : Int)
    (m1 : OddposP.mergeOddpos a.parity a.oddpos b.oddpos = .ok (out, sab))
    (m2 : OddposP.mergeOddpos b.parity b.oddpos a.oddpos = .ok (out, sba))
    (hsab : sab = 1 ∨ sab = -1) (hsba : sba = 1 ∨ sba = -1)
    (m3 : sba = sab * sgn (a.parity.toNat * b.parity.toNat)) (c : Arr R)
    (hc : a.tensordotF b (.pair (xa.map Int.ofNat) (xb.map Int.ofNat)) .blockwise = .ok c) :
    ∃ c', b.tensordotF a (.pair (xb.map Int.ofNat) (xa.map Int.ofNat)) .blockwise = .ok c'
      ∧ c'.validB = true
      ∧ (c'.transposeF (rotB (freeAxes b.ndim xb).length (freeAxes a.ndim xa).length)).validB = true
      ∧ Eqv (c'.transposeF (rotB (freeAxes b.ndim xb).length (freeAxes a.ndim xa).length)) c :=
  swap_eqv_gen hmul W out sab sba m1 m2 hsab hsba m3 c hc

end gen

/-- **merge_ket_bra_labels.**  The labels of `a·ā` and of `ā·a` annihilate; explicit signs. -/
theorem merge_ket_bra_labels (p : Bool) (w : List (Int × Bool)) (hk : KetLabels w)
    (hd : w.Pairwise (fun x y => x.1 ≠ y.1)) :
    OddposP.mergeOddpos p w (Arr.oddposDag w)
        = .ok ([], ph0 p w.length * (if w.length % 2 = 1 then -1 else 1))
    ∧ OddposP.mergeOddpos p (Arr.oddposDag w) w = .ok ([], ph0 p w.length)
    ∧ ((w.length % 2 == 1) = p →
        ph0 p w.length
          = ph0 p w.length * (if w.length % 2 = 1 then -1 else 1) * sgn (p.toNat * p.toNat)) :=
  ⟨merge_ket_bra p w hk hd, merge_bra_ket p w hk hd, merge_mirror_sign p w.length⟩

example : OddposP.mergeOddpos true [(2, false), (5, false), (9, false)]
      (Arr.oddposDag [(2, false), (5, false), (9, false)]) = .ok ([], 1)
    ∧ OddposP.mergeOddpos true (Arr.oddposDag [(2, false), (5, false), (9, false)])
      [(2, false), (5, false), (9, false)] = .ok ([], -1) := by decide

section main
variable {R : Type} [AddCommMonoid R] [Mul R] [Neg R] [Conj R] [NetLaws R] [AssocP.AssocLaws R]

/-- `MPiece` written out -/
theorem mPiece_spec {a : Arr R} {xa : List Nat} {X' : Arr R} (M : MPiece a xa X') :
    a.tensordotF (NormNet.braOf a xa) (.pair ((freeAxes a.ndim xa).map Int.ofNat)
        ((freeAxes a.ndim xa).map Int.ofNat)) .blockwise = .ok X'
    ∧ X'.oddpos = [] ∧ X'.ndim = xa.length + xa.length ∧ X'.validB = true
    ∧ ∀ X, (NormNet.braOf a xa).tensordotF a (.pair ((freeAxes a.ndim xa).map Int.ofNat)
          ((freeAxes a.ndim xa).map Int.ofNat)) .blockwise = .ok X →
        Piece a xa X → Eqv (X.transposeF (rotB xa.length xa.length)) X' :=
  ⟨M.call, M.odd, M.nd, M.valid, fun X _ PX => M.eqv X PX⟩

/-- **network_norm_ketfirst_piece.**  `a·ā` succeeds, carries no label, and is the block transpose of
    `ā·a` — no sign besides the Koszul sign of the transposition. -/
theorem network_norm_ketfirst_piece (hmul : ∀ x y : R, x * y = y * x) (a : Arr R) (xa : List Nat)
    (ha : a.validB = true) (hfa : a.fermi = true) (hn : xa.Nodup) (hlt : ∀ i ∈ xa, i < a.ndim)
    (hoA : KetLabels a.oddpos) (hdA : a.oddpos.Pairwise (fun x y => x.1 ≠ y.1)) :
    ∃ X X', (NormNet.braOf a xa).tensordotF a (.pair ((freeAxes a.ndim xa).map Int.ofNat)
          ((freeAxes a.ndim xa).map Int.ofNat)) .blockwise = .ok X
      ∧ a.tensordotF (NormNet.braOf a xa) (.pair ((freeAxes a.ndim xa).map Int.ofNat)
          ((freeAxes a.ndim xa).map Int.ofNat)) .blockwise = .ok X'
      ∧ X.oddpos = [] ∧ X'.oddpos = [] ∧ X'.ndim = xa.length + xa.length ∧ X'.validB = true
      ∧ Eqv (X.transposeF (rotB xa.length xa.length)) X' := by
  obtain ⟨X, PX⟩ := piece_of a xa ha hfa hn hlt hoA hdA
  obtain ⟨X', MX⟩ := mpiece_of hmul a xa ha hfa hn hlt hoA hdA
  exact ⟨X, X', PX.call, MX.call, PX.odd, MX.odd, MX.nd, MX.valid, MX.eqv X PX⟩

/-- `MirrorHalf` written out -/
theorem mirrorHalf_spec {a b : Arr R} {xa xb : List Nat} {X' Y Y' : Arr R} {v : R}
    (H : MirrorHalf a b xa xb X' Y Y' v) :
    (∃ c, tdF X' Y (kbM a.ndim xa) (kbP b.ndim xb) = .ok c ∧ Scal c v)
    ∧ (∃ c, tdF Y X' (kbP b.ndim xb) (kbM a.ndim xa) = .ok c ∧ Scal c v)
    ∧ (∃ c, tdF Y' X' (kbM b.ndim xb) (kbM a.ndim xa) = .ok c ∧ Scal c v)
    ∧ (∃ c, tdF X' Y' (kbM a.ndim xa) (kbM b.ndim xb) = .ok c ∧ Scal c v)
    ∧ (∃ c, tdF X' Y' (kbP a.ndim xa) (kbP b.ndim xb) = .ok c ∧ Scal c v) :=
  ⟨H.rMY, H.rYM, H.rMM', H.rMM, H.rMMk⟩

/-- `MirrorHub` written out -/
theorem mirrorHub_spec {a b : Arr R} {xa xb : List Nat} {X Y X' Y' : Arr R} {v : R}
    (H : MirrorHub a b xa xb X Y X' Y' v) :
    KetBraHub a b xa xb X Y v ∧ MPiece a xa X' ∧ MPiece b xb Y'
      ∧ MirrorHalf a b xa xb X' Y Y' v ∧ MirrorHalf b a xb xa Y' X X' v := H

/-- **network_norm_mirror_hub.**  For every pair of sorted distinct ket label lists all routes through
    the ket-first pieces succeed and give the scalar of the hub (no label check). -/
theorem network_norm_mirror_hub (hmul : ∀ x y : R, x * y = y * x) (a b : Arr R) (xa xb : List Nat)
    (ha : a.validB = true) (hb : b.validB = true) (hfa : a.fermi = true) (hfb : b.fermi = true)
    (hadm : ValidP.tdotAdmissibleB a b xa xb = true)
    (hoA : KetLabels a.oddpos) (hoB : KetLabels b.oddpos)
    (hdA : a.oddpos.Pairwise (fun x y => x.1 ≠ y.1))
    (hdB : b.oddpos.Pairwise (fun x y => x.1 ≠ y.1)) :
    ∃ X Y X' Y' v, MirrorHub a b xa xb X Y X' Y' v := by
  have h := RoutesP.Adm.of ha hb hfa hfb hadm
  obtain ⟨X, Y, v, K⟩ := hub_all hmul a b xa xb h hoA hoB hdA hdB
  obtain ⟨X', Y', M⟩ := mirror_hub_of hmul h hoA hoB hdA hdB K
  exact ⟨X, Y, X', Y', v, M⟩

/-- **network_norm_mirror_all.**  The routes through `a·ā`, `b·b̄` give `Σ|K|²` under the label checks
    of C10j. -/
theorem network_norm_mirror_all (hmul : ∀ x y : R, x * y = y * x) (a b : Arr R) (xa xb : List Nat)
    (ha : a.validB = true) (hb : b.validB = true) (hfa : a.fermi = true) (hfb : b.fermi = true)
    (hadm : ValidP.tdotAdmissibleB a b xa xb = true)
    (hoA : KetLabels a.oddpos) (hoB : KetLabels b.oddpos)
    (hd : (a.oddpos ++ b.oddpos).Pairwise (fun x y => x.1 ≠ y.1))
    (hlab : (netLabelsB a.parity b.parity a.oddpos b.oddpos = true
              ∧ ketBraLabelsB a.parity b.parity a.oddpos b.oddpos = true)
          ∨ (netLabelsB b.parity a.parity b.oddpos a.oddpos = true
              ∧ ketBraLabelsB b.parity a.parity b.oddpos a.oddpos = true)) :
    MirrorAll a b xa xb :=
  mirror_all_of hmul (RoutesP.Adm.of ha hb hfa hfb hadm) hoA hoB (List.pairwise_append.1 hd).1
    (List.pairwise_append.1 hd).2.1
    (network_norm_ketbra_all hmul a b xa xb ha hb hfa hfb hadm hoA hoB hd hlab)

/-- at most one ket label per tensor, labels distinct: both label orders, no check -/
theorem network_norm_mirror_all_oneKet (hmul : ∀ x y : R, x * y = y * x) (a b : Arr R)
    (xa xb : List Nat)
    (ha : a.validB = true) (hb : b.validB = true) (hfa : a.fermi = true) (hfb : b.fermi = true)
    (hadm : ValidP.tdotAdmissibleB a b xa xb = true)
    (hoA : OneKet a.oddpos) (hoB : OneKet b.oddpos)
    (hd : (a.oddpos ++ b.oddpos).Pairwise (fun x y => x.1 ≠ y.1)) :
    MirrorAll a b xa xb :=
  mirror_all_of hmul (RoutesP.Adm.of ha hb hfa hfb hadm) hoA.ketLabels hoB.ketLabels
    (List.pairwise_append.1 hd).1 (List.pairwise_append.1 hd).2.1
    (network_norm_ketbra_all_oneKet hmul a b xa xb ha hb hfa hfb hadm hoA hoB hd)

/-- **network_norm_mirror_pair.**  `(a·ā)·(b·b̄) = Σ|K|²`: rank 0, no labels, no stray sign. -/
theorem network_norm_mirror_pair {a b : Arr R} {xa xb : List Nat} (M : MirrorAll a b xa xb) :
    ∃ K X' Y' c, a.tensordotF b (.pair (xa.map Int.ofNat) (xb.map Int.ofNat)) .blockwise = .ok K
      ∧ a.tensordotF (NormNet.braOf a xa) (.pair ((freeAxes a.ndim xa).map Int.ofNat)
            ((freeAxes a.ndim xa).map Int.ofNat)) .blockwise = .ok X' ∧ X'.oddpos = []
      ∧ b.tensordotF (NormNet.braOf b xb) (.pair ((freeAxes b.ndim xb).map Int.ofNat)
            ((freeAxes b.ndim xb).map Int.ofNat)) .blockwise = .ok Y' ∧ Y'.oddpos = []
      ∧ X'.tensordotF Y' (.pair ((kbP a.ndim xa).map Int.ofNat) ((kbP b.ndim xb).map Int.ofNat))
            .blockwise = .ok c
      ∧ c.ndim = 0 ∧ c.oddpos = [] ∧ c.elem [] [] = normSq K := by
  obtain ⟨K, X, Y, X', Y', eK, _, MX, MY, H, _⟩ := M
  obtain ⟨c, ec, Sc⟩ := H.rMMk
  exact ⟨K, X', Y', c, eK, MX.call, MX.odd, MY.call, MY.odd, ec, Sc⟩

/-- `MirrorAll` written out: all eight mirror routes give `Σ|K|²` -/
theorem mirrorAll_spec {a b : Arr R} {xa xb : List Nat} (M : MirrorAll a b xa xb) :
    ∃ K X Y X' Y', tdF a b xa xb = .ok K
      ∧ tdF (NormNet.braOf a xa) a (freeAxes a.ndim xa) (freeAxes a.ndim xa) = .ok X
      ∧ tdF (NormNet.braOf b xb) b (freeAxes b.ndim xb) (freeAxes b.ndim xb) = .ok Y
      ∧ tdF a (NormNet.braOf a xa) (freeAxes a.ndim xa) (freeAxes a.ndim xa) = .ok X'
      ∧ tdF b (NormNet.braOf b xb) (freeAxes b.ndim xb) (freeAxes b.ndim xb) = .ok Y'
      ∧ X'.oddpos = [] ∧ Y'.oddpos = []
      ∧ (∃ c, tdF X' Y (kbM a.ndim xa) (kbP b.ndim xb) = .ok c ∧ Scal c (normSq K))
      ∧ (∃ c, tdF Y X' (kbP b.ndim xb) (kbM a.ndim xa) = .ok c ∧ Scal c (normSq K))
      ∧ (∃ c, tdF Y' X' (kbM b.ndim xb) (kbM a.ndim xa) = .ok c ∧ Scal c (normSq K))
      ∧ (∃ c, tdF X' Y' (kbM a.ndim xa) (kbM b.ndim xb) = .ok c ∧ Scal c (normSq K))
      ∧ (∃ c, tdF X' Y' (kbP a.ndim xa) (kbP b.ndim xb) = .ok c ∧ Scal c (normSq K))
      ∧ (∃ c, tdF Y' X (kbM b.ndim xb) (kbP a.ndim xa) = .ok c ∧ Scal c (normSq K))
      ∧ (∃ c, tdF X Y' (kbP a.ndim xa) (kbM b.ndim xb) = .ok c ∧ Scal c (normSq K))
      ∧ (∃ c, tdF Y' X' (kbP b.ndim xb) (kbP a.ndim xa) = .ok c ∧ Scal c (normSq K)) := by
  obtain ⟨K, X, Y, X', Y', eK, Hub, MX, MY, H, H'⟩ := M
  exact ⟨K, X, Y, X', Y', eK, Hub.1.call, Hub.2.1.call, MX.call, MY.call, MX.odd, MY.odd,
    H.rMY, H.rYM, H.rMM', H.rMM, H.rMMk, H'.rMY, H'.rYM, H'.rMMk⟩

/-- `MirrorTri` written out -/
theorem mirrorTri_spec {a b : Arr R} {xa xb : List Nat} {X' : Arr R} {v : R}
    (T : MirrorTri a b xa xb X' v) :
    -- ((a·ā)·b̄)·b
    (∃ XB c, tdF X' (NormNet.braOf b xb) ((kbQ a.ndim xa).map (xa.length + ·)) xb = .ok XB
      ∧ tdF XB b (kbQ a.ndim xa ++ (List.range (freeAxes b.ndim xb).length).map (xa.length + ·))
          (xb ++ freeAxes b.ndim xb) = .ok c ∧ Scal c v)
    -- (b̄·(a·ā))·b
    ∧ (∃ BX c, tdF (NormNet.braOf b xb) X' xb ((kbQ a.ndim xa).map (xa.length + ·)) = .ok BX
      ∧ tdF BX b ((kbQ a.ndim xa).map ((freeAxes b.ndim xb).length + ·)
          ++ List.range (freeAxes b.ndim xb).length) (xb ++ freeAxes b.ndim xb) = .ok c ∧ Scal c v) :=
  ⟨T.rXB, T.rBX⟩

/-- **network_norm_mirror_tri_hub.**  `((a·ā)·b̄)·b`, `(b̄·(a·ā))·b`, `((b·b̄)·ā)·a`, `(ā·(b·b̄))·a` succeed and
    give the scalar of the hub, for every pair of sorted distinct ket label lists (no label check). -/
theorem network_norm_mirror_tri_hub (hmul : ∀ x y : R, x * y = y * x) (a b : Arr R) (xa xb : List Nat)
    (ha : a.validB = true) (hb : b.validB = true) (hfa : a.fermi = true) (hfb : b.fermi = true)
    (hadm : ValidP.tdotAdmissibleB a b xa xb = true)
    (hoA : KetLabels a.oddpos) (hoB : KetLabels b.oddpos)
    (hdA : a.oddpos.Pairwise (fun x y => x.1 ≠ y.1))
    (hdB : b.oddpos.Pairwise (fun x y => x.1 ≠ y.1)) :
    ∃ X Y X' Y' v, MirrorHub a b xa xb X Y X' Y' v
      ∧ MirrorTri a b xa xb X' v ∧ MirrorTri b a xb xa Y' v := by
  obtain ⟨X, Y, X', Y', v, M⟩ := network_norm_mirror_hub hmul a b xa xb ha hb hfa hfb hadm hoA hoB
    hdA hdB
  exact ⟨X, Y, X', Y', v, M, mirror_tris_of hmul (RoutesP.Adm.of ha hb hfa hfb hadm) hdA hdB M⟩

/-- the value of the routes of `network_norm_mirror_tri_hub` from `MirrorAll` -/
theorem mirror_tri_of_all (hmul : ∀ x y : R, x * y = y * x) {a b : Arr R} {xa xb : List Nat}
    (ha : a.validB = true) (hb : b.validB = true) (hfa : a.fermi = true) (hfb : b.fermi = true)
    (hadm : ValidP.tdotAdmissibleB a b xa xb = true)
    (hd : (a.oddpos ++ b.oddpos).Pairwise (fun x y => x.1 ≠ y.1)) (M : MirrorAll a b xa xb) :
    ∃ K X' Y', a.tensordotF b (.pair (xa.map Int.ofNat) (xb.map Int.ofNat)) .blockwise = .ok K
      ∧ tdF a (NormNet.braOf a xa) (freeAxes a.ndim xa) (freeAxes a.ndim xa) = .ok X'
      ∧ tdF b (NormNet.braOf b xb) (freeAxes b.ndim xb) (freeAxes b.ndim xb) = .ok Y'
      ∧ MirrorTri a b xa xb X' (normSq K) ∧ MirrorTri b a xb xa Y' (normSq K) := by
  obtain ⟨K, X, Y, X', Y', eK, M⟩ := M
  have T := mirror_tris_of hmul (RoutesP.Adm.of ha hb hfa hfb hadm) (List.pairwise_append.1 hd).1
    (List.pairwise_append.1 hd).2.1 M
  exact ⟨K, X', Y', eK, M.2.1.call, M.2.2.1.call, T.1, T.2⟩

/-- **network_norm_mirror_tri.**  `((a·ā)·b̄)·b = (b̄·(a·ā))·b = ((b·b̄)·ā)·a = (ā·(b·b̄))·a = Σ|K|²` under the
    label checks of C10j. -/
theorem network_norm_mirror_tri (hmul : ∀ x y : R, x * y = y * x) (a b : Arr R) (xa xb : List Nat)
    (ha : a.validB = true) (hb : b.validB = true) (hfa : a.fermi = true) (hfb : b.fermi = true)
    (hadm : ValidP.tdotAdmissibleB a b xa xb = true)
    (hoA : KetLabels a.oddpos) (hoB : KetLabels b.oddpos)
    (hd : (a.oddpos ++ b.oddpos).Pairwise (fun x y => x.1 ≠ y.1))
    (hlab : (netLabelsB a.parity b.parity a.oddpos b.oddpos = true
              ∧ ketBraLabelsB a.parity b.parity a.oddpos b.oddpos = true)
          ∨ (netLabelsB b.parity a.parity b.oddpos a.oddpos = true
              ∧ ketBraLabelsB b.parity a.parity b.oddpos a.oddpos = true)) :
    ∃ K X' Y', a.tensordotF b (.pair (xa.map Int.ofNat) (xb.map Int.ofNat)) .blockwise = .ok K
      ∧ tdF a (NormNet.braOf a xa) (freeAxes a.ndim xa) (freeAxes a.ndim xa) = .ok X'
      ∧ tdF b (NormNet.braOf b xb) (freeAxes b.ndim xb) (freeAxes b.ndim xb) = .ok Y'
      ∧ MirrorTri a b xa xb X' (normSq K) ∧ MirrorTri b a xb xa Y' (normSq K) :=
  mirror_tri_of_all hmul ha hb hfa hfb hadm hd
    (network_norm_mirror_all hmul a b xa xb ha hb hfa hfb hadm hoA hoB hd hlab)

/-- at most one ket label per tensor: both label orders, no check -/
theorem network_norm_mirror_tri_oneKet (hmul : ∀ x y : R, x * y = y * x) (a b : Arr R)
    (xa xb : List Nat)
    (ha : a.validB = true) (hb : b.validB = true) (hfa : a.fermi = true) (hfb : b.fermi = true)
    (hadm : ValidP.tdotAdmissibleB a b xa xb = true)
    (hoA : OneKet a.oddpos) (hoB : OneKet b.oddpos)
    (hd : (a.oddpos ++ b.oddpos).Pairwise (fun x y => x.1 ≠ y.1)) :
    ∃ K X' Y', a.tensordotF b (.pair (xa.map Int.ofNat) (xb.map Int.ofNat)) .blockwise = .ok K
      ∧ tdF a (NormNet.braOf a xa) (freeAxes a.ndim xa) (freeAxes a.ndim xa) = .ok X'
      ∧ tdF b (NormNet.braOf b xb) (freeAxes b.ndim xb) (freeAxes b.ndim xb) = .ok Y'
      ∧ MirrorTri a b xa xb X' (normSq K) ∧ MirrorTri b a xb xa Y' (normSq K) :=
  mirror_tri_of_all hmul ha hb hfa hfb hadm hd
    (network_norm_mirror_all_oneKet hmul a b xa xb ha hb hfa hfb hadm hoA hoB hd)

end main

/-! ## non-vacuity -/

open scoped SymmModel.Lazy

/-- the network `gA`, `gB` of C10d (labels 1 < 3, both tensors odd) -/
example : MirrorAll C03.gA C03.gB [2] [0] :=
  network_norm_mirror_all_oneKet Int.mul_comm C03.gA C03.gB [2] [0] (by decide +kernel)
    (by decide +kernel) rfl rfl (by decide +kernel) (Or.inr ⟨1, rfl⟩) (Or.inr ⟨3, rfl⟩) (by decide)

/-- `gA7`, `gB`: `label a = 7 > label b = 3` -/
example : MirrorAll gA7 C03.gB [2] [0] :=
  network_norm_mirror_all_oneKet Int.mul_comm gA7 C03.gB [2] [0] (by decide +kernel)
    (by decide +kernel) rfl rfl (by decide +kernel) (Or.inr ⟨7, rfl⟩) (Or.inr ⟨3, rfl⟩) (by decide)

example : ∃ X Y X' Y' v, MirrorHub gA7 C03.gB [2] [0] X Y X' Y' (v : Int) :=
  network_norm_mirror_hub Int.mul_comm gA7 C03.gB [2] [0] (by decide +kernel) (by decide +kernel)
    rfl rfl (by decide +kernel) (OneKet.ketLabels (Or.inr ⟨7, rfl⟩))
    (OneKet.ketLabels (Or.inr ⟨3, rfl⟩)) (by decide) (by decide)

example : ∃ X X', (NormNet.braOf C03.gA [2]).tensordotF C03.gA (.pair [0, 1] [0, 1]) .blockwise = .ok X
    ∧ C03.gA.tensordotF (NormNet.braOf C03.gA [2]) (.pair [0, 1] [0, 1]) .blockwise = .ok X'
    ∧ X.oddpos = [] ∧ X'.oddpos = [] ∧ X'.ndim = 1 + 1 ∧ X'.validB = true
    ∧ Eqv (X.transposeF (rotB 1 1)) X' :=
  network_norm_ketfirst_piece Int.mul_comm C03.gA [2] (by decide +kernel) rfl (by decide)
    (by decide) (OneKet.ketLabels (Or.inr ⟨1, rfl⟩)) (by decide)

/-- the mirror routes of `mirrorAll_spec` with exactly its axes lists, evaluated: `[value, rank, number of
    labels]` of each, preceded by `normSq (a·b)` -/
def mirrorVals (a b : Arr Int) (xa xb : List Nat) : List (List Int) :=
  let fA := freeAxes a.ndim xa
  let fB := freeAxes b.ndim xb
  let val (r : Except Err (Arr Int)) : List Int :=
    match r with
    | .ok c => [c.elem [] [], (c.ndim : Int), (c.oddpos.length : Int)]
    | .error _ => [-1]
  let X := tdF (NormNet.braOf a xa) a fA fA
  let Y := tdF (NormNet.braOf b xb) b fB fB
  let X' := tdF a (NormNet.braOf a xa) fA fA
  let Y' := tdF b (NormNet.braOf b xb) fB fB
  [ (match tdF a b xa xb with | .ok k => [normSq k] | .error _ => [-1]),
    val (do let x ← X'; let y ← Y; tdF x y (kbM a.ndim xa) (kbP b.ndim xb)),
    val (do let x ← X'; let y ← Y; tdF y x (kbP b.ndim xb) (kbM a.ndim xa)),
    val (do let x ← X'; let y ← Y'; tdF y x (kbM b.ndim xb) (kbM a.ndim xa)),
    val (do let x ← X'; let y ← Y'; tdF x y (kbM a.ndim xa) (kbM b.ndim xb)),
    val (do let x ← X'; let y ← Y'; tdF x y (kbP a.ndim xa) (kbP b.ndim xb)),
    val (do let x ← X; let y ← Y'; tdF y x (kbM b.ndim xb) (kbP a.ndim xa)),
    val (do let x ← X; let y ← Y'; tdF x y (kbP a.ndim xa) (kbM b.ndim xb)),
    val X' ]

theorem mirror_vals :
    mirrorVals C03.gA C03.gB [2] [0]
      = [[16422], [16422, 0, 0], [16422, 0, 0], [16422, 0, 0], [16422, 0, 0], [16422, 0, 0],
          [16422, 0, 0], [16422, 0, 0], [0, 2, 0]]
    ∧ mirrorVals gA7 C03.gB [2] [0]
      = [[16422], [16422, 0, 0], [16422, 0, 0], [16422, 0, 0], [16422, 0, 0], [16422, 0, 0],
          [16422, 0, 0], [16422, 0, 0], [0, 2, 0]] := by
  decide +kernel

/-- the triangle routes on `gA7`, `gB` (`label a = 7 > label b = 3`) -/
example : ∃ K X' Y', gA7.tensordotF C03.gB (.pair [2] [0]) .blockwise = .ok K
    ∧ tdF gA7 (NormNet.braOf gA7 [2]) [0, 1] [0, 1] = .ok X'
    ∧ tdF C03.gB (NormNet.braOf C03.gB [0]) [1, 2] [1, 2] = .ok Y'
    ∧ MirrorTri gA7 C03.gB [2] [0] X' (normSq K) ∧ MirrorTri C03.gB gA7 [0] [2] Y' (normSq K) :=
  network_norm_mirror_tri_oneKet Int.mul_comm gA7 C03.gB [2] [0] (by decide +kernel)
    (by decide +kernel) rfl rfl (by decide +kernel) (Or.inr ⟨7, rfl⟩) (Or.inr ⟨3, rfl⟩) (by decide)

/-- the routes of `mirrorTri_spec` with exactly its axes lists, evaluated -/
def mirrorTriVals (a b : Arr Int) (xa xb : List Nat) : List (List Int) :=
  let fA := freeAxes a.ndim xa
  let fB := freeAxes b.ndim xb
  let val (r : Except Err (Arr Int)) : List Int :=
    match r with
    | .ok c => [c.elem [] [], (c.ndim : Int), (c.oddpos.length : Int)]
    | .error _ => [-1]
  let half (a b : Arr Int) (xa xb : List Nat) : List (List Int) :=
    let fA := freeAxes a.ndim xa
    let fB := freeAxes b.ndim xb
    let X' := tdF a (NormNet.braOf a xa) fA fA
    [ val (do let x ← X'; let t ← tdF x (NormNet.braOf b xb) ((kbQ a.ndim xa).map (xa.length + ·)) xb
              tdF t b (kbQ a.ndim xa ++ (List.range fB.length).map (xa.length + ·)) (xb ++ fB)),
      val (do let x ← X'; let t ← tdF (NormNet.braOf b xb) x xb ((kbQ a.ndim xa).map (xa.length + ·))
              tdF t b ((kbQ a.ndim xa).map (fB.length + ·) ++ List.range fB.length) (xb ++ fB)) ]
  let _ := fA
  let _ := fB
  [ (match tdF a b xa xb with | .ok k => [normSq k] | .error _ => [-1]) ]
    ++ half a b xa xb ++ half b a xb xa

theorem mirror_tri_vals :
    mirrorTriVals C03.gA C03.gB [2] [0]
      = [[16422], [16422, 0, 0], [16422, 0, 0], [16422, 0, 0], [16422, 0, 0]]
    ∧ mirrorTriVals gA7 C03.gB [2] [0]
      = [[16422], [16422, 0, 0], [16422, 0, 0], [16422, 0, 0], [16422, 0, 0]] := by
  decide +kernel

/-! ## the nested routes of the three-tensor chain (evaluation only) -/

/-- `c̄·(b̄·(ā·K3))` and `((K3·c̄)·b̄)·ā` for a chain `a – b – c` (bonds `xa`–`xb1`, `xb2`–`xc`), axes lists in
    closed form: `[normSq K3]`, then `[rank, labels…]` of `K3`, `ā·K3`, `b̄·(ā·K3)`, `[value, rank, #labels]`
    of `c̄·(b̄·(ā·K3))`, `[rank, labels…]` of `K3·c̄`, `(K3·c̄)·b̄`, `[value, rank, #labels]` of `((K3·c̄)·b̄)·ā` -/
def chain3NestedVals (a b c : Arr Int) (xa xb1 xb2 xc : List Nat) : List (List Int) :=
  let val (r : Except Err (Arr Int)) : List Int :=
    match r with
    | .ok c => [c.elem [] [], (c.ndim : Int), (c.oddpos.length : Int)]
    | .error _ => [-1]
  let lab (r : Except Err (Arr Int)) : List Int :=
    match r with
    | .ok c => (c.ndim : Int) :: c.oddpos.flatMap (fun p => [p.1, if p.2 then 1 else 0])
    | .error _ => [-1]
  let fA := freeAxes a.ndim xa
  let fB := freeAxes b.ndim (xb1 ++ xb2)
  let fC := freeAxes c.ndim xc
  let ab := NormNet.braOf a xa
  let bb := NormNet.braOf b (xb1 ++ xb2)
  let cb := NormNet.braOf c xc
  let K3 := do let k2 ← tdF a b xa xb1; tdF k2 c (AssocP.axesAB a.ndim b.ndim xa xb1 xb2) xc
  let nA := fA.length
  let nB := fB.length
  let nC := fC.length
  -- ā·K3 : legs [ā's bond legs, b's dangling legs, c's dangling legs]
  let T1 := do let k3 ← K3; tdF ab k3 fA (List.range nA)
  -- b̄·(ā·K3) : legs [b̄'s bond legs towards c̄, c's dangling legs]
  let T2 := do let t1 ← T1
               tdF bb t1 (xb1 ++ fB) (kbQ a.ndim xa ++ (List.range nB).map (xa.length + ·))
  let qb := RoutesP.positions (freeAxes b.ndim (xb1 ++ fB)) xb2
  let T3 := do let t2 ← T2; tdF cb t2 (xc ++ fC) (qb ++ (List.range nC).map (xb2.length + ·))
  -- K3·c̄ : legs [a's dangling, b's dangling, c̄'s bond legs]
  let S1 := do let k3 ← K3; tdF k3 cb ((List.range nC).map (nA + nB + ·)) fC
  let qc := RoutesP.positions (freeAxes c.ndim fC) xc
  -- (K3·c̄)·b̄ : legs [a's dangling, b̄'s bond legs towards ā]
  let S2 := do let s1 ← S1
               tdF s1 bb ((List.range nB).map (nA + ·) ++ qc.map (nA + nB + ·)) (fB ++ xb2)
  let qb1 := RoutesP.positions (freeAxes b.ndim (fB ++ xb2)) xb1
  let S3 := do let s2 ← S2; tdF s2 ab (List.range nA ++ qb1.map (nA + ·)) (fA ++ xa)
  [ (match K3 with | .ok k => [normSq k] | .error _ => [-1]),
    lab K3, lab T1, lab T2, val T3, lab S1, lab S2, val S3 ]

theorem chain3_nested_vals :
    chain3NestedVals C03.gA C03.gB gC [2] [0] [2] [0]
      = [[117734], [4, 1, 0, 3, 0, 5, 0], [3, 3, 0, 5, 0], [2, 5, 0], [117734, 0, 0],
          [4, 1, 0, 3, 0], [3, 1, 0], [117734, 0, 0]]
    ∧ chain3NestedVals gA7 C03.gB gC [2] [0] [2] [0]
      = [[117734], [4, 3, 0, 5, 0, 7, 0], [3, 7, 1, 3, 0, 5, 0, 7, 0], [2, 7, 1, 5, 0, 7, 0],
          [117734, 0, 0], [4, 3, 0, 7, 0], [3, 7, 0], [117734, 0, 0]] := by
  decide +kernel

end SymmModel.C10
