/-
  C02 (third part) — single-operand einsum with traced labels at dense level:
  `to_dense(einsum(eq, a)) = np.einsum(eq, to_dense(a))` for equations with any number of traced
  pairs (the last PLANNED item of C02; the matrix trace is `traceA_toDense`, permutation equations
  are `C08.einsum_perm_toDense`).

  Lifted from `einsumA_elem` (second part) by re-indexing the dense traced box into
  (charge, offset) pairs — `DenseP.sum_locateAll` on the indices of the traced labels — and
  matching the stored contributing sectors with the assembled sectors.

  Vocabulary (namespace `SymmModel.Dense5`, Proofs/Dense5b-e.lean):
    `eqOkB lhs rhs`   output labels distinct, all present on the left, each exactly once there
    `tabOkB a lhs`    axes carrying the same label have the same sorted charge table (for a traced
                      pair this is what makes `np.einsum` on the dense array meaningful: equal
                      sizes AND equal charge layout)
  together with `einTracedPos … length = 2` (every other label occurs exactly twice: the guard of
  `einsumA`).  `Blk.einsumK` is numpy's single-operand einsum kernel (Model/Blk.lean).
-/
import SymmModel.Proofs.Dense5e
import SymmModel.Props.C02b

namespace SymmModel.C02
open SymmModel SymmModel.TdotP Dense5 DenseP

variable {R : Type}

/-- **einsumA_toDense.**  For a valid abelian array and an admissible equation: `einsumA`
    succeeds, its result has the permuted kept indices, and its dense form has the shape and, at
    every position, the entry of `np.einsum` applied to the dense form of the operand. -/
theorem einsumA_toDense [AddCommMonoid R] [Neg R] (a : Arr R) (lhs rhs : List Nat)
    (hl : lhs.length = a.ndim) (hok : eqOkB lhs rhs = true) (htab : tabOkB a lhs = true)
    (h2 : (einTracedPos lhs rhs).any (fun js => js.length != 2) = false)
    (hv : a.validB = true) (hf : a.fermi = false) (hne : NoEmpty a) :
    ∃ c dA dC, einsumA a lhs rhs = .ok c
      ∧ c.indices = permuted a.indices (Dense4.einPermOf lhs rhs)
      ∧ a.toDenseA = .ok dA ∧ c.toDenseA = .ok dC
      ∧ dC.shape = (dA.einsumK lhs rhs).shape
      ∧ ∀ q, inBox dC.shape q = true → dC.get q = (dA.einsumK lhs rhs).get q :=
  einsum_dense_main a lhs rhs hl (eqOk_of_B hok) (tabOk_of_B htab) h2 hv hf hne

/-- … as an equality of dense arrays: `to_dense(einsum(a)) = np.einsum(to_dense(a))` -/
theorem einsumA_toDense_eq [AddCommMonoid R] [Neg R] (a : Arr R) (lhs rhs : List Nat)
    (hl : lhs.length = a.ndim) (hok : eqOkB lhs rhs = true) (htab : tabOkB a lhs = true)
    (h2 : (einTracedPos lhs rhs).any (fun js => js.length != 2) = false)
    (hv : a.validB = true) (hf : a.fermi = false) (hne : NoEmpty a) :
    ∃ c dA, einsumA a lhs rhs = .ok c ∧ a.toDenseA = .ok dA
      ∧ c.toDenseA = .ok (dA.einsumK lhs rhs) := by
  obtain ⟨c, dA, dC, h1, hci, h3, h4, h5, h6⟩ := einsumA_toDense a lhs rhs hl hok htab h2 hv hf hne
  refine ⟨c, dA, h1, h3, ?_⟩
  rw [h4]
  congr 1
  have hwC : dC.wf = true := by
    have hne' : c.indices.any (fun ix => ix.cm.isEmpty) = false := by
      rw [hci]
      have hne0 : a.indices.any (fun ix => ix.cm.isEmpty) = false := hne
      rw [List.any_eq_false] at hne0 ⊢
      exact fun ix hix => hne0 ix (mem_of_mem_permuted hix)
    rw [Arr.toDenseA_eq c false hne'] at h4
    injection h4 with h4
    subst h4
    exact Blk.wf_ofFn _ _
  have hwK : (dA.einsumK lhs rhs).wf = true := by
    unfold Blk.einsumK; exact Blk.wf_ofFn _ _
  have hdata : dC.data.toList = (dA.einsumK lhs rhs).data.toList := by
    rw [← allIdx_map_get dC hwC, ← allIdx_map_get _ hwK, ← h5]
    apply List.map_congr_left
    intro q hq
    exact h6 q (mem_allIdx.mp hq)
  cases dC with
  | mk shp dat =>
    cases hK : dA.einsumK lhs rhs with
    | mk shp' dat' =>
      rw [hK] at h5 hdata
      simp only at h5 hdata
      subst h5
      congr 1
      exact Array.toList_inj.mp hdata

/-! ## examples: two traced pairs, a traced pair with a kept axis, a missing block -/

section Examples3

/-- a rank-4 Z2 array `t[i,j,k,l]`, charge 0, index tables (I, J, I*, J*), filled with distinct
    integers on every charge-conserving sector -/
def exT : Arr Int :=
  match fromFillFn .Z2 false [ixI, ixJ, ixI.conj, ixJ.conj] none
      (fun s shp => Blk.ofFn shp (fun i => (ravel shp i : Int) + 1 + 10 * (s.map (·.1)).foldl (· + ·) 0)) with
  | .ok b => b
  | .error _ => default
/-- the same with two of its blocks removed (sparse operand) -/
def exT' : Arr Int := { exT with blocks := exT.blocks.drop 2 }

def densOf (r : Except Err (Blk Int)) : Option (List Nat × List Int) :=
  match r with | .ok b => some (b.shape, b.data.toList) | .error _ => none

example : exT.validB = true ∧ exT'.validB = true ∧ exT.blocks.length = 8 ∧ NoEmpty exT := by
  decide +kernel
-- "ijij->" (two traced pairs) and "ijil->jl" (one traced pair, two kept axes, l before j: "->lj")
example : eqOkB [0, 1, 0, 1] [] = true ∧ tabOkB exT [0, 1, 0, 1] = true
    ∧ (einTracedPos [0, 1, 0, 1] []).any (fun js => js.length != 2) = false
    ∧ eqOkB [0, 1, 0, 3] [3, 1] = true ∧ tabOkB exT [0, 1, 0, 3] = true
    ∧ (einTracedPos [0, 1, 0, 3] [3, 1]).any (fun js => js.length != 2) = false := by decide +kernel
-- block einsum then densify = numpy's einsum kernel on the dense array (also for the sparse operand)
example :
    densOf (einsumA exT [0, 1, 0, 1] [] >>= Arr.toDenseA)
      = densOf (exT.toDenseA.map (fun d => d.einsumK [0, 1, 0, 1] []))
    ∧ densOf (einsumA exT' [0, 1, 0, 3] [3, 1] >>= Arr.toDenseA)
      = densOf (exT'.toDenseA.map (fun d => d.einsumK [0, 1, 0, 3] [3, 1])) := by decide +kernel
example := einsumA_toDense_eq (R := Int) exT [0, 1, 0, 1] [] (by decide +kernel) (by decide)
  (by decide +kernel) (by decide) (by decide +kernel) (by decide +kernel) (by decide +kernel)
example := einsumA_toDense (R := Int) exT' [0, 1, 0, 3] [3, 1] (by decide +kernel) (by decide)
  (by decide +kernel) (by decide) (by decide +kernel) (by decide +kernel) (by decide +kernel)
-- the table hypothesis is needed: "ijkl" labelled "ijji" pairs axes with different tables
example : tabOkB exT [0, 1, 1, 0] = false := by decide +kernel

end Examples3

end SymmModel.C02
