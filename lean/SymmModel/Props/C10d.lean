/-
  Property C10, network clause, round 2 — "… the same holds for a whole network conjugated tensor by
  tensor once the dangling legs that were bra-like are sign-flipped, along every contraction
  route": the BRACKETINGS of the four-tensor norm network `{a, b, ā, b̄}` of two valid fermionic
  arrays `a`, `b` bonded along `xa`/`xb` (`ValidP.tdotAdmissibleB`), each with no label or one
  non-dual label (`NormNet.OneKet`), labels distinct; `ā = braOf a xa`, `b̄ = braOf b xb` as in C10c;
  `K = a·b`, `K̄ = ā·b̄`; blockwise mode; scalars: `AddCommMonoid`, `NormNet.NetLaws`,
  `AssocP.AssocLaws` (instances `Int`, `GRat`).  `normSq K = Σ conj(v)·v`, `normSq' K = Σ v·conj(v)`
  over the stored entries `v` of `K` (C10b); equal for commutative `*`.

  COVERED (`network_norm_bracketings_partial`; every result has rank 0, no labels, no stray sign):
    B1  (ā·b̄)·(a·b) = normSq K        B2  (a·b)·(ā·b̄) = normSq' K      [C10c; final leg pairs in any
                                                                      order; bond legs in any order]
    under the decidable guard `netFullB a b xa xb` (the index tables of `a·b` are not pruned: every
    charge of every dangling leg of `a`, `b` occurs in a sector key of `a·b`):
    S1  ((ā·b̄)·a)·b  = normSq K        S2  ā·(b̄·(a·b))  = normSq K
    S3  ((a·b)·ā)·b̄  = normSq' K       S4  a·(b·(ā·b̄))  = normSq' K
    — each by S7 of C04 (`Assoc2P.tdotF_assoc_tri`, triangle `half – tensor – tensor`, everything
    contracted: `assoc_scalar`) from B1/B2; the label hypothesis `LabelRoutes` of S7 is proved for the
    four operand triples (`labelRoutes_net`, with `C04.labelRoutes_norm_one`).
    The same six statements for the operand-swapped network `{b, a, b̄, ā}` (`K' = b·a`,
    `K̄' = b̄·ā`; `network_norm_bracketings_swapped_partial`): the hypotheses are symmetric.
    `network_norm_tensorwise` is S1 alone; `network_norm_bracketings_comm_partial`: for commutative
    `*` all six values are `normSq K`.

  NOT COVERED, and why:
  * S1–S4 WITHOUT the guard `netFullB`.  When `a·b` has pruned index tables, `K̄` (and `K`) is not
    `contractibleB` with `a` (`ā`): the charge tables differ.  `C04.tdotF_assoc_labels` demands the
    documented guard `tdotAdmissibleB` for its two first-level calls (`K̄·a`, `a·b`), so it does not
    apply — `tensorwise_pruned_witness`: a valid network where `tdotAdmissibleB K̄ a` is `false`
    while the route S1 still evaluates to `normSq K`.  Needed: S7 under the weak guard
    (`tdotAdmissibleCommonB`) also on the first-level calls (C04d lists this as open).
  * bracketings that first contract a ket tensor with a bra tensor: `(a·ā)·(b·b̄)`,
    `((a·ā)·b)·b̄`, `(ā·(b̄·a))·b`, …: each is connected to B1/B2 only through an S7 instance whose
    first-level call involves an intermediate result that is not one of the halves (e.g. `b̄·a`
    against `b`), again pruned tables, and whose labels contain conjugate pairs that do not
    annihilate at once (`C04.conjugate_pairs_labels_route_dependent`).
  * mixed operand orders, e.g. `(b̄·ā)·(a·b)` or `((ā·b̄)·b)·a`: `C04.tdotF_swap` (S5) needs pairwise
    distinct labels, so it applies to `a·b` vs `b·a` and `ā·b̄` vs `b̄·ā` but not to a contraction
    between a ket and a bra object; and it is address-wise with a different block order, so the
    swapped half cannot be substituted (`ObsEq` fails).  Also not proved: `normSq (b·a) = normSq (a·b)`
    (a re-ordering of the double sum over sectors and offsets).
  * operands with several labels in S1–S4 (`LabelRoutes` for longer lists with conjugate pairs is
    open in C04d; B1/B2 hold for any sorted ket label lists, C10c); three-tensor chains; `fused`.
-/
import SymmModel.Proofs.NormNet12
import SymmModel.Props.C10c
import SymmModel.Props.C04d

namespace SymmModel.C10
open SymmModel Lazy Norm NormNet TdotP

/-! ## vocabulary -/

theorem netFullB_def {R : Type} (a b : Arr R) (xa xb : List Nat) :
    netFullB a b xa xb
      = ((without a.indices xa ++ without b.indices xb).zipIdx.all (fun p =>
          p.1.charges.all (fun c =>
            ((tdKeys a.sectors b.sectors (freeAxes a.ndim xa) xa xb (freeAxes b.ndim xb)).filterMap
              (fun s => s[p.2]?)).contains c))) := rfl

/-- the guard gives: the index tables of `a·b` are the un-pruned frame -/
theorem netFull_indices {R : Type} [AddMonoid R] [Mul R] [Neg R] [GradedP.SignRing R]
    {a b K : Arr R} {xa xb : List Nat}
    (ha : a.validB = true) (hb : b.validB = true) (hfa : a.fermi = true) (hfb : b.fermi = true)
    (hadm : ValidP.tdotAdmissibleB a b xa xb = true)
    (eK : a.tensordotF b (.pair (xa.map Int.ofNat) (xb.map Int.ofNat)) .blockwise = .ok K)
    (hf : netFullB a b xa xb = true) :
    K.indices = without a.indices xa ++ without b.indices xb :=
  tdot_indices (RoutesP.Adm.of ha hb hfa hfb hadm) eK hf

/-- the axes of the second calls of the sequential routes (`Assoc2P.axesAB/axesBC` of C04d) -/
theorem axesTW_def (np nq : Nat) (xp xq : List Nat) :
    axesTW np nq xp xq
      = Assoc2P.axesAB ((freeAxes np xp).length + (freeAxes nq xq).length) np
          (List.range (freeAxes np xp).length)
          ((List.range (freeAxes nq xq).length).map ((freeAxes np xp).length + ·))
          (freeAxes np xp) xp
    ∧ axesTWr np nq xp xq
      = Assoc2P.axesBC nq ((freeAxes np xp).length + (freeAxes nq xq).length) xq (freeAxes nq xq)
          ((List.range (freeAxes nq xq).length).map ((freeAxes np xp).length + ·))
          (List.range (freeAxes np xp).length) := ⟨rfl, rfl⟩

/-! ## S7 for scalars and the labels -/

/-- S7 for a triangle whose legs are ALL contracted: both routes succeed with rank-0 results
    having the same labels and the same value -/
theorem assoc_scalar {R : Type} [AddCommMonoid R] [Mul R] [Neg R] [GradedP.SignRing R]
    [AssocP.AssocLaws R] (A B C : Arr R) (xa1 xa3 xb1 xb2 xc2 xc3 : List Nat)
    (hA : A.validB = true) (hB : B.validB = true) (hC : C.validB = true)
    (hfA : A.fermi = true) (hfB : B.fermi = true) (hfC : C.fermi = true)
    (h1 : ValidP.tdotAdmissibleB A B xa1 xb1 = true) (h2 : ValidP.tdotAdmissibleB B C xb2 xc2 = true)
    (h3 : ValidP.contractibleB A C xa3 xc3 = true)
    (hnA : (xa1 ++ xa3).Nodup) (hnB : (xb1 ++ xb2).Nodup) (hnC : (xc2 ++ xc3).Nodup)
    (hltA : ∀ i ∈ xa3, i < A.ndim) (hltC : ∀ i ∈ xc3, i < C.ndim)
    (hL : Assoc2P.LabelRoutes A.parity B.parity A.oddpos B.oddpos C.oddpos)
    (fA : freeAxes A.ndim (xa1 ++ xa3) = []) (fB : freeAxes B.ndim (xb1 ++ xb2) = [])
    (fC : freeAxes C.ndim (xc2 ++ xc3) = []) :
    ∃ AB BC c1 c2 : Arr R,
      A.tensordotF B (.pair (xa1.map Int.ofNat) (xb1.map Int.ofNat)) .blockwise = .ok AB
      ∧ AB.tensordotF C (.pair ((Assoc2P.axesAB A.ndim B.ndim xa1 xa3 xb1 xb2).map Int.ofNat)
          ((xc3 ++ xc2).map Int.ofNat)) .blockwise = .ok c1
      ∧ B.tensordotF C (.pair (xb2.map Int.ofNat) (xc2.map Int.ofNat)) .blockwise = .ok BC
      ∧ A.tensordotF BC (.pair ((xa1 ++ xa3).map Int.ofNat)
          ((Assoc2P.axesBC B.ndim C.ndim xb1 xb2 xc2 xc3).map Int.ofNat)) .blockwise = .ok c2
      ∧ c2.oddpos = c1.oddpos ∧ c2.indices = c1.indices ∧ c2.elem [] [] = c1.elem [] [] :=
  NormNet.assoc_scalar A B C xa1 xa3 xb1 xb2 xc2 xc3 hA hB hC hfA hfB hfC h1 h2 h3 hnA hnB hnC
    hltA hltC hL fA fB fC

/-- the label hypothesis of S7 for the four operand triples `(K, ā, b̄)`, `(a, b, K̄)`, `(ā, b̄, K)`,
    `(K̄, a, b)`, in terms of the labels `out` the model computes for `K = a·b` -/
theorem labelRoutes_net (oA oB out : List (Int × Bool)) (ph : Int) (hA : OneKet oA)
    (hB : OneKet oB) (hd : (oA ++ oB).Pairwise (fun x y => x.1 ≠ y.1))
    (hm : OddposP.mergeOddpos (oA.length % 2 == 1) oA oB = .ok (out, ph)) :
    Assoc2P.LabelRoutes (xor (oA.length % 2 == 1) (oB.length % 2 == 1)) (oA.length % 2 == 1)
        out (Arr.oddposDag oA) (Arr.oddposDag oB)
    ∧ Assoc2P.LabelRoutes (oA.length % 2 == 1) (oB.length % 2 == 1) oA oB (Arr.oddposDag out)
    ∧ Assoc2P.LabelRoutes (oA.length % 2 == 1) (oB.length % 2 == 1)
        (Arr.oddposDag oA) (Arr.oddposDag oB) out
    ∧ Assoc2P.LabelRoutes (xor (oA.length % 2 == 1) (oB.length % 2 == 1)) (oA.length % 2 == 1)
        (Arr.oddposDag out) oA oB :=
  ⟨(NormNet.labelRoutes_net oA oB out ph hA hB hd hm).1,
   (NormNet.labelRoutes_net oA oB out ph hA hB hd hm).2.1,
   (NormNet.labelRoutes_net oA oB out ph hA hB hd hm).2.2,
   NormNet.labelRoutes_bra_ket oA oB out ph hA hB hd hm⟩

/-! ## the bracketings -/

section main
variable {R : Type} [AddCommMonoid R] [Mul R] [Neg R] [Conj R] [NetLaws R] [AssocP.AssocLaws R]

/-- **network_norm_bracketings_partial.**  For valid fermionic `a`, `b` with ket labels: the
    balanced bracketings B1, B2 (final leg pairs in any order `π`) and, under `netFullB`, the
    sequential bracketings S1–S4 of the norm network give `Σ |K|²` — `normSq K` when the bra side
    is on the left, `normSq' K` when it is on the right — as rank-0 arrays without labels. -/
theorem network_norm_bracketings_partial (a b : Arr R) (xa xb : List Nat)
    (ha : a.validB = true) (hb : b.validB = true) (hfa : a.fermi = true) (hfb : b.fermi = true)
    (hadm : ValidP.tdotAdmissibleB a b xa xb = true)
    (hoA : OneKet a.oddpos) (hoB : OneKet b.oddpos)
    (hd : (a.oddpos ++ b.oddpos).Pairwise (fun x y => x.1 ≠ y.1)) :
    ∃ K Kb, a.tensordotF b (.pair (xa.map Int.ofNat) (xb.map Int.ofNat)) .blockwise = .ok K
      ∧ (braOf a xa).tensordotF (braOf b xb) (.pair (xa.map Int.ofNat) (xb.map Int.ofNat)) .blockwise
          = .ok Kb
      -- B1, B2
      ∧ (∃ r r', r.ndim = 0 ∧ r.oddpos = [] ∧ r.elem [] [] = normSq K
          ∧ r'.ndim = 0 ∧ r'.oddpos = [] ∧ r'.elem [] [] = normSq' K
          ∧ ∀ π : List Nat, π.Perm (List.range K.ndim) →
              Kb.tensordotF K (.pair (π.map Int.ofNat) (π.map Int.ofNat)) .blockwise = .ok r
              ∧ K.tensordotF Kb (.pair (π.map Int.ofNat) (π.map Int.ofNat)) .blockwise = .ok r')
      ∧ (netFullB a b xa xb = true →
        -- S1  ((ā·b̄)·a)·b
        (∃ T c, Kb.tensordotF a (.pair ((List.range (freeAxes a.ndim xa).length).map Int.ofNat)
              ((freeAxes a.ndim xa).map Int.ofNat)) .blockwise = .ok T
          ∧ T.tensordotF b (.pair ((axesTW a.ndim b.ndim xa xb).map Int.ofNat)
              ((freeAxes b.ndim xb ++ xb).map Int.ofNat)) .blockwise = .ok c
          ∧ c.ndim = 0 ∧ c.oddpos = [] ∧ c.elem [] [] = normSq K)
        -- S2  ā·(b̄·(a·b))
        ∧ (∃ T c, (braOf b xb).tensordotF K (.pair ((freeAxes b.ndim xb).map Int.ofNat)
              (((List.range (freeAxes b.ndim xb).length).map ((freeAxes a.ndim xa).length + ·)).map
                Int.ofNat)) .blockwise = .ok T
          ∧ (braOf a xa).tensordotF T (.pair ((xa ++ freeAxes a.ndim xa).map Int.ofNat)
              ((axesTWr a.ndim b.ndim xa xb).map Int.ofNat)) .blockwise = .ok c
          ∧ c.ndim = 0 ∧ c.oddpos = [] ∧ c.elem [] [] = normSq K)
        -- S3  ((a·b)·ā)·b̄
        ∧ (∃ T c, K.tensordotF (braOf a xa) (.pair ((List.range (freeAxes a.ndim xa).length).map Int.ofNat)
              ((freeAxes a.ndim xa).map Int.ofNat)) .blockwise = .ok T
          ∧ T.tensordotF (braOf b xb) (.pair ((axesTW a.ndim b.ndim xa xb).map Int.ofNat)
              ((freeAxes b.ndim xb ++ xb).map Int.ofNat)) .blockwise = .ok c
          ∧ c.ndim = 0 ∧ c.oddpos = [] ∧ c.elem [] [] = normSq' K)
        -- S4  a·(b·(ā·b̄))
        ∧ (∃ T c, b.tensordotF Kb (.pair ((freeAxes b.ndim xb).map Int.ofNat)
              (((List.range (freeAxes b.ndim xb).length).map ((freeAxes a.ndim xa).length + ·)).map
                Int.ofNat)) .blockwise = .ok T
          ∧ a.tensordotF T (.pair ((xa ++ freeAxes a.ndim xa).map Int.ofNat)
              ((axesTWr a.ndim b.ndim xa xb).map Int.ofNat)) .blockwise = .ok c
          ∧ c.ndim = 0 ∧ c.oddpos = [] ∧ c.elem [] [] = normSq' K)) :=
  network_norm_bracketings a b xa xb ha hb hfa hfb hadm hoA hoB hd

/-- **network_norm_tensorwise** (S1): contracting the ket tensors one at a time into the bra half,
    `((ā·b̄)·a)·b = normSq (a·b)` -/
theorem network_norm_tensorwise (a b : Arr R) (xa xb : List Nat)
    (ha : a.validB = true) (hb : b.validB = true) (hfa : a.fermi = true) (hfb : b.fermi = true)
    (hadm : ValidP.tdotAdmissibleB a b xa xb = true)
    (hoA : OneKet a.oddpos) (hoB : OneKet b.oddpos)
    (hd : (a.oddpos ++ b.oddpos).Pairwise (fun x y => x.1 ≠ y.1))
    (hf : netFullB a b xa xb = true) :
    ∃ K Kb T c, a.tensordotF b (.pair (xa.map Int.ofNat) (xb.map Int.ofNat)) .blockwise = .ok K
      ∧ (braOf a xa).tensordotF (braOf b xb) (.pair (xa.map Int.ofNat) (xb.map Int.ofNat)) .blockwise
          = .ok Kb
      ∧ Kb.tensordotF a (.pair ((List.range (freeAxes a.ndim xa).length).map Int.ofNat)
          ((freeAxes a.ndim xa).map Int.ofNat)) .blockwise = .ok T
      ∧ T.tensordotF b (.pair ((axesTW a.ndim b.ndim xa xb).map Int.ofNat)
          ((freeAxes b.ndim xb ++ xb).map Int.ofNat)) .blockwise = .ok c
      ∧ c.ndim = 0 ∧ c.oddpos = [] ∧ c.elem [] [] = normSq K := by
  obtain ⟨K, Kb, eK, eKb, _, hs⟩ := network_norm_bracketings a b xa xb ha hb hfa hfb hadm hoA hoB hd
  obtain ⟨⟨T, c, e1, e2, q⟩, _⟩ := hs hf
  exact ⟨K, Kb, T, c, eK, eKb, e1, e2, q⟩

/-- for a commutative product all six covered bracketings give the same number `normSq K` -/
theorem network_norm_bracketings_comm_partial (hc : ∀ x y : R, x * y = y * x) (a b : Arr R)
    (xa xb : List Nat)
    (ha : a.validB = true) (hb : b.validB = true) (hfa : a.fermi = true) (hfb : b.fermi = true)
    (hadm : ValidP.tdotAdmissibleB a b xa xb = true)
    (hoA : OneKet a.oddpos) (hoB : OneKet b.oddpos)
    (hd : (a.oddpos ++ b.oddpos).Pairwise (fun x y => x.1 ≠ y.1))
    (hf : netFullB a b xa xb = true) :
    ∃ K Kb r1 r2 T1 c1 T2 c2 T3 c3 T4 c4,
      a.tensordotF b (.pair (xa.map Int.ofNat) (xb.map Int.ofNat)) .blockwise = .ok K
      ∧ (braOf a xa).tensordotF (braOf b xb) (.pair (xa.map Int.ofNat) (xb.map Int.ofNat)) .blockwise
          = .ok Kb
      ∧ Kb.tensordotF K (allAxes K.ndim) .blockwise = .ok r1
      ∧ K.tensordotF Kb (allAxes K.ndim) .blockwise = .ok r2
      ∧ Kb.tensordotF a (.pair ((List.range (freeAxes a.ndim xa).length).map Int.ofNat)
          ((freeAxes a.ndim xa).map Int.ofNat)) .blockwise = .ok T1
      ∧ T1.tensordotF b (.pair ((axesTW a.ndim b.ndim xa xb).map Int.ofNat)
          ((freeAxes b.ndim xb ++ xb).map Int.ofNat)) .blockwise = .ok c1
      ∧ (braOf b xb).tensordotF K (.pair ((freeAxes b.ndim xb).map Int.ofNat)
          (((List.range (freeAxes b.ndim xb).length).map ((freeAxes a.ndim xa).length + ·)).map
            Int.ofNat)) .blockwise = .ok T2
      ∧ (braOf a xa).tensordotF T2 (.pair ((xa ++ freeAxes a.ndim xa).map Int.ofNat)
          ((axesTWr a.ndim b.ndim xa xb).map Int.ofNat)) .blockwise = .ok c2
      ∧ K.tensordotF (braOf a xa) (.pair ((List.range (freeAxes a.ndim xa).length).map Int.ofNat)
          ((freeAxes a.ndim xa).map Int.ofNat)) .blockwise = .ok T3
      ∧ T3.tensordotF (braOf b xb) (.pair ((axesTW a.ndim b.ndim xa xb).map Int.ofNat)
          ((freeAxes b.ndim xb ++ xb).map Int.ofNat)) .blockwise = .ok c3
      ∧ b.tensordotF Kb (.pair ((freeAxes b.ndim xb).map Int.ofNat)
          (((List.range (freeAxes b.ndim xb).length).map ((freeAxes a.ndim xa).length + ·)).map
            Int.ofNat)) .blockwise = .ok T4
      ∧ a.tensordotF T4 (.pair ((xa ++ freeAxes a.ndim xa).map Int.ofNat)
          ((axesTWr a.ndim b.ndim xa xb).map Int.ofNat)) .blockwise = .ok c4
      ∧ [r1, r2, c1, c2, c3, c4].all (fun x => x.ndim == 0 && x.oddpos.isEmpty) = true
      ∧ [r1, r2, c1, c2, c3, c4].map (fun x => x.elem [] []) = List.replicate 6 (normSq K) := by
  obtain ⟨K, Kb, eK, eKb, ⟨r, r', h2, h3, h4, g2, g3, g4, hπ⟩, hs⟩ :=
    network_norm_bracketings a b xa xb ha hb hfa hfb hadm hoA hoB hd
  obtain ⟨⟨T1, c1, a1, a2, a3, a4, a5⟩, ⟨T2, c2, b1, b2, b3, b4, b5⟩, ⟨T3, c3, d1, d2, d3, d4, d5⟩,
    ⟨T4, c4, f1, f2, f3, f4, f5⟩⟩ := hs hf
  have hid := hπ (List.range K.ndim) (List.Perm.refl _)
  rw [normSq'_eq hc] at g4 d5 f5
  refine ⟨K, Kb, r, r', T1, c1, T2, c2, T3, c3, T4, c4, eK, eKb, hid.1, hid.2, a1, a2, b1, b2, d1, d2,
    f1, f2, ?_, ?_⟩
  · simp [h2, h3, g2, g3, a3, a4, b3, b4, d3, d4, f3, f4]
  · simp [h4, g4, a5, b5, d5, f5, List.replicate]

/-- **the operand-swapped network** `{b, a, b̄, ā}`: the hypotheses are symmetric, so the whole
    statement `Bracketings` (= the conclusion of `network_norm_bracketings_partial`,
    `bracketings_def`) holds with the roles exchanged: `K' = b·a`, `K̄' = b̄·ā`, values
    `normSq (b·a)` / `normSq' (b·a)`, guard `netFullB b a xb xa` for the sequential routes -/
theorem network_norm_bracketings_swapped_partial (a b : Arr R) (xa xb : List Nat)
    (ha : a.validB = true) (hb : b.validB = true) (hfa : a.fermi = true) (hfb : b.fermi = true)
    (hadm : ValidP.tdotAdmissibleB a b xa xb = true)
    (hoA : OneKet a.oddpos) (hoB : OneKet b.oddpos)
    (hd : (a.oddpos ++ b.oddpos).Pairwise (fun x y => x.1 ≠ y.1)) :
    ValidP.tdotAdmissibleB b a xb xa = true
    ∧ (b.oddpos ++ a.oddpos).Pairwise (fun x y => x.1 ≠ y.1)
    ∧ Bracketings b a xb xa := by
  have hadm' := admB_swap ha hb hfa hfb hadm
  have hd' := labels_swap hd
  exact ⟨hadm', hd', network_norm_bracketings b a xb xa hb ha hfb hfa hadm' hoB hoA hd'⟩

omit [NetLaws R] [AssocP.AssocLaws R] in
/-- `Bracketings a b xa xb` is literally the conclusion of `network_norm_bracketings_partial` -/
theorem bracketings_def (a b : Arr R) (xa xb : List Nat) :
    Bracketings a b xa xb ↔
    ∃ K Kb, a.tensordotF b (.pair (xa.map Int.ofNat) (xb.map Int.ofNat)) .blockwise = .ok K
      ∧ (braOf a xa).tensordotF (braOf b xb) (.pair (xa.map Int.ofNat) (xb.map Int.ofNat)) .blockwise
          = .ok Kb
      ∧ (∃ r r', r.ndim = 0 ∧ r.oddpos = [] ∧ r.elem [] [] = normSq K
          ∧ r'.ndim = 0 ∧ r'.oddpos = [] ∧ r'.elem [] [] = normSq' K
          ∧ ∀ π : List Nat, π.Perm (List.range K.ndim) →
              Kb.tensordotF K (.pair (π.map Int.ofNat) (π.map Int.ofNat)) .blockwise = .ok r
              ∧ K.tensordotF Kb (.pair (π.map Int.ofNat) (π.map Int.ofNat)) .blockwise = .ok r')
      ∧ (netFullB a b xa xb = true →
        (∃ T c, Kb.tensordotF a (.pair ((List.range (freeAxes a.ndim xa).length).map Int.ofNat)
              ((freeAxes a.ndim xa).map Int.ofNat)) .blockwise = .ok T
          ∧ T.tensordotF b (.pair ((axesTW a.ndim b.ndim xa xb).map Int.ofNat)
              ((freeAxes b.ndim xb ++ xb).map Int.ofNat)) .blockwise = .ok c
          ∧ c.ndim = 0 ∧ c.oddpos = [] ∧ c.elem [] [] = normSq K)
        ∧ (∃ T c, (braOf b xb).tensordotF K (.pair ((freeAxes b.ndim xb).map Int.ofNat)
              (((List.range (freeAxes b.ndim xb).length).map ((freeAxes a.ndim xa).length + ·)).map
                Int.ofNat)) .blockwise = .ok T
          ∧ (braOf a xa).tensordotF T (.pair ((xa ++ freeAxes a.ndim xa).map Int.ofNat)
              ((axesTWr a.ndim b.ndim xa xb).map Int.ofNat)) .blockwise = .ok c
          ∧ c.ndim = 0 ∧ c.oddpos = [] ∧ c.elem [] [] = normSq K)
        ∧ (∃ T c, K.tensordotF (braOf a xa) (.pair ((List.range (freeAxes a.ndim xa).length).map Int.ofNat)
              ((freeAxes a.ndim xa).map Int.ofNat)) .blockwise = .ok T
          ∧ T.tensordotF (braOf b xb) (.pair ((axesTW a.ndim b.ndim xa xb).map Int.ofNat)
              ((freeAxes b.ndim xb ++ xb).map Int.ofNat)) .blockwise = .ok c
          ∧ c.ndim = 0 ∧ c.oddpos = [] ∧ c.elem [] [] = normSq' K)
        ∧ (∃ T c, b.tensordotF Kb (.pair ((freeAxes b.ndim xb).map Int.ofNat)
              (((List.range (freeAxes b.ndim xb).length).map ((freeAxes a.ndim xa).length + ·)).map
                Int.ofNat)) .blockwise = .ok T
          ∧ a.tensordotF T (.pair ((xa ++ freeAxes a.ndim xa).map Int.ofNat)
              ((axesTWr a.ndim b.ndim xa xb).map Int.ofNat)) .blockwise = .ok c
          ∧ c.ndim = 0 ∧ c.oddpos = [] ∧ c.elem [] [] = normSq' K)) := Iff.rfl

end main

/-! ## non-vacuity and exactness -/

open scoped SymmModel.Lazy

/-- `C03.gA`, `C03.gB` (both odd, labels 1 and 3, pending signs) bonded along `[2]/[0]`: the guard
    holds -/
example : netFullB C03.gA C03.gB [2] [0] = true ∧ netFullB C03.gA C03.gB [1, 2] [1, 0] = true := by
  decide +kernel

example : ∃ K Kb T c, C03.gA.tensordotF C03.gB (.pair [2] [0]) .blockwise = .ok K
    ∧ (braOf C03.gA [2]).tensordotF (braOf C03.gB [0]) (.pair [2] [0]) .blockwise = .ok Kb
    ∧ Kb.tensordotF C03.gA (.pair [0, 1] [0, 1]) .blockwise = .ok T
    ∧ T.tensordotF C03.gB (.pair ((axesTW 3 3 [2] [0]).map Int.ofNat) [1, 2, 0]) .blockwise = .ok c
    ∧ c.ndim = 0 ∧ c.oddpos = [] ∧ c.elem [] [] = normSq K :=
  network_norm_tensorwise C03.gA C03.gB [2] [0] (by decide +kernel) (by decide +kernel) rfl rfl
    (by decide +kernel) (Or.inr ⟨1, rfl⟩) (Or.inr ⟨3, rfl⟩) (by decide) (by decide +kernel)

example : axesTW 3 3 [2] [0] = [0, 1, 2] ∧ axesTWr 3 3 [2] [0] = [0, 1, 2] := by decide

/-- the values of the four sequential routes of a concrete network, `[S1, S2, S3, S4]`, with the
    labels left (flattened), and `normSq K` -/
def seqVals (a b : Arr Int) (xa xb : List Nat) : List (List Int) :=
  let fA := freeAxes a.ndim xa
  let fB := freeAxes b.ndim xb
  let sh := (List.range fB.length).map (fA.length + ·)
  let lab (o : List (Int × Bool)) : List Int := o.flatMap (fun p => [p.1, if p.2 then 1 else 0])
  let val (r : Except Err (Arr Int)) : List Int :=
    match r with | .ok c => [c.elem [] []] ++ lab c.oddpos | .error _ => [-1, -1]
  let P (x y : List Nat) : AxesArg := .pair (x.map Int.ofNat) (y.map Int.ofNat)
  match a.tensordotF b (P xa xb) .blockwise, (braOf a xa).tensordotF (braOf b xb) (P xa xb) .blockwise with
  | .ok K, .ok Kb =>
    [ val (do let T ← Kb.tensordotF a (P (List.range fA.length) fA) .blockwise
              T.tensordotF b (P (axesTW a.ndim b.ndim xa xb) (fB ++ xb)) .blockwise),
      val (do let T ← (braOf b xb).tensordotF K (P fB sh) .blockwise
              (braOf a xa).tensordotF T (P (xa ++ fA) (axesTWr a.ndim b.ndim xa xb)) .blockwise),
      val (do let T ← K.tensordotF (braOf a xa) (P (List.range fA.length) fA) .blockwise
              T.tensordotF (braOf b xb) (P (axesTW a.ndim b.ndim xa xb) (fB ++ xb)) .blockwise),
      val (do let T ← b.tensordotF Kb (P fB sh) .blockwise
              a.tensordotF T (P (xa ++ fA) (axesTWr a.ndim b.ndim xa xb)) .blockwise),
      [normSq K] ]
  | _, _ => []

example : seqVals C03.gA C03.gB [2] [0] = [[16422], [16422], [16422], [16422], [16422]] := by
  decide +kernel

/-- a sparse ket tensor (`C03.gA` without the sectors whose first leg is odd): valid, but the
    contraction result has a pruned table on that leg … -/
def gAs : Arr Int :=
  { C03.gA with blocks := C03.gA.blocks.filter (fun p => p.1.getD 0 (0, 0) == (0, 0)), phases := [] }

/-- **the guard is needed for the PROOF, not for the identity**: for `gAs`, `gB` the guard fails,
    `K̄` is not `tdotAdmissibleB` with `a` (so `C04.tdotF_assoc_labels` does not apply to the triple
    `(K̄, a, b)`), and yet all four sequential routes evaluate to `normSq K = 2174` -/
theorem tensorwise_pruned_witness :
    gAs.validB = true ∧ ValidP.tdotAdmissibleB gAs C03.gB [2] [0] = true
    ∧ netFullB gAs C03.gB [2] [0] = false
    ∧ (match (braOf gAs [2]).tensordotF (braOf C03.gB [0]) (.pair [2] [0]) .blockwise with
        | .ok Kb => ValidP.tdotAdmissibleB Kb gAs [0, 1] [0, 1] | .error _ => true) = false
    ∧ seqVals gAs C03.gB [2] [0] = [[2174], [2174], [2174], [2174], [2174]] := by decide +kernel

/-- the scalar classes are inhabited by the driver's scalar type -/
example : @NetLaws GRat C02.addCommMonoidGRat.toAddMonoid GRat.instMul GRat.instNeg GRat.instConj
    ∧ @AssocP.AssocLaws GRat C02.addCommMonoidGRat GRat.instMul := ⟨netLaws_GRat, C04.assocLawsGRat⟩

end SymmModel.C10
