/- Property C10 — umbrella incl. C10j (all ket-bra-first routes through the pairing hub, any mode). -/
import SymmModel.Props.C10All8
import SymmModel.Props.C10j
