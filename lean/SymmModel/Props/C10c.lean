/-
  Property C10, network clause — "the same holds for a whole network conjugated tensor by tensor
  once the dangling legs that were bra-like are sign-flipped (none when all dangling legs are
  ket-like), along every contraction route".

  About the model definitions `Arr.conjF` (default options `phase_permutation=True`,
  `phase_dual=False`), `Arr.phaseFlip`, `Arr.tensordotF` (blockwise mode) of Model/Fermi.lean, for
  a network of TWO valid fermionic arrays `a`, `b` (any ranks, symmetries, sparsity patterns,
  dualness patterns of bond and dangling legs, pending signs, even or odd total charges) sharing
  the bond `xa`/`xb` (`ValidP.tdotAdmissibleB`: same symmetry, contractible, distinct in-range
  axes), each carrying a sorted list of non-dual labels (`NormNet.KetLabels`; e.g. no label or one
  non-dual label, `NormNet.OneKet`, what a freshly created array carries; products of such arrays
  carry several; `validB` forces "odd number of labels iff odd charge"), all labels distinct.

  The bra tensor of a network tensor is what harness/props/c10.py builds:
    `braOf a xa = (a.conj()).phase_flip(*[dangling legs of a that are bra-like])`,
  dangling = not in the bond list `xa`, in increasing order (`braOf_def`).

  Scalars: any `R` with `[AddMonoid R] [Mul R] [Neg R] [Conj R]` and the laws `NormNet.NetLaws`
  (= `Norm.NormLaws` plus `conj (x+y) = conj x + conj y`, `conj (x*y) = conj x * conj y`); no
  commutativity or distributivity.  Instances: `Int` (trivial conjugation), `GRat`
  (`netLaws_GRat`).  `network_norm_halves_any_order_partial` uses `AddCommMonoid` (S4 of C04).

  PROVED
  * `conj_tensordot` — conjugation is a homomorphism of the fermionic contraction: `K = a·b` and
    `Kb = braOf a · braOf b` (same operand order, same axes) both succeed and `Kb` is
    OBSERVATIONALLY EQUAL (symmetry, index tables, charge, labels, stored sectors with block
    shapes, every value) to `K.conj(phase_dual=True)`.  [`bra_pair_sign`: per aligned sector pair,
    label sign × graded sign × the two bra-tensor signs = the `conj(phase_dual=True)` sign of the
    result sector × label sign × graded sign; proof through `C03.tensordotF_refines_graded`'s
    frame (`coreT_frame`) and a parity computation.]
  * `network_norm_halves_partial` — contracting the four tensors along the routes
    `(ā·b̄)·(a·b)` [bra half left] and `(a·b)·(ā·b̄)` [ket half left] gives a rank-0 array without
    labels whose value is `normSq K` resp. `normSq' K` (`Σ conj(v)·v` resp. `Σ v·conj(v)` over the
    stored entries `v` of `K = a·b`; C10b's `normSq`): positive, no stray sign, for every mix of
    parities of `a` and `b`.
  * `network_norm_halves_any_order_partial` — the same with the leg pairs of the final contraction
    listed in any order.
  * `halves_bond_order` — the bond legs may be listed in any order, independently in the two halves.
  * `network_norm_routes_agree_partial` — for commutative `*` both routes give `normSq K`.
  * `norm_conj_labels`, `norm_conj_swapped_labels` — C10b's `norm_conj` for an array carrying any
    sorted list of distinct non-dual labels (`K` above carries two when `a` and `b` are odd).

  FULL STATEMENT (not proved in full): for 2–3 tensor networks, EVERY contraction route of the
  four (six) tensors gives `normSq` of the contracted ket network.
  MISSING, and why:
  * routes that are not "halves first" (tensor by tensor, e.g. `((a·b)·ā)·b̄` or `(a·ā)·(b·b̄)`):
    they need the associativity of `tensordotF` (S7 of C04, not proved: the intermediate result's
    index tables are pruned by `dropUnused`, so the second contraction is not `contractibleB` in
    general and `C03.tensordotF_refines_graded` does not apply to it);
  * the halves contracted in the OTHER operand order (`b·a` or `b̄·ā`): `C04.tdotF_swap` relates the
    values address by address, but the block order differs, so `ObsEq`/`tensordotF_congr` cannot be
    used for the final contraction;
  * three tensors in a chain: needs `conj_tensordot` with a flip set that spares the legs bonding
    to the third tensor (label lists are already general), plus the `contractibleB` obstacle above
    for `(a·b)·c`;
  * operands carrying a dual label (for one dual label the single-array norm is already `-Σ|x|²`:
    `C10.norm_conj_dual_label`, known finding `norm-odd-dual-label`);
  * `mode = fused` (C05/C06 reduce it to blockwise).
-/
import SymmModel.Proofs.NormNet6
import SymmModel.Props.C10b
import SymmModel.Props.C03b

namespace SymmModel.C10
open SymmModel Lazy Norm NormNet

/-! ## vocabulary -/

section defs
variable {R : Type} [Zero R] [Neg R] [Conj R]

omit [Zero R] [Neg R] in
/-- the bra tensor: `conj()` with the default options, then `phase_flip` of the dangling legs
    (not in the bond list `xa`) that are bra-like on `a`, in increasing order -/
theorem braOf_def (a : Arr R) (xa : List Nat) :
    braOf a xa = (a.conjF).phaseFlip
      ((TdotP.freeAxes a.ndim xa).filter (fun ax => (a.indices.getD ax default).dual)) := rfl

/-- the dangling legs are the complement of the bond list, as the model's `tensordot` computes it -/
theorem dangling_eq (n : Nat) (xa : List Nat) :
    TdotP.freeAxes n xa = without (List.range n) xa := (C03.freeAxes_eq n xa).symm

theorem oneKet_iff (o : List (Int × Bool)) : OneKet o ↔ (o = [] ∨ ∃ l, o = [(l, false)]) := Iff.rfl

theorem ketLabels_iff (o : List (Int × Bool)) :
    KetLabels o ↔ ((∀ x ∈ o, x.2 = false) ∧ o.Pairwise (fun x y => oddLt x y = true)) := Iff.rfl

/-- no label, or one non-dual label, is a sorted list of non-dual labels -/
theorem ketLabels_of_oneKet {o : List (Int × Bool)} (h : OneKet o) : KetLabels o := h.ketLabels

/-- the value view of the bra tensor: conjugate times `braSign` (dangling-leg flips × reversal
    sign × odd-parity global sign) -/
theorem braOf_elem [LawfulNegConj R] (a : Arr R) (xa : List Nat) (h : SignOk a) (s : Sector)
    (off : List Nat) :
    (braOf a xa).elem s off = sgnI (braSign a xa s) (Conj.conj (a.elem s off)) :=
  NormNet.braOf_elem a xa h s off

end defs

variable {R : Type} [AddMonoid R] [Mul R] [Neg R] [Conj R]

/-! ## the sign identity -/

/-- per aligned stored sector pair `(sa, sb)`: the label sign `ph'` of the bra contraction, the
    graded sign of the bra pair and the signs of the two bra tensors multiply to the
    `conj(phase_dual=True)` sign of the result sector times the label sign `ph` and graded sign
    of the ket pair (`K`: any array with the symmetry, index directions, parity and label count of
    the ket result) -/
theorem bra_pair_sign {a b K : Arr R} {xa xb : List Nat} (h : RoutesP.Adm a b xa xb)
    (S : List Sector) (hKs : K.sym = a.sym)
    (hKi : K.indices = dropUnused (without a.indices xa ++ without b.indices xb) S)
    (hKp : K.parity = xor a.parity b.parity)
    (hKl : (K.oddpos.length % 2 == 1) = K.parity)
    {sa sb : Sector} (hsa : sa ∈ a.sectors) (hsb : sb ∈ b.sectors)
    (hal : permuted sb xb = permuted sa xa)
    (ph ph' : Int) (hph' : ph' = ph * (if a.parity && b.parity then -1 else 1)) :
    ph' * (GradedP.gradedSign (braOf a xa) (braOf b xb) xa xb sa sb
        * (braSign a xa sa * braSign b xb sb))
      = conjTotSign K true true
          (permuted sa (TdotP.freeAxes a.ndim xa) ++ permuted sb (TdotP.freeAxes b.ndim xb))
          * (ph * GradedP.gradedSign a b xa xb sa sb) :=
  NormNet.bra_pair_sign h S hKs hKi hKp hKl hsa hsb hal ph ph' hph'

/-! ## conjugation is a homomorphism of the contraction -/

/-- **conj_tensordot.**  `K = a·b` and `Kb = braOf a · braOf b` succeed, and `Kb` is observationally
    equal to `K.conj(phase_dual=True)`; `K` is valid with sorted distinct non-dual labels. -/
theorem conj_tensordot [NetLaws R] (a b : Arr R) (xa xb : List Nat)
    (ha : a.validB = true) (hb : b.validB = true) (hfa : a.fermi = true) (hfb : b.fermi = true)
    (hadm : ValidP.tdotAdmissibleB a b xa xb = true)
    (hoA : KetLabels a.oddpos) (hoB : KetLabels b.oddpos)
    (hd : (a.oddpos ++ b.oddpos).Pairwise (fun x y => x.1 ≠ y.1)) :
    ∃ K Kb, a.tensordotF b (.pair (xa.map Int.ofNat) (xb.map Int.ofNat)) .blockwise = .ok K
      ∧ (braOf a xa).tensordotF (braOf b xb) (.pair (xa.map Int.ofNat) (xb.map Int.ofNat)) .blockwise
          = .ok Kb
      ∧ C09.ObsEq Kb (K.conjF true true)
      ∧ K.validB = true ∧ K.fermi = true ∧ Kb.validB = true ∧ Kb.fermi = true
      ∧ (∀ x ∈ K.oddpos, x.2 = false)
      ∧ K.oddpos.Pairwise (fun x y => oddLt x y = true)
      ∧ K.oddpos.Pairwise (fun x y => x.1 ≠ y.1) :=
  NormNet.conj_tensordot a b xa xb ha hb hfa hfb hadm hoA hoB hd

/-! ## the single-array norm with several labels -/

/-- `norm_conj` (C10b) for any sorted list of distinct non-dual labels -/
theorem norm_conj_labels [NormLaws R] {x : Arr R} (hv : x.validB = true) (hf : x.fermi = true)
    (pd : Bool) (hd : pd = true ∨ ∀ ix ∈ x.indices, ix.dual = false)
    (hk : ∀ a ∈ x.oddpos, a.2 = false)
    (hs : x.oddpos.Pairwise (fun a b => oddLt a b = true))
    (hdl : x.oddpos.Pairwise (fun a b => a.1 ≠ b.1)) :
    ∃ r, (x.conjF true pd).tensordotF x (allAxes x.ndim) .blockwise = .ok r ∧ r.ndim = 0
      ∧ r.oddpos = [] ∧ r.elem [] [] = normSq x :=
  norm_left_labels (NormOk.of_valid hv hf) pd hd hk hs hdl

theorem norm_conj_swapped_labels [NormLaws R] {x : Arr R} (hv : x.validB = true)
    (hf : x.fermi = true) (pd : Bool) (hd : pd = true ∨ ∀ ix ∈ x.indices, ix.dual = false)
    (hk : ∀ a ∈ x.oddpos, a.2 = false)
    (hs : x.oddpos.Pairwise (fun a b => oddLt a b = true))
    (hdl : x.oddpos.Pairwise (fun a b => a.1 ≠ b.1)) :
    ∃ r, x.tensordotF (x.conjF true pd) (allAxes x.ndim) .blockwise = .ok r ∧ r.ndim = 0
      ∧ r.oddpos = [] ∧ r.elem [] [] = normSq' x :=
  norm_right_labels (NormOk.of_valid hv hf) pd hd hk hs hdl

/-- nested conjugate label pairs `[l̄ₙ,…,l̄₁,l₁,…,lₙ]` annihilate; the sign is `-1` per pair that
    meets as ket-then-bra -/
theorem resolveScan_nested (w : List (Int × Bool))
    (hs : (Arr.oddposDag w).Pairwise (fun a b => oddLt a b = true))
    (hd : w.Pairwise (fun a b => a.1 ≠ b.1)) (ph : Int) (N : Nat) (hN : 2 * w.length + 2 ≤ N) :
    resolveScan N [] (Arr.oddposDag w ++ w) ph = .ok ([], ph * nestSign w) :=
  NormNet.resolveScan_nested w hs hd ph N hN

/-! ## the network norm -/

/-- **network_norm_halves_partial.**  Two-tensor network, routes "halves first":
    `(ā·b̄)·(a·b) = normSq (a·b)` and `(a·b)·(ā·b̄) = normSq' (a·b)`, rank 0, no labels. -/
theorem network_norm_halves_partial [NetLaws R] (a b : Arr R) (xa xb : List Nat)
    (ha : a.validB = true) (hb : b.validB = true) (hfa : a.fermi = true) (hfb : b.fermi = true)
    (hadm : ValidP.tdotAdmissibleB a b xa xb = true)
    (hoA : KetLabels a.oddpos) (hoB : KetLabels b.oddpos)
    (hd : (a.oddpos ++ b.oddpos).Pairwise (fun x y => x.1 ≠ y.1)) :
    ∃ K Kb r r', a.tensordotF b (.pair (xa.map Int.ofNat) (xb.map Int.ofNat)) .blockwise = .ok K
      ∧ (braOf a xa).tensordotF (braOf b xb) (.pair (xa.map Int.ofNat) (xb.map Int.ofNat)) .blockwise
          = .ok Kb
      ∧ Kb.ndim = K.ndim
      ∧ Kb.tensordotF K (.pair ((List.range K.ndim).map Int.ofNat) ((List.range K.ndim).map Int.ofNat))
          .blockwise = .ok r
      ∧ r.ndim = 0 ∧ r.oddpos = [] ∧ r.elem [] [] = normSq K
      ∧ K.tensordotF Kb (.pair ((List.range K.ndim).map Int.ofNat) ((List.range K.ndim).map Int.ofNat))
          .blockwise = .ok r'
      ∧ r'.ndim = 0 ∧ r'.oddpos = [] ∧ r'.elem [] [] = normSq' K :=
  network_norm_halves a b xa xb ha hb hfa hfb hadm hoA hoB hd

end SymmModel.C10

namespace SymmModel.C10
open SymmModel Lazy Norm NormNet

/-- the final contraction with its leg pairs listed in any order `π` (S4 of C04) -/
theorem network_norm_halves_any_order_partial {R : Type} [AddCommMonoid R] [Mul R] [Neg R] [Conj R]
    [NetLaws R] (a b : Arr R) (xa xb : List Nat)
    (ha : a.validB = true) (hb : b.validB = true) (hfa : a.fermi = true) (hfb : b.fermi = true)
    (hadm : ValidP.tdotAdmissibleB a b xa xb = true)
    (hoA : KetLabels a.oddpos) (hoB : KetLabels b.oddpos)
    (hd : (a.oddpos ++ b.oddpos).Pairwise (fun x y => x.1 ≠ y.1)) :
    ∃ K Kb r r', a.tensordotF b (.pair (xa.map Int.ofNat) (xb.map Int.ofNat)) .blockwise = .ok K
      ∧ (braOf a xa).tensordotF (braOf b xb) (.pair (xa.map Int.ofNat) (xb.map Int.ofNat)) .blockwise
          = .ok Kb
      ∧ r.ndim = 0 ∧ r.oddpos = [] ∧ r.elem [] [] = normSq K
      ∧ r'.ndim = 0 ∧ r'.oddpos = [] ∧ r'.elem [] [] = normSq' K
      ∧ ∀ π : List Nat, π.Perm (List.range K.ndim) →
          Kb.tensordotF K (.pair (π.map Int.ofNat) (π.map Int.ofNat)) .blockwise = .ok r
          ∧ K.tensordotF Kb (.pair (π.map Int.ofNat) (π.map Int.ofNat)) .blockwise = .ok r' :=
  network_norm_halves_any_order a b xa xb ha hb hfa hfb hadm hoA hoB hd

/-- the bond legs may be listed in any order, independently for the ket and the bra half: the half
    contractions return the identical arrays and the bra tensors do not depend on the order -/
theorem halves_bond_order {R : Type} [AddCommMonoid R] [Mul R] [Neg R] [Conj R] [NetLaws R]
    (a b : Arr R) (xa xb : List Nat)
    (ha : a.validB = true) (hb : b.validB = true) (hfa : a.fermi = true) (hfb : b.fermi = true)
    (hadm : ValidP.tdotAdmissibleB a b xa xb = true) (π : List Nat)
    (hπ : π.Perm (List.range xa.length)) :
    a.tensordotF b (.pair ((permuted xa π).map Int.ofNat) ((permuted xb π).map Int.ofNat)) .blockwise
        = a.tensordotF b (.pair (xa.map Int.ofNat) (xb.map Int.ofNat)) .blockwise
      ∧ (braOf a xa).tensordotF (braOf b xb)
          (.pair ((permuted xa π).map Int.ofNat) ((permuted xb π).map Int.ofNat)) .blockwise
        = (braOf a xa).tensordotF (braOf b xb) (.pair (xa.map Int.ofNat) (xb.map Int.ofNat)) .blockwise
      ∧ braOf a (permuted xa π) = braOf a xa ∧ braOf b (permuted xb π) = braOf b xb :=
  NormNet.halves_bond_order a b xa xb ha hb hfa hfb hadm π hπ

/-- for a commutative product both routes give the same number `normSq K` -/
theorem network_norm_routes_agree_partial {R : Type} [AddMonoid R] [Mul R] [Neg R] [Conj R]
    [NetLaws R] (hc : ∀ x y : R, x * y = y * x) (a b : Arr R) (xa xb : List Nat)
    (ha : a.validB = true) (hb : b.validB = true) (hfa : a.fermi = true) (hfb : b.fermi = true)
    (hadm : ValidP.tdotAdmissibleB a b xa xb = true)
    (hoA : KetLabels a.oddpos) (hoB : KetLabels b.oddpos)
    (hd : (a.oddpos ++ b.oddpos).Pairwise (fun x y => x.1 ≠ y.1)) :
    ∃ K Kb r r', a.tensordotF b (.pair (xa.map Int.ofNat) (xb.map Int.ofNat)) .blockwise = .ok K
      ∧ (braOf a xa).tensordotF (braOf b xb) (.pair (xa.map Int.ofNat) (xb.map Int.ofNat)) .blockwise
          = .ok Kb
      ∧ Kb.tensordotF K (allAxes K.ndim) .blockwise = .ok r
      ∧ K.tensordotF Kb (allAxes K.ndim) .blockwise = .ok r'
      ∧ r.elem [] [] = normSq K ∧ r'.elem [] [] = normSq K := by
  obtain ⟨K, Kb, r, r', e1, e2, _, h1, _, _, h4, g1, _, _, g4⟩ :=
    network_norm_halves a b xa xb ha hb hfa hfb hadm hoA hoB hd
  exact ⟨K, Kb, r, r', e1, e2, h1, g1, h4, by rw [g4, normSq'_eq hc]⟩

/-! ## non-vacuity: two odd operands, two charges per leg, pending signs -/

open scoped SymmModel.Lazy

/-- `C03.gA[i,k,l]` (ket, bra, ket; odd; label 1; pending sign) and `C03.gB[l',k',j]` (bra, ket,
    bra; odd; label 3; pending sign) bonded along `l–l'`: two dangling legs each, one bra-like -/
example : C03.gA.validB = true ∧ C03.gB.validB = true ∧ C03.gA.fermi = true ∧ C03.gB.fermi = true
    ∧ ValidP.tdotAdmissibleB C03.gA C03.gB [2] [0] = true
    ∧ C03.gA.parity = true ∧ C03.gB.parity = true
    ∧ C03.gA.phases ≠ [] ∧ C03.gB.phases ≠ []
    ∧ (C03.gA.oddpos ++ C03.gB.oddpos).Pairwise (fun x y => x.1 ≠ y.1) := by decide +kernel

example : OneKet C03.gA.oddpos ∧ OneKet C03.gB.oddpos := ⟨Or.inr ⟨1, rfl⟩, Or.inr ⟨3, rfl⟩⟩
example : KetLabels [(2, false), (5, false), (9, false)] := by unfold KetLabels; decide

/-- the bra tensors flip one dangling leg each -/
example : NormNet.dangDual C03.gA [2] = [1] ∧ NormNet.dangDual C03.gB [0] = [2] := by decide +kernel

example : ∃ K Kb r r', C03.gA.tensordotF C03.gB (.pair [2] [0]) .blockwise = .ok K
    ∧ (braOf C03.gA [2]).tensordotF (braOf C03.gB [0]) (.pair [2] [0]) .blockwise = .ok Kb
    ∧ Kb.tensordotF K (allAxes K.ndim) .blockwise = .ok r
    ∧ K.tensordotF Kb (allAxes K.ndim) .blockwise = .ok r'
    ∧ r.elem [] [] = normSq K ∧ r'.elem [] [] = normSq K :=
  network_norm_routes_agree_partial Int.mul_comm C03.gA C03.gB [2] [0] (by decide +kernel)
    (by decide +kernel) rfl rfl (by decide +kernel) (OneKet.ketLabels (Or.inr ⟨1, rfl⟩)) (OneKet.ketLabels (Or.inr ⟨3, rfl⟩)) (by decide)

/-- the quantities of a concrete two-tensor network norm: rank, number of sectors and labels of
    `K`, labels of `Kb`, `normSq K`, and value and labels of `Kb·K` and `K·Kb`; a label `(l, dual)` is printed `l, 1/0` (final leg pairs
    listed in the order `π`) -/
def netVals (a b : Arr Int) (xa xb π : List Nat) : List (List Int) :=
  let lab (o : List (Int × Bool)) : List Int := o.flatMap (fun p => [p.1, if p.2 then 1 else 0])
  match a.tensordotF b (.pair (xa.map Int.ofNat) (xb.map Int.ofNat)) .blockwise,
      (braOf a xa).tensordotF (braOf b xb) (.pair (xa.map Int.ofNat) (xb.map Int.ofNat)) .blockwise with
  | .ok K, .ok Kb =>
    match Kb.tensordotF K (.pair ((List.range K.ndim).map Int.ofNat) ((List.range K.ndim).map Int.ofNat))
        .blockwise,
      K.tensordotF Kb (.pair (π.map Int.ofNat) (π.map Int.ofNat)) .blockwise with
    | .ok r, .ok r' =>
      [[K.ndim, K.sectors.length], lab K.oddpos, lab Kb.oddpos, [normSq K], [r.elem [] []],
        lab r.oddpos, [r'.elem [] []], lab r'.oddpos]
    | _, _ => []
  | _, _ => []

/-- the same on the concrete values: `K` has rank 4, 8 sectors, labels `[1, 3]`, and
    `<ψ|ψ> = 16422` along both routes -/
example : netVals C03.gA C03.gB [2] [0] [3, 1, 0, 2]
    = [[4, 8], [1, 0, 3, 0], [3, 1, 1, 1], [16422], [16422], [], [16422], []] := by
  decide +kernel

/-- without the dangling-leg flips the bra half is NOT the conjugate of the ket half: the network
    "norm" comes out wrong (`braOf` replaced by plain `conj()`) -/
theorem network_norm_needs_flips :
    (match C03.gA.tensordotF C03.gB (.pair [2] [0]) .blockwise,
        (C03.gA.conjF).tensordotF (C03.gB.conjF) (.pair [2] [0]) .blockwise with
      | .ok K, .ok Kb =>
        (match Kb.tensordotF K (.pair [0, 1, 2, 3] [0, 1, 2, 3]) .blockwise with
          | .ok r => some (r.elem [] [], normSq K) | .error _ => none)
      | _, _ => none) = some ((6990 : Int), (16422 : Int)) := by decide +kernel

/-- two bond legs, one dangling leg each (the contraction of `C03b`) -/
example : ∃ K Kb r r', C03.gA.tensordotF C03.gB (.pair [1, 2] [1, 0]) .blockwise = .ok K
    ∧ (braOf C03.gA [1, 2]).tensordotF (braOf C03.gB [1, 0]) (.pair [1, 2] [1, 0]) .blockwise = .ok Kb
    ∧ Kb.tensordotF K (allAxes K.ndim) .blockwise = .ok r
    ∧ K.tensordotF Kb (allAxes K.ndim) .blockwise = .ok r'
    ∧ r.elem [] [] = normSq K ∧ r'.elem [] [] = normSq K :=
  network_norm_routes_agree_partial Int.mul_comm C03.gA C03.gB [1, 2] [1, 0] (by decide +kernel)
    (by decide +kernel) rfl rfl (by decide +kernel) (OneKet.ketLabels (Or.inr ⟨1, rfl⟩)) (OneKet.ketLabels (Or.inr ⟨3, rfl⟩)) (by decide)

/-- an operand with THREE labels (`NormNet.exO3`: odd, labels 2, 5, 9, pending sign) against `C03.gA`
    (odd, label 1): `K` carries the four labels `[1, 2, 5, 9]`, `Kb` their conjugates -/
example : ∃ K Kb r r', NormNet.exO3.tensordotF C03.gA (.pair [1] [0]) .blockwise = .ok K
    ∧ (braOf NormNet.exO3 [1]).tensordotF (braOf C03.gA [0]) (.pair [1] [0]) .blockwise = .ok Kb
    ∧ Kb.tensordotF K (allAxes K.ndim) .blockwise = .ok r
    ∧ K.tensordotF Kb (allAxes K.ndim) .blockwise = .ok r'
    ∧ r.elem [] [] = normSq K ∧ r'.elem [] [] = normSq K :=
  network_norm_routes_agree_partial Int.mul_comm NormNet.exO3 C03.gA [1] [0] (by decide +kernel)
    (by decide +kernel) rfl rfl (by decide +kernel) (by unfold KetLabels; decide)
    (OneKet.ketLabels (Or.inr ⟨1, rfl⟩)) (by decide)

example : netVals NormNet.exO3 C03.gA [1] [0] [2, 0, 1]
    = [[3, 4], [1, 0, 2, 0, 5, 0, 9, 0], [9, 1, 5, 1, 2, 1, 1, 1], [1726], [1726], [], [1726], []] := by
  decide +kernel

/-- the law class is inhabited by the driver's scalar type -/
example : @NetLaws GRat C02.addCommMonoidGRat.toAddMonoid GRat.instMul GRat.instNeg GRat.instConj :=
  netLaws_GRat

end SymmModel.C10
