/-
  Property C09 — umbrella: Props/C09.lean (value view, sign operations, congruences, canonical
  form, operations that synchronise first, programs) and Props/C09b.lean (repaired reductions
  and unary maps, decompositions, squeeze / expand_dims / fuse, einsum, programs over all
  operations).  Both files use `namespace SymmModel.C09`.
-/
import SymmModel.Props.C09
import SymmModel.Props.C09b
