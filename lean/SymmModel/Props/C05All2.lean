/-
  Property C05 — umbrella 2: parts a–c (`Props/C05All.lean`) and part d (`Props/C05d.lean`: per-group
  factorisation of the fermionic fuse sign, the composed fermionic round trip `unfuseF_fuseF`,
  depth-2 compositions).
-/
import SymmModel.Props.C05All
import SymmModel.Props.C05d
