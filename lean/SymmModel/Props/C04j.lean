/-
  Property C04, second clause — "several indices contracted at once or one after another": VALUES.
  MODEL: `Arr.tensordotF` (Model/Fermi.lean, `tensordot_fermionic`, blockwise mode) and the single-array
  `Arr.einsumF` (`FermionicArray.einsum`: sort the axes by (output position | traced, label, bra before
  ket), transpose with Koszul signs, synchronise, abelian einsum).  Scalars: `AddCommMonoid`,
  `GradedP.SignRing` (instances `Int`, `GRat`).

  SETTING.  Valid fermionic `a`, `b`; the bond is split as `xa ++ ya ~ xb ++ yb` (weak guard
  `tdotAdmissibleCommonB` on `xa ~ xb` and on the whole bond: same symmetry, opposite directions and
  agreeing sizes on common charges, distinct in-range axes).  `c = a ·_{xa~xb} b`; its legs are the free
  legs of `a` (w.r.t. `xa`) followed by those of `b`.  The remaining pairs `ya[i] ~ yb[i]` sit in `c` at the
  positions `tsPA[i]`, `tsPB[i]`; the canonical einsum labels `tsLhs -> tsRhs` give both legs of pair `i`
  the label `N + i` (`N = rank c`) and every other leg its own position (`two_step_labels_def`).
  `e = c.einsum(tsLhs -> tsRhs)`; `c' = a ·_{xa++ya ~ xb++yb} b`.

  PROVED (no `_partial`), for ANY number of remaining pairs, any positions and order of the axes, any
  symmetry, sparsity, charges, pending signs, labels:
    `two_step_einsum_succeeds`  the einsum of the intermediate succeeds;
    `two_step_values`           `e` and `c'` have the same labels, charge, symmetry, kind, rank, the SAME
                                SECTOR SET, the same block shape on every sector and the SAME VALUE at
                                every address of every block; values at keys that are not sectors are `0`
                                on both; leg `j` of `e` and leg `j` of `c'` are prunings of the same
                                operand leg (same direction; every charge kept has the operand's size);
    `two_step_values_at`        the value statement at every address `(s', fL ++ fR)` of the UN-PRUNED
                                frame of the free legs (`fL` on `a`'s legs), whether or not `s'` is stored;
    `two_step_sign_identity`    the sign argument: for a sector pair aligned on all pairs, the Koszul sign
                                of the einsum's axis order `tsOrder` on the intermediate sector times the
                                graded sign of the contraction over `xa ~ xb` is the graded sign of the
                                contraction over all pairs;
    `two_step_einsum_order`     the axis order `einsumF` transposes the intermediate to is `tsOrder`
                                (traced pairs adjacent in front, bra first, then the untraced legs).
  How: `Proofs/TwoStep*.lean` — `einsumF` at element level (C09 `einsumF_refines_graded`) and `tensordotF`
  at element level (C04c `tensordotF_refines_graded_common`) reduce both sides to signed sums over stored
  sector pairs and offsets; Fubini and regrouping of the sector pairs (`TwoStepP.two_step_core`), the
  assembled addresses (`mergeIdx_asm`, `asm_ord`), the sign identity (`TwoStepP.two_step_sign`, by
  counting odd inversions), and the characterisation of `einOrder` (`einOrder_eq_tsOrder`).
  NOT claimed: equality of the index TABLES of `e` and `c'` — `einsumF` permutes the tables of the
  intermediate (pruned to the sectors of `c`), `tensordotF` prunes to the sectors of `c'`; both are
  prunings of the operands' tables (last clause of `two_step_values`), so `to_dense()` of `e` may be
  larger by all-zero rows; every stored block and every value agrees.  NOT proved: `e.validB` (C01's
  `einsumF_valid` asks for EQUAL charge tables on the traced legs, which pruned tables need not have);
  other einsum label choices than the canonical ones; fused / auto mode for the two `tensordotF` calls
  (C06d/C04i reduce them to blockwise up to zero padding); the abelian (non-fermionic) analogue.
-/
import SymmModel.Proofs.TwoStepAll
import SymmModel.Props.C03b

namespace SymmModel.C04
open SymmModel SymmModel.GradedP SymmModel.TdotP SymmModel.AssocP SymmModel.TwoStepP

variable {R : Type}

/-! ## vocabulary -/

/-- the canonical labels that trace the remaining pairs in the intermediate -/
theorem two_step_labels_def (na nb : Nat) (xa xb ya yb : List Nat) :
    tsN na nb xa xb = (freeAxes na xa).length + (freeAxes nb xb).length
    ∧ tsPA na xa ya = ya.map (fun ax => (indexOf? (freeAxes na xa) ax).getD 0)
    ∧ tsPB na nb xa xb yb
        = yb.map (fun ax => (freeAxes na xa).length + (indexOf? (freeAxes nb xb) ax).getD 0)
    ∧ tsLhs na nb xa xb ya yb = (List.range (tsN na nb xa xb)).map (fun p =>
        match indexOf? (tsPA na xa ya) p with
        | some i => tsN na nb xa xb + i
        | none => match indexOf? (tsPB na nb xa xb yb) p with
          | some i => tsN na nb xa xb + i
          | none => p)
    ∧ tsRhs na nb xa xb ya yb = (List.range (tsN na nb xa xb)).filter (fun p =>
        !(tsPA na xa ya).contains p && !(tsPB na nb xa xb yb).contains p) :=
  ⟨rfl, rfl, rfl, rfl, rfl⟩

/-- the axis order: traced pairs in front, the dual (bra) leg of each pair first, then the rest -/
theorem tsOrder_def (a : Arr R) (nb : Nat) (xa xb ya yb : List Nat) :
    tsOrder a nb xa xb ya yb
      = ((List.range ya.length).flatMap (fun i =>
          if (a.indices.getD (ya.getD i 0) default).dual
          then [(tsPA a.ndim xa ya).getD i 0, (tsPB a.ndim nb xa xb yb).getD i 0]
          else [(tsPB a.ndim nb xa xb yb).getD i 0, (tsPA a.ndim xa ya).getD i 0]))
        ++ tsRhs a.ndim nb xa xb ya yb := rfl

/-- `ix'` is `ix` with some charges dropped from its table -/
theorem pruned_def (ix' ix : Index) :
    Pruned ix' ix ↔ (ix'.dual = ix.dual ∧ ∃ f : Charge → Bool, ix'.cm = ix.cm.filter (fun p => f p.1)) :=
  Iff.rfl

/-! ## the theorems -/

/-- **two_step_einsum_succeeds.** -/
theorem two_step_einsum_succeeds [AddCommMonoid R] [Mul R] [Neg R] [SignRing R]
    (a b c c' : Arr R) (xa xb ya yb : List Nat)
    (ha : a.validB = true) (hb : b.validB = true) (hfa : a.fermi = true) (hfb : b.fermi = true)
    (g1 : tdotAdmissibleCommonB a b xa xb = true)
    (g2 : tdotAdmissibleCommonB a b (xa ++ ya) (xb ++ yb) = true)
    (h1 : a.tensordotF b (.pair (xa.map Int.ofNat) (xb.map Int.ofNat)) .blockwise = .ok c)
    (h3 : a.tensordotF b (.pair ((xa ++ ya).map Int.ofNat) ((xb ++ yb).map Int.ofNat)) .blockwise
      = .ok c') :
    ∃ e, c.einsumF (tsLhs a.ndim b.ndim xa xb ya yb) (tsRhs a.ndim b.ndim xa xb ya yb) = .ok e := by
  obtain ⟨_, C, _, _⟩ := two_step_ctx ha hb hfa hfb g1 g2 h1 h3
  exact two_step_einsum_ok C

/-- **two_step_values.**  Contracting `xa ~ xb` with `tensordotF` and then tracing the remaining pairs
    with the single-array `einsumF` = contracting `xa ++ ya ~ xb ++ yb` at once. -/
theorem two_step_values [AddCommMonoid R] [Mul R] [Neg R] [SignRing R]
    (a b c e c' : Arr R) (xa xb ya yb : List Nat)
    (ha : a.validB = true) (hb : b.validB = true) (hfa : a.fermi = true) (hfb : b.fermi = true)
    (g1 : tdotAdmissibleCommonB a b xa xb = true)
    (g2 : tdotAdmissibleCommonB a b (xa ++ ya) (xb ++ yb) = true)
    (h1 : a.tensordotF b (.pair (xa.map Int.ofNat) (xb.map Int.ofNat)) .blockwise = .ok c)
    (h2 : c.einsumF (tsLhs a.ndim b.ndim xa xb ya yb) (tsRhs a.ndim b.ndim xa xb ya yb) = .ok e)
    (h3 : a.tensordotF b (.pair ((xa ++ ya).map Int.ofNat) ((xb ++ yb).map Int.ofNat)) .blockwise
      = .ok c') :
    e.oddpos = c'.oddpos ∧ e.charge = c'.charge ∧ e.sym = c'.sym ∧ e.fermi = c'.fermi
    ∧ e.ndim = c'.ndim
    ∧ (∀ s, s ∈ e.sectors ↔ s ∈ c'.sectors)
    ∧ (∀ s ∈ c'.sectors, Arr.blockShapeD e.indices s = Arr.blockShapeD c'.indices s)
    ∧ (∀ s ∈ c'.sectors, ∀ o, inBox (Arr.blockShapeD c'.indices s) o = true → e.elem s o = c'.elem s o)
    ∧ (∀ s, s ∉ c'.sectors → ∀ o, e.elem s o = 0 ∧ c'.elem s o = 0)
    ∧ (∀ j, j < c'.ndim → ∃ ix : Index,
        Pruned (e.indices.getD j default) ix ∧ Pruned (c'.indices.getD j default) ix) :=
  two_step_all a b c e c' xa xb ya yb ha hb hfa hfb g1 g2 h1 h2 h3

/-- **two_step_values_at.**  The value statement in the un-pruned frame of the free legs: at EVERY key
    `s'` and every offset `fL ++ fR` (`fL` on `a`'s free legs) inside the box the operands' index tables
    give to `s'`. -/
theorem two_step_values_at [AddCommMonoid R] [Mul R] [Neg R] [SignRing R]
    (a b c e c' : Arr R) (xa xb ya yb : List Nat)
    (ha : a.validB = true) (hb : b.validB = true) (hfa : a.fermi = true) (hfb : b.fermi = true)
    (g1 : tdotAdmissibleCommonB a b xa xb = true)
    (g2 : tdotAdmissibleCommonB a b (xa ++ ya) (xb ++ yb) = true)
    (h1 : a.tensordotF b (.pair (xa.map Int.ofNat) (xb.map Int.ofNat)) .blockwise = .ok c)
    (h2 : c.einsumF (tsLhs a.ndim b.ndim xa xb ya yb) (tsRhs a.ndim b.ndim xa xb ya yb) = .ok e)
    (h3 : a.tensordotF b (.pair ((xa ++ ya).map Int.ofNat) ((xb ++ yb).map Int.ofNat)) .blockwise
      = .ok c')
    (s' : Sector) (fL fR : List Nat)
    (hfL : fL.length = (freeAxes a.ndim (xa ++ ya)).length)
    (hbox : inBox (Arr.blockShapeD (without a.indices (xa ++ ya) ++ without b.indices (xb ++ yb)) s')
      (fL ++ fR) = true) :
    e.elem s' (fL ++ fR) = c'.elem s' (fL ++ fR) :=
  two_step_elem a b c e c' xa xb ya yb ha hb hfa hfb g1 g2 h1 h2 h3 s' fL fR hfL hbox

/-- **two_step_sign_identity.**  Moving the traced pairs adjacent (Koszul sign of `tsOrder` on the
    parities of the intermediate sector) costs exactly the sign the one-step contraction pays. -/
theorem two_step_sign_identity (a b : Arr R) (xa xb ya yb : List Nat) (sa sb : Sector)
    (hsym : a.sym = b.sym)
    (hnA : (xa ++ ya).Nodup) (hA : ∀ i ∈ xa ++ ya, i < a.ndim)
    (hnB : (xb ++ yb).Nodup) (hB : ∀ i ∈ xb ++ yb, i < b.ndim)
    (hlx : xa.length = xb.length) (hly : ya.length = yb.length)
    (hsa : sa.length = a.ndim) (hsb : sb.length = b.ndim)
    (hal : permuted sb (xb ++ yb) = permuted sa (xa ++ ya)) :
    koszul ((permuted sa (freeAxes a.ndim xa) ++ permuted sb (freeAxes b.ndim xb)).map a.sym.parity)
        (some (tsOrder a b.ndim xa xb ya yb))
      * gradedSign a b xa xb sa sb
    = gradedSign a b (xa ++ ya) (xb ++ yb) sa sb :=
  two_step_sign a b xa xb ya yb sa sb hsym hnA hA hnB hB hlx hly hsa hsb hal

/-- **two_step_einsum_order.** -/
theorem two_step_einsum_order [AddCommMonoid R] [Mul R] [Neg R] [SignRing R]
    (a b c c' : Arr R) (xa xb ya yb : List Nat)
    (ha : a.validB = true) (hb : b.validB = true) (hfa : a.fermi = true) (hfb : b.fermi = true)
    (g1 : tdotAdmissibleCommonB a b xa xb = true)
    (g2 : tdotAdmissibleCommonB a b (xa ++ ya) (xb ++ yb) = true)
    (h1 : a.tensordotF b (.pair (xa.map Int.ofNat) (xb.map Int.ofNat)) .blockwise = .ok c)
    (h3 : a.tensordotF b (.pair ((xa ++ ya).map Int.ofNat) ((xb ++ yb).map Int.ofNat)) .blockwise
      = .ok c') :
    Lazy.einOrder c (tsLhs a.ndim b.ndim xa xb ya yb) (tsRhs a.ndim b.ndim xa xb ya yb)
      = tsOrder a b.ndim xa xb ya yb := by
  obtain ⟨_, C, _, _⟩ := two_step_ctx ha hb hfa hfb g1 g2 h1 h3
  exact C.ordEq

/-! ## non-vacuity: `gA`, `gB` of C03 (odd Z2 operands with pending signs and labels) -/

open SymmModel.C03

/-- one pair first (`1 ~ 1`), one remaining pair (`2 ~ 0`): the hypotheses hold, the canonical labels
    are `abbc -> ac`, and evaluation confirms labels, charge, tables (equal in this instance) and all
    stored values -/
example :
    gA.validB = true ∧ gB.validB = true ∧ gA.fermi = true ∧ gB.fermi = true
    ∧ tdotAdmissibleCommonB gA gB [1] [1] = true
    ∧ tdotAdmissibleCommonB gA gB ([1] ++ [2]) ([1] ++ [0]) = true
    ∧ tsLhs gA.ndim gB.ndim [1] [1] [2] [0] = [0, 4, 4, 3] ∧ tsRhs gA.ndim gB.ndim [1] [1] [2] [0] = [0, 3]
    ∧ (match gA.tensordotF gB (.pair [1] [1]) .blockwise, gA.tensordotF gB (.pair [1, 2] [1, 0]) .blockwise with
       | .ok c, .ok c' =>
         (match c.einsumF (tsLhs gA.ndim gB.ndim [1] [1] [2] [0]) (tsRhs gA.ndim gB.ndim [1] [1] [2] [0]) with
          | .ok e => e.oddpos == c'.oddpos && e.charge == c'.charge && e.indices == c'.indices
              && e.phaseSync.blocks.map (fun p => (p.1, p.2.data))
                  == c'.phaseSync.blocks.map (fun p => (p.1, p.2.data))
              && c'.blocks.length == 2
          | .error _ => false)
       | _, _ => false) = true := by
  decide +kernel

/-- no pair first (outer product), TWO remaining pairs `2 ~ 0`, `1 ~ 1`, listed against the axis order:
    the einsum order is `[3, 2, 1, 4, 0, 5]`, both aligned sector pairs with sign `-1` occur, and
    evaluation confirms the values -/
example :
    tdotAdmissibleCommonB gA gB [] [] = true
    ∧ tdotAdmissibleCommonB gA gB ([] ++ [2, 1]) ([] ++ [0, 1]) = true
    ∧ tsLhs gA.ndim gB.ndim [] [] [2, 1] [0, 1] = [0, 7, 6, 6, 7, 5]
    ∧ tsRhs gA.ndim gB.ndim [] [] [2, 1] [0, 1] = [0, 5]
    ∧ tsOrder gA gB.ndim [] [] [2, 1] [0, 1] = [3, 2, 1, 4, 0, 5]
    ∧ (alignedPairs gA gB [2, 1] [0, 1]).map (fun p => gradedSign gA gB [2, 1] [0, 1] p.1 p.2)
        = [1, 1, -1, -1]
    ∧ (match gA.tensordotF gB (.pair [] []) .blockwise, gA.tensordotF gB (.pair [2, 1] [0, 1]) .blockwise with
       | .ok c, .ok c' =>
         (match c.einsumF (tsLhs gA.ndim gB.ndim [] [] [2, 1] [0, 1]) (tsRhs gA.ndim gB.ndim [] [] [2, 1] [0, 1]) with
          | .ok e => e.oddpos == c'.oddpos && e.charge == c'.charge
              && e.phaseSync.blocks.map (fun p => (p.1, p.2.data))
                  == c'.phaseSync.blocks.map (fun p => (p.1, p.2.data))
              && c'.blocks.length == 2
          | .error _ => false)
       | _, _ => false) = true := by
  decide +kernel

/-- the general theorem applies to the first instance -/
example (c e c' : Arr Int)
    (h1 : gA.tensordotF gB (.pair ([1].map Int.ofNat) ([1].map Int.ofNat)) .blockwise = .ok c)
    (h2 : c.einsumF (tsLhs gA.ndim gB.ndim [1] [1] [2] [0]) (tsRhs gA.ndim gB.ndim [1] [1] [2] [0]) = .ok e)
    (h3 : gA.tensordotF gB (.pair (([1] ++ [2]).map Int.ofNat) (([1] ++ [0]).map Int.ofNat)) .blockwise
      = .ok c') :
    ∀ s ∈ c'.sectors, ∀ o, inBox (Arr.blockShapeD c'.indices s) o = true → e.elem s o = c'.elem s o :=
  (two_step_values gA gB c e c' [1] [1] [2] [0] (by decide +kernel) (by decide +kernel) rfl rfl
    (by decide +kernel) (by decide +kernel) h1 h2 h3).2.2.2.2.2.2.2.1

end SymmModel.C04
