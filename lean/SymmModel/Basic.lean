def hello := "world"
