/-
  SymmModel.Proofs.ValidMisc — `__matmul__` (abelian and fermionic) and `eigh` return valid
  arrays (property C01).
-/
import SymmModel.Proofs.ValidTdotFused
import SymmModel.Proofs.ValidLinalg

namespace SymmModel
namespace ValidP
open Sym

variable {R : Type}

/-! ### matmul -/

/-- guard of `a @ b`: same symmetry, last index of `a` and first index of `b` have opposite
    directions (ranks are checked by the model itself) -/
def matmulAdmissibleB (a b : Arr R) : Bool :=
  decide (a.sym = b.sym)
  && ((a.indices.getD (a.ndim - 1) default).dual != (b.indices.getD 0 default).dual)

theorem matmulA_core [Zero R] [Add R] [Mul R] (a b c : Arr R) (ha : Core a) (hb : Core b)
    (hadm : matmulAdmissibleB a b = true) (h : matmulA a b = .ok c) :
    Core c ∧ c.sym = a.sym ∧ c.fermi = a.fermi ∧ c.charge = a.sym.combine [a.charge, b.charge]
      ∧ c.phases = a.phases ∧ c.oddpos = a.oddpos := by
  unfold matmulAdmissibleB at hadm
  simp only [Bool.and_eq_true, decide_eq_true_eq] at hadm
  obtain ⟨hsym, hdual⟩ := hadm
  have key : ∀ (na nb : Nat), a.ndim = na → b.ndim = nb → 0 < na → 0 < nb →
      Core (tensordotBlockwise a b (without (List.range na) [na - 1]) [na - 1] [0]
        (without (List.range nb) [0])) := by
    intro na nb h1 h2 h3 h4
    subst h1 h2
    apply tensordotBlockwise_core a b [a.ndim - 1] [0] ha hb hsym
    · unfold oppositeDualsB
      simp only [List.length_cons, List.length_nil, beq_self_eq_true, List.zip_cons_cons,
        List.zip_nil_right, List.all_cons, List.all_nil, Bool.and_true, Bool.true_and]
      exact hdual
    · simp
    · simp
    · intro i hi; simp only [List.mem_singleton] at hi; omega
    · intro i hi; simp only [List.mem_singleton] at hi; omega
  unfold matmulA at h
  split at h
  · rename_i h1 h2
    simp only [pure, Except.pure, Except.ok.injEq] at h
    subst h
    exact ⟨key 1 1 h1 h2 (by decide) (by decide), rfl, rfl, rfl, rfl, rfl⟩
  · rename_i h1 h2
    simp only [pure, Except.pure, Except.ok.injEq] at h
    subst h
    exact ⟨key 1 2 h1 h2 (by decide) (by decide), rfl, rfl, rfl, rfl, rfl⟩
  · rename_i h1 h2
    simp only [pure, Except.pure, Except.ok.injEq] at h
    subst h
    exact ⟨key 2 1 h1 h2 (by decide) (by decide), rfl, rfl, rfl, rfl, rfl⟩
  · rename_i h1 h2
    simp only [pure, Except.pure, Except.ok.injEq] at h
    subst h
    exact ⟨key 2 2 h1 h2 (by decide) (by decide), rfl, rfl, rfl, rfl, rfl⟩
  · split at h <;> cases h

theorem matmulA_valid [Zero R] [Add R] [Mul R] (a b c : Arr R) (ha : Valid a) (hb : Valid b)
    (hfa : a.fermi = false) (hadm : matmulAdmissibleB a b = true) (h : matmulA a b = .ok c) :
    Valid c := by
  obtain ⟨hcore, _, e2, _, e4, e5⟩ := matmulA_core a b c ha.core hb.core hadm h
  refine Valid.of hcore ?_
  have hs := ha.sgn
  unfold SignsOk at hs ⊢
  simp only [hfa, Bool.false_eq_true, if_false] at hs
  rw [e2, e4, e5, hfa, hs.1, hs.2]
  simp

theorem matmulF_valid [Zero R] [Add R] [Mul R] [Neg R] (a b r : Arr R) (ha : Valid a) (hb : Valid b)
    (hfa : a.fermi = true) (hfb : b.fermi = true) (hadm : matmulAdmissibleB a b = true)
    (h : Arr.matmulF a b = .ok r) : Valid r := by
  unfold Arr.matmulF at h
  dsimp only at h
  split at h
  · cases h
  · split at h
    case h_2 => cases h
    rename_i ix _
    rw [pure_bind] at h
    obtain ⟨c, hc, h⟩ := bind_ok h
    have hb1v : ∀ b1 : Arr R, b1 = (if ix.dual = true then b.phaseFlip [0] else b) →
        Valid b1 ∧ b1.fermi = true ∧ b1.indices = b.indices ∧ b1.sym = b.sym
          ∧ b1.charge = b.charge ∧ b1.oddpos = b.oddpos := by
      intro b1 hb1
      subst hb1
      split
      · obtain ⟨e1, e2, e3, e4, e5⟩ := phaseFlip_fields b [0]
        exact ⟨phaseFlip_valid b [0] hb hfb, by rw [e5]; exact hfb, e1, e2, e3, e4⟩
      · exact ⟨hb, hfb, rfl, rfl, rfl, rfl⟩
    obtain ⟨vb1, fb1, ib1, sb1, cb1, ob1⟩ := hb1v _ rfl
    generalize (if ix.dual = true then b.phaseFlip [0] else b) = b1 at *
    have va2 := phaseSync_valid a ha
    have vb2 := phaseSync_valid b1 vb1
    have hadm2 : matmulAdmissibleB a.phaseSync b1.phaseSync = true := by
      unfold matmulAdmissibleB at hadm ⊢
      show (decide (a.sym = b1.sym)
        && ((a.indices.getD (a.ndim - 1) default).dual != (b1.indices.getD 0 default).dual)) = true
      rw [sb1, ib1]; exact hadm
    obtain ⟨hcore, e1, e2, e3, e4, e5⟩ :=
      matmulA_core a.phaseSync b1.phaseSync c va2.core vb2.core hadm2 hc
    apply resolveCombinedOddpos_valid a.phaseSync b1.phaseSync c r hcore
      (by rw [e2]; exact hfa) (by rw [e4]; exact phasesOk_nil) _ h
    have hsa := ha.sgn
    have hsb := hb.sgn
    unfold SignsOk at hsa hsb
    simp only [hfa, hfb, if_true] at hsa hsb
    unfold matmulAdmissibleB at hadm
    simp only [Bool.and_eq_true, decide_eq_true_eq] at hadm
    show c.sym.parity c.charge = xor (a.oddpos.length % 2 == 1) (b1.oddpos.length % 2 == 1)
    rw [e1, e3]
    show a.sym.parity (a.sym.combine [a.charge, b1.charge]) = _
    rw [parity_combine_pair', cb1, ob1, hsa.2, hsb.2, hadm.1]

/-! ### eigh -/

/-- shape contract of the per-block `eigh` kernel on a square block: eigenvectors `m × m` -/
def EighShapeContract (K : Kernels R) : Prop :=
  ∀ b : Blk R, b.shape.length = 2 → b.wf = true → b.shape.getD 0 0 = b.shape.getD 1 0 →
    (K.eigh b).2.shape = b.shape ∧ (K.eigh b).2.wf = true

theorem shapeOnly_eighContract [Zero R] : EighShapeContract (Kernels.shapeOnly : Kernels R) := by
  intro b h2 _ hsq
  refine ⟨?_, ofFn_wf _ _⟩
  show [b.shape.getD 0 0, b.shape.getD 0 0] = b.shape
  match hs : b.shape, h2 with
  | [m, n], _ =>
    rw [hs] at hsq
    simp only [List.getD_cons_zero, List.getD_cons_succ] at hsq ⊢
    rw [hsq]

/-- the eigenvector array of `eigh` is valid (abelian and fermionic) -/
theorem eighA_valid [Neg R] (K : Kernels R) (a v : Arr R) (w : BVec R) (hv : Valid a)
    (hK : EighShapeContract K) (h : eighA K a = .ok (w, v)) : Valid v := by
  unfold eighA at h
  simp only [bind, Except.bind, pure, Except.pure] at h
  generalize ha1 : (if (a.fermi && !a.phases.isEmpty) = true then a.phaseSync else a) = a1 at h
  have hv1 : Valid a1 := by
    subst ha1
    split
    · exact phaseSync_valid a hv
    · exact hv
  split at h
  · cases h
  · split at h
    · cases h
    · split at h
      · cases h
      · rename_i hnd _ hsq
        simp only [Except.ok.injEq, Prod.mk.injEq] at h
        obtain ⟨_, rfl⟩ := h
        have hnd' : a1.ndim = 2 := by simpa using hnd
        refine ⟨hv1.idx, hv1.chg, ?_, ?_, hv1.sgn⟩
        · show (List.map (fun x : Sector × Blk R => x.1)
            ((a1.blocks.map (fun x : Sector × Blk R => (x.1, K.eigh x.2))).map _)).Nodup
          rw [List.map_map, List.map_map]
          exact hv1.nodup
        · intro sb hsb
          obtain ⟨sf, hsf, rfl⟩ := List.mem_map.mp hsb
          obtain ⟨⟨s, b⟩, h0, rfl⟩ := List.mem_map.mp hsf
          obtain ⟨a1', a2, a3⟩ := hv1.blk (s, b) h0
          have hlen : b.shape.length = 2 := by rw [(blockShape?_length a2).1]; exact hnd'
          have hsq' : b.shape.getD 0 0 = b.shape.getD 1 0 := by
            have := hsq
            simp only [List.any_eq_true, not_exists, not_and, Bool.not_eq_true] at this
            have := this (s, b) h0
            simpa using this
          obtain ⟨c1, c2⟩ := hK b hlen a3 hsq'
          exact ⟨a1', by simp only [c1]; exact a2, c2⟩

end ValidP
end SymmModel
