/-
  SymmModel.Proofs.FuseInsert — `fuseInsert` for one multi-axis group is an `insFold` of
  explicit items; shapes of the fused blocks.
-/
import SymmModel.Proofs.FuseOne
namespace SymmModel
namespace FuseP
set_option linter.unusedSectionVars false

variable {R : Type}

theorem blockShape?_append {i1 i2 : List Index} {s1 s2 : Sector} {p1 p2 : List Nat}
    (h1 : Arr.blockShape? i1 s1 = some p1) (h2 : Arr.blockShape? i2 s2 = some p2) :
    Arr.blockShape? (i1 ++ i2) (s1 ++ s2) = some (p1 ++ p2) := by
  rw [blockShape?_some_iff] at h1 h2 ⊢
  refine ⟨by simp [h1.1, h2.1], ?_⟩
  rw [List.zipWith_append h1.1, h1.2, h2.2, List.map_append]

theorem blockShape?_single {ix : Index} {c : Charge} {d : Nat} (h : ix.sizeOf? c = some d) :
    Arr.blockShape? [ix] [c] = some [d] := by
  rw [blockShape?_some_iff]; simp [h]

theorem set_mid {α : Type} (x y : List α) (u v : α) : (x ++ [u] ++ y).set x.length v = x ++ [v] ++ y := by
  induction x with
  | nil => simp
  | cons h t ih => simp

theorem range_map_ite_eq_set (n p st : Nat) :
    (List.range n).map (fun ax => if ax = p then st else 0) = (List.replicate n 0).set p st := by
  apply List.ext_getElem?
  intro k
  simp only [List.getElem?_map, List.getElem?_set, List.getElem?_replicate, List.length_replicate]
  by_cases hk : k < n
  · rw [List.getElem?_range hk]
    by_cases hp : p = k
    · subst hp; simp [hk]
    · have : ¬ k = p := fun e => hp e.symm
      simp [hp, this, hk]
  · rw [List.getElem?_eq_none (by simpa using hk)]
    by_cases hp : p = k
    · subst hp; simp [hk]
    · simp [hp, hk]

section One
variable (a : Arr R) (gaxes : List Nat)

/-- shape of the fused block with sector `ns` -/
def shapeOf1 (ns : Sector) : List Nat := (Arr.blockShape? (newIndices1 a gaxes) ns).getD []

/-- size the fused index gives to a charge -/
def DOf (c : Charge) : Nat := ((fix1 a gaxes).sizeOf? c).getD 0

/-- start of the sub-sector of `s` inside the extent of its fused charge -/
def stOf (s : Sector) : Nat :=
  ((startOf ((alookup (exts1 a gaxes) (cOf a gaxes s)).getD []) (ssOf gaxes s)).getD (0, 0)).1

/-- the item `_fuse_blocks_via_insert` writes for a stored block -/
def toItem [Zero R] (sb : Sector × Blk R) : Item R :=
  (nsOf a gaxes sb.1,
   (List.replicate (newIndices1 a gaxes).length 0).set (gi1 a gaxes).position (stOf a gaxes sb.1),
   (sb.2.transposeK (gi1 a gaxes).perm).reshapeK (newShapeOf a gaxes sb.2.shape))

variable {a gaxes}

theorem before_lt (hok : GroupsOk [gaxes] a.ndim) : ∀ ax ∈ (gi1 a gaxes).axesBefore, ax < a.indices.length := by
  have hok' : GroupsOk [gaxes] a.duals.length := by rw [duals_length]; exact hok
  intro ax hax
  rw [axesBefore_eq hok'] at hax
  have := position_lt hok'
  rw [duals_length] at this
  simp only [List.mem_range] at hax
  exact Nat.lt_trans hax this

theorem after_lt : ∀ ax ∈ (gi1 a gaxes).axesAfter, ax < a.indices.length := by
  intro ax hax
  have := (mem_axesAfter.1 hax).1
  rwa [duals_length] at this

theorem gaxes_lt (hok : GroupsOk [gaxes] a.ndim) : ∀ ax ∈ gaxes, ax < a.indices.length := by
  intro ax hax; exact hok.lt ax (by simpa using hax)

theorem newIndices1_length (hok : GroupsOk [gaxes] a.ndim) :
    (newIndices1 a gaxes).length = (gi1 a gaxes).position + 1 + (gi1 a gaxes).axesAfter.length := by
  have hok' : GroupsOk [gaxes] a.duals.length := by rw [duals_length]; exact hok
  simp only [newIndices1, List.length_append, List.length_cons, List.length_nil]
  rw [permuted_length _ _ (before_lt hok), permuted_length _ _ after_lt, axesBefore_length hok']

/-- shape of the fused block holding a stored sector -/
theorem shapeOf1_stored (hv : ValidArr a) (hok : GroupsOk [gaxes] a.ndim) (hlen : gaxes.length ≠ 1)
    {sb : Sector × Blk R} (hsb : sb ∈ a.blocks) :
    Arr.blockShape? (newIndices1 a gaxes) (nsOf a gaxes sb.1)
      = some (shPre a gaxes sb.2.shape ++ [DOf a gaxes (cOf a gaxes sb.1)] ++ shPost a gaxes sb.2.shape) := by
  have hb := (hv.blk sb hsb).2.1
  obtain ⟨e, D, st, _, _, h3, _⟩ := stored_in_table hv hok hlen hsb
  simp only [newIndices1, nsOf]
  apply blockShape?_append
  · apply blockShape?_append
    · rw [permuted_eq_map _ default _ (before_lt hok)]
      exact blockShape?_map hb _ (before_lt hok)
    · apply blockShape?_single
      simp [DOf, h3]
  · rw [permuted_eq_map _ default _ after_lt]
    exact blockShape?_map hb _ after_lt

theorem singlets_one (hlen : gaxes.length ≠ 1) : (gi1 a gaxes).singlets = [] := by
  have hl : (gaxes.length == 1) = false := by simpa using hlen
  simp [calcFuseGroupInfo, List.zipIdx, hl]

theorem alookup_blockmap (hv : ValidArr a) (hlen : gaxes.length ≠ 1)
    {sb : Sector × Blk R} (hsb : sb ∈ a.blocks) :
    alookup (blockmapOf a [gaxes]) sb.1 = some
      ({ newShape := newShapeOf a gaxes sb.2.shape, newSector := nsOf a gaxes sb.1,
         subsectors := [ssOf gaxes sb.1] } : BlockPlan) := by
  rw [blockmapOf_one hlen]
  apply alookup_of_mem_nodup
  · simp only [List.map_map]; exact hv.nodup
  · exact List.mem_map.2 ⟨sb, hsb, rfl⟩

theorem nsOf_getD_pos (hok : GroupsOk [gaxes] a.ndim) (s : Sector) :
    (nsOf a gaxes s).getD (gi1 a gaxes).position (0, 0) = cOf a gaxes s := by
  simp only [nsOf]
  rw [← preOf_length hok s]
  simp

theorem newIndices1_getD_pos (hok : GroupsOk [gaxes] a.ndim) :
    (newIndices1 a gaxes).getD (gi1 a gaxes).position default = fix1 a gaxes := by
  have h := permuted_before_length (a := a) hok
  simp only [newIndices1]
  rw [← h]
  simp

/-- the start offsets `_fuse_blocks_via_insert` computes for a stored block -/
theorem starts_one (hv : ValidArr a) (hok : GroupsOk [gaxes] a.ndim) (hlen : gaxes.length ≠ 1)
    {sb : Sector × Blk R} (hsb : sb ∈ a.blocks) :
    (List.range (newIndices1 a gaxes).length).mapM (fun ax =>
      if (gi1 a gaxes).position ≤ ax && ax < (gi1 a gaxes).position + (gi1 a gaxes).numGroups
          && !(gi1 a gaxes).singlets.contains (ax - (gi1 a gaxes).position) then
        match extentStart? ((newIndices1 a gaxes).getD ax default) ((nsOf a gaxes sb.1).getD ax (0, 0))
                (([ssOf gaxes sb.1] : List Sector).getD (ax - (gi1 a gaxes).position) []) with
        | some (st, _) => (pure st : Except Err Nat)
        | none => throw Err.key
      else pure 0)
    = .ok ((List.replicate (newIndices1 a gaxes).length 0).set (gi1 a gaxes).position (stOf a gaxes sb.1)) := by
  rw [← range_map_ite_eq_set]
  apply mapM_ok_of_forall
  intro ax _
  rw [singlets_one hlen, numGroups_eq]
  by_cases hax : ax = (gi1 a gaxes).position
  · subst hax
    obtain ⟨e, D, st, h1, h2, _, _⟩ := stored_in_table hv hok hlen hsb
    simp only [Nat.le_refl, decide_true, List.length_cons, List.length_nil, Nat.zero_add, Nat.lt_add_one,
      Bool.and_self, List.contains_nil, Bool.not_false, if_true, Nat.sub_self, List.getD_cons_zero]
    rw [newIndices1_getD_pos hok, nsOf_getD_pos hok, extentStart?_eq fix1_sub h1, h2]
    simp only [stOf]
    have h1' : alookup (exts1 a gaxes) (cOf a gaxes sb.1) = some e := h1
    rw [h1']
    simp [h2]
    rfl
  · have : ¬ ((gi1 a gaxes).position ≤ ax ∧ ax < (gi1 a gaxes).position + 1) := by omega
    simp only [List.length_cons, List.length_nil, Nat.zero_add, List.contains_nil, Bool.not_false,
      Bool.and_true, Bool.and_eq_true, decide_eq_true_eq, this, if_false, hax]
    rfl

/-- **`fuseInsert` as a pure fold** -/
theorem fuseInsert_one_eq [Zero R] (hv : ValidArr a) (hok : GroupsOk [gaxes] a.ndim) (hlen : gaxes.length ≠ 1) :
    fuseInsert a.blocks (fuseInfoOf a [gaxes])
      = .ok (insFold (shapeOf1 a gaxes) (a.blocks.map (toItem a gaxes))) := by
  unfold fuseInsert insFold
  rw [List.foldl_map]
  apply foldlM_ok
  intro acc sb hsb
  obtain ⟨s, b⟩ := sb
  simp only []
  have hfi : (fuseInfoOf a [gaxes]).blockmap = blockmapOf a [gaxes] := rfl
  have hgi : (fuseInfoOf a [gaxes]).gi = gi1 a gaxes := rfl
  rw [hfi, alookup_blockmap hv hlen hsb, newIndices_one hok hlen, hgi]
  simp only [bind, Except.bind, pure, Except.pure]
  have hst := starts_one hv hok hlen hsb
  simp only [pure, Except.pure] at hst
  erw [hst]
  simp only [insStep, toItem]
  cases hl : alookup acc (nsOf a gaxes s) with
  | some t => rfl
  | none =>
    simp only [shapeOf1_stored hv hok hlen hsb, shapeOf1, Option.getD_some, Option.getD_none]

end One

end FuseP
end SymmModel
