/-
  SymmModel.Proofs.Routes — helper lemmas for the route-independence clauses S4–S6 of property C04
  (Props/C04b.lean): statements about the graded specification `GradedP.gradedContract` /
  `GradedP.gradedSign` (Proofs/Graded.lean) and about the label sort `OddposP.mergeOddpos`, which
  `C03.tensordotF_refines_graded` then transfers to the model's `Arr.tensordotF`.

  Nothing here changes a model definition.  Everything lives in `namespace SymmModel.RoutesP`.
  * `permuted_perm`, `allIdx_permuted_perm`, `freeAxes_congr`      : re-listing axes / boxes
  * `koszul_id_block_left/right`, `koszul_relist_left/right`        : Koszul signs of block-diagonal
                                                                       permutations (from the cocycle)
  * `mergeIdx_relist`, `storedPairs_relist`, `contractPair_relist`, `gradedSign_relist`,
    `gradedContract_relist`                                          : S4 at specification level
  * `coreT`, `finish`, `Adm`, `tensordotF_eq_core`, `CoreFrame`, `coreT_frame`, `coreFrame_unique`
                                                                     : the structure of a call; two core
                                                                       contractions with the same keys and
                                                                       graded values are EQUAL arrays
  * `tdotF_axes_perm_eq`                                             : S4 for the model
  (Routes2: S6, Routes3: S5, Routes4: `assoc_sign_identity`.)
-/
import SymmModel.Proofs.Graded
import SymmModel.Proofs.TdotMore

namespace SymmModel
namespace RoutesP
open TdotP GradedP KoszulP
set_option linter.unusedSectionVars false

/-! ### permuting a list of axes -/

section perm
variable {α : Type}

/-- re-listing the entries of `l` along a permutation `π` of its positions gives a permutation -/
theorem permuted_perm (l : List α) (π : List Nat) (hπ : π.Perm (List.range l.length)) :
    (permuted l π).Perm l := by
  have h1 : (permuted l π).Perm (permuted l (List.range l.length)) := by
    unfold permuted; exact hπ.filterMap _
  rwa [ValidP.permuted_range] at h1

theorem mem_lt_of_perm {π : List Nat} {n : Nat} (hπ : π.Perm (List.range n)) : ∀ i ∈ π, i < n :=
  fun _ hi => List.mem_range.mp (hπ.mem_iff.mp hi)

theorem permuted_length_perm (l : List α) (π : List Nat) (hπ : π.Perm (List.range l.length)) :
    (permuted l π).length = l.length := (permuted_perm l π hπ).length_eq

/-- `permuted z (permuted ax π) = permuted (permuted z ax) π` -/
theorem permuted_permuted_ax (z : List α) (ax π : List Nat) (hax : ∀ i ∈ ax, i < z.length) :
    permuted z (permuted ax π) = permuted (permuted z ax) π :=
  (KoszulP.permuted_permuted z ax π hax).symm

theorem freeAxes_congr (n : Nat) {ax ax' : List Nat} (h : ∀ x, x ∈ ax' ↔ x ∈ ax) :
    freeAxes n ax' = freeAxes n ax := by
  unfold freeAxes
  apply List.filter_congr
  intro x _
  have : ax'.contains x = ax.contains x := by
    rw [Bool.eq_iff_iff]; simp [h x]
  rw [this]

theorem prod_perm {l l' : List Nat} (h : l.Perm l') : prod l = prod l' := by
  induction h with
  | nil => rfl
  | cons x _ ih => simp only [prod, ih]
  | swap x y l => simp only [prod]; rw [← Nat.mul_assoc, ← Nat.mul_assoc, Nat.mul_comm y x]
  | trans _ _ ih1 ih2 => exact ih1.trans ih2

/-- the box of the re-listed contracted sizes is the image of the box under re-listing -/
theorem allIdx_permuted_perm (B π : List Nat) (hπ : π.Perm (List.range B.length)) :
    (allIdx (permuted B π)).Perm ((allIdx B).map (fun k => permuted k π)) := by
  have hinj : ∀ k ∈ allIdx B, ∀ k' ∈ allIdx B, permuted k π = permuted k' π → k = k' := by
    intro k hk k' hk' e
    exact KoszulP.permuted_injective k k' π B.length hπ (inBox_length (mem_allIdx_iff.mp hk))
      (inBox_length (mem_allIdx_iff.mp hk')) e
  have hnd : ((allIdx B).map (fun k => permuted k π)).Nodup :=
    List.Nodup.map_on hinj (allIdx_nodup B)
  have hsub : ((allIdx B).map (fun k => permuted k π)) ⊆ allIdx (permuted B π) := by
    intro k' hk'
    obtain ⟨k, hk, rfl⟩ := List.mem_map.mp hk'
    exact mem_allIdx_iff.mpr (KoszulP.inBox_permuted B k π B.length hπ rfl (mem_allIdx_iff.mp hk))
  have hsp := List.subperm_of_subset hnd hsub
  refine (hsp.perm_of_length_le ?_).symm
  rw [List.length_map, allIdx_length, allIdx_length, prod_perm (permuted_perm B π hπ)]

end perm

/-! ### Koszul signs of block-diagonal permutations -/

section koszulblocks

theorem isOdd_append_right (P Q : List Bool) (j : Nat) : isOdd (P ++ Q) (P.length + j) = isOdd Q j := by
  unfold isOdd
  rw [List.getD_eq_getElem?_getD, List.getD_eq_getElem?_getD,
    List.getElem?_append_right (by omega)]
  congr 2; omega

theorem isOdd_append_left (P Q : List Bool) (j : Nat) (hj : j < P.length) :
    isOdd (P ++ Q) j = isOdd P j := by
  unfold isOdd
  rw [List.getD_eq_getElem?_getD, List.getD_eq_getElem?_getD, List.getElem?_append_left hj]

theorem invR_gtR_map_add (l : Nat) (L : List Nat) :
    invR gtR (L.map (l + ·)) = invR gtR L := by
  induction L with
  | nil => rfl
  | cons a L ih =>
    simp only [List.map_cons, invR, ih, List.filter_map, List.length_map]
    congr 2
    apply List.filter_congr
    intro b _
    simp [gtR, Function.comp]

theorem crossR_gtR_zero (L M : List Nat) (h : ∀ a ∈ L, ∀ b ∈ M, a ≤ b) : crossR gtR L M = 0 := by
  induction L with
  | nil => rfl
  | cons a L ih =>
    simp only [crossR]
    have : M.filter (gtR a) = [] := by
      rw [List.filter_eq_nil_iff]
      intro b hb
      have := h a (by simp) b hb
      simp [gtR]; omega
    rw [this, ih (fun x hx => h x (List.mem_cons_of_mem _ hx))]
    rfl

/-- identity on a prefix block, `π` on the rest: only `π` on the rest's parities counts -/
theorem koszul_id_block_left (P Q : List Bool) (π : List Nat) (hπ : π.Perm (List.range Q.length)) :
    koszul (P ++ Q) (some (List.range P.length ++ π.map (P.length + ·))) = koszul Q (some π) := by
  have hperm : (List.range P.length ++ π.map (P.length + ·)).Perm (List.range (P.length + Q.length)) := by
    rw [List.range_add]
    exact List.Perm.append_left _ (hπ.map _)
  rw [koszul_eq_sgn_invR _ _ _ hperm, koszul_eq_sgn_invR _ _ _ hπ, List.filter_append, invR_append]
  have e2 : (π.map (P.length + ·)).filter (isOdd (P ++ Q)) = (π.filter (isOdd Q)).map (P.length + ·) := by
    rw [List.filter_map]
    congr 1
    apply List.filter_congr
    intro j _
    exact isOdd_append_right P Q j
  have e1 : invR gtR ((List.range P.length).filter (isOdd (P ++ Q))) = 0 :=
    invR_gtR_sorted _ (List.Pairwise.filter _ List.pairwise_lt_range)
  have e3 : crossR gtR ((List.range P.length).filter (isOdd (P ++ Q)))
      ((π.map (P.length + ·)).filter (isOdd (P ++ Q))) = 0 := by
    apply crossR_gtR_zero
    intro a ha b hb
    have h1 := List.mem_range.mp (List.mem_filter.mp ha).1
    obtain ⟨j, _, rfl⟩ := List.mem_map.mp (List.mem_filter.mp hb).1
    omega
  rw [e1, e3, e2, invR_gtR_map_add]
  simp

/-- `π` on a prefix block, identity on the rest -/
theorem koszul_id_block_right (Q P : List Bool) (π : List Nat) (hπ : π.Perm (List.range Q.length)) :
    koszul (Q ++ P) (some (π ++ (List.range P.length).map (Q.length + ·))) = koszul Q (some π) := by
  have hperm : (π ++ (List.range P.length).map (Q.length + ·)).Perm (List.range (Q.length + P.length)) := by
    rw [List.range_add]
    exact List.Perm.append_right _ hπ
  rw [koszul_eq_sgn_invR _ _ _ hperm, koszul_eq_sgn_invR _ _ _ hπ, List.filter_append, invR_append]
  have e1 : π.filter (isOdd (Q ++ P)) = π.filter (isOdd Q) := by
    apply List.filter_congr
    intro j hj
    exact isOdd_append_left Q P j (mem_lt_of_perm hπ j hj)
  have e2 : invR gtR (((List.range P.length).map (Q.length + ·)).filter (isOdd (Q ++ P))) = 0 := by
    apply invR_gtR_sorted
    apply List.Pairwise.filter
    rw [List.pairwise_map]
    exact List.Pairwise.imp (fun {a b} h => by omega) List.pairwise_lt_range
  have e3 : crossR gtR (π.filter (isOdd (Q ++ P)))
      (((List.range P.length).map (Q.length + ·)).filter (isOdd (Q ++ P))) = 0 := by
    apply crossR_gtR_zero
    intro a ha b hb
    have h1 := mem_lt_of_perm hπ a (List.mem_filter.mp ha).1
    obtain ⟨j, _, rfl⟩ := List.mem_map.mp (List.mem_filter.mp hb).1
    omega
  rw [e2, e3, e1]
  simp

end koszulblocks

/-! ### re-listing the contracted axes inside the two operand transposes -/

section relist
variable {α : Type}

theorem permuted_append_map_add (u v : List α) (π : List Nat) :
    permuted (u ++ v) (π.map (u.length + ·)) = permuted v π := by
  unfold permuted
  rw [List.filterMap_map]
  apply List.filterMap_congr
  intro j _
  simp only [Function.comp]
  rw [List.getElem?_append_right (by omega)]
  congr 1; omega

theorem permuted_append_of_lt (u v : List α) (π : List Nat) (h : ∀ i ∈ π, i < u.length) :
    permuted (u ++ v) π = permuted u π := by
  unfold permuted
  apply List.filterMap_congr
  intro j hj
  exact List.getElem?_append_left (h j hj)

/-- left operand: re-listing `xa` along `π` multiplies the Koszul sign of `left ++ xa` by the sign
    of `π` on the contracted parities -/
theorem koszul_relist_left (par : List Bool) (n : Nat) (hpar : par.length = n) (xa π : List Nat)
    (hn : xa.Nodup) (hlt : ∀ i ∈ xa, i < n) (hπ : π.Perm (List.range xa.length)) :
    koszul par (some (freeAxes n xa ++ permuted xa π))
      = koszul par (some (freeAxes n xa ++ xa)) * koszul (permuted par xa) (some π) := by
  have hp := perm_left hn hlt
  have hfl := freeAxes_length hn hlt
  have hq : (List.range (freeAxes n xa).length ++ π.map ((freeAxes n xa).length + ·)).Perm (List.range n) := by
    have : n = (freeAxes n xa).length + xa.length := by omega
    conv => rhs; rw [this, List.range_add]
    exact List.Perm.append_left _ (hπ.map _)
  have hc : compose (freeAxes n xa ++ xa)
      (List.range (freeAxes n xa).length ++ π.map ((freeAxes n xa).length + ·))
      = freeAxes n xa ++ permuted xa π := by
    unfold compose
    rw [ValidP.permuted_append, ValidP.permuted_range_take, List.take_left' rfl,
      permuted_append_map_add]
  have hco := koszul_cocycle' par _ _ n hpar hp hq
  rw [hc] at hco
  rw [hco, ValidP.permuted_append]
  congr 1
  have hl : (permuted par (freeAxes n xa)).length = (freeAxes n xa).length :=
    permuted_length _ _ (by intro x hx; rw [hpar]; exact (mem_freeAxes.mp hx).1)
  have hk : (permuted par xa).length = xa.length :=
    permuted_length _ _ (by intro x hx; rw [hpar]; exact hlt x hx)
  have := koszul_id_block_left (permuted par (freeAxes n xa)) (permuted par xa) π (by rw [hk]; exact hπ)
  rw [hl] at this
  exact this

/-- right operand: the same with the contracted axes in front -/
theorem koszul_relist_right (par : List Bool) (n : Nat) (hpar : par.length = n) (xb π : List Nat)
    (hn : xb.Nodup) (hlt : ∀ i ∈ xb, i < n) (hπ : π.Perm (List.range xb.length)) :
    koszul par (some (permuted xb π ++ freeAxes n xb))
      = koszul par (some (xb ++ freeAxes n xb)) * koszul (permuted par xb) (some π) := by
  have hp := perm_right hn hlt
  have hfl := freeAxes_length hn hlt
  have hq : (π ++ (List.range (freeAxes n xb).length).map (xb.length + ·)).Perm (List.range n) := by
    have : n = xb.length + (freeAxes n xb).length := by omega
    conv => rhs; rw [this, List.range_add]
    exact List.Perm.append_right _ hπ
  have hc : compose (xb ++ freeAxes n xb)
      (π ++ (List.range (freeAxes n xb).length).map (xb.length + ·))
      = permuted xb π ++ freeAxes n xb := by
    unfold compose
    rw [ValidP.permuted_append, permuted_append_of_lt _ _ _ (mem_lt_of_perm hπ),
      permuted_append_map_add, ValidP.permuted_range]
  have hco := koszul_cocycle' par _ _ n hpar hp hq
  rw [hc] at hco
  rw [hco, ValidP.permuted_append]
  congr 1
  have hl : (permuted par (freeAxes n xb)).length = (freeAxes n xb).length :=
    permuted_length _ _ (by intro x hx; rw [hpar]; exact (mem_freeAxes.mp hx).1)
  have hk : (permuted par xb).length = xb.length :=
    permuted_length _ _ (by intro x hx; rw [hpar]; exact hlt x hx)
  have := koszul_id_block_right (permuted par xb) (permuted par (freeAxes n xb)) π (by rw [hk]; exact hπ)
  rw [hl, hk] at this
  exact this

end relist

/-! ### S4: listing the contracted axis pairs in another order -/

section axesperm

theorem mergeIdx_relist {α : Type} (d : α) (n : Nat) (ax free π : List Nat) (k f : List α)
    (hn : ax.Nodup) (hπ : π.Perm (List.range ax.length)) (hk : k.length = ax.length) :
    mergeIdx d n (permuted ax π) free (permuted k π) f = mergeIdx d n ax free k f := by
  unfold mergeIdx
  apply List.map_congr_left
  intro y _
  have hπlt : ∀ i ∈ π, i < ax.length := mem_lt_of_perm hπ
  cases h1 : indexOf? (permuted ax π) y with
  | some j' =>
    have h2 := indexOf?_eq_some h1
    rw [permuted_getElem? ax π hπlt] at h2
    cases hpj : π[j']? with
    | none => rw [hpj] at h2; cases h2
    | some i =>
      rw [hpj] at h2
      simp only [Option.bind_some] at h2
      have hi : i < ax.length := by
        by_contra hc; rw [List.getElem?_eq_none (by omega)] at h2; cases h2
      have hy : ax[i] = y := by
        rw [List.getElem?_eq_getElem hi] at h2; exact Option.some.inj h2
      have h3 : indexOf? ax y = some i := by rw [← hy]; exact indexOf?_getElem hn hi
      rw [h3]
      simp only []
      rw [List.getD_eq_getElem?_getD, List.getD_eq_getElem?_getD,
        permuted_getElem? k π (by rw [hk]; exact hπlt), hpj]
      rfl
  | none =>
    have hy : y ∉ permuted ax π := indexOf?_eq_none_iff.mp h1
    have hy' : y ∉ ax := fun h => hy ((permuted_perm ax π hπ).mem_iff.mpr h)
    rw [indexOf?_eq_none_iff.mpr hy']

variable {R : Type}

/-- the relisted axes satisfy the same bookkeeping -/
theorem relist_ok {n : Nat} {ax π : List Nat} (hn : ax.Nodup) (hlt : ∀ i ∈ ax, i < n)
    (hπ : π.Perm (List.range ax.length)) :
    (permuted ax π).Nodup ∧ (∀ i ∈ permuted ax π, i < n) ∧ (permuted ax π).length = ax.length
      ∧ freeAxes n (permuted ax π) = freeAxes n ax := by
  have hp := permuted_perm ax π hπ
  exact ⟨hp.nodup_iff.mpr hn, fun i hi => hlt i (hp.mem_iff.mp hi), hp.length_eq,
    freeAxes_congr n (fun x => hp.mem_iff)⟩

theorem aligned_relist (sa sb : Sector) (xa xb π : List Nat) (hA : ∀ i ∈ xa, i < sa.length)
    (hB : ∀ i ∈ xb, i < sb.length) (hlen : xa.length = xb.length)
    (hπ : π.Perm (List.range xa.length)) :
    (permuted sb (permuted xb π) = permuted sa (permuted xa π)) ↔ (permuted sb xb = permuted sa xa) := by
  rw [permuted_permuted_ax sb xb π hB, permuted_permuted_ax sa xa π hA]
  constructor
  · intro h
    exact KoszulP.permuted_injective _ _ π xa.length hπ
      (by rw [permuted_length _ _ hB, hlen]) (permuted_length _ _ hA) h
  · intro h; rw [h]

theorem storedPairs_relist (a b : Arr R) (xa xb π : List Nat) (hsa : a.shapesOk) (hsb : b.shapesOk)
    (hnA : xa.Nodup) (hA : ∀ i ∈ xa, i < a.ndim) (hnB : xb.Nodup) (hB : ∀ i ∈ xb, i < b.ndim)
    (hlen : xa.length = xb.length) (hπ : π.Perm (List.range xa.length)) (s : Sector) :
    storedPairs a b (freeAxes a.ndim (permuted xa π)) (permuted xa π) (permuted xb π)
        (freeAxes b.ndim (permuted xb π)) s
      = storedPairs a b (freeAxes a.ndim xa) xa xb (freeAxes b.ndim xb) s := by
  rw [(relist_ok hnA hA hπ).2.2.2, (relist_ok hnB hB (hlen ▸ hπ)).2.2.2]
  unfold storedPairs
  apply flatMap_congr_mem
  intro sa hsa'
  congr 1
  apply List.filter_congr
  intro sb hsb'
  have hla := Arr.sector_length hsa hsa'
  have hlb := Arr.sector_length hsb hsb'
  have := aligned_relist sa sb xa xb π (by rw [hla]; exact hA) (by rw [hlb]; exact hB) hlen hπ
  congr 1
  rw [Bool.eq_iff_iff]
  simpa using this

variable [AddCommMonoid R] [Mul R] [Neg R]

theorem contractPair_relist (a b : Arr R) (xa xb π : List Nat) (hsa : a.shapesOk)
    (hnA : xa.Nodup) (hA : ∀ i ∈ xa, i < a.ndim) (hnB : xb.Nodup) (hB : ∀ i ∈ xb, i < b.ndim)
    (hlen : xa.length = xb.length) (hπ : π.Perm (List.range xa.length)) (oL oR : List Nat)
    (sa sb : Sector) (hsa' : sa ∈ a.sectors) :
    contractPair a b (permuted xa π) (permuted xb π) oL oR (sa, sb)
      = contractPair a b xa xb oL oR (sa, sb) := by
  obtain ⟨shp, _, h2, h3, _⟩ := shape_of_mem hsa hsa'
  unfold contractPair
  simp only [h2]
  have hAs : ∀ i ∈ xa, i < shp.length := by rw [h3]; exact hA
  have hBl : (permuted shp xa).length = xa.length := permuted_length _ _ hAs
  rw [permuted_permuted_ax shp xa π hAs]
  have hperm := allIdx_permuted_perm (permuted shp xa) π (by rw [hBl]; exact hπ)
  rw [(hperm.map _).sum_eq, List.map_map]
  congr 1
  apply List.map_congr_left
  intro k hk
  have hkl : k.length = xa.length := by rw [inBox_length (mem_allIdx_iff.mp hk), hBl]
  simp only [Function.comp]
  unfold contractTerm
  rw [(relist_ok hnA hA hπ).2.2.2, (relist_ok hnB hB (hlen ▸ hπ)).2.2.2,
    mergeIdx_relist 0 a.ndim xa _ π k oL hnA hπ hkl,
    mergeIdx_relist 0 b.ndim xb _ π k oR hnB (hlen ▸ hπ) (by rw [hkl, hlen])]

omit [AddCommMonoid R] [Mul R] [Neg R] in
theorem gradedSign_relist (a b : Arr R) (xa xb π : List Nat) (hsym : a.sym = b.sym)
    (hnA : xa.Nodup) (hA : ∀ i ∈ xa, i < a.ndim) (hnB : xb.Nodup) (hB : ∀ i ∈ xb, i < b.ndim)
    (hlen : xa.length = xb.length) (hπ : π.Perm (List.range xa.length))
    (sa sb : Sector) (hla : sa.length = a.ndim) (hlb : sb.length = b.ndim)
    (hal : permuted sb xb = permuted sa xa) :
    gradedSign a b (permuted xa π) (permuted xb π) sa sb = gradedSign a b xa xb sa sb := by
  unfold gradedSign
  have hpa : (a.parities sa).length = a.ndim := by unfold Arr.parities; rw [List.length_map, hla]
  have hpb : (b.parities sb).length = b.ndim := by unfold Arr.parities; rw [List.length_map, hlb]
  rw [(relist_ok hnA hA hπ).2.2.2, (relist_ok hnB hB (hlen ▸ hπ)).2.2.2,
    koszul_relist_left _ a.ndim hpa xa π hnA hA hπ,
    koszul_relist_right _ b.ndim hpb xb π hnB hB (hlen ▸ hπ)]
  have hpar : permuted (b.parities sb) xb = permuted (a.parities sa) xa := by
    unfold Arr.parities
    rw [permuted_map, permuted_map, hal, hsym]
  have hodd : oddContracted a (permuted xa π) sa = oddContracted a xa sa := by
    unfold oddContracted
    rw [permuted_permuted_ax sa xa π (by rw [hla]; exact hA)]
    exact ((permuted_perm (permuted sa xa) π (by
      rw [permuted_length _ _ (by rw [hla]; exact hA)]; exact hπ)).filter _).length_eq
  have hket : ketOdd a (permuted xa π) sa = ketOdd a xa sa := by
    unfold ketOdd
    exact (((permuted_perm xa π hπ).filter _).filter _).length_eq
  rw [hodd, hket, hpar]
  have hk := Lazy.koszul_pm (permuted (a.parities sa) xa) (some π)
  generalize koszul (permuted (a.parities sa) xa) (some π) = t at hk
  rcases hk with rfl | rfl <;> ring

/-- **S4, specification level.**  Re-listing the contracted axis pairs along a permutation `π`
    leaves the graded contraction unchanged. -/
theorem gradedContract_relist (a b : Arr R) (xa xb π : List Nat) (hsym : a.sym = b.sym)
    (hsa : a.shapesOk) (hsb : b.shapesOk)
    (hnA : xa.Nodup) (hA : ∀ i ∈ xa, i < a.ndim) (hnB : xb.Nodup) (hB : ∀ i ∈ xb, i < b.ndim)
    (hlen : xa.length = xb.length) (hπ : π.Perm (List.range xa.length)) (s : Sector)
    (oL oR : List Nat) :
    gradedContract a b (permuted xa π) (permuted xb π) s oL oR = gradedContract a b xa xb s oL oR := by
  unfold gradedContract
  rw [storedPairs_relist a b xa xb π hsa hsb hnA hA hnB hB hlen hπ s]
  congr 1
  apply List.map_congr_left
  rintro ⟨sa, sb⟩ hp
  obtain ⟨m1, m2, m3, _⟩ := mem_storedPairs.mp hp
  rw [gradedSign_relist a b xa xb π hsym hnA hA hnB hB hlen hπ sa sb (Arr.sector_length hsa m1)
      (Arr.sector_length hsb m2) m3,
    contractPair_relist a b xa xb π hsa hnA hA hnB hB hlen hπ oL oR sa sb m1]

end axesperm

/-! ### the structure of a `tensordot_fermionic` call -/

section core
variable {R : Type}

/-- blocks agreeing on their boxes are equal -/
theorem Blk.ext_inBox [Zero R] {b b' : Blk R} (hs : b.shape = b'.shape) (hw : b.wf = true)
    (hw' : b'.wf = true) (h : ∀ off, inBox b.shape off = true → b.get off = b'.get off) : b = b' := by
  obtain ⟨s, d⟩ := b
  obtain ⟨s', d'⟩ := b'
  simp only at hs; subst hs
  simp only [Blk.wf, beq_iff_eq] at hw hw'
  congr 1
  apply Array.ext (by rw [hw, hw'])
  intro i h1 h2
  have := h (unravel s i) (Lazy.unravel_inBox s i (hw ▸ h1))
  simp only [Blk.get, Lazy.ravel_unravel s i (hw ▸ h1)] at this
  simpa [Array.getD, h1, h2] using this

/-- block dictionaries with the same keys (in order), shapes, well-formed blocks and the same
    values inside the boxes are equal -/
theorem blocks_ext_inBox [Zero R] {l l' : List (Sector × Blk R)}
    (hk : l.map (fun p => (p.1, p.2.shape)) = l'.map (fun p => (p.1, p.2.shape)))
    (hn : (akeys l).Nodup) (hw : ∀ p ∈ l, p.2.wf = true) (hw' : ∀ p ∈ l', p.2.wf = true)
    (h : ∀ p ∈ l, ∀ off, inBox p.2.shape off = true →
      Lazy.rawGet l p.1 off = Lazy.rawGet l' p.1 off) : l = l' := by
  induction l generalizing l' with
  | nil => cases l' with
    | nil => rfl
    | cons _ _ => simp at hk
  | cons p t ih =>
    cases l' with
    | nil => simp at hk
    | cons p' t' =>
      obtain ⟨k, b⟩ := p
      obtain ⟨k', b'⟩ := p'
      simp only [List.map_cons, List.cons.injEq, Prod.mk.injEq] at hk
      obtain ⟨⟨rfl, hsh⟩, hkt⟩ := hk
      simp only [akeys, List.map_cons, List.nodup_cons] at hn
      have hb : b = b' := by
        apply Blk.ext_inBox hsh (hw _ List.mem_cons_self) (hw' _ List.mem_cons_self)
        intro off hoff
        have := h (k, b) List.mem_cons_self off hoff
        simpa [Lazy.rawGet, alookup] using this
      subst hb
      congr 1
      apply ih hkt hn.2 (fun p hp => hw p (List.mem_cons_of_mem _ hp))
        (fun p hp => hw' p (List.mem_cons_of_mem _ hp))
      intro p hp off hoff
      have hne : (k == p.1) = false := by
        have : p.1 ∈ akeys t := List.mem_map.mpr ⟨p, hp, rfl⟩
        cases hkp : k == p.1
        · rfl
        · rw [eq_of_beq hkp] at hn; exact absurd this hn.1
      have := h p (List.mem_cons_of_mem _ hp) off hoff
      simpa [Lazy.rawGet, alookup, hne] using this

/-- every block of an accumulated dictionary is well formed when the terms are and `add` produces
    well-formed blocks -/
theorem accum_wf (add : Blk R → Blk R → Blk R) (hadd : ∀ x y, (add x y).wf = true)
    (ps : List (Sector × Blk R)) (hps : ∀ p ∈ ps, p.2.wf = true) :
    ∀ p ∈ accum add ps, p.2.wf = true := by
  unfold accum
  have key : ∀ (acc : List (Sector × Blk R)), (∀ p ∈ acc, p.2.wf = true) →
      ∀ p ∈ ps.foldl (accStep add) acc, p.2.wf = true := by
    induction ps with
    | nil => intro acc h; exact h
    | cons q ps ih =>
      intro acc hacc
      rw [List.foldl_cons]
      apply ih (fun p hp => hps p (List.mem_cons_of_mem _ hp))
      intro p hp
      unfold accStep at hp
      split at hp
      · rcases List.mem_append.mp hp with h | h
        · exact hacc p h
        · simp only [List.mem_singleton] at h; rw [h]; exact hps q (by simp)
      · rcases Lazy.mem_ainsert hp with h | h
        · exact hacc p h
        · rw [h]; exact hadd _ _
  exact key [] (by simp)

variable [AddMonoid R] [Mul R] [Neg R] [SignRing R]
open Lazy (sgnI)

theorem tensordotBlockwise_wf (X Y : Arr R) (l xa xb r : List Nat) :
    ∀ p ∈ (tensordotBlockwise X Y l xa xb r).blocks, p.2.wf = true := by
  rw [tensordotBlockwise_blocks]
  apply accum_wf _ (fun x y => Blk.ofFn_wf _ _)
  intro p hp
  unfold tdTerms at hp
  obtain ⟨q, _, rfl⟩ := List.mem_map.mp hp
  exact Blk.ofFn_wf _ _

/-- the abelian contraction of the prepared operands inside `tensordot_fermionic` -/
def coreT (a b : Arr R) (xa xb : List Nat) : Arr R :=
  let X := (ValidP.tdF34 a b xa xb).1.phaseSync
  let Y := (ValidP.tdF34 a b xa xb).2.phaseSync
  tensordotBlockwise X Y (freeAxes X.ndim ((List.range a.ndim).drop (a.ndim - xa.length)))
    ((List.range a.ndim).drop (a.ndim - xa.length)) (List.range xa.length)
    (freeAxes Y.ndim (List.range xa.length))

/-- attach the merged labels and the label sign -/
def finish (T : Arr R) (r : List (Int × Bool) × Int) : Arr R :=
  { (if r.2 == -1 then T.phaseGlobal else T) with oddpos := r.1 }

/-- what the hypotheses `validB`, `fermi`, `tdotAdmissibleB` give -/
structure Adm (a b : Arr R) (xa xb : List Nat) : Prop where
  va : a.validB = true
  vb : b.validB = true
  fa : a.fermi = true
  fb : b.fermi = true
  sym : a.sym = b.sym
  con : ValidP.contractibleB a b xa xb = true
  nA : xa.Nodup
  nB : xb.Nodup
  ltA : ∀ i ∈ xa, i < a.ndim
  ltB : ∀ i ∈ xb, i < b.ndim

omit [AddMonoid R] [Mul R] [Neg R] [SignRing R] in
theorem Adm.of {a b : Arr R} {xa xb : List Nat} (ha : a.validB = true) (hb : b.validB = true)
    (hfa : a.fermi = true) (hfb : b.fermi = true) (hadm : ValidP.tdotAdmissibleB a b xa xb = true) :
    Adm a b xa xb := by
  unfold ValidP.tdotAdmissibleB at hadm
  simp only [Bool.and_eq_true, decide_eq_true_eq, ValidP.allDistinct_iff, List.all_eq_true] at hadm
  obtain ⟨⟨⟨⟨⟨hsym, hc⟩, hnA⟩, hnB⟩, hA⟩, hB⟩ := hadm
  exact ⟨ha, hb, hfa, hfb, hsym, hc, hnA, hnB, hA, hB⟩

omit [AddMonoid R] [Mul R] [Neg R] [SignRing R] in
theorem Adm.len {a b : Arr R} {xa xb : List Nat} (h : Adm a b xa xb) : xa.length = xb.length :=
  contractible_len h.con

/-- **structure of the call**: blockwise `tensordot_fermionic` is the label sort followed by
    attaching labels and label sign to the core contraction -/
theorem tensordotF_eq_core (a b : Arr R) (xa xb : List Nat) (h : Adm a b xa xb) :
    a.tensordotF b (.pair (xa.map Int.ofNat) (xb.map Int.ofNat)) .blockwise
      = (OddposP.mergeOddpos a.parity a.oddpos b.oddpos).map (finish (coreT a b xa xb)) := by
  obtain ⟨ha, hb, hfa, hfb, hsym, hc, hnA, hnB, hA, hB⟩ := h
  have hlen := contractible_len hc
  obtain ⟨τA, τB, PX, PY, _⟩ := prepared_pair a b xa xb ha hb hfa hfb hsym hc hnA hA hnB hB
  have props := ValidP.tdF34_props a b xa xb ((ValidP.validB_iff a).mp ha) ((ValidP.validB_iff b).mp hb)
    hfa hfb hnA hnB hA hB
  rw [ValidP.tensordotF_eq a b xa xb .blockwise hlen hA hB]
  unfold coreT
  simp only []
  generalize hX : (ValidP.tdF34 a b xa xb).1.phaseSync = X at PX
  generalize hY : (ValidP.tdF34 a b xa xb).2.phaseSync = Y at PY
  have hXn : X.ndim = a.ndim := by
    show X.indices.length = _
    rw [PX.indices]; exact left_lengths hnA hA a.indices rfl
  have hYn : Y.ndim = b.ndim := by
    show Y.indices.length = _
    rw [PY.indices]; exact right_lengths hnB hB b.indices rfl
  have hk : xa.length ≤ a.ndim := by have := freeAxes_length hnA hA; omega
  have hk' : xb.length ≤ b.ndim := by have := freeAxes_length hnB hB; omega
  rw [tensordotA_blockwise', ValidP.parseAxes_nat X.ndim Y.ndim _ _ (by simp; omega)
    (by intro i hi; rw [hXn]; exact List.mem_range.mp (List.mem_of_mem_drop hi))
    (by intro i hi; rw [hYn]; have := List.mem_range.mp hi; omega)]
  simp only [Except.map, bind, Except.bind]
  rw [OddposP.resolveCombinedOddpos_eq]
  have hXpar : X.parity = a.parity := by
    subst hX
    show Sym.parity (ValidP.tdF34 a b xa xb).1.sym (ValidP.tdF34 a b xa xb).1.charge = _
    rw [props.sa, props.ca]; rfl
  have hXodd : X.oddpos = a.oddpos := by subst hX; exact props.oa
  have hYodd : Y.oddpos = b.oddpos := by subst hY; exact props.ob
  rw [hXpar, hXodd, hYodd]
  rfl

omit [AddMonoid R] [Mul R] [Neg R] [SignRing R] in
theorem tdKeys_transport (a b X Y : Arr R) (xa xb : List Nat)
    (hsa : a.shapesOk) (hsb : b.shapesOk)
    (hnA : xa.Nodup) (hA : ∀ i ∈ xa, i < a.ndim) (hnB : xb.Nodup) (hB : ∀ i ∈ xb, i < b.ndim)
    (hlen : xa.length = xb.length)
    (hX : X.sectors = a.sectors.map (fun s => permuted s (freeAxes a.ndim xa ++ xa)))
    (hY : Y.sectors = b.sectors.map (fun s => permuted s (xb ++ freeAxes b.ndim xb))) :
    tdKeys X.sectors Y.sectors (freeAxes a.ndim ((List.range a.ndim).drop (a.ndim - xa.length)))
        ((List.range a.ndim).drop (a.ndim - xa.length)) (List.range xa.length)
        (freeAxes b.ndim (List.range xa.length))
      = tdKeys a.sectors b.sectors (freeAxes a.ndim xa) xa xb (freeAxes b.ndim xb) := by
  unfold tdKeys
  rw [hX, hY]
  simp only [List.flatMap_map, List.filter_map, List.map_map]
  apply flatMap_congr_mem
  intro sa hsa'
  have hla := Arr.sector_length hsa hsa'
  have e : ∀ sb ∈ b.sectors,
      ((fun t => permuted t (List.range xa.length) ==
          permuted (permuted sa (freeAxes a.ndim xa ++ xa)) ((List.range a.ndim).drop (a.ndim - xa.length)))
        ∘ fun s => permuted s (xb ++ freeAxes b.ndim xb)) sb
      = (permuted sb xb == permuted sa xa) := by
    intro sb hsb'
    have hlb := Arr.sector_length hsb hsb'
    simp only [Function.comp]
    rw [left_newA hnA hA sa hla, hlen, right_newB hnB hB sb hlb]
  rw [List.filter_congr e]
  apply List.map_congr_left
  intro sb hsb'
  have hlb := Arr.sector_length hsb (List.mem_filter.mp hsb').1
  simp only [Function.comp]
  rw [left_free hnA hA sa hla, hlen, right_free hnB hB sb hlb]

/-- the frame of the core contraction, in terms of the ORIGINAL operands -/
structure CoreFrame (a b : Arr R) (xa xb : List Nat) (T : Arr R) : Prop where
  sym : T.sym = a.sym
  fermi : T.fermi = a.fermi
  charge : T.charge = a.sym.combine [a.charge, b.charge]
  phases : T.phases = []
  oddpos : T.oddpos = a.oddpos
  sectors : T.sectors
    = (tdKeys a.sectors b.sectors (freeAxes a.ndim xa) xa xb (freeAxes b.ndim xb)).eraseDups
  indices : T.indices = dropUnused (without a.indices xa ++ without b.indices xb) T.sectors
  shape : ∀ p ∈ T.blocks,
    p.2.shape = Arr.blockShapeD (without a.indices xa ++ without b.indices xb) p.1
  wf : ∀ p ∈ T.blocks, p.2.wf = true
  elem : ∀ s oL oR, oL.length = (freeAxes a.ndim xa).length →
    inBox (Arr.blockShapeD (without a.indices xa ++ without b.indices xb) s) (oL ++ oR) = true →
    T.elem s (oL ++ oR) = gradedContract a b xa xb s oL oR

theorem coreT_frame (a b : Arr R) (xa xb : List Nat) (h : Adm a b xa xb) :
    CoreFrame a b xa xb (coreT a b xa xb) := by
  obtain ⟨ha, hb, hfa, hfb, hsym, hc, hnA, hnB, hA, hB⟩ := h
  have hlen := contractible_len hc
  have hsa := Arr.shapesOk_of_validB ha
  have hsb := Arr.shapesOk_of_validB hb
  obtain ⟨τA, τB, PX, PY, hsign⟩ := prepared_pair a b xa xb ha hb hfa hfb hsym hc hnA hA hnB hB
  have props := ValidP.tdF34_props a b xa xb ((ValidP.validB_iff a).mp ha) ((ValidP.validB_iff b).mp hb)
    hfa hfb hnA hnB hA hB
  unfold coreT
  simp only []
  have hXsym : (ValidP.tdF34 a b xa xb).1.phaseSync.sym = a.sym := props.sa
  have hXf : (ValidP.tdF34 a b xa xb).1.phaseSync.fermi = a.fermi := by
    show (ValidP.tdF34 a b xa xb).1.fermi = _
    rw [props.fa, hfa]
  have hXch : (ValidP.tdF34 a b xa xb).1.phaseSync.charge = a.charge := props.ca
  have hYch : (ValidP.tdF34 a b xa xb).2.phaseSync.charge = b.charge := props.cb
  have hXodd : (ValidP.tdF34 a b xa xb).1.phaseSync.oddpos = a.oddpos := props.oa
  generalize hX : (ValidP.tdF34 a b xa xb).1.phaseSync = X at PX hXsym hXf hXch hXodd
  generalize hY : (ValidP.tdF34 a b xa xb).2.phaseSync = Y at PY hYch
  have hXn : X.ndim = a.ndim := by
    show X.indices.length = _
    rw [PX.indices]; exact left_lengths hnA hA a.indices rfl
  have hYn : Y.ndim = b.ndim := by
    show Y.indices.length = _
    rw [PY.indices]; exact right_lengths hnB hB b.indices rfl
  have e1 : without X.indices ((List.range a.ndim).drop (a.ndim - xa.length)) = without a.indices xa := by
    rw [without_eq_permuted_freeAxes, without_eq_permuted_freeAxes]
    have : X.indices.length = a.ndim := hXn
    rw [this, PX.indices]
    exact left_free hnA hA a.indices rfl
  have e2 : without Y.indices (List.range xa.length) = without b.indices xb := by
    rw [without_eq_permuted_freeAxes, without_eq_permuted_freeAxes]
    have : Y.indices.length = b.ndim := hYn
    rw [this, PY.indices, hlen]
    exact right_free hnB hB b.indices rfl
  refine ⟨hXsym, hXf, ?_, PX.phases, hXodd, ?_, ?_, ?_, tensordotBlockwise_wf _ _ _ _ _ _, ?_⟩
  · show X.sym.combine [X.charge, Y.charge] = _
    rw [hXsym, hXch, hYch]
  · rw [tensordotBlockwise_sectors_eq, hXn, hYn,
      tdKeys_transport a b X Y xa xb hsa hsb hnA hA hnB hB hlen PX.sectors PY.sectors]
  · rw [tensordotBlockwise_indices, e1, e2]
  · rintro ⟨s, blk⟩ hp
    have := tensordotBlockwise_block_shape (a := X) (b := Y)
      (xa := (List.range a.ndim).drop (a.ndim - xa.length)) (xb := List.range xa.length)
      PX.shapes PY.shapes (s := s) (blk := blk) (by rw [hXn, hYn] at hp ⊢; exact hp)
    rw [e1, e2] at this
    exact this
  · intro s oL oR hoL ho
    have hT := contract_transport a b X Y xa xb τA τB hsa hsb hnA hA hnB hB hlen
      (shapes_match hsa hsb hc hA hB) PX PY s oL oR hoL ho
    rw [hT]
    unfold gradedContract
    congr 1
    apply List.map_congr_left
    rintro ⟨sa, sb⟩ hp
    obtain ⟨h1, h2, h3, _⟩ := mem_storedPairs.mp hp
    rw [hsign sa h1 sb h2 h3]

omit [AddMonoid R] [Mul R] [Neg R] [SignRing R] in
/-- every key of the result has a block shape in the un-pruned result frame, of full length -/
theorem key_shape_length {a b : Arr R} {xa xb : List Nat} (hsa : a.shapesOk) (hsb : b.shapesOk)
    {s : Sector}
    (hs : s ∈ tdKeys a.sectors b.sectors (freeAxes a.ndim xa) xa xb (freeAxes b.ndim xb)) :
    (Arr.blockShapeD (without a.indices xa ++ without b.indices xb) s).length
      = (freeAxes a.ndim xa).length + (freeAxes b.ndim xb).length := by
  obtain ⟨x, hx, y, hy, _, rfl⟩ := mem_tdKeys.mp hs
  obtain ⟨shpA, hA1, _, hA3, _⟩ := shape_of_mem hsa hx
  obtain ⟨shpB, hB1, _, hB3, _⟩ := shape_of_mem hsb hy
  have hleftlt : ∀ z ∈ freeAxes a.ndim xa, z < a.ndim := fun z hz => (mem_freeAxes.mp hz).1
  have hrightlt : ∀ z ∈ freeAxes b.ndim xb, z < b.ndim := fun z hz => (mem_freeAxes.mp hz).1
  have ea : a.indices.length = a.ndim := rfl
  have eb : b.indices.length = b.ndim := rfl
  rw [without_eq_permuted_freeAxes, without_eq_permuted_freeAxes, ea, eb, Arr.blockShapeD,
    blockShape?_append (blockShape?_permuted hA1 _ hleftlt) (blockShape?_permuted hB1 _ hrightlt)]
  show (permuted shpA _ ++ permuted shpB _).length = _
  rw [List.length_append, permuted_length _ _ (by rw [hA3]; exact hleftlt),
    permuted_length _ _ (by rw [hB3]; exact hrightlt)]

/-- two core contractions of the same operands with the same free axes, the same keys and the same
    graded values are EQUAL arrays -/
theorem coreFrame_unique (a b : Arr R) (xa xb xa' xb' : List Nat) (T T' : Arr R)
    (hsa : a.shapesOk) (hsb : b.shapesOk)
    (F : CoreFrame a b xa xb T) (F' : CoreFrame a b xa' xb' T')
    (h1 : freeAxes a.ndim xa' = freeAxes a.ndim xa) (h2 : freeAxes b.ndim xb' = freeAxes b.ndim xb)
    (hk : tdKeys a.sectors b.sectors (freeAxes a.ndim xa') xa' xb' (freeAxes b.ndim xb')
      = tdKeys a.sectors b.sectors (freeAxes a.ndim xa) xa xb (freeAxes b.ndim xb))
    (hg : ∀ s oL oR, gradedContract a b xa' xb' s oL oR = gradedContract a b xa xb s oL oR) :
    T' = T := by
  have hwA : without a.indices xa' = without a.indices xa := by
    rw [without_eq_permuted_freeAxes, without_eq_permuted_freeAxes]
    show permuted a.indices (freeAxes a.ndim xa') = permuted a.indices (freeAxes a.ndim xa)
    rw [h1]
  have hwB : without b.indices xb' = without b.indices xb := by
    rw [without_eq_permuted_freeAxes, without_eq_permuted_freeAxes]
    show permuted b.indices (freeAxes b.ndim xb') = permuted b.indices (freeAxes b.ndim xb)
    rw [h2]
  have hsec : T'.sectors = T.sectors := by rw [F'.sectors, F.sectors, hk]
  have hskel : ∀ (U : Arr R) (xa0 xb0 : List Nat), CoreFrame a b xa0 xb0 U →
      U.blocks.map (fun p => (p.1, p.2.shape))
        = U.sectors.map (fun s => (s, Arr.blockShapeD (without a.indices xa0 ++ without b.indices xb0) s)) := by
    intro U xa0 xb0 FU
    unfold Arr.sectors
    rw [List.map_map]
    apply List.map_congr_left
    intro p hp
    simp only [Function.comp, FU.shape p hp]
  apply Lazy.arr_ext (by rw [F'.sym, F.sym]) (by rw [F'.fermi, F.fermi])
    (by rw [F'.indices, F.indices, hsec, hwA, hwB]) (by rw [F'.charge, F.charge]) ?_
    (by rw [F'.phases, F.phases]) (by rw [F'.oddpos, F.oddpos])
  apply blocks_ext_inBox
  · rw [hskel T' xa' xb' F', hskel T xa xb F, hsec, hwA, hwB]
  · have : akeys T'.blocks = T'.sectors := rfl
    rw [this, F'.sectors]; exact nodup_eraseDups _
  · exact F'.wf
  · exact F.wf
  · intro p hp off hoff
    rw [← Lazy.elem_eq_rawGet F'.phases, ← Lazy.elem_eq_rawGet F.phases]
    have hkey : p.1 ∈ tdKeys a.sectors b.sectors (freeAxes a.ndim xa') xa' xb' (freeAxes b.ndim xb') := by
      have : p.1 ∈ T'.sectors := List.mem_map.mpr ⟨p, hp, rfl⟩
      rw [F'.sectors] at this
      exact List.mem_eraseDups.mp this
    have hshape := F'.shape p hp
    have hlen := key_shape_length hsa hsb hkey
    rw [hshape] at hoff
    have hol : off.length = (freeAxes a.ndim xa').length + (freeAxes b.ndim xb').length := by
      rw [inBox_length hoff, hlen]
    have hsplit : off = off.take (freeAxes a.ndim xa').length ++ off.drop (freeAxes a.ndim xa').length :=
      (List.take_append_drop _ _).symm
    have htl : (off.take (freeAxes a.ndim xa').length).length = (freeAxes a.ndim xa').length := by
      rw [List.length_take]; omega
    rw [hsplit, F'.elem p.1 _ _ htl (by rw [← hsplit]; exact hoff),
      F.elem p.1 _ _ (by rw [htl, h1]) (by rw [← hsplit, ← hwA, ← hwB]; exact hoff), hg]

end core

/-! ### S4 for the model -/

section s4
variable {R : Type}

theorem contractible_relist {a b : Arr R} {xa xb π : List Nat}
    (hc : ValidP.contractibleB a b xa xb = true) (hπ : π.Perm (List.range xa.length)) :
    ValidP.contractibleB a b (permuted xa π) (permuted xb π) = true := by
  have hlen := contractible_len hc
  have hπb : π.Perm (List.range xb.length) := hlen ▸ hπ
  unfold ValidP.contractibleB at hc ⊢
  simp only [Bool.and_eq_true, beq_iff_eq, List.all_eq_true] at hc ⊢
  refine ⟨by rw [permuted_length_perm xa π hπ, permuted_length_perm xb π hπb, hlen], ?_⟩
  intro p hp
  apply hc.2 p
  obtain ⟨j, hj, rfl⟩ := List.mem_iff_getElem.mp hp
  simp only [List.length_zip] at hj
  have hj1 : j < (permuted xa π).length := by omega
  have hj2 : j < (permuted xb π).length := by omega
  rw [List.getElem_zip]
  have hπlt := mem_lt_of_perm hπ
  have hjπ : j < π.length := by rw [permuted_length_perm xa π hπ] at hj1; rw [hπ.length_eq]; simpa using hj1
  have hi : π[j] < xa.length := hπlt _ (List.getElem_mem hjπ)
  have e1 : (permuted xa π)[j] = xa[π[j]] := by
    have := permuted_getElem? xa π hπlt j
    rw [List.getElem?_eq_getElem hj1, List.getElem?_eq_getElem hjπ] at this
    simp only [Option.bind_some, List.getElem?_eq_getElem hi] at this
    exact Option.some.inj this
  have e2 : (permuted xb π)[j] = xb[π[j]]'(hlen ▸ hi) := by
    have := permuted_getElem? xb π (mem_lt_of_perm hπb) j
    rw [List.getElem?_eq_getElem hj2, List.getElem?_eq_getElem hjπ] at this
    simp only [Option.bind_some, List.getElem?_eq_getElem (hlen ▸ hi)] at this
    exact Option.some.inj this
  rw [e1, e2, List.mem_iff_getElem]
  exact ⟨π[j], by simp only [List.length_zip]; omega, by rw [List.getElem_zip]⟩

theorem Adm.relist {a b : Arr R} {xa xb π : List Nat} (h : Adm a b xa xb)
    (hπ : π.Perm (List.range xa.length)) : Adm a b (permuted xa π) (permuted xb π) := by
  have hπb : π.Perm (List.range xb.length) := h.len ▸ hπ
  exact ⟨h.va, h.vb, h.fa, h.fb, h.sym, contractible_relist h.con hπ,
    (relist_ok h.nA h.ltA hπ).1, (relist_ok h.nB h.ltB hπb).1,
    (relist_ok h.nA h.ltA hπ).2.1, (relist_ok h.nB h.ltB hπb).2.1⟩

variable [AddCommMonoid R] [Mul R] [Neg R] [SignRing R]

theorem tdKeys_relist (a b : Arr R) (xa xb π : List Nat) (hsa : a.shapesOk) (hsb : b.shapesOk)
    (hnA : xa.Nodup) (hA : ∀ i ∈ xa, i < a.ndim) (hnB : xb.Nodup) (hB : ∀ i ∈ xb, i < b.ndim)
    (hlen : xa.length = xb.length) (hπ : π.Perm (List.range xa.length)) :
    tdKeys a.sectors b.sectors (freeAxes a.ndim (permuted xa π)) (permuted xa π) (permuted xb π)
        (freeAxes b.ndim (permuted xb π))
      = tdKeys a.sectors b.sectors (freeAxes a.ndim xa) xa xb (freeAxes b.ndim xb) := by
  rw [(relist_ok hnA hA hπ).2.2.2, (relist_ok hnB hB (hlen ▸ hπ)).2.2.2]
  unfold tdKeys
  apply flatMap_congr_mem
  intro sa hsa'
  congr 1
  apply List.filter_congr
  intro sb hsb'
  have hla := Arr.sector_length hsa hsa'
  have hlb := Arr.sector_length hsb hsb'
  have := aligned_relist sa sb xa xb π (by rw [hla]; exact hA) (by rw [hlb]; exact hB) hlen hπ
  rw [Bool.eq_iff_iff]
  simpa using this

/-- **S4.**  Listing the contracted axis pairs in another order gives the IDENTICAL result
    (same `Except` value: same blocks in the same order, same tables, labels and pending signs). -/
theorem tdotF_axes_perm_eq (a b : Arr R) (xa xb π : List Nat) (h : Adm a b xa xb)
    (hπ : π.Perm (List.range xa.length)) :
    a.tensordotF b (.pair ((permuted xa π).map Int.ofNat) ((permuted xb π).map Int.ofNat)) .blockwise
      = a.tensordotF b (.pair (xa.map Int.ofNat) (xb.map Int.ofNat)) .blockwise := by
  have h' := h.relist hπ
  have hsa := Arr.shapesOk_of_validB h.va
  have hsb := Arr.shapesOk_of_validB h.vb
  rw [tensordotF_eq_core a b _ _ h', tensordotF_eq_core a b xa xb h]
  congr 2
  exact coreFrame_unique a b xa xb _ _ _ _ hsa hsb (coreT_frame a b xa xb h) (coreT_frame a b _ _ h')
    (relist_ok h.nA h.ltA hπ).2.2.2 (relist_ok h.nB h.ltB (h.len ▸ hπ)).2.2.2
    (tdKeys_relist a b xa xb π hsa hsb h.nA h.ltA h.nB h.ltB h.len hπ)
    (fun s oL oR => gradedContract_relist a b xa xb π h.sym hsa hsb h.nA h.ltA h.nB h.ltB h.len hπ s oL oR)

end s4

end RoutesP
end SymmModel
