/-
  SymmModel.Proofs.NetNormL2 — network form of the norm (property C10), ket-bra-first bracketings,
  part 5: the hub.  For the label-free pieces `X = ā·a`, `Y = b̄·b` the routes
        `(b̄·X)·b`,   `(X·b̄)·b`,   `X·Y`
  all succeed and give ONE scalar (`hub_half`; no label check: only the routes of the triangles
  `(X, b̄, b)`, whose first piece has no label, are used), and a full contraction may be swapped at the
  root (`scalar_swap`, S5 for a scalar result).
-/
import SymmModel.Proofs.NetNormL1

namespace SymmModel.NormNet
open SymmModel SymmModel.Lazy SymmModel.Norm SymmModel.TdotP SymmModel.GradedP SymmModel.RoutesP
open SymmModel.AssocP SymmModel.Assoc3P SymmModel.Assoc4P SymmModel.Assoc5P SymmModel.Net4P
open SymmModel.OddposP (mergeOddpos)
set_option linter.unusedSectionVars false

/-- a scalar result without labels and with the value `v` -/
def Scal {R : Type} [Zero R] [Neg R] (c : Arr R) (v : R) : Prop :=
  c.ndim = 0 ∧ c.oddpos = [] ∧ c.elem [] [] = v

section gen
variable {R : Type} [AddCommMonoid R] [Mul R] [Neg R] [SignRing R] [AssocLaws R]

theorem Scal.of_eqv {c c' : Arr R} {v : R} (hE : Eqv c' c) (h : Scal c v) : Scal c' v := by
  obtain ⟨n, o, e⟩ := h
  have hn : c'.ndim = 0 := hE.ndim.trans n
  have hi : c'.indices = [] := List.eq_nil_of_length_eq_zero hn
  exact ⟨hn, hE.oddpos.trans o, (hE.elem [] [] (fun _ => by rw [hi]; rfl)).trans e⟩

/-- S5 for a full contraction: the operands may be exchanged -/
theorem scalar_swap (hmul : ∀ x y : R, x * y = y * x) {p q c : Arr R} {xp xq : List Nat} {v : R}
    (W : AdmW p q xp xq) (hd : OddposP.LabelsDistinct (p.oddpos ++ q.oddpos))
    (hu : freeAxes p.ndim xp = []) (hv : freeAxes q.ndim xq = [])
    (e : tdF p q xp xq = .ok c) (h : Scal c v) :
    ∃ c', tdF q p xq xp = .ok c' ∧ Scal c' v := by
  obtain ⟨c', ec', q1, _, _, _, hel⟩ := tdotF_swap_w p q c xp xq hmul W hd e
  refine ⟨c', ec', ?_, q1.trans h.2.1, ?_⟩
  · rw [ndim_of_call_w (admW_swap W) ec', hu, hv]; rfl
  · have e1 : without p.indices xp = [] := by
      rw [without_eq_permuted_freeAxes]
      show permuted p.indices (freeAxes p.ndim xp) = []
      rw [hu]; rfl
    have e2 : without q.indices xq = [] := by
      rw [without_eq_permuted_freeAxes]
      show permuted q.indices (freeAxes q.ndim xq) = []
      rw [hv]; rfl
    have := hel [] [] [] [] (by rw [hu]; rfl) (by rw [hv]; rfl) (by rw [hu]) (by rw [hv])
      (by rw [e1, e2]; rfl)
    simp only [List.append_nil, List.map_nil, koszul_nil, sgnI_one] at this
    exact this.trans h.2.2

end gen

section main
variable {R : Type} [AddCommMonoid R] [Mul R] [Neg R] [Conj R] [NetLaws R] [AssocLaws R]

/-- the routes through `X = ā·a` that end on `b` -/
structure HubHalf (a b : Arr R) (xa xb : List Nat) (X Y : Arr R) (v : R) : Prop where
  /-- `(b̄·X)·b` -/
  rBX : ∃ BX c, tdF (braOf b xb) X xb (kbQ a.ndim xa) = .ok BX
    ∧ tdF BX b ((kbQ a.ndim xa).map ((freeAxes b.ndim xb).length + ·)
        ++ List.range (freeAxes b.ndim xb).length) (xb ++ freeAxes b.ndim xb) = .ok c ∧ Scal c v
  /-- `(X·b̄)·b` -/
  rXB : ∃ XB c, tdF X (braOf b xb) (kbQ a.ndim xa) xb = .ok XB
    ∧ tdF XB b (kbQ a.ndim xa ++ (List.range (freeAxes b.ndim xb).length).map (xa.length + ·))
        (xb ++ freeAxes b.ndim xb) = .ok c ∧ Scal c v
  /-- `X·Y` -/
  rXY : ∃ c, tdF X Y (kbP a.ndim xa) (kbP b.ndim xb) = .ok c ∧ Scal c v
  /-- the guard of `X·Y` -/
  wXY : AdmW X Y (kbP a.ndim xa) (kbP b.ndim xb)
  /-- the guard of `(b̄·X)·b` -/
  wBX : ∀ BX, tdF (braOf b xb) X xb (kbQ a.ndim xa) = .ok BX →
    AdmW BX b ((kbQ a.ndim xa).map ((freeAxes b.ndim xb).length + ·)
        ++ List.range (freeAxes b.ndim xb).length) (xb ++ freeAxes b.ndim xb)
  /-- the guard of `(X·b̄)·b` -/
  wXB : ∀ XB, tdF X (braOf b xb) (kbQ a.ndim xa) xb = .ok XB →
    AdmW XB b (kbQ a.ndim xa ++ (List.range (freeAxes b.ndim xb).length).map (xa.length + ·))
      (xb ++ freeAxes b.ndim xb)

theorem adm_swap {a b : Arr R} {xa xb : List Nat} (h : Adm a b xa xb) : Adm b a xb xa :=
  ⟨h.vb, h.va, h.fb, h.fa, h.sym.symm, contractibleB_swap h.con, h.nB, h.nA, h.ltB, h.ltA⟩

/-- the guards of the piece `X = ā·a` with `b̄` and with `b` -/
theorem piece_guards {a b : Arr R} {xa xb : List Nat} {X : Arr R} (h : Adm a b xa xb)
    (PX : Piece a xa X) :
    AdmW (braOf b xb) X xb (kbQ a.ndim xa)
      ∧ AdmW X b ((kbQ a.ndim xa).map (xa.length + ·)) xb := by
  obtain ⟨sX, IX⟩ := PX.inter
  have hB' := braOf_adm (adm_swap h)
  have hnxa : (xa ++ (freeAxes a.ndim xa)).Nodup :=
    (perm_right h.nA h.ltA).nodup_iff.mpr List.nodup_range
  have hc3 : contractibleCommonB (braOf b xb) a [] [] = true := by
    simp [contractibleCommonB]
  have T2 : TriW (braOf b xb) (braOf a xa) a xb [] xa (freeAxes a.ndim xa) (freeAxes a.ndim xa) [] :=
    ⟨AdmW.ofAdm hB', PX.adm, Mid.of (by rw [List.append_nil]; exact h.nB) (by
        rw [List.append_nil]; intro i hi; rw [braOf_ndim]; exact h.ltB i hi),
      Mid.of hnxa (fun i hi => by
        rw [braOf_ndim]; exact List.mem_range.mp ((perm_right h.nA h.ltA).mem_iff.mp hi)),
      Mid.of (by rw [List.append_nil]; exact freeAxes_nodup _ _) (by
        rw [List.append_nil]; exact fun i hi => mem_freeAxes_lt i hi), hc3⟩
  have WbX : AdmW (braOf b xb) X xb (kbQ a.ndim xa) := by
    have := admW_right_w IX T2
    rw [List.append_nil, braOf_ndim] at this
    rw [← kbX_eq]
    exact this
  refine ⟨WbX, IX.valid, h.vb, IX.fermi, h.fb, by rw [IX.sym, (braOf_frame a xa).1, h.sym], ?_,
    (kbQ_nodup h.nA h.ltA).map (fun x y hxy => by omega), h.nB, ?_, h.ltB⟩
  · have := conL_w (C := b) (xb2 := xa) (xc := xb) IX (AdmW.ofAdm h).con
      (Mid.of ((perm_left h.nA h.ltA).nodup_iff.mpr List.nodup_range) (fun i hi =>
        List.mem_range.mp ((perm_left h.nA h.ltA).mem_iff.mp hi)))
    unfold AssocP.axesAB at this
    rw [braOf_ndim, sorted_len h.nA h.ltA] at this
    exact this
  · intro i hi
    obtain ⟨j, hj, rfl⟩ := List.mem_map.mp hi
    have := kbQ_lt h.nA h.ltA j hj
    rw [PX.nd]; omega

theorem hub_half (hmul : ∀ x y : R, x * y = y * x) (a b : Arr R) (xa xb : List Nat) (X Y : Arr R)
    (h : Adm a b xa xb) (hoB : KetLabels b.oddpos)
    (hdB : b.oddpos.Pairwise (fun x y => x.1 ≠ y.1))
    (PX : Piece a xa X) (PY : Piece b xb Y) : ∃ v, HubHalf a b xa xb X Y v := by
  obtain ⟨sX, IX⟩ := PX.inter
  obtain ⟨sY, IY⟩ := PY.inter
  obtain ⟨WbX, WXb'⟩ := piece_guards (xb := xb) h PX
  have hq := kbQ_perm h.nA h.ltA
  have hqlt := kbQ_lt h.nA h.ltA
  have hoBb : (braOf b xb).oddpos = Arr.oddposDag b.oddpos := (braOf_frame b xb).2.2.2.2.1
  have hsd := oddposDag_sorted_of_nondual b.oddpos hoB.1 hoB.2
  have hdd := oddposDag_distinct b.oddpos hdB
  have WBb := PY.adm
  have hnB1 : (xb ++ freeAxes b.ndim xb).Nodup :=
    (perm_right h.nB h.ltB).nodup_iff.mpr List.nodup_range
  have hnB2 : (freeAxes b.ndim xb ++ xb).Nodup :=
    (perm_left h.nB h.ltB).nodup_iff.mpr List.nodup_range
  have hltB1 : ∀ i ∈ xb ++ freeAxes b.ndim xb, i < b.ndim := fun i hi =>
    List.mem_range.mp ((perm_right h.nB h.ltB).mem_iff.mp hi)
  have hPp := kbP_perm h.nA h.ltA
  have hPn : (kbP a.ndim xa).Nodup := hPp.nodup_iff.mpr List.nodup_range
  have hPlt : ∀ i ∈ kbP a.ndim xa, i < X.ndim := fun i hi => by
    rw [PX.nd]; exact List.mem_range.mp (hPp.mem_iff.mp hi)
  -- b̄·X
  obtain ⟨c2, ec2, IBX, oc2⟩ := call_of_merge (braOf b xb) X xb (kbQ a.ndim xa) WbX
    (Arr.oddposDag b.oddpos) 1 (by rw [hoBb, PX.odd]; exact merge_nil_right _ _ hsd hdd) (Or.inl rfl)
  have hc2n : c2.ndim = (freeAxes b.ndim xb).length + xa.length := by
    rw [IBX.ndim, braOf_ndim, PX.nd, free_kbQ h.nA h.ltA, List.length_map, List.length_range]
  -- the guard of (b̄·X)·b from the triangle (b̄, X, b)
  have T : TriW (braOf b xb) X b xb (freeAxes b.ndim xb) (kbQ a.ndim xa)
      ((kbQ a.ndim xa).map (xa.length + ·)) xb (freeAxes b.ndim xb) :=
    ⟨WbX, WXb', Mid.of hnB1 (by rw [braOf_ndim]; exact hltB1), Mid.of hPn hPlt, Mid.of hnB1 hltB1,
      WBb.con⟩
  have WBXb0 := admW_left_w IBX T
  rw [braOf_ndim, PX.nd, axesAB_bXb hq] at WBXb0
  have WBXb := AdmW.comm (by rw [List.length_range]) WBXb0
  -- (b̄·X)·b
  obtain ⟨s1, m1, q1⟩ := merge_nested c2.parity b.oddpos hoB hdB
  obtain ⟨r1, er1, _, or1⟩ := call_of_merge c2 b _ _ WBXb [] s1 (by rw [oc2]; exact m1) q1
  have hU : ((kbQ a.ndim xa).map ((freeAxes b.ndim xb).length + ·)
      ++ List.range (freeAxes b.ndim xb).length).Perm (List.range c2.ndim) := by
    rw [hc2n, ← range_split]
    exact List.perm_append_comm.trans ((hq.map _).append_left _)
  have hu : freeAxes c2.ndim ((kbQ a.ndim xa).map ((freeAxes b.ndim xb).length + ·)
      ++ List.range (freeAxes b.ndim xb).length) = [] :=
    freeAxes_all _ _ (fun i hi => hU.mem_iff.mpr (List.mem_range.mpr hi))
  have hv : freeAxes b.ndim (xb ++ freeAxes b.ndim xb) = [] := freeAxes_all _ _ (all_right xb)
  have n1 : r1.ndim = 0 := by rw [ndim_of_call_w WBXb er1, hu, hv]; rfl
  -- X·b̄ and S5
  have WXb := admW_swap WbX
  have hdX : OddposP.LabelsDistinct (X.oddpos ++ (braOf b xb).oddpos) := by
    rw [PX.odd, hoBb]; exact hdd
  obtain ⟨XB, _, eXB, IXB, _⟩ := call_pack X (braOf b xb) _ _ WXb hdX
  obtain ⟨c', ec', _, _, hEs⟩ := Assoc5P.swap_eqv hmul WXb hdX XB eXB
  unfold tdF at ec'
  obtain rfl : c2 = c' := by rw [ec2] at ec'; exact Except.ok.inj ec'
  rw [braOf_ndim, PX.nd, free_kbQ h.nA h.ltA, List.length_map, List.length_range] at hEs
  -- S6
  have hrot : (rotB (freeAxes b.ndim xb).length xa.length).Perm (List.range c2.ndim) := by
    rw [hc2n]; exact KoszulP.perm_of_isPerm (rotB_isPerm _ _)
  have hP' : (kbQ a.ndim xa ++ (List.range (freeAxes b.ndim xb).length).map (xa.length + ·)).Perm
      (List.range c2.ndim) := by
    rw [hc2n, Nat.add_comm, ← range_split]
    exact hq.append_right _
  obtain ⟨r2, er2, W2, n2, o2, v2⟩ := scalar_pre
    (u' := kbQ a.ndim xa ++ (List.range (freeAxes b.ndim xb).length).map (xa.length + ·))
    WBXb hrot hu hv (hP'.nodup_iff.mpr List.nodup_range)
    (fun i hi => List.mem_range.mp (hP'.mem_iff.mp hi))
    (permuted_rotB_axes _ _ _ _ hqlt (fun i hi => List.mem_range.mp hi))
    (freeAxes_all _ _ (fun i hi => hP'.mem_iff.mpr (List.mem_range.mpr hi))) er1
  obtain ⟨r3, er3, n3, o3, v3⟩ := scalar_congr W2 hEs IXB.valid er2 n2
  -- S7 for (X, b̄, b)
  have hL : Assoc2P.LabelRoutes X.parity (braOf b xb).parity X.oddpos (braOf b xb).oddpos b.oddpos := by
    rw [PX.par, PX.odd, braOf_parity, hoBb]
    exact labelRoutes_X b.parity b.oddpos hoB hdB
  obtain ⟨AB, BC, c1, c4, a1, a2, a3, a4, hE⟩ := assoc_eqv_w X (braOf b xb) b (kbQ a.ndim xa)
    ((kbQ a.ndim xa).map (xa.length + ·)) xb (freeAxes b.ndim xb) (freeAxes b.ndim xb) xb WXb WBb
    WXb'.con hPn hnB1 hnB2 WXb'.ltA h.ltB hL
  obtain rfl : XB = AB := by rw [eXB] at a1; exact Except.ok.inj a1
  obtain rfl : Y = BC := by have := PY.call; rw [this] at a3; exact Except.ok.inj a3
  rw [PX.nd, braOf_ndim, axesAB_Xbb hq] at a2
  obtain rfl : r3 = c1 := by rw [er3] at a2; exact Except.ok.inj a2
  rw [braOf_ndim, axesBC_Xbb h.nB h.ltB] at a4
  have S3 : Scal r3 (r1.elem [] []) := ⟨n3, (o3.trans o2).trans or1, v3.trans v2⟩
  -- the guard of X·Y
  have T' : TriW X (braOf b xb) b (kbQ a.ndim xa) ((kbQ a.ndim xa).map (xa.length + ·)) xb
      (freeAxes b.ndim xb) (freeAxes b.ndim xb) xb :=
    ⟨WXb, WBb, Mid.of hPn hPlt, Mid.of hnB1 (by rw [braOf_ndim]; exact hltB1),
      Mid.of hnB2 (fun i hi => List.mem_range.mp ((perm_left h.nB h.ltB).mem_iff.mp hi)),
      WXb'.con⟩
  have WXY := admW_right_w IY T'
  rw [braOf_ndim, axesBC_Xbb h.nB h.ltB] at WXY
  exact ⟨r1.elem [] [], ⟨c2, r1, ec2, er1, n1, or1, rfl⟩, ⟨XB, r3, eXB, er3, S3⟩,
    ⟨c4, a4, Scal.of_eqv hE S3⟩, WXY, fun BX' e' => by
      unfold tdF at e'
      obtain rfl : c2 = BX' := by rw [ec2] at e'; exact Except.ok.inj e'
      exact WBXb, fun XB' e' => by
      unfold tdF at e'
      obtain rfl : XB = XB' := by rw [eXB] at e'; exact Except.ok.inj e'
      exact admW_congr W2 hEs (Eqv.refl b) IXB.valid h.vb⟩

end main

end SymmModel.NormNet
