/-
  SymmModel.Proofs.Net4Orders — all 24 orderings of a four-tensor network: the left-nested
  contraction `((Tᵢ·Tⱼ)·Tₖ)·Tₗ` in ANY order of the four tensors is a fermionic transpose (`TEq`) of
  `((T₀·T₁)·T₂)·T₃`.  The three moves of Net4Moves generate the symmetric group; the 24 cases are
  chains of moves found by breadth-first search (generated).  Namespace `SymmModel.Net4P`.
-/
import SymmModel.Proofs.Net4Moves

namespace SymmModel
namespace Net4P
open TdotP GradedP RoutesP KoszulP OddposP AssocP Assoc2P Assoc3P Assoc4P Assoc5P
set_option linter.unusedSectionVars false

variable {R : Type}

/-- four tensors and, for every ordered pair, the legs of the first bonded to the second -/
structure Net4 (R : Type) where
  T : Fin 4 → Arr R
  b : Fin 4 → Fin 4 → List Nat

section
variable [Zero R] [Add R] [Mul R] [Neg R]

/-- the left-nested contraction in the order `i, j, k, l` -/
def Net4.r1 (N : Net4 R) (i j k l : Fin 4) : Except Err (Arr R) :=
  routeS1 (N.T i) (N.T j) (N.T k) (N.T l) (N.b i j) (N.b i k) (N.b i l) (N.b j i) (N.b j k) (N.b j l)
    (N.b k i) (N.b k j) (N.b k l) (N.b l i) (N.b l j) (N.b l k) false false false

def Net4.r2 (N : Net4 R) (i j k l : Fin 4) : Except Err (Arr R) :=
  routeS2 (N.T i) (N.T j) (N.T k) (N.T l) (N.b i j) (N.b i k) (N.b i l) (N.b j i) (N.b j k) (N.b j l)
    (N.b k i) (N.b k j) (N.b k l) (N.b l i) (N.b l j) (N.b l k) false false false

def Net4.r3 (N : Net4 R) (i j k l : Fin 4) : Except Err (Arr R) :=
  routeS3 (N.T i) (N.T j) (N.T k) (N.T l) (N.b i j) (N.b i k) (N.b i l) (N.b j i) (N.b j k) (N.b j l)
    (N.b k i) (N.b k j) (N.b k l) (N.b l i) (N.b l j) (N.b l k) false false false

end

/-- the hypotheses on the network: valid fermionic tensors, every pair under the weak guard, the
    three bonds of each tensor disjoint, all labels distinct (stated for every ordering) -/
structure Net4.OK (N : Net4 R) : Prop where
  valid : ∀ i, (N.T i).validB = true
  fermi : ∀ i, (N.T i).fermi = true
  adm : ∀ i j, i ≠ j → tdotAdmissibleCommonB (N.T i) (N.T j) (N.b i j) (N.b j i) = true
  nodup : ∀ i j k l : Fin 4, [i, j, k, l].Nodup → (N.b i j ++ N.b i k ++ N.b i l).Nodup
  labels : ∀ i j k l : Fin 4, [i, j, k, l].Nodup → OddposP.LabelsDistinct
    ((N.T i).oddpos ++ (N.T j).oddpos ++ (N.T k).oddpos ++ (N.T l).oddpos)

section
variable [AddCommMonoid R] [Mul R] [Neg R] [SignRing R] [AssocLaws R]

theorem Net4.OK.k4h {N : Net4 R} (h : N.OK) {i j k l : Fin 4} (hn : [i, j, k, l].Nodup) :
    K4H (N.T i) (N.T j) (N.T k) (N.T l) (N.b i j) (N.b i k) (N.b i l) (N.b j i) (N.b j k) (N.b j l)
      (N.b k i) (N.b k j) (N.b k l) (N.b l i) (N.b l j) (N.b l k) := by
  have hij : i ≠ j := by intro e; subst e; simp at hn
  have hik : i ≠ k := by intro e; subst e; simp at hn
  have hil : i ≠ l := by intro e; subst e; simp at hn
  have hjk : j ≠ k := by intro e; subst e; simp at hn
  have hjl : j ≠ l := by intro e; subst e; simp at hn
  have hkl : k ≠ l := by intro e; subst e; simp at hn
  have W : ∀ a b : Fin 4, a ≠ b → AdmW (N.T a) (N.T b) (N.b a b) (N.b b a) := fun a b hab =>
    AdmW.of (h.valid a) (h.valid b) (h.fermi a) (h.fermi b) (h.adm a b hab)
  refine ⟨W i j hij, W i k hik, W i l hil, W j k hjk, W j l hjl, W k l hkl, h.nodup i j k l hn,
    h.nodup j i k l ?_, h.nodup k i j l ?_, h.nodup l i j k ?_, h.labels i j k l hn⟩
  · simp only [List.nodup_cons, List.mem_cons, List.not_mem_nil, or_false, not_or, List.nodup_nil,
      and_true, not_false_eq_true]
    exact ⟨⟨hij.symm, hjk, hjl⟩, ⟨hik, hil⟩, hkl⟩
  · simp only [List.nodup_cons, List.mem_cons, List.not_mem_nil, or_false, not_or, List.nodup_nil,
      and_true, not_false_eq_true]
    exact ⟨⟨hik.symm, hjk.symm, hkl⟩, ⟨hij, hil⟩, hjl⟩
  · simp only [List.nodup_cons, List.mem_cons, List.not_mem_nil, or_false, not_or, List.nodup_nil,
      and_true, not_false_eq_true]
    exact ⟨⟨hil.symm, hjl.symm, hkl.symm⟩, ⟨hij, hik⟩, hjk⟩

/-- the left-nested contraction in the order `i, j, k, l` succeeds and is a fermionic transpose of
    the one in the order `0, 1, 2, 3` -/
def Reach (N : Net4 R) (i j k l : Fin 4) : Prop :=
  ∃ T T0 : Arr R, N.r1 i j k l = .ok T ∧ N.r1 0 1 2 3 = .ok T0 ∧ T.validB = true ∧ T.fermi = true
    ∧ T0.validB = true ∧ TEq T T0

theorem base {N : Net4 R} (hN : N.OK) : Reach N 0 1 2 3 := by
  obtain ⟨T1, T2, T3, e1, e2, e3, q2, q3, v1, f1, _⟩ := routes_ok (hN.k4h (i := 0) (j := 1) (k := 2) (l := 3) (by decide))
  exact ⟨T1, T1, e1, e1, v1, f1, v1, TEq.of_eqv (Eqv.refl _) v1 f1⟩

theorem c34 (hmul : ∀ x y : R, x * y = y * x) {N : Net4 R} (hN : N.OK) {i j k l : Fin 4}
    (hn : [i, j, k, l].Nodup) (_hn' : [i, j, l, k].Nodup) (h : Reach N i j k l) : Reach N i j l k := by
  obtain ⟨T, T0, e, e0, v, f, v0, t⟩ := h
  obtain ⟨U, U', u, u', vU', fU', vU, tU⟩ := move34 hmul (hN.k4h hn)
  have : N.r1 i j k l = .ok U := u
  rw [e] at this
  obtain rfl := Except.ok.inj this
  exact ⟨U', T0, u', e0, vU', fU', v0, TEq.trans tU t vU' fU' v⟩

theorem cR2 (hmul : ∀ x y : R, x * y = y * x) {N : Net4 R} (hN : N.OK) {i j k l : Fin 4}
    (hn : [i, j, k, l].Nodup) (hn' : [k, l, i, j].Nodup) (h : Reach N i j k l) : Reach N k l i j := by
  obtain ⟨T, T0, e, e0, v, f, v0, t⟩ := h
  obtain ⟨T1, T2, T3, e1, e2, e3, q2, q3, v1, f1, v2, f2, v3, f3⟩ := routes_ok (hN.k4h hn)
  obtain ⟨T1', T2', T3', e1', e2', e3', q2', q3', v1', f1', v2', f2', v3', f3'⟩ := routes_ok (hN.k4h hn')
  obtain ⟨U, U', u, u', vU', fU', vU, tU⟩ := moveR2 hmul (hN.k4h hn)
  have h1 : N.r1 i j k l = .ok T1 := e1
  rw [e] at h1
  obtain rfl := Except.ok.inj h1
  rw [e3] at u
  obtain rfl := Except.ok.inj u
  have h3 : N.r3 k l i j = .ok T3' := e3'
  have h3' : N.r3 k l i j = .ok U' := u'
  rw [h3] at h3'
  obtain rfl := Except.ok.inj h3'
  have a1 : TEq T1' T3' := TEq.of_eqv q3'.symm v1' f1'
  have a2 : TEq T3 T := TEq.of_eqv q3 v3 f3
  have a12 := TEq.trans a1 tU v1' f1' v3'
  have a123 := TEq.trans a12 a2 v1' f1' v3
  exact ⟨T1', T0, e1', e0, v1', f1', v0, TEq.trans a123 t v1' f1' v⟩

theorem c3c (hmul : ∀ x y : R, x * y = y * x) {N : Net4 R} (hN : N.OK) {i j k l : Fin 4}
    (hn : [i, j, k, l].Nodup) (hn' : [i, l, j, k].Nodup) (h : Reach N i j k l) : Reach N i l j k := by
  obtain ⟨T, T0, e, e0, v, f, v0, t⟩ := h
  obtain ⟨T1, T2, T3, e1, e2, e3, q2, q3, v1, f1, v2, f2, v3, f3⟩ := routes_ok (hN.k4h hn)
  obtain ⟨T1', T2', T3', e1', e2', e3', q2', q3', v1', f1', v2', f2', v3', f3'⟩ := routes_ok (hN.k4h hn')
  obtain ⟨U, U', u, u', vU', fU', vU, tU⟩ := move3c hmul (hN.k4h hn)
  have h1 : N.r1 i j k l = .ok T1 := e1
  rw [e] at h1
  obtain rfl := Except.ok.inj h1
  rw [e2] at u
  obtain rfl := Except.ok.inj u
  have h3 : N.r3 i l j k = .ok T3' := e3'
  have h3' : N.r3 i l j k = .ok U' := u'
  rw [h3] at h3'
  obtain rfl := Except.ok.inj h3'
  have a1 : TEq T1' T3' := TEq.of_eqv q3'.symm v1' f1'
  have a2 : TEq T2 T := TEq.of_eqv q2 v2 f2
  have a12 := TEq.trans a1 tU v1' f1' v3'
  have a123 := TEq.trans a12 a2 v1' f1' v2
  exact ⟨T1', T0, e1', e0, v1', f1', v0, TEq.trans a123 t v1' f1' v⟩

/-- the 24 orderings -/
def perms4 : List (Fin 4 × Fin 4 × Fin 4 × Fin 4) :=
  [(0,1,2,3), (0,1,3,2), (0,2,1,3), (0,2,3,1), (0,3,1,2), (0,3,2,1), (1,0,2,3), (1,0,3,2), (1,2,0,3), (1,2,3,0), (1,3,0,2), (1,3,2,0), (2,0,1,3), (2,0,3,1), (2,1,0,3), (2,1,3,0), (2,3,0,1), (2,3,1,0), (3,0,1,2), (3,0,2,1), (3,1,0,2), (3,1,2,0), (3,2,0,1), (3,2,1,0)]

theorem mem_perms4 : ∀ i j k l : Fin 4, [i, j, k, l].Nodup → (i, j, k, l) ∈ perms4 := by decide

/-- **all orderings** -/
theorem all_orders (hmul : ∀ x y : R, x * y = y * x) {N : Net4 R} (hN : N.OK) (i j k l : Fin 4)
    (hn : [i, j, k, l].Nodup) : Reach N i j k l := by
  have key : ∀ q ∈ perms4, Reach N q.1 q.2.1 q.2.2.1 q.2.2.2 := by
    intro q hq
    simp only [perms4, List.mem_cons, List.not_mem_nil, or_false] at hq
    rcases hq with rfl | rfl | rfl | rfl | rfl | rfl | rfl | rfl | rfl | rfl | rfl | rfl | rfl | rfl | rfl | rfl | rfl | rfl | rfl | rfl | rfl | rfl | rfl | rfl
    · show Reach N 0 1 2 3
      exact (base hN)
    · show Reach N 0 1 3 2
      exact (c34 hmul hN (i := 0) (j := 1) (k := 2) (l := 3) (by decide) (by decide) (base hN))
    · show Reach N 0 2 1 3
      exact (c3c hmul hN (i := 0) (j := 1) (k := 3) (l := 2) (by decide) (by decide) (c34 hmul hN (i := 0) (j := 1) (k := 2) (l := 3) (by decide) (by decide) (base hN)))
    · show Reach N 0 2 3 1
      exact (c3c hmul hN (i := 0) (j := 3) (k := 1) (l := 2) (by decide) (by decide) (c3c hmul hN (i := 0) (j := 1) (k := 2) (l := 3) (by decide) (by decide) (base hN)))
    · show Reach N 0 3 1 2
      exact (c3c hmul hN (i := 0) (j := 1) (k := 2) (l := 3) (by decide) (by decide) (base hN))
    · show Reach N 0 3 2 1
      exact (c34 hmul hN (i := 0) (j := 3) (k := 1) (l := 2) (by decide) (by decide) (c3c hmul hN (i := 0) (j := 1) (k := 2) (l := 3) (by decide) (by decide) (base hN)))
    · show Reach N 1 0 2 3
      exact (cR2 hmul hN (i := 2) (j := 3) (k := 1) (l := 0) (by decide) (by decide) (c34 hmul hN (i := 2) (j := 3) (k := 0) (l := 1) (by decide) (by decide) (cR2 hmul hN (i := 0) (j := 1) (k := 2) (l := 3) (by decide) (by decide) (base hN))))
    · show Reach N 1 0 3 2
      exact (cR2 hmul hN (i := 3) (j := 2) (k := 1) (l := 0) (by decide) (by decide) (c34 hmul hN (i := 3) (j := 2) (k := 0) (l := 1) (by decide) (by decide) (cR2 hmul hN (i := 0) (j := 1) (k := 3) (l := 2) (by decide) (by decide) (c34 hmul hN (i := 0) (j := 1) (k := 2) (l := 3) (by decide) (by decide) (base hN)))))
    · show Reach N 1 2 0 3
      exact (cR2 hmul hN (i := 0) (j := 3) (k := 1) (l := 2) (by decide) (by decide) (c3c hmul hN (i := 0) (j := 1) (k := 2) (l := 3) (by decide) (by decide) (base hN)))
    · show Reach N 1 2 3 0
      exact (c34 hmul hN (i := 1) (j := 2) (k := 0) (l := 3) (by decide) (by decide) (cR2 hmul hN (i := 0) (j := 3) (k := 1) (l := 2) (by decide) (by decide) (c3c hmul hN (i := 0) (j := 1) (k := 2) (l := 3) (by decide) (by decide) (base hN))))
    · show Reach N 1 3 0 2
      exact (cR2 hmul hN (i := 0) (j := 2) (k := 1) (l := 3) (by decide) (by decide) (c3c hmul hN (i := 0) (j := 1) (k := 3) (l := 2) (by decide) (by decide) (c34 hmul hN (i := 0) (j := 1) (k := 2) (l := 3) (by decide) (by decide) (base hN))))
    · show Reach N 1 3 2 0
      exact (c3c hmul hN (i := 1) (j := 2) (k := 0) (l := 3) (by decide) (by decide) (cR2 hmul hN (i := 0) (j := 3) (k := 1) (l := 2) (by decide) (by decide) (c3c hmul hN (i := 0) (j := 1) (k := 2) (l := 3) (by decide) (by decide) (base hN))))
    · show Reach N 2 0 1 3
      exact (c3c hmul hN (i := 2) (j := 1) (k := 3) (l := 0) (by decide) (by decide) (c3c hmul hN (i := 2) (j := 3) (k := 0) (l := 1) (by decide) (by decide) (cR2 hmul hN (i := 0) (j := 1) (k := 2) (l := 3) (by decide) (by decide) (base hN))))
    · show Reach N 2 0 3 1
      exact (c3c hmul hN (i := 2) (j := 3) (k := 1) (l := 0) (by decide) (by decide) (c34 hmul hN (i := 2) (j := 3) (k := 0) (l := 1) (by decide) (by decide) (cR2 hmul hN (i := 0) (j := 1) (k := 2) (l := 3) (by decide) (by decide) (base hN))))
    · show Reach N 2 1 0 3
      exact (c34 hmul hN (i := 2) (j := 1) (k := 3) (l := 0) (by decide) (by decide) (c3c hmul hN (i := 2) (j := 3) (k := 0) (l := 1) (by decide) (by decide) (cR2 hmul hN (i := 0) (j := 1) (k := 2) (l := 3) (by decide) (by decide) (base hN))))
    · show Reach N 2 1 3 0
      exact (c3c hmul hN (i := 2) (j := 3) (k := 0) (l := 1) (by decide) (by decide) (cR2 hmul hN (i := 0) (j := 1) (k := 2) (l := 3) (by decide) (by decide) (base hN)))
    · show Reach N 2 3 0 1
      exact (cR2 hmul hN (i := 0) (j := 1) (k := 2) (l := 3) (by decide) (by decide) (base hN))
    · show Reach N 2 3 1 0
      exact (c34 hmul hN (i := 2) (j := 3) (k := 0) (l := 1) (by decide) (by decide) (cR2 hmul hN (i := 0) (j := 1) (k := 2) (l := 3) (by decide) (by decide) (base hN)))
    · show Reach N 3 0 1 2
      exact (c3c hmul hN (i := 3) (j := 1) (k := 2) (l := 0) (by decide) (by decide) (c3c hmul hN (i := 3) (j := 2) (k := 0) (l := 1) (by decide) (by decide) (cR2 hmul hN (i := 0) (j := 1) (k := 3) (l := 2) (by decide) (by decide) (c34 hmul hN (i := 0) (j := 1) (k := 2) (l := 3) (by decide) (by decide) (base hN)))))
    · show Reach N 3 0 2 1
      exact (cR2 hmul hN (i := 2) (j := 1) (k := 3) (l := 0) (by decide) (by decide) (c3c hmul hN (i := 2) (j := 3) (k := 0) (l := 1) (by decide) (by decide) (cR2 hmul hN (i := 0) (j := 1) (k := 2) (l := 3) (by decide) (by decide) (base hN))))
    · show Reach N 3 1 0 2
      exact (cR2 hmul hN (i := 0) (j := 2) (k := 3) (l := 1) (by decide) (by decide) (c3c hmul hN (i := 0) (j := 3) (k := 1) (l := 2) (by decide) (by decide) (c3c hmul hN (i := 0) (j := 1) (k := 2) (l := 3) (by decide) (by decide) (base hN))))
    · show Reach N 3 1 2 0
      exact (c3c hmul hN (i := 3) (j := 2) (k := 0) (l := 1) (by decide) (by decide) (cR2 hmul hN (i := 0) (j := 1) (k := 3) (l := 2) (by decide) (by decide) (c34 hmul hN (i := 0) (j := 1) (k := 2) (l := 3) (by decide) (by decide) (base hN))))
    · show Reach N 3 2 0 1
      exact (cR2 hmul hN (i := 0) (j := 1) (k := 3) (l := 2) (by decide) (by decide) (c34 hmul hN (i := 0) (j := 1) (k := 2) (l := 3) (by decide) (by decide) (base hN)))
    · show Reach N 3 2 1 0
      exact (c34 hmul hN (i := 3) (j := 2) (k := 0) (l := 1) (by decide) (by decide) (cR2 hmul hN (i := 0) (j := 1) (k := 3) (l := 2) (by decide) (by decide) (c34 hmul hN (i := 0) (j := 1) (k := 2) (l := 3) (by decide) (by decide) (base hN))))
  exact key (i, j, k, l) (mem_perms4 i j k l hn)

end

end Net4P
end SymmModel
