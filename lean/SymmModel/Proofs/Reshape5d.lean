/-
  SymmModel.Proofs.Reshape5d — the fermionic fuse call is a `FuseOK` call.
-/
import SymmModel.Proofs.Reshape5c

namespace SymmModel
namespace Reshape5
open C07 ReshapeP FuseP
set_option linter.unusedSectionVars false

variable {R : Type} [Zero R] [Neg R] [Lazy.LawfulNeg R]

theorem groupsOk_of_call {G : List (List Nat)} {P nd : Nat} (hne : G ≠ []) (h2 : ∀ g ∈ G, 2 ≤ g.length)
    (hflat : G.flatten = List.range' P G.flatten.length) (hle : P + G.flatten.length ≤ nd) :
    GroupsOk G nd := by
  refine ⟨hne, ?_, ?_, ?_⟩
  · intro g hg hc
    have := h2 g hg
    rw [hc] at this; simp at this
  · intro ax hax
    rw [hflat, List.mem_range'_1] at hax; omega
  · rw [hflat]; exact List.nodup_range'

theorem flatten_pos {G : List (List Nat)} (hne : G ≠ []) (h2 : ∀ g ∈ G, 2 ≤ g.length) :
    0 < G.flatten.length := by
  cases G with
  | nil => exact (hne rfl).elim
  | cons g r =>
    have := h2 g (by simp)
    simp only [List.flatten_cons, List.length_append]; omega

/-- the explicit list of unfuse steps, last group first, when every group has several axes -/
theorem groups_chain (unf : Arr R → Nat → Except Err (Arr R)) (G : List (List Nat)) (P : Nat) (x : Arr R)
    (h2 : ∀ g ∈ G, 2 ≤ g.length) :
    (List.range G.length).reverse.foldlM (fun x g => if multiB G g then unf x (P + g) else pure x) x
      = ((List.range G.length).map (fun g => P + g)).reverse.foldlM unf x := by
  rw [foldlM_if_filter (multiB G) (fun x g => unf x (P + g))]
  have hf : (List.range G.length).reverse.filter (multiB G) = (List.range G.length).reverse := by
    rw [List.filter_eq_self]
    intro g hg
    have hgl : g < G.length := by simpa using hg
    exact multiB_iff.2 ⟨G[g], List.getElem?_eq_getElem hgl, by
      have := h2 G[g] (List.getElem_mem hgl); omega⟩
  rw [hf, ← List.map_reverse, List.foldlM_map]

theorem eq_of_flatten_lengths : ∀ (A B : List (List Nat)), A.flatten = B.flatten →
    A.map List.length = B.map List.length → A = B := by
  intro A
  induction A with
  | nil =>
    intro B _ hl
    cases B with
    | nil => rfl
    | cons b B => simp at hl
  | cons a A ih =>
    intro B hf hl
    cases B with
    | nil => simp at hl
    | cons b B =>
      simp only [List.map_cons, List.cons.injEq] at hl
      simp only [List.flatten_cons] at hf
      have hab : a = b := by
        have := congrArg (List.take a.length) hf
        rw [List.take_left' rfl, hl.1, List.take_left' rfl] at this
        exact this
      subst hab
      rw [ih B (List.append_cancel_left hf) hl.2]

/-- the middle indices of a fused array: group `i` (several axes) becomes a fused index whose
    sub-indices are the group's indices -/
theorem newMidOf_sub (x : Arr R) (G : List (List Nat)) (h2 : ∀ g ∈ G, 2 ≤ g.length) (i : Nat)
    (g : List Nat) (hg : G[i]? = some g) :
    ∃ (ix : Index) (exts : Extents), (newMidOf x G)[i]? = some ix
      ∧ ix.sub = some (g.map (fun ax => x.indices.getD ax default), exts) := by
  have hgl := (List.getElem?_eq_some_iff.mp hg).1
  have hgm : g ∈ G := List.mem_of_getElem? hg
  have hne : (g.length == 1) = false := by
    have := h2 g hgm
    simp; omega
  have hz : G.zipIdx[i]? = some (g, i) := by
    rw [List.getElem?_zipIdx, hg]; simp
  refine ⟨fusedIndexOf (tableEntries (blockmapOf x G) (calcFuseGroupInfo G x.duals).position i)
      ((calcFuseGroupInfo G x.duals).groupDuals.getD i false)
      (g.map (fun ax => x.indices.getD ax default)), _, ?_, rfl⟩
  simp only [newMidOf, List.getElem?_map, hz, Option.map_some, hne, Bool.false_eq_true, if_false]

/-- **the fermionic fuse call** -/
theorem fuseOK_F : FuseOK (R := R) (fun y G => Arr.fuseF y G .insert true) Arr.unfuseF
    (fun a => a.validB = true ∧ a.fermi = true) where
  fuse := by
    intro y G P ⟨hv, hf⟩ hne h2 hflat hle
    have hok := groupsOk_of_call hne h2 hflat hle
    have hgok : groupsOkB G y.ndim = true := groupsOk_iff.2 hok
    have hNpos := flatten_pos hne h2
    have hdl := FuseP.duals_length y
    obtain ⟨hb, _, hperm⟩ := ValidP.groupInfo_consecutive (groups := G) (duals := y.duals)
      (p := P) (n := G.flatten.length) hflat hNpos (by rw [hdl]; exact hle)
    rw [hdl] at hperm
    have hpos : (calcFuseGroupInfo G y.duals).position = P := by
      obtain ⟨_, _, _, _, _, hb', _⟩ := C05.calcFuseGroupInfo_perm G y.duals (by rw [hdl]; exact hgok)
      have := congrArg List.length (hb'.symm.trans hb)
      simpa using this
    obtain ⟨y', z, hy', hz, hzv, hveq⟩ := C05.unfuseGroupsF_fuseF_veq y G true hv hf hgok
    rw [hpos] at hz
    rw [hperm] at hveq
    -- the fused array
    obtain ⟨hs1, hs2, _, hs4, hs5, _, _⟩ := C05.fuseF_struct y G .insert true hv hf hgok
    have hy'v : y'.validB = true := C01.fuseF_valid y y' G true hv hf (fuseAdmissible_of_groupsOk hgok) hy'
    have hyF := hy'
    rw [hs1] at hy'
    have hndS : (signAdj y G).ndim = y.ndim := by
      show (signAdj y G).indices.length = y.ndim
      rw [hs4, hperm]
      show (permuted y.indices (List.range y.indices.length)).length = _
      rw [Lazy.permuted_range]; rfl
    have hok4 : GroupsOk (newGroupsF G y.duals) (signAdj y G).ndim := groupsOk_iff.1 hs5
    have hGeq : newGroupsF G y.duals = G := by
      obtain ⟨c1, c2⟩ := C05.newGroups_consecutive G y.duals (by rw [hdl]; exact hgok)
      apply eq_of_flatten_lengths _ _ _ c2
      rw [c1, hpos]
      conv => rhs; rw [hflat]
      rw [List.range'_eq_map_range]
    rw [hGeq] at hy' hok4
    have hy'f : y'.fermi = true := by
      have := fuseCore_multi_eq (validArr_of_validB hs2) hok4
      rw [hy'] at this
      have e := Except.ok.inj this
      rw [e]
      show (signAdj y G).fermi = true
      rw [(signAdj_fields y G).2.2.2.1]; exact hf
    have hSidx : (signAdj y G).indices = y.indices := by
      rw [hs4, hperm]; exact Lazy.permuted_range y.indices
    have hidx := ReshapeP.fuse_indices (x := signAdj y G) (groups := G) (p := P) hs2 hok4 hflat
      (by rw [hndS]; exact hle) hy'
    rw [hSidx] at hidx
    -- the value view of the unfused array
    have hfull := Lazy.Full.of_valid hv hf
    have hobs := Norm.transposeF_id_obsEq hfull (Lazy.ShapeLen.of_valid hv)
    have hzy : VEq z y := hveq.trans (C05.veq_of_obsEq hobs)
    refine ⟨y', newMidOf (signAdj y G) G, z, hyF, ⟨hy'v, hy'f⟩, hidx, newMidOf_length _ _, ?_, ?_,
      ⟨hzv, by rw [hzy.fermi]; exact hf⟩, hzy⟩
    · intro i g hg
      obtain ⟨ix, exts, h1, h2'⟩ := newMidOf_sub (signAdj y G) G h2 i g hg
      rw [hSidx] at h2'
      exact ⟨ix, exts, h1, h2'⟩
    · rw [← groups_chain Arr.unfuseF G P y' h2]
      exact hz

theorem hind_F : ∀ (x : Arr R) (p : Nat) (y : Arr R), Arr.unfuseF x p = .ok y →
    ∃ ix subs exts, x.indices[p]? = some ix ∧ ix.sub = some (subs, exts) := by
  intro x p y h
  obtain ⟨ix, subs, exts, h1, h2, _⟩ := ValidP.unfuseF_indices h
  exact ⟨ix, subs, exts, h1, h2⟩

theorem hdisp_F : ∀ (x : Arr R) (p : Nat), (x.validB = true ∧ x.fermi = true) →
    unfuseDispatch x p = Arr.unfuseF x p := by
  intro x p h
  simp [unfuseDispatch, h.2]

end Reshape5
end SymmModel
