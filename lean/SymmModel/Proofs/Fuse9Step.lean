/-
  SymmModel.Proofs.Fuse9Step — one `unfuseF` step against `conjF`, on the value view:
  `unfuseF (conjF x) p` is `conjF (unfuseF x p)` times the flip over the legs of the unfused index
  whose direction differs from the index.
-/
import SymmModel.Proofs.Fuse9Sign
import SymmModel.Proofs.Fuse5Conj3
import SymmModel.Proofs.Fuse6Inst
import SymmModel.Props.C01
namespace SymmModel
namespace FuseP
set_option linter.unusedSectionVars false
open SymmModel.Lazy SymmModel.KoszulP SymmModel.LinalgLemmas

theorem flipSign_shift (sym : Sym) (axes : List Nat) {p : Nat} {A S X : Sector} (hA : A.length = p)
    (hax : ∀ t ∈ axes, t < S.length) :
    Lazy.flipSign sym (axes.map (fun t => p + t)) (A ++ S ++ X) = Lazy.flipSign sym axes S := by
  unfold Lazy.flipSign Lazy.flipOdd
  rw [List.filter_map, List.length_map]
  have : axes.filter ((fun ax => sym.parity ((A ++ S ++ X).getD ax (0, 0))) ∘ fun t => p + t)
      = axes.filter (fun ax => sym.parity (S.getD ax (0, 0))) := by
    apply List.filter_congr
    intro t ht
    simp only [Function.comp]
    rw [← hA, getD_mid A S X t (0, 0) (hax t ht)]
  rw [this]

theorem mismatchLegs_lt (ix : Index) (subs : List Index) : ∀ t ∈ mismatchLegs ix subs, t < subs.length := by
  intro t ht
  exact List.mem_range.1 (List.mem_filter.1 ht).1

theorem pm_sq {s : Int} (h : s = 1 ∨ s = -1) : s * s = 1 := by rcases h with rfl | rfl <;> rfl

section
variable {R : Type} [Zero R] [Neg R] [Conj R] [LawfulNegConj R]

theorem conjTotSign_default (a : Arr R) (s : Sector) :
    conjTotSign a true false s = (if conjGlob a true then -1 else 1) * koszul (s.map a.sym.parity) none := by
  simp [conjTotSign, conjSign, Arr.parities]

theorem conj_unfuse_step (x : Arr R) (hv : x.validB = true) (hf : x.fermi = true) {p : Nat} {ix : Index}
    {subs : List Index} {exts : Extents} (hix : x.indices[p]? = some ix) (hsub : ix.sub = some (subs, exts)) :
    ∃ u u', Arr.unfuseF x p = .ok u ∧ Arr.unfuseF x.conjF p = .ok u'
      ∧ u.validB = true ∧ u.fermi = true ∧ u'.validB = true ∧ u'.fermi = true
      ∧ u.indices = replaceWithSeq x.indices p subs
      ∧ u'.indices = u.conjF.indices ∧ u'.sym = u.conjF.sym ∧ u'.charge = u.conjF.charge
      ∧ u'.oddpos = u.conjF.oddpos
      ∧ ∀ K shp, Arr.blockShape? u'.indices K = some shp → ∀ J, inBox shp J = true →
          u'.elem K J = sgnI (Lazy.flipSign x.sym ((mismatchLegs ix subs).map (fun t => p + t)) K)
            (u.conjF.elem K J) := by
  have hfx := conjF_frame x true false
  have hvx' : x.conjF.validB = true := C01.conjF_valid x true false hv hf
  have hfx' : x.conjF.fermi = true := by rw [hfx.2.1]; exact hf
  have hix' : x.conjF.indices[p]? = some ix.conj := by rw [hfx.2.2.1, List.getElem?_map, hix]; rfl
  have hsub' := conj_sub ix hsub
  obtain ⟨u, hu, hui, huv⟩ := unfuseF_val x p ix subs exts hv hix hsub
  obtain ⟨u', hu', hui', huv'⟩ := unfuseF_val x.conjF p ix.conj (subs.map Index.conj) exts hvx' hix' hsub'
  obtain ⟨hVu, hfu⟩ := ValidP.unfuseF_valid' x u p ((ValidP.validB_iff x).1 hv) hf hu
  obtain ⟨hVu', hfu'⟩ := ValidP.unfuseF_valid' x.conjF u' p ((ValidP.validB_iff _).1 hvx') hfx' hu'
  obtain ⟨fu1, fu2, fu3⟩ := unfuseF_frame x p hv hix hsub hu
  obtain ⟨fu1', fu2', fu3'⟩ := unfuseF_frame x.conjF p hvx' hix' hsub' hu'
  have hvu : u.validB = true := (ValidP.validB_iff u).2 hVu
  have hfc := conjF_frame u true false
  have hidx : u'.indices = u.conjF.indices := by
    rw [hui', hfx.2.2.1, replaceWithSeq_map, hfc.2.2.1, hui]
  refine ⟨u, u', hu, hu', hvu, hfu, (ValidP.validB_iff u').2 hVu', hfu', hui, hidx,
    by rw [fu1', hfx.1, hfc.1, fu1], by rw [fu2', hfx.2.2.2.1, hfc.2.2.2.1, fu1, fu2],
    by rw [fu3', hfx.2.2.2.2.1, hfc.2.2.2.2.1, fu3], ?_⟩
  intro K shp hK J hJ
  have hp : p < x.indices.length := getElem?_lt hix
  -- the same address is in a box of `u`
  have hKu : Arr.blockShape? u.indices K = some shp := by
    rw [hidx, hfc.2.2.1, ← conjList_eq_map, blockShape?_conjList] at hK; exact hK
  have hKl : p + subs.length ≤ K.length := by
    have := (blockShape?_length hKu).1
    rw [hui, replaceWithSeq_split] at this
    simp only [List.length_append, List.length_take, List.length_drop] at this
    omega
  have hJl : J.length = K.length := by rw [inBox_length hJ, (blockShape?_length hKu).2]
  obtain ⟨A, S, X, rfl, hA, hS⟩ := exists_parts K p subs.length hKl
  obtain ⟨A', S', X', rfl, hA', hS'⟩ := exists_parts J p subs.length (by omega)
  have hSc : S.length = (subs.map Index.conj).length := by rw [List.length_map]; exact hS
  have hSc' : S'.length = (subs.map Index.conj).length := by rw [List.length_map]; exact hS'
  rw [huv' _ shp hK _ hJ, unfVal_parts _ _ _ _ _ _ hA hSc hA' hSc',
    conjF_elem u true false (SignOk.of_valid hvu hfu), huv _ shp hKu _ hJ, unfVal_parts _ _ _ _ _ _ hA hS hA' hS',
    hfx.1, look_conj, cmb_conj]
  cases hl : look x.sym ix subs exts S with
  | none =>
    simp only
    rw [LawfulNegConj.conj_zero, sgnI_zero, sgnI_zero]
  | some q =>
    obtain ⟨st, sub⟩ := q
    simp only
    rw [conjF_elem x true false (SignOk.of_valid hv hf), sgnI_conj]
    -- the signs
    have hs : unfuseSign x ix subs p (A ++ S ++ X) = segSign x.sym ix subs S := unfuseSign_seg x ix subs p hp hA hS
    have hs' : unfuseSign x.conjF ix.conj (subs.map Index.conj) p (A ++ S ++ X)
        = segSign x.sym ix.conj (subs.map Index.conj) S := by
      have := unfuseSign_seg x.conjF ix.conj (subs.map Index.conj) p
        (by rw [conjF_ndim]; exact hp) (X := X) hA hSc
      rw [this, hfx.1]
    have hglob : conjGlob u true = conjGlob x true := by
      simp only [conjGlob, fu1, fu2, fu3]
    rw [hs, hs', conjTotSign_default, conjTotSign_default, hglob, fu1]
    have hflip := flipSign_shift x.sym (mismatchLegs ix subs) (X := X) hA (by
      intro t ht; rw [hS]; exact mismatchLegs_lt ix subs t ht)
    rw [hflip]
    have h1 := conj_step_sign x.sym ix subs S
    have h2 := koszul_collapse x.sym ix subs A S X hS
    have pS := segSign_pm x.sym ix subs S
    have pS' := segSign_pm x.sym ix.conj (subs.map Index.conj) S
    have pK := koszul_pm ((A ++ S ++ X).map x.sym.parity) none
    have pKc := koszul_pm ((A ++ [cmb x.sym ix subs S] ++ X).map x.sym.parity) none
    have pF := Lazy.flipSign_pm x.sym (mismatchLegs ix subs) S
    have pG : (if conjGlob x true = true then (-1 : Int) else 1) = 1
        ∨ (if conjGlob x true = true then (-1 : Int) else 1) = -1 := by split <;> simp
    generalize segSign x.sym ix subs S = s at *
    generalize segSign x.sym ix.conj (subs.map Index.conj) S = s' at *
    generalize koszul ((A ++ S ++ X).map x.sym.parity) none = k at *
    generalize koszul ((A ++ [cmb x.sym ix subs S] ++ X).map x.sym.parity) none = kc at *
    generalize Lazy.flipSign x.sym (mismatchLegs ix subs) S = f at *
    generalize (if conjGlob x true = true then (-1 : Int) else 1) = g at *
    generalize revSign (S.map x.sym.parity) (List.range subs.length) = r at *
    generalize Conj.conj (x.elem (A ++ [cmb x.sym ix subs S] ++ X)
      (A' ++ [st + ravel sub S'] ++ X')) = e
    have pR : r = 1 ∨ r = -1 := by rw [← h2]; exact mul_pm pK pKc
    rw [← sgnI_mul pS' (mul_pm pG pKc), ← sgnI_mul (mul_pm pG pK) pS,
      ← sgnI_mul pF (mul_pm (mul_pm pG pK) pS)]
    congr 1
    have e1 : s' = s * (f * r) := by rw [← h1, ← Int.mul_assoc, pm_sq pS, Int.one_mul]
    have e2 : kc = k * r := by rw [← h2, ← Int.mul_assoc, pm_sq pK, Int.one_mul]
    have hr := pm_sq pR
    rw [e1, e2]
    calc s * (f * r) * (g * (k * r)) = (r * r) * (f * (g * k * s)) := by ring
      _ = f * (g * k * s) := by rw [hr, Int.one_mul]

end

end FuseP
end SymmModel
