/-
  SymmModel.Proofs.Reshape5f — the round trip for a forward plan that is a list of fuse calls
  (`callsOkB`: every call fuses consecutive axes, every group has at least two axes, the calls go
  left to right), abelian and fermionic; the planner never unfuses an array without fused axes.
-/
import SymmModel.Proofs.Reshape5e

namespace SymmModel
namespace Reshape5
open C07 ReshapeP FuseP SymmModel.Reshape
set_option linter.unusedSectionVars false

variable {R : Type} [Zero R] [Neg R] [Lazy.LawfulNeg R]

/-- the fuse calls of a plan, `lb` = first axis not yet touched, `nd` = current number of axes -/
def CallsOk : List (List (List Nat)) → Nat → Nat → Prop
  | [], _, _ => True
  | G :: rest, lb, nd => ∃ P, CallOk G P lb nd ∧ CallsOk rest (P + G.length) (nd - G.flatten.length + G.length)

/-- decidable form -/
def callsOkB : List (List (List Nat)) → Nat → Nat → Bool
  | [], _, _ => true
  | G :: rest, lb, nd =>
    let flat := G.flatten
    let P := flat.headD 0
    !G.isEmpty && G.all (fun g => decide (2 ≤ g.length)) && beqNats flat (List.range' P flat.length)
      && decide (lb ≤ P) && decide (P + flat.length ≤ nd)
      && callsOkB rest (P + G.length) (nd - flat.length + G.length)

theorem callsOk_of_B : ∀ (calls : List (List (List Nat))) (lb nd : Nat),
    callsOkB calls lb nd = true → CallsOk calls lb nd := by
  intro calls
  induction calls with
  | nil => intro _ _ _; trivial
  | cons G rest ih =>
    intro lb nd h
    simp only [callsOkB, Bool.and_eq_true, decide_eq_true_eq, List.all_eq_true, Bool.not_eq_true',
      List.isEmpty_eq_false_iff] at h
    obtain ⟨⟨⟨⟨⟨h1, h2⟩, h3⟩, h4⟩, h5⟩, h6⟩ := h
    exact ⟨G.flatten.headD 0, ⟨h1, h2, beqNats_iff.mp h3, h4, h5⟩, ih _ _ h6⟩

variable {fuse : Arr R → List (List Nat) → Except Err (Arr R)}
  {unf : Arr R → Nat → Except Err (Arr R)} {Good : Arr R → Prop}
  {sg : Sym → Index → List Index → Sector → Int}

/-- all fuse calls keep the invariant -/
theorem inv_calls (H : StepOK unf Good sg) (F : FuseOK fuse unf Good)
    (hind : ∀ x p y, unf x p = .ok y → ∃ ix subs exts, x.indices[p]? = some ix ∧ ix.sub = some (subs, exts))
    (hfd : ∀ x G, Good x → fuseDispatch x G = fuse x G) (a : Arr R) :
    ∀ (calls : List (List (List Nat))) (y : Arr R) (lb : Nat), Inv unf Good a y lb →
      CallsOk calls lb y.ndim →
      ∃ y' lb', calls.foldlM fuseDispatch y = .ok y' ∧ Inv unf Good a y' lb' := by
  intro calls
  induction calls with
  | nil => intro y lb hI _; exact ⟨y, lb, rfl, hI⟩
  | cons G rest ih =>
    intro y lb hI hc
    obtain ⟨P, hc1, hc2⟩ := hc
    obtain ⟨y1, hy1, hI1, hnd⟩ := inv_step H F hind hI hc1
    rw [← hnd] at hc2
    obtain ⟨y', lb', h1, h2⟩ := ih y1 _ hI1 hc2
    exact ⟨y', lb', by rw [List.foldlM_cons, hfd y G hI.good, hy1]; exact h1, h2⟩

/-- **there and back**, generic -/
theorem roundtrip_generic (H : StepOK unf Good sg) (F : FuseOK fuse unf Good)
    (hind : ∀ x p y, unf x p = .ok y → ∃ ix subs exts, x.indices[p]? = some ix ∧ ix.sub = some (subs, exts))
    (hfd : ∀ x G, Good x → fuseDispatch x G = fuse x G)
    (hdisp : ∀ x p, Good x → unfuseDispatch x p = unf x p)
    (a : Arr R) (hg : Good a) (hnf : ∀ ix ∈ a.indices, ix.sub = none)
    (calls : List (List (List Nat))) (hc : callsOkB calls 0 a.ndim = true) :
    ∃ y z, applyPlan a ([], calls, []) = .ok y ∧ reshapeArr y (a.shape.map Int.ofNat) = .ok z
      ∧ Good z ∧ VEq z a := by
  obtain ⟨y, lb, hy, hI⟩ := inv_calls H F hind hfd a calls a 0 (inv_init a hg hnf) (callsOk_of_B _ _ _ hc)
  obtain ⟨z, hz, gz, hv⟩ := back_of_inv H hdisp hind hI
  refine ⟨y, z, ?_, hz, gz, hv⟩
  simp only [applyPlan, List.foldlM_nil, bind, Except.bind, pure, Except.pure]
  rw [hy]

/-- fermionic -/
theorem roundtrip_calls_F (a : Arr R) (hv : a.validB = true) (hf : a.fermi = true)
    (hnf : ∀ ix ∈ a.indices, ix.sub = none) (calls : List (List (List Nat)))
    (hc : callsOkB calls 0 a.ndim = true) :
    ∃ y z, applyPlan a ([], calls, []) = .ok y ∧ reshapeArr y (a.shape.map Int.ofNat) = .ok z
      ∧ z.validB = true ∧ z.fermi = true ∧ VEq z a := by
  obtain ⟨y, z, h1, h2, g, h3⟩ := roundtrip_generic (stepOK_F (R := R)) fuseOK_F hind_F
    (fun x G hx => by simp [fuseDispatch, hx.2]) hdisp_F a ⟨hv, hf⟩ hnf calls hc
  exact ⟨y, z, h1, h2, g.1, g.2, h3⟩

/-- abelian -/
theorem roundtrip_calls_A (a : Arr R) (hv : a.validB = true) (hf : a.fermi = false)
    (hnf : ∀ ix ∈ a.indices, ix.sub = none) (calls : List (List (List Nat)))
    (hc : callsOkB calls 0 a.ndim = true) :
    ∃ y z, applyPlan a ([], calls, []) = .ok y ∧ reshapeArr y (a.shape.map Int.ofNat) = .ok z
      ∧ z.validB = true ∧ z.fermi = false ∧ VEq z a := by
  obtain ⟨y, z, h1, h2, g, h3⟩ := roundtrip_generic (stepOK_A (R := R)) fuseOK_A hind_A
    (fun x G hx => by simp [fuseDispatch, hx.2]) hdisp_A a ⟨hv, hf⟩ hnf calls hc
  exact ⟨y, z, h1, h2, g.1, g.2, h3⟩

/-! ### the planner never unfuses when no axis is fused -/

theorem mainLoop_no_unfuse (shape newshape : List Nat) (subsizes : List (Option (List Nat)))
    (hn : ∀ s ∈ subsizes, s = none) :
    ∀ (fuel : Nat) (st st' : RState), st.unfuseSizes = [] →
      mainLoop shape newshape subsizes fuel st = .ok st' → st'.unfuseSizes = [] := by
  intro fuel
  induction fuel with
  | zero =>
    intro st st' h0 h
    simp only [mainLoop] at h
    split at h
    · cases h
    · simp only [pure, Except.pure] at h; injection h with h; subst h; exact h0
  | succ fuel ih =>
    intro st st' h0 h
    simp only [mainLoop] at h
    split at h
    · split at h
      · cases h
      · rename_i sub hsub
        have hsn : sub = none := hn sub (List.mem_of_getElem? hsub)
        subst hsn
        simp only [unfuseMatch] at h
        split at h
        · (refine ih _ _ ?_ h; exact h0)
        · split at h
          · (refine ih _ _ ?_ h; exact h0)
          · split at h
            · (refine ih _ _ ?_ h; exact h0)
            · split at h
              · split at h
                · cases h
                · split at h
                  · cases h
                  · (refine ih _ _ ?_ h; exact h0)
              · cases h
    · simp only [pure, Except.pure] at h; injection h with h; subst h; exact h0

theorem planner_no_unfuse (shape newshape : List Nat) (t : List Nat × List (List (List Nat)) × List Nat)
    (h : calcReshapeArgs shape newshape (nones shape) = .ok t) : t.1 = [] := by
  unfold calcReshapeArgs at h
  split at h
  · cases h
  · rename_i st hst
    have hus := mainLoop_no_unfuse shape newshape (nones shape)
      (fun s hs => by simp only [nones, List.mem_map] at hs; obtain ⟨_, _, rfl⟩ := hs; rfl)
      _ _ st rfl hst
    simp only [hus, unfusePhase, pure, Except.pure] at h
    split at h
    · cases h
    · split at h
      · cases h
      · injection h with h; rw [← h]

end Reshape5
end SymmModel
