/-
  SymmModel.Proofs.Assoc5Swap — S5 of property C04 as an `Eqv` statement: the contraction with the
  operands exchanged, followed by the transposition that rotates the two free blocks back, is
  equivalent to the original contraction (weak guard).  Namespace `SymmModel.Assoc5P`.
-/
import SymmModel.Proofs.Assoc5Pre

namespace SymmModel
namespace Assoc5P
open TdotP GradedP RoutesP KoszulP OddposP AssocP Assoc3P Assoc4P
open Lazy (sgnI)
set_option linter.unusedSectionVars false

variable {R : Type}

/-- the rotation bringing the second block (length `nL`) in front of the first (length `nR`) -/
def rotB (nR nL : Nat) : List Nat := (List.range nL).map (nR + ·) ++ List.range nR

theorem permuted_rotB {α : Type} (u v : List α) :
    permuted (u ++ v) (rotB u.length v.length) = v ++ u := by
  unfold rotB
  rw [ValidP.permuted_append, permuted_append_map_add,
    permuted_append_of_lt u v _ (by intro i hi; exact List.mem_range.mp hi), TdotP.permuted_range,
    TdotP.permuted_range]

theorem rotB_isPerm (nR nL : Nat) : Arr.isPerm (rotB nR nL) (nR + nL) = true := by
  apply ValidP.isPerm_of_perm
  unfold rotB
  rw [List.range_add]
  exact List.perm_append_comm

section
variable [AddMonoid R] [Mul R] [Neg R]
variable {a b c c' : Arr R} {xa xb : List Nat} {ph ph' : Int}

/-- the sectors of the swapped result are the rotated sectors of the original one -/
theorem swap_sectors (I : Inter a b xa xb c ph) (I' : Inter b a xb xa c' ph')
    (hsa : a.shapesOk) (hsb : b.shapesOk) (s' : Sector) :
    s' ∈ c'.sectors ↔ ∃ L Rr, L.length = (freeAxes a.ndim xa).length
      ∧ Rr.length = (freeAxes b.ndim xb).length ∧ s' = Rr ++ L ∧ L ++ Rr ∈ c.sectors := by
  have hlA : ∀ sa ∈ a.sectors, (permuted sa (freeAxes a.ndim xa)).length = (freeAxes a.ndim xa).length :=
    fun sa h => permuted_length _ _ (by
      intro x hx; rw [Arr.sector_length hsa h]; exact (mem_freeAxes.mp hx).1)
  have hlB : ∀ sb ∈ b.sectors, (permuted sb (freeAxes b.ndim xb)).length = (freeAxes b.ndim xb).length :=
    fun sb h => permuted_length _ _ (by
      intro x hx; rw [Arr.sector_length hsb h]; exact (mem_freeAxes.mp hx).1)
  rw [I'.mem_sectors]
  constructor
  · rintro ⟨sb, hB, sa, hA, hal, rfl⟩
    exact ⟨_, _, hlA sa hA, hlB sb hB, rfl, I.mem_sectors.mpr ⟨sa, hA, sb, hB, hal.symm, rfl⟩⟩
  · rintro ⟨L, Rr, hL, hR, rfl, hs⟩
    obtain ⟨sa, hA, sb, hB, hal, e⟩ := I.mem_sectors.mp hs
    obtain ⟨e1, e2⟩ := List.append_inj e (by rw [hL, hlA sa hA])
    exact ⟨sb, hB, sa, hA, hal.symm, by rw [e1, e2]⟩

/-- the index tables of the swapped result, rotated back, are those of the original result -/
theorem swap_indices (I : Inter a b xa xb c ph) (I' : Inter b a xb xa c' ph')
    (hsa : a.shapesOk) (hsb : b.shapesOk) :
    permuted c'.indices (rotB (freeAxes b.ndim xb).length (freeAxes a.ndim xa).length) = c.indices := by
  have hl1 : (without a.indices xa).length = (freeAxes a.ndim xa).length := by
    rw [without_eq_permuted_freeAxes]; exact permuted_length _ _ (fun x hx => (mem_freeAxes.mp hx).1)
  have hl2 : (without b.indices xb).length = (freeAxes b.ndim xb).length := by
    rw [without_eq_permuted_freeAxes]; exact permuted_length _ _ (fun x hx => (mem_freeAxes.mp hx).1)
  set nL := (freeAxes a.ndim xa).length with hnL
  set nR := (freeAxes b.ndim xb).length with hnR
  have hX : c'.indices.length = nR + nL := by
    rw [I'.indices, dropUnused_length, List.length_append, hl1, hl2]
  have hsplit : c'.indices = c'.indices.take nR ++ c'.indices.drop nR := (List.take_append_drop _ _).symm
  have ht : (c'.indices.take nR).length = nR := by rw [List.length_take]; omega
  have hd : (c'.indices.drop nR).length = nL := by rw [List.length_drop]; omega
  have hrot := permuted_rotB (c'.indices.take nR) (c'.indices.drop nR)
  rw [ht, hd, ← hsplit] at hrot
  rw [hrot]
  apply List.ext_getElem?
  intro i
  have corr := swap_sectors I I' hsa hsb
  by_cases h1 : i < nL
  · rw [List.getElem?_append_left (by rw [hd]; exact h1), List.getElem?_drop, I'.indices, I.indices,
      dropUnused_getElem?, dropUnused_getElem?, List.getElem?_append_right (by rw [hl2]; omega), hl2,
      Nat.add_sub_cancel_left, List.getElem?_append_left (by rw [hl1]; exact h1)]
    cases (without a.indices xa)[i]? with
    | none => rfl
    | some ix =>
      simp only [Option.map_some]
      congr 1
      apply dropTo_congr
      intro ch _
      simp only [List.mem_filterMap]
      constructor
      · rintro ⟨s', hs', e⟩
        obtain ⟨L, Rr, hL, hR, rfl, hs⟩ := (corr s').mp hs'
        refine ⟨L ++ Rr, hs, ?_⟩
        rw [List.getElem?_append_right (by omega), hR, Nat.add_sub_cancel_left] at e
        rw [List.getElem?_append_left (by omega)]; exact e
      · rintro ⟨s, hs, e⟩
        obtain ⟨sa, hA, sb, hB, hal, es⟩ := I.mem_sectors.mp hs
        have hL : (permuted sa (freeAxes a.ndim xa)).length = nL := permuted_length _ _ (by
          intro x hx; rw [Arr.sector_length hsa hA]; exact (mem_freeAxes.mp hx).1)
        have hR : (permuted sb (freeAxes b.ndim xb)).length = nR := permuted_length _ _ (by
          intro x hx; rw [Arr.sector_length hsb hB]; exact (mem_freeAxes.mp hx).1)
        refine ⟨permuted sb (freeAxes b.ndim xb) ++ permuted sa (freeAxes a.ndim xa),
          (corr _).mpr ⟨_, _, hL, hR, rfl, by rw [← es]; exact hs⟩, ?_⟩
        rw [es, List.getElem?_append_left (by omega)] at e
        rw [List.getElem?_append_right (by omega), hR, Nat.add_sub_cancel_left]; exact e
  · rw [List.getElem?_append_right (by rw [hd]; omega), hd, List.getElem?_take]
    by_cases h2 : i - nL < nR
    · rw [if_pos h2, I'.indices, I.indices, dropUnused_getElem?, dropUnused_getElem?,
        List.getElem?_append_left (by rw [hl2]; exact h2), List.getElem?_append_right (by rw [hl1]; omega),
        hl1]
      cases (without b.indices xb)[i - nL]? with
      | none => rfl
      | some ix =>
        simp only [Option.map_some]
        congr 1
        apply dropTo_congr
        intro ch _
        simp only [List.mem_filterMap]
        constructor
        · rintro ⟨s', hs', e⟩
          obtain ⟨L, Rr, hL, hR, rfl, hs⟩ := (corr s').mp hs'
          refine ⟨L ++ Rr, hs, ?_⟩
          rw [List.getElem?_append_left (by omega)] at e
          rw [List.getElem?_append_right (by omega), hL]; exact e
        · rintro ⟨s, hs, e⟩
          obtain ⟨sa, hA, sb, hB, hal, es⟩ := I.mem_sectors.mp hs
          have hL : (permuted sa (freeAxes a.ndim xa)).length = nL := permuted_length _ _ (by
            intro x hx; rw [Arr.sector_length hsa hA]; exact (mem_freeAxes.mp hx).1)
          have hR : (permuted sb (freeAxes b.ndim xb)).length = nR := permuted_length _ _ (by
            intro x hx; rw [Arr.sector_length hsb hB]; exact (mem_freeAxes.mp hx).1)
          refine ⟨permuted sb (freeAxes b.ndim xb) ++ permuted sa (freeAxes a.ndim xa),
            (corr _).mpr ⟨_, _, hL, hR, rfl, by rw [← es]; exact hs⟩, ?_⟩
          rw [es, List.getElem?_append_right (by omega), hL] at e
          rw [List.getElem?_append_left (by omega)]; exact e
    · rw [if_neg h2, I.indices, dropUnused_getElem?,
        List.getElem?_eq_none (by rw [List.length_append, hl1, hl2]; omega)]
      rfl

end

section eqv
variable [AddCommMonoid R] [Mul R] [Neg R] [SignRing R] [AssocLaws R]

/-- **S5 as an equivalence**: `b·a`, rotated back by `transposeF`, is `Eqv` to `a·b` -/
theorem swap_eqv (hmul : ∀ x y : R, x * y = y * x) {a b : Arr R} {xa xb : List Nat}
    (W : AdmW a b xa xb) (hd : OddposP.LabelsDistinct (a.oddpos ++ b.oddpos)) (c : Arr R)
    (hc : tdF a b xa xb = .ok c) :
    ∃ c', tdF b a xb xa = .ok c' ∧ c'.validB = true
      ∧ (c'.transposeF (rotB (freeAxes b.ndim xb).length (freeAxes a.ndim xa).length)).validB = true
      ∧ Eqv (c'.transposeF (rotB (freeAxes b.ndim xb).length (freeAxes a.ndim xa).length)) c := by
  have hsa := Arr.shapesOk_of_validB W.va
  have hsb := Arr.shapesOk_of_validB W.vb
  obtain ⟨Z, ph, eZ, I, _⟩ := call_pack a b xa xb W hd
  have hc' := hc
  unfold tdF at hc'
  rw [eZ] at hc'
  obtain rfl := Except.ok.inj hc'
  have W' := admW_swap W
  have hd' : OddposP.LabelsDistinct (b.oddpos ++ a.oddpos) :=
    OddposP.LabelsDistinct.perm hd List.perm_append_comm
  obtain ⟨c', ph', ec', I', _⟩ := call_pack b a xb xa W' hd'
  obtain ⟨c'', e'', q1, q2, q3, q4, q5⟩ := tdotF_swap_w a b Z xa xb hmul W hd hc
  rw [ec'] at e''
  obtain rfl := Except.ok.inj e''
  set nL := (freeAxes a.ndim xa).length with hnL
  set nR := (freeAxes b.ndim xb).length with hnR
  have hperm : Arr.isPerm (rotB nR nL) c'.ndim = true := by rw [I'.ndim]; exact rotB_isPerm nR nL
  have T := transOf_transposeF c' (rotB nR nL) I'.valid I'.fermi hperm
  have hval : (c'.transposeF (rotB nR nL)).validB = true :=
    (ValidP.validB_iff _).mpr (ValidP.transposeF_valid c' _ true ((ValidP.validB_iff c').mp I'.valid)
      I'.fermi hperm)
  have corr := swap_sectors I I' hsa hsb
  have hidx : (c'.transposeF (rotB nR nL)).indices = Z.indices := by
    rw [T.indices]; exact swap_indices I I' hsa hsb
  have hsec : ∀ s, s ∈ (c'.transposeF (rotB nR nL)).sectors ↔ s ∈ Z.sectors := by
    intro s
    rw [T.sectors, List.mem_map]
    constructor
    · rintro ⟨s', hs', rfl⟩
      obtain ⟨L, Rr, hL, hR, rfl, hs⟩ := (corr s').mp hs'
      have := permuted_rotB Rr L
      rw [hR, hL] at this
      rw [this]; exact hs
    · intro hs
      obtain ⟨sa, hA, sb, hB, hal, es⟩ := I.mem_sectors.mp hs
      have hL : (permuted sa (freeAxes a.ndim xa)).length = nL := permuted_length _ _ (by
        intro x hx; rw [Arr.sector_length hsa hA]; exact (mem_freeAxes.mp hx).1)
      have hR : (permuted sb (freeAxes b.ndim xb)).length = nR := permuted_length _ _ (by
        intro x hx; rw [Arr.sector_length hsb hB]; exact (mem_freeAxes.mp hx).1)
      refine ⟨permuted sb (freeAxes b.ndim xb) ++ permuted sa (freeAxes a.ndim xa),
        (corr _).mpr ⟨_, _, hL, hR, rfl, by rw [← es]; exact hs⟩, ?_⟩
      have := permuted_rotB (permuted sb (freeAxes b.ndim xb)) (permuted sa (freeAxes a.ndim xa))
      rw [hR, hL] at this
      rw [this, es]
  refine ⟨c', ec', I'.valid, hval, ⟨by rw [T.sym, q3], I'.fermi.trans I.fermi.symm, q2, q1, hidx, hsec, ?_⟩⟩
  intro s o ho
  by_cases hs : s ∈ (c'.transposeF (rotB nR nL)).sectors
  · have hbox := ho hs
    have hsZ := (hsec s).mp hs
    obtain ⟨sa, hA, sb, hB, hal, es⟩ := I.mem_sectors.mp hsZ
    subst es
    have hL : (permuted sa (freeAxes a.ndim xa)).length = nL := permuted_length _ _ (by
      intro x hx; rw [Arr.sector_length hsa hA]; exact (mem_freeAxes.mp hx).1)
    have hR : (permuted sb (freeAxes b.ndim xb)).length = nR := permuted_length _ _ (by
      intro x hx; rw [Arr.sector_length hsb hB]; exact (mem_freeAxes.mp hx).1)
    obtain ⟨shpA, hA1, hA2, hA3, hA4⟩ := shape_of_mem hsa hA
    obtain ⟨shpB, hB1, hB2, hB3, hB4⟩ := shape_of_mem hsb hB
    have hFA : (permuted (Arr.blockShapeD a.indices sa) (freeAxes a.ndim xa)).length = nL :=
      permuted_length _ _ (by intro x hx; rw [hA2, hA3]; exact (mem_freeAxes.mp hx).1)
    have hFB : (permuted (Arr.blockShapeD b.indices sb) (freeAxes b.ndim xb)).length = nR :=
      permuted_length _ _ (by intro x hx; rw [hB2, hB3]; exact (mem_freeAxes.mp hx).1)
    rw [hidx, Arr.blockShapeD, I.shape hsa hsb hA hB hal] at hbox
    change inBox (permuted (Arr.blockShapeD a.indices sa) (freeAxes a.ndim xa)
      ++ permuted (Arr.blockShapeD b.indices sb) (freeAxes b.ndim xb)) o = true at hbox
    have hol := inBox_length hbox
    rw [List.length_append, hFA, hFB] at hol
    have hsplit : o = o.take nL ++ o.drop nL := (List.take_append_drop _ _).symm
    have htl : (o.take nL).length = nL := by rw [List.length_take]; omega
    have hdl : (o.drop nL).length = nR := by rw [List.length_drop]; omega
    rw [hsplit, inBox_append (by rw [htl, hFA]), Bool.and_eq_true] at hbox
    obtain ⟨bL, bR⟩ := hbox
    -- the swapped address
    have hswap := q5 _ _ (o.take nL) (o.drop nL) hL hR htl hdl (by
      rw [Arr.blockShapeD, I.shapeU hsa hsb hA hB hal]
      change inBox (_ ++ _) _ = true
      rw [inBox_append (by rw [htl, hFA]), bL, bR]; rfl)
    have hs' : permuted sb (freeAxes b.ndim xb) ++ permuted sa (freeAxes a.ndim xa) ∈ c'.sectors :=
      (corr _).mpr ⟨_, _, hL, hR, rfl, hsZ⟩
    have hT := T.elem _ hs' (o.drop nL ++ o.take nL) (by
      rw [Arr.blockShapeD, I'.shape hsb hsa hB hA hal.symm]
      change inBox (_ ++ _) _ = true
      rw [inBox_append (by rw [hdl, hFB]), bR, bL]; rfl)
    have r1 := permuted_rotB (permuted sb (freeAxes b.ndim xb)) (permuted sa (freeAxes a.ndim xa))
    rw [hR, hL] at r1
    have r2 := permuted_rotB (o.drop nL) (o.take nL)
    rw [hdl, htl] at r2
    rw [r1, r2, hswap] at hT
    rw [← hsplit] at hT
    rw [hT]
    -- the two rotation signs cancel
    have k1 := koszul_rot ((permuted sa (freeAxes a.ndim xa)).map a.sym.parity)
      ((permuted sb (freeAxes b.ndim xb)).map a.sym.parity)
    rw [List.length_map, List.length_map, ← List.map_append] at k1
    have k2 := koszul_rot ((permuted sb (freeAxes b.ndim xb)).map a.sym.parity)
      ((permuted sa (freeAxes a.ndim xa)).map a.sym.parity)
    rw [List.length_map, List.length_map, ← List.map_append, hR, hL] at k2
    have hpar : c'.parities (permuted sb (freeAxes b.ndim xb) ++ permuted sa (freeAxes a.ndim xa))
        = (permuted sb (freeAxes b.ndim xb) ++ permuted sa (freeAxes a.ndim xa)).map a.sym.parity := by
      unfold Arr.parities; rw [q3, I.sym]
    have hrot : rotB nR nL = (List.range nL).map (nR + ·) ++ List.range nR := rfl
    rw [hpar, hrot, k2, k1, sgnI_comp (sgn_cases _) (sgn_cases _), ← sgn_add]
    have : sgn ((List.filter id (List.map a.sym.parity (permuted sb (freeAxes b.ndim xb)))).length
        * (List.filter id (List.map a.sym.parity (permuted sa (freeAxes a.ndim xa)))).length
        + (List.filter id (List.map a.sym.parity (permuted sa (freeAxes a.ndim xa)))).length
        * (List.filter id (List.map a.sym.parity (permuted sb (freeAxes b.ndim xb)))).length) = 1 := by
      rw [Nat.mul_comm, ← Nat.two_mul]
      unfold sgn; simp
    rw [this, Lazy.sgnI_one]
  · rw [Arr.elem_of_not_mem hs, Arr.elem_of_not_mem (fun h => hs ((hsec s).mpr h))]

end eqv

end Assoc5P
end SymmModel
