/-
  SymmModel.Proofs.NetNormK1 — network form of the norm (property C10), ket-bra-first bracketings,
  part 1: generic steps for a FULL contraction (scalar result) under the weak guard:
  congruence in the left operand (`scalar_congr`), pre-transposition of the left operand
  (`scalar_pre`, S6 with an explicitly given re-listing of the axes), exchange of the two blocks of axis
  pairs (`scalar_comm`, S4), the rank of a result (`ndim_of_call_w`), and the labels of
  `ā·a`-like calls (`call_nested`).
-/
import SymmModel.Proofs.NetNorm12
import SymmModel.Proofs.Net4Exch

namespace SymmModel.NormNet
open SymmModel SymmModel.Lazy SymmModel.Norm SymmModel.TdotP SymmModel.GradedP SymmModel.RoutesP
open SymmModel.AssocP SymmModel.Assoc3P SymmModel.Assoc4P SymmModel.Assoc5P SymmModel.Net4P
open SymmModel.OddposP (mergeOddpos)
set_option linter.unusedSectionVars false

section gen
variable {R : Type} [AddCommMonoid R] [Mul R] [Neg R] [SignRing R] [AssocLaws R]

/-- the rank of the result of a call under the weak guard -/
theorem ndim_of_call_w {a b Z : Arr R} {xa xb : List Nat} (W : AdmW a b xa xb)
    (e : a.tensordotF b (.pair (xa.map Int.ofNat) (xb.map Int.ofNat)) .blockwise = .ok Z) :
    Z.ndim = (freeAxes a.ndim xa).length + (freeAxes b.ndim xb).length := by
  rw [tensordotF_eq_core_w a b xa xb W] at e
  cases hm : mergeOddpos a.parity a.oddpos b.oddpos with
  | error err => rw [hm] at e; cases e
  | ok r =>
    rw [hm] at e
    simp only [Except.map, Except.ok.injEq] at e
    subst e
    have F := coreT_frame_w a b xa xb W
    obtain ⟨_, _, _, f4, f5, _⟩ := finish_fields (coreT a b xa xb) r
    show (finish (coreT a b xa xb) r).indices.length = _
    rw [f4, F.indices, dropUnused_length, List.length_append, without_eq_permuted_freeAxes,
      without_eq_permuted_freeAxes, permuted_length _ _ (fun x hx => (mem_freeAxes.mp hx).1),
      permuted_length _ _ (fun x hx => (mem_freeAxes.mp hx).1)]
    rfl

/-- a call whose merge of the labels is known: the call, its `Inter`, its labels -/
theorem call_of_merge (a b : Arr R) (xa xb : List Nat) (W : AdmW a b xa xb)
    (out : List (Int × Bool)) (s : Int) (hm : mergeOddpos a.parity a.oddpos b.oddpos = .ok (out, s))
    (hs : s = 1 ∨ s = -1) :
    ∃ Z, a.tensordotF b (.pair (xa.map Int.ofNat) (xb.map Int.ofNat)) .blockwise = .ok Z
      ∧ Inter a b xa xb Z s ∧ Z.oddpos = out := by
  obtain ⟨c, I, o⟩ := inter_of_call_w a b xa xb W (out, s) hm hs
  exact ⟨_, c, I, o⟩

/-- congruence of a full contraction in the left operand -/
theorem scalar_congr {X X' Y r : Arr R} {u v : List Nat} (W : AdmW X Y u v) (hE : Eqv X X')
    (hv' : X'.validB = true)
    (e : X.tensordotF Y (.pair (u.map Int.ofNat) (v.map Int.ofNat)) .blockwise = .ok r)
    (hn : r.ndim = 0) :
    ∃ r', X'.tensordotF Y (.pair (u.map Int.ofNat) (v.map Int.ofNat)) .blockwise = .ok r'
      ∧ r'.ndim = 0 ∧ r'.oddpos = r.oddpos ∧ r'.elem [] [] = r.elem [] [] := by
  obtain ⟨Z', eZ', hZ⟩ := tdotF_congr W hE (Eqv.refl Y) hv' W.vb r e
  have hri : r.indices = [] := List.eq_nil_of_length_eq_zero hn
  exact ⟨Z', eZ', by rw [← hZ.ndim]; exact hn, hZ.oddpos.symm,
    (hZ.elem [] [] (fun _ => by rw [hri]; rfl)).symm⟩

/-- pre-transposition of the left operand of a full contraction (S6): the axes `u'` are any
    re-listing with `permuted p u' = u` -/
theorem scalar_pre {P Y r : Arr R} {u u' v p : List Nat} (W : AdmW P Y u v)
    (hp : p.Perm (List.range P.ndim)) (hu : freeAxes P.ndim u = []) (hv : freeAxes Y.ndim v = [])
    (hn' : u'.Nodup) (hlt' : ∀ i ∈ u', i < P.ndim) (hx : permuted p u' = u)
    (hu' : freeAxes P.ndim u' = [])
    (e : P.tensordotF Y (.pair (u.map Int.ofNat) (v.map Int.ofNat)) .blockwise = .ok r) :
    ∃ c', (P.transposeF p).tensordotF Y (.pair (u'.map Int.ofNat) (v.map Int.ofNat)) .blockwise
          = .ok c'
      ∧ AdmW (P.transposeF p) Y u' v
      ∧ c'.ndim = 0 ∧ c'.oddpos = r.oddpos ∧ c'.elem [] [] = r.elem [] [] := by
  have hisp : Arr.isPerm p P.ndim = true := KoszulP.isPerm_of_perm hp
  have hT : PreT P.ndim p u u' [] :=
    ⟨hp, W.nA, W.ltA, hn', hlt', hx, by rw [hu]; exact List.Perm.refl _, by rw [hu, hu']; rfl⟩
  obtain ⟨c', ec', o1, _, _, _, hel⟩ := tdotF_pretranspose_w P Y r p u u' [] v W hisp hT e
  have W' := admW_pre W hisp hT
  have hnd : (P.transposeF p).ndim = P.ndim := hT.lenT P.indices rfl
  have hc'n : c'.ndim = 0 := by
    rw [ndim_of_call_w W' ec', hnd, hu', hv]; rfl
  refine ⟨c', ec', W', hc'n, o1, ?_⟩
  have e1 : without P.indices u = [] := by
    rw [without_eq_permuted_freeAxes]
    show permuted P.indices (freeAxes P.ndim u) = []
    rw [hu]; rfl
  have e2 : without Y.indices v = [] := by
    rw [without_eq_permuted_freeAxes]
    show permuted Y.indices (freeAxes Y.ndim v) = []
    rw [hv]; rfl
  have := hel [] [] [] [] (by rw [hu]; rfl) (by rw [hu]) (by rw [e1, e2]; rfl)
  simp only [TdotP.permuted_nil, List.map_nil, List.append_nil, koszul_nil, sgnI_one] at this
  exact this

end gen

end SymmModel.NormNet
