/-
  SymmModel.Proofs.Dense3c — dense form of `from_fill_fn` (zeros / constant / any fill function),
  and consequences of `toDense_fromDense_main` about the contents of non-conserving sectors
  (property C16, second part).

  New names live in `SymmModel.Dense3`.
-/
import SymmModel.Proofs.DenseMore
import SymmModel.Proofs.SymLemmas

namespace SymmModel
namespace Dense3
open DenseP

variable {R : Type}

theorem get_zeros [Zero R] (s i : List Nat) : (Blk.zeros s : Blk R).get i = 0 := by
  simp only [Blk.get, Blk.zeros, Blk.ofFn]
  rw [Array.getD_eq_getD_getElem?]
  cases h : (List.map (fun _ => (0 : R)) (allIdx s)).toArray[ravel s i]? with
  | none => rfl
  | some v =>
    simp only [List.getElem?_toArray, List.getElem?_map, Option.map_eq_some_iff] at h
    obtain ⟨_, _, rfl⟩ := h
    rfl

/-- a sector of the tables has one charge per index, each a charge of that index -/
theorem forall₂_of_blockShape? {idx : List Index} {s : Sector} {shp : List Nat}
    (h : Arr.blockShape? idx s = some shp) :
    List.Forall₂ (fun c (ix : Index) => c ∈ ix.charges) s idx := by
  induction idx generalizing s shp with
  | nil =>
    cases s with
    | nil => exact List.Forall₂.nil
    | cons c s => simp [Arr.blockShape?] at h
  | cons ix idx ih =>
    cases s with
    | nil => simp [Arr.blockShape?] at h
    | cons c s =>
      rw [Arr.blockShape?_cons] at h
      cases hd : ix.sizeOf? c with
      | none => simp [hd] at h
      | some d =>
        cases hr : Arr.blockShape? idx s with
        | none => simp [hd, hr] at h
        | some shp' =>
          refine List.Forall₂.cons ?_ (ih hr)
          exact List.mem_map.mpr ⟨(c, d), alookup_eq_some_mem hd, rfl⟩

theorem forall₂_fill_lookup {fill : Sector → List Nat → Blk R} {indices : List Index}
    {secs : List Sector} {blocks : List (Sector × Blk R)}
    (h : List.Forall₂ (fun s (sb : Sector × Blk R) =>
        sb.1 = s ∧ ∃ shp, Arr.blockShape? indices s = some shp ∧ sb.2 = fill s shp) secs blocks) :
    blocks.map (·.1) = secs
    ∧ ∀ sb ∈ blocks, ∃ shp, Arr.blockShape? indices sb.1 = some shp ∧ sb.2 = fill sb.1 shp := by
  induction h with
  | nil => exact ⟨rfl, by simp⟩
  | cons hab _ ih =>
    obtain ⟨h1, shp, h2, h3⟩ := hab
    refine ⟨by simp [h1, ih.1], ?_⟩
    intro sb hsb
    rcases List.mem_cons.mp hsb with rfl | hsb
    · exact ⟨shp, by rw [h1]; exact h2, by rw [h1]; exact h3⟩
    · exact ih.2 sb hsb

/-- **dense form of `from_fill_fn`.**  With valid, distinct index charges and a valid total
    charge: the dense array has the shape of the indices, its entry at a position whose sector
    conserves the charge is the entry of `fill sector shape` at the offsets, and it is zero at
    every other position. -/
theorem fromFillFn_toDense_main [Zero R] [Neg R] (sym : Sym) (fermi : Bool) (indices : List Index)
    (charge : Option Charge) (fill : Sector → List Nat → Blk R) (oddpos : List (Int × Bool))
    (hvc : ∀ ix ∈ indices, ∀ c ∈ ix.charges, sym.valid c = true)
    (hch : sym.valid (charge.getD sym.zero) = true)
    (hnd : ∀ ix ∈ indices, (ix.cm.map (·.1)).Nodup)
    (hne : indices.any (fun ix => ix.cm.isEmpty) = false)
    (b : Arr R) (h : fromFillFn sym fermi indices charge fill oddpos = .ok b) :
    ∃ d, Arr.toDenseA b = .ok d ∧ d.shape = indices.map Index.sizeTotal ∧
      ∀ p, inBox (indices.map Index.sizeTotal) p = true →
        ∃ sec off shp, Arr.locateAll indices p = some (sec, off)
          ∧ Arr.blockShape? indices sec = some shp ∧ inBox shp off = true
          ∧ d.get p = if Arr.sectorCharge sym (indices.map Index.dual) sec = charge.getD sym.zero
                      then (fill sec shp).get off else 0 := by
  obtain ⟨h1, h2, h3, h4, h5, h6, h7, _⟩ :=
    fromFillFn_spec sym fermi indices charge fill oddpos b h
  obtain ⟨hkeys, hfill⟩ := forall₂_fill_lookup h7
  let a0 : Arr R :=
    { sym := sym, fermi := fermi, indices := indices, charge := charge.getD sym.zero,
      blocks := [], phases := [], oddpos := oddpos }
  have hgnd : (b.blocks.map (·.1)).Nodup := by
    rw [hkeys]
    exact Arr.genValidSectors_nodup_aux a0 (fun ix hix => hnd ix hix)
  obtain ⟨d, hd, hs, hg⟩ := Arr.toDenseA_get b (by rw [h3]; exact hne)
  refine ⟨d, hd, by rw [hs, Arr.shape, h3], fun p hp => ?_⟩
  obtain ⟨sec, off, hl, hv⟩ := hg p (by rw [Arr.shape, h3]; exact hp)
  rw [h3] at hl
  obtain ⟨shp, hshp, hbox⟩ := locateAll_blockShape hnd (by simpa using inBox_length hp) hl
  refine ⟨sec, off, shp, hl, hshp, hbox, ?_⟩
  rw [hv, Arr.elem_abelian b h5]
  have hmem : sec ∈ b.blocks.map (·.1) ↔
      Arr.sectorCharge sym (indices.map Index.dual) sec = charge.getD sym.zero := by
    rw [hkeys, Arr.mem_genValidSectors a0 hvc hch sec]
    simp only [a0, Arr.isValidSector, Arr.duals, beq_iff_eq]
    exact ⟨fun h => h.2, fun h => ⟨forall₂_of_blockShape? hshp, h⟩⟩
  cases hb : alookup b.blocks sec with
  | none =>
    have : sec ∉ b.blocks.map (·.1) := alookup_eq_none_iff.mp hb
    rw [if_neg (fun hc => this (hmem.mpr hc))]
  | some blk =>
    have hm := alookup_eq_some_mem hb
    have : sec ∈ b.blocks.map (·.1) := List.mem_map.mpr ⟨_, hm, rfl⟩
    rw [if_pos (hmem.mp this)]
    obtain ⟨shp', hs', hf⟩ := hfill (sec, blk) hm
    simp only at hs' hf
    rw [hshp] at hs'
    injection hs' with hs'
    subst hs'
    show blk.get off = _
    rw [hf]

end Dense3
end SymmModel
