/-
  SymmModel.Proofs.Fuse5Conj1 — `conj` and the fuse plan: conjugation flips every direction
  (recursively through the sub-index tables) and leaves charges, sizes and extents alone, so the
  plan of `conj a` is the plan of `a` with the new indices conjugated.
-/
import SymmModel.Proofs.FuseMultiAll
import SymmModel.Proofs.LinalgLemmas
import SymmModel.Proofs.LazyLemmas
namespace SymmModel
namespace FuseP
set_option linter.unusedSectionVars false
open SymmModel.LinalgLemmas

variable {R : Type}

/-- the index part of `conj` (blocks untouched): what the plan reads -/
def conjIdx (a : Arr R) : Arr R := { a with indices := a.indices.map Index.conj }

theorem conj_dual' (i : Index) : i.conj.dual = !i.dual := by
  obtain ⟨c, d, s⟩ := i
  cases s with
  | none => rfl
  | some p => rfl

theorem conj_sizeOf (i : Index) (c : Charge) : i.conj.sizeOf? c = i.sizeOf? c := by
  simp only [Index.sizeOf?, conj_cm]

theorem conjIdx_duals (a : Arr R) : (conjIdx a).duals = a.duals.map (fun d => !d) := by
  simp [conjIdx, Arr.duals, List.map_map, Function.comp, conj_dual']

theorem conjIdx_ndim (a : Arr R) : (conjIdx a).ndim = a.ndim := by simp [conjIdx, Arr.ndim]

theorem getD_map_conj (l : List Index) {x : Nat} (h : x < l.length) :
    (l.map Index.conj).getD x default = (l.getD x default).conj := by
  simp [List.getD_eq_getElem?_getD, List.getElem?_map, List.getElem?_eq_getElem h]

theorem permuted_map {α β : Type} (f : α → β) (l : List α) (axes : List Nat) :
    permuted (l.map f) axes = (permuted l axes).map f := by
  induction axes with
  | nil => rfl
  | cons p ps ih =>
    simp only [permuted, List.filterMap_cons, List.getElem?_map] at ih ⊢
    cases l[p]? with
    | none => simpa using ih
    | some x => simpa using ih

section Plan
variable {a : Arr R} {groups : List (List Nat)}

/-- the group plan of `conj a`: same axes, group directions flipped -/
theorem gi_conj (hok : GroupsOk groups a.ndim) :
    (giM (conjIdx a) groups).position = (giM a groups).position
    ∧ (giM (conjIdx a) groups).perm = (giM a groups).perm
    ∧ (giM (conjIdx a) groups).axesBefore = (giM a groups).axesBefore
    ∧ (giM (conjIdx a) groups).axesAfter = (giM a groups).axesAfter
    ∧ ∀ g, g < groups.length →
        (giM (conjIdx a) groups).groupDuals.getD g false = !((giM a groups).groupDuals.getD g false) := by
  have hl : (conjIdx a).duals.length = a.duals.length := by rw [conjIdx_duals]; simp
  refine ⟨?_, ?_, ?_, ?_, ?_⟩
  · simp only [calcFuseGroupInfo]
  · simp only [calcFuseGroupInfo, hl]
  · simp only [calcFuseGroupInfo]
  · simp only [calcFuseGroupInfo, hl]
  · intro g hg
    have hgg : groups[g]? = some groups[g] := List.getElem?_eq_getElem hg
    rw [groupDuals_getD _ _ _ _ hgg, groupDuals_getD _ _ _ _ hgg, conjIdx_duals]
    have hne := hok.gne _ (List.getElem_mem hg)
    have hlt : (groups[g]).headD 0 < a.duals.length := by
      rw [duals_length]
      apply hok.lt
      refine List.mem_flatten.2 ⟨groups[g], List.getElem_mem hg, ?_⟩
      cases hgx : groups[g] with
      | nil => exact absurd hgx hne
      | cons x xs => simp
    simp only [List.getD_eq_getElem?_getD, List.getElem?_map, List.getElem?_eq_getElem hlt, Option.map_some,
      Option.getD_some]

/-- the per-sector plan does not see the conjugation -/
theorem planOf_conj (hok : GroupsOk groups a.ndim) (s : Sector) (shp : List Nat) :
    planOf a.sym (a.indices.map Index.conj) groups (giM (conjIdx a) groups) s shp
      = planOf a.sym a.indices groups (giM a groups) s shp := by
  obtain ⟨_, _, hb, haf, hgd⟩ := gi_conj (a := a) hok
  simp only [planOf, hb, haf]
  have hmid : groups.zipIdx.map (midOf a.sym (a.indices.map Index.conj) s shp (giM (conjIdx a) groups))
      = groups.zipIdx.map (midOf a.sym a.indices s shp (giM a groups)) := by
    apply List.map_congr_left
    intro q hq
    obtain ⟨gaxes, g⟩ := q
    have hm := List.mem_zipIdx hq
    simp only [Nat.zero_add, Nat.sub_zero] at hm
    have hgin : gaxes ∈ groups := by rw [hm.2.2]; exact List.getElem_mem _
    simp only [midOf, fusedCharge]
    split
    · rfl
    · congr 2
      apply List.map_congr_left
      intro ax hax
      have hlt : ax < a.indices.length := hok.lt ax (List.mem_flatten.2 ⟨gaxes, hgin, hax⟩)
      rw [hgd g hm.2.1, getD_map_conj _ hlt, conj_dual']
      cases (giM a groups).groupDuals.getD g false <;> cases (a.indices.getD ax default).dual <;> rfl
  rw [hmid]

theorem blockmapOf_conj (hok : GroupsOk groups a.ndim) : blockmapOf (conjIdx a) groups = blockmapOf a groups := by
  simp only [blockmapOf]
  apply List.map_congr_left
  intro sb _
  exact congrArg (Prod.mk sb.1) (planOf_conj hok sb.1 sb.2.shape)

theorem fusedIndexOf_conj (entries : List (Sector × Charge × Nat)) (gdual : Bool) (subs : List Index) :
    fusedIndexOf entries (!gdual) (subs.map Index.conj) = (fusedIndexOf entries gdual subs).conj := by
  simp only [fusedIndexOf, Index.conj, conjList_eq_map]

/-- **the new indices of `conj a` are the conjugated new indices of `a`** (tables unchanged, every
    direction flipped, recursively) -/
theorem newIdxM_conj (hok : GroupsOk groups a.ndim) :
    newIdxM (conjIdx a) groups = (newIdxM a groups).map Index.conj := by
  obtain ⟨hpos, _, hb, haf, hgd⟩ := gi_conj (a := a) hok
  simp only [newIdxM, fuseInfoOf, List.map_append]
  have hci : (conjIdx a).indices = a.indices.map Index.conj := rfl
  rw [hci, hb, haf, permuted_map, permuted_map]
  congr 2
  simp only [newMidOf, List.map_map]
  apply List.map_congr_left
  intro q hq
  obtain ⟨gaxes, g⟩ := q
  have hm := List.mem_zipIdx hq
  simp only [Nat.zero_add, Nat.sub_zero] at hm
  have hgin : gaxes ∈ groups := by rw [hm.2.2]; exact List.getElem_mem _
  simp only [Function.comp]
  split
  · have hne := hok.gne _ hgin
    have hlt : gaxes.headD 0 < a.indices.length := by
      apply hok.lt
      refine List.mem_flatten.2 ⟨gaxes, hgin, ?_⟩
      cases hgx : gaxes with
      | nil => exact absurd hgx hne
      | cons x xs => simp
    rw [hci, getD_map_conj _ hlt]
  · rw [blockmapOf_conj hok, hpos, hgd g hm.2.1, ← fusedIndexOf_conj]
    congr 1
    rw [hci, List.map_map]
    apply List.map_congr_left
    intro ax hax
    exact getD_map_conj _ (hok.lt ax (List.mem_flatten.2 ⟨gaxes, hgin, hax⟩))

end Plan

end FuseP
end SymmModel
