/-
  SymmModel.Proofs.FusePlan — layer L4 for property C05: the fuse plan.
  `calcFuseGroupInfo` (permutation, position, new rank), `planSector` (explicit value `planOf`
  under validity), `calcFuseBlockInfo` (explicit value) and the well-formedness / canonical
  order of the produced sub-index table.
-/
import SymmModel.Proofs.FuseTable
import SymmModel.Proofs.SymLemmas
namespace SymmModel
namespace FuseP
set_option linter.unusedSectionVars false

/-! ### small monad / list helpers -/

theorem mapM_ok_of_forall {ε α β : Type} (f : α → Except ε β) (g : α → β) (l : List α)
    (h : ∀ a ∈ l, f a = .ok (g a)) : l.mapM f = .ok (l.map g) := by
  induction l with
  | nil => rfl
  | cons a l ih =>
    rw [List.mapM_cons, h a (by simp), ih (fun x hx => h x (List.mem_cons_of_mem _ hx))]
    rfl

theorem optMapM_id_some {α : Type} (l : List (Option α)) (r : List α) :
    l.mapM id = some r ↔ l = r.map some := by
  induction l generalizing r with
  | nil =>
    cases r with
    | nil => simp
    | cons x xs => simp
  | cons a l ih =>
    rw [List.mapM_cons]
    cases a with
    | none => cases r <;> simp
    | some x =>
      cases r with
      | nil =>
        simp only [id, List.map_nil, reduceCtorEq, iff_false]
        cases h : l.mapM id <;> simp
      | cons y ys =>
        simp only [id, List.map_cons, List.cons.injEq, Option.some.injEq]
        cases h : l.mapM id with
        | none =>
          simp only [Option.bind_eq_bind, Option.bind_some, Option.bind_none, reduceCtorEq, false_iff,
            not_and]
          intro _ hl
          rw [(ih ys).2 hl] at h; cases h
        | some r' =>
          simp only [Option.bind_eq_bind, Option.bind_some, Option.pure_def, Option.some.injEq,
            List.cons.injEq]
          rw [← ih ys, h]
          simp

theorem permuted_eq_map {α : Type} (l : List α) (d : α) (axes : List Nat)
    (h : ∀ p ∈ axes, p < l.length) : permuted l axes = axes.map (fun p => l.getD p d) := by
  induction axes with
  | nil => rfl
  | cons p ps ih =>
    have hp := h p (by simp)
    simp only [permuted, List.filterMap_cons, List.map_cons]
    rw [List.getElem?_eq_getElem hp]
    simp only [List.getD_eq_getElem?_getD, List.getElem?_eq_getElem hp, Option.getD_some,
      List.cons.injEq, true_and]
    exact ih (fun x hx => h x (List.mem_cons_of_mem _ hx))

theorem permuted_length {α : Type} (l : List α) (axes : List Nat)
    (h : ∀ p ∈ axes, p < l.length) : (permuted l axes).length = axes.length := by
  induction axes with
  | nil => rfl
  | cons p ps ih =>
    have hp := h p (by simp)
    simp only [permuted, List.filterMap_cons, List.getElem?_eq_getElem hp, List.length_cons]
    exact congrArg (· + 1) (ih (fun x hx => h x (List.mem_cons_of_mem _ hx)))

theorem permuted_append {α : Type} (l : List α) (a b : List Nat) :
    permuted l (a ++ b) = permuted l a ++ permuted l b := by
  simp [permuted, List.filterMap_append]

/-! ### target 1: the group plan -/

/-- the guard of `fuse`: at least one group, every group non-empty, axes in range and pairwise
    distinct across all groups -/
def groupsOkB (groups : List (List Nat)) (ndim : Nat) : Bool :=
  !groups.isEmpty && groups.all (fun g => !g.isEmpty)
    && groups.flatten.all (fun ax => decide (ax < ndim)) && allDistinct groups.flatten

structure GroupsOk (groups : List (List Nat)) (ndim : Nat) : Prop where
  ne : groups ≠ []
  gne : ∀ g ∈ groups, g ≠ []
  lt : ∀ ax ∈ groups.flatten, ax < ndim
  nodup : groups.flatten.Nodup

theorem groupsOk_iff {groups : List (List Nat)} {ndim : Nat} :
    groupsOkB groups ndim = true ↔ GroupsOk groups ndim := by
  simp only [groupsOkB, Bool.and_eq_true, Bool.not_eq_true', List.isEmpty_eq_false_iff, List.all_eq_true,
    decide_eq_true_eq, allDistinct_iff]
  constructor
  · rintro ⟨⟨⟨h1, h2⟩, h3⟩, h4⟩; exact ⟨h1, h2, h3, h4⟩
  · rintro ⟨h1, h2, h3, h4⟩; exact ⟨⟨⟨h1, h2⟩, h3⟩, h4⟩

theorem GroupsOk.flatten_ne {groups : List (List Nat)} {n : Nat} (h : GroupsOk groups n) :
    groups.flatten ≠ [] := by
  cases groups with
  | nil => exact absurd rfl h.ne
  | cons g gs =>
    have := h.gne g (by simp)
    cases g with
    | nil => exact absurd rfl this
    | cons x xs => simp

theorem foldl_min_spec (l : List Nat) (a : Nat) :
    (l.foldl min a = a ∨ l.foldl min a ∈ l) ∧ l.foldl min a ≤ a ∧ ∀ x ∈ l, l.foldl min a ≤ x := by
  induction l generalizing a with
  | nil => simp
  | cons y ys ih =>
    simp only [List.foldl_cons]
    obtain ⟨h1, h2, h3⟩ := ih (min a y)
    refine ⟨?_, by omega, ?_⟩
    · rcases h1 with h1 | h1
      · rw [h1]
        rcases Nat.le_total a y with h | h
        · left; omega
        · right; simp; left; omega
      · right; simp [h1]
    · intro x hx
      rcases List.mem_cons.1 hx with rfl | hx
      · omega
      · exact h3 x hx

/-- `position` is the minimum grouped axis -/
theorem position_spec {groups : List (List Nat)} {duals : List Bool}
    (h : GroupsOk groups duals.length) :
    (calcFuseGroupInfo groups duals).position ∈ groups.flatten
      ∧ ∀ ax ∈ groups.flatten, (calcFuseGroupInfo groups duals).position ≤ ax := by
  simp only [calcFuseGroupInfo]
  have hne := h.flatten_ne
  cases hg : groups.flatten with
  | nil => exact absurd hg hne
  | cons x xs =>
    simp only [List.headD_cons]
    obtain ⟨h1, _, h3⟩ := foldl_min_spec (x :: xs) x
    refine ⟨?_, h3⟩
    rcases h1 with h1 | h1
    · rw [h1]; simp
    · exact h1

theorem position_lt {groups : List (List Nat)} {duals : List Bool}
    (h : GroupsOk groups duals.length) : (calcFuseGroupInfo groups duals).position < duals.length :=
  h.lt _ (position_spec h).1

/-- nothing in front of the first grouped axis is grouped: `axesBefore = [0, …, position)` -/
theorem axesBefore_eq {groups : List (List Nat)} {duals : List Bool}
    (h : GroupsOk groups duals.length) :
    (calcFuseGroupInfo groups duals).axesBefore = List.range (calcFuseGroupInfo groups duals).position := by
  have hp := (position_spec h).2
  simp only [calcFuseGroupInfo] at hp ⊢
  rw [List.filter_eq_self]
  intro a ha
  simp only [List.mem_range] at ha
  simp only [Bool.not_eq_true', List.contains_eq_mem, decide_eq_false_iff_not]
  intro hm
  have := hp a hm
  omega

theorem mem_axesAfter {groups : List (List Nat)} {duals : List Bool} {ax : Nat} :
    ax ∈ (calcFuseGroupInfo groups duals).axesAfter ↔
      ax < duals.length ∧ (calcFuseGroupInfo groups duals).position ≤ ax ∧ ax ∉ groups.flatten := by
  simp only [calcFuseGroupInfo, List.mem_filter, List.mem_range, decide_eq_true_eq, Bool.not_eq_true',
    List.contains_eq_mem, decide_eq_false_iff_not]
  constructor
  · rintro ⟨⟨h1, h2⟩, h3⟩; exact ⟨h1, h2, h3⟩
  · rintro ⟨h1, h2, h3⟩; exact ⟨⟨h1, h2⟩, h3⟩

theorem perm_eq (groups : List (List Nat)) (duals : List Bool) :
    (calcFuseGroupInfo groups duals).perm =
      (calcFuseGroupInfo groups duals).axesBefore ++ groups.flatten
        ++ (calcFuseGroupInfo groups duals).axesAfter := rfl

theorem mem_perm {groups : List (List Nat)} {duals : List Bool} (h : GroupsOk groups duals.length)
    {ax : Nat} : ax ∈ (calcFuseGroupInfo groups duals).perm ↔ ax < duals.length := by
  rw [perm_eq, axesBefore_eq h]
  simp only [List.mem_append, List.mem_range, mem_axesAfter]
  have hp := position_lt h
  constructor
  · rintro ((h1 | h1) | h1)
    · omega
    · exact h.lt _ h1
    · exact h1.1
  · intro hlt
    by_cases hg : ax ∈ groups.flatten
    · exact Or.inl (Or.inr hg)
    · by_cases hb : ax < (calcFuseGroupInfo groups duals).position
      · exact Or.inl (Or.inl hb)
      · exact Or.inr ⟨hlt, by omega, hg⟩

theorem perm_nodup {groups : List (List Nat)} {duals : List Bool} (h : GroupsOk groups duals.length) :
    (calcFuseGroupInfo groups duals).perm.Nodup := by
  rw [perm_eq, axesBefore_eq h]
  have hp := (position_spec h).2
  rw [List.nodup_append, List.nodup_append]
  refine ⟨⟨List.nodup_range, h.nodup, ?_⟩, ?_, ?_⟩
  · intro a ha b hb hab
    subst hab
    have := hp a hb
    simp only [List.mem_range] at ha; omega
  · simp only [calcFuseGroupInfo]
    exact (List.nodup_range.sublist List.filter_sublist).sublist List.filter_sublist
  · intro a ha b hb hab
    subst hab
    rw [mem_axesAfter] at hb
    rcases List.mem_append.1 ha with ha | ha
    · simp only [List.mem_range] at ha; omega
    · exact hb.2.2 ha

/-- `gi.perm` is a permutation of `0 … ndim-1` -/
theorem calcFuseGroupInfo_perm {groups : List (List Nat)} {duals : List Bool}
    (h : GroupsOk groups duals.length) :
    (calcFuseGroupInfo groups duals).perm.Perm (List.range duals.length) := by
  rw [List.perm_ext_iff_of_nodup (perm_nodup h) List.nodup_range]
  intro a; rw [mem_perm h]; simp

theorem perm_length {groups : List (List Nat)} {duals : List Bool} (h : GroupsOk groups duals.length) :
    (calcFuseGroupInfo groups duals).perm.length = duals.length := by
  simpa using (calcFuseGroupInfo_perm h).length_eq

theorem perm_isPerm {groups : List (List Nat)} {duals : List Bool} (h : GroupsOk groups duals.length) :
    Arr.isPerm (calcFuseGroupInfo groups duals).perm duals.length = true := by
  simp only [Arr.isPerm, Bool.and_eq_true, beq_iff_eq, List.all_eq_true, List.mem_range,
    List.contains_eq_mem, decide_eq_true_eq]
  exact ⟨perm_length h, fun i hi => (mem_perm h).2 hi⟩

/-- the new rank: every group of `k` axes is replaced by one axis -/
theorem newNdim_spec {groups : List (List Nat)} {duals : List Bool} (h : GroupsOk groups duals.length) :
    (calcFuseGroupInfo groups duals).newNdim + groups.flatten.length = duals.length + groups.length := by
  have hl := perm_length h
  rw [perm_eq] at hl
  simp only [List.length_append] at hl
  have : (calcFuseGroupInfo groups duals).newNdim =
      (calcFuseGroupInfo groups duals).axesBefore.length + groups.length
        + (calcFuseGroupInfo groups duals).axesAfter.length := rfl
  omega

theorem axesBefore_length {groups : List (List Nat)} {duals : List Bool}
    (h : GroupsOk groups duals.length) :
    (calcFuseGroupInfo groups duals).axesBefore.length = (calcFuseGroupInfo groups duals).position := by
  rw [axesBefore_eq h]; simp

theorem numGroups_eq (groups : List (List Nat)) (duals : List Bool) :
    (calcFuseGroupInfo groups duals).numGroups = groups.length := rfl

theorem groupDuals_getD (groups : List (List Nat)) (duals : List Bool) (g : Nat) (gaxes : List Nat)
    (h : groups[g]? = some gaxes) :
    (calcFuseGroupInfo groups duals).groupDuals.getD g false = duals.getD (gaxes.headD 0) false := by
  simp [calcFuseGroupInfo, List.getD_eq_getElem?_getD, List.getElem?_map, h]

/-! ### target 2: the per-sector plan -/

/-- what `cd ax` returns for a sector whose block shape is `shp` -/
def cdv (indices : List Index) (sector : Sector) (shp : List Nat) (ax : Nat) : Charge × Nat × Bool :=
  (sector.getD ax (0, 0), shp.getD ax 0, (indices.getD ax default).dual)

/-- signed combination of the charges a sector has on the axes `gaxes`, relative to direction
    `gdual` -/
def fusedCharge (sym : Sym) (indices : List Index) (sector : Sector) (gdual : Bool)
    (gaxes : List Nat) : Charge :=
  sym.combine (gaxes.map (fun ax =>
    sym.sign (sector.getD ax (0, 0)) (gdual != (indices.getD ax default).dual)))

/-- entry of the plan for group number `g` with axes `gaxes`: (new charge, new size, sub-sector) -/
def midOf (sym : Sym) (indices : List Index) (sector : Sector) (shp : List Nat) (gi : FuseGroupInfo)
    (p : List Nat × Nat) : Charge × Nat × Sector :=
  if p.1.length == 1 then
    (sector.getD (p.1.headD 0) (0, 0), shp.getD (p.1.headD 0) 0, [sector.getD (p.1.headD 0) (0, 0)])
  else
    (fusedCharge sym indices sector (gi.groupDuals.getD p.2 false) p.1,
     prod (p.1.map (fun ax => shp.getD ax 0)), p.1.map (fun ax => sector.getD ax (0, 0)))

/-- the value of `planSector` on a sector with block shape `shp` -/
def planOf (sym : Sym) (indices : List Index) (groups : List (List Nat)) (gi : FuseGroupInfo)
    (sector : Sector) (shp : List Nat) : BlockPlan :=
  let mids := groups.zipIdx.map (midOf sym indices sector shp gi)
  { newShape := gi.axesBefore.map (fun ax => shp.getD ax 0) ++ mids.map (·.2.1)
      ++ gi.axesAfter.map (fun ax => shp.getD ax 0),
    newSector := gi.axesBefore.map (fun ax => sector.getD ax (0, 0)) ++ mids.map (·.1)
      ++ gi.axesAfter.map (fun ax => sector.getD ax (0, 0)),
    subsectors := mids.map (·.2.2) }

theorem blockShape?_some_iff {indices : List Index} {sector : Sector} {shp : List Nat} :
    Arr.blockShape? indices sector = some shp ↔
      indices.length = sector.length ∧
      List.zipWith (fun (ix : Index) c => ix.sizeOf? c) indices sector = shp.map some := by
  simp only [Arr.blockShape?]
  split
  · rename_i h
    simp only [bne_iff_ne, ne_eq] at h
    simp [h]
  · rename_i h
    simp only [bne_iff_ne, ne_eq, Decidable.not_not] at h
    simp [h, optMapM_id_some]

theorem blockShape?_length {indices : List Index} {sector : Sector} {shp : List Nat}
    (h : Arr.blockShape? indices sector = some shp) :
    indices.length = sector.length ∧ shp.length = sector.length := by
  rw [blockShape?_some_iff] at h
  refine ⟨h.1, ?_⟩
  have := congrArg List.length h.2
  simp only [List.length_zipWith, List.length_map, h.1, Nat.min_self] at this
  exact this.symm

theorem blockShape?_get {indices : List Index} {sector : Sector} {shp : List Nat}
    (h : Arr.blockShape? indices sector = some shp) {ax : Nat} (hax : ax < indices.length) :
    ∃ ix c, indices[ax]? = some ix ∧ sector[ax]? = some c ∧ ix.sizeOf? c = some (shp.getD ax 0)
      ∧ indices.getD ax default = ix ∧ sector.getD ax (0, 0) = c := by
  have hl := blockShape?_length h
  rw [blockShape?_some_iff] at h
  have h1 : ax < sector.length := by omega
  have h2 : ax < shp.length := by omega
  refine ⟨indices[ax], sector[ax], List.getElem?_eq_getElem hax, List.getElem?_eq_getElem h1, ?_,
    by simp [List.getD_eq_getElem?_getD, List.getElem?_eq_getElem hax],
    by simp [List.getD_eq_getElem?_getD, List.getElem?_eq_getElem h1]⟩
  have := congrArg (fun l => l[ax]?) h.2
  simp only [List.getElem?_zipWith, List.getElem?_eq_getElem hax, List.getElem?_eq_getElem h1,
    List.getElem?_map, List.getElem?_eq_getElem h2, Option.map_some] at this
  simp only [Option.some.injEq] at this
  simp [List.getD_eq_getElem?_getD, List.getElem?_eq_getElem h2, this]

/-- `planSector` succeeds on every sector that has a block shape, with the explicit value -/
theorem planSector_eq (sym : Sym) {indices : List Index} {groups : List (List Nat)}
    {gi : FuseGroupInfo} {sector : Sector} {shp : List Nat}
    (hshp : Arr.blockShape? indices sector = some shp)
    (hb : ∀ ax ∈ gi.axesBefore, ax < indices.length) (ha : ∀ ax ∈ gi.axesAfter, ax < indices.length)
    (hg : ∀ ax ∈ groups.flatten, ax < indices.length) :
    planSector sym indices groups gi sector = .ok (planOf sym indices groups gi sector shp) := by
  have hcd : ∀ ax, ax < indices.length → ∃ ix c, indices[ax]? = some ix ∧ sector[ax]? = some c
      ∧ ix.sizeOf? c = some (shp.getD ax 0) ∧ (c, shp.getD ax 0, ix.dual) = cdv indices sector shp ax := by
    intro ax hax
    obtain ⟨ix, c, h1, h2, h3, h4, h5⟩ := blockShape?_get hshp hax
    exact ⟨ix, c, h1, h2, h3, by unfold cdv; rw [h4, h5]⟩
  unfold planSector
  simp only []
  rw [mapM_ok_of_forall _ (cdv indices sector shp) gi.axesBefore]
  rw [mapM_ok_of_forall _ (cdv indices sector shp) gi.axesAfter]
  rw [mapM_ok_of_forall _ (midOf sym indices sector shp gi) groups.zipIdx]
  · simp only [bind, Except.bind, pure, Except.pure, planOf, List.map_map]
    rfl
  · intro p hp
    obtain ⟨gaxes, g⟩ := p
    have hmem := List.mem_zipIdx hp
    have hgin : gaxes ∈ groups := by
      have := hmem.2.2; simp at this; rw [this]; exact List.getElem_mem _
    have hax : ∀ ax ∈ gaxes, ax < indices.length :=
      fun ax hax => hg ax (List.mem_flatten.2 ⟨gaxes, hgin, hax⟩)
    simp only []
    rw [mapM_ok_of_forall _ (cdv indices sector shp) gaxes]
    · simp only [bind, Except.bind, midOf]
      split
      · rename_i hlen
        simp only [beq_iff_eq] at hlen
        match gaxes, hlen with
        | [ax], _ => simp [cdv]; rfl
      · simp only [fusedCharge, List.map_map]; rfl
    · intro ax h
      obtain ⟨ix, c, h1, h2, h3, h4⟩ := hcd ax (hax ax h)
      simp only [h1, h2, h3, ← h4]; rfl
  · intro ax h
    obtain ⟨ix, c, h1, h2, h3, h4⟩ := hcd ax (ha ax h)
    simp only [h1, h2, h3, ← h4]; rfl
  · intro ax h
    obtain ⟨ix, c, h1, h2, h3, h4⟩ := hcd ax (hb ax h)
    simp only [h1, h2, h3, ← h4]; rfl

/-! ### validity unpacked -/

variable {R : Type}

theorem wfListB_iff {sym : Sym} {l : List Index} :
    Index.wfListB sym l = true ↔ ∀ ix ∈ l, Index.wfB sym ix = true := by
  induction l with
  | nil => simp [Index.wfListB]
  | cons i l ih => rw [Index.wfListB.eq_def]; simp [ih]

structure ValidArr (a : Arr R) : Prop where
  idx : ∀ ix ∈ a.indices, Index.wfB a.sym ix = true
  nodup : (a.blocks.map (·.1)).Nodup
  blk : ∀ sb ∈ a.blocks, sb.1.length = a.ndim ∧ Arr.blockShape? a.indices sb.1 = some sb.2.shape
          ∧ sb.2.wf = true

theorem validArr_of_validB {a : Arr R} (h : a.validB = true) : ValidArr a := by
  simp only [Arr.validB, Bool.and_eq_true, List.all_eq_true, beq_iff_eq] at h
  obtain ⟨⟨⟨⟨h1, _⟩, h3⟩, h4⟩, _⟩ := h
  refine ⟨wfListB_iff.1 h1, (allDistinct_iff _).1 h3, ?_⟩
  intro sb hsb
  obtain ⟨s, b⟩ := sb
  have := h4 (s, b) hsb
  exact ⟨this.1.1.1, this.1.2, this.2⟩

/-! ### `calcFuseBlockInfo`, explicitly -/

def blockmapOf (a : Arr R) (groups : List (List Nat)) : List (Sector × BlockPlan) :=
  a.blocks.map (fun sb =>
    (sb.1, planOf a.sym a.indices groups (calcFuseGroupInfo groups a.duals) sb.1 sb.2.shape))

/-- the `(sub-sector, (fused charge, fused size))` pairs collected for group `g` -/
def tableEntries (blockmap : List (Sector × BlockPlan)) (pos g : Nat) : List (Sector × Charge × Nat) :=
  blockmap.map (fun sp => (sp.2.subsectors.getD g [],
    (sp.2.newSector.getD (pos + g) (0, 0), sp.2.newShape.getD (pos + g) 0)))

/-- the fused index built from such pairs: sort by sub-sector, accumulate, sort the chargemap -/
def fusedIndexOf (entries : List (Sector × Charge × Nat)) (gdual : Bool) (subs : List Index) : Index :=
  Index.mk
    (Index.sortCm (accumExtents (isort (fun x y => sectorLt x.1 y.1) (adict entries))).1) gdual
    (some (subs, (accumExtents (isort (fun x y => sectorLt x.1 y.1) (adict entries))).2))

def newMidOf (a : Arr R) (groups : List (List Nat)) : List Index :=
  groups.zipIdx.map (fun p =>
    if p.1.length == 1 then a.indices.getD (p.1.headD 0) default
    else fusedIndexOf (tableEntries (blockmapOf a groups) (calcFuseGroupInfo groups a.duals).position p.2)
      ((calcFuseGroupInfo groups a.duals).groupDuals.getD p.2 false)
      (p.1.map (fun ax => a.indices.getD ax default)))

def fuseInfoOf (a : Arr R) (groups : List (List Nat)) : FuseInfo :=
  { gi := calcFuseGroupInfo groups a.duals,
    newIndices := permuted a.indices (calcFuseGroupInfo groups a.duals).axesBefore ++ newMidOf a groups
      ++ permuted a.indices (calcFuseGroupInfo groups a.duals).axesAfter,
    blockmap := blockmapOf a groups }

theorem duals_length (a : Arr R) : a.duals.length = a.ndim := by simp [Arr.duals, Arr.ndim]

theorem calcFuseBlockInfo_eq {a : Arr R} {groups : List (List Nat)} (hv : ValidArr a)
    (hg : GroupsOk groups a.ndim) : calcFuseBlockInfo a groups = .ok (fuseInfoOf a groups) := by
  have hg' : GroupsOk groups a.duals.length := by rw [duals_length]; exact hg
  unfold calcFuseBlockInfo
  simp only []
  rw [mapM_ok_of_forall _ (fun sb =>
    (sb.1, planOf a.sym a.indices groups (calcFuseGroupInfo groups a.duals) sb.1 sb.2.shape)) a.blocks]
  · rfl
  · intro sb hsb
    obtain ⟨s, b⟩ := sb
    simp only []
    rw [planSector_eq a.sym (hv.blk (s, b) hsb).2.1]
    · rfl
    · intro ax hax
      rw [axesBefore_eq hg'] at hax
      have := position_lt hg'
      simp only [List.mem_range] at hax
      rw [duals_length] at this; exact Nat.lt_trans hax this
    · intro ax hax
      have := (mem_axesAfter.1 hax).1
      rwa [duals_length] at this
    · exact hg.lt

end FuseP
end SymmModel
