/-
  SymmModel.Proofs.FuseFermi2 — fermionic fuse: after the transposition the groups are consecutive
  runs of axes in order, so the permutation of the inner `_fuse_core` is the identity.
-/
import SymmModel.Proofs.FuseFermi1
import Mathlib.Data.List.Sort
namespace SymmModel
namespace FuseP
set_option linter.unusedSectionVars false

variable {R : Type}

theorem indexOf?_perm_flatten {groups : List (List Nat)} {duals : List Bool} (hok : GroupsOk groups duals.length)
    {t : Nat} (ht : t < groups.flatten.length) :
    indexOf? (calcFuseGroupInfo groups duals).perm groups.flatten[t]
      = some ((calcFuseGroupInfo groups duals).position + t) := by
  have hnd := perm_nodup hok
  have hlen : (calcFuseGroupInfo groups duals).position + t < (calcFuseGroupInfo groups duals).perm.length := by
    rw [perm_eq, axesBefore_eq hok]; simp only [List.length_append, List.length_range]; omega
  have hget : (calcFuseGroupInfo groups duals).perm[(calcFuseGroupInfo groups duals).position + t]
      = groups.flatten[t] := by
    have h1 : (calcFuseGroupInfo groups duals).perm[(calcFuseGroupInfo groups duals).position + t]?
        = some groups.flatten[t] := by
      rw [perm_eq, axesBefore_eq hok, List.append_assoc, List.getElem?_append_right (by simp),
        List.getElem?_append_left (by simpa using ht)]
      simp [List.getElem?_eq_getElem ht]
    rw [List.getElem?_eq_getElem hlen] at h1
    simpa using h1
  rw [← hget]
  exact indexOf?_getElem_nodup hnd hlen

theorem newGroupsF_flatten {groups : List (List Nat)} {duals : List Bool} (hok : GroupsOk groups duals.length) :
    (newGroupsF groups duals).flatten
      = (List.range groups.flatten.length).map (fun t => (calcFuseGroupInfo groups duals).position + t) := by
  have h1 : (newGroupsF groups duals).flatten
      = groups.flatten.map (fun ax => (indexOf? (calcFuseGroupInfo groups duals).perm ax).getD 0) := by
    simp only [newGroupsF, List.map_flatten]
  rw [h1]
  apply List.ext_getElem (by simp only [List.length_map, List.length_range])
  intro t h1 h2
  simp only [List.length_map] at h1
  simp only [List.getElem_map, List.getElem_range, indexOf?_perm_flatten hok h1, Option.getD_some]

theorem flatten_le {groups : List (List Nat)} {duals : List Bool} (hok : GroupsOk groups duals.length) :
    (calcFuseGroupInfo groups duals).position + groups.flatten.length
      + (calcFuseGroupInfo groups duals).axesAfter.length = duals.length := by
  have := perm_length hok
  rw [perm_eq, axesBefore_eq hok] at this
  simp only [List.length_append, List.length_range] at this
  exact this

theorem newGroupsF_ok {groups : List (List Nat)} {duals : List Bool} (hok : GroupsOk groups duals.length) :
    GroupsOk (newGroupsF groups duals) duals.length := by
  refine ⟨?_, ?_, ?_, ?_⟩
  · intro h; exact hok.ne (by simpa [newGroupsF] using h)
  · intro g hg
    simp only [newGroupsF, List.mem_map] at hg
    obtain ⟨g0, hg0, rfl⟩ := hg
    intro h; exact hok.gne g0 hg0 (by simpa using h)
  · intro ax hax
    rw [newGroupsF_flatten hok] at hax
    simp only [List.mem_map, List.mem_range] at hax
    obtain ⟨t, ht, rfl⟩ := hax
    have := flatten_le hok; omega
  · rw [newGroupsF_flatten hok]
    apply List.Nodup.map_on _ List.nodup_range
    intro x _ y _ h; omega

theorem newGroupsF_length (groups : List (List Nat)) (duals : List Bool) :
    (newGroupsF groups duals).length = groups.length := by simp [newGroupsF]

theorem newGroupsF_getElem? (groups : List (List Nat)) (duals : List Bool) (g : Nat) :
    (newGroupsF groups duals)[g]?
      = groups[g]?.map (fun gx => gx.map (fun ax => (indexOf? (calcFuseGroupInfo groups duals).perm ax).getD 0)) := by
  simp [newGroupsF]

theorem multiB_newGroupsF (groups : List (List Nat)) (duals : List Bool) (g : Nat) :
    multiB (newGroupsF groups duals) g = multiB groups g := by
  simp only [multiB, newGroupsF_getElem?]
  cases groups[g]? <;> simp

/-- the group plan of the inner `_fuse_core`: same position, identity permutation -/
theorem newGroups_plan {groups : List (List Nat)} {duals duals' : List Bool} (hok : GroupsOk groups duals.length)
    (hd : duals'.length = duals.length) :
    (calcFuseGroupInfo (newGroupsF groups duals) duals').position = (calcFuseGroupInfo groups duals).position
    ∧ (calcFuseGroupInfo (newGroupsF groups duals) duals').perm = List.range duals.length
    ∧ (calcFuseGroupInfo (newGroupsF groups duals) duals').axesAfter.length
        = (calcFuseGroupInfo groups duals).axesAfter.length := by
  have hok2 : GroupsOk (newGroupsF groups duals) duals'.length := by rw [hd]; exact newGroupsF_ok hok
  have hpos : (calcFuseGroupInfo (newGroupsF groups duals) duals').position
      = (calcFuseGroupInfo groups duals).position := by
    obtain ⟨h1, h2⟩ := position_spec hok2
    rw [newGroupsF_flatten hok] at h1 h2
    simp only [List.mem_map, List.mem_range] at h1
    obtain ⟨t, _, ht⟩ := h1
    have hne := hok.flatten_ne
    have hl : 0 < groups.flatten.length := List.length_pos_iff.2 hne
    have := h2 ((calcFuseGroupInfo groups duals).position + 0)
      (List.mem_map.2 ⟨0, List.mem_range.2 hl, rfl⟩)
    omega
  have hperm : (calcFuseGroupInfo (newGroupsF groups duals) duals').perm = List.range duals.length := by
    have hp := calcFuseGroupInfo_perm hok2
    rw [hd] at hp
    apply List.Perm.eq_of_pairwise (le := fun x y => x < y) _ _ List.pairwise_lt_range hp
    · intro a b _ _ h1 h2; omega
    · rw [perm_eq, axesBefore_eq hok2, hpos, newGroupsF_flatten hok]
      rw [List.pairwise_append, List.pairwise_append]
      refine ⟨⟨List.pairwise_lt_range, ?_, ?_⟩, ?_, ?_⟩
      · rw [List.pairwise_map]
        exact List.pairwise_lt_range.imp (fun h => by omega)
      · intro x hx y hy
        simp only [List.mem_range] at hx
        simp only [List.mem_map, List.mem_range] at hy
        obtain ⟨t, _, rfl⟩ := hy; omega
      · simp only [calcFuseGroupInfo]
        exact (List.pairwise_lt_range.sublist List.filter_sublist).sublist List.filter_sublist
      · intro x hx y hy
        rw [mem_axesAfter] at hy
        rw [hpos, newGroupsF_flatten hok] at hy
        have hyn : ∀ t, t < groups.flatten.length → y ≠ (calcFuseGroupInfo groups duals).position + t := by
          intro t ht he
          exact hy.2.2 (List.mem_map.2 ⟨t, List.mem_range.2 ht, he.symm⟩)
        have hyge : (calcFuseGroupInfo groups duals).position + groups.flatten.length ≤ y := by
          by_contra hlt
          exact hyn (y - (calcFuseGroupInfo groups duals).position) (by omega) (by omega)
        rcases List.mem_append.1 hx with hx | hx
        · simp only [List.mem_range] at hx; omega
        · simp only [List.mem_map, List.mem_range] at hx
          obtain ⟨t, ht, rfl⟩ := hx; omega
  refine ⟨hpos, hperm, ?_⟩
  have h1 := flatten_le hok2
  have h2 := flatten_le hok
  rw [hpos, newGroupsF_flatten hok] at h1
  simp only [List.length_map, List.length_range] at h1
  omega

end FuseP
end SymmModel
