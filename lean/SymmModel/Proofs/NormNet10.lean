/-
  SymmModel.Proofs.NormNet10 — network form of the norm (property C10), part 10:
  label routes of the norm network for the four sequential bracketings (at most one ket label per
  tensor), and the common setup of the two-tensor network.
-/
import SymmModel.Proofs.NormNet9
namespace SymmModel.NormNet
open SymmModel SymmModel.Lazy SymmModel.Norm SymmModel.TdotP SymmModel.GradedP SymmModel.RoutesP
open SymmModel.AssocP
open SymmModel.OddposP (mergeOddpos)
set_option linter.unusedSectionVars false
set_option linter.unusedSimpArgs false

/-! ## labels -/
section labels

/-- the merged labels of `a·b` for at most one ket label per tensor -/
theorem out_cases (oA oB out : List (Int × Bool)) (ph : Int) (hA : OneKet oA) (hB : OneKet oB)
    (hd : (oA ++ oB).Pairwise (fun x y => x.1 ≠ y.1))
    (hm : mergeOddpos (oA.length % 2 == 1) oA oB = .ok (out, ph)) :
    (oA = [] ∧ oB = [] ∧ out = [])
    ∨ (∃ x, oA = [(x, false)] ∧ oB = [] ∧ out = [(x, false)])
    ∨ (∃ y, oA = [] ∧ oB = [(y, false)] ∧ out = [(y, false)])
    ∨ (∃ x y, x ≠ y ∧ oA = [(x, false)] ∧ oB = [(y, false)]
        ∧ out = if x < y then [(x, false), (y, false)] else [(y, false), (x, false)]) := by
  rcases hA with rfl | ⟨x, rfl⟩ <;> rcases hB with rfl | ⟨y, rfl⟩
  · have e : mergeOddpos (([] : List (Int × Bool)).length % 2 == 1) [] [] = .ok ([], 1) := rfl
    rw [e] at hm
    exact Or.inl ⟨rfl, rfl, (Prod.mk.inj (Except.ok.inj hm)).1.symm⟩
  · have e : mergeOddpos (([] : List (Int × Bool)).length % 2 == 1) [] [(y, false)]
        = .ok ([(y, false)], 1) := rfl
    rw [e] at hm
    exact Or.inr (Or.inr (Or.inl ⟨y, rfl, rfl, (Prod.mk.inj (Except.ok.inj hm)).1.symm⟩))
  · have e : mergeOddpos (([(x, false)] : List (Int × Bool)).length % 2 == 1) [(x, false)] []
        = .ok ([(x, false)], 1) := rfl
    rw [e] at hm
    exact Or.inr (Or.inl ⟨x, rfl, rfl, (Prod.mk.inj (Except.ok.inj hm)).1.symm⟩)
  · have hne : x ≠ y := by simpa using hd
    refine Or.inr (Or.inr (Or.inr ⟨x, y, hne, rfl, rfl, ?_⟩))
    by_cases hlt : x < y
    · have h1 : ¬ y < x := by omega
      have e : mergeOddpos (([(x, false)] : List (Int × Bool)).length % 2 == 1) [(x, false)]
          [(y, false)] = .ok ([(x, false), (y, false)], -1) := by
        simp [mergeOddpos, resolveScan, oddLt, hne, h1]; rfl
      rw [e] at hm
      rw [if_pos hlt]; exact (Prod.mk.inj (Except.ok.inj hm)).1.symm
    · have h1 : y < x := by omega
      have e : mergeOddpos (([(x, false)] : List (Int × Bool)).length % 2 == 1) [(x, false)]
          [(y, false)] = .ok ([(y, false), (x, false)], 1) := by
        simp [mergeOddpos, resolveScan, oddLt, hne, hne.symm, h1, hlt]; rfl
      rw [e] at hm
      rw [if_neg hlt]; exact (Prod.mk.inj (Except.ok.inj hm)).1.symm

theorem dag_ite (x y : Int) :
    Arr.oddposDag (if x < y then [(x, false), (y, false)] else [(y, false), (x, false)])
      = if x < y then [(y, true), (x, true)] else [(x, true), (y, true)] := by
  split <;> rfl

/-- `(K, ā, b̄)`: route `(K·ā)·b̄` vs `K·(ā·b̄)` -/
theorem lr_ket_bra (x y : Int) (hxy : x ≠ y) :
    C04.labelRoutesB false false [] [] [] = true
    ∧ C04.labelRoutesB true true [(x, false)] [(x, true)] [] = true
    ∧ C04.labelRoutesB true false [(y, false)] [] [(y, true)] = true
    ∧ C04.labelRoutesB false true (if x < y then [(x, false), (y, false)] else [(y, false), (x, false)])
        [(x, true)] [(y, true)] = true := by
  refine ⟨by decide, ?_, ?_, ?_⟩
  · simp [C04.labelRoutesB, mergeOddpos, resolveScan, oddLt, pure, Except.pure]
  · simp [C04.labelRoutesB, mergeOddpos, resolveScan, oddLt, pure, Except.pure]
  · have h1 : ¬ y = x := fun e => hxy e.symm
    have h2 : ¬ x = y := hxy
    by_cases h : x < y
    · have h3 : ¬ y < x := by omega
      simp [C04.labelRoutesB, mergeOddpos, resolveScan, oddLt, pure, Except.pure, h1, h2, h, h3]
    · have h3 : y < x := by omega
      simp [C04.labelRoutesB, mergeOddpos, resolveScan, oddLt, pure, Except.pure, h1, h2, h, h3]

/-- `(a, b, K̄)`: route `(a·b)·K̄` vs `a·(b·K̄)` -/
theorem lr_a_b_Kb (x y : Int) (hxy : x ≠ y) :
    C04.labelRoutesB false false [] [] [] = true
    ∧ C04.labelRoutesB true false [(x, false)] [] [(x, true)] = true
    ∧ C04.labelRoutesB false true [] [(y, false)] [(y, true)] = true
    ∧ C04.labelRoutesB true true [(x, false)] [(y, false)]
        (if x < y then [(y, true), (x, true)] else [(x, true), (y, true)]) = true := by
  refine ⟨by decide, ?_, ?_, ?_⟩
  · simp [C04.labelRoutesB, mergeOddpos, resolveScan, oddLt, pure, Except.pure]
  · simp [C04.labelRoutesB, mergeOddpos, resolveScan, oddLt, pure, Except.pure]
  · have h1 : ¬ y = x := fun e => hxy e.symm
    have h2 : ¬ x = y := hxy
    by_cases h : x < y
    · have h3 : ¬ y < x := by omega
      simp [C04.labelRoutesB, mergeOddpos, resolveScan, oddLt, pure, Except.pure, h1, h2, h, h3]
    · have h3 : y < x := by omega
      simp [C04.labelRoutesB, mergeOddpos, resolveScan, oddLt, pure, Except.pure, h1, h2, h, h3]

/-- `(ā, b̄, K)`: route `(ā·b̄)·K` vs `ā·(b̄·K)` -/
theorem lr_ab_bb_K (x y : Int) (hxy : x ≠ y) :
    C04.labelRoutesB false false [] [] [] = true
    ∧ C04.labelRoutesB true false [(x, true)] [] [(x, false)] = true
    ∧ C04.labelRoutesB false true [] [(y, true)] [(y, false)] = true
    ∧ C04.labelRoutesB true true [(x, true)] [(y, true)]
        (if x < y then [(x, false), (y, false)] else [(y, false), (x, false)]) = true := by
  refine ⟨by decide, ?_, ?_, ?_⟩
  · simp [C04.labelRoutesB, mergeOddpos, resolveScan, oddLt, pure, Except.pure]
  · simp [C04.labelRoutesB, mergeOddpos, resolveScan, oddLt, pure, Except.pure]
  · have h1 : ¬ y = x := fun e => hxy e.symm
    have h2 : ¬ x = y := hxy
    by_cases h : x < y
    · have h3 : ¬ y < x := by omega
      simp [C04.labelRoutesB, mergeOddpos, resolveScan, oddLt, pure, Except.pure, h1, h2, h, h3]
    · have h3 : y < x := by omega
      simp [C04.labelRoutesB, mergeOddpos, resolveScan, oddLt, pure, Except.pure, h1, h2, h, h3]

/-- the three label routes in terms of the labels the model computes -/
theorem labelRoutes_net (oA oB out : List (Int × Bool)) (ph : Int) (hA : OneKet oA)
    (hB : OneKet oB) (hd : (oA ++ oB).Pairwise (fun x y => x.1 ≠ y.1))
    (hm : mergeOddpos (oA.length % 2 == 1) oA oB = .ok (out, ph)) :
    Assoc2P.LabelRoutes (xor (oA.length % 2 == 1) (oB.length % 2 == 1)) (oA.length % 2 == 1)
        out (Arr.oddposDag oA) (Arr.oddposDag oB)
    ∧ Assoc2P.LabelRoutes (oA.length % 2 == 1) (oB.length % 2 == 1) oA oB (Arr.oddposDag out)
    ∧ Assoc2P.LabelRoutes (oA.length % 2 == 1) (oB.length % 2 == 1)
        (Arr.oddposDag oA) (Arr.oddposDag oB) out := by
  simp only [C04.labelRoutes_iff]
  rcases out_cases oA oB out ph hA hB hd hm with ⟨rfl, rfl, rfl⟩ | ⟨x, rfl, rfl, rfl⟩
    | ⟨y, rfl, rfl, rfl⟩ | ⟨x, y, hxy, rfl, rfl, rfl⟩
  · exact ⟨by decide, by decide, by decide⟩
  · exact ⟨(lr_ket_bra x (x + 1) (by omega)).2.1, (lr_a_b_Kb x (x + 1) (by omega)).2.1,
      (lr_ab_bb_K x (x + 1) (by omega)).2.1⟩
  · exact ⟨(lr_ket_bra (y + 1) y (by omega)).2.2.1, (lr_a_b_Kb (y + 1) y (by omega)).2.2.1,
      (lr_ab_bb_K (y + 1) y (by omega)).2.2.1⟩
  · rw [dag_ite]
    exact ⟨(lr_ket_bra x y hxy).2.2.2, (lr_a_b_Kb x y hxy).2.2.2, (lr_ab_bb_K x y hxy).2.2.2⟩

end labels

end SymmModel.NormNet
