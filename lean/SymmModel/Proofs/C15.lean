/-
  SymmModel.Proofs.C15 — lemmas for the C15 theorems (cache coherence, thread machine,
  injectivity of the hash-key trees).  Core Lean only.
-/
import SymmModel.Model.Cache
namespace SymmModel.C15
open SymmModel FuseCache
set_option linter.unusedSectionVars false

/-! ### association lists -/
section alist
variable {κ β : Type} [BEq κ] [LawfulBEq κ]

theorem mem_of_alookup {es : List (κ × β)} {k : κ} {v : β} (h : alookup es k = some v) :
    (k, v) ∈ es := by
  induction es with
  | nil => simp [alookup] at h
  | cons p rest ih =>
    obtain ⟨k', v'⟩ := p
    simp only [alookup] at h
    split at h
    · rename_i hk
      have : k' = k := eq_of_beq hk
      cases h; subst this; exact List.mem_cons_self
    · exact List.mem_cons_of_mem _ (ih h)

theorem mem_ainsert {es : List (κ × β)} {k : κ} {v : β} {p : κ × β} (h : p ∈ ainsert es k v) :
    p ∈ es ∨ p = (k, v) := by
  induction es with
  | nil => simp [ainsert] at h; exact Or.inr h
  | cons q rest ih =>
    obtain ⟨k', v'⟩ := q
    simp only [ainsert] at h
    split at h
    · rename_i hk
      have : k' = k := eq_of_beq hk
      subst this
      rcases List.mem_cons.mp h with h | h
      · exact Or.inr h
      · exact Or.inl (List.mem_cons_of_mem _ h)
    · rcases List.mem_cons.mp h with h | h
      · exact Or.inl (h ▸ List.mem_cons_self)
      · rcases ih h with h | h
        · exact Or.inl (List.mem_cons_of_mem _ h)
        · exact Or.inr h

omit [LawfulBEq κ] in
theorem mem_aerase {es : List (κ × β)} {k : κ} {p : κ × β} (h : p ∈ aerase es k) : p ∈ es := by
  induction es with
  | nil => simp [aerase] at h
  | cons q rest ih =>
    obtain ⟨k', v'⟩ := q
    simp only [aerase] at h
    split at h
    · exact List.mem_cons_of_mem _ h
    · rcases List.mem_cons.mp h with h | h
      · exact h ▸ List.mem_cons_self
      · exact List.mem_cons_of_mem _ (ih h)

omit [LawfulBEq κ] in
theorem ainsert_ne_nil (es : List (κ × β)) (k : κ) (v : β) : ainsert es k v ≠ [] := by
  cases es with
  | nil => simp [ainsert]
  | cons q rest =>
    obtain ⟨k', v'⟩ := q
    simp only [ainsert]; split <;> simp

omit [LawfulBEq κ] in
theorem length_ainsert_le (es : List (κ × β)) (k : κ) (v : β) :
    (ainsert es k v).length ≤ es.length + 1 := by
  induction es with
  | nil => simp [ainsert]
  | cons q rest ih =>
    obtain ⟨k', v'⟩ := q
    simp only [ainsert]; split
    · simp
    · simp only [List.length_cons]; omega

omit [LawfulBEq κ] in
theorem length_ainsert_ge (es : List (κ × β)) (k : κ) (v : β) :
    es.length ≤ (ainsert es k v).length := by
  induction es with
  | nil => simp
  | cons q rest ih =>
    obtain ⟨k', v'⟩ := q
    simp only [ainsert]; split
    · simp
    · simp only [List.length_cons]; omega

omit [LawfulBEq κ] in
theorem length_aerase_of_lookup {es : List (κ × β)} {k : κ} {v : β} (h : alookup es k = some v) :
    (aerase es k).length + 1 = es.length := by
  induction es with
  | nil => simp [alookup] at h
  | cons q rest ih =>
    obtain ⟨k', v'⟩ := q
    simp only [alookup] at h
    simp only [aerase]
    split at h
    · rename_i hk; simp [hk]
    · rename_i hk; simp only [hk]; simp only [Bool.false_eq_true, ↓reduceIte, List.length_cons]
      have := ih h; omega

theorem mem_moveToEnd {es es' : List (κ × β)} {k : κ} (h : moveToEnd es k = some es')
    {p : κ × β} (hp : p ∈ es') : p ∈ es := by
  cases hv : alookup es k with
  | none => simp [moveToEnd, hv] at h
  | some v =>
    simp only [moveToEnd, hv, Option.some.injEq] at h
    subst h
    rcases List.mem_append.mp hp with hp | hp
    · exact mem_aerase hp
    · simp at hp; subst hp; exact mem_of_alookup hv

omit [LawfulBEq κ] in
theorem length_moveToEnd {es es' : List (κ × β)} {k : κ} (h : moveToEnd es k = some es') :
    es'.length = es.length := by
  cases hv : alookup es k with
  | none => simp [moveToEnd, hv] at h
  | some v =>
    simp only [moveToEnd, hv, Option.some.injEq] at h
    subst h
    simp [length_aerase_of_lookup hv]

omit [LawfulBEq κ] in
theorem moveToEnd_isSome {es : List (κ × β)} {k : κ} {v : β} (hv : alookup es k = some v) :
    moveToEnd es k = some (aerase es k ++ [(k, v)]) := by
  simp [moveToEnd, hv]

omit [BEq κ] [LawfulBEq κ] in
theorem mem_popitem {es es' : List (κ × β)} {last : Bool} (h : popitem es last = some es')
    {p : κ × β} (hp : p ∈ es') : p ∈ es := by
  unfold popitem at h
  split at h
  · cases h
  · split at h
    · cases h; exact List.dropLast_subset _ hp
    · cases h; exact List.mem_cons_of_mem _ hp

omit [BEq κ] [LawfulBEq κ] in
theorem length_popitem {es es' : List (κ × β)} {last : Bool} (h : popitem es last = some es') :
    es'.length + 1 = es.length := by
  unfold popitem at h
  split at h
  · cases h
  · split at h
    · cases h; simp
    · cases h; simp

omit [BEq κ] [LawfulBEq κ] in
theorem popitem_isSome {es : List (κ × β)} (last : Bool) (h : es ≠ []) :
    ∃ es', popitem es last = some es' := by
  cases es with
  | nil => exact absurd rfl h
  | cons q rest => unfold popitem; cases last <;> simp

omit [BEq κ] [LawfulBEq κ] in
theorem popitem_eq_none {es : List (κ × β)} {last : Bool} (h : popitem es last = none) : es = [] := by
  cases es with
  | nil => rfl
  | cons q rest => unfold popitem at h; cases last <;> simp at h

end alist

/-! ### sequential calls -/
section seq
variable {α κ β : Type} [BEq κ] [LawfulBEq κ]

/-- the hypothesis on the key: it determines the computed value -/
def KeyDetermines (S : CacheSpec α κ β) : Prop :=
  ∀ x y, S.keyOf x = S.keyOf y → S.compute x = S.compute y

theorem coherent_nil (S : CacheSpec α κ β) : Coherent S [] := by
  intro p hp; cases hp

theorem coherent_sub {S : CacheSpec α κ β} {es es' : List (κ × β)}
    (h : Coherent S es) (hs : ∀ p ∈ es', p ∈ es) : Coherent S es' :=
  fun p hp => h p (hs p hp)

theorem coherent_ainsert {S : CacheSpec α κ β} {es : List (κ × β)} (h : Coherent S es) (x : α) :
    Coherent S (ainsert es (S.keyOf x) (S.compute x)) := by
  intro p hp
  rcases mem_ainsert hp with hp | hp
  · exact h p hp
  · exact ⟨x, hp⟩

theorem hit_value {S : CacheSpec α κ β} (hK : KeyDetermines S) {es : List (κ × β)}
    (h : Coherent S es) {x : α} {v : β} (hv : alookup es (S.keyOf x) = some v) :
    v = S.compute x := by
  obtain ⟨y, hy⟩ := h _ (mem_of_alookup hv)
  have h1 : S.keyOf x = S.keyOf y := congrArg Prod.fst hy
  have h2 : v = S.compute y := congrArg Prod.snd hy
  rw [h2, hK x y h1]

/-- the miss branch of `callP`, named so that it can be reasoned about once -/
def missBranch (P : Policy) (S : CacheSpec α κ β) (c : FuseCache κ β) (x : α) (es : List (κ × β)) :
    CallResult κ β :=
  let v := S.compute x
  if S.raises v then ⟨some v, .missRaise, { c with entries := es }⟩ else
  let es1 := ainsert es (S.keyOf x) v
  if (es1.length : Int) > c.maxsize then
    match popitem es1 P.popLast with
    | some es2 => ⟨some v, .missEvict, { c with entries := es2 }⟩
    | none => if P.guarded then ⟨some v, .missEvict, { c with entries := es1 }⟩
              else ⟨none, .missEvict, { c with entries := es1 }⟩
  else ⟨some v, .miss, { c with entries := es1 }⟩

theorem callP_eq (P : Policy) (S : CacheSpec α κ β) (c : FuseCache κ β) (x : α) :
    callP P S c x =
      if c.maxsize == 0 then ⟨some (S.compute x), .disabled, c⟩
      else if S.bypass x then ⟨some (S.compute x), .bypass, c⟩
      else match alookup c.entries (S.keyOf x) with
        | some v =>
          if P.touch then
            match moveToEnd c.entries (S.keyOf x) with
            | some es => ⟨some v, .hit, { c with entries := es }⟩
            | none => missBranch P S c x c.entries
          else ⟨some v, .hit, c⟩
        | none => missBranch P S c x c.entries := rfl

theorem missBranch_spec (P : Policy) (S : CacheSpec α κ β) (c : FuseCache κ β) (x : α)
    {es : List (κ × β)} (h : Coherent S es) :
    (missBranch P S c x es).res = some (S.compute x) ∧
    Coherent S (missBranch P S c x es).cache.entries ∧
    (missBranch P S c x es).cache.maxsize = c.maxsize ∧
    (es.length ≤ c.maxsize.toNat → (missBranch P S c x es).cache.entries.length ≤ c.maxsize.toNat) := by
  have hco := coherent_ainsert h x
  unfold missBranch
  simp only
  split
  · exact ⟨rfl, h, rfl, id⟩
  split
  · rename_i hlen
    obtain ⟨es2, h2⟩ := popitem_isSome (β := β) P.popLast (ainsert_ne_nil es (S.keyOf x) (S.compute x))
    rw [h2]
    refine ⟨rfl, coherent_sub hco (fun p hp => mem_popitem h2 hp), rfl, ?_⟩
    intro hle
    have := length_popitem h2
    have := length_ainsert_le es (S.keyOf x) (S.compute x)
    simp only
    omega
  · rename_i hlen
    refine ⟨rfl, hco, rfl, ?_⟩
    intro _
    simp only
    omega

/-- one call: right answer, coherence and the size bound are kept — for every policy -/
theorem callP_spec (P : Policy) (S : CacheSpec α κ β) (hK : KeyDetermines S)
    (c : FuseCache κ β) (x : α) (h : Coherent S c.entries) :
    (callP P S c x).res = some (S.compute x) ∧
    Coherent S (callP P S c x).cache.entries ∧
    (callP P S c x).cache.maxsize = c.maxsize ∧
    (c.entries.length ≤ c.maxsize.toNat →
      (callP P S c x).cache.entries.length ≤ c.maxsize.toNat) := by
  rw [callP_eq]
  split
  · exact ⟨rfl, h, rfl, id⟩
  split
  · exact ⟨rfl, h, rfl, id⟩
  split
  · rename_i v hv
    have hvx := hit_value hK h hv
    split
    · rw [moveToEnd_isSome hv]
      refine ⟨by simp [hvx], ?_, rfl, ?_⟩
      · exact coherent_sub h (fun p hp => mem_moveToEnd (moveToEnd_isSome hv) hp)
      · intro hle
        have := length_moveToEnd (moveToEnd_isSome hv)
        simp only; omega
    · exact ⟨by simp [hvx], h, rfl, id⟩
  · exact missBranch_spec P S c x h

theorem runCallsP_spec (P : Policy) (S : CacheSpec α κ β) (hK : KeyDetermines S)
    (xs : List α) : ∀ (c : FuseCache κ β), Coherent S c.entries →
    (runCallsP P S c xs).1 = xs.map (fun x => some (S.compute x)) ∧
    Coherent S (runCallsP P S c xs).2.entries ∧
    (runCallsP P S c xs).2.maxsize = c.maxsize ∧
    (c.entries.length ≤ c.maxsize.toNat →
      (runCallsP P S c xs).2.entries.length ≤ c.maxsize.toNat) := by
  induction xs with
  | nil => intro c h; exact ⟨rfl, h, rfl, id⟩
  | cons x xs ih =>
    intro c h
    obtain ⟨h1, h2, h3, h4⟩ := callP_spec P S hK c x h
    obtain ⟨i1, i2, i3, i4⟩ := ih (callP P S c x).cache h2
    simp only [runCallsP, List.map_cons]
    refine ⟨by rw [h1, i1], i2, by rw [i3, h3], ?_⟩
    intro hle
    rw [h3] at i4
    exact i4 (h4 hle)

end seq

/-! ### thread machine -/
section threads
variable {α κ β : Type} [BEq κ] [LawfulBEq κ]

def pcVal? : Pc β → Option β
  | .lookup => none
  | .moveToEnd v => some v
  | .insert => none
  | .lenTest v => some v
  | .pop v => some v

/-- what a thread holds is right: everything it has returned, and the value it is carrying -/
def ThreadOK (S : CacheSpec α κ β) (t : Thread α β) : Prop :=
  (∀ p ∈ t.out, p.2 = S.compute p.1) ∧
  (∀ x v, t.todo.head? = some x → pcVal? t.pc = some v → v = S.compute x)

/-- the thread's program: arguments of the completed calls followed by the remaining ones -/
def progOf (t : Thread α β) : List α := t.out.map Prod.fst ++ t.todo

theorem threadOK_finish {S : CacheSpec α κ β} {t : Thread α β} {x : α} {rest : List α}
    (ht : ThreadOK S t) (hx : t.todo = x :: rest) {v : β} (hv : v = S.compute x) :
    ThreadOK S (t.finish x v) ∧ progOf (t.finish x v) = progOf t ∧ (t.finish x v).raised = t.raised := by
  refine ⟨⟨?_, ?_⟩, ?_, rfl⟩
  · intro p hp
    simp only [Thread.finish, List.mem_append, List.mem_singleton] at hp
    rcases hp with hp | hp
    · exact ht.1 p hp
    · subst hp; exact hv
  · intro y w _ hw
    simp [Thread.finish, pcVal?] at hw
  · simp [progOf, Thread.finish, hx]

theorem threadOK_setPc {S : CacheSpec α κ β} {t : Thread α β} (ht : ThreadOK S t) (pc : Pc β)
    (hpc : ∀ x v, t.todo.head? = some x → pcVal? pc = some v → v = S.compute x) :
    ThreadOK S { t with pc := pc } ∧ progOf { t with pc := pc } = progOf t := by
  exact ⟨⟨ht.1, hpc⟩, rfl⟩

/-- one atomic step keeps the cache coherent and the thread right — every policy -/
theorem stepThread_spec (P : Policy) (S : CacheSpec α κ β) (hK : KeyDetermines S)
    (c : FuseCache κ β) (t : Thread α β) (hc : Coherent S c.entries) (ht : ThreadOK S t) :
    Coherent S (stepThread P S c t).1.entries ∧ ThreadOK S (stepThread P S c t).2 ∧
    (stepThread P S c t).1.maxsize = c.maxsize ∧ progOf (stepThread P S c t).2 = progOf t ∧
    (P.guarded = true → (stepThread P S c t).2.raised = t.raised) := by
  unfold stepThread
  split
  · exact ⟨hc, ht, rfl, rfl, fun _ => rfl⟩
  split
  · exact ⟨hc, ht, rfl, rfl, fun _ => rfl⟩
  rename_i hr x rest hx
  have hhead : t.todo.head? = some x := by simp [hx]
  simp only
  split
  · -- lookup
    split
    · obtain ⟨a, b, d⟩ := threadOK_finish ht hx (v := S.compute x) rfl
      exact ⟨hc, a, rfl, b, fun _ => d⟩
    · split
      · rename_i v hv
        have hvx := hit_value hK hc hv
        split
        · obtain ⟨a, b⟩ := threadOK_setPc ht (.moveToEnd v) (by
            intro y w hy hw
            simp only [pcVal?, Option.some.injEq] at hw
            rw [hhead] at hy; cases hy; rw [← hw]; exact hvx)
          exact ⟨hc, a, rfl, b, fun _ => rfl⟩
        · obtain ⟨a, b, d⟩ := threadOK_finish ht hx hvx
          exact ⟨hc, a, rfl, b, fun _ => d⟩
      · obtain ⟨a, b⟩ := threadOK_setPc ht .insert (by intro y w _ hw; simp [pcVal?] at hw)
        exact ⟨hc, a, rfl, b, fun _ => rfl⟩
  · -- moveToEnd
    rename_i v hpc
    have hvx : v = S.compute x := ht.2 x v hhead (by rw [hpc]; rfl)
    split
    · rename_i es hes
      obtain ⟨a, b, d⟩ := threadOK_finish ht hx hvx
      exact ⟨coherent_sub hc (fun p hp => mem_moveToEnd hes hp), a, rfl, b, fun _ => d⟩
    · obtain ⟨a, b⟩ := threadOK_setPc ht .insert (by intro y w _ hw; simp [pcVal?] at hw)
      exact ⟨hc, a, rfl, b, fun _ => rfl⟩
  · -- insert
    split
    · obtain ⟨a, b, d⟩ := threadOK_finish ht hx (v := S.compute x) rfl
      exact ⟨hc, a, rfl, b, fun _ => d⟩
    · obtain ⟨a, b⟩ := threadOK_setPc ht (.lenTest (S.compute x)) (by
        intro y w hy hw
        simp only [pcVal?, Option.some.injEq] at hw
        rw [hhead] at hy; cases hy; rw [← hw])
      exact ⟨coherent_ainsert hc x, a, rfl, b, fun _ => rfl⟩
  · -- lenTest
    rename_i v hpc
    have hvx : v = S.compute x := ht.2 x v hhead (by rw [hpc]; rfl)
    split
    · obtain ⟨a, b⟩ := threadOK_setPc ht (.pop v) (by
        intro y w hy hw
        simp only [pcVal?, Option.some.injEq] at hw
        rw [hhead] at hy; cases hy; rw [← hw]; exact hvx)
      exact ⟨hc, a, rfl, b, fun _ => rfl⟩
    · obtain ⟨a, b, d⟩ := threadOK_finish ht hx hvx
      exact ⟨hc, a, rfl, b, fun _ => d⟩
  · -- pop
    rename_i v hpc
    have hvx : v = S.compute x := ht.2 x v hhead (by rw [hpc]; rfl)
    split
    · rename_i es hes
      obtain ⟨a, b, d⟩ := threadOK_finish ht hx hvx
      exact ⟨coherent_sub hc (fun p hp => mem_popitem hes hp), a, rfl, b, fun _ => d⟩
    · split
      · obtain ⟨a, b, d⟩ := threadOK_finish ht hx hvx
        exact ⟨hc, a, rfl, b, fun _ => d⟩
      · rename_i hg
        exact ⟨hc, ⟨ht.1, ht.2⟩, rfl, rfl, fun h => absurd h hg⟩

/-- the machine invariant -/
def Inv (S : CacheSpec α κ β) (progs : List (List α)) (m : Machine α κ β) : Prop :=
  Coherent S m.cache.entries ∧ (∀ t ∈ m.threads, ThreadOK S t) ∧ m.threads.map progOf = progs

theorem stepAt_inv (P : Policy) (S : CacheSpec α κ β) (hK : KeyDetermines S)
    (progs : List (List α)) (m : Machine α κ β) (i : Nat) (h : Inv S progs m) :
    Inv S progs (stepAt P S m i) ∧ (stepAt P S m i).cache.maxsize = m.cache.maxsize ∧
    (P.guarded = true → (∀ t ∈ m.threads, t.raised = false) →
      ∀ t ∈ (stepAt P S m i).threads, t.raised = false) := by
  unfold stepAt
  split
  · exact ⟨h, rfl, fun _ hr => hr⟩
  · rename_i t hti
    have hmem : t ∈ m.threads := List.mem_of_getElem? hti
    obtain ⟨a, b, c, d, e⟩ := stepThread_spec P S hK m.cache t h.1 (h.2.1 t hmem)
    refine ⟨⟨a, ?_, ?_⟩, c, ?_⟩
    · intro t' ht'
      rcases List.mem_or_eq_of_mem_set ht' with ht' | ht'
      · exact h.2.1 t' ht'
      · rw [ht']; exact b
    · simp only
      rw [List.map_set, d, ← h.2.2]
      apply List.ext_getElem?
      intro j
      rw [List.getElem?_set]
      split
      · rename_i hij
        subst hij
        split
        · rw [List.getElem?_map, hti]; rfl
        · rename_i hlt
          rw [List.getElem?_eq_none (by omega)]
      · rfl
    · intro hg hr t' ht'
      rcases List.mem_or_eq_of_mem_set ht' with ht' | ht'
      · exact hr t' ht'
      · rw [ht', e hg]; exact hr t hmem

theorem runSched_inv (P : Policy) (S : CacheSpec α κ β) (hK : KeyDetermines S)
    (progs : List (List α)) (sched : List Nat) : ∀ (m : Machine α κ β), Inv S progs m →
    Inv S progs (runSched P S m sched) ∧
    (runSched P S m sched).cache.maxsize = m.cache.maxsize ∧
    (P.guarded = true → (∀ t ∈ m.threads, t.raised = false) →
      ∀ t ∈ (runSched P S m sched).threads, t.raised = false) := by
  induction sched with
  | nil => intro m h; exact ⟨h, rfl, fun _ hr => hr⟩
  | cons i rest ih =>
    intro m h
    obtain ⟨a, b, c⟩ := stepAt_inv P S hK progs m i h
    obtain ⟨a', b', c'⟩ := ih (stepAt P S m i) a
    simp only [runSched, List.foldl_cons]
    exact ⟨a', by rw [← b]; exact b', fun hg hr => c' hg (c hg hr)⟩

theorem inv_spawn (S : CacheSpec α κ β) (c : FuseCache κ β) (hc : Coherent S c.entries)
    (progs : List (List α)) : Inv S progs ⟨c, spawn progs⟩ := by
  refine ⟨hc, ?_, ?_⟩
  · intro t ht
    simp only [spawn, List.mem_map] at ht
    obtain ⟨p, _, rfl⟩ := ht
    exact ⟨(by intro q hq; cases hq), (by intro x v _ hv; simp [pcVal?] at hv)⟩
  · simp only [spawn, List.map_map]
    conv => rhs; rw [← List.map_id progs]
    apply List.map_congr_left
    intro p _
    simp [progOf]

end threads

/-! ### the key trees: lawful equality and injectivity -/

mutual
  theorem ktree_eq_of_beq : ∀ (a b : KTree), KTree.beq a b = true → a = b
  | .int a, .int b, h => by simp only [KTree.beq, beq_iff_eq] at h; rw [h]
  | .bool a, .bool b, h => by simp only [KTree.beq, beq_iff_eq] at h; rw [h]
  | .none, .none, _ => rfl
  | .str a, .str b, h => by simp only [KTree.beq, beq_iff_eq] at h; rw [h]
  | .tup a, .tup b, h => by
      simp only [KTree.beq] at h
      rw [ktree_eq_of_beqList a b h]
  | .int _, .bool _, h => by simp [KTree.beq] at h
  | .int _, .none, h => by simp [KTree.beq] at h
  | .int _, .str _, h => by simp [KTree.beq] at h
  | .int _, .tup _, h => by simp [KTree.beq] at h
  | .bool _, .int _, h => by simp [KTree.beq] at h
  | .bool _, .none, h => by simp [KTree.beq] at h
  | .bool _, .str _, h => by simp [KTree.beq] at h
  | .bool _, .tup _, h => by simp [KTree.beq] at h
  | .none, .int _, h => by simp [KTree.beq] at h
  | .none, .bool _, h => by simp [KTree.beq] at h
  | .none, .str _, h => by simp [KTree.beq] at h
  | .none, .tup _, h => by simp [KTree.beq] at h
  | .str _, .int _, h => by simp [KTree.beq] at h
  | .str _, .bool _, h => by simp [KTree.beq] at h
  | .str _, .none, h => by simp [KTree.beq] at h
  | .str _, .tup _, h => by simp [KTree.beq] at h
  | .tup _, .int _, h => by simp [KTree.beq] at h
  | .tup _, .bool _, h => by simp [KTree.beq] at h
  | .tup _, .none, h => by simp [KTree.beq] at h
  | .tup _, .str _, h => by simp [KTree.beq] at h
  theorem ktree_eq_of_beqList : ∀ (a b : List KTree), KTree.beqList a b = true → a = b
  | [], [], _ => rfl
  | x :: xs, y :: ys, h => by
      simp only [KTree.beqList, Bool.and_eq_true] at h
      rw [ktree_eq_of_beq x y h.1, ktree_eq_of_beqList xs ys h.2]
  | [], _ :: _, h => by simp [KTree.beqList] at h
  | _ :: _, [], h => by simp [KTree.beqList] at h
end

mutual
  theorem ktree_beq_refl : ∀ (a : KTree), KTree.beq a a = true
  | .int a => by simp [KTree.beq]
  | .bool a => by simp [KTree.beq]
  | .none => by simp [KTree.beq]
  | .str a => by simp [KTree.beq]
  | .tup a => by simp only [KTree.beq]; exact ktree_beqList_refl a
  theorem ktree_beqList_refl : ∀ (a : List KTree), KTree.beqList a a = true
  | [] => by simp [KTree.beqList]
  | x :: xs => by simp only [KTree.beqList, Bool.and_eq_true]; exact ⟨ktree_beq_refl x, ktree_beqList_refl xs⟩
end

instance : LawfulBEq KTree where
  eq_of_beq := fun {a b} h => ktree_eq_of_beq a b h
  rfl := fun {a} => ktree_beq_refl a

theorem map_inj {α β : Type} {f : α → β} (hf : ∀ a b, f a = f b → a = b) :
    ∀ (l l' : List α), l.map f = l'.map f → l = l'
  | [], [], _ => rfl
  | [], _ :: _, h => by simp at h
  | _ :: _, [], h => by simp at h
  | a :: l, b :: l', h => by
      simp only [List.map_cons, List.cons.injEq] at h
      rw [hf a b h.1, map_inj hf l l' h.2]

theorem knat_inj (a b : Nat) (h : KTree.nat a = KTree.nat b) : a = b := by
  simp only [KTree.nat, KTree.int.injEq] at h; omega

theorem kcharge_inj (a b : Charge) (h : KTree.charge a = KTree.charge b) : a = b := by
  obtain ⟨a1, a2⟩ := a; obtain ⟨b1, b2⟩ := b
  simp only [KTree.charge, KTree.tup.injEq, List.cons.injEq, KTree.int.injEq, and_true] at h
  rw [h.1, h.2]

theorem ksector_inj (a b : List Charge) (h : KTree.sector a = KTree.sector b) : a = b := by
  simp only [KTree.sector, KTree.tup.injEq] at h
  exact map_inj kcharge_inj a b h

theorem kchargemap_inj (a b : List (Charge × Nat)) (h : KTree.chargemap a = KTree.chargemap b) :
    a = b := by
  simp only [KTree.chargemap, KTree.tup.injEq] at h
  refine map_inj ?_ a b h
  intro p q hpq
  obtain ⟨p1, p2⟩ := p; obtain ⟨q1, q2⟩ := q
  simp only [KTree.tup.injEq, List.cons.injEq, and_true] at hpq
  rw [kcharge_inj _ _ hpq.1, knat_inj _ _ hpq.2]

theorem kextents_inj (a b : Extents) (h : KTree.extents a = KTree.extents b) : a = b := by
  simp only [KTree.extents, KTree.tup.injEq] at h
  refine map_inj ?_ a b h
  intro p q hpq
  obtain ⟨p1, p2⟩ := p; obtain ⟨q1, q2⟩ := q
  simp only [KTree.tup.injEq, List.cons.injEq, and_true] at hpq
  have h2 : p2 = q2 := by
    refine map_inj ?_ p2 q2 hpq.2
    intro u w huw
    obtain ⟨u1, u2⟩ := u; obtain ⟨w1, w2⟩ := w
    simp only [KTree.tup.injEq, List.cons.injEq, and_true] at huw
    rw [ksector_inj _ _ huw.1, knat_inj _ _ huw.2]
  rw [kcharge_inj _ _ hpq.1, h2]

theorem ksym_inj (a b : Sym) (h : KTree.sym a = KTree.sym b) : a = b := by
  cases a <;> cases b <;> first | rfl | (simp [KTree.sym] at h)

theorem kgroups_inj (a b : List (List Nat)) (h : KTree.groups a = KTree.groups b) : a = b := by
  simp only [KTree.groups, KTree.tup.injEq] at h
  refine map_inj ?_ a b h
  intro p q hpq
  simp only [KTree.tup.injEq] at hpq
  exact map_inj knat_inj p q hpq

mutual
  /-- the index key forgets nothing of the index (chargemap items in order, direction,
      sub-indices recursively, extents in order) -/
  theorem hashkey_inj : ∀ (i j : Index), i.hashkey = j.hashkey → i = j
    | .mk c d none, .mk c' d' none, h => by
        simp only [Index.hashkey, KTree.tup.injEq, List.cons.injEq, KTree.bool.injEq, and_true] at h
        rw [kchargemap_inj _ _ h.1, h.2]
    | .mk c d (some (s, e)), .mk c' d' (some (s', e')), h => by
        simp only [Index.hashkey, KTree.tup.injEq, List.cons.injEq, KTree.bool.injEq, and_true] at h
        rw [kchargemap_inj _ _ h.1, h.2.1, hashkeyList_inj s s' h.2.2.1, kextents_inj _ _ h.2.2.2]
    | .mk c d none, .mk c' d' (some (s', e')), h => by
        simp [Index.hashkey] at h
    | .mk c d (some (s, e)), .mk c' d' none, h => by
        simp [Index.hashkey] at h
  theorem hashkeyList_inj : ∀ (l l' : List Index), Index.hashkeyList l = Index.hashkeyList l' → l = l'
    | [], [], _ => rfl
    | [], _ :: _, h => by simp [Index.hashkeyList] at h
    | _ :: _, [], h => by simp [Index.hashkeyList] at h
    | a :: l, b :: l', h => by
        simp only [Index.hashkeyList, List.cons.injEq] at h
        rw [hashkey_inj a b h.1, hashkeyList_inj l l' h.2]
end

/-- `calc_fuse_block_info` written over exactly the four things it reads -/
def fuseInfoOf (sym : Sym) (indices : List Index) (sectors : List Sector)
    (groups : List (List Nat)) : Except Err FuseInfo :=
  calcFuseBlockInfo ({ sym := sym, fermi := false, indices := indices, charge := (0, 0),
                       blocks := sectors.map (fun s => (s, (⟨[], #[]⟩ : Blk Unit))) } : Arr Unit) groups

theorem calcFuseBlockInfo_reads {R : Type} (a : Arr R) (g : List (List Nat)) :
    calcFuseBlockInfo a g = fuseInfoOf a.sym a.indices a.sectors g := by
  unfold fuseInfoOf calcFuseBlockInfo Arr.sectors Arr.duals
  simp only [List.mapM_map, List.map_map]
  rfl

theorem keyOfArr_inj {R R' : Type} (a : Arr R) (a' : Arr R') (g g' : List (List Nat))
    (h : keyOfArr a g = keyOfArr a' g') :
    a.indices = a'.indices ∧ a.sectors = a'.sectors ∧ a.sym = a'.sym ∧ g = g' := by
  simp only [keyOfArr, KTree.tup.injEq, List.cons.injEq, and_true] at h
  exact ⟨hashkeyList_inj _ _ h.1, map_inj ksector_inj _ _ h.2.1, ksym_inj _ _ h.2.2.1,
         kgroups_inj _ _ h.2.2.2⟩


/-! ### unguarded pop: when can it find the dict empty? -/
section count
variable {α κ β : Type} [BEq κ]

/-- the thread has passed the length test and not popped yet -/
def popping (t : Thread α β) : Bool :=
  t.running && (match t.pc with | .pop _ => true | _ => false)

theorem popping_finish (t : Thread α β) (x : α) (v : β) : popping (t.finish x v) = false := by
  simp [popping, Thread.finish]

theorem stepThread_cnt (P : Policy) (S : CacheSpec α κ β) (c : FuseCache κ β) (t : Thread α β) :
    (stepThread P S c t).1.maxsize = c.maxsize ∧
    ((popping t = false ∧ popping (stepThread P S c t).2 = false ∧
        c.entries.length ≤ (stepThread P S c t).1.entries.length ∧
        (stepThread P S c t).2.raised = t.raised)
     ∨ (popping t = false ∧ popping (stepThread P S c t).2 = true ∧
        (stepThread P S c t).1.entries.length = c.entries.length ∧
        (c.entries.length : Int) > c.maxsize ∧ (stepThread P S c t).2.raised = t.raised)
     ∨ (popping t = true ∧ popping (stepThread P S c t).2 = false ∧ t.raised = false ∧
        ((c.entries ≠ [] ∧ (stepThread P S c t).1.entries.length + 1 = c.entries.length ∧
            (stepThread P S c t).2.raised = false)
         ∨ (c.entries = [] ∧ (stepThread P S c t).2.raised = !P.guarded)))) := by
  unfold stepThread
  split
  · rename_i hr
    exact ⟨rfl, Or.inl ⟨by simp [popping, Thread.running, hr], by simp [popping, Thread.running, hr],
      Nat.le_refl _, rfl⟩⟩
  split
  · rename_i hr ht
    exact ⟨rfl, Or.inl ⟨by simp [popping, Thread.running, ht], by simp [popping, Thread.running, ht],
      Nat.le_refl _, rfl⟩⟩
  rename_i hr _ x rest hx
  have hrf : t.raised = false := by simpa using hr
  simp only
  split
  · -- lookup
    rename_i hpc
    have hp : popping t = false := by simp [popping, hpc]
    split
    · exact ⟨rfl, Or.inl ⟨hp, popping_finish _ _ _, Nat.le_refl _, rfl⟩⟩
    · split
      · split
        · exact ⟨rfl, Or.inl ⟨hp, by simp [popping], Nat.le_refl _, rfl⟩⟩
        · exact ⟨rfl, Or.inl ⟨hp, popping_finish _ _ _, Nat.le_refl _, rfl⟩⟩
      · exact ⟨rfl, Or.inl ⟨hp, by simp [popping], Nat.le_refl _, rfl⟩⟩
  · -- moveToEnd
    rename_i v hpc
    have hp : popping t = false := by simp [popping, hpc]
    split
    · rename_i es hes
      exact ⟨rfl, Or.inl ⟨hp, popping_finish _ _ _, by simp [length_moveToEnd hes], rfl⟩⟩
    · exact ⟨rfl, Or.inl ⟨hp, by simp [popping], Nat.le_refl _, rfl⟩⟩
  · -- insert
    rename_i hpc
    have hp : popping t = false := by simp [popping, hpc]
    split
    · exact ⟨rfl, Or.inl ⟨hp, popping_finish _ _ _, Nat.le_refl _, rfl⟩⟩
    · exact ⟨rfl, Or.inl ⟨hp, by simp [popping], length_ainsert_ge _ _ _, rfl⟩⟩
  · -- lenTest
    rename_i v hpc
    have hp : popping t = false := by simp [popping, hpc]
    split
    · rename_i hlen
      exact ⟨rfl, Or.inr (Or.inl ⟨hp, by simp [popping, Thread.running, hrf, hx], rfl, hlen, rfl⟩)⟩
    · exact ⟨rfl, Or.inl ⟨hp, popping_finish _ _ _, Nat.le_refl _, rfl⟩⟩
  · -- pop
    rename_i v hpc
    have hp : popping t = true := by simp [popping, Thread.running, hpc, hrf, hx]
    split
    · rename_i es hes
      refine ⟨rfl, Or.inr (Or.inr ⟨hp, popping_finish _ _ _, hrf, Or.inl ⟨?_, ?_, ?_⟩⟩)⟩
      · intro h0; rw [h0] at hes; simp [popitem] at hes
      · exact length_popitem hes
      · simpa [Thread.finish] using hrf
    · rename_i hes
      have h0 := popitem_eq_none hes
      split
      · rename_i hg
        exact ⟨rfl, Or.inr (Or.inr ⟨hp, popping_finish _ _ _, hrf,
          Or.inr ⟨h0, by simp [Thread.finish, hrf, hg]⟩⟩)⟩
      · rename_i hg
        exact ⟨rfl, Or.inr (Or.inr ⟨hp, by simp [popping, Thread.running], hrf,
          Or.inr ⟨h0, by simp [hg]⟩⟩)⟩

def nPop (m : Machine α κ β) : Nat := m.threads.countP popping

/-- counting invariant: no thread is dead, and whenever `p ≥ 1` threads stand between the
    length test and the pop, `len + T ≥ p + maxsize + 1` -/
def CntInv (m : Machine α κ β) : Prop :=
  (∀ t ∈ m.threads, t.raised = false) ∧
  (1 ≤ nPop m → (m.cache.entries.length : Int) + m.threads.length ≥ nPop m + m.cache.maxsize + 1)

theorem stepAt_cnt (P : Policy) (S : CacheSpec α κ β) (m : Machine α κ β) (i : Nat)
    (hT : (m.threads.length : Int) ≤ m.cache.maxsize + 1) (h : CntInv m) :
    CntInv (stepAt P S m i) ∧ (stepAt P S m i).cache.maxsize = m.cache.maxsize ∧
    (stepAt P S m i).threads.length = m.threads.length := by
  unfold stepAt
  split
  · exact ⟨h, rfl, rfl⟩
  · rename_i t hti
    have hlt : i < m.threads.length := (List.getElem?_eq_some_iff.mp hti).1
    have hget : m.threads[i] = t := (List.getElem?_eq_some_iff.mp hti).2
    have hmem : t ∈ m.threads := List.mem_of_getElem? hti
    obtain ⟨hm, hcases⟩ := stepThread_cnt P S m.cache t
    have hcnt := List.countP_set (p := popping) (l := m.threads) (a := (stepThread P S m.cache t).2) hlt
    rw [hget] at hcnt
    have hle : m.threads.countP popping ≤ m.threads.length := List.countP_le_length
    have hpos : popping t = true → 1 ≤ m.threads.countP popping :=
      fun hp => List.countP_pos_iff.mpr ⟨t, hmem, hp⟩
    have hraised : ∀ (b : Bool), (stepThread P S m.cache t).2.raised = b → b = false →
        ∀ t' ∈ m.threads.set i (stepThread P S m.cache t).2, t'.raised = false := by
      intro b hb hbf t' ht'
      rcases List.mem_or_eq_of_mem_set ht' with ht' | ht'
      · exact h.1 t' ht'
      · rw [ht', hb, hbf]
    refine ⟨⟨?_, ?_⟩, hm, by simp⟩
    · rcases hcases with ⟨_, _, _, hr⟩ | ⟨_, _, _, _, hr⟩ | ⟨hp, _, hrf, hh | hh⟩
      · exact hraised _ hr (h.1 t hmem)
      · exact hraised _ hr (h.1 t hmem)
      · exact hraised _ hh.2.2 rfl
      · -- the dict is empty at a pop: impossible under the thread bound
        exfalso
        have h2 := h.2 (hpos hp)
        have : m.cache.entries.length = 0 := by rw [hh.1]; rfl
        have := hpos hp
        simp only [nPop] at h2
        omega
    · simp only [nPop, List.length_set]
      have h2 := h.2
      simp only [nPop] at h2
      rcases hcases with ⟨hp, hp', hl, _⟩ | ⟨hp, hp', hl, hgt, _⟩ | ⟨hp, hp', _, hh | hh⟩
      · rw [hcnt, hp, hp']; simp only [Bool.false_eq_true, ↓reduceIte, Nat.sub_zero, Nat.add_zero]
        intro h1; have := h2 h1; omega
      · rw [hcnt, hp, hp']; simp only [Bool.false_eq_true, ↓reduceIte, Nat.sub_zero]
        intro _
        rw [hl]
        -- the new count is at most T because the stepping thread was not counted before
        have hlt' : m.threads.countP popping < m.threads.length := by
          have := List.countP_set (p := fun t => !popping t) (l := m.threads) (a := t) hlt
          have hne : m.threads.countP (fun t => !popping t) ≥ 1 :=
            List.countP_pos_iff.mpr ⟨t, hmem, by simp [hp]⟩
          have hsum := List.length_eq_countP_add_countP (p := popping) (l := m.threads)
          simp only [Bool.not_eq_true] at hsum
          have : m.threads.countP (fun t => !popping t) = m.threads.countP (fun a => decide (popping a = false)) := by
            congr 1; funext a; cases popping a <;> rfl
          omega
        omega
      · rw [hcnt, hp, hp']; simp only [↓reduceIte, Bool.false_eq_true, Nat.add_zero]
        intro h1
        have h3 := h2 (hpos hp)
        have := hpos hp
        omega
      · exfalso
        have h3 := h2 (hpos hp)
        have : m.cache.entries.length = 0 := by rw [hh.1]; rfl
        have := hpos hp
        omega

theorem runSched_cnt (P : Policy) (S : CacheSpec α κ β) (sched : List Nat) :
    ∀ (m : Machine α κ β), (m.threads.length : Int) ≤ m.cache.maxsize + 1 → CntInv m →
    CntInv (runSched P S m sched) := by
  induction sched with
  | nil => intro m _ h; exact h
  | cons i rest ih =>
    intro m hT h
    obtain ⟨a, b, c⟩ := stepAt_cnt P S m i hT h
    simp only [runSched, List.foldl_cons]
    exact ih (stepAt P S m i) (by rw [b, c]; exact hT) a

theorem cntInv_spawn (c : FuseCache κ β) (progs : List (List α)) :
    CntInv (⟨c, spawn progs⟩ : Machine α κ β) := by
  have h0 : ∀ t ∈ (spawn progs : List (Thread α β)), t.raised = false ∧ popping t = false := by
    intro t ht
    simp only [spawn, List.mem_map] at ht
    obtain ⟨p, _, rfl⟩ := ht
    exact ⟨rfl, by simp [popping]⟩
  refine ⟨fun t ht => (h0 t ht).1, ?_⟩
  intro h1
  exfalso
  simp only [nPop] at h1
  obtain ⟨t, ht, hp⟩ := List.countP_pos_iff.mp h1
  rw [(h0 t ht).2] at hp
  cases hp

end count

/-! ### mode context -/
section mode
open ModeCtx
variable {μ : Type}

mutual
  theorem exec_noBareSet : ∀ (a : Act μ) (s : State μ), noBareSet a = true → (exec a s).state = s
    | .set _, _, h => by simp [noBareSet] at h
    | .get, _, _ => by simp [exec]
    | .raise, _, _ => by simp [exec]
    | .withMode _ _, _, _ => by simp [exec]
    | .tryExcept body, s, h => by
        simp only [noBareSet] at h
        simp only [exec]
        exact execList_noBareSet body s h
  theorem execList_noBareSet : ∀ (l : List (Act μ)) (s : State μ), noBareSetList l = true →
      (execList l s).state = s
    | [], _, _ => by simp [execList]
    | a :: rest, s, h => by
        simp only [noBareSetList, Bool.and_eq_true] at h
        simp only [execList]
        have h1 := exec_noBareSet a s h.1
        split
        · exact h1
        · simp only
          rw [h1]
          exact execList_noBareSet rest s h.2
end

end mode
end SymmModel.C15
