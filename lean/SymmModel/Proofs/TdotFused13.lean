/-
  SymmModel.Proofs.TdotFused13 — one group that lists every axis (`SoloOk`): the fused array is
  a vector; its element map.  Products of fused vectors / matrices entry by entry.
  Namespace `SymmModel.TdotP`.
-/
import SymmModel.Proofs.TdotFused12

namespace SymmModel
namespace TdotP
variable {R : Type}

/-- one non-empty group that lists every axis exactly once -/
structure SoloOk (A : Arr R) (g : List Nat) : Prop where
  ne : g ≠ []
  perm : g.Perm (List.range A.ndim)

section Solo
variable {A : Arr R} {g : List Nat}

theorem SoloOk.groupsOk (h : SoloOk A g) : FuseP.GroupsOk [g] A.ndim := by
  refine ⟨by simp, ?_, ?_, ?_⟩
  · intro g' hg
    simp only [List.mem_cons, List.not_mem_nil, or_false] at hg
    rw [hg]; exact h.ne
  · intro ax hax
    simp only [List.flatten_cons, List.flatten_nil, List.append_nil] at hax
    exact List.mem_range.mp (h.perm.subset hax)
  · simp only [List.flatten_cons, List.flatten_nil, List.append_nil]
    exact h.perm.nodup_iff.mpr List.nodup_range

theorem SoloOk.ndim_pos (h : SoloOk A g) : 0 < A.ndim := by
  cases hg : g with
  | nil => exact absurd hg h.ne
  | cons x xs =>
    have : x ∈ List.range A.ndim := h.perm.subset (by simp [hg])
    have := List.mem_range.mp this
    omega

theorem SoloOk.mem_flatten (h : SoloOk A g) {ax : Nat} (hax : ax < A.ndim) :
    ax ∈ [g].flatten := by
  simp only [List.flatten_cons, List.flatten_nil, List.append_nil]
  exact h.perm.symm.subset (List.mem_range.mpr hax)

theorem solo_position (h : SoloOk A g) : (FuseP.giM A [g]).position = 0 := by
  have hok := FuseP.hokD h.groupsOk
  exact Nat.eq_zero_of_le_zero ((FuseP.position_spec hok).2 0 (h.mem_flatten h.ndim_pos))

theorem solo_after (h : SoloOk A g) : (FuseP.giM A [g]).axesAfter = [] := by
  rw [List.eq_nil_iff_forall_not_mem]
  intro ax hax
  obtain ⟨h1, _, h3⟩ := FuseP.mem_axesAfter.mp hax
  rw [FuseP.duals_length] at h1
  exact h3 (h.mem_flatten h1)

theorem solo_before (h : SoloOk A g) : (FuseP.giM A [g]).axesBefore = [] := by
  rw [FuseP.axesBefore_eq (FuseP.hokD h.groupsOk), solo_position h]; rfl

theorem solo_perm (h : SoloOk A g) : (FuseP.giM A [g]).perm = g := by
  rw [FuseP.perm_eq, solo_before h, solo_after h]; simp

theorem solo_ndimM (h : SoloOk A g) : FuseP.ndimM A [g] = 1 := by
  simp [FuseP.ndimM, solo_position h, solo_after h]

theorem solo_newIdx (h : SoloOk A g) : FuseP.newIdxM A [g] = [FuseP.ixM A [g] 0] := by
  have hl : (FuseP.newIdxM A [g]).length = 1 := by
    rw [FuseP.newIdxM_length h.groupsOk, solo_ndimM h]
  match hn : FuseP.newIdxM A [g], hl with
  | [x], _ =>
    simp only [FuseP.ixM, solo_position h, Nat.zero_add, hn, List.getD_cons_zero]

theorem solo_newSector (h : SoloOk A g) (sb : Sector × Blk R) :
    (FuseP.planM A [g] sb).newSector = [FuseP.cM (a := A) (groups := [g]) sb 0] := by
  rw [FuseP.nsM_parts h.groupsOk, solo_position h, solo_after h]
  rfl

/-- **element map of a one-group fuse.**  `A` fused into the single group `g` that lists all its
    axes is a vector; its element at `([c],[i])` is `A`'s element at the address whose re-listing
    along `g` is the decoded (sub-charges, sub-offsets). -/
theorem solo_elem [Zero R] [Neg R] (hv : FuseP.ValidArr A) (hph : A.phases = []) (hp : SoloOk A g)
    {c : Charge} {i : Nat} {S : Sector} {O : List Nat} {d : Nat}
    (h1 : decAx A [g] 0 c i = some (S, O))
    (hz : (FuseP.ixM A [g] 0).sizeOf? c = some d) (hi : i < d)
    {s : Sector} {offs : List Nat} (hs : s.length = A.ndim) (ho : offs.length = A.ndim)
    (hs1 : permuted s g = S) (ho1 : permuted offs g = O) :
    (FuseP.fusedArrM A [g]).elem [c] [i] = A.elem s offs := by
  have hok := hp.groupsOk
  have hpos := solo_position hp
  have e0 : ([g] : List (List Nat))[0]? = some g := rfl
  rw [Arr.elem_of_phases_nil (show (FuseP.fusedArrM A [g]).phases = [] from hph),
    Arr.elem_of_phases_nil hph]
  show (match alookup (FuseP.fusedBlocksM A [g]) [c] with
    | none => 0
    | some blk => blk.get [i]) = _
  cases hB : alookup (FuseP.fusedBlocksM A [g]) [c] with
  | some B =>
    simp only []
    obtain ⟨sb0, hsb0, hns0, hBs⟩ := FuseP.fusedBlockM_info hv hok hB
    have hshape := FuseP.shape_storedM hv hok hsb0
    rw [hns0, solo_newIdx hp, Arr.blockShape?_cons, hz, Arr.blockShape?_nil_nil] at hshape
    simp only [Option.bind_some, Option.map_some, Option.some.injEq] at hshape
    have hib : inBox B.shape [i] = true := by
      rw [hBs, ← hshape]; simp [inBox, hi]
    obtain ⟨_, hget⟩ := FuseP.fused_getM hv hok hB hib
    have hseg0 : FuseP.segM A [g] [c] [i] 0 = (S, O) :=
      segM_of_dec (by rw [hpos]; exact h1)
    have hK : permuted s (FuseP.giM A [g]).perm = FuseP.expandK A [g] [c] [i] := by
      rw [solo_perm hp]
      simp only [FuseP.expandK, hpos, List.take_zero, List.nil_append, List.length_cons, List.length_nil,
        List.range_succ, List.range_zero, List.map_cons, List.map_nil, hseg0,
        List.append_nil, List.drop_succ_cons, List.drop_nil, Nat.zero_add]
      rw [hs1]
      simp
    have hJ : permuted offs (FuseP.giM A [g]).perm = FuseP.expandJ A [g] [c] [i] := by
      rw [solo_perm hp]
      simp only [FuseP.expandJ, hpos, List.take_zero, List.nil_append, List.length_cons, List.length_nil,
        List.range_succ, List.range_zero, List.map_cons, List.map_nil, hseg0,
        List.append_nil, List.drop_succ_cons, List.drop_nil, Nat.zero_add]
      rw [ho1]
      simp
    rw [(hget s offs hs ho hK hJ).1]
    cases alookup A.blocks s <;> rfl
  | none =>
    simp only []
    cases hb : alookup A.blocks s with
    | none => rfl
    | some b =>
      exfalso
      have hsb : (s, b) ∈ A.blocks := alookup_mem hb
      obtain ⟨B, hB', _⟩ := FuseP.fusedBlockM_exists hv hok hsb
      rw [solo_newSector hp, cM_of_dec hv hok e0 h1 hs hs1, hB] at hB'
      cases hB'

end Solo

theorem fused_solo_validB [Zero R] {A : Arr R} {g : List Nat} (hv : A.validB = true)
    (hf : A.fermi = false) (hp : SoloOk A g) : (FuseP.fusedArrM A [g]).validB = true := by
  refine ValidP.fuseCore_insert_validB A _ [g] hv hf ?_
    (FuseP.fuseCore_multi_eq (FuseP.validArr_of_validB hv) hp.groupsOk)
  have hok := hp.groupsOk
  simp only [ValidP.fuseAdmissibleB, Bool.and_eq_true, List.all_eq_true, decide_eq_true_eq]
  exact ⟨allDistinct_iff_nodup.mpr hok.nodup, hok.lt⟩

/-! ### vector · vector -/

theorem freeAxes_1_0 : freeAxes 1 [0] = [] := by decide

/-- blockwise product of two rank-1 arrays (full contraction): the element at `([],[])` is the
    sum over the charges `c` of `X`'s index and the positions `k` inside `c` of `X[c,k] · Y[c,k]` -/
theorem vv_elem [AddCommMonoid R] [Mul R] [Neg R]
    (hz1 : ∀ x : R, 0 * x = 0) (hz2 : ∀ x : R, x * 0 = 0) (X Y : Arr R) (xK yK : Index)
    (hXi : X.indices = [xK]) (hYi : Y.indices = [yK])
    (hpX : X.phases = []) (hpY : Y.phases = [])
    (hdX : allDistinct X.sectors = true) (hdY : allDistinct Y.sectors = true)
    (hsX : X.shapesOk) (hsY : Y.shapesOk) (hndK : (xK.cm.map (·.1)).Nodup) :
    (tensordotBlockwise X Y [] [0] [0] []).elem [] [] =
      (xK.cm.map (fun cd => ((List.range cd.2).map (fun k =>
        X.elem [cd.1] [k] * Y.elem [cd.1] [k])).sum)).sum := by
  have hX1 : X.ndim = 1 := by simp [Arr.ndim, hXi]
  have hY1 : Y.ndim = 1 := by simp [Arr.ndim, hYi]
  have hcover : ∀ sa ∈ X.sectors, permuted sa [0] ∈ xK.cm.map (fun cd => [cd.1]) := by
    intro sa hsa
    obtain ⟨p, hp, rfl⟩ := List.mem_map.mp hsa
    have hsh := hsX p hp
    rw [hXi] at hsh
    match hps : p.1, charges_of_blockShape? hsh with
    | [c1], .cons hc1 .nil =>
      obtain ⟨cd, hcd, rfl⟩ := List.mem_map.mp hc1
      exact List.mem_map.mpr ⟨cd, hcd, by simp [permuted]⟩
  have hbox : inBox (Arr.blockShapeD (without X.indices [0] ++ without Y.indices [0]) ([] ++ []))
      [] = true := by
    have e1 : without X.indices [0] = [] := by rw [hXi]; rfl
    have e2 : without Y.indices [0] = [] := by rw [hYi]; rfl
    rw [e1, e2]
    rfl
  have h := tensordotBlockwise_elem_dense' hz1 hz2 X Y [0] [0] hpX hpY hdX hdY hsX hsY
    (by simp) (by simp [hX1]) (by simp) (by simp [hY1]) rfl
    (xK.cm.map (fun cd => [cd.1]))
    (by
      have : xK.cm.map (fun cd => [cd.1]) = (xK.cm.map (·.1)).map (fun c => [c]) := by
        rw [List.map_map]; rfl
      rw [this]; exact hndK.map (fun x y h => by simpa using h))
    (by intro K hK; obtain ⟨cd, _, rfl⟩ := List.mem_map.mp hK; rfl)
    hcover [] [] (by rw [hX1, freeAxes_1_0]; rfl) (by rw [hY1, freeAxes_1_0]; rfl) [] hbox
  rw [hX1, hY1, freeAxes_1_0] at h
  rw [show ([] : Sector) = [] ++ [] from rfl, h, List.map_map]
  apply sum_map_congr
  rintro ⟨c, D⟩ hcd
  have hzK : xK.sizeOf? c = some D := alookup_of_mem_nodup hndK hcd
  have hshape : Arr.blockShapeD X.indices [c] = [D] := by
    rw [hXi]
    simp only [Arr.blockShapeD, Arr.blockShape?_cons, Arr.blockShape?_nil_nil, hzK,
      Option.bind_some, Option.map_some, Option.getD_some]
  have e1 : mergeSec 1 [0] [c] [] = [c] := by
    simp [mergeSec, mergeIdx, freeAxes_1_0, indexOf?, List.range_succ]
  simp only [Function.comp, contractPair, e1, hshape, List.take_nil, List.drop_nil, List.length_nil]
  have e3 : permuted [D] [0] = [D] := rfl
  rw [e3, allIdx_single, List.map_map]
  apply sum_map_congr
  intro k _
  simp only [Function.comp, contractTerm, hX1, hY1, freeAxes_1_0]
  have e4 : mergeIdx 0 1 [0] [] [k] [] = [k] := by
    simp [mergeIdx, indexOf?, List.range_succ]
  rw [e4]
  rfl

end TdotP
end SymmModel
