/-
  SymmModel.Proofs.FuseMultiR4 — the general round trip: the stage that unfuses a multi-axis
  group, and the iteration over all groups.
-/
import SymmModel.Proofs.FuseMultiR3
namespace SymmModel
namespace FuseP
set_option linter.unusedSectionVars false

variable {R : Type}

section Multi
variable {a : Arr R} {groups : List (List Nat)} [Zero R]

/-- the expanded lists of stage `j+1` around the group position -/
theorem partG_succ_parts {α : Type} {L : List α} {seg : Nat → List α} {pos k j : Nat} (hj : j < k)
    (hl : pos + k ≤ L.length) :
    partG L seg pos k (j + 1) = L.take (pos + (k - (j + 1))) ++ seg (k - (j + 1)) ++ tailG L seg pos k j := by
  have hp' : pos + k - (j + 1) = pos + (k - (j + 1)) := by omega
  simp only [partG, tailG, hp', List.append_assoc]

theorem partG_parts {α : Type} {L : List α} {seg : Nat → List α} {pos k j : Nat} (d : α) (hj : j < k)
    (hl : pos + k ≤ L.length) :
    partG L seg pos k j = L.take (pos + (k - (j + 1))) ++ [L.getD (pos + (k - (j + 1))) d] ++ tailG L seg pos k j := by
  have hp : pos + k - j = pos + (k - (j + 1)) + 1 := by omega
  simp only [partG, hp]
  rw [take_succ_getD L d (by omega)]

theorem stage_multi (hc : ValidP.Core a) (hok : GroupsOk groups a.ndim) {j : Nat} (hj : j < groups.length)
    (hm : multiB groups (groups.length - (j + 1)) = true) {X : Arr R} (h : StageInv a groups j X) :
    ∃ X', unfuseA X ((giM a groups).position + (groups.length - (j + 1))) = .ok X'
      ∧ StageInv a groups (j + 1) X' := by
  have hv := validArr_of_core hc
  have hvX := validArr_of_core h.core
  have hg : groups.length - (j + 1) < groups.length := by omega
  obtain ⟨gaxes, hgg, hlen⟩ := multiB_iff.1 hm
  have hgd : groups.getD (groups.length - (j + 1)) [] = gaxes := by simp [List.getD_eq_getElem?_getD, hgg]
  -- abbreviations are avoided: `g = groups.length - (j+1)`, `p = position + g`
  have hlN : ∀ sb : Sector × Blk R, (giM a groups).position + groups.length ≤ (planM a groups sb).newSector.length := by
    intro sb; rw [planM_newSector_length hok]; exact ndimM_ge
  have hlB : ∀ sb : Sector × Blk R, (giM a groups).position + groups.length ≤ (BshM a groups sb).length := by
    intro sb; rw [BshM_length]; exact ndimM_ge
  have hlJ : ∀ (sb : Sector × Blk R) offs, (giM a groups).position + groups.length ≤ (joinI a groups sb offs).length := by
    intro sb offs; rw [joinI_length]; exact ndimM_ge
  have hlI : (giM a groups).position + groups.length ≤ (newIdxM a groups).length := by
    rw [newIdxM_length hok]; exact ndimM_ge
  -- the index at the group position
  have hplt : (giM a groups).position + (groups.length - (j + 1)) < X.indices.length := by
    rw [h.idx, idxStage, partG_length (Nat.le_of_lt hj) hlI]; omega
  have hix : X.indices[(giM a groups).position + (groups.length - (j + 1))]? = some (ixM a groups (groups.length - (j + 1))) := by
    rw [getElem?_of_getD _ default hplt, h.idx, idxStage,
      partG_getD_low default (Nat.le_of_lt hj) hlI (by omega)]
    rfl
  have hsub := ixM_sub (a := a) hok hgg hlen
  obtain ⟨Y, hY, hYidx, hYsym, _, _, _, _, hA, hB⟩ := unfuseU hvX hix hsub
  -- per-group boxes
  have hsegbox : ∀ sb ∈ a.blocks, ∀ offs, inBox sb.2.shape offs = true → ∀ g, g < groups.length →
      inBox (segSh groups sb g) (segO groups offs g) = true := by
    intro sb hsb offs ho g hg'
    have hgg' : groups[g]? = some groups[g] := List.getElem?_eq_getElem hg'
    have hgd' : groups.getD g [] = groups[g] := by simp [List.getD_eq_getElem?_getD, hgg']
    have hshape := blockShape?_length (hv.blk sb hsb).2.1
    have hshl : sb.2.shape.length = a.ndim := by rw [hshape.2]; exact (hv.blk sb hsb).1
    simp only [segSh, segO, hgd']
    apply inBox_map_getD ho
    intro ax hax; rw [hshl]; exact groupM_lt hok hgg' ax hax
  -- facts about a stored block at this stage
  have hstored : ∀ sb ∈ a.blocks, ∃ V e, alookup X.blocks (KM a groups sb j) = some V ∧ V.shape = SM a groups sb j
      ∧ (∀ offs, inBox sb.2.shape offs = true → V.get (IM a groups sb offs j) = sb.2.get offs)
      ∧ (KM a groups sb j).getD ((giM a groups).position + (groups.length - (j + 1))) (0, 0)
          = cM (a := a) (groups := groups) sb (groups.length - (j + 1))
      ∧ alookup (extsM a groups (groups.length - (j + 1))) (cM (a := a) (groups := groups) sb (groups.length - (j + 1))) = some e
      ∧ startOf e (segS groups sb (groups.length - (j + 1)))
          = some (stM a groups sb (groups.length - (j + 1)), dM (a := a) (groups := groups) sb (groups.length - (j + 1)))
      ∧ Arr.blockShape? (gaxes.map (fun ax => a.indices.getD ax default)) (segS groups sb (groups.length - (j + 1)))
          = some (segSh groups sb (groups.length - (j + 1)))
      ∧ dM (a := a) (groups := groups) sb (groups.length - (j + 1)) = prod (segSh groups sb (groups.length - (j + 1))) := by
    intro sb hsb
    obtain ⟨V, hV, hVs, hVg⟩ := h.here sb hsb
    obtain ⟨e, D, t1, t2, _, _, _⟩ := stored_tableM hv hok hgg hlen hsb
    refine ⟨V, e, hV, hVs, hVg, ?_, t1, ?_, ?_, ?_⟩
    · simp only [KM]
      rw [partG_getD_low (0, 0) (Nat.le_of_lt hj) (hlN sb) (by omega)]
      rfl
    · rw [ssM_eq hgg] at t2
      simp only [segS, hgd]; exact t2
    · simp only [segS, segSh, hgd]
      exact blockShape?_map (hv.blk sb hsb).2.1 gaxes (groupM_lt hok hgg)
    · rw [dM_eq hok hgg]; simp only [segSh, hgd]
  refine ⟨Y, hY, ?_, ?_, ?_, ?_, ?_⟩
  · exact ValidP.unfuseA_core X Y _ h.core hY
  · rw [hYsym, h.sym]
  · rw [hYidx, h.idx]
    simp only [idxStage]
    rw [partG_succ hj hlI]
    simp only [segIx, hgd]
  · -- every stored block is where it should be
    intro sb hsb
    obtain ⟨V, e, hV, hVs, hVg, hKp, he, hst, hbs, hdM⟩ := hstored sb hsb
    have hmem : (KM a groups sb j, V) ∈ X.blocks := alookup_some_mem hV
    obtain ⟨subshape, hbs', hprod, hlook, hget⟩ := hA (KM a groups sb j, V) hmem e
      (segS groups sb (groups.length - (j + 1))) _ _ (by simp only; rw [hKp]; exact he) hst
    rw [hbs] at hbs'
    simp only [Option.some.injEq] at hbs'; subst hbs'
    refine ⟨_, by simp only [KM]; rw [partG_succ hj (hlN sb)]; exact hlook, ?_, ?_⟩
    · show replaceWithSeq V.shape _ _ = _
      rw [hVs]; simp only [SM]; rw [partG_succ hj (hlB sb)]
    · intro offs ho
      obtain ⟨B, hBl, hBbox, _⟩ := fused_ontoM hv hok hsb ho
      obtain ⟨B', _, hBs'⟩ := fusedBlockM_exists hv hok hsb
      have hbase : inBox (BshM a groups sb) (joinI a groups sb offs) = true := by
        obtain ⟨B'', hB'', hBs''⟩ := fusedBlockM_exists hv hok hsb
        rw [hBl] at hB''; simp only [Option.some.injEq] at hB''; subst hB''
        rw [← hBs'']; exact hBbox
      have hJbox : inBox (replaceWithSeq V.shape ((giM a groups).position + (groups.length - (j + 1)))
          (segSh groups sb (groups.length - (j + 1)))) (IM a groups sb offs (j + 1)) = true := by
        rw [hVs]
        have := partG_inBox (S := BshM a groups sb) (I := joinI a groups sb offs) (ms := segSh groups sb)
          (og := segO groups offs) (pos := (giM a groups).position) (k := groups.length) hbase
          (fun g hg' => hsegbox sb hsb offs ho g hg') (j := j + 1) (by omega)
        simp only [SM, IM]
        rw [← partG_succ hj (hlB sb)]
        exact this
      rw [hget _ hJbox, ← hVg offs ho]
      congr 1
      -- the collapsed offsets are the offsets of the previous stage
      have hIl : ((joinI a groups sb offs).take ((giM a groups).position + (groups.length - (j + 1)))).length
          = (giM a groups).position + (groups.length - (j + 1)) := by
        rw [List.length_take, joinI_length]; have := ndimM_ge (a := a) (groups := groups); omega
      have hsl : (segO groups offs (groups.length - (j + 1))).length
          = (segSh groups sb (groups.length - (j + 1))).length := by simp [segO, segSh]
      have hparts := partG_succ_parts (L := joinI a groups sb offs) (seg := segO groups offs) hj (hlJ sb offs)
      have h3 := three_split ((joinI a groups sb offs).take ((giM a groups).position + (groups.length - (j + 1))))
        (segO groups offs (groups.length - (j + 1)))
        (tailG (joinI a groups sb offs) (segO groups offs) (giM a groups).position groups.length j)
      rw [hIl, hsl] at h3
      simp only [IM]
      rw [hparts, h3.1, h3.2.1, h3.2.2, partG_parts 0 hj (hlJ sb offs), joinI_mid sb offs hg]
      rfl
  · -- nothing else is non-zero
    intro K' V' hl' J hJ
    obtain ⟨nsB, hmem, e', ss', st', d', he', hst', hK', hV'⟩ := hB K' V' hl'
    obtain ⟨subshape', hbs', hprod', _, hget'⟩ := hA nsB hmem e' ss' st' d' he' hst'
    have hsub' : (Arr.blockShape? (gaxes.map (fun ax => a.indices.getD ax default)) ss').getD [] = subshape' := by
      rw [hbs']; rfl
    rw [hsub'] at hV'
    subst hV'
    have hJ' : inBox (replaceWithSeq nsB.2.shape ((giM a groups).position + (groups.length - (j + 1))) subshape') J = true := hJ
    rw [hget' J hJ']
    obtain ⟨hp1, _, hBl, e'', he'', hext⟩ := block_at_axis hvX hix hsub hmem
    rw [he'] at he''; simp only [Option.some.injEq] at he''; subst he''
    have hpB : (giM a groups).position + (groups.length - (j + 1)) < nsB.2.shape.length := by omega
    have hbound : st' + d' ≤ nsB.2.shape.getD ((giM a groups).position + (groups.length - (j + 1))) 0 := by
      have := startOf_bound hst'; rw [hext.total] at this; exact this
    obtain ⟨hcbox, hsegJ⟩ := collapse_inBox hpB hprod' hbound hJ'
    have hlk : alookup X.blocks nsB.1 = some nsB.2 := alookup_of_mem_nodup hvX.nodup hmem
    rcases h.only nsB.1 nsB.2 hlk _ hcbox with ⟨sb, hsb, offs, ho, hKeq, hJeq⟩ | h0
    · left
      obtain ⟨V, e, hV, hVs, hVg, hKp, he, hst, hbs, hdM⟩ := hstored sb hsb
      -- same extent
      rw [hKeq, hKp, he] at he'
      simp only [Option.some.injEq] at he'; subst he'
      -- compare the positions on the fused axis
      have hIl : ((joinI a groups sb offs).take ((giM a groups).position + (groups.length - (j + 1)))).length
          = (giM a groups).position + (groups.length - (j + 1)) := by
        rw [List.length_take, joinI_length]; have := ndimM_ge (a := a) (groups := groups); omega
      have hJl := inBox_length hJ'
      simp only [replaceWithSeq_split, List.length_append, List.length_take, List.length_drop] at hJl
      have hJtl : (J.take ((giM a groups).position + (groups.length - (j + 1)))).length
          = (giM a groups).position + (groups.length - (j + 1)) := by
        rw [List.length_take]; omega
      have hpos := congrArg (fun l => l.getD ((giM a groups).position + (groups.length - (j + 1))) 0) hJeq
      simp only [IM] at hpos
      rw [partG_getD_low 0 (Nat.le_of_lt hj) (hlJ sb offs) (by omega), joinI_mid sb offs hg] at hpos
      have hcg := getD_mid (J.take ((giM a groups).position + (groups.length - (j + 1))))
        [st' + ravel subshape' ((J.drop ((giM a groups).position + (groups.length - (j + 1)))).take subshape'.length)]
        (J.drop ((giM a groups).position + (groups.length - (j + 1)) + subshape'.length)) 0 0 (by simp)
      rw [hJtl] at hcg
      simp only [Nat.add_zero, List.getD_cons_zero] at hcg
      rw [hcg] at hpos
      have hr' := ravel_lt hsegJ
      rw [hprod'] at hr'
      have hsb' := hsegbox sb hsb offs ho _ hg
      have hr := ravel_lt hsb'
      rw [← hdM] at hr
      have hgd2 : segSh groups sb (groups.length - (j + 1)) = (groups.getD (groups.length - (j + 1)) []).map (fun ax => sb.2.shape.getD ax 0) := rfl
      have hgd3 : segO groups offs (groups.length - (j + 1)) = (groups.getD (groups.length - (j + 1)) []).map (fun ax => offs.getD ax 0) := rfl
      rw [← hgd2, ← hgd3] at hpos
      have hsseq : ss' = segS groups sb (groups.length - (j + 1)) := by
        by_cases hq : ss' = segS groups sb (groups.length - (j + 1))
        · exact hq
        · have := startOf_disjoint hst' hst hq; omega
      subst hsseq
      rw [hst] at hst'
      simp only [Option.some.injEq, Prod.mk.injEq] at hst'
      obtain ⟨rfl, rfl⟩ := hst'
      rw [hbs] at hbs'
      simp only [Option.some.injEq] at hbs'; subst hbs'
      have hrav : ravel (segSh groups sb (groups.length - (j + 1)))
          ((J.drop ((giM a groups).position + (groups.length - (j + 1)))).take (segSh groups sb (groups.length - (j + 1))).length)
          = ravel (segSh groups sb (groups.length - (j + 1))) (segO groups offs (groups.length - (j + 1))) := by omega
      have hsegeq : (J.drop ((giM a groups).position + (groups.length - (j + 1)))).take (segSh groups sb (groups.length - (j + 1))).length
          = segO groups offs (groups.length - (j + 1)) := by
        rw [← unravel_ravel hsegJ, hrav, unravel_ravel hsb']
      refine ⟨sb, hsb, offs, ho, ?_, ?_⟩
      · rw [hK', hKeq]; simp only [KM]; rw [partG_succ hj (hlN sb)]
      · -- reassemble `J`
        have hJsplit : J = J.take ((giM a groups).position + (groups.length - (j + 1)))
            ++ (J.drop ((giM a groups).position + (groups.length - (j + 1)))).take (segSh groups sb (groups.length - (j + 1))).length
            ++ J.drop ((giM a groups).position + (groups.length - (j + 1)) + (segSh groups sb (groups.length - (j + 1))).length) :=
          list_split3 J _ _
        have h3 := three_split (J.take ((giM a groups).position + (groups.length - (j + 1))))
          [stM a groups sb (groups.length - (j + 1)) + ravel (segSh groups sb (groups.length - (j + 1)))
            ((J.drop ((giM a groups).position + (groups.length - (j + 1)))).take (segSh groups sb (groups.length - (j + 1))).length)]
          (J.drop ((giM a groups).position + (groups.length - (j + 1)) + (segSh groups sb (groups.length - (j + 1))).length))
        rw [hJtl, hJeq] at h3
        simp only [List.length_cons, List.length_nil, Nat.zero_add] at h3
        have hparts := partG_parts (L := joinI a groups sb offs) (seg := segO groups offs) 0 hj (hlJ sb offs)
        have h3' := three_split ((joinI a groups sb offs).take ((giM a groups).position + (groups.length - (j + 1))))
          [(joinI a groups sb offs).getD ((giM a groups).position + (groups.length - (j + 1))) 0]
          (tailG (joinI a groups sb offs) (segO groups offs) (giM a groups).position groups.length j)
        rw [hIl] at h3'
        simp only [List.length_cons, List.length_nil, Nat.zero_add] at h3'
        simp only [IM] at h3
        rw [hparts] at h3
        rw [h3'.1] at h3
        rw [h3'.2.2] at h3
        rw [hJsplit, hsegeq, ← h3.1, ← h3.2.2]
        simp only [IM]
        rw [partG_succ_parts hj (hlJ sb offs)]
    · exact Or.inr h0

end Multi

end FuseP
end SymmModel
