/-
  SymmModel.Proofs.FuseFermi3 — fermionic fuse: the sign-adjusted operand is a valid synchronised
  array whose value is the transposed value times an explicit sign per sector.
-/
import SymmModel.Proofs.FuseFermi2
import SymmModel.Proofs.LazyLemmas
import SymmModel.Proofs.ValidFuseF
namespace SymmModel
namespace FuseP
set_option linter.unusedSectionVars false
open SymmModel.Lazy

variable {R : Type}

section F
variable [Zero R] [Neg R]

/-- the sign the fermionic fuse applies to sector `S` of the TRANSPOSED array: the flip of the
    non-dual legs of the dual groups and the virtual reversal of the dual groups -/
def fuseSignT (a : Arr R) (groups : List (List Nat)) (S : Sector) : Int :=
  flipSign a.sym (axesFlipF a groups) S
    * (if (dualGroupsF a groups).isEmpty then 1 else koszul (S.map a.sym.parity) (some (vpermF a groups)))

theorem fuseSignT_pm (a : Arr R) (groups : List (List Nat)) (S : Sector) :
    fuseSignT a groups S = 1 ∨ fuseSignT a groups S = -1 := by
  unfold fuseSignT
  apply mul_pm (flipSign_pm _ _ _)
  split
  · exact Or.inl rfl
  · exact koszul_pm _ _

theorem signAdj_fields (a : Arr R) (groups : List (List Nat)) :
    (signAdj a groups).phases = [] ∧ (signAdj a groups).indices = permuted a.indices (calcFuseGroupInfo groups a.duals).perm
      ∧ (signAdj a groups).sym = a.sym ∧ (signAdj a groups).fermi = a.fermi
      ∧ (signAdj a groups).charge = a.charge ∧ (signAdj a groups).oddpos = a.oddpos := by
  have hpf := ValidP.phaseFlip_fields (a.transposeF (calcFuseGroupInfo groups a.duals).perm) (axesFlipF a groups)
  unfold signAdj
  split
  · exact ⟨rfl, hpf.1, hpf.2.1, hpf.2.2.2.2, hpf.2.2.1, hpf.2.2.2.1⟩
  · exact ⟨rfl, hpf.1, hpf.2.1, hpf.2.2.2.2, hpf.2.2.1, hpf.2.2.2.1⟩

theorem signAdj_valid (a : Arr R) (groups : List (List Nat)) (hv : a.validB = true) (hf : a.fermi = true)
    (hok : GroupsOk groups a.ndim) : ValidP.Valid (signAdj a groups) := by
  have hVa := (ValidP.validB_iff a).1 hv
  have hisp : Arr.isPerm (calcFuseGroupInfo groups a.duals).perm a.ndim = true := by
    have := perm_isPerm (hokD hok); rwa [duals_length] at this
  have v1 := ValidP.transposeF_valid a _ true hVa hf hisp
  have f1 : (a.transposeF (calcFuseGroupInfo groups a.duals).perm).fermi = true := hf
  have v2 := ValidP.phaseFlip_valid _ (axesFlipF a groups) v1 f1
  have f2 : ((a.transposeF (calcFuseGroupInfo groups a.duals).perm).phaseFlip (axesFlipF a groups)).fermi = true := by
    rw [(ValidP.phaseFlip_fields _ _).2.2.2.2]; exact f1
  unfold signAdj
  split
  · exact ValidP.phaseSync_valid _ v2
  · exact ValidP.phaseSync_valid _ (ValidP.phaseTranspose_valid _ _ v2 f2)

/-- **value of the sign-adjusted operand** -/
theorem signAdj_elem [LawfulNeg R] (a : Arr R) (groups : List (List Nat)) (S : Sector) (J : List Nat) :
    (signAdj a groups).elem S J
      = sgnI (fuseSignT a groups S) ((a.transposeF (calcFuseGroupInfo groups a.duals).perm).elem S J) := by
  have h1 : SignOk (a.transposeF (calcFuseGroupInfo groups a.duals).perm) := SignOk.transposeF a _
  have h2 := h1.phaseFlip (axesFlipF a groups)
  have hsym : (a.transposeF (calcFuseGroupInfo groups a.duals).perm).sym = a.sym := rfl
  have hsym2 : ((a.transposeF (calcFuseGroupInfo groups a.duals).perm).phaseFlip (axesFlipF a groups)).sym = a.sym :=
    (ValidP.phaseFlip_fields _ _).2.1
  unfold signAdj fuseSignT
  rw [phaseSync_elem]
  split
  · rw [phaseFlip_elem _ _ h1, hsym]; simp
  · rw [phaseTranspose_elem _ _ h2, phaseFlip_elem _ _ h1, hsym,
      sgnI_mul (flipSign_pm _ _ _) (koszul_pm _ _)]
    have hp : ((a.transposeF (calcFuseGroupInfo groups a.duals).perm).phaseFlip (axesFlipF a groups)).parities S
        = S.map a.sym.parity := by
      simp only [Arr.parities, hsym2]
    rw [hp]
    -- the two signs commute
    rcases flipSign_pm a.sym (axesFlipF a groups) S with e1 | e1 <;>
      rcases koszul_pm (S.map a.sym.parity) (some (vpermF a groups)) with e2 | e2 <;>
      simp [e1, e2]

end F

end FuseP
end SymmModel
