/-
  SymmModel.Proofs.TdotFused1 — C06, `aligned_fused_tables_match`, generic part:
  the table of a fused index is determined by the SET of sub-sectors it is built from and by the
  charge tables / relative directions of the sub-indices.  Namespace `SymmModel.TdotP`.
-/
import SymmModel.Proofs.TdotMore
import SymmModel.Proofs.FuseMultiAll

namespace SymmModel
namespace TdotP
variable {R : Type}

/-! ### sorted lists with the same elements are equal -/

theorem eq_of_perm_of_pairwise {α : Type} {lt : α → α → Prop}
    (hasym : ∀ a b, lt a b → lt b a → False) :
    ∀ {l1 l2 : List α}, l1.Pairwise lt → l2.Pairwise lt → l1.Perm l2 → l1 = l2
  | [], l2, _, _, hp => by rw [List.nil_perm] at hp; exact hp.symm
  | x :: xs, [], _, _, hp => by simp at hp
  | x :: xs, y :: ys, h1, h2, hp => by
    rw [List.pairwise_cons] at h1 h2
    have hxy : x = y := by
      have hx : x ∈ y :: ys := hp.subset (by simp)
      have hy : y ∈ x :: xs := hp.symm.subset (by simp)
      rcases List.mem_cons.mp hx with e | hx'
      · exact e
      · rcases List.mem_cons.mp hy with e | hy'
        · exact e.symm
        · exact absurd (h1.1 y hy') (fun h => hasym _ _ h (h2.1 x hx'))
    subst hxy
    rw [eq_of_perm_of_pairwise hasym h1.2 h2.2 (List.perm_cons _ |>.mp hp)]

/-- two entry lists whose entries are functions of their keys (by the same function) and that have
    the same key set give the same canonical (sorted, de-duplicated) list -/
theorem sortedEntries_eq {E1 E2 : List (Sector × Charge × Nat)} (P : Sector × Charge × Nat → Prop)
    (hfun : ∀ x y, P x → P y → x.1 = y.1 → x = y)
    (h1 : ∀ x ∈ E1, P x) (h2 : ∀ x ∈ E2, P x)
    (hkeys : ∀ k, k ∈ E1.map (·.1) ↔ k ∈ E2.map (·.1)) :
    FuseP.sortedEntries E1 = FuseP.sortedEntries E2 := by
  have hasym : ∀ a b : Sector × Charge × Nat, sectorLt a.1 b.1 = true → sectorLt b.1 a.1 = true → False := by
    intro a b hab hba
    have := FuseP.sectorLt_trans _ _ _ hab hba
    rw [FuseP.sectorLt_irrefl] at this; cases this
  apply eq_of_perm_of_pairwise hasym (FuseP.sortedEntries_pairwise E1) (FuseP.sortedEntries_pairwise E2)
  have nd : ∀ E : List (Sector × Charge × Nat), (FuseP.sortedEntries E).Nodup :=
    fun E => List.Nodup.of_map _ (FuseP.sortedEntries_nodup E)
  rw [List.perm_ext_iff_of_nodup (nd E1) (nd E2)]
  have key : ∀ (Ea Eb : List (Sector × Charge × Nat)), (∀ x ∈ Ea, P x) → (∀ x ∈ Eb, P x) →
      (∀ k, k ∈ Ea.map (·.1) → k ∈ Eb.map (·.1)) →
      ∀ x, x ∈ FuseP.sortedEntries Ea → x ∈ FuseP.sortedEntries Eb := by
    intro Ea Eb ha hb hk x hx
    have hxa := FuseP.mem_sortedEntries Ea hx
    have hkx : x.1 ∈ (FuseP.sortedEntries Eb).map (·.1) :=
      (FuseP.mem_keys_sortedEntries Eb).2 (hk _ (List.mem_map.2 ⟨x, hxa, rfl⟩))
    obtain ⟨y, hy, hy1⟩ := List.mem_map.1 hkx
    have := hfun y x (hb y (FuseP.mem_sortedEntries Eb hy)) (ha x hxa) hy1
    rw [← this]; exact hy
  intro x
  exact ⟨key E1 E2 h1 h2 (fun k => (hkeys k).1) x, key E2 E1 h2 h1 (fun k => (hkeys k).2) x⟩

/-! ### `EntryOk` only looks at the charge tables and the relative directions -/

theorem blockShape?_congr_cm {idx idx' : List Index} (h : idx.map Index.cm = idx'.map Index.cm)
    (s : Sector) : Arr.blockShape? idx s = Arr.blockShape? idx' s := by
  have hl : idx.length = idx'.length := by simpa using congrArg List.length h
  have e : List.zipWith (fun (ix : Index) c => ix.sizeOf? c) idx s =
      List.zipWith (fun (ix : Index) c => ix.sizeOf? c) idx' s := by
    have e1 : ∀ l : List Index, List.zipWith (fun (ix : Index) c => ix.sizeOf? c) l s =
        List.zipWith (fun cm c => alookup cm c) (l.map Index.cm) s := by
      intro l; rw [List.zipWith_map_left]; rfl
    rw [e1, e1, h]
  unfold Arr.blockShape?
  rw [hl, e]

theorem entryOk_congr {sym : Sym} {g g' : Bool} {subs subs' : List Index}
    (hcm : subs.map Index.cm = subs'.map Index.cm)
    (hd : subs'.map (fun ix => g' != ix.dual) = subs.map (fun ix => g != ix.dual))
    {x : Sector × Charge × Nat} (h : FuseP.EntryOk sym g subs x) : FuseP.EntryOk sym g' subs' x := by
  obtain ⟨h1, ⟨shp, h2, h3⟩, h4, h5⟩ := h
  have hl : subs.length = subs'.length := by simpa using congrArg List.length hcm
  refine ⟨by omega, ⟨shp, by rw [← blockShape?_congr_cm hcm]; exact h2, h3⟩, ?_, h5⟩
  rw [← h4]
  have e : ∀ (gg : Bool) (l : List Index),
      List.zipWith (fun c' (sub : Index) => sym.sign c' (gg != sub.dual)) x.1 l =
      List.zipWith (fun c' d => sym.sign c' d) x.1 (l.map (fun ix => gg != ix.dual)) := by
    intro gg l; rw [List.zipWith_map_right]
  rw [e, e, hd]

/-! ### two arrays with the same contracted sub-sectors have the same fused bond table -/

/-- **fused tables match (generic).**  Two valid arrays of the same symmetry, a multi-axis group on
    each, the sub-indices of the groups with equal charge tables and opposite directions, and the
    same SET of stored sub-sectors on the groups: the two fused indices have the same chargemap,
    the same extents (same sub-sectors in the same order with the same sizes) and opposite
    directions. -/
theorem fused_tables_match {A B : Arr R} {GA GB : List (List Nat)} {gA gB : Nat} {xa xb : List Nat}
    (hvA : FuseP.ValidArr A) (hvB : FuseP.ValidArr B) (hsym : A.sym = B.sym)
    (hokA : FuseP.GroupsOk GA A.ndim) (hokB : FuseP.GroupsOk GB B.ndim)
    (hgA : GA[gA]? = some xa) (hgB : GB[gB]? = some xb)
    (hlenA : xa.length ≠ 1) (hlen : xa.length = xb.length)
    (hcm : (xa.map (fun ax => A.indices.getD ax default)).map Index.cm
      = (xb.map (fun ax => B.indices.getD ax default)).map Index.cm)
    (hdual : (xb.map (fun ax => B.indices.getD ax default)).map Index.dual
      = (xa.map (fun ax => A.indices.getD ax default)).map (fun ix => !ix.dual))
    (hkeys : ∀ K, K ∈ A.blocks.map (fun sb => xa.map (fun ax => sb.1.getD ax (0, 0))) ↔
      K ∈ B.blocks.map (fun sb => xb.map (fun ax => sb.1.getD ax (0, 0)))) :
    (FuseP.ixM A GA gA).cm = (FuseP.ixM B GB gB).cm
    ∧ FuseP.extsM A GA gA = FuseP.extsM B GB gB
    ∧ (FuseP.ixM A GA gA).dual = !(FuseP.ixM B GB gB).dual := by
  have hlenB : xb.length ≠ 1 := by omega
  -- directions of the two groups
  have hxa_ne : xa ≠ [] := hokA.gne xa (FuseP.getElem?_mem' hgA)
  have hxb_ne : xb ≠ [] := hokB.gne xb (FuseP.getElem?_mem' hgB)
  have hgdA : (FuseP.giM A GA).groupDuals.getD gA false = (A.indices.getD (xa.headD 0) default).dual := by
    rw [FuseP.groupDuals_getD _ _ _ _ hgA]
    simp only [Arr.duals, List.getD_eq_getElem?_getD, List.getElem?_map]
    cases A.indices[xa.headD 0]? <;> rfl
  have hgdB : (FuseP.giM B GB).groupDuals.getD gB false = (B.indices.getD (xb.headD 0) default).dual := by
    rw [FuseP.groupDuals_getD _ _ _ _ hgB]
    simp only [Arr.duals, List.getD_eq_getElem?_getD, List.getElem?_map]
    cases B.indices[xb.headD 0]? <;> rfl
  have hgd : (FuseP.giM B GB).groupDuals.getD gB false = !(FuseP.giM A GA).groupDuals.getD gA false := by
    rw [hgdA, hgdB]
    cases xa with
    | nil => exact absurd rfl hxa_ne
    | cons i xa' =>
      cases xb with
      | nil => exact absurd rfl hxb_ne
      | cons j xb' =>
        simp only [List.map_cons, List.cons.injEq] at hdual
        exact hdual.1
  -- the canonical entry lists coincide
  have hE : FuseP.sortedEntries (FuseP.tableEntries (FuseP.blockmapOf A GA) (FuseP.giM A GA).position gA)
      = FuseP.sortedEntries (FuseP.tableEntries (FuseP.blockmapOf B GB) (FuseP.giM B GB).position gB) := by
    apply sortedEntries_eq (FuseP.EntryOk A.sym ((FuseP.giM A GA).groupDuals.getD gA false)
      (xa.map (fun ax => A.indices.getD ax default)))
      (fun x y hx hy h => FuseP.entryOk_functional hx hy h)
      (FuseP.tableEntries_entryOk hvA hokA hgA hlenA)
    · intro x hx
      have := FuseP.tableEntries_entryOk hvB hokB hgB hlenB x hx
      rw [← hsym] at this
      refine entryOk_congr hcm.symm ?_ this
      rw [hgd]
      have e1 : (xa.map (fun ax => A.indices.getD ax default)).map
          (fun ix => (FuseP.giM A GA).groupDuals.getD gA false != ix.dual)
          = ((xa.map (fun ax => A.indices.getD ax default)).map Index.dual).map
            (fun d => (FuseP.giM A GA).groupDuals.getD gA false != d) := by simp only [List.map_map, Function.comp_def]
      have e2 : (xb.map (fun ax => B.indices.getD ax default)).map
          (fun ix => (!(FuseP.giM A GA).groupDuals.getD gA false) != ix.dual)
          = ((xb.map (fun ax => B.indices.getD ax default)).map Index.dual).map
            (fun d => (!(FuseP.giM A GA).groupDuals.getD gA false) != d) := by simp only [List.map_map, Function.comp_def]
      rw [e1, e2, hdual]
      simp only [List.map_map]
      apply List.map_congr_left
      intro ax _
      simp only [Function.comp]
      cases (FuseP.giM A GA).groupDuals.getD gA false <;> cases (A.indices.getD ax default).dual <;> rfl
    · intro K
      have eA : (FuseP.tableEntries (FuseP.blockmapOf A GA) (FuseP.giM A GA).position gA).map (·.1)
          = A.blocks.map (fun sb => xa.map (fun ax => sb.1.getD ax (0, 0))) := by
        simp only [FuseP.tableEntries, FuseP.blockmapOf, List.map_map]
        apply List.map_congr_left
        intro sb _
        exact FuseP.ssM_eq (a := A) hgA sb
      have eB : (FuseP.tableEntries (FuseP.blockmapOf B GB) (FuseP.giM B GB).position gB).map (·.1)
          = B.blocks.map (fun sb => xb.map (fun ax => sb.1.getD ax (0, 0))) := by
        simp only [FuseP.tableEntries, FuseP.blockmapOf, List.map_map]
        apply List.map_congr_left
        intro sb _
        exact FuseP.ssM_eq (a := B) hgB sb
      rw [eA, eB]; exact hkeys K
  refine ⟨?_, ?_, ?_⟩
  · rw [FuseP.ixM_multi hokA hgA hlenA, FuseP.ixM_multi hokB hgB hlenB, FuseP.fusedIndexOf_eq,
      FuseP.fusedIndexOf_eq, hE]
    rfl
  · simp only [FuseP.extsM]
    rw [FuseP.ixM_multi hokA hgA hlenA, FuseP.ixM_multi hokB hgB hlenB, FuseP.fusedIndexOf_eq,
      FuseP.fusedIndexOf_eq, hE]
    rfl
  · rw [FuseP.ixM_dual hokA hgA hlenA, FuseP.ixM_dual hokB hgB hlenB, hgd]; simp

/-! ### the aligned operands of `tensordotViaFused` -/

theorem dropTo_cm (ix : Index) (S : List Charge) :
    (dropTo ix S).cm = ix.cm.filter (fun p => S.contains p.1) := by
  rw [dropTo_eq_dropCharges]
  obtain ⟨c, d, s⟩ := ix
  simp only [Index.dropCharges, Index.cm, Index.charges]
  apply List.filter_congr
  intro p hp
  have hm : p.1 ∈ c.map (·.1) := List.mem_map.mpr ⟨p, hp, rfl⟩
  rw [Bool.eq_iff_iff]
  simp only [List.contains_eq_mem, decide_eq_false_iff_not, List.mem_filter,
    decide_eq_true_eq, not_and, Bool.not_eq_eq_eq_not, Bool.not_true, Decidable.not_not]
  exact ⟨fun h => h hm, fun h _ => h⟩

theorem dropTo_dual (ix : Index) (S : List Charge) : (dropTo ix S).dual = ix.dual := by
  rw [dropTo_eq_dropCharges]
  obtain ⟨c, d, s⟩ := ix
  rfl

theorem dropUnused_getD (ixs : List Index) (S : List Sector) {i : Nat} (hi : i < ixs.length) :
    (dropUnused ixs S).getD i default = dropTo (ixs.getD i default) (S.filterMap (fun s => s[i]?)) := by
  rw [List.getD_eq_getElem?_getD, dropUnused_getElem?, List.getD_eq_getElem?_getD,
    List.getElem?_eq_getElem hi]
  rfl

/-- after aligning, the two operands store the same set of contracted sub-sectors -/
theorem aligned_keys (a b : Arr R) (xa xb : List Nat) (K : Sector) :
    K ∈ subKeys (dropMisaligned a b xa xb).1 xa ↔ K ∈ subKeys (dropMisaligned a b xa xb).2 xb := by
  constructor
  · intro h
    obtain ⟨s, hs, rfl⟩ := List.mem_map.mp h
    obtain ⟨p, hp, rfl⟩ := List.mem_map.mp hs
    rw [dropMisaligned_fst_blocks] at hp
    obtain ⟨hpa, hc⟩ := List.mem_filter.mp hp
    simp only [List.contains_eq_mem, decide_eq_true_eq] at hc
    obtain ⟨y, hy, hyk⟩ := List.mem_map.mp hc
    refine List.mem_map.mpr ⟨y, mem_sectors_dropMisaligned_snd hy ?_, hyk⟩
    rw [hyk]; exact mem_subKeys_of_mem hpa
  · intro h
    obtain ⟨s, hs, rfl⟩ := List.mem_map.mp h
    obtain ⟨p, hp, rfl⟩ := List.mem_map.mp hs
    rw [dropMisaligned_snd_blocks] at hp
    obtain ⟨hpb, hc⟩ := List.mem_filter.mp hp
    simp only [List.contains_eq_mem, decide_eq_true_eq] at hc
    obtain ⟨x, hx, hxk⟩ := List.mem_map.mp hc
    refine List.mem_map.mpr ⟨x, mem_sectors_dropMisaligned_fst hx ?_, hxk⟩
    rw [hxk]; exact mem_subKeys_of_mem hpb

theorem mem_zip_getElem? {α β : Type} {l1 : List α} {l2 : List β} {p : α × β} (h : p ∈ l1.zip l2) :
    ∃ t : Nat, l1[t]? = some p.1 ∧ l2[t]? = some p.2 := by
  obtain ⟨t, ht⟩ := List.mem_iff_getElem?.mp h
  exact ⟨t, List.getElem?_zip_eq_some.mp ht⟩

theorem sectors_dropMisaligned_sub (a b : Arr R) (xa xb : List Nat) :
    (∀ s ∈ (dropMisaligned a b xa xb).1.sectors, s ∈ a.sectors) ∧
    (∀ s ∈ (dropMisaligned a b xa xb).2.sectors, s ∈ b.sectors) := by
  constructor
  · intro s hs
    rw [Arr.sectors, dropMisaligned_fst_blocks] at hs
    obtain ⟨p, hp, rfl⟩ := List.mem_map.mp hs
    exact List.mem_map.mpr ⟨p, (List.mem_filter.mp hp).1, rfl⟩
  · intro s hs
    rw [Arr.sectors, dropMisaligned_snd_blocks] at hs
    obtain ⟨p, hp, rfl⟩ := List.mem_map.mp hs
    exact List.mem_map.mpr ⟨p, (List.mem_filter.mp hp).1, rfl⟩

/-- after aligning, matched contracted legs still have equal charge tables (both were pruned to
    the same set of charges) and opposite directions -/
theorem aligned_cm_dual (a b : Arr R) (xa xb : List Nat)
    (hla : ∀ s ∈ a.sectors, s.length = a.ndim) (hlb : ∀ s ∈ b.sectors, s.length = b.ndim)
    (hxa' : ∀ x ∈ xa, x < a.ndim) (hxb' : ∀ x ∈ xb, x < b.ndim)
    (hc : ValidP.contractibleB a b xa xb = true) :
    (xa.map (fun ax => (dropMisaligned a b xa xb).1.indices.getD ax default)).map Index.cm
      = (xb.map (fun ax => (dropMisaligned a b xa xb).2.indices.getD ax default)).map Index.cm
    ∧ (xb.map (fun ax => (dropMisaligned a b xa xb).2.indices.getD ax default)).map Index.dual
      = (xa.map (fun ax => (dropMisaligned a b xa xb).1.indices.getD ax default)).map
          (fun ix => !ix.dual) := by
  unfold ValidP.contractibleB at hc
  simp only [Bool.and_eq_true, beq_iff_eq, List.all_eq_true, bne_iff_ne, ne_eq] at hc
  obtain ⟨hlen, hzip⟩ := hc
  obtain ⟨hsubA, hsubB⟩ := sectors_dropMisaligned_sub a b xa xb
  rw [dropMisaligned_fst_indices, dropMisaligned_snd_indices]
  simp only [List.map_map]
  constructor
  · apply map_eq_map_of_zip _ _ xa xb hlen
    intro p hp
    obtain ⟨t, ht1, ht2⟩ := mem_zip_getElem? hp
    have hi : p.1 < a.indices.length := hxa' _ (List.mem_of_getElem? ht1)
    have hj : p.2 < b.indices.length := hxb' _ (List.mem_of_getElem? ht2)
    simp only [Function.comp]
    rw [dropUnused_getD _ _ hi, dropUnused_getD _ _ hj, dropTo_cm, dropTo_cm, (hzip p hp).1]
    apply List.filter_congr
    intro q _
    rw [Bool.eq_iff_iff]
    simp only [List.contains_eq_mem, decide_eq_true_eq, List.mem_filterMap]
    constructor
    · rintro ⟨s, hs, hsc⟩
      have hK : permuted s xa ∈ subKeys (dropMisaligned a b xa xb).1 xa := List.mem_map.mpr ⟨s, hs, rfl⟩
      obtain ⟨s', hs', hk⟩ := List.mem_map.mp ((aligned_keys a b xa xb _).mp hK)
      refine ⟨s', hs', ?_⟩
      have e1 := permuted_getElem?_of s (by rw [hla s (hsubA s hs)]; exact hxa') ht1
      have e2 := permuted_getElem?_of s' (by rw [hlb s' (hsubB s' hs')]; exact hxb') ht2
      rw [← e2, hk, e1]; exact hsc
    · rintro ⟨s', hs', hsc⟩
      have hK : permuted s' xb ∈ subKeys (dropMisaligned a b xa xb).2 xb := List.mem_map.mpr ⟨s', hs', rfl⟩
      obtain ⟨s, hs, hk⟩ := List.mem_map.mp ((aligned_keys a b xa xb _).mpr hK)
      refine ⟨s, hs, ?_⟩
      have e1 := permuted_getElem?_of s (by rw [hla s (hsubA s hs)]; exact hxa') ht1
      have e2 := permuted_getElem?_of s' (by rw [hlb s' (hsubB s' hs')]; exact hxb') ht2
      rw [← e1, hk, e2]; exact hsc
  · apply map_eq_map_of_zip _ _ xb xa hlen.symm
    intro p hp
    have hp' : (p.2, p.1) ∈ xa.zip xb := by
      obtain ⟨t, ht1, ht2⟩ := mem_zip_getElem? hp
      exact (List.mem_iff_getElem?.mpr ⟨t, List.getElem?_zip_eq_some.mpr ⟨ht2, ht1⟩⟩)
    obtain ⟨t, ht1, ht2⟩ := mem_zip_getElem? hp
    have hj : p.1 < b.indices.length := hxb' _ (List.mem_of_getElem? ht1)
    have hi : p.2 < a.indices.length := hxa' _ (List.mem_of_getElem? ht2)
    simp only [Function.comp]
    rw [dropUnused_getD _ _ hi, dropUnused_getD _ _ hj, dropTo_dual, dropTo_dual]
    have := (hzip _ hp').2
    simp only at this
    cases h1 : (a.indices.getD p.2 default).dual <;> cases h2 : (b.indices.getD p.1 default).dual <;>
      simp_all

end TdotP
end SymmModel
