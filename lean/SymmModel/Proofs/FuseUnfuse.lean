/-
  SymmModel.Proofs.FuseUnfuse — `unfuseA` as a pure function, and the block-level round trip
  `unfuse ∘ fuse` for one multi-axis group.
-/
import SymmModel.Proofs.FuseSem
namespace SymmModel
namespace FuseP
set_option linter.unusedSectionVars false

variable {R : Type}

/-! ### `unfuseA`, explicitly -/

/-- the pieces one block is cut into -/
def piecesOf [Zero R] (subIdx : List Index) (exts : Extents) (axis : Nat) (sb : Sector × Blk R) :
    List (Sector × Blk R) :=
  (((alookup exts (sb.1.getD axis (0, 0))).getD []).zip
      (offsets (((alookup exts (sb.1.getD axis (0, 0))).getD []).map (·.2)))).map (fun q =>
    (replaceWithSeq sb.1 axis q.1.1,
     (sb.2.sliceK ((List.replicate sb.2.shape.length 0).set axis q.2) (sb.2.shape.set axis q.1.2)).reshapeK
        (replaceWithSeq sb.2.shape axis ((Arr.blockShape? subIdx q.1.1).getD []))))

theorem unfuseA_eq [Zero R] (x : Arr R) (axis : Nat) (ix : Index) (subIdx : List Index) (exts : Extents)
    (h1 : x.indices[axis]? = some ix) (h2 : ix.sub = some (subIdx, exts))
    (h3 : ∀ sb ∈ x.blocks, ∃ ext, alookup exts (sb.1.getD axis (0, 0)) = some ext
      ∧ ∀ q ∈ ext, ∃ shp, Arr.blockShape? subIdx q.1 = some shp) :
    unfuseA x axis = .ok { x with indices := replaceWithSeq x.indices axis subIdx,
                                  blocks := adict (x.blocks.flatMap (piecesOf subIdx exts axis)) } := by
  unfold unfuseA
  simp only [h1, h2, bind, Except.bind, pure, Except.pure]
  rw [foldlM_ok _ (fun acc sb => (piecesOf subIdx exts axis sb).foldl (fun m p => ainsert m p.1 p.2) acc)]
  · simp only [foldl_ainsertAll_flatMap]
    rfl
  · intro acc sb hsb
    obtain ⟨s, b⟩ := sb
    obtain ⟨ext, he, hq⟩ := h3 (s, b) hsb
    simp only [he]
    rw [mapM_ok_of_forall _ (fun q : (Sector × Nat) × Nat =>
      (replaceWithSeq s axis q.1.1,
       (b.sliceK ((List.replicate b.shape.length 0).set axis q.2) (b.shape.set axis q.1.2)).reshapeK
          (replaceWithSeq b.shape axis ((Arr.blockShape? subIdx q.1.1).getD []))))]
    · simp only [piecesOf, he, Option.getD_some]
    · intro q hqm
      obtain ⟨⟨ss, d⟩, st⟩ := q
      obtain ⟨shp, hshp⟩ := hq (ss, d) (List.of_mem_zip hqm).1
      simp only [hshp, Option.getD_some]

/-! ### list helpers -/

theorem replaceWithSeq_mid {α : Type} (x y : List α) (u : α) (seq : List α) :
    replaceWithSeq (x ++ [u] ++ y) x.length seq = x ++ seq ++ y := by
  simp [replaceWithSeq, List.drop_append]

theorem inBox_add_set {sh i : List Nat} {p st d : Nat} (hi : inBox (sh.set p d) i = true)
    (hp : p < sh.length) (hb : st + d ≤ sh.getD p 0) :
    inBox sh (List.zipWith (· + ·) i ((List.replicate sh.length 0).set p st)) = true
      ∧ (List.zipWith (· + ·) i ((List.replicate sh.length 0).set p st)).getD p 0 = i.getD p 0 + st := by
  have hb' := inBox_iff.1 hi
  simp only [List.length_set] at hb'
  have hl : i.length = ((List.replicate sh.length 0).set p st).length := by simp [hb'.1]
  refine ⟨inBox_iff.2 ⟨by simp [hb'.1], ?_⟩, ?_⟩
  · intro k hk
    rw [getD_zipWith_add hl, getD_set]
    have := hb'.2 k hk
    rw [getD_set] at this
    by_cases hpk : p = k
    · subst hpk
      simp only [hp, and_self, if_true, List.length_replicate] at this ⊢
      omega
    · simp only [hpk, false_and, if_false, List.length_replicate] at this ⊢
      simp only [List.getD_eq_getElem?_getD, List.getElem?_replicate, hk, if_true, Option.getD_some,
        Nat.add_zero] at this ⊢
      exact this
  · rw [getD_zipWith_add hl, getD_set]
    simp [hp]

section One
variable {a : Arr R} {gaxes : List Nat}

theorem permuted_sector (hok : GroupsOk [gaxes] a.ndim) {s : Sector} (hs : s.length = a.ndim) :
    permuted s (gi1 a gaxes).perm = preOf a gaxes s ++ ssOf gaxes s ++ postOf a gaxes s := by
  have hb : ∀ ax ∈ (gi1 a gaxes).axesBefore, ax < s.length := by
    intro ax h; rw [hs]; exact before_lt hok ax h
  have ha : ∀ ax ∈ (gi1 a gaxes).axesAfter, ax < s.length := by
    intro ax h; rw [hs]; exact after_lt ax h
  have hg : ∀ ax ∈ gaxes, ax < s.length := by
    intro ax h; rw [hs]; exact gaxes_lt hok ax h
  rw [perm_eq, permuted_append, permuted_append]
  simp only [List.flatten_cons, List.flatten_nil, List.append_nil]
  rw [permuted_eq_map _ (0, 0) _ hb, permuted_eq_map _ (0, 0) _ ha, permuted_eq_map _ (0, 0) _ hg]
  rfl

theorem permuted_shape (hok : GroupsOk [gaxes] a.ndim) {shp : List Nat} (hs : shp.length = a.ndim) :
    permuted shp (gi1 a gaxes).perm = shPre a gaxes shp ++ shMid gaxes shp ++ shPost a gaxes shp := by
  have hb : ∀ ax ∈ (gi1 a gaxes).axesBefore, ax < shp.length := by
    intro ax h; rw [hs]; exact before_lt hok ax h
  have ha : ∀ ax ∈ (gi1 a gaxes).axesAfter, ax < shp.length := by
    intro ax h; rw [hs]; exact after_lt ax h
  have hg : ∀ ax ∈ gaxes, ax < shp.length := by
    intro ax h; rw [hs]; exact gaxes_lt hok ax h
  rw [perm_eq, permuted_append, permuted_append]
  simp only [List.flatten_cons, List.flatten_nil, List.append_nil]
  rw [permuted_eq_map _ 0 _ hb, permuted_eq_map _ 0 _ ha, permuted_eq_map _ 0 _ hg]
  rfl

theorem permuted_indices (hok : GroupsOk [gaxes] a.ndim) :
    permuted a.indices (gi1 a gaxes).perm
      = permuted a.indices (gi1 a gaxes).axesBefore ++ subs1 a gaxes ++ permuted a.indices (gi1 a gaxes).axesAfter := by
  rw [perm_eq, permuted_append, permuted_append]
  simp only [List.flatten_cons, List.flatten_nil, List.append_nil]
  rw [permuted_eq_map _ default gaxes (gaxes_lt hok)]
  rfl

variable [Zero R]

/-- the fused array -/
def fusedArr (a : Arr R) (gaxes : List Nat) : Arr R :=
  { a with indices := newIndices1 a gaxes, blocks := fusedBlocks a gaxes }

theorem fuseCore_one_eq (hv : ValidArr a) (hok : GroupsOk [gaxes] a.ndim) (hlen : gaxes.length ≠ 1) :
    fuseCore a [gaxes] .insert = .ok (fusedArr a gaxes) := by
  unfold fuseCore
  rw [calcFuseBlockInfo_eq hv hok]
  simp only [bind, Except.bind, fuseInsert_one_eq hv hok hlen, pure, Except.pure, newIndices_one hok hlen]
  rfl

/-- everything the table and the invariant say about a block of the fused array -/
theorem fusedBlock_info (hv : ValidArr a) (hok : GroupsOk [gaxes] a.ndim) (hlen : gaxes.length ≠ 1)
    {nsB : Sector × Blk R} (h : nsB ∈ fusedBlocks a gaxes) :
    ∃ sb0 ∈ a.blocks, nsOf a gaxes sb0.1 = nsB.1 ∧ alookup (fusedBlocks a gaxes) nsB.1 = some nsB.2
      ∧ nsB.2.shape = shPre a gaxes sb0.2.shape ++ [DOf a gaxes (cOf a gaxes sb0.1)] ++ shPost a gaxes sb0.2.shape
      ∧ nsB.1.getD (gi1 a gaxes).position (0, 0) = cOf a gaxes sb0.1 := by
  have hinv := fusedBlocks_inv hv hok hlen
  obtain ⟨ns, B⟩ := nsB
  have hl : alookup (fusedBlocks a gaxes) ns = some B := alookup_of_mem_nodup hinv.nodup h
  have hk : ns ∈ (a.blocks.map (toItem a gaxes)).map (·.1) :=
    (hinv.keys ns).1 (List.mem_map.2 ⟨_, h, rfl⟩)
  simp only [List.map_map, List.mem_map, Function.comp] at hk
  obtain ⟨sb0, hsb0, hns⟩ := hk
  have hns' : nsOf a gaxes sb0.1 = ns := hns
  refine ⟨sb0, hsb0, hns', hl, ?_, ?_⟩
  · have := hinv.shape ns B hl
    rw [this, ← hns']
    simp [shapeOf1, shapeOf1_stored hv hok hlen hsb0]
  · simp only
    rw [← hns', nsOf_getD_pos hok]

theorem src_wf (hv : ValidArr a) (hok : GroupsOk [gaxes] a.ndim) {sb : Sector × Blk R} (hsb : sb ∈ a.blocks) :
    (toItem a gaxes sb).2.2.wf = true := by
  have hshape := blockShape?_length (hv.blk sb hsb).2.1
  have hl : sb.2.shape.length = a.ndim := by rw [hshape.2]; exact (hv.blk sb hsb).1
  simp only [toItem, Blk.reshapeK, Blk.wf, beq_iff_eq]
  have h1 : (sb.2.transposeK (gi1 a gaxes).perm).data.size = prod (permuted sb.2.shape (gi1 a gaxes).perm) := by
    simp [Blk.transposeK, Blk.ofFn, allIdx_length]
  rw [h1, permuted_shape hok hl]
  simp only [newShapeOf, prod_append, prod, Nat.mul_one]

/-- **yes-case**: the piece cut out for the sub-sector of a stored block is the transposed block -/
theorem piece_yes (hv : ValidArr a) (hok : GroupsOk [gaxes] a.ndim) (hlen : gaxes.length ≠ 1)
    {sb : Sector × Blk R} (hsb : sb ∈ a.blocks) {B : Blk R}
    (hB : alookup (fusedBlocks a gaxes) (nsOf a gaxes sb.1) = some B) :
    (B.sliceK ((List.replicate B.shape.length 0).set (gi1 a gaxes).position (stOf a gaxes sb.1))
        (B.shape.set (gi1 a gaxes).position (prod (shMid gaxes sb.2.shape)))).reshapeK
      (replaceWithSeq B.shape (gi1 a gaxes).position ((Arr.blockShape? (subs1 a gaxes) (ssOf gaxes sb.1)).getD []))
      = sb.2.transposeK (gi1 a gaxes).perm := by
  have hinv := fusedBlocks_inv hv hok hlen
  have hshape := blockShape?_length (hv.blk sb hsb).2.1
  have hl : sb.2.shape.length = a.ndim := by rw [hshape.2]; exact (hv.blk sb hsb).1
  have hBs : B.shape = shPre a gaxes sb.2.shape ++ [DOf a gaxes (cOf a gaxes sb.1)] ++ shPost a gaxes sb.2.shape := by
    rw [hinv.shape _ B hB]; simp [shapeOf1, shapeOf1_stored hv hok hlen hsb]
  have hBl : B.shape.length = (newIndices1 a gaxes).length := by rw [hBs, fusedShape_length hok]
  have hpos : (gi1 a gaxes).position < B.shape.length := by rw [hBl, newIndices1_length hok]; omega
  obtain ⟨e, D, st, h1, h2, h3, h4⟩ := stored_in_table hv hok hlen hsb
  have hst : stOf a gaxes sb.1 = st := by simp [stOf, h1, h2]
  have hD : DOf a gaxes (cOf a gaxes sb.1) = D := by simp [DOf, h3]
  have hlens : B.shape.set (gi1 a gaxes).position (prod (shMid gaxes sb.2.shape)) = newShapeOf a gaxes sb.2.shape := by
    rw [hBs, ← newShapeOf_eq_set hok]
  have hBpos : B.shape.getD (gi1 a gaxes).position 0 = D := by
    rw [hBs, ← shPre_length hok sb.2.shape, hD]; simp
  -- the slice is the source block
  have hslice : B.sliceK ((List.replicate B.shape.length 0).set (gi1 a gaxes).position (stOf a gaxes sb.1))
      (B.shape.set (gi1 a gaxes).position (prod (shMid gaxes sb.2.shape))) = (toItem a gaxes sb).2.2 := by
    have hsrc_shape : (toItem a gaxes sb).2.2.shape = newShapeOf a gaxes sb.2.shape := rfl
    rw [← ofFn_get_self _ (src_wf hv hok hsb), hsrc_shape, hlens]
    unfold Blk.sliceK
    apply ofFn_congr
    intro i hi
    rw [← hlens] at hi
    have hbnd : stOf a gaxes sb.1 + prod (shMid gaxes sb.2.shape) ≤ B.shape.getD (gi1 a gaxes).position 0 := by
      rw [hBpos, hst, ← h4]; exact startOf_bound h2
    obtain ⟨hbox, hget⟩ := inBox_add_set hi hpos hbnd
    have hbox' : inBox (shapeOf1 a gaxes (nsOf a gaxes sb.1))
        (List.zipWith (· + ·) i ((List.replicate B.shape.length 0).set (gi1 a gaxes).position (stOf a gaxes sb.1))) = true := by
      rw [← hinv.shape _ B hB]; exact hbox
    have hreg := (toItem_region hv hok hlen hsb hbox').2 (by
      rw [hget]
      have := (inBox_iff.1 hi).2 (gi1 a gaxes).position (by simpa using hpos)
      rw [getD_set] at this
      simp only [hpos, and_self, if_true] at this
      omega)
    have := hinv.hit _ B hB (toItem a gaxes sb) (List.mem_map.2 ⟨sb, hsb, rfl⟩) rfl _ hbox' hreg
    rw [this]
    congr 1
    have hst_eq : (toItem a gaxes sb).2.1
        = (List.replicate B.shape.length 0).set (gi1 a gaxes).position (stOf a gaxes sb.1) := by
      simp only [toItem, hBl]
    rw [hst_eq]
    apply zipWith_add_sub
    have := (inBox_iff.1 hi).1
    simp only [List.length_set] at this
    simp [this]
  rw [hslice]
  -- the reshape restores the transposed shape
  have hsub : (Arr.blockShape? (subs1 a gaxes) (ssOf gaxes sb.1)).getD [] = shMid gaxes sb.2.shape := by
    have := blockShape?_map (hv.blk sb hsb).2.1 gaxes (gaxes_lt hok)
    simp only [subs1, ssOf, this, Option.getD_some, shMid]
  rw [hsub, hBs, ← shPre_length hok sb.2.shape, replaceWithSeq_mid]
  simp only [toItem, Blk.reshapeK, Blk.transposeK, Blk.ofFn]
  rw [permuted_shape hok hl]

/-- **no-case**: a piece whose sub-sector belongs to no stored block is identically zero -/
theorem piece_no (hv : ValidArr a) (hok : GroupsOk [gaxes] a.ndim) (hlen : gaxes.length ≠ 1)
    {sb0 : Sector × Blk R} (hsb0 : sb0 ∈ a.blocks) {B : Blk R}
    (hB : alookup (fusedBlocks a gaxes) (nsOf a gaxes sb0.1) = some B)
    {e : Extent} (he : alookup (exts1 a gaxes) (cOf a gaxes sb0.1) = some e)
    {ss : Sector} {st d : Nat} (hss : startOf e ss = some (st, d))
    (hno : ∀ sb ∈ a.blocks, nsOf a gaxes sb.1 = nsOf a gaxes sb0.1 → ssOf gaxes sb.1 ≠ ss)
    (sh' : List Nat) :
    AllZero ((B.sliceK ((List.replicate B.shape.length 0).set (gi1 a gaxes).position st)
        (B.shape.set (gi1 a gaxes).position d)).reshapeK sh') := by
  have hinv := fusedBlocks_inv hv hok hlen
  have hBs : B.shape = shPre a gaxes sb0.2.shape ++ [DOf a gaxes (cOf a gaxes sb0.1)] ++ shPost a gaxes sb0.2.shape := by
    rw [hinv.shape _ B hB]; simp [shapeOf1, shapeOf1_stored hv hok hlen hsb0]
  have hBl : B.shape.length = (newIndices1 a gaxes).length := by rw [hBs, fusedShape_length hok]
  have hpos : (gi1 a gaxes).position < B.shape.length := by rw [hBl, newIndices1_length hok]; omega
  obtain ⟨e0, D, st0, h1, h2, h3, h4⟩ := stored_in_table hv hok hlen hsb0
  rw [he] at h1; simp only [Option.some.injEq] at h1; subst h1
  have hD : DOf a gaxes (cOf a gaxes sb0.1) = D := by simp [DOf, h3]
  have hBpos : B.shape.getD (gi1 a gaxes).position 0 = D := by
    rw [hBs, ← shPre_length hok sb0.2.shape, hD]; simp
  apply reshapeK_allZero
  unfold Blk.sliceK
  apply ofFn_allZero
  intro i hi
  have hbnd : st + d ≤ B.shape.getD (gi1 a gaxes).position 0 := by
    rw [hBpos, ← h4]; exact startOf_bound hss
  obtain ⟨hbox, hget⟩ := inBox_add_set hi hpos hbnd
  have hbox' : inBox (shapeOf1 a gaxes (nsOf a gaxes sb0.1))
      (List.zipWith (· + ·) i ((List.replicate B.shape.length 0).set (gi1 a gaxes).position st)) = true := by
    rw [← hinv.shape _ B hB]; exact hbox
  apply hinv.miss _ B hB _ hbox'
  intro it hit hkey
  obtain ⟨sb, hsb, rfl⟩ := List.mem_map.1 hit
  have hkey' : nsOf a gaxes sb.1 = nsOf a gaxes sb0.1 := hkey
  cases hr : inRegion (toItem a gaxes sb).2.1 (toItem a gaxes sb).2.2.shape
      (List.zipWith (· + ·) i ((List.replicate B.shape.length 0).set (gi1 a gaxes).position st)) with
  | false => rfl
  | true =>
    exfalso
    rw [← hkey'] at hbox'
    have hreg := (toItem_region hv hok hlen hsb hbox').1 hr
    rw [hget] at hreg
    obtain ⟨e', D', st', h1', h2', _, _⟩ := stored_in_table hv hok hlen hsb
    rw [cOf_of_ns hok hkey', he] at h1'
    simp only [Option.some.injEq] at h1'; subst h1'
    have hst' : stOf a gaxes sb.1 = st' := by simp [stOf, cOf_of_ns hok hkey', he, h2']
    rw [hst'] at hreg
    have hdis := startOf_disjoint h2' hss (hno sb hsb hkey')
    have := (inBox_iff.1 hi).2 (gi1 a gaxes).position (by simpa using hpos)
    rw [getD_set] at this
    simp only [hpos, and_self, if_true] at this
    omega

end One

end FuseP
end SymmModel
