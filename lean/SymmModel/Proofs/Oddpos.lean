/-
  SymmModel.Proofs.Oddpos — helper lemmas for property C04 (sign law S3) about the odd-position
  labels of fermionic arrays: `oddLt` (= `FermionicOperator.__lt__`), `resolveScan`,
  `resolveCombinedOddpos` of Model/Fermi.lean.  Nothing here changes a model definition.

  * `oddLt_*`                       : strict total order
  * `resolveScan_{zero,nil,single,swap,fwd,annihilate,clash}` : the scan, one step at a time
  * `resolveScan_spec`              : partial correctness for pairwise-distinct labels (zipper
                                      invariant: the part before the cursor is sorted)
  * `resolveScan_ne_other`, `resolveScan_fuel_ok` : termination measure `2·inversions + |post|`
  * `resolveScan_total`, `mergeOddpos`, `resolveCombinedOddpos_eq`, `oddpos_assoc'`
  * conjugate pairs: `resolveScan_pair`, `resolveScan_walk`, `resolveScan_annihilate_adjacent`
-/
import SymmModel.Proofs.Koszul
import Mathlib.Tactic.Ring

namespace SymmModel
namespace OddposP
open KoszulP

/-! ### `oddLt` is a strict total order -/

theorem oddLt_irrefl (a : Int × Bool) : oddLt a a = false := by
  obtain ⟨l, d⟩ := a; cases d <;> simp [oddLt]

theorem oddLt_trans {a b c : Int × Bool} (h1 : oddLt a b = true) (h2 : oddLt b c = true) :
    oddLt a c = true := by
  obtain ⟨la, da⟩ := a; obtain ⟨lb, db⟩ := b; obtain ⟨lc, dc⟩ := c
  cases da <;> cases db <;> cases dc <;> simp [oddLt] at h1 h2 ⊢ <;> omega

theorem oddLt_asymm {a b : Int × Bool} (h : oddLt a b = true) : oddLt b a = false := by
  obtain ⟨la, da⟩ := a; obtain ⟨lb, db⟩ := b
  cases da <;> cases db <;> simp [oddLt] at h ⊢ <;> omega

theorem oddLt_total {a b : Int × Bool} (h : a ≠ b) : oddLt a b = true ∨ oddLt b a = true := by
  obtain ⟨la, da⟩ := a; obtain ⟨lb, db⟩ := b
  have : la ≠ lb ∨ da ≠ db := by
    by_contra hc
    simp only [not_or, not_not] at hc
    exact h (by rw [hc.1, hc.2])
  cases da <;> cases db <;> simp [oddLt] at this ⊢ <;> omega

theorem oddLt_total_of_label {a b : Int × Bool} (h : a.1 ≠ b.1) :
    oddLt a b = true ∨ oddLt b a = true :=
  oddLt_total (fun e => h (by rw [e]))

/-- "`a` standing before `b` is an inversion" for odd-position labels -/
def oddR (a b : Int × Bool) : Bool := oddLt b a

theorem oddR_ex {a b : Int × Bool} (h : a ≠ b) : oddR a b = !oddR b a := by
  unfold oddR
  rcases oddLt_total h with h1 | h1
  · rw [h1, oddLt_asymm h1]; rfl
  · rw [h1, oddLt_asymm h1]; rfl

theorem invR_oddR_sorted (l : List (Int × Bool)) (h : l.Pairwise (fun x y => oddLt x y = true)) :
    invR oddR l = 0 := by
  apply invR_eq_zero_of_pairwise
  exact List.Pairwise.imp (fun {a b} hab => by unfold oddR; exact oddLt_asymm hab) h

/-- swapping an adjacent out-of-order pair removes exactly one inversion -/
theorem invR_oddR_swap (xs : List (Int × Bool)) (a b : Int × Bool) (rest : List (Int × Bool))
    (h : oddLt b a = true) :
    invR oddR (xs ++ a :: b :: rest) = invR oddR (xs ++ b :: a :: rest) + 1 := by
  have e := invR_block_swap oddR xs [a] [b] rest
  have h1 : oddR a b = true := h
  have h2 : oddR b a = false := oddLt_asymm h
  have c1 : crossR oddR [b] [a] = 0 := by simp [crossR, h2]
  have c2 : crossR oddR [a] [b] = 1 := by simp [crossR, h1]
  have e1 : xs ++ [a] ++ [b] ++ rest = xs ++ a :: b :: rest := by simp
  have e2 : xs ++ [b] ++ [a] ++ rest = xs ++ b :: a :: rest := by simp
  rw [c1, c2, e1, e2] at e
  omega

/-- removing two adjacent entries never creates inversions -/
theorem invR_remove_two_le {α : Type} (r : α → α → Bool) (xs : List α) (a b : α) (rest : List α) :
    invR r (xs ++ rest) ≤ invR r (xs ++ a :: b :: rest) := by
  simp only [invR_append, invR, crossR_cons_right]; omega

/-! ### the scan of `resolve_combined_oddpos`, one step at a time -/

theorem resolveScan_zero (pre post : List (Int × Bool)) (ph : Int) :
    resolveScan 0 pre post ph = .error Err.other := by
  cases post <;> rfl

theorem resolveScan_nil (f : Nat) (pre : List (Int × Bool)) (ph : Int) :
    resolveScan (f + 1) pre [] ph = .ok (pre.reverse, ph) := rfl

theorem resolveScan_single (f : Nat) (pre : List (Int × Bool)) (a : Int × Bool) (ph : Int) :
    resolveScan (f + 1) pre [a] ph = .ok ((a :: pre).reverse, ph) := rfl

/-- `i = max(0, i - 1)`: the cursor steps back over one element when there is one -/
theorem resolveScan_swap (f : Nat) (pre : List (Int × Bool)) (a b : Int × Bool)
    (rest : List (Int × Bool)) (ph : Int) (h1 : (a.1 == b.1) = false) (h2 : oddLt b a = true) :
    resolveScan (f + 1) pre (a :: b :: rest) ph
      = resolveScan f pre.tail (pre.head?.toList ++ b :: a :: rest) (-ph) := by
  simp only [resolveScan, h1, h2, Bool.false_eq_true, if_false, if_true]
  cases pre <;> rfl

theorem resolveScan_fwd (f : Nat) (pre : List (Int × Bool)) (a b : Int × Bool)
    (rest : List (Int × Bool)) (ph : Int) (h1 : (a.1 == b.1) = false) (h2 : oddLt b a = false) :
    resolveScan (f + 1) pre (a :: b :: rest) ph = resolveScan f (a :: pre) (b :: rest) ph := by
  simp only [resolveScan, h1, h2, Bool.false_eq_true, if_false]

/-- annihilation of an adjacent conjugate pair (same label, opposite dualness): the pair is
    removed, the cursor steps back, and the sign flips exactly when the pair meets as
    ket-then-bra (`b.dual`) -/
theorem resolveScan_annihilate (f : Nat) (pre : List (Int × Bool)) (a b : Int × Bool)
    (rest : List (Int × Bool)) (ph : Int) (h1 : (a.1 == b.1) = true) (h2 : (a.2 != b.2) = true) :
    resolveScan (f + 1) pre (a :: b :: rest) ph
      = resolveScan f pre.tail (pre.head?.toList ++ rest) (if b.2 then -ph else ph) := by
  simp only [resolveScan, h1, h2, if_true]
  cases pre <;> rfl

theorem resolveScan_clash (f : Nat) (pre : List (Int × Bool)) (a b : Int × Bool)
    (rest : List (Int × Bool)) (ph : Int) (h1 : (a.1 == b.1) = true) (h2 : (a.2 != b.2) = false) :
    resolveScan (f + 1) pre (a :: b :: rest) ph = .error Err.value := by
  simp only [resolveScan, h1, h2, if_true, Bool.false_eq_true, if_false]
  rfl

theorem zip_back {α : Type} (pre X : List α) :
    pre.tail.reverse ++ (pre.head?.toList ++ X) = pre.reverse ++ X := by
  cases pre <;> simp

theorem zip_back_length {α : Type} (pre X : List α) :
    (pre.head?.toList ++ X).length ≤ X.length + 1 := by
  cases pre <;> simp

/-! ### partial correctness for pairwise-distinct labels -/

/-- descending w.r.t. `oddLt` (the reversed prefix of the zipper) -/
def Desc (l : List (Int × Bool)) : Prop := l.Pairwise (fun x y => oddLt y x = true)

/-- ascending w.r.t. `oddLt` -/
def OddSorted (l : List (Int × Bool)) : Prop := l.Pairwise (fun x y => oddLt x y = true)

/-- no two entries carry the same label -/
def LabelsDistinct (l : List (Int × Bool)) : Prop := l.Pairwise (fun x y => x.1 ≠ y.1)

theorem LabelsDistinct.perm {l m : List (Int × Bool)} (h : LabelsDistinct l) (p : l.Perm m) :
    LabelsDistinct m :=
  (p.pairwise_iff (fun hxy => Ne.symm hxy)).1 h

theorem desc_back (pre X : List (Int × Bool)) (hX : X ≠ []) (h : Desc pre) :
    Desc ((pre.head?.toList ++ X).head?.toList ++ pre.tail) := by
  cases pre with
  | nil =>
    cases X with
    | nil => exact absurd rfl hX
    | cons x X => simp [Desc]
  | cons p pre => simpa using h

theorem labels_ne_of_distinct (xs : List (Int × Bool)) (a b : Int × Bool) (rest : List (Int × Bool))
    (h : LabelsDistinct (xs ++ a :: b :: rest)) : (a.1 == b.1) = false := by
  unfold LabelsDistinct at h
  rw [List.pairwise_append] at h
  have := (List.pairwise_cons.1 h.2.1).1 b (by simp)
  simpa using this

theorem resolveScan_spec : ∀ (fuel : Nat) (pre post : List (Int × Bool)) (ph : Int)
    (out : List (Int × Bool)) (ph' : Int),
    LabelsDistinct (pre.reverse ++ post) → Desc (post.head?.toList ++ pre) →
    resolveScan fuel pre post ph = .ok (out, ph') →
    out.Perm (pre.reverse ++ post) ∧ OddSorted out ∧
      ph' = ph * sgn (invR oddR (pre.reverse ++ post)) := by
  intro fuel
  induction fuel with
  | zero => intro pre post ph out ph' _ _ h; rw [resolveScan_zero] at h; cases h
  | succ f ih =>
    intro pre post ph out ph' hd hdesc h
    match post, hd, hdesc, h with
    | [], hd, hdesc, h =>
      rw [resolveScan_nil] at h
      simp only [Except.ok.injEq, Prod.mk.injEq] at h
      obtain ⟨rfl, rfl⟩ := h
      have hs : OddSorted pre.reverse := by
        unfold OddSorted; rw [List.pairwise_reverse]; simpa [Desc] using hdesc
      refine ⟨by simp, hs, ?_⟩
      rw [List.append_nil, invR_oddR_sorted _ hs, sgn_zero, Int.mul_one]
    | [a], hd, hdesc, h =>
      rw [resolveScan_single] at h
      simp only [Except.ok.injEq, Prod.mk.injEq] at h
      obtain ⟨rfl, rfl⟩ := h
      have hs : OddSorted (a :: pre).reverse := by
        unfold OddSorted; rw [List.pairwise_reverse]; simpa [Desc] using hdesc
      have e : pre.reverse ++ [a] = (a :: pre).reverse := by simp
      refine ⟨by simp, hs, ?_⟩
      rw [e, invR_oddR_sorted _ hs, sgn_zero, Int.mul_one]
    | a :: b :: rest, hd, hdesc, h =>
      have hne := labels_ne_of_distinct _ a b rest hd
      have hdesc' : Desc (a :: pre) := by simpa using hdesc
      cases hlt : oddLt b a
      · -- in order: move on
        rw [resolveScan_fwd f pre a b rest ph hne hlt] at h
        have e : (a :: pre).reverse ++ b :: rest = pre.reverse ++ a :: b :: rest := by simp
        have hab : oddLt a b = true := by
          have hne' : a.1 ≠ b.1 := by simpa using hne
          rcases oddLt_total_of_label hne' with h1 | h1
          · exact h1
          · rw [hlt] at h1; cases h1
        have hdesc2 : Desc ((b :: rest).head?.toList ++ a :: pre) := by
          have : Desc (b :: a :: pre) := by
            unfold Desc at hdesc' ⊢
            rw [List.pairwise_cons]
            refine ⟨?_, hdesc'⟩
            intro y hy
            rcases List.mem_cons.1 hy with rfl | hy
            · exact hab
            · exact oddLt_trans ((List.pairwise_cons.1 hdesc').1 y hy) hab
          simpa using this
        have := ih (a :: pre) (b :: rest) ph out ph' (by rw [e]; exact hd) hdesc2 h
        rw [e] at this
        exact this
      · -- out of order: swap, flip, step back
        rw [resolveScan_swap f pre a b rest ph hne hlt] at h
        have hperm : (pre.reverse ++ b :: a :: rest).Perm (pre.reverse ++ a :: b :: rest) :=
          List.Perm.append_left _ (List.Perm.swap a b rest)
        have hd2 : LabelsDistinct (pre.tail.reverse ++ (pre.head?.toList ++ b :: a :: rest)) := by
          rw [zip_back]; exact hd.perm hperm.symm
        have hdesc2 := desc_back pre (b :: a :: rest) (by simp) (List.Pairwise.of_cons hdesc')
        obtain ⟨o1, o2, o3⟩ := ih pre.tail (pre.head?.toList ++ b :: a :: rest) (-ph) out ph' hd2 hdesc2 h
        rw [zip_back] at o1 o3
        refine ⟨o1.trans hperm, o2, ?_⟩
        rw [o3, invR_oddR_swap _ a b rest hlt, sgn_succ]
        ring

/-! ### termination: the fuel passed by `resolve_combined_oddpos` always suffices -/

/-- the scan never runs out of fuel once `fuel > 2·(inversions) + (entries from the cursor on)`;
    this holds for every input, conjugate pairs and clashes included -/
theorem resolveScan_ne_other : ∀ (fuel : Nat) (pre post : List (Int × Bool)) (ph : Int),
    2 * invR oddR (pre.reverse ++ post) + post.length < fuel →
    resolveScan fuel pre post ph ≠ .error Err.other := by
  intro fuel
  induction fuel with
  | zero => intro pre post ph h; omega
  | succ f ih =>
    intro pre post ph hlt
    match post, hlt with
    | [], _ => rw [resolveScan_nil]; intro h; cases h
    | [a], _ => rw [resolveScan_single]; intro h; cases h
    | a :: b :: rest, hlt =>
      simp only [List.length_cons] at hlt
      cases h1 : (a.1 == b.1)
      · cases h2 : oddLt b a
        · rw [resolveScan_fwd f pre a b rest ph h1 h2]
          apply ih
          have e : (a :: pre).reverse ++ b :: rest = pre.reverse ++ a :: b :: rest := by simp
          rw [e, List.length_cons]; omega
        · rw [resolveScan_swap f pre a b rest ph h1 h2]
          apply ih
          have := invR_oddR_swap pre.reverse a b rest h2
          have hl := zip_back_length pre (b :: a :: rest)
          rw [zip_back]
          simp only [List.length_cons] at hl
          omega
      · cases h2 : (a.2 != b.2)
        · rw [resolveScan_clash f pre a b rest ph h1 h2]; intro h; cases h
        · rw [resolveScan_annihilate f pre a b rest ph h1 h2]
          apply ih
          have := invR_remove_two_le oddR pre.reverse a b rest
          have hl := zip_back_length pre rest
          rw [zip_back]
          omega

/-- `resolveScan_fuel`: with the fuel `n*n + 2*n + 4` of `resolveCombinedOddpos` the scan never
    reports `Err.other` (out of fuel) — for every input list -/
theorem resolveScan_fuel_ok (l : List (Int × Bool)) (ph : Int) :
    resolveScan (l.length * l.length + 2 * l.length + 4) [] l ph ≠ .error Err.other := by
  apply resolveScan_ne_other
  have := invR_le oddR l
  simp only [List.reverse_nil, List.nil_append]
  omega

/-- with pairwise-distinct labels the only possible error is running out of fuel -/
theorem resolveScan_distinct_err : ∀ (fuel : Nat) (pre post : List (Int × Bool)) (ph : Int) (e : Err),
    LabelsDistinct (pre.reverse ++ post) →
    resolveScan fuel pre post ph = .error e → e = Err.other := by
  intro fuel
  induction fuel with
  | zero => intro pre post ph e _ h; rw [resolveScan_zero] at h; cases h; rfl
  | succ f ih =>
    intro pre post ph e hd h
    match post, hd, h with
    | [], _, h => rw [resolveScan_nil] at h; cases h
    | [a], _, h => rw [resolveScan_single] at h; cases h
    | a :: b :: rest, hd, h =>
      have hne := labels_ne_of_distinct _ a b rest hd
      cases h2 : oddLt b a
      · rw [resolveScan_fwd f pre a b rest ph hne h2] at h
        have e' : (a :: pre).reverse ++ b :: rest = pre.reverse ++ a :: b :: rest := by simp
        exact ih (a :: pre) (b :: rest) ph e (by rw [e']; exact hd) h
      · rw [resolveScan_swap f pre a b rest ph hne h2] at h
        have hperm : (pre.reverse ++ b :: a :: rest).Perm (pre.reverse ++ a :: b :: rest) :=
          List.Perm.append_left _ (List.Perm.swap a b rest)
        exact ih pre.tail _ (-ph) e (by rw [zip_back]; exact hd.perm hperm.symm) h

/-- total correctness of the scan for pairwise-distinct labels: it returns the `oddLt`-sorted
    permutation of its input and multiplies the sign by `(-1)^(number of inversions)` -/
theorem resolveScan_total (l : List (Int × Bool)) (ph : Int) (hd : LabelsDistinct l) :
    ∃ out, out.Perm l ∧ OddSorted out ∧
      resolveScan (l.length * l.length + 2 * l.length + 4) [] l ph
        = .ok (out, ph * sgn (invR oddR l)) := by
  cases hres : resolveScan (l.length * l.length + 2 * l.length + 4) [] l ph with
  | error e =>
    have := resolveScan_distinct_err _ [] l ph e (by simpa using hd) hres
    subst this
    exact absurd hres (resolveScan_fuel_ok l ph)
  | ok r =>
    obtain ⟨out, ph'⟩ := r
    have hdesc : Desc (l.head?.toList ++ []) := by cases l <;> simp [Desc]
    obtain ⟨o1, o2, o3⟩ := resolveScan_spec _ [] l ph out ph' (by simpa using hd) hdesc hres
    simp only [List.reverse_nil, List.nil_append] at o1 o3
    exact ⟨out, o1, o2, by rw [o3]⟩

/-- the sorted permutation is unique -/
theorem oddSorted_unique {l m : List (Int × Bool)} (hl : OddSorted l) (hm : OddSorted m)
    (p : l.Perm m) : l = m := by
  apply List.Perm.eq_of_pairwise (le := fun x y => oddLt x y = true) _ hl hm p
  intro a b _ _ h1 h2
  rw [oddLt_asymm h1] at h2; cases h2

/-! ### merging the labels of two operands, and associativity -/

/-- the label part of `resolve_combined_oddpos(left, right, new)`: the extra sign for moving the
    right labels over an odd left operand, then the signed sort -/
def mergeOddpos (pa : Bool) (la lb : List (Int × Bool)) : Except Err (List (Int × Bool) × Int) :=
  let odd := la ++ lb
  resolveScan (odd.length * odd.length + 2 * odd.length + 4) [] odd
    (if pa && lb.length % 2 == 1 then -1 else 1)

/-- `resolveCombinedOddpos` is `mergeOddpos` on the operands' labels followed by the lazy
    global sign on the result -/
theorem resolveCombinedOddpos_eq {R : Type} (left right new : Arr R) :
    resolveCombinedOddpos left right new
      = (mergeOddpos left.parity left.oddpos right.oddpos).map (fun r =>
          { (if r.2 == -1 then new.phaseGlobal else new) with oddpos := r.1 }) := by
  unfold resolveCombinedOddpos mergeOddpos
  cases hl : left.oddpos with
  | nil =>
    cases hr : right.oddpos with
    | nil => simp [resolveScan, Except.map, pure, Except.pure]
    | cons y ys =>
      simp only [List.isEmpty_nil, List.isEmpty_cons, Bool.and_false, Bool.false_eq_true, if_false]
      rfl
  | cons x xs =>
    simp only [List.isEmpty_cons, Bool.false_and, Bool.false_eq_true, if_false]
    rfl

theorem ph0_eq (pa : Bool) (n : Nat) :
    (if pa && n % 2 == 1 then (-1 : Int) else 1) = sgn (pa.toNat * n) := by
  unfold sgn
  cases pa
  · simp
  · rcases Nat.mod_two_eq_zero_or_one n with h | h <;> simp [h]

/-- `mergeOddpos` for pairwise-distinct labels: sorted merge, sign
    `(-1)^(pa·|lb| + inversions of la ++ lb)` -/
theorem mergeOddpos_spec (pa : Bool) (la lb : List (Int × Bool)) (hd : LabelsDistinct (la ++ lb)) :
    ∃ out, out.Perm (la ++ lb) ∧ OddSorted out ∧
      mergeOddpos pa la lb = .ok (out, sgn (pa.toNat * lb.length + invR oddR (la ++ lb))) := by
  obtain ⟨out, o1, o2, o3⟩ := resolveScan_total (la ++ lb)
    (if pa && lb.length % 2 == 1 then -1 else 1) hd
  refine ⟨out, o1, o2, ?_⟩
  unfold mergeOddpos
  rw [o3, ph0_eq, sgn_add]

/-- S3 associativity: three operands with pairwise-distinct labels, either bracketing — the same
    final label list and the same total sign (the parity of an intermediate result is the xor
    of its factors' parities) -/
theorem oddpos_assoc' (pa pb : Bool) (la lb lc : List (Int × Bool))
    (hd : LabelsDistinct (la ++ lb ++ lc)) :
    ∃ lab sab lbc sbc out s1 s2,
      mergeOddpos pa la lb = .ok (lab, sab) ∧
      mergeOddpos (xor pa pb) lab lc = .ok (out, s1) ∧
      mergeOddpos pb lb lc = .ok (lbc, sbc) ∧
      mergeOddpos pa la lbc = .ok (out, s2) ∧
      sab * s1 = sbc * s2 := by
  have hd_ab : LabelsDistinct (la ++ lb) := (List.pairwise_append.1 hd).1
  have hd' : LabelsDistinct (la ++ (lb ++ lc)) := by rw [← List.append_assoc]; exact hd
  have hd_bc : LabelsDistinct (lb ++ lc) := (List.pairwise_append.1 hd').2.1
  obtain ⟨lab, p1, s1, m1⟩ := mergeOddpos_spec pa la lb hd_ab
  have hd_abc : LabelsDistinct (lab ++ lc) := hd.perm (List.Perm.append_right lc p1.symm)
  obtain ⟨out1, p2, s2, m2⟩ := mergeOddpos_spec (xor pa pb) lab lc hd_abc
  obtain ⟨lbc, p3, s3, m3⟩ := mergeOddpos_spec pb lb lc hd_bc
  have hd_a_bc : LabelsDistinct (la ++ lbc) := hd'.perm (List.Perm.append_left la p3.symm)
  obtain ⟨out2, p4, s4, m4⟩ := mergeOddpos_spec pa la lbc hd_a_bc
  have hout : out1 = out2 := by
    apply oddSorted_unique s2 s4
    have q1 : out1.Perm (la ++ lb ++ lc) := p2.trans (List.Perm.append_right lc p1)
    have q2 : out2.Perm (la ++ (lb ++ lc)) := p4.trans (List.Perm.append_left la p3)
    rw [List.append_assoc] at q1
    exact q1.trans q2.symm
  subst hout
  refine ⟨lab, _, lbc, _, out1, _, _, m1, m2, m3, m4, ?_⟩
  rw [← sgn_add, ← sgn_add]
  apply sgn_congr
  have e1 : invR oddR (lab ++ lc) = invR oddR lc + crossR oddR la lc + crossR oddR lb lc := by
    rw [invR_append, invR_oddR_sorted lab s1, crossR_perm_left oddR p1, crossR_append_left]; omega
  have e2 : invR oddR (la ++ lbc) = invR oddR la + crossR oddR la lb + crossR oddR la lc := by
    rw [invR_append, invR_oddR_sorted lbc s3, crossR_perm_right oddR la p3, crossR_append_right]
    omega
  have e3 : lbc.length = lb.length + lc.length := by rw [p3.length_eq, List.length_append]
  rw [e1, e2, e3, invR_append, invR_append]
  cases pa <;> cases pb <;> simp [Bool.toNat] <;> omega

/-! ### conjugate pairs -/

/-- a lone conjugate pair annihilates; the sign is `-1` exactly for ket-then-bra -/
theorem resolveScan_pair (f : Nat) (a b : Int × Bool) (ph : Int)
    (h1 : a.1 = b.1) (h2 : a.2 ≠ b.2) :
    resolveScan (f + 2) [] [a, b] ph = .ok ([], if b.2 then -ph else ph) := by
  rw [resolveScan_annihilate (f + 1) [] a b [] ph (by simp [h1]) (by simpa using h2)]
  rfl

/-- walking over an already sorted, label-distinct prefix costs one unit of fuel per entry and
    changes nothing -/
theorem resolveScan_walk : ∀ (xs : List (Int × Bool)) (f : Nat) (pre : List (Int × Bool))
    (c : Int × Bool) (post : List (Int × Bool)) (ph : Int),
    OddSorted (xs ++ [c]) → LabelsDistinct (xs ++ [c]) →
    resolveScan (f + xs.length) pre (xs ++ c :: post) ph
      = resolveScan f (xs.reverse ++ pre) (c :: post) ph := by
  intro xs
  induction xs with
  | nil => intro f pre c post ph _ _; rfl
  | cons x xs ih =>
    intro f pre c post ph hs hd
    have hs' : OddSorted (xs ++ [c]) := List.Pairwise.of_cons hs
    have hd' : LabelsDistinct (xs ++ [c]) := List.Pairwise.of_cons hd
    -- the element following `x`
    obtain ⟨y, ys, hy⟩ : ∃ y ys, xs ++ c :: post = y :: ys := by
      cases xs with
      | nil => exact ⟨c, post, rfl⟩
      | cons y ys => exact ⟨y, ys ++ c :: post, rfl⟩
    have hymem : y ∈ xs ++ [c] := by
      cases xs with
      | nil => simp only [List.nil_append, List.cons.injEq] at hy; simp [hy.1]
      | cons y' ys' => simp only [List.cons_append, List.cons.injEq] at hy; simp [hy.1]
    have hxy : oddLt x y = true := (List.pairwise_cons.1 hs).1 y hymem
    have hne : (x.1 == y.1) = false := by
      have := (List.pairwise_cons.1 hd).1 y hymem
      simpa using this
    have e : f + (x :: xs).length = (f + xs.length) + 1 := by simp; omega
    rw [e, List.cons_append, hy, resolveScan_fwd _ pre x y ys ph hne (oddLt_asymm hxy), ← hy,
      ih f (x :: pre) c post ph hs' hd']
    simp

/-- annihilation inside a list (adjacent case): if the part before the pair is sorted up to and
    including the ket/bra `a`, the scan reaches the pair, removes it with sign `-1` iff it meets
    as ket-then-bra (`b.dual`), steps back one entry and carries on with the remaining list -/
theorem resolveScan_annihilate_adjacent (xs : List (Int × Bool)) (a b : Int × Bool)
    (ys : List (Int × Bool)) (f : Nat) (ph : Int)
    (hs : OddSorted (xs ++ [a])) (hd : LabelsDistinct (xs ++ [a]))
    (h1 : a.1 = b.1) (h2 : a.2 ≠ b.2) :
    resolveScan (f + 1 + xs.length) [] (xs ++ a :: b :: ys) ph
      = resolveScan f xs.reverse.tail (xs.reverse.head?.toList ++ ys)
          (if b.2 then -ph else ph) := by
  rw [resolveScan_walk xs (f + 1) [] a (b :: ys) ph hs hd, List.append_nil,
    resolveScan_annihilate f xs.reverse a b ys ph (by simp [h1]) (by simpa using h2)]

end OddposP
end SymmModel
