/-
  SymmModel.Proofs.FuseConcat — `_fuse_blocks_via_concat` for one multi-axis group, made explicit:
  group the reshaped blocks by new sector and sub-sector, then concatenate along the fused axis in
  the order of the extent, filling missing sub-blocks with zeros.
-/
import SymmModel.Proofs.FuseElem
namespace SymmModel
namespace FuseP
set_option linter.unusedSectionVars false

variable {R : Type}

/-! ### the grouping loop (dict of dicts) -/

abbrev GItem (R : Type) := Sector × List Sector × Blk R

def grpStep (acc : List (Sector × List (List Sector × Blk R))) (it : GItem R) :
    List (Sector × List (List Sector × Blk R)) :=
  ainsert acc it.1 (ainsert ((alookup acc it.1).getD []) it.2.1 it.2.2)

structure GrpInv (done : List (GItem R)) (acc : List (Sector × List (List Sector × Blk R))) : Prop where
  keys : ∀ k, k ∈ acc.map (·.1) ↔ k ∈ done.map (·.1)
  nodup : (acc.map (·.1)).Nodup
  sub : ∀ k sub, alookup acc k = some sub → ∀ key v, alookup sub key = some v ↔ (k, key, v) ∈ done

/-- no two items share (new sector, sub-sector) -/
def GDistinct (x y : GItem R) : Prop := ¬ (x.1 = y.1 ∧ x.2.1 = y.2.1)

theorem grpInv_step {done : List (GItem R)} {acc : List (Sector × List (List Sector × Blk R))}
    (hinv : GrpInv done acc) (it : GItem R) (hd : ∀ x ∈ done, GDistinct x it) :
    GrpInv (done ++ [it]) (grpStep acc it) := by
  obtain ⟨k0, key0, v0⟩ := it
  refine ⟨?_, ainsert_keys_nodup _ _ hinv.nodup, ?_⟩
  · intro k
    simp only [grpStep, mem_keys_ainsert, hinv.keys k, List.map_append, List.mem_append, List.map_cons,
      List.map_nil, List.mem_singleton]
  · intro k sub hsub key v
    simp only [grpStep, alookup_ainsert] at hsub
    split at hsub
    · rename_i hk; have := eq_of_beq hk; subst this
      simp only [Option.some.injEq] at hsub; subst hsub
      rw [alookup_ainsert]
      by_cases hkey : key0 = key
      · subst hkey
        simp only [BEq.rfl, if_true, Option.some.injEq, List.mem_append, List.mem_singleton, Prod.mk.injEq,
          true_and]
        constructor
        · intro h; exact Or.inr h.symm
        · rintro (h | h)
          · exact absurd ⟨rfl, rfl⟩ (hd _ h)
          · exact h.symm
      · have hne : (key0 == key) = false := by
          cases hb : key0 == key
          · rfl
          · exact absurd (eq_of_beq hb) hkey
        simp only [hne, Bool.false_eq_true, if_false, List.mem_append, List.mem_singleton, Prod.mk.injEq]
        cases hl : alookup acc k0 with
        | some cur =>
          simp only [Option.getD_some]
          rw [hinv.sub k0 cur hl key v]
          constructor
          · exact Or.inl
          · rintro (h | h)
            · exact h
            · exact absurd h.2.1.symm hkey
        | none =>
          simp only [Option.getD_none, alookup]
          constructor
          · intro h; cases h
          · rintro (h | h)
            · exfalso
              have : k0 ∈ acc.map (·.1) := (hinv.keys k0).2 (List.mem_map.2 ⟨_, h, rfl⟩)
              rw [alookup_eq_none_iff] at hl; exact hl this
            · exact absurd h.2.1.symm hkey
    · rename_i hk
      have hne : k0 ≠ k := fun e => hk (by rw [e]; exact BEq.rfl)
      rw [hinv.sub k sub hsub key v]
      simp only [List.mem_append, List.mem_singleton, Prod.mk.injEq]
      constructor
      · exact Or.inl
      · rintro (h | h)
        · exact h
        · exact absurd h.1.symm hne

theorem grpInv_foldl {done : List (GItem R)} {acc : List (Sector × List (List Sector × Blk R))}
    (hinv : GrpInv done acc) (items : List (GItem R)) (hd : (done ++ items).Pairwise GDistinct) :
    GrpInv (done ++ items) (items.foldl grpStep acc) := by
  induction items generalizing done acc with
  | nil => simpa using hinv
  | cons it items ih =>
    have h1 : ∀ x ∈ done, GDistinct x it := by
      intro x hx
      rw [List.pairwise_append] at hd
      exact hd.2.2 x hx it (by simp)
    have := ih (grpInv_step hinv it h1) (by simpa using hd)
    simpa using this

def grpFold (items : List (GItem R)) : List (Sector × List (List Sector × Blk R)) :=
  items.foldl grpStep []

theorem grpFold_inv (items : List (GItem R)) (hd : items.Pairwise GDistinct) :
    GrpInv items (grpFold items) := by
  have h0 : GrpInv ([] : List (GItem R)) [] := ⟨by simp, by simp, by simp [alookup]⟩
  have := grpInv_foldl h0 items (by simpa using hd)
  simpa [grpFold] using this

/-! ### concatenation, read by `get` -/

theorem concatK_shape [Zero R] (b0 : Blk R) (rest : List (Blk R)) (axis : Nat) :
    (Blk.concatK (b0 :: rest) axis).shape
      = b0.shape.set axis (sumN ((b0 :: rest).map (fun b => b.shape.getD axis 0))) := rfl

theorem concatK_get [Zero R] (b0 : Blk R) (rest : List (Blk R)) (axis : Nat) {i : List Nat}
    (hi : inBox (b0.shape.set axis (sumN ((b0 :: rest).map (fun b => b.shape.getD axis 0)))) i = true) :
    (Blk.concatK (b0 :: rest) axis).get i =
      (match Blk.locatePiece ((b0 :: rest).map (fun b => b.shape.getD axis 0)) (i.getD axis 0) with
        | some (k, o) => match (b0 :: rest)[k]? with
                         | some b => b.get (i.set axis o)
                         | none => 0
        | none => 0) := by
  unfold Blk.concatK
  simp only []
  rw [ofFn_get _ hi]
  rfl

theorem locatePiece_splitOffset {e : Extent} {p k o : Nat}
    (h : Blk.locatePiece (e.map (·.2)) p = some (k, o)) :
    ∃ ss d, e[k]? = some (ss, d) ∧ splitOffset e p = some (ss, o) := by
  induction e generalizing p k with
  | nil => simp [Blk.locatePiece] at h
  | cons q rest ih =>
    obtain ⟨ss0, d0⟩ := q
    simp only [List.map_cons, Blk.locatePiece] at h
    split at h
    · rename_i hp
      simp only [Option.some.injEq, Prod.mk.injEq] at h
      obtain ⟨rfl, rfl⟩ := h
      exact ⟨ss0, d0, by simp, by simp [splitOffset, hp]⟩
    · rename_i hp
      cases hq : Blk.locatePiece (rest.map (·.2)) (p - d0) with
      | none => simp [hq] at h
      | some q =>
        obtain ⟨k', o'⟩ := q
        simp only [hq, Option.map_some, Option.some.injEq, Prod.mk.injEq] at h
        obtain ⟨rfl, rfl⟩ := h
        obtain ⟨ss, d, h1, h2⟩ := ih hq
        exact ⟨ss, d, by simpa using h1, by simp [splitOffset, hp, h2]⟩

theorem locatePiece_some {sizes : List Nat} {p : Nat} (h : p < sumN sizes) :
    ∃ k o, Blk.locatePiece sizes p = some (k, o) := by
  induction sizes generalizing p with
  | nil => simp [sumN] at h
  | cons d ds ih =>
    simp only [Blk.locatePiece]
    split
    · exact ⟨0, p, rfl⟩
    · simp only [sumN] at h
      obtain ⟨k, o, hk⟩ := ih (p := p - d) (by omega)
      exact ⟨k + 1, o, by simp [hk]⟩

end FuseP
end SymmModel
