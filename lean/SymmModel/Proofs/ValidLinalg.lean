/-
  SymmModel.Proofs.ValidLinalg — the block-wise factorisations `qrA` and `svdA` return valid
  arrays (property C01, linalg item), for every kernel that returns factors of the right shapes.
-/
import SymmModel.Proofs.ValidOps

namespace SymmModel
namespace ValidP
open Sym

variable {R : Type}

/-! ## the two factors as proof-side terms -/

/-- the bond chargemap before sorting: column charge of every block ↦ inner size -/
def bondCm (x : Arr R) (fl : Blk R → Blk R) : List (Charge × Nat) :=
  adict (x.blocks.map (fun sb => (sb.1.getD 1 (0, 0), (fl sb.2).shape.getD 1 0)))

def bondIx (x : Arr R) (fl : Blk R → Blk R) : Index :=
  Index.plain (bondCm x fl) (x.indices.getD 1 default).dual

/-- left factor (`q` / `u`) -/
def facL (x : Arr R) (fl : Blk R → Blk R) : Arr R :=
  { x with indices := [x.indices.getD 0 default, bondIx x fl],
           blocks := x.blocks.map (fun sb => (sb.1, fl sb.2)) }

/-- right factor (`r` / `vh`) before the fermionic phase flip -/
def facR0 (x : Arr R) (fl fr : Blk R → Blk R) : Arr R :=
  { sym := x.sym, fermi := x.fermi, indices := [(bondIx x fl).conj, x.indices.getD 1 default],
    charge := x.sym.zero,
    blocks := adict (x.blocks.map (fun sb => ([sb.1.getD 1 (0, 0), sb.1.getD 1 (0, 0)], fr sb.2))),
    phases := [], oddpos := [] }

def facR (x : Arr R) (fl fr : Blk R → Blk R) : Arr R :=
  if x.fermi && (bondIx x fl).conj.dual then (facR0 x fl fr).phaseFlip [0] else facR0 x fl fr

theorem qrA_eq (K : Kernels R) (x : Arr R) :
    qrA K x = if x.ndim != 2 then .error Err.notimpl
      else .ok (facL x (fun b => (K.qr b).1),
                facR x (fun b => (K.qr b).1) (fun b => (K.qr b).2)) := by
  unfold qrA
  split
  · rfl
  · simp only [List.map_map]
    rfl

theorem svdA_eq (K : Kernels R) (x : Arr R) :
    svdA K x = if x.ndim != 2 then .error Err.notimpl
      else .ok (facL x (fun b => (K.svd b).1),
                ⟨adict (x.blocks.map (fun sb => (sb.1.getD 1 (0, 0), (K.svd sb.2).2.1)))⟩,
                facR x (fun b => (K.svd b).1) (fun b => (K.svd b).2.2)) := by
  unfold svdA
  split
  · rfl
  · simp only [List.map_map]
    rfl

/-! ## insertion sort -/

section ISort
variable {α : Type}

theorem insertSorted_perm (lt : α → α → Bool) (a : α) (l : List α) :
    (insertSorted lt a l).Perm (a :: l) := by
  induction l with
  | nil => exact List.Perm.refl _
  | cons b bs ih =>
    simp only [insertSorted]
    split
    · exact (List.Perm.cons b ih).trans (List.Perm.swap a b bs)
    · exact List.Perm.refl _

theorem isort_perm (lt : α → α → Bool) (l : List α) : (isort lt l).Perm l := by
  induction l with
  | nil => exact List.Perm.refl _
  | cons a as ih => exact (insertSorted_perm lt a _).trans (List.Perm.cons a ih)

theorem insertSorted_pairwise (lt : α → α → Bool)
    (htr : ∀ a b c, lt a b = true → lt b c = true → lt a c = true) (a : α) (l : List α)
    (hs : l.Pairwise (fun x y => lt x y = true))
    (ht : ∀ b ∈ l, lt a b = true ∨ lt b a = true) :
    (insertSorted lt a l).Pairwise (fun x y => lt x y = true) := by
  induction l with
  | nil => simp [insertSorted]
  | cons b bs ih =>
    simp only [insertSorted]
    obtain ⟨hb, hbs⟩ := List.pairwise_cons.mp hs
    split
    · rename_i hba
      refine List.pairwise_cons.mpr ⟨?_, ih hbs (fun y hy => ht y (List.mem_cons_of_mem _ hy))⟩
      intro y hy
      rcases List.mem_cons.mp ((insertSorted_perm lt a bs).subset hy) with rfl | hy
      · exact hba
      · exact hb y hy
    · rename_i hba
      have hab : lt a b = true := by
        rcases ht b (by simp) with h | h
        · exact h
        · exact absurd h hba
      refine List.pairwise_cons.mpr ⟨?_, hs⟩
      intro y hy
      rcases List.mem_cons.mp hy with rfl | hy
      · exact hab
      · exact htr _ _ _ hab (hb y hy)

/-- insertion sort of a list whose elements are pairwise comparable under a transitive
    relation is strictly sorted -/
theorem isort_sorted_of_nodup (lt : α → α → Bool)
    (htr : ∀ a b c, lt a b = true → lt b c = true → lt a c = true) (l : List α)
    (ht : l.Pairwise (fun x y => lt x y = true ∨ lt y x = true)) :
    (isort lt l).Pairwise (fun x y => lt x y = true) := by
  induction l with
  | nil => simp [isort]
  | cons a as ih =>
    obtain ⟨ha, has⟩ := List.pairwise_cons.mp ht
    simp only [isort]
    apply insertSorted_pairwise lt htr a _ (ih has)
    intro b hb
    exact ha b ((isort_perm lt as).subset hb)

end ISort

theorem sortCm_perm (cm : List (Charge × Nat)) : (Index.sortCm cm).Perm cm := isort_perm _ _

theorem sortCm_keys_nodup {cm : List (Charge × Nat)} (hn : (cm.map (·.1)).Nodup) :
    ((Index.sortCm cm).map (·.1)).Nodup :=
  ((sortCm_perm cm).map _).nodup_iff.mpr hn

theorem sortCm_sorted {cm : List (Charge × Nat)} (hn : (cm.map (·.1)).Nodup) :
    isSortedStrict Charge.lt ((Index.sortCm cm).map (·.1)) = true := by
  rw [sortedCharges_iff, List.pairwise_map]
  apply isort_sorted_of_nodup (fun a b : Charge × Nat => Charge.lt a.1 b.1)
  · intro a b c; exact Charge.lt_trans'
  · refine List.Pairwise.imp ?_ (List.pairwise_map.mp hn)
    intro a b hab
    rcases Charge.lt_total' a.1 b.1 with h | h | h
    · exact Or.inl h
    · exact absurd h hab
    · exact Or.inr h

theorem cmOk_sortCm {sym : Sym} {cm : List (Charge × Nat)} (hn : (cm.map (·.1)).Nodup)
    (hp : ∀ p ∈ cm, 0 < p.2 ∧ sym.valid p.1 = true) : CmOk sym (Index.sortCm cm) :=
  ⟨sortCm_sorted hn, fun p h => hp p ((sortCm_perm cm).subset h)⟩

/-- sorting a chargemap with distinct keys does not change lookups -/
theorem alookup_sortCm {cm : List (Charge × Nat)} (hn : (cm.map (·.1)).Nodup) {c : Charge} {k : Nat}
    (h : (c, k) ∈ cm) : alookup (Index.sortCm cm) c = some k :=
  alookup_of_mem_nodup (sortCm_keys_nodup hn) ((sortCm_perm cm).symm.subset h)

/-! ## rank-2 arrays -/

theorem blockShape?_two {i0 i1 : Index} {s : Sector} {shp : List Nat} :
    Arr.blockShape? [i0, i1] s = some shp ↔
      ∃ c0 c1 m n, s = [c0, c1] ∧ shp = [m, n] ∧ i0.sizeOf? c0 = some m ∧ i1.sizeOf? c1 = some n := by
  rw [blockShape?_iff]
  constructor
  · rintro ⟨T, hT, h1, h2, h3⟩
    have hl : T.length = 2 := by simpa using (congrArg List.length h1).symm
    obtain ⟨t0, t1, rfl⟩ := List.length_eq_two.mp hl
    simp only [List.map_cons, List.map_nil, List.cons.injEq, and_true] at h1
    obtain ⟨rfl, rfl⟩ := h1
    exact ⟨t0.2.1, t1.2.1, t0.2.2, t1.2.2, h2, h3, hT t0 (by simp), hT t1 (by simp)⟩
  · rintro ⟨c0, c1, m, n, rfl, rfl, h0, h1⟩
    refine ⟨[(i0, c0, m), (i1, c1, n)], ?_, rfl, rfl, rfl⟩
    intro t ht
    simp only [List.mem_cons, List.not_mem_nil, or_false] at ht
    rcases ht with rfl | rfl
    · exact h0
    · exact h1

theorem secOk_two {sym : Sym} {i0 i1 : Index} {ch : Charge} {c0 c1 : Charge} :
    SecOk sym [i0, i1] ch [c0, c1] ↔ sym.combine [sym.sign c0 i0.dual, sym.sign c1 i1.dual] = ch := by
  unfold SecOk Arr.sectorCharge
  simp

/-- the signed pair `[c0, c1]` determines the row charge once the column charge is known -/
theorem combine_pair_cancel (s : Sym) (c0 c0' y : Charge) (d : Bool)
    (h0 : s.valid c0 = true) (h0' : s.valid c0' = true)
    (h : s.combine [s.sign c0 d, y] = s.combine [s.sign c0' d, y]) : c0 = c0' := by
  obtain ⟨a1, a2⟩ := c0
  obtain ⟨b1, b2⟩ := c0'
  obtain ⟨y1, y2⟩ := y
  cases s <;> cases d <;> sym_arith

theorem combine_conj_pair (s : Sym) (c : Charge) (d : Bool) :
    s.combine [s.sign c (!d), s.sign c d] = s.zero := by
  obtain ⟨c1, c2⟩ := c
  cases s <;> cases d <;> sym_arith

theorem valid_zero (s : Sym) : s.valid s.zero = true := by cases s <;> decide

theorem parity_zero (s : Sym) : s.parity s.zero = false := by cases s <;> decide

/-- what a stored block of a valid matrix looks like -/
theorem mat_block {x : Arr R} (hv : Valid x) {i0 i1 : Index} (hi : x.indices = [i0, i1])
    {sb : Sector × Blk R} (hsb : sb ∈ x.blocks) :
    ∃ c0 c1 m n, sb.1 = [c0, c1] ∧ sb.2.shape = [m, n]
      ∧ i0.sizeOf? c0 = some m ∧ i1.sizeOf? c1 = some n
      ∧ 0 < m ∧ 0 < n ∧ x.sym.valid c0 = true ∧ x.sym.valid c1 = true
      ∧ x.sym.combine [x.sym.sign c0 i0.dual, x.sym.sign c1 i1.dual] = x.charge
      ∧ sb.2.wf = true := by
  obtain ⟨h1, h2, h3⟩ := hv.blk sb hsb
  rw [hi] at h1 h2
  obtain ⟨c0, c1, m, n, hs, hshp, hm, hn⟩ := blockShape?_two.mp h2
  have w0 := wfB_sizeOf (hv.idx i0 (by simp [hi])) hm
  have w1 := wfB_sizeOf (hv.idx i1 (by simp [hi])) hn
  rw [hs] at h1
  exact ⟨c0, c1, m, n, hs, hshp.symm ▸ rfl, hm, hn, w0.1, w1.1, w0.2, w1.2, secOk_two.mp h1, h3⟩

/-- `matrix_sector_injective`: stored sectors of a valid matrix with the same column charge
    coincide -/
theorem matrix_sector_injective {x : Arr R} (hv : Valid x) {i0 i1 : Index}
    (hi : x.indices = [i0, i1]) {s s' : Sector} (hs : s ∈ x.blocks.map (·.1))
    (hs' : s' ∈ x.blocks.map (·.1)) (hc : s.getD 1 (0, 0) = s'.getD 1 (0, 0)) : s = s' := by
  obtain ⟨sb, hsb, rfl⟩ := List.mem_map.mp hs
  obtain ⟨sb', hsb', rfl⟩ := List.mem_map.mp hs'
  obtain ⟨c0, c1, m, n, e, _, _, _, _, _, v0, _, hch, _⟩ := mat_block hv hi hsb
  obtain ⟨c0', c1', m', n', e', _, _, _, _, _, v0', _, hch', _⟩ := mat_block hv hi hsb'
  rw [e, e'] at hc ⊢
  simp only [List.getD_cons_succ, List.getD_cons_zero] at hc
  subst hc
  rw [combine_pair_cancel x.sym c0 c0' _ i0.dual v0 v0' (hch.trans hch'.symm)]

theorem col_keys_nodup {x : Arr R} (hv : Valid x) {i0 i1 : Index} (hi : x.indices = [i0, i1]) :
    (x.blocks.map (fun sb => sb.1.getD 1 (0, 0))).Nodup := by
  have := List.Nodup.map_on (f := fun s : Sector => s.getD 1 (0, 0))
    (fun s hs s' hs' h => matrix_sector_injective hv hi hs hs' h) hv.nodup
  rw [List.map_map] at this
  exact this

/-! ## the shape contract of a pair of per-block factors -/

/-- `fl b : [m, min m n]`, `fr b : [min m n, n]` for a well-formed matrix block `b : [m, n]` -/
def FacContract (fl fr : Blk R → Blk R) : Prop :=
  ∀ b : Blk R, b.shape.length = 2 → b.wf = true →
    let m := b.shape.getD 0 0
    let n := b.shape.getD 1 0
    (fl b).shape = [m, min m n] ∧ (fl b).wf = true
      ∧ (fr b).shape = [min m n, n] ∧ (fr b).wf = true

theorem fac_block {fl fr : Blk R → Blk R} (hc : FacContract fl fr) {b : Blk R} {m n : Nat}
    (hs : b.shape = [m, n]) (hw : b.wf = true) :
    (fl b).shape = [m, min m n] ∧ (fl b).wf = true
      ∧ (fr b).shape = [min m n, n] ∧ (fr b).wf = true := by
  have := hc b (by rw [hs]; rfl) hw
  simpa [hs] using this

section Bond
variable {x : Arr R} {i0 i1 : Index} {fl fr : Blk R → Blk R}

theorem bondCm_eq (hv : Valid x) (hi : x.indices = [i0, i1]) (fl : Blk R → Blk R) :
    bondCm x fl = x.blocks.map (fun sb => (sb.1.getD 1 (0, 0), (fl sb.2).shape.getD 1 0))
      ∧ ((bondCm x fl).map (·.1)).Nodup := by
  have hn : ((x.blocks.map (fun sb => (sb.1.getD 1 (0, 0), (fl sb.2).shape.getD 1 0))).map
      (·.1)).Nodup := by
    rw [List.map_map]; exact col_keys_nodup hv hi
  unfold bondCm
  rw [adict_of_nodup hn]
  exact ⟨rfl, hn⟩

theorem bondIx_eq (hi : x.indices = [i0, i1]) (fl : Blk R → Blk R) :
    bondIx x fl = Index.mk (Index.sortCm (bondCm x fl)) i1.dual none := by
  unfold bondIx Index.plain; rw [hi]; rfl

theorem bond_cmOk (hv : Valid x) (hi : x.indices = [i0, i1]) (hc : FacContract fl fr) :
    CmOk x.sym (Index.sortCm (bondCm x fl)) := by
  obtain ⟨he, hn⟩ := bondCm_eq hv hi fl
  apply cmOk_sortCm hn
  intro p hp
  rw [he] at hp
  obtain ⟨sb, hsb, rfl⟩ := List.mem_map.mp hp
  obtain ⟨c0, c1, m, n, e, hshp, _, _, hm, hn', _, v1, _, hw⟩ := mat_block hv hi hsb
  obtain ⟨h1, _, _, _⟩ := fac_block hc hshp hw
  simp only [e, h1, List.getD_cons_succ, List.getD_cons_zero]
  exact ⟨by omega, v1⟩

theorem bond_sizeOf (hv : Valid x) (hi : x.indices = [i0, i1]) (hc : FacContract fl fr)
    {sb : Sector × Blk R} (hsb : sb ∈ x.blocks) {c0 c1 : Charge} {m n : Nat}
    (e : sb.1 = [c0, c1]) (hshp : sb.2.shape = [m, n]) :
    alookup (Index.sortCm (bondCm x fl)) c1 = some (min m n) := by
  obtain ⟨he, hn⟩ := bondCm_eq hv hi fl
  apply alookup_sortCm hn
  rw [he]
  refine List.mem_map.mpr ⟨sb, hsb, ?_⟩
  obtain ⟨h1, _, _, _⟩ := fac_block hc hshp (hv.blk sb hsb).2.2
  simp only [e, h1, List.getD_cons_succ, List.getD_cons_zero]

end Bond

/-! ## validity of the two factors -/

theorem facL_valid (x : Arr R) (fl fr : Blk R → Blk R) (hv : Valid x) (h2 : x.ndim = 2)
    (hc : FacContract fl fr) : Valid (facL x fl) := by
  obtain ⟨i0, i1, hi⟩ := List.length_eq_two.mp h2
  have hcm := bond_cmOk (fl := fl) hv hi hc
  unfold facL
  rw [bondIx_eq hi, hi]
  simp only [List.getD_cons_zero]
  refine ⟨?_, hv.chg, ?_, ?_, ?_⟩
  · intro i hmem
    simp only [List.mem_cons, List.not_mem_nil, or_false] at hmem
    rcases hmem with rfl | rfl
    · exact hv.idx i (by simp [hi])
    · exact (wfB_none _ _ _).mpr hcm
  · show (List.map (·.1) (x.blocks.map (fun sb : Sector × Blk R => (sb.1, fl sb.2)))).Nodup
    rw [map_keys_eq]; exact hv.nodup
  · intro sb hsb
    obtain ⟨sb0, h0, rfl⟩ := List.mem_map.mp hsb
    obtain ⟨c0, c1, m, n, e, hshp, hm0, _, _, _, _, _, hch, hw⟩ := mat_block hv hi h0
    obtain ⟨h1, hw1, _, _⟩ := fac_block hc hshp hw
    refine ⟨?_, ?_, hw1⟩
    · show SecOk x.sym [i0, Index.mk (Index.sortCm (bondCm x fl)) i1.dual none] x.charge sb0.1
      rw [e]
      exact secOk_two.mpr hch
    · show Arr.blockShape? [i0, Index.mk (Index.sortCm (bondCm x fl)) i1.dual none] sb0.1
        = some (fl sb0.2).shape
      rw [e, h1]
      exact blockShape?_two.mpr ⟨c0, c1, m, min m n, rfl, rfl, hm0, bond_sizeOf hv hi hc h0 e hshp⟩
  · have hs := hv.sgn
    unfold SignsOk at hs ⊢
    show if x.fermi = true then
        PhasesOk x.sym [i0, Index.mk (Index.sortCm (bondCm x fl)) i1.dual none] x.charge x.phases
          ∧ ((x.oddpos.length % 2 == 1) = x.sym.parity x.charge)
      else x.phases = [] ∧ x.oddpos = []
    split
    · rename_i hf
      simp only [hf, if_true] at hs
      refine ⟨phasesOk_retarget hs.1 ?_, hs.2⟩
      intro s h
      rw [hi] at h
      exact h
    · rename_i hf
      simp only [hf] at hs
      exact hs

theorem facR0_valid (x : Arr R) (fl fr : Blk R → Blk R) (hv : Valid x) (h2 : x.ndim = 2)
    (hc : FacContract fl fr) : Valid (facR0 x fl fr) := by
  obtain ⟨i0, i1, hi⟩ := List.length_eq_two.mp h2
  have hcm := bond_cmOk (fl := fl) hv hi hc
  unfold facR0
  rw [bondIx_eq hi, hi, Index.conj.eq_1]
  simp only [List.getD_cons_succ, List.getD_cons_zero]
  refine ⟨?_, valid_zero _, adict_keys_nodup _, ?_, ?_⟩
  · intro i hmem
    simp only [List.mem_cons, List.not_mem_nil, or_false] at hmem
    rcases hmem with rfl | rfl
    · exact (wfB_none _ _ _).mpr hcm
    · exact hv.idx i (by simp [hi])
  · intro sb hsb
    obtain ⟨sb0, h0, rfl⟩ := List.mem_map.mp (mem_adict hsb)
    obtain ⟨c0, c1, m, n, e, hshp, _, hn1, _, _, _, _, _, hw⟩ := mat_block hv hi h0
    obtain ⟨_, _, h2', hw2⟩ := fac_block hc hshp hw
    simp only [e, List.getD_cons_succ, List.getD_cons_zero]
    refine ⟨?_, ?_, hw2⟩
    · exact secOk_two.mpr (combine_conj_pair x.sym c1 i1.dual)
    · show Arr.blockShape? [Index.mk (Index.sortCm (bondCm x fl)) (!i1.dual) none, i1] [c1, c1]
        = some (fr sb0.2).shape
      rw [h2']
      exact blockShape?_two.mpr ⟨c1, c1, min m n, n, rfl, rfl, bond_sizeOf hv hi hc h0 e hshp, hn1⟩
  · unfold SignsOk
    show if x.fermi = true then
        PhasesOk x.sym _ x.sym.zero [] ∧ (((([] : List (Int × Bool)).length % 2 == 1)) = x.sym.parity x.sym.zero)
      else ([] : List (Sector × Int)) = [] ∧ ([] : List (Int × Bool)) = []
    split
    · exact ⟨phasesOk_nil, by rw [parity_zero]; rfl⟩
    · exact ⟨rfl, rfl⟩

theorem facR_valid (x : Arr R) (fl fr : Blk R → Blk R) (hv : Valid x) (h2 : x.ndim = 2)
    (hc : FacContract fl fr) : Valid (facR x fl fr) := by
  unfold facR
  split
  · rename_i hf
    simp only [Bool.and_eq_true] at hf
    exact phaseFlip_valid _ _ (facR0_valid x fl fr hv h2 hc) hf.1
  · exact facR0_valid x fl fr hv h2 hc

/-! ## the kernel contracts and the two theorems -/

/-- shape contract of the per-block QR kernel: for a well-formed matrix block `b : [m, n]`,
    `q : [m, min m n]` and `r : [min m n, n]`, both well formed -/
def QrShapeContract (K : Kernels R) : Prop :=
  ∀ b : Blk R, b.shape.length = 2 → b.wf = true →
    let m := b.shape.getD 0 0
    let n := b.shape.getD 1 0
    (K.qr b).1.shape = [m, min m n] ∧ (K.qr b).1.wf = true
      ∧ (K.qr b).2.shape = [min m n, n] ∧ (K.qr b).2.wf = true

/-- shape contract of the per-block SVD kernel: `u : [m, k]`, `s : [k]`, `vh : [k, n]` with
    `k = min m n`, all well formed -/
def SvdShapeContract (K : Kernels R) : Prop :=
  ∀ b : Blk R, b.shape.length = 2 → b.wf = true →
    let m := b.shape.getD 0 0
    let n := b.shape.getD 1 0
    (K.svd b).1.shape = [m, min m n] ∧ (K.svd b).1.wf = true
      ∧ (K.svd b).2.1.shape = [min m n] ∧ (K.svd b).2.1.wf = true
      ∧ (K.svd b).2.2.shape = [min m n, n] ∧ (K.svd b).2.2.wf = true

/-- non-vacuity: the shape-only kernels satisfy both contracts -/
theorem shapeOnly_qrContract [Zero R] : QrShapeContract (Kernels.shapeOnly : Kernels R) := by
  intro b _ _
  exact ⟨rfl, ofFn_wf _ _, rfl, ofFn_wf _ _⟩

theorem shapeOnly_svdContract [Zero R] : SvdShapeContract (Kernels.shapeOnly : Kernels R) := by
  intro b _ _
  exact ⟨rfl, ofFn_wf _ _, rfl, ofFn_wf _ _, rfl, ofFn_wf _ _⟩

theorem QrShapeContract.fac {K : Kernels R} (hK : QrShapeContract K) :
    FacContract (fun b => (K.qr b).1) (fun b => (K.qr b).2) := hK

theorem SvdShapeContract.fac {K : Kernels R} (hK : SvdShapeContract K) :
    FacContract (fun b => (K.svd b).1) (fun b => (K.svd b).2.2) := by
  intro b h1 h2
  obtain ⟨a1, a2, _, _, a5, a6⟩ := hK b h1 h2
  exact ⟨a1, a2, a5, a6⟩

/-- C01 for `qr`: both factors of a valid array are valid (abelian and fermionic) -/
theorem qrA_valid (K : Kernels R) (x q r : Arr R) (hv : Valid x) (hK : QrShapeContract K)
    (h : qrA K x = .ok (q, r)) : Valid q ∧ Valid r := by
  rw [qrA_eq] at h
  split at h
  · cases h
  · rename_i hn
    have h2 : x.ndim = 2 := by simpa using hn
    simp only [Except.ok.injEq, Prod.mk.injEq] at h
    obtain ⟨rfl, rfl⟩ := h
    exact ⟨facL_valid x _ _ hv h2 hK.fac, facR_valid x _ _ hv h2 hK.fac⟩

/-- what is known about the singular-value vector: one 1-D well-formed block of the bond
    size per bond charge -/
structure SvalsOk (bond : Index) (s : BVec R) : Prop where
  nodup : (s.blocks.map (·.1)).Nodup
  keys : (s.blocks.map (·.1)).Perm bond.charges
  blk : ∀ cb ∈ s.blocks, ∃ k, bond.sizeOf? cb.1 = some k ∧ cb.2.shape = [k] ∧ cb.2.wf = true

theorem svals_ok (K : Kernels R) (x : Arr R) (hv : Valid x) (h2 : x.ndim = 2)
    (hK : SvdShapeContract K) :
    SvalsOk (bondIx x (fun b => (K.svd b).1))
      ⟨adict (x.blocks.map (fun sb => (sb.1.getD 1 (0, 0), (K.svd sb.2).2.1)))⟩ := by
  obtain ⟨i0, i1, hi⟩ := List.length_eq_two.mp h2
  have hn : ((x.blocks.map (fun sb => (sb.1.getD 1 (0, 0), (K.svd sb.2).2.1))).map (·.1)).Nodup := by
    rw [List.map_map]; exact col_keys_nodup hv hi
  obtain ⟨he, _⟩ := bondCm_eq hv hi (fun b => (K.svd b).1)
  rw [bondIx_eq hi, adict_of_nodup hn]
  refine ⟨hn, ?_, ?_⟩
  · show List.Perm (List.map (·.1) (x.blocks.map (fun sb => (sb.1.getD 1 (0, 0), (K.svd sb.2).2.1))))
      ((Index.sortCm (bondCm x fun b => (K.svd b).1)).map (·.1))
    refine List.Perm.trans ?_ ((sortCm_perm _).map _).symm
    rw [he, List.map_map, List.map_map]
    exact List.Perm.refl _
  · intro cb hcb
    obtain ⟨sb, hsb, rfl⟩ := List.mem_map.mp hcb
    obtain ⟨c0, c1, m, n, e, hshp, _, _, _, _, _, _, _, hw⟩ := mat_block hv hi hsb
    obtain ⟨_, _, a3, a4, _, _⟩ := hK sb.2 (by rw [hshp]; rfl) hw
    refine ⟨min m n, ?_, ?_, a4⟩
    · simp only [e, List.getD_cons_succ, List.getD_cons_zero]
      exact bond_sizeOf hv hi hK.fac hsb e hshp
    · simpa [hshp] using a3

/-- C01 for `svd`: `u` and `vh` of a valid array are valid, and the singular values are stored
    as one 1-D block per charge of the new bond (`u.indices[1]`) -/
theorem svdA_valid (K : Kernels R) (x u v : Arr R) (s : BVec R) (hv : Valid x)
    (hK : SvdShapeContract K) (h : svdA K x = .ok (u, s, v)) :
    Valid u ∧ Valid v ∧ SvalsOk (u.indices.getD 1 default) s := by
  rw [svdA_eq] at h
  split at h
  · cases h
  · rename_i hn
    have h2 : x.ndim = 2 := by simpa using hn
    simp only [Except.ok.injEq, Prod.mk.injEq] at h
    obtain ⟨rfl, rfl, rfl⟩ := h
    exact ⟨facL_valid x _ _ hv h2 hK.fac, facR_valid x _ _ hv h2 hK.fac, svals_ok K x hv h2 hK⟩

/-- `qrA`/`svdA` succeed exactly on matrices, so the theorems above are not vacuous -/
theorem qrA_ok (K : Kernels R) (x : Arr R) (h2 : x.ndim = 2) : ∃ q r, qrA K x = .ok (q, r) := by
  rw [qrA_eq]; simp [h2]

theorem svdA_ok (K : Kernels R) (x : Arr R) (h2 : x.ndim = 2) :
    ∃ u s v, svdA K x = .ok (u, s, v) := by
  rw [svdA_eq]; simp [h2]

/-- the same in terms of the decidable predicate of C01 -/
theorem qrA_validB (K : Kernels R) (x q r : Arr R) (hv : x.validB = true) (hK : QrShapeContract K)
    (h : qrA K x = .ok (q, r)) : q.validB = true ∧ r.validB = true := by
  obtain ⟨h1, h2⟩ := qrA_valid K x q r ((validB_iff x).mp hv) hK h
  exact ⟨(validB_iff q).mpr h1, (validB_iff r).mpr h2⟩

theorem svdA_validB (K : Kernels R) (x u v : Arr R) (s : BVec R) (hv : x.validB = true)
    (hK : SvdShapeContract K) (h : svdA K x = .ok (u, s, v)) :
    u.validB = true ∧ v.validB = true := by
  obtain ⟨h1, h2, _⟩ := svdA_valid K x u v s ((validB_iff x).mp hv) hK h
  exact ⟨(validB_iff u).mpr h1, (validB_iff v).mpr h2⟩

/-! ## the hypotheses are satisfiable: concrete valid matrices -/

/-- U1 matrix, mixed directions, two blocks of different shapes -/
def exU1 : Arr Int :=
  { sym := .U1, fermi := false,
    indices := [Index.mk [((0, 0), 2), ((1, 0), 1)] false none,
                Index.mk [((0, 0), 1), ((1, 0), 3)] true none],
    charge := (0, 0),
    blocks := [([(0, 0), (0, 0)], ⟨[2, 1], #[1, 2]⟩), ([(1, 0), (1, 0)], ⟨[1, 3], #[3, 4, 5]⟩)] }

/-- fermionic Z2 matrix of odd parity with a pending sign; the right factor gets a phase flip
    (`bond.conj.dual = true`) -/
def exZ2f : Arr Int :=
  { sym := .Z2, fermi := true,
    indices := [Index.mk [((0, 0), 2), ((1, 0), 3)] true none,
                Index.mk [((0, 0), 1), ((1, 0), 2)] false none],
    charge := (1, 0),
    blocks := [([(0, 0), (1, 0)], ⟨[2, 2], #[1, 2, 3, 4]⟩), ([(1, 0), (0, 0)], ⟨[3, 1], #[5, 6, 7]⟩)],
    phases := [([(1, 0), (0, 0)], -1)],
    oddpos := [(0, false)] }

example : exU1.validB = true := by decide
example : exZ2f.validB = true := by decide

example (q r : Arr Int) (h : qrA Kernels.shapeOnly exU1 = .ok (q, r)) : Valid q ∧ Valid r :=
  qrA_valid _ _ q r ((validB_iff _).mp (by decide)) shapeOnly_qrContract h

example (q r : Arr Int) (h : qrA Kernels.shapeOnly exZ2f = .ok (q, r)) : Valid q ∧ Valid r :=
  qrA_valid _ _ q r ((validB_iff _).mp (by decide)) shapeOnly_qrContract h

example (u v : Arr Int) (s : BVec Int) (h : svdA Kernels.shapeOnly exZ2f = .ok (u, s, v)) :
    Valid u ∧ Valid v ∧ SvalsOk (u.indices.getD 1 default) s :=
  svdA_valid _ _ u v s ((validB_iff _).mp (by decide)) shapeOnly_svdContract h

/-- independent cross-check by evaluation: the factors the model computes pass `validB`, and the
    fermionic right factor really carries a flipped sign -/
example : ∃ q r, qrA Kernels.shapeOnly exU1 = .ok (q, r) ∧ q.validB = true ∧ r.validB = true :=
  ⟨_, _, rfl, by decide +kernel, by decide +kernel⟩

example : ∃ q r, qrA Kernels.shapeOnly exZ2f = .ok (q, r) ∧ q.validB = true ∧ r.validB = true
    ∧ r.phases = [([(1, 0), (1, 0)], -1)] :=
  ⟨_, _, rfl, by decide +kernel, by decide +kernel, by decide +kernel⟩

example : ∃ u s v, svdA Kernels.shapeOnly exZ2f = .ok (u, s, v) ∧ u.validB = true
    ∧ v.validB = true ∧ s.blocks.map (·.1) = [(1, 0), (0, 0)] :=
  ⟨_, _, _, rfl, by decide +kernel, by decide +kernel, by decide +kernel⟩

end ValidP
end SymmModel
