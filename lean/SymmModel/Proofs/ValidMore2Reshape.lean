/-
  SymmModel.Proofs.ValidMore2Reshape — `AbelianArray.reshape` returns a valid array
  (property C01).  `reshapeArr` executes the planner's plan as a sequence of `unfuse`, `fuse`
  and `expand_dims` calls; each of them preserves validity, the `fuse` calls under their
  documented precondition (grouped axes distinct and in range), which is the guard
  `reshapeAdmissibleB` evaluated along the model's own execution of the plan.
-/
import SymmModel.Proofs.ValidFuseF
import SymmModel.Model.Reshape

namespace SymmModel
namespace ValidP
open Sym

variable {R : Type}

theorem unfuseDispatch_valid [Zero R] [Neg R] (x r : Arr R) (ax : Nat) (hv : Valid x)
    (h : unfuseDispatch x ax = .ok r) : Valid r := by
  unfold unfuseDispatch at h
  split at h
  · rename_i hf; exact unfuseF_valid x r ax hv hf h
  · rename_i hf; exact unfuseA_valid x r ax hv (by simpa using hf) h

theorem fuseDispatch_valid [Zero R] [Neg R] (x r : Arr R) (grouping : List (List Nat))
    (hv : Valid x) (hadm : fuseAdmissibleB grouping x.ndim = true)
    (h : fuseDispatch x grouping = .ok r) : Valid r := by
  unfold fuseDispatch at h
  split at h
  · rename_i hf; exact fuseF_valid x r grouping true hv hf hadm h
  · rename_i hf; exact fuseA_valid x r grouping true hv (by simpa using hf) hadm h

theorem expandDispatch_valid (x r : Arr R) (ax : Nat) (hv : Valid x)
    (h : expandDispatch x ax = .ok r) : Valid r := by
  unfold expandDispatch at h
  split at h
  · cases h
  · simp only [pure, Except.pure, Except.ok.injEq] at h
    subst h; exact expandDims_none_valid x ax none hv

/-- every `fuse` call of the plan, as the model executes it, receives admissible groups -/
def fuseStepsAdmissibleB [Zero R] [Neg R] : Arr R → List (List (List Nat)) → Bool
  | _, [] => true
  | x, g :: gs =>
    fuseAdmissibleB g x.ndim &&
    match fuseDispatch x g with
    | .ok x' => fuseStepsAdmissibleB x' gs
    | .error _ => true

def planAdmissibleB [Zero R] [Neg R] (a : Arr R)
    (plan : List Nat × List (List (List Nat)) × List Nat) : Bool :=
  match plan.1.foldlM unfuseDispatch a with
  | .ok x => fuseStepsAdmissibleB x plan.2.1
  | .error _ => true

/-- the guard of `reshape`: the plan the planner returns only issues admissible `fuse` calls -/
def reshapeAdmissibleB [Zero R] [Neg R] (a : Arr R) (newshape : List Int) : Bool :=
  match (do
    let full ← findFullReshape newshape a.size
    let ns ← full.mapM (fun (d : Int) =>
      if d < 0 then (throw Err.notimpl : Except Err Nat) else pure d.toNat)
    calcReshapeArgs a.shape ns a.subsizes) with
  | .ok plan => planAdmissibleB a plan
  | .error _ => true

theorem fuseSteps_valid [Zero R] [Neg R] (gs : List (List (List Nat))) (x r : Arr R)
    (hv : Valid x) (hadm : fuseStepsAdmissibleB x gs = true)
    (h : gs.foldlM fuseDispatch x = .ok r) : Valid r := by
  induction gs generalizing x with
  | nil =>
    simp only [List.foldlM_nil, pure, Except.pure, Except.ok.injEq] at h
    subst h; exact hv
  | cons g gs ih =>
    rw [List.foldlM_cons] at h
    obtain ⟨x', hx', h⟩ := bind_ok h
    simp only [fuseStepsAdmissibleB, Bool.and_eq_true] at hadm
    rw [hx'] at hadm
    exact ih x' (fuseDispatch_valid x x' g hv hadm.1 hx') hadm.2 h

theorem applyPlan_valid [Zero R] [Neg R] (a r : Arr R)
    (plan : List Nat × List (List (List Nat)) × List Nat) (hv : Valid a)
    (hadm : planAdmissibleB a plan = true) (h : applyPlan a plan = .ok r) : Valid r := by
  unfold applyPlan at h
  obtain ⟨x1, hx1, h⟩ := bind_ok h
  obtain ⟨x2, hx2, h⟩ := bind_ok h
  have v1 : Valid x1 :=
    foldlM_ok_inv (fun x : Arr R => Valid x) unfuseDispatch plan.1 a x1 hv
      (fun x ax x' _ hx hs => unfuseDispatch_valid x x' ax hx hs) hx1
  unfold planAdmissibleB at hadm
  rw [hx1] at hadm
  have v2 : Valid x2 := fuseSteps_valid plan.2.1 x1 x2 v1 hadm hx2
  exact foldlM_ok_inv (fun x : Arr R => Valid x) expandDispatch plan.2.2 x2 r v2
    (fun x ax x' _ hx hs => expandDispatch_valid x x' ax hx hs) h

theorem reshapeArr_valid [Zero R] [Neg R] (a r : Arr R) (newshape : List Int) (hv : Valid a)
    (hadm : reshapeAdmissibleB a newshape = true) (h : reshapeArr a newshape = .ok r) :
    Valid r := by
  unfold reshapeArr at h
  obtain ⟨full, hfull, h⟩ := bind_ok h
  obtain ⟨ns, hns, h⟩ := bind_ok h
  obtain ⟨plan, hplan, h⟩ := bind_ok h
  unfold reshapeAdmissibleB at hadm
  simp only [hfull, hns, hplan, bind, Except.bind] at hadm
  exact applyPlan_valid a r plan hv hadm h

end ValidP
end SymmModel
