/-
  SymmModel.Proofs.Fuse9Rel — the relation "`z` is `conjF w` up to the flip over a list of axes" and
  its propagation through one `unfuseF` step on both arrays.
-/
import SymmModel.Proofs.Fuse9Step
import SymmModel.Proofs.Fuse6Box
namespace SymmModel
namespace FuseP
set_option linter.unusedSectionVars false
open SymmModel.Lazy SymmModel.KoszulP SymmModel.LinalgLemmas

variable {R : Type} [Zero R] [Neg R] [Conj R] [LawfulNegConj R]

/-- `z` is `conjF w` on every box, up to the sign `flipSign axes` of the sector -/
structure CRel (axes : List Nat) (z w : Arr R) : Prop where
  zv : z.validB = true
  zf : z.fermi = true
  wv : w.validB = true
  wf : w.fermi = true
  idx : z.indices = w.conjF.indices
  sym : z.sym = w.conjF.sym
  charge : z.charge = w.conjF.charge
  oddpos : z.oddpos = w.conjF.oddpos
  elem : ∀ K shp, Arr.blockShape? z.indices K = some shp → ∀ J, inBox shp J = true →
    z.elem K J = sgnI (Lazy.flipSign w.sym axes K) (w.conjF.elem K J)

theorem CRel.base (y : Arr R) (hv : y.validB = true) (hf : y.fermi = true) : CRel [] y.conjF y :=
  ⟨C01.conjF_valid y true false hv hf, by rw [(conjF_frame y true false).2.1]; exact hf, hv, hf, rfl, rfl, rfl, rfl,
    fun K _ _ J _ => by rw [flipSign_nil, sgnI_one]⟩

/-- flip over axes behind the collapsed segment -/
theorem flipSign_collapse (sym : Sym) (axes : List Nat) {p L : Nat} {A S X : Sector} (c : Charge)
    (hA : A.length = p) (hS : S.length = L) (hL : 0 < L) (hax : ∀ ax ∈ axes, p < ax) :
    Lazy.flipSign sym axes (A ++ [c] ++ X) = Lazy.flipSign sym (axes.map (fun ax => ax + L - 1)) (A ++ S ++ X) := by
  unfold Lazy.flipSign Lazy.flipOdd
  rw [List.filter_map, List.length_map]
  have : axes.filter (fun ax => sym.parity ((A ++ [c] ++ X).getD ax (0, 0)))
      = axes.filter ((fun ax => sym.parity ((A ++ S ++ X).getD ax (0, 0))) ∘ fun ax => ax + L - 1) := by
    apply List.filter_congr
    intro ax hm
    have hp := hax ax hm
    simp only [Function.comp]
    obtain ⟨j, rfl⟩ : ∃ j, ax = p + 1 + j := ⟨ax - p - 1, by omega⟩
    have e1 : (A ++ [c] ++ X).getD (p + 1 + j) (0, 0) = X.getD j (0, 0) := by
      have := getD_after (A ++ [c]) X j (0, 0)
      simp only [List.length_append, hA, List.length_cons, List.length_nil] at this
      exact this
    have e2 : (A ++ S ++ X).getD (p + 1 + j + L - 1) (0, 0) = X.getD j (0, 0) := by
      have := getD_after (A ++ S) X j (0, 0)
      simp only [List.length_append, hA, hS] at this
      rw [show p + 1 + j + L - 1 = p + L + j by omega]
      exact this
    rw [e1, e2]
  rw [this]

theorem unfuseSign_congr (a b : Arr R) (h1 : a.sym = b.sym) (h2 : a.ndim = b.ndim) (ix : Index)
    (subs : List Index) (p : Nat) : unfuseSign a ix subs p = unfuseSign b ix subs p := by
  funext K
  simp only [unfuseSign, h1, h2]

/-- **one `unfuseF` step on both sides of the relation** -/
theorem CRel.step {axes : List Nat} {z w : Arr R} (h : CRel axes z w) {p : Nat} {ix : Index}
    {subs : List Index} {exts : Extents} (hix : w.indices[p]? = some ix) (hsub : ix.sub = some (subs, exts))
    (hL : 0 < subs.length) (hax : ∀ ax ∈ axes, p < ax) :
    ∃ w' z', Arr.unfuseF w p = .ok w' ∧ Arr.unfuseF z p = .ok z'
      ∧ w'.indices = replaceWithSeq w.indices p subs
      ∧ CRel ((mismatchLegs ix subs).map (fun t => p + t) ++ axes.map (fun ax => ax + subs.length - 1)) z' w' := by
  obtain ⟨u, u', hu, hu', huv, huf, hu'v, hu'f, hui, hi', hs', hc', ho', hel⟩ :=
    conj_unfuse_step w h.wv h.wf hix hsub
  have hfw := conjF_frame w true false
  have hixz : z.indices[p]? = some ix.conj := by rw [h.idx, hfw.2.2.1, List.getElem?_map, hix]; rfl
  have hixc : w.conjF.indices[p]? = some ix.conj := by rw [← h.idx]; exact hixz
  have hsubc := conj_sub ix hsub
  have hvc : w.conjF.validB = true := C01.conjF_valid w true false h.wv h.wf
  obtain ⟨z', hz', hzi, hzv⟩ := unfuseF_val z p ix.conj (subs.map Index.conj) exts h.zv hixz hsubc
  obtain ⟨u2, hu2, hu2i, hu2v⟩ := unfuseF_val w.conjF p ix.conj (subs.map Index.conj) exts hvc hixc hsubc
  rw [hu'] at hu2
  simp only [Except.ok.injEq] at hu2
  subst hu2
  obtain ⟨hVz', hfz'⟩ := ValidP.unfuseF_valid' z z' p ((ValidP.validB_iff z).1 h.zv) h.zf hz'
  obtain ⟨fz1, fz2, fz3⟩ := unfuseF_frame z p h.zv hixz hsubc hz'
  obtain ⟨fu1, fu2, fu3⟩ := unfuseF_frame w.conjF p hvc hixc hsubc hu'
  obtain ⟨fw1, _, _⟩ := unfuseF_frame w p h.wv hix hsub hu
  have hzu : z'.indices = u'.indices := by rw [hzi, hu2i, h.idx]
  refine ⟨u, z', hu, hz', hui, ⟨(ValidP.validB_iff z').2 hVz', hfz', huv, huf, by rw [hzu, hi'],
    by rw [fz1, h.sym, ← fu1, hs'], by rw [fz2, h.charge, ← fu2, hc'], by rw [fz3, h.oddpos, ← fu3, ho'], ?_⟩⟩
  intro K shp hK J hJ
  have hKu : Arr.blockShape? u'.indices K = some shp := by rw [← hzu]; exact hK
  rw [flipSign_append, sgnI_mul (Lazy.flipSign_pm _ _ _) (Lazy.flipSign_pm _ _ _), sgnI_comm, fw1,
    ← hel K shp hKu J hJ,
    hzv K shp hK J hJ, hu2v K shp hKu J hJ, h.sym,
    unfuseSign_congr z w.conjF h.sym (by show z.indices.length = _; rw [h.idx]; rfl)]
  -- parts
  have hp : p < w.indices.length := getElem?_lt hix
  have hKl : p + subs.length ≤ K.length := by
    have := (blockShape?_length hK).1
    rw [hzi, replaceWithSeq_split] at this
    have hzl : z.indices.length = w.indices.length := by rw [h.idx, hfw.2.2.1, List.length_map]
    simp only [List.length_append, List.length_take, List.length_drop, List.length_map] at this
    omega
  have hJl : J.length = K.length := by rw [inBox_length hJ, (blockShape?_length hK).2]
  obtain ⟨A, S, X, rfl, hA, hS⟩ := exists_parts K p subs.length hKl
  obtain ⟨A', S', X', rfl, hA', hS'⟩ := exists_parts J p subs.length (by omega)
  have hSc : S.length = (subs.map Index.conj).length := by rw [List.length_map]; exact hS
  have hSc' : S'.length = (subs.map Index.conj).length := by rw [List.length_map]; exact hS'
  rw [unfVal_parts _ _ _ _ _ _ hA hSc hA' hSc', unfVal_parts _ _ _ _ _ _ hA hSc hA' hSc']
  cases hl : look w.conjF.sym ix.conj (subs.map Index.conj) exts S with
  | none => simp only; rw [sgnI_zero]
  | some q =>
    obtain ⟨st, sub⟩ := q
    simp only
    -- the collapsed address lies in a box of `z`
    have hwz : Index.wfB w.conjF.sym ix.conj = true := by
      have := (validArr_of_validB h.zv).idx ix.conj (getElem?_mem' hixz)
      rw [h.sym] at this; exact this
    obtain ⟨IA, IX, hI, hIA⟩ := parts_at hixz
    have hK' : Arr.blockShape? (IA ++ subs.map Index.conj ++ IX) (A ++ S ++ X) = some shp := by
      rw [hzi, hI, replace_parts hIA] at hK; exact hK
    obtain ⟨shp1, hb1, hj1⟩ := collapse_box hwz hsubc (by rw [hA, hIA]) hSc (by rw [hA', hIA]) hSc' hK' hJ hl
    rw [← hI] at hb1
    rw [h.elem _ shp1 hb1 _ hj1, sgnI_comm]
    congr 1
    rw [hfw.1]
    exact flipSign_collapse w.sym axes _ hA hS hL hax

end FuseP
end SymmModel
