/-
  SymmModel.Proofs.NetNormL1 — network form of the norm (property C10), ket-bra-first bracketings,
  part 4: list bookkeeping for the hub `(ā·a)·(b̄·b)` (`freeAxes` of a permutation of the first block,
  `positions` under a shift, the axis lists of the routes through `ā·a` in closed form) and the label-free
  piece `X = ā·a` with its guards (`Piece`, `piece_of`, `piece_guards`).
-/
import SymmModel.Proofs.NetNormK3

namespace SymmModel.NormNet
open SymmModel SymmModel.Lazy SymmModel.Norm SymmModel.TdotP SymmModel.GradedP SymmModel.RoutesP
open SymmModel.AssocP SymmModel.Assoc3P SymmModel.Assoc4P SymmModel.Assoc5P SymmModel.Net4P
open SymmModel.OddposP (mergeOddpos)
set_option linter.unusedSectionVars false

/-! ## lists -/

section lists

/-- positions of entries outside the first block -/
theorem positions_append_right' (L G x : List Nat) (hx : ∀ e ∈ x, e ∉ L) :
    positions (L ++ G) x = (positions G x).map (L.length + ·) := by
  unfold positions
  induction x with
  | nil => rfl
  | cons y ys ih =>
    rw [List.filterMap_cons, List.filterMap_cons, indexOf?_append_right L G y (hx y (by simp)),
      ih (fun e he => hx e (List.mem_cons_of_mem _ he))]
    cases indexOf? G y <;> rfl

/-- positions under a common shift -/
theorem positions_shift_cancel (G q : List Nat) (b : Nat) :
    positions (G.map (b + ·)) (q.map (b + ·)) = positions G q := by
  have := positions_append_shift [] G q b (by simp)
  simp only [List.nil_append, List.length_nil, Nat.zero_add, List.map_id'] at this
  exact this

/-- positions of small entries in a range -/
theorem positions_range_lt (k : Nat) (x : List Nat) (hx : ∀ i ∈ x, i < k) :
    positions (List.range k) x = x := by
  have := positions_range_append k [] x hx
  rwa [List.append_nil] at this

/-- the free axes of a `2k`-leg tensor whose first block is contracted entirely -/
theorem freeAxes_perm_low (k : Nat) (π : List Nat) (hπ : π.Perm (List.range k)) :
    freeAxes (k + k) π = (List.range k).map (k + ·) := by
  rw [freeAxes_low k k π (fun i hi => List.mem_range.mp (hπ.mem_iff.mp hi)),
    freeAxes_all k π (fun i hi => hπ.mem_iff.mpr (List.mem_range.mpr hi)), List.nil_append]

/-- the free axes when the second block is contracted entirely -/
theorem freeAxes_shift_all (p q : Nat) :
    freeAxes (p + q) ((List.range q).map (p + ·)) = List.range p := by
  rw [AssocP.freeAxes_shift, freeAxes_range_self]
  simp

theorem positions_nil' (l : List Nat) : positions l [] = [] := rfl

end lists

/-! ## the axis lists of the routes through `ā·a` -/

section kb
variable {R : Type}

/-- the sorted bond legs -/
theorem sorted_perm {n : Nat} {xa : List Nat} (hn : xa.Nodup) (hlt : ∀ i ∈ xa, i < n) :
    xa.Perm (freeAxes n (freeAxes n xa)) := by
  have h1 := perm_right hn hlt
  have h2 := perm_left (freeAxes_nodup n xa) (fun _ hi => mem_freeAxes_lt _ hi)
  exact (List.perm_append_right_iff _).mp (h1.trans h2.symm)

theorem sorted_len {n : Nat} {xa : List Nat} (hn : xa.Nodup) (hlt : ∀ i ∈ xa, i < n) :
    (freeAxes n (freeAxes n xa)).length = xa.length := (sorted_perm hn hlt).length_eq.symm

/-- the legs of `ā·a` bonded to `b̄`: the positions of `xa` among the sorted bond legs -/
def kbQ (n : Nat) (xa : List Nat) : List Nat := positions (freeAxes n (freeAxes n xa)) xa

theorem kbX_eq (a : Arr R) (xa : List Nat) : kbX a xa = kbQ a.ndim xa := by
  unfold kbX Assoc2P.axesBC kbQ
  rw [positions_nil', List.map_nil, List.append_nil]

theorem kbQ_perm {n : Nat} {xa : List Nat} (hn : xa.Nodup) (hlt : ∀ i ∈ xa, i < n) :
    (kbQ n xa).Perm (List.range xa.length) := by
  have := positions_perm _ xa (sorted_perm hn hlt) (freeAxes_nodup _ _)
  rwa [sorted_len hn hlt] at this

theorem kbQ_lt {n : Nat} {xa : List Nat} (hn : xa.Nodup) (hlt : ∀ i ∈ xa, i < n) :
    ∀ i ∈ kbQ n xa, i < xa.length := fun _ hi =>
  List.mem_range.mp ((kbQ_perm hn hlt).mem_iff.mp hi)

theorem kbQ_nodup {n : Nat} {xa : List Nat} (hn : xa.Nodup) (hlt : ∀ i ∈ xa, i < n) :
    (kbQ n xa).Nodup := (kbQ_perm hn hlt).nodup_iff.mpr List.nodup_range

theorem kbQ_len {n : Nat} {xa : List Nat} (hn : xa.Nodup) (hlt : ∀ i ∈ xa, i < n) :
    (kbQ n xa).length = xa.length := by
  rw [(kbQ_perm hn hlt).length_eq, List.length_range]

/-- the legs of `ā·a` (all of them): first those bonded to `b̄`, then those bonded to `b` -/
def kbP (n : Nat) (xa : List Nat) : List Nat := kbQ n xa ++ (kbQ n xa).map (xa.length + ·)

theorem kbP_perm {n : Nat} {xa : List Nat} (hn : xa.Nodup) (hlt : ∀ i ∈ xa, i < n) :
    (kbP n xa).Perm (List.range (xa.length + xa.length)) := by
  unfold kbP
  rw [List.range_add]
  exact (kbQ_perm hn hlt).append ((kbQ_perm hn hlt).map _)

/-- the free legs of `ā·a` after contracting the legs bonded to `b̄` -/
theorem free_kbQ {n : Nat} {xa : List Nat} (hn : xa.Nodup) (hlt : ∀ i ∈ xa, i < n) :
    freeAxes (xa.length + xa.length) (kbQ n xa) = (List.range xa.length).map (xa.length + ·) :=
  freeAxes_perm_low _ _ (kbQ_perm hn hlt)

/-- the free legs of `ā·a` after contracting the legs bonded to `b` -/
theorem free_kbQ_shift {n : Nat} {xa : List Nat} (hn : xa.Nodup) (hlt : ∀ i ∈ xa, i < n) :
    freeAxes (xa.length + xa.length) ((kbQ n xa).map (xa.length + ·)) = List.range xa.length := by
  rw [AssocP.freeAxes_shift, freeAxes_all _ _ (fun i hi =>
    (kbQ_perm hn hlt).mem_iff.mpr (List.mem_range.mpr hi))]
  simp

/-- the legs of `(b̄·ā)·a` / `b̄·(ā·a)` contracted with `b` in closed form -/
theorem kbU_eq (a b : Arr R) (xa xb : List Nat) :
    kbU a b xa xb = List.range (freeAxes b.ndim xb).length
      ++ (kbQ a.ndim xa).map ((freeAxes b.ndim xb).length + ·) := by
  unfold kbU Assoc2P.axesAB kbQ
  rw [freeAxes_shift_all, positions_self _ List.nodup_range, List.length_range]

/-- axes of `(b̄·X)·b` from S7 for `(b̄, X, b)` -/
theorem axesAB_bXb {m k : Nat} {xb q : List Nat} (hq : q.Perm (List.range k)) :
    Assoc2P.axesAB m (k + k) xb (freeAxes m xb) q (q.map (k + ·))
      = List.range (freeAxes m xb).length ++ q.map ((freeAxes m xb).length + ·) := by
  unfold Assoc2P.axesAB
  rw [positions_self _ (freeAxes_nodup _ _), freeAxes_perm_low k q hq, positions_shift_cancel,
    positions_range_lt k q (fun i hi => List.mem_range.mp (hq.mem_iff.mp hi))]

/-- axes of `(X·b̄)·b` from S7 for `(X, b̄, b)` -/
theorem axesAB_Xbb {m k : Nat} {xb q : List Nat} (hq : q.Perm (List.range k)) :
    Assoc2P.axesAB (k + k) m q (q.map (k + ·)) xb (freeAxes m xb)
      = q ++ (List.range (freeAxes m xb).length).map (k + ·) := by
  unfold Assoc2P.axesAB
  rw [positions_self _ (freeAxes_nodup _ _), freeAxes_perm_low k q hq, positions_shift_cancel,
    positions_range_lt k q (fun i hi => List.mem_range.mp (hq.mem_iff.mp hi)), List.length_map,
    List.length_range]

/-- axes of `b̄·b` contracted with `ā·a` from S7 for `(X, b̄, b)` -/
theorem axesBC_Xbb {m : Nat} {xb : List Nat} (hn : xb.Nodup) (hlt : ∀ i ∈ xb, i < m) :
    Assoc2P.axesBC m m xb (freeAxes m xb) (freeAxes m xb) xb = kbP m xb := by
  unfold Assoc2P.axesBC kbP kbQ
  rw [sorted_len hn hlt]

end kb

/-! ## the label-free piece `X = ā·a` -/

section piece
variable {R : Type} [AddCommMonoid R] [Mul R] [Neg R] [Conj R] [NetLaws R] [AssocLaws R]

/-- the weak guard of `ā` with `a` on all dangling legs -/
theorem admW_bra_self (a : Arr R) (xa : List Nat) (ha : a.validB = true) (hfa : a.fermi = true) :
    AdmW (braOf a xa) a (freeAxes a.ndim xa) (freeAxes a.ndim xa) := by
  refine ⟨braOf_valid a xa ha hfa, ha, braOf_fermi a xa hfa, hfa, (braOf_frame a xa).1, ?_,
    freeAxes_nodup _ _, freeAxes_nodup _ _, ?_, fun i hi => mem_freeAxes_lt i hi⟩
  · rw [commonB_iff]
    refine ⟨rfl, fun j hj => ?_⟩
    have hmem : (freeAxes a.ndim xa).getD j 0 ∈ (freeAxes a.ndim xa) := by
      rw [List.getD_eq_getElem?_getD, List.getElem?_eq_getElem hj]; exact List.getElem_mem hj
    have hlt : (freeAxes a.ndim xa).getD j 0 < a.indices.length := mem_freeAxes_lt _ hmem
    rw [(braOf_frame a xa).2.2.1, getD_map_in Index.conj a.indices _ hlt, Index.conj_cm,
      Lazy.Index.conj_dual, Bool.not_not]
    exact ⟨cmAgree_self (keys_nodup_of_validB ha _ (getD_mem_idx hlt)), rfl⟩
  · intro i hi; rw [braOf_ndim]; exact mem_freeAxes_lt i hi

/-- `X = ā·a`: the call, its frame, no label, even parity, rank `2·|xa|` -/
structure Piece (a : Arr R) (xa : List Nat) (X : Arr R) : Prop where
  call : (braOf a xa).tensordotF a (.pair ((freeAxes a.ndim xa).map Int.ofNat)
          ((freeAxes a.ndim xa).map Int.ofNat)) .blockwise = .ok X
  inter : ∃ s, Inter (braOf a xa) a (freeAxes a.ndim xa) (freeAxes a.ndim xa) X s
  odd : X.oddpos = []
  par : X.parity = false
  nd : X.ndim = xa.length + xa.length
  adm : AdmW (braOf a xa) a (freeAxes a.ndim xa) (freeAxes a.ndim xa)

theorem piece_of (a : Arr R) (xa : List Nat) (ha : a.validB = true) (hfa : a.fermi = true)
    (hn : xa.Nodup) (hlt : ∀ i ∈ xa, i < a.ndim) (hoA : KetLabels a.oddpos)
    (hdA : a.oddpos.Pairwise (fun x y => x.1 ≠ y.1)) : ∃ X, Piece a xa X := by
  have WAa := admW_bra_self a xa ha hfa
  obtain ⟨sX, mX, qX⟩ := merge_nested (braOf a xa).parity a.oddpos hoA hdA
  obtain ⟨X, eX, IX, oX⟩ := call_of_merge (braOf a xa) a (freeAxes a.ndim xa) (freeAxes a.ndim xa)
    WAa [] sX (by rw [(braOf_frame a xa).2.2.2.2.1]; exact mX) qX
  refine ⟨X, eX, ⟨sX, IX⟩, oX, ?_, ?_, WAa⟩
  · have := (NormOk.of_valid IX.valid IX.fermi).labels
    rw [oX] at this
    rw [← this]; rfl
  · have := IX.ndim
    rw [braOf_ndim, sorted_len hn hlt] at this
    exact this

end piece

end SymmModel.NormNet
