/-
  SymmModel.Proofs.LinalgRecon — contraction of the factors of `qrA` / `svdA` (C11 reconstruction
  under the VALUE contract of the kernels).
-/
import SymmModel.Proofs.LinalgFactors
import SymmModel.Proofs.LinalgDense

namespace SymmModel
namespace LinalgLemmas

variable {R : Type}

/-! ### list helpers -/

theorem flatMap_single {α β : Type} (l : List α) (f : α → β) :
    l.flatMap (fun a => [f a]) = l.map f := by
  induction l with
  | nil => rfl
  | cons a l ih => simp [List.flatMap_cons, ih]

theorem flatMap_eq_map_of_singleton {α β : Type} (l : List α) (g : α → List β) (h : α → β)
    (hg : ∀ p ∈ l, g p = [h p]) : l.flatMap g = l.map h := by
  induction l with
  | nil => rfl
  | cons a l ih =>
    rw [List.flatMap_cons, hg a List.mem_cons_self,
      ih (fun p hp => hg p (List.mem_cons_of_mem _ hp))]
    rfl

theorem filter_key_eq_singleton {α κ : Type} (l : List α) (key : α → κ)
    (hnd : (l.map key).Nodup) {p : α} (hp : p ∈ l) (P : α → Bool)
    (hP : ∀ q ∈ l, P q = true ↔ key q = key p) : l.filter P = [p] := by
  induction l with
  | nil => cases hp
  | cons a l ih =>
    rw [List.map_cons, List.nodup_cons] at hnd
    rw [List.filter_cons]
    rcases List.mem_cons.mp hp with rfl | hp'
    · have : P p = true := (hP p List.mem_cons_self).mpr rfl
      rw [if_pos this]
      congr 1
      rw [List.filter_eq_nil_iff]
      intro q hq hPq
      have := (hP q (List.mem_cons_of_mem _ hq)).mp hPq
      exact hnd.1 (this ▸ List.mem_map.mpr ⟨q, hq, rfl⟩)
    · have hne : ¬ P a = true := by
        intro hPa
        have := (hP a List.mem_cons_self).mp hPa
        exact hnd.1 (this ▸ List.mem_map.mpr ⟨p, hp', rfl⟩)
      rw [if_neg hne]
      exact ih hnd.2 hp' (fun q hq => hP q (List.mem_cons_of_mem _ hq))

/-! ### the kernels on matrices -/

theorem tensordotK_matmul_get [Zero R] [Add R] [Mul R] (a b : Blk R) {m k n : Nat}
    (ha : a.shape = [m, k]) (hb : b.shape = [k, n]) {i j : Nat} (hi : i < m) (hj : j < n) :
    (a.tensordotK b [1] [0]).get [i, j]
      = (List.range k).foldl (fun acc t => acc + a.get [i, t] * b.get [t, j]) 0 := by
  unfold Blk.tensordotK
  simp only [ha, hb]
  have h1 : (List.range [m, k].length).filter (fun ax => ![1].contains ax) = [0] := rfl
  have h2 : (List.range [k, n].length).filter (fun ax => ![0].contains ax) = [1] := rfl
  rw [h1, h2]
  have h3 : permuted [m, k] [0] ++ permuted [k, n] [1] = [m, n] := rfl
  have h4 : permuted [m, k] [1] = [k] := rfl
  rw [h3, h4, ofFn_get _ _ ((inBox_pair m n i j).mpr ⟨hi, hj⟩)]
  have h5 : allIdx [k] = (List.range k).map (fun t => [t]) := by
    simp only [allIdx, List.map_cons, List.map_nil]
    exact flatMap_single _ _
  rw [h5, List.foldl_map]
  rfl

theorem tensordotK_matmul_shape [Zero R] [Add R] [Mul R] (a b : Blk R) {m k n : Nat}
    (ha : a.shape = [m, k]) (hb : b.shape = [k, n]) : (a.tensordotK b [1] [0]).shape = [m, n] := by
  unfold Blk.tensordotK
  simp only [ha, hb]
  rfl

theorem mulAxisK_get [Zero R] [Mul R] (b v : Blk R) {m k : Nat} (hb : b.shape = [m, k])
    {i t : Nat} (hi : i < m) (ht : t < k) :
    (b.mulAxisK v 1).get [i, t] = b.get [i, t] * v.get [t] := by
  unfold Blk.mulAxisK
  rw [hb, ofFn_get _ _ ((inBox_pair m k i t).mpr ⟨hi, ht⟩)]
  rfl

@[simp] theorem mulAxisK_shape [Zero R] [Mul R] (b v : Blk R) (ax : Nat) :
    (b.mulAxisK v ax).shape = b.shape := rfl

/-! ### accumulating aligned pairs with distinct target sectors -/

theorem accum_fold [Zero R] [Add R] [Mul R] (axesA axesB : List Nat)
    (pairs : List (Sector × Blk R × Blk R)) (acc : List (Sector × Blk R))
    (hnd : (acc.map (·.1) ++ pairs.map (·.1)).Nodup) :
    pairs.foldl (fun acc (x : Sector × Blk R × Blk R) =>
      match alookup acc x.1 with
      | none => acc ++ [(x.1, x.2.1.tensordotK x.2.2 axesA axesB)]
      | some cur => ainsert acc x.1 (Blk.zipWith (· + ·) cur (x.2.1.tensordotK x.2.2 axesA axesB))) acc
    = acc ++ pairs.map (fun p => (p.1, p.2.1.tensordotK p.2.2 axesA axesB)) := by
  induction pairs generalizing acc with
  | nil => simp
  | cons p ps ih =>
    have hp : p.1 ∉ acc.map (·.1) := by
      intro hm
      exact (List.nodup_append.mp hnd).2.2 _ hm _ (by simp) rfl
    simp only [List.foldl_cons]
    rw [(alookup_eq_none_iff acc p.1).mpr hp]
    simp only
    rw [ih _ (by simpa using hnd)]
    simp

/-- blocks of the contraction `a · b` (axes `(1, 0)`) of two arrays whose blocks are aligned
    with those of a valid matrix `x`: `a` on the sectors of `x`, `b` on the diagonal sectors
    `(c, c)` of the column charges -/
theorem tdot_blocks_aligned [Zero R] [Add R] [Mul R] {x : Arr R} (hv : x.validB = true)
    (h2 : x.ndim = 2) (fA fB : Sector × Blk R → Blk R) (a b : Arr R)
    (ha : a.blocks = x.blocks.map (fun p => (p.1, fA p)))
    (hb : b.blocks = x.blocks.map (fun p => ([colOf p.1, colOf p.1], fB p))) :
    (tensordotBlockwise a b [0] [1] [0] [1]).blocks
      = x.blocks.map (fun p => (p.1, (fA p).tensordotK (fB p) [1] [0])) := by
  obtain ⟨i0, i1, hi⟩ := ndim_two h2
  have hcols : (x.blocks.map (fun p => colOf p.1)).Nodup := by
    have := colCharges_nodup hv h2
    simpa [Arr.sectors, List.map_map, Function.comp_def, colOf] using this
  have hpairs : (a.blocks.flatMap (fun (sa, ba) =>
      let ka := permuted sa [1]
      (b.blocks.filter (fun (sb, _) => permuted sb [0] == ka)).map (fun (sb, bb) =>
        (permuted sa [0] ++ permuted sb [1], ba, bb))))
      = x.blocks.map (fun p => (p.1, fA p, fB p)) := by
    rw [ha, hb, List.flatMap_map]
    apply flatMap_eq_map_of_singleton
    intro p hp
    obtain ⟨s, blk⟩ := p
    obtain ⟨r, c, m, n, B⟩ := mat_block hv hi hp
    simp only [List.filter_map]
    have hf : x.blocks.filter ((fun (q : Sector × Blk R) => permuted q.1 [0] == permuted s [1])
        ∘ fun p => ([colOf p.1, colOf p.1], fB p)) = [(s, blk)] := by
      apply filter_key_eq_singleton x.blocks (fun p => colOf p.1) hcols hp
      intro q _
      simp only [Function.comp, B.hs, colOf]
      show ([(q.1.getD 1 (0, 0))] == [c]) = true ↔ _
      simp
    rw [hf]
    simp only [List.map_cons, List.map_nil, B.hs, colOf]
    rfl
  unfold tensordotBlockwise
  simp only []
  rw [hpairs]
  have := accum_fold (R := R) [1] [0] (x.blocks.map (fun p => (p.1, fA p, fB p))) []
    (by
      have := sectors_nodup hv
      simpa [Arr.sectors, List.map_map, Function.comp_def] using this)
  simp only [List.nil_append, List.map_map, Function.comp_def] at this
  exact this

/-! ### value contracts and reconstruction -/

end LinalgLemmas

/-- VALUE contract of the QR kernel: `q · r = b` entrywise, the sum over the inner index written
    as the left fold `tensordotK` computes -/
def Kernels.QRContract [Zero R] [Add R] [Mul R] (K : Kernels R) : Prop :=
  ∀ b m n, b.shape = [m, n] → b.wf = true → ∀ i j, i < m → j < n →
    (List.range (min m n)).foldl
      (fun acc t => acc + (K.qr b).1.get [i, t] * (K.qr b).2.get [t, j]) 0 = b.get [i, j]

/-- VALUE contract of the SVD kernel: `(u · diag s) · vh = b` entrywise -/
def Kernels.SVDContract [Zero R] [Add R] [Mul R] (K : Kernels R) : Prop :=
  ∀ b m n, b.shape = [m, n] → b.wf = true → ∀ i j, i < m → j < n →
    (List.range (min m n)).foldl
      (fun acc t => acc + ((K.svd b).1.get [i, t] * (K.svd b).2.1.get [t]) * (K.svd b).2.2.get [t, j]) 0
      = b.get [i, j]

namespace LinalgLemmas

/-- addresses at which two arrays are compared: an offset inside the box of a stored block of
    `x`, or any offset of a sector `x` does not store -/
def AddrOf (x : Arr R) (s : Sector) (off : List Nat) : Prop :=
  s ∉ x.sectors ∨ ∃ b, (s, b) ∈ x.blocks ∧ inBox b.shape off = true

theorem inBox_pair_elim {m n : Nat} {off : List Nat} (h : inBox [m, n] off = true) :
    ∃ i j, off = [i, j] ∧ i < m ∧ j < n := by
  match off, h with
  | [i, j], h => exact ⟨i, j, rfl, (inBox_pair m n i j).mp h⟩
  | [], h => simp [inBox] at h
  | [_], h => simp [inBox] at h
  | _ :: _ :: _ :: _, h => simp [inBox] at h

theorem elem_of_blocks_map [Zero R] [Neg R] {x : Arr R} (hv : x.validB = true) (h2 : x.ndim = 2)
    (y : Arr R) (T : Sector × Blk R → Blk R) (hy : y.blocks = x.blocks.map (fun p => (p.1, T p)))
    (hph : y.phases = []) (hxph : x.phases = [])
    (hT : ∀ p ∈ x.blocks, ∀ i j, i < p.2.shape.getD 0 0 → j < p.2.shape.getD 1 0 →
      (T p).get [i, j] = p.2.get [i, j])
    (s : Sector) (off : List Nat) (ha : AddrOf x s off) : y.elem s off = x.elem s off := by
  obtain ⟨i0, i1, hi⟩ := ndim_two h2
  have hnd := sectors_nodup hv
  have hndy : (y.blocks.map (·.1)).Nodup := by
    rw [hy]; simpa [Arr.sectors, List.map_map, Function.comp_def] using hnd
  rcases ha with hns | ⟨b, hm, hbox⟩
  · have h1 : alookup x.blocks s = none := (alookup_eq_none_iff _ _).mpr hns
    have h2' : alookup y.blocks s = none := by
      rw [alookup_eq_none_iff, hy]
      simpa [Arr.sectors, List.map_map, Function.comp_def] using hns
    simp [Arr.elem, h1, h2']
  · obtain ⟨r, c, m, n, B⟩ := mat_block hv hi hm
    have hy' : alookup y.blocks s = some (T (s, b)) := by
      apply alookup_of_mem_nodup hndy
      rw [hy]; exact List.mem_map.mpr ⟨(s, b), hm, rfl⟩
    have hx' : alookup x.blocks s = some b := alookup_of_mem_nodup hnd hm
    rw [B.hshape] at hbox
    obtain ⟨i, j, rfl, hij⟩ := inBox_pair_elim hbox
    simp only [Arr.elem, hy', hx', hph, hxph, alookup]
    have := hT (s, b) hm i j (by simpa [B.hshape] using hij.1) (by simpa [B.hshape] using hij.2)
    simpa using this

theorem abelian_phases {x : Arr R} (hv : x.validB = true) (hf : x.fermi = false) :
    x.phases = [] := by
  have h5 := ((validB_iff x).mp hv).2.2.2.2
  unfold fermiOk at h5
  simp only [hf, Bool.false_eq_true, if_false, Bool.and_eq_true] at h5
  exact List.isEmpty_iff.mp h5.1

theorem qr_recon [Zero R] [Add R] [Mul R] [Neg R] {K : Kernels R} (hK : K.ShapeOk)
    (hC : K.QRContract) {x : Arr R} (hv : x.validB = true) (h2 : x.ndim = 2)
    (hf : x.fermi = false) (s : Sector) (off : List Nat) (ha : AddrOf x s off) :
    (tensordotBlockwise (leftF x (fun b => (K.qr b).1))
        (rightF x (fun b => (K.qr b).1) (fun b => (K.qr b).2)) [0] [1] [0] [1]).elem s off
      = x.elem s off := by
  obtain ⟨i0, i1, hi⟩ := ndim_two h2
  have hxph := abelian_phases hv hf
  apply elem_of_blocks_map hv h2 _ (fun p => (K.qr p.2).1.tensordotK (K.qr p.2).2 [1] [0])
    (tdot_blocks_aligned hv h2 (fun p => (K.qr p.2).1) (fun p => (K.qr p.2).2)
      (leftF x (fun b => (K.qr b).1)) (rightF x (fun b => (K.qr b).1) (fun b => (K.qr b).2)) rfl
      rightF_fields.2.2.2.2.1) hxph hxph _ s off ha
  intro p hp i j hi' hj'
  obtain ⟨s0, b⟩ := p
  obtain ⟨r, c, m, n, B⟩ := mat_block hv hi hp
  obtain ⟨a1, _, a3, _⟩ := hK.qr b m n B.hshape B.hwf
  simp only [B.hshape, List.getD_cons_zero, List.getD_cons_succ] at hi' hj'
  rw [tensordotK_matmul_get _ _ a1 a3 hi' hj']
  exact hC b m n B.hshape B.hwf i j hi' hj'

theorem multiplyDiagonal_blocks [Zero R] [Mul R] {x : Arr R} (hv : x.validB = true)
    (h2 : x.ndim = 2) (fU fS : Blk R → Blk R) (u : Arr R) (sv : BVec R)
    (hu : u.blocks = x.blocks.map (fun p => (p.1, fU p.2)))
    (hs : sv.blocks = x.blocks.map (fun p => (colOf p.1, fS p.2))) :
    (multiplyDiagonal u sv 1).blocks
      = x.blocks.map (fun p => (p.1, (fU p.2).mulAxisK (fS p.2) 1)) := by
  have hcols : ((x.blocks.map (fun p => (colOf p.1, fS p.2))).map (·.1)).Nodup := by
    have := colCharges_nodup hv h2
    simpa [Arr.sectors, List.map_map, Function.comp_def, colOf] using this
  unfold multiplyDiagonal
  simp only []
  rw [hu, hs, List.filterMap_map]
  conv => rhs; rw [← List.filterMap_eq_map]
  apply List.filterMap_congr
  intro p hp
  have hl : alookup (x.blocks.map (fun p => (colOf p.1, fS p.2))) (colOf p.1) = some (fS p.2) :=
    alookup_of_mem_nodup hcols (List.mem_map.mpr ⟨p, hp, rfl⟩)
  simp only [Function.comp, colOf] at hl ⊢
  rw [hl]

theorem svd_recon [Zero R] [Add R] [Mul R] [Neg R] {K : Kernels R} (hK : K.ShapeOk)
    (hC : K.SVDContract) {x : Arr R} (hv : x.validB = true) (h2 : x.ndim = 2)
    (hf : x.fermi = false) (s : Sector) (off : List Nat) (ha : AddrOf x s off) :
    (tensordotBlockwise
        (multiplyDiagonal (leftF x (fun b => (K.svd b).1))
          ⟨x.blocks.map (fun p => (colOf p.1, (K.svd p.2).2.1))⟩ 1)
        (rightF x (fun b => (K.svd b).1) (fun b => (K.svd b).2.2)) [0] [1] [0] [1]).elem s off
      = x.elem s off := by
  obtain ⟨i0, i1, hi⟩ := ndim_two h2
  have hxph := abelian_phases hv hf
  have hmd := multiplyDiagonal_blocks hv h2 (fun b => (K.svd b).1) (fun b => (K.svd b).2.1)
    (leftF x (fun b => (K.svd b).1)) ⟨x.blocks.map (fun p => (colOf p.1, (K.svd p.2).2.1))⟩ rfl rfl
  apply elem_of_blocks_map hv h2 _
    (fun p => ((K.svd p.2).1.mulAxisK (K.svd p.2).2.1 1).tensordotK (K.svd p.2).2.2 [1] [0])
    (tdot_blocks_aligned hv h2 (fun p => (K.svd p.2).1.mulAxisK (K.svd p.2).2.1 1)
      (fun p => (K.svd p.2).2.2) _ (rightF x (fun b => (K.svd b).1) (fun b => (K.svd b).2.2))
      hmd rightF_fields.2.2.2.2.1) hxph hxph _ s off ha
  intro p hp i j hi' hj'
  obtain ⟨s0, b⟩ := p
  obtain ⟨r, c, m, n, B⟩ := mat_block hv hi hp
  obtain ⟨a1, _, _, _, a5, _⟩ := hK.svd b m n B.hshape B.hwf
  simp only [B.hshape, List.getD_cons_zero, List.getD_cons_succ] at hi' hj'
  rw [tensordotK_matmul_get _ _ (by rw [mulAxisK_shape]; exact a1) a5 hi' hj']
  rw [← hC b m n B.hshape B.hwf i j hi' hj']
  apply foldl_ext'
  intro acc t ht
  rw [mulAxisK_get _ _ a1 hi' (List.mem_range.mp ht)]

/-! ### a kernel instance over `Int` that meets the shape and value contracts (non-vacuity)

`b = I · b` for wide blocks and `b = b · I` for tall ones: exact, of the reduced shapes, but of
course without the orthonormality clauses, which the theorems here do not use. -/

def eyeI (n : Nat) : Blk Int := Blk.ofFn [n, n] (fun i => if i.getD 0 0 = i.getD 1 0 then 1 else 0)
def onesI (n : Nat) : Blk Int := Blk.ofFn [n] (fun _ => 1)

end LinalgLemmas

def Kernels.trivialFactor : Kernels Int where
  qr b := let m := b.shape.getD 0 0; let n := b.shape.getD 1 0
          if m ≤ n then (LinalgLemmas.eyeI m, b) else (b, LinalgLemmas.eyeI n)
  svd b := let m := b.shape.getD 0 0; let n := b.shape.getD 1 0
           if m ≤ n then (LinalgLemmas.eyeI m, LinalgLemmas.onesI m, b)
           else (b, LinalgLemmas.onesI n, LinalgLemmas.eyeI n)
  eigh b := let m := b.shape.getD 0 0; (Blk.zeros [m], Blk.zeros [m, m])
  solve a _ := Blk.zeros [a.shape.getD 1 0]

namespace LinalgLemmas

theorem eyeI_get {n i j : Nat} (hi : i < n) (hj : j < n) :
    (eyeI n).get [i, j] = if i = j then 1 else 0 := by
  unfold eyeI
  rw [ofFn_get _ _ ((inBox_pair n n i j).mpr ⟨hi, hj⟩)]
  rfl

theorem onesI_get {n t : Nat} (ht : t < n) : (onesI n).get [t] = 1 := by
  unfold onesI
  rw [ofFn_get _ _ ((inBox_single n t).mpr ht)]

theorem sum_delta (f g : Nat → Int) (i k : Nat) (a : Int)
    (hg : ∀ t, t < k → g t = if i = t then f t else 0) :
    (List.range k).foldl (fun acc t => acc + g t) a = a + (if i < k then f i else 0) := by
  induction k generalizing a with
  | zero => simp
  | succ k ih =>
    rw [List.range_succ, List.foldl_append, ih a (fun t ht => hg t (by omega))]
    simp only [List.foldl_cons, List.foldl_nil]
    rw [hg k (by omega)]
    by_cases h1 : i = k
    · subst h1; simp
    · by_cases h2 : i < k
      · have : i < k + 1 := by omega
        simp [h1, h2, this]
      · have : ¬ i < k + 1 := by omega
        simp [h1, h2, this]

theorem trivialFactor_shapeOk : Kernels.trivialFactor.ShapeOk where
  qr b m n hs hwf := by
    simp only [Kernels.trivialFactor, hs, List.getD_cons_zero, List.getD_cons_succ]
    split
    next h => rw [Nat.min_eq_left h]; exact ⟨rfl, ofFn_wf _ _, hs, hwf⟩
    next h => rw [Nat.min_eq_right (by omega)]; exact ⟨hs, hwf, rfl, ofFn_wf _ _⟩
  svd b m n hs hwf := by
    simp only [Kernels.trivialFactor, hs, List.getD_cons_zero, List.getD_cons_succ]
    split
    next h =>
      rw [Nat.min_eq_left h]; exact ⟨rfl, ofFn_wf _ _, rfl, ofFn_wf _ _, hs, hwf⟩
    next h =>
      rw [Nat.min_eq_right (by omega)]; exact ⟨hs, hwf, rfl, ofFn_wf _ _, rfl, ofFn_wf _ _⟩
  eigh b m hs _ := by simp [Kernels.trivialFactor, hs, zeros_wf]
  solve a b m n hs _ := by simp [Kernels.trivialFactor, hs, zeros_wf]

theorem trivialFactor_qr : Kernels.trivialFactor.QRContract := by
  intro b m n hs _ i j hi hj
  simp only [Kernels.trivialFactor, hs, List.getD_cons_zero, List.getD_cons_succ]
  split
  next h =>
    rw [Nat.min_eq_left h]
    have := sum_delta (fun t => b.get [t, j]) (fun t => (eyeI m).get [i, t] * b.get [t, j]) i m 0
      (fun t ht => by rw [eyeI_get hi ht]; split <;> simp)
    simpa [hi] using this
  next h =>
    rw [Nat.min_eq_right (by omega)]
    have := sum_delta (fun t => b.get [i, t]) (fun t => b.get [i, t] * (eyeI n).get [t, j]) j n 0
      (fun t ht => by
        rw [eyeI_get ht hj]
        by_cases e : t = j
        · subst e; simp
        · have : ¬ j = t := fun e' => e e'.symm
          simp [e, this])
    simpa [hj] using this

theorem trivialFactor_svd : Kernels.trivialFactor.SVDContract := by
  intro b m n hs _ i j hi hj
  simp only [Kernels.trivialFactor, hs, List.getD_cons_zero, List.getD_cons_succ]
  split
  next h =>
    rw [Nat.min_eq_left h]
    have := sum_delta (fun t => b.get [t, j])
      (fun t => ((eyeI m).get [i, t] * (onesI m).get [t]) * b.get [t, j]) i m 0
      (fun t ht => by rw [eyeI_get hi ht, onesI_get ht]; split <;> simp)
    simpa [hi] using this
  next h =>
    rw [Nat.min_eq_right (by omega)]
    have := sum_delta (fun t => b.get [i, t])
      (fun t => (b.get [i, t] * (onesI n).get [t]) * (eyeI n).get [t, j]) j n 0
      (fun t ht => by
        rw [eyeI_get ht hj, onesI_get ht]
        by_cases e : t = j
        · subst e; simp
        · have : ¬ j = t := fun e' => e e'.symm
          simp [e, this])
    simpa [hj] using this

end LinalgLemmas
end SymmModel
