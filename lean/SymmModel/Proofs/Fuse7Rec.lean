/-
  SymmModel.Proofs.Fuse7Rec — `recurseConcat` of the model is the pure nested concatenation `nest`
  over the levels of the groups, when the look-ups succeed.
-/
import SymmModel.Proofs.Fuse7Nest
import SymmModel.Proofs.FuseMultiAll
namespace SymmModel
namespace FuseP
set_option linter.unusedSectionVars false

variable {R : Type} [Zero R]

section Rec
variable (a : Arr R) (groups : List (List Nat))

/-- the extent of the fused charge `ns` has at group `g` -/
def extM (ns : Sector) (g : Nat) : Extent :=
  (alookup (extsM a groups g) (ns.getD ((giM a groups).position + g) (0, 0))).getD []

/-- level of group `g` -/
def lvlM (ns : Sector) (g : Nat) : Lvl :=
  if multiB groups g then .multi ((giM a groups).position + g) (extM a groups ns g)
  else .single [ns.getD ((giM a groups).position + g) (0, 0)]

/-- levels of the groups `g, g+1, …, g+fuel-1` -/
def lvFrom (ns : Sector) : Nat → Nat → List Lvl
  | _, 0 => []
  | g, f + 1 => lvlM a groups ns g :: lvFrom ns (g + 1) f

/-- the leaf: the stored sub-block, or zeros -/
def leafM (sub : List (List Sector × Blk R)) (zs : List Sector → List Nat) (key : List Sector) : Blk R :=
  match alookup sub key with
  | some b => b
  | none => Blk.zeros (zs key)

variable {a groups}

theorem leaf_ok (sub : List (List Sector × Blk R)) (zs : List Sector → List Nat)
    (zeroShapeOf : List Sector → Except Err (List Nat)) (key : List Sector)
    (h : zeroShapeOf key = .ok (zs key)) :
    (match alookup sub key with
      | some b => (pure b : Except Err (Blk R))
      | none => do
        let shp ← zeroShapeOf key
        pure (Blk.zeros shp)) = .ok (leafM sub zs key) := by
  unfold leafM
  cases alookup sub key with
  | some b => rfl
  | none => simp only [h, bind, Except.bind]; rfl

theorem recurse_eq (hok : GroupsOk groups a.ndim) (sub : List (List Sector × Blk R)) (ns : Sector)
    (zeroShapeOf : List Sector → Except Err (List Nat)) (zs : List Sector → List Nat)
    (hext : ∀ g, g < groups.length → multiB groups g = true →
      (alookup (extsM a groups g) (ns.getD ((giM a groups).position + g) (0, 0))).isSome = true) :
    ∀ (fuel g : Nat) (key : List Sector), g + (fuel + 1) = groups.length →
      (∀ qs, Choice (lvFrom a groups ns g (fuel + 1)) qs →
        zeroShapeOf (key ++ qs.map (·.1)) = .ok (zs (key ++ qs.map (·.1)))) →
      recurseConcat (fuseInfoOf a groups) sub ns zeroShapeOf (fuel + 1) g key
        = .ok (nest (leafM sub zs) (lvFrom a groups ns g (fuel + 1)) key) := by
  intro fuel
  induction fuel with
  | zero =>
    intro g key hg hz
    have hgl : g < groups.length := by omega
    have hlast : (g + 1 == (fuseInfoOf a groups).gi.numGroups) = true := by
      show (g + 1 == groups.length) = true
      simp; omega
    have hsing : (fuseInfoOf a groups).gi.singlets.contains g = !multiB groups g := by
      have := not_singlet_eq_multi (groups := groups) (duals := a.duals) hgl
      show (calcFuseGroupInfo groups a.duals).singlets.contains g = _
      rw [← this]; simp
    have hpos : (fuseInfoOf a groups).gi.position = (giM a groups).position := rfl
    rw [recurseConcat]
    simp only [hlast, hsing, if_true, hpos]
    cases hm : multiB groups g with
    | false =>
      simp only [Bool.not_false, if_true]
      have hl : lvFrom a groups ns g 1 = [.single [ns.getD ((giM a groups).position + g) (0, 0)]] := by
        simp only [lvFrom, lvlM, hm, Bool.false_eq_true, if_false]
      rw [hl]
      simp only [nest]
      apply leaf_ok
      have := hz [([ns.getD ((giM a groups).position + g) (0, 0)], 0)]
        (by rw [hl]; exact ⟨_, [], rfl, rfl, rfl⟩)
      simpa using this
    | true =>
      simp only [Bool.not_true, Bool.false_eq_true, if_false]
      obtain ⟨gaxes, hgx, hlen⟩ := multiB_iff.1 hm
      have hix : (fuseInfoOf a groups).newIndices.getD ((giM a groups).position + g) default
          = ixM a groups g := rfl
      rw [hix, ixM_sub hok hgx hlen]
      obtain ⟨e, he⟩ := Option.isSome_iff_exists.1 (hext g hgl hm)
      simp only [he, bind, Except.bind, pure, Except.pure]
      have hl : lvFrom a groups ns g 1 = [.multi ((giM a groups).position + g) e] := by
        simp only [lvFrom, lvlM, hm, if_true, extM, he, Option.getD_some]
      rw [hl]
      simp only [nest]
      rw [mapM_ok_of_forall _ (fun q : Sector × Nat => leafM sub zs (key ++ [q.1])) e]
      intro q hq
      obtain ⟨ss, d⟩ := q
      apply leaf_ok
      have := hz [(ss, d)] (by rw [hl]; exact ⟨_, [], rfl, hq, rfl⟩)
      simpa using this
  | succ fuel ih =>
    intro g key hg hz
    have hgl : g < groups.length := by omega
    have hlast : (g + 1 == (fuseInfoOf a groups).gi.numGroups) = false := by
      show (g + 1 == groups.length) = false
      simp; omega
    have hsing : (fuseInfoOf a groups).gi.singlets.contains g = !multiB groups g := by
      have := not_singlet_eq_multi (groups := groups) (duals := a.duals) hgl
      show (calcFuseGroupInfo groups a.duals).singlets.contains g = _
      rw [← this]; simp
    have hpos : (fuseInfoOf a groups).gi.position = (giM a groups).position := rfl
    rw [recurseConcat]
    simp only [hlast, hsing, Bool.false_eq_true, if_false, hpos]
    cases hm : multiB groups g with
    | false =>
      simp only [Bool.not_false, if_true]
      have hl : lvFrom a groups ns g (fuel + 1 + 1)
          = .single [ns.getD ((giM a groups).position + g) (0, 0)] :: lvFrom a groups ns (g + 1) (fuel + 1) := by
        simp only [lvFrom, lvlM, hm, Bool.false_eq_true, if_false]
      rw [hl]
      simp only [nest]
      apply ih (g + 1) _ (by omega)
      intro qs hqs
      have := hz (([ns.getD ((giM a groups).position + g) (0, 0)], 0) :: qs)
        (by rw [hl]; exact ⟨_, qs, rfl, rfl, hqs⟩)
      simpa using this
    | true =>
      simp only [Bool.not_true, Bool.false_eq_true, if_false]
      obtain ⟨gaxes, hgx, hlen⟩ := multiB_iff.1 hm
      have hix : (fuseInfoOf a groups).newIndices.getD ((giM a groups).position + g) default
          = ixM a groups g := rfl
      rw [hix, ixM_sub hok hgx hlen]
      obtain ⟨e, he⟩ := Option.isSome_iff_exists.1 (hext g hgl hm)
      simp only [he, bind, Except.bind, pure, Except.pure]
      have hl : lvFrom a groups ns g (fuel + 1 + 1)
          = .multi ((giM a groups).position + g) e :: lvFrom a groups ns (g + 1) (fuel + 1) := by
        simp only [lvFrom, lvlM, hm, if_true, extM, he, Option.getD_some]
      rw [hl]
      simp only [nest]
      rw [mapM_ok_of_forall _
        (fun q : Sector × Nat => nest (leafM sub zs) (lvFrom a groups ns (g + 1) (fuel + 1)) (key ++ [q.1])) e]
      intro q hq
      obtain ⟨ss, d⟩ := q
      apply ih (g + 1) _ (by omega)
      intro qs hqs
      have := hz ((ss, d) :: qs) (by rw [hl]; exact ⟨_, qs, rfl, hq, hqs⟩)
      simpa using this

end Rec

end FuseP
end SymmModel
