/-
  SymmModel.Proofs.Assoc2Sum — S7 of property C04 with `A–C` legs: nested signed sums with general
  summands, sums over a box that is a concatenation of two boxes.  Namespace `SymmModel.Assoc2P`.
-/
import SymmModel.Proofs.Assoc2Geom

namespace SymmModel
namespace Assoc2P
open TdotP GradedP RoutesP AssocP
open Lazy (sgnI)
set_option linter.unusedSectionVars false

/-- all pairs, first component slowest -/
def pairs {α β : Type} (K : List α) (K' : List β) : List (α × β) :=
  K.flatMap (fun k => K'.map (fun k' => (k, k')))

theorem mem_pairs {α β : Type} {K : List α} {K' : List β} {p : α × β} :
    p ∈ pairs K K' ↔ p.1 ∈ K ∧ p.2 ∈ K' := by
  obtain ⟨a, b⟩ := p
  simp only [pairs, List.mem_flatMap, List.mem_map, Prod.mk.injEq]
  constructor
  · rintro ⟨k, hk, k', hk', rfl, rfl⟩; exact ⟨hk, hk'⟩
  · rintro ⟨h1, h2⟩; exact ⟨a, h1, b, h2, rfl, rfl⟩

/-- the box of a concatenated shape -/
theorem allIdx_append (s t : List Nat) :
    allIdx (s ++ t) = (pairs (allIdx s) (allIdx t)).map (fun p => p.1 ++ p.2) := by
  induction s with
  | nil =>
    simp only [allIdx, pairs, List.nil_append, List.flatMap_cons, List.flatMap_nil, List.append_nil,
      List.map_map]
    conv => lhs; rw [← List.map_id (allIdx t)]
    apply List.map_congr_left
    intro x _
    rfl
  | cons d ds ih =>
    show (List.range d).flatMap (fun i => (allIdx (ds ++ t)).map (fun r => i :: r)) = _
    rw [ih]
    unfold pairs
    show _ = (((List.range d).flatMap (fun i => (allIdx ds).map (fun r => i :: r))).flatMap
      (fun k => (allIdx t).map (fun k' => (k, k')))).map (fun p => p.1 ++ p.2)
    simp only [List.flatMap_assoc, List.map_flatMap, List.flatMap_map, List.map_map]
    rfl

variable {R : Type} [AddCommMonoid R] [Mul R] [Neg R] [SignRing R] [AssocLaws R]

theorem sum_pairs {α β : Type} (K : List α) (K' : List β) (G : α × β → R) :
    ((pairs K K').map G).sum = (K.map (fun k => (K'.map (fun k' => G (k, k'))).sum)).sum := by
  unfold pairs
  rw [sum_map_flatMap]
  congr 2
  funext k
  rw [List.map_map]
  rfl

/-- `Σ_{k3} Σ_{k2} Σ_{k1} = Σ_{k1} Σ_{k2} Σ_{k3}` -/
theorem sum3_rot {α β γ : Type} (K1 : List α) (K2 : List β) (K3 : List γ) (X : α → β → γ → R) :
    (K3.map (fun k3 => (K2.map (fun k2 => (K1.map (fun k1 => X k1 k2 k3)).sum)).sum)).sum
      = (K1.map (fun k1 => (K2.map (fun k2 => (K3.map (fun k3 => X k1 k2 k3)).sum)).sum)).sum := by
  have e1 : ∀ k3, (K2.map (fun k2 => (K1.map (fun k1 => X k1 k2 k3)).sum)).sum
      = (K1.map (fun k1 => (K2.map (fun k2 => X k1 k2 k3)).sum)).sum := fun k3 => sum_swap _ _ _
  simp only [e1]
  rw [sum_swap]
  congr 2
  funext k1
  exact sum_swap _ _ _

/-- route `(A·B)·C`, general inner summand `t` -/
theorem expand_left' {β κ₁ κ₂ : Type} (K2 : List κ₂) (Q : List β) (K1 : β → List κ₁)
    (σ' ph : Int) (σ : β → Int) (hσ' : σ' = 1 ∨ σ' = -1) (hph : ph = 1 ∨ ph = -1)
    (hσ : ∀ q, σ q = 1 ∨ σ q = -1)
    (t : β → κ₁ → κ₂ → R) (c : κ₂ → R) :
    sgnI σ' ((K2.map (fun k2 =>
        sgnI ph ((Q.map (fun q => sgnI (σ q) (((K1 q).map (fun k1 => t q k1 k2)).sum))).sum)
          * c k2)).sum)
      = sgnI ph ((Q.map (fun q => sgnI (σ' * σ q)
          ((K2.map (fun k2 => ((K1 q).map (fun k1 => t q k1 k2 * c k2)).sum)).sum))).sum) := by
  have e1 : ∀ k2, sgnI ph ((Q.map (fun q => sgnI (σ q)
        (((K1 q).map (fun k1 => t q k1 k2)).sum))).sum) * c k2
      = sgnI ph ((Q.map (fun q => sgnI (σ q)
          (((K1 q).map (fun k1 => t q k1 k2 * c k2)).sum))).sum) := by
    intro k2
    rw [sgnI_mul_l hph, sum_mul]
    congr 2
    apply List.map_congr_left
    intro q _
    rw [sgnI_mul_l (hσ q), sum_mul]
  simp only [e1]
  rw [sgnI_sum, sgnI_comp hσ' hph, Int.mul_comm, ← sgnI_comp hph hσ', sum_swap, ← sgnI_sum]
  congr 2
  apply List.map_congr_left
  intro q _
  rw [sgnI_sum, sgnI_comp hσ' (hσ q)]

/-- route `A·(B·C)`, general inner summand `t` -/
theorem expand_right' {β κ₁ κ₂ : Type} (K1 : List κ₁) (Q : List β) (K2 : β → List κ₂)
    (σ' ph : Int) (σ : β → Int) (hσ' : σ' = 1 ∨ σ' = -1) (hph : ph = 1 ∨ ph = -1)
    (hσ : ∀ q, σ q = 1 ∨ σ q = -1)
    (a : κ₁ → R) (t : β → κ₁ → κ₂ → R) :
    sgnI σ' ((K1.map (fun k1 => a k1 *
        sgnI ph ((Q.map (fun q => sgnI (σ q) (((K2 q).map (fun k2 => t q k1 k2)).sum))).sum))).sum)
      = sgnI ph ((Q.map (fun q => sgnI (σ' * σ q)
          ((K1.map (fun k1 => ((K2 q).map (fun k2 => a k1 * t q k1 k2)).sum)).sum))).sum) := by
  have e1 : ∀ k1, a k1 * sgnI ph ((Q.map (fun q => sgnI (σ q)
        (((K2 q).map (fun k2 => t q k1 k2)).sum))).sum)
      = sgnI ph ((Q.map (fun q => sgnI (σ q)
          (((K2 q).map (fun k2 => a k1 * t q k1 k2)).sum))).sum) := by
    intro k1
    rw [sgnI_mul_r hph, mul_sum]
    congr 2
    apply List.map_congr_left
    intro q _
    rw [sgnI_mul_r (hσ q), mul_sum]
  simp only [e1]
  rw [sgnI_sum, sgnI_comp hσ' hph, Int.mul_comm, ← sgnI_comp hph hσ', sum_swap, ← sgnI_sum]
  congr 2
  apply List.map_congr_left
  intro q _
  rw [sgnI_sum, sgnI_comp hσ' (hσ q)]

end Assoc2P
end SymmModel
