/-
  SymmModel.Proofs.Reshape4g — what `Restored` says about the whole value view, and the round trip
  with the planner certificate discharged by the unbounded planner theorem.
-/
import SymmModel.Proofs.Reshape4f

namespace SymmModel
namespace Reshape4
open C07 ReshapeP Reshape3

variable {R : Type}

/-- the value views agree at every address inside the restored array's boxes — on the sectors `a`
    stores, on the additional (zero) blocks, and on the sectors neither stores -/
theorem Restored.elem_eq [Zero R] [Neg R] {a z : Arr R} (h : Restored a z) (K : Sector) (J : List Nat)
    (hJ : ∀ V, alookup z.blocks K = some V → inBox V.shape J = true) :
    z.elem K J = a.elem K J := by
  classical
  by_cases hs : ∃ b, (K, b) ∈ a.blocks
  · obtain ⟨b, hb⟩ := hs
    obtain ⟨V, hV, _, hel⟩ := h.stored K b hb
    exact hel J (hJ V hV)
  · have ha : alookup a.blocks K = none := by
      cases hl : alookup a.blocks K with
      | none => rfl
      | some b => exact absurd ⟨b, Lazy.alookup_mem hl⟩ hs
    have hae : a.elem K J = 0 := by unfold Arr.elem; rw [ha]
    rw [hae]
    cases hz : alookup z.blocks K with
    | none => unfold Arr.elem; rw [hz]
    | some V =>
      exact h.extra K V hz (fun s b hsb he => hs ⟨b, he ▸ hsb⟩) J (hJ V hz)

end Reshape4
end SymmModel
