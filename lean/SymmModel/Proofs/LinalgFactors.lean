/-
  SymmModel.Proofs.LinalgFactors — the two factors `qrA` / `svdA` produce, in closed form, and
  their validity (C11 structure part).
-/
import SymmModel.Proofs.LinalgLemmas

namespace SymmModel

variable {R : Type}

/-- SHAPE contract of the per-block kernels (on well-formed input blocks): the returned blocks
    are well-formed and have LAPACK's reduced shapes. -/
structure Kernels.ShapeOk (K : Kernels R) : Prop where
  qr : ∀ b m n, b.shape = [m, n] → b.wf = true →
    (K.qr b).1.shape = [m, min m n] ∧ (K.qr b).1.wf = true
    ∧ (K.qr b).2.shape = [min m n, n] ∧ (K.qr b).2.wf = true
  svd : ∀ b m n, b.shape = [m, n] → b.wf = true →
    (K.svd b).1.shape = [m, min m n] ∧ (K.svd b).1.wf = true
    ∧ (K.svd b).2.1.shape = [min m n] ∧ (K.svd b).2.1.wf = true
    ∧ (K.svd b).2.2.shape = [min m n, n] ∧ (K.svd b).2.2.wf = true
  eigh : ∀ b m, b.shape = [m, m] → b.wf = true →
    (K.eigh b).1.shape = [m] ∧ (K.eigh b).1.wf = true
    ∧ (K.eigh b).2.shape = [m, m] ∧ (K.eigh b).2.wf = true
  solve : ∀ a b m n, a.shape = [m, n] → a.wf = true →
    (K.solve a b).shape = [n] ∧ (K.solve a b).wf = true

namespace LinalgLemmas

theorem shapeOnly_shapeOk [Zero R] : (Kernels.shapeOnly : Kernels R).ShapeOk where
  qr b m n hs _ := by simp [Kernels.shapeOnly, hs, zeros_wf]
  svd b m n hs _ := by simp [Kernels.shapeOnly, hs, zeros_wf]
  eigh b m hs _ := by simp [Kernels.shapeOnly, hs, zeros_wf]
  solve a b m n hs _ := by simp [Kernels.shapeOnly, hs, zeros_wf]

/-- column charge of a matrix sector -/
def colOf (s : Sector) : Charge := s.getD 1 (0, 0)
def rowOf (s : Sector) : Charge := s.getD 0 (0, 0)

section Factors
variable (x : Arr R) (L Rt : Blk R → Blk R)

/-- bond chargemap before sorting: column charge ↦ number of columns of the left factor block -/
def bondCm : List (Charge × Nat) := x.blocks.map (fun p => (colOf p.1, (L p.2).shape.getD 1 0))

def bondIx : Index := Index.plain (bondCm x L) (x.indices.getD 1 default).dual

/-- the left factor (`Q`, `U`): the input with its blocks replaced and the column index
    replaced by the bond -/
def leftF : Arr R :=
  { x with indices := [x.indices.getD 0 default, bondIx x L],
           blocks := x.blocks.map (fun p => (p.1, L p.2)) }

/-- the right factor (`R`, `VH`) before the fermionic flip -/
def rightF0 : Arr R :=
  { sym := x.sym, fermi := x.fermi, indices := [(bondIx x L).conj, x.indices.getD 1 default],
    charge := x.sym.zero,
    blocks := x.blocks.map (fun p => ([colOf p.1, colOf p.1], Rt p.2)),
    phases := [], oddpos := [] }

def rightF : Arr R :=
  if x.fermi && (bondIx x L).conj.dual then (rightF0 x L Rt).phaseFlip [0] else rightF0 x L Rt

end Factors

theorem colKeys_nodup' {x : Arr R} (hv : x.validB = true) (h2 : x.ndim = 2) {β γ : Type}
    (g : Sector × Blk R → γ) (f : Sector × γ → β) :
    (((x.blocks.map (fun p => (p.1, g p))).map (fun q => (q.1.getD 1 (0, 0), f q))).map (·.1)).Nodup := by
  have := colCharges_nodup hv h2
  simpa [Arr.sectors, List.map_map, Function.comp_def] using this

theorem diagKeys_nodup' {x : Arr R} (hv : x.validB = true) (h2 : x.ndim = 2) {β γ : Type}
    (g : Sector × Blk R → γ) (f : Sector × γ → β) :
    (((x.blocks.map (fun p => (p.1, g p))).map
        (fun q => ([q.1.getD 1 (0, 0), q.1.getD 1 (0, 0)], f q))).map (·.1)).Nodup := by
  have := colCharges_nodup hv h2
  have h' := nodup_map_of_inj _ (fun c : Charge => [c, c]) this
    (fun a _ b _ e => (List.cons.inj e).1)
  simpa [Arr.sectors, List.map_map, Function.comp_def] using h'

theorem qrA_eq (K : Kernels R) {x : Arr R} (hv : x.validB = true) (h2 : x.ndim = 2) :
    qrA K x = .ok (leftF x (fun b => (K.qr b).1),
                   rightF x (fun b => (K.qr b).1) (fun b => (K.qr b).2)) := by
  unfold qrA
  simp only [h2, bne_self_eq_false, Bool.false_eq_true, if_false]
  rw [adict_of_nodup _ (colKeys_nodup' hv h2 (fun p => K.qr p.2) (fun q => q.2.1.shape.getD 1 0)),
    adict_of_nodup _ (diagKeys_nodup' hv h2 (fun p => K.qr p.2) (fun q => q.2.2))]
  simp only [pure, Except.pure, List.map_map, Function.comp_def]
  rfl

theorem svdA_eq (K : Kernels R) {x : Arr R} (hv : x.validB = true) (h2 : x.ndim = 2) :
    svdA K x = .ok (leftF x (fun b => (K.svd b).1),
                    ⟨x.blocks.map (fun p => (colOf p.1, (K.svd p.2).2.1))⟩,
                    rightF x (fun b => (K.svd b).1) (fun b => (K.svd b).2.2)) := by
  unfold svdA
  simp only [h2, bne_self_eq_false, Bool.false_eq_true, if_false]
  rw [adict_of_nodup _ (colKeys_nodup' hv h2 (fun p => K.svd p.2) (fun q => q.2.1.shape.getD 1 0)),
    adict_of_nodup _ (colKeys_nodup' hv h2 (fun p => K.svd p.2) (fun q => q.2.2.1)),
    adict_of_nodup _ (diagKeys_nodup' hv h2 (fun p => K.svd p.2) (fun q => q.2.2.2))]
  simp only [pure, Except.pure, List.map_map, Function.comp_def]
  rfl

/-! ### validity of the factors -/

/-- shape part of a kernel contract, for the pair (left factor, right factor) of a block -/
def FacShape (L Rt : Blk R → Blk R) : Prop :=
  ∀ b m n, b.shape = [m, n] → b.wf = true →
    (L b).shape = [m, min m n] ∧ (L b).wf = true ∧ (Rt b).shape = [min m n, n] ∧ (Rt b).wf = true

theorem isValidSector_congr {a a' : Arr R} (h1 : a.sym = a'.sym) (h2 : a.duals = a'.duals)
    (h3 : a.charge = a'.charge) (s : Sector) : a.isValidSector s = a'.isValidSector s := by
  simp only [Arr.isValidSector, h1, h2, h3]

theorem fermiOk_congr {a a' : Arr R} (h1 : a.sym = a'.sym) (h2 : a.duals = a'.duals)
    (h3 : a.charge = a'.charge) (h4 : a.fermi = a'.fermi) (h5 : a.phases = a'.phases)
    (h6 : a.oddpos = a'.oddpos) : fermiOk a = fermiOk a' := by
  have hn : a.ndim = a'.ndim := by
    have := congrArg List.length h2
    simpa [Arr.duals, Arr.ndim] using this
  have hv : a.isValidSector = a'.isValidSector := funext (isValidSector_congr h1 h2 h3)
  simp only [fermiOk, h4, h5, h6, hn, hv, Arr.parity, h1, h3]

section FactorsValid
variable {x : Arr R} {L Rt : Blk R → Blk R} {i0 i1 : Index}

theorem bondIx_eq (hi : x.indices = [i0, i1]) :
    bondIx x L = Index.mk (Index.sortCm (bondCm x L)) i1.dual none := by
  simp [bondIx, Index.plain, hi]

theorem bondCm_keys_nodup (hv : x.validB = true) (h2 : x.ndim = 2) :
    ((bondCm x L).map (·.1)).Nodup := by
  have := colCharges_nodup hv h2
  simpa [bondCm, Arr.sectors, List.map_map, Function.comp_def, colOf] using this

theorem bondCm_lookup (hv : x.validB = true) (h2 : x.ndim = 2) (hL : FacShape L Rt)
    {s : Sector} {b : Blk R} (hm : (s, b) ∈ x.blocks) {r c : Charge} {m n : Nat}
    (B : MatBlock x i0 i1 s b r c m n) :
    alookup (Index.sortCm (bondCm x L)) c = some (min m n) := by
  rw [alookup_sortCm _ (bondCm_keys_nodup hv h2)]
  apply alookup_of_mem_nodup (bondCm_keys_nodup hv h2)
  simp only [bondCm, List.mem_map]
  refine ⟨(s, b), hm, ?_⟩
  have := (hL b m n B.hshape B.hwf).1
  simp [colOf, B.hs, this]

theorem bondIx_wf (hv : x.validB = true) (h2 : x.ndim = 2) (hi : x.indices = [i0, i1])
    (hL : FacShape L Rt) (d : Bool) :
    (Index.mk (Index.sortCm (bondCm x L)) d none).wfB x.sym = true := by
  apply wfB_plain _ _ (sortCm_sorted _ (bondCm_keys_nodup hv h2))
  intro c k hmem
  have hmem' := (sortCm_perm _).mem_iff.mp hmem
  simp only [bondCm, List.mem_map] at hmem'
  obtain ⟨⟨s, b⟩, hm, e⟩ := hmem'
  obtain ⟨r, c', m, n, B⟩ := mat_block hv hi hm
  have hsh := (hL b m n B.hshape B.hwf).1
  simp only [colOf, B.hs, List.getD_cons_succ, List.getD_cons_zero, hsh, Prod.mk.injEq] at e
  obtain ⟨rfl, rfl⟩ := e
  exact ⟨by have := B.hm; have := B.hn; omega, B.vc⟩

theorem indices_wf (hv : x.validB = true) (hi : x.indices = [i0, i1]) :
    i0.wfB x.sym = true ∧ i1.wfB x.sym = true := by
  have := ((validB_iff x).mp hv).1
  rwa [hi, wfListB_pair] at this

theorem leftF_valid (hv : x.validB = true) (h2 : x.ndim = 2) (hi : x.indices = [i0, i1])
    (hL : FacShape L Rt) : (leftF x L).validB = true := by
  obtain ⟨_, hch, hnd, hb, hf⟩ := (validB_iff x).mp hv
  have hI : (leftF x L).indices = [i0, Index.mk (Index.sortCm (bondCm x L)) i1.dual none] := by
    simp [leftF, bondIx_eq hi, hi]
  have hduals : (leftF x L).duals = x.duals := by simp [Arr.duals, hI, hi]
  refine (validB_iff _).mpr ⟨?_, hch, ?_, ?_, ?_⟩
  · rw [hI, wfListB_pair]
    exact ⟨(indices_wf hv hi).1, bondIx_wf hv h2 hi hL _⟩
  · simpa [leftF, Arr.sectors, List.map_map, Function.comp_def] using hnd
  · intro s b' hm'
    simp only [leftF, List.mem_map] at hm'
    obtain ⟨⟨s0, b⟩, hm, e⟩ := hm'
    have e1 := (Prod.mk.inj e).1; have e2 := (Prod.mk.inj e).2
    simp only at e1 e2
    subst e1 e2
    obtain ⟨r, c, m, n, B⟩ := mat_block hv hi hm
    obtain ⟨g1, g2, _, _⟩ := hb s0 b hm
    have hsh := hL b m n B.hshape B.hwf
    refine ⟨by simpa [Arr.ndim, hI, hi] using g1, ?_, ?_, hsh.2.1⟩
    · rw [isValidSector_congr (a := leftF x L) (a' := x) rfl hduals rfl]; exact g2
    · rw [hI, B.hs, hsh.1]
      exact (blockShape?_pair _ _ r c _).mpr ⟨m, min m n, B.hr, bondCm_lookup hv h2 hL hm B, rfl⟩
  · rw [fermiOk_congr (a := leftF x L) (a' := x) rfl hduals rfl rfl rfl rfl]; exact hf

theorem diag_valid (s : Sym) (c : Charge) (d : Bool) (hc : s.valid c = true) :
    s.combine [s.sign c (!d), s.sign c d] = s.zero := by
  obtain ⟨c1, c2⟩ := c
  cases s <;> cases d <;> sym_arith

theorem rightF0_sectors : (rightF0 x L Rt).sectors = x.sectors.map (fun s => [colOf s, colOf s]) := by
  simp [rightF0, Arr.sectors, List.map_map, Function.comp_def]

theorem rightF0_sectors_nodup (hv : x.validB = true) (h2 : x.ndim = 2) :
    (rightF0 x L Rt).sectors.Nodup := by
  rw [rightF0_sectors]
  have := colCharges_nodup hv h2
  have h' := nodup_map_of_inj _ (fun c : Charge => [c, c]) this
    (fun a _ b _ e => (List.cons.inj e).1)
  simpa [List.map_map, Function.comp_def, colOf] using h'

/-- block clause of validity for the right factor (independent of the pending signs) -/
theorem rightF0_blocks_ok (hv : x.validB = true) (h2 : x.ndim = 2) (hi : x.indices = [i0, i1])
    (hL : FacShape L Rt) {s : Sector} {b' : Blk R} (hm' : (s, b') ∈ (rightF0 x L Rt).blocks) :
    s.length = 2 ∧ (rightF0 x L Rt).isValidSector s = true
      ∧ Arr.blockShape? (rightF0 x L Rt).indices s = some b'.shape ∧ b'.wf = true := by
  have hI : (rightF0 x L Rt).indices = [Index.mk (Index.sortCm (bondCm x L)) (!i1.dual) none, i1] := by
    simp [rightF0, bondIx_eq hi, hi, Index.conj]
  simp only [rightF0, List.mem_map] at hm'
  obtain ⟨⟨s0, b⟩, hm, e⟩ := hm'
  have e1 := (Prod.mk.inj e).1; have e2 := (Prod.mk.inj e).2
  simp only at e1 e2
  subst e1 e2
  obtain ⟨r, c, m, n, B⟩ := mat_block hv hi hm
  have hsh := hL b m n B.hshape B.hwf
  have hcol : colOf s0 = c := by simp [colOf, B.hs]
  refine ⟨rfl, ?_, ?_, hsh.2.2.2⟩
  · simp only [Arr.isValidSector, Arr.sectorCharge, Arr.duals, hI, hcol, List.map_cons, List.map_nil,
      List.zipWith_cons_cons, List.zipWith_nil_left, beq_iff_eq, dual_mk]
    exact diag_valid x.sym c i1.dual B.vc
  · rw [hI, hcol, hsh.2.2.1]
    exact (blockShape?_pair _ _ c c _).mpr ⟨min m n, n, bondCm_lookup hv h2 hL hm B, B.hc, rfl⟩

theorem rightF0_valid (hv : x.validB = true) (h2 : x.ndim = 2) (hi : x.indices = [i0, i1])
    (hL : FacShape L Rt) : (rightF0 x L Rt).validB = true := by
  have hI : (rightF0 x L Rt).indices = [Index.mk (Index.sortCm (bondCm x L)) (!i1.dual) none, i1] := by
    simp [rightF0, bondIx_eq hi, hi, Index.conj]
  refine (validB_iff _).mpr ⟨?_, ?_, rightF0_sectors_nodup hv h2, ?_, ?_⟩
  · rw [hI, wfListB_pair]
    exact ⟨bondIx_wf hv h2 hi hL _, (indices_wf hv hi).2⟩
  · exact Sym.combine_valid x.sym []
  · intro s b' hm'
    have := rightF0_blocks_ok hv h2 hi hL hm'
    exact ⟨by simpa [Arr.ndim, hI] using this.1, this.2⟩
  · simp only [fermiOk, rightF0, List.map_nil, allDistinct, List.all_nil, List.length_nil,
      Arr.parity, List.isEmpty_nil, Bool.and_self]
    have hz : x.sym.parity x.sym.zero = false := by
      generalize x.sym = s; cases s <;> decide
    rw [hz]; cases x.fermi <;> decide

/-- `phase_flip(0)` on a valid fermionic array without pending signs gives a valid array -/
theorem phaseFlip0_valid {a : Arr R} (hv : a.validB = true) (hf : a.fermi = true)
    (hp : a.phases = []) : (a.phaseFlip [0]).validB = true := by
  obtain ⟨h1, h2, h3, h4, h5⟩ := (validB_iff a).mp hv
  obtain ⟨f1, f2, f3, f4, f5, f6⟩ := phaseFlip_fields a [0]
  have hduals : (a.phaseFlip [0]).duals = a.duals := by simp [Arr.duals, f3]
  have hnd : (a.phaseFlip [0]).ndim = a.ndim := by simp [Arr.ndim, f3]
  have hsec : (a.phaseFlip [0]).sectors = a.sectors := by simp [Arr.sectors, f5]
  have hvs : ∀ s, (a.phaseFlip [0]).isValidSector s = a.isValidSector s :=
    isValidSector_congr f1 hduals f4
  refine (validB_iff _).mpr ⟨by rw [f1, f3]; exact h1, by rw [f1, f4]; exact h2,
    by rw [hsec]; exact h3, ?_, ?_⟩
  · intro s b hm
    rw [f5] at hm
    obtain ⟨g1, g2, g3, g4⟩ := h4 s b hm
    exact ⟨by rw [hnd]; exact g1, by rw [hvs]; exact g2, by rw [f3]; exact g3, g4⟩
  · unfold fermiOk at h5 ⊢
    rw [if_pos hf] at h5
    rw [f2, if_pos hf, phaseFlip0_phases a hp h3]
    simp only [Bool.and_eq_true] at h5 ⊢
    refine ⟨⟨?_, ?_⟩, ?_⟩
    · rw [allDistinct_iff_nodup, List.map_map]
      exact (h3.filter _).map (fun _ _ e => e)
    · rw [List.all_eq_true]
      intro p hp'
      obtain ⟨s, hs, rfl⟩ := List.mem_map.mp hp'
      have hs' := (List.mem_filter.mp hs).1
      obtain ⟨⟨_, b⟩, hb, rfl⟩ := List.mem_map.mp hs'
      obtain ⟨g1, g2, _, _⟩ := h4 _ b hb
      simp only [Bool.and_eq_true, Bool.or_eq_true, beq_iff_eq, hnd, hvs]
      exact ⟨⟨g1, g2⟩, Or.inr trivial⟩
    · rw [f6]
      simpa [Arr.parity, f1, f4] using h5.2

theorem rightF_valid (hv : x.validB = true) (h2 : x.ndim = 2) (hi : x.indices = [i0, i1])
    (hL : FacShape L Rt) : (rightF x L Rt).validB = true := by
  unfold rightF
  split
  next h =>
    simp only [Bool.and_eq_true] at h
    exact phaseFlip0_valid (rightF0_valid hv h2 hi hL) h.1 rfl
  next => exact rightF0_valid hv h2 hi hL

end FactorsValid

section FactorsSpec
variable {x : Arr R} {L Rt : Blk R → Blk R} {i0 i1 : Index}

/-- the bond sizes are `min m n` of the input blocks -/
theorem bondCm_eq (hv : x.validB = true) (hi : x.indices = [i0, i1]) (hL : FacShape L Rt) :
    bondCm x L = x.blocks.map
      (fun p => (p.1.getD 1 (0, 0), min (p.2.shape.getD 0 0) (p.2.shape.getD 1 0))) := by
  unfold bondCm
  apply List.map_congr_left
  intro p hp
  obtain ⟨s, b⟩ := p
  obtain ⟨r, c, m, n, B⟩ := mat_block hv hi hp
  simp [colOf, (hL b m n B.hshape B.hwf).1, B.hshape]

theorem rightF_fields :
    (rightF x L Rt).sym = x.sym ∧ (rightF x L Rt).fermi = x.fermi
    ∧ (rightF x L Rt).indices = [(bondIx x L).conj, x.indices.getD 1 default]
    ∧ (rightF x L Rt).charge = x.sym.zero
    ∧ (rightF x L Rt).blocks = x.blocks.map (fun p => ([colOf p.1, colOf p.1], Rt p.2))
    ∧ (rightF x L Rt).oddpos = [] := by
  unfold rightF
  split
  · obtain ⟨f1, f2, f3, f4, f5, f6⟩ := phaseFlip_fields (rightF0 x L Rt) [0]
    exact ⟨f1, f2, f3, f4, f5, f6⟩
  · exact ⟨rfl, rfl, rfl, rfl, rfl, rfl⟩

/-- pending signs of the right factor: none, except for a fermionic input whose column index is
    not dual (then the bond index of the right factor is dual): `-1` on every diagonal sector
    `(c, c)` with `c` odd -/
theorem rightF_phases (hv : x.validB = true) (h2 : x.ndim = 2) (hi : x.indices = [i0, i1]) :
    (rightF x L Rt).phases =
      if x.fermi && !i1.dual then
        ((x.sectors.map (fun s => [colOf s, colOf s])).filter
          (fun s => x.sym.parity (s.getD 0 (0, 0)))).map (fun s => (s, (-1 : Int)))
      else [] := by
  have hd : (bondIx x L).conj.dual = !i1.dual := by rw [bondIx_eq hi]; simp [Index.conj]
  unfold rightF
  rw [hd]
  split
  · rw [phaseFlip0_phases _ rfl (rightF0_sectors_nodup hv h2), rightF0_sectors]
    rfl
  · rfl

end FactorsSpec

end LinalgLemmas
end SymmModel
