/-
  SymmModel.Proofs.Reshape7c — element-exact forward statement of the fermionic `reshape` for one
  fuse call with SEVERAL groups of consecutive axes: every stored element of the result is the
  element of the input at the address obtained by splitting every fused axis, times the fuse sign
  (no transposition sign: the permutation is the identity).
-/
import SymmModel.Proofs.Reshape7b
namespace SymmModel.Reshape5
open SymmModel C07 ReshapeP FuseP SymmModel.Lazy

variable {R : Type} [Zero R] [Neg R] [LawfulNeg R]

theorem forward_elem_fermionic_call (a : Arr R) (G : List (List Nat)) (P : Nat)
    (hv : a.validB = true) (hf : a.fermi = true) (hc : CallOk G P 0 a.ndim) :
    ∃ y, applyPlan a ([], [G], []) = .ok y ∧
      ∀ ns B, alookup y.blocks ns = some B → ∀ i, inBox B.shape i = true →
        ∃ segs : List (Sector × List Nat), segs.length = G.length
          ∧ (∀ g gaxes, G[g]? = some gaxes →
              splitAddr (y.indices.getD (P + g) default) (ns.getD (P + g) (0, 0)) (i.getD (P + g) 0) = segs[g]?)
          ∧ ∀ s offs, s.length = a.ndim → offs.length = a.ndim →
              s = ns.take P ++ (segs.map (·.1)).flatten ++ ns.drop (P + G.length) →
              offs = i.take P ++ (segs.map (·.2)).flatten ++ i.drop (P + G.length) →
              y.elem ns i = sgnI (fuseSignT a G s) (a.elem s offs) := by
  have hok := groupsOk_of_call hc.ne hc.two hc.flat hc.le
  have hgok : groupsOkB G a.ndim = true := groupsOk_iff.2 hok
  have hdl := FuseP.duals_length a
  obtain ⟨hb, _, hperm⟩ := ValidP.groupInfo_consecutive (groups := G) (duals := a.duals)
    (p := P) (n := G.flatten.length) hc.flat (flatten_pos hc.ne hc.two) (by rw [hdl]; exact hc.le)
  rw [hdl] at hperm
  have hpos : (calcFuseGroupInfo G a.duals).position = P := by
    obtain ⟨_, _, _, _, _, hb', _⟩ := C05.calcFuseGroupInfo_perm G a.duals (by rw [hdl]; exact hgok)
    have := congrArg List.length (hb'.symm.trans hb)
    simpa using this
  obtain ⟨y, hy, hel⟩ := C05.fuseF_elem a G true hv hf hgok
  rw [hpos, hperm] at hel
  refine ⟨y, ?_, ?_⟩
  · simp only [applyPlan, List.foldlM_cons, List.foldlM_nil, bind, Except.bind, pure, Except.pure,
      fuseDispatch, hf, if_true]
    rw [hy]
  · intro ns B hB i hi
    obtain ⟨segs, hsl, hseg, hval⟩ := hel ns B hB i hi
    refine ⟨segs, hsl, ?_, ?_⟩
    · intro g gaxes hg
      have h2 := hc.two gaxes (List.mem_of_getElem? hg)
      exact (hseg g gaxes hg).2 (by omega)
    · intro s offs hs ho hse hoe
      have e1 : permuted s (List.range a.ndim) = s := by rw [← hs]; exact Lazy.permuted_range s
      have e2 : permuted offs (List.range a.ndim) = offs := by rw [← ho]; exact Lazy.permuted_range offs
      rw [hval s offs hs ho (by rw [e1, hse]) (by rw [e2, hoe])]
      congr 1
      unfold fuseSignF
      rw [hperm, e1, KoszulP.koszul_id', Int.mul_one]

end SymmModel.Reshape5
