/-
  SymmModel.Proofs.LinalgSolveRecon — `a · solve(a, b) = b` for abelian arrays under the value
  contract of the solve kernel on the paired blocks (C11 `solve_solves`).
-/
import SymmModel.Proofs.LinalgRecon
import SymmModel.Proofs.LinalgSolve

namespace SymmModel

variable {R : Type}

/-- VALUE contract of the solve kernel on the block pairs `solve(a, b)` forms: for every stored
    block `arr` of `a` whose row charge has a block `bb` in `b`, `arr · K.solve arr bb = bb`
    entrywise (sum over the inner index as `tensordotK` computes it).  It is a hypothesis on the
    call, not on `K` alone, because no kernel can solve singular blocks. -/
def Kernels.SolvesOn [Zero R] [Add R] [Mul R] (K : Kernels R) (a b : Arr R) : Prop :=
  ∀ s arr bb, (s, arr) ∈ a.blocks → alookup b.blocks [s.getD 0 (0, 0)] = some bb →
    ∀ i, i < arr.shape.getD 0 0 →
      (List.range (arr.shape.getD 1 0)).foldl
        (fun acc t => acc + arr.get [i, t] * (K.solve arr bb).get [t]) 0 = bb.get [i]

namespace LinalgLemmas

theorem tensordotK_matvec_get [Zero R] [Add R] [Mul R] (a b : Blk R) {m k : Nat}
    (ha : a.shape = [m, k]) (hb : b.shape = [k]) {i : Nat} (hi : i < m) :
    (a.tensordotK b [1] [0]).get [i]
      = (List.range k).foldl (fun acc t => acc + a.get [i, t] * b.get [t]) 0 := by
  unfold Blk.tensordotK
  simp only [ha, hb]
  have h1 : (List.range [m, k].length).filter (fun ax => ![1].contains ax) = [0] := rfl
  have h2 : (List.range [k].length).filter (fun ax => ![0].contains ax) = [] := rfl
  rw [h1, h2]
  have h3 : permuted [m, k] [0] ++ permuted [k] [] = [m] := rfl
  have h4 : permuted [m, k] [1] = [k] := rfl
  rw [h3, h4, ofFn_get _ _ ((inBox_single m i).mpr hi)]
  have h5 : allIdx [k] = (List.range k).map (fun t => [t]) := by
    simp only [allIdx, List.map_cons, List.map_nil]
    exact flatMap_single _ _
  rw [h5, List.foldl_map]
  rfl

theorem flatMap_toList_eq_filterMap {α β : Type} (l : List α) (g : α → List β) (f : α → Option β)
    (hg : ∀ p ∈ l, g p = (f p).toList) : l.flatMap g = l.filterMap f := by
  induction l with
  | nil => rfl
  | cons a l ih =>
    rw [List.flatMap_cons, List.filterMap_cons, hg a List.mem_cons_self,
      ih (fun p hp => hg p (List.mem_cons_of_mem _ hp))]
    cases f a <;> rfl

/-- `solve` on an abelian matrix: no syncing, no flip -/
theorem solveA_abelian [Neg R] {K : Kernels R} {a b x : Arr R} (hva : a.validB = true)
    (hfa : a.fermi = false) (h : solveA K a b = .ok x) :
    a.ndim = 2 ∧ x = solveX K a b := by
  rw [solveA_eq_core] at h
  have ha : syncIf a = a := by unfold syncIf; simp [hfa]
  have hb : syncB a b = b := by unfold syncB; simp [hfa]
  rw [ha, hb] at h
  unfold solveCore at h
  split at h
  · cases h
  next hnd =>
    split at h
    · cases h
    next =>
      simp only [Bool.or_eq_true, bne_iff_ne, ne_eq, not_or, Decidable.not_not] at hnd
      have h' := Except.ok.inj h
      rw [adict_of_nodup _ (solveBlocks_keys_nodup hva hnd.1)] at h'
      simp only [hfa, Bool.false_and, Bool.false_eq_true, if_false] at h'
      exact ⟨hnd.1, h'.symm⟩

/-- blocks of `a · x` (axes `(1, 0)`) for `x = solve(a, b)`: one product per paired block, keyed
    by the row charge -/
theorem solve_tdot_blocks [Zero R] [Add R] [Mul R] {K : Kernels R} {a b : Arr R}
    (hva : a.validB = true) (h2 : a.ndim = 2) :
    (tensordotBlockwise a (solveX K a b) [0] [1] [0] []).blocks
      = a.blocks.filterMap (fun p => (alookup b.blocks [p.1.getD 0 (0, 0)]).map (fun bb =>
          ([p.1.getD 0 (0, 0)], p.2.tensordotK (K.solve p.2 bb) [1] [0]))) := by
  obtain ⟨i0, i1, hi⟩ := ndim_two h2
  have hcols := colCharges_nodup hva h2
  have hxk := solveBlocks_keys_nodup (K := K) (b := b) hva h2
  have hpairs : (a.blocks.flatMap (fun (sa, ba) =>
      let ka := permuted sa [1]
      ((solveX K a b).blocks.filter (fun (sb, _) => permuted sb [0] == ka)).map (fun (sb, bb) =>
        (permuted sa [0] ++ permuted sb [], ba, bb))))
      = a.blocks.filterMap (fun p => (alookup b.blocks [p.1.getD 0 (0, 0)]).map (fun bb =>
          ([p.1.getD 0 (0, 0)], p.2, K.solve p.2 bb))) := by
    apply flatMap_toList_eq_filterMap
    intro p hp
    obtain ⟨s, arr⟩ := p
    obtain ⟨r, c, m, n, B⟩ := mat_block hva hi hp
    have hs := B.hs
    subst hs
    show (((solveBlocks K a b).filter (fun q => permuted q.1 [0] == permuted [r, c] [1])).map
      (fun q => (permuted [r, c] [0] ++ permuted q.1 [], arr, q.2))) = _
    simp only [List.getD_cons_zero]
    cases hl : alookup b.blocks [r] with
    | none =>
      have : (solveBlocks K a b).filter (fun q => permuted q.1 [0] == permuted [r, c] [1]) = [] := by
        rw [List.filter_eq_nil_iff]
        intro q hq hP
        obtain ⟨s', arr', bb', hm', hlk', hq1, _⟩ := solveBlocks_mem (s' := q.1) (xb := q.2) hq
        rw [hq1] at hP
        have hc : s'.getD 1 (0, 0) = c := by
          have : ([s'.getD 1 (0, 0)] == [c]) = true := hP
          simpa using this
        have hsec := (sector_inj hva h2 (List.mem_map.mpr ⟨(s', arr'), hm', rfl⟩)
          (List.mem_map.mpr ⟨([r, c], arr), hp, rfl⟩)).2 (by simpa using hc)
        simp only at hsec
        subst hsec
        simp only [List.getD_cons_zero] at hlk'
        rw [hl] at hlk'
        cases hlk'
      rw [this]; rfl
    | some bb =>
      have hmem : ([c], K.solve arr bb) ∈ solveBlocks K a b := by
        unfold solveBlocks
        rw [List.mem_filterMap]
        refine ⟨([r, c], arr), hp, ?_⟩
        simp only [List.getD_cons_zero, hl, List.getD_cons_succ]
      have : (solveBlocks K a b).filter (fun q => permuted q.1 [0] == permuted [r, c] [1])
          = [([c], K.solve arr bb)] := by
        apply filter_key_eq_singleton _ (·.1) hxk hmem
        intro q hq
        obtain ⟨s', arr', bb', _, _, hq1, _⟩ := solveBlocks_mem (s' := q.1) (xb := q.2) hq
        rw [hq1]
        show ([s'.getD 1 (0, 0)] == [c]) = true ↔ _
        simp
      rw [this]; rfl
  unfold tensordotBlockwise
  simp only []
  rw [hpairs]
  have hkeys : ((a.blocks.filterMap (fun p => (alookup b.blocks [p.1.getD 0 (0, 0)]).map (fun bb =>
      ([p.1.getD 0 (0, 0)], p.2, K.solve p.2 bb)))).map (·.1)).Nodup := by
    apply nodup_filterMap_keys a.blocks _ (fun q : Sector × Blk R × Blk R => q.1)
      (fun p => [p.1.getD 0 (0, 0)])
    · have := rowCharges_nodup hva h2
      have h' := nodup_map_of_inj _ (fun c : Charge => [c]) this (fun a _ b _ e => (List.cons.inj e).1)
      simpa [Arr.sectors, List.map_map, Function.comp_def] using h'
    · intro p q hpq
      cases hl : alookup b.blocks [p.1.getD 0 (0, 0)] with
      | none => rw [hl] at hpq; cases hpq
      | some bb => rw [hl] at hpq; cases hpq; rfl
  have := accum_fold (R := R) [1] [0]
    (a.blocks.filterMap (fun p => (alookup b.blocks [p.1.getD 0 (0, 0)]).map (fun bb =>
      ([p.1.getD 0 (0, 0)], p.2, K.solve p.2 bb)))) []
    (by rw [List.map_nil, List.nil_append]; exact hkeys)
  simp only [List.nil_append] at this
  refine this.trans ?_
  rw [List.map_filterMap]
  apply List.filterMap_congr
  intro p _
  cases alookup b.blocks [p.1.getD 0 (0, 0)] <;> rfl

/-- `a · solve(a, b) = b` at every address of a paired block, abelian arrays -/
theorem solve_recon [Zero R] [Add R] [Mul R] [Neg R] {K : Kernels R} (hK : K.ShapeOk)
    {a b x : Arr R} (hva : a.validB = true) (hfa : a.fermi = false) (hbp : b.phases = [])
    (hS : K.SolvesOn a b) (h : solveA K a b = .ok x)
    {s : Sector} {arr bb : Blk R} (hm : (s, arr) ∈ a.blocks)
    (hl : alookup b.blocks [s.getD 0 (0, 0)] = some bb) {i : Nat} (hi : i < arr.shape.getD 0 0) :
    (tensordotBlockwise a x [0] [1] [0] []).elem [s.getD 0 (0, 0)] [i]
      = b.elem [s.getD 0 (0, 0)] [i] := by
  obtain ⟨h2, rfl⟩ := solveA_abelian hva hfa h
  obtain ⟨i0, i1, hidx⟩ := ndim_two h2
  obtain ⟨r, c, m, n, B⟩ := mat_block hva hidx hm
  have hrow : s.getD 0 (0, 0) = r := by simp [B.hs]
  have hblocks := solve_tdot_blocks (K := K) (b := b) hva h2
  have hkeys : ((tensordotBlockwise a (solveX K a b) [0] [1] [0] []).blocks.map (·.1)).Nodup := by
    rw [hblocks]
    apply nodup_filterMap_keys a.blocks _ (fun q : Sector × Blk R => q.1)
      (fun p => [p.1.getD 0 (0, 0)])
    · have := rowCharges_nodup hva h2
      have h' := nodup_map_of_inj _ (fun c : Charge => [c]) this (fun a _ b _ e => (List.cons.inj e).1)
      simpa [Arr.sectors, List.map_map, Function.comp_def] using h'
    · intro p q hpq
      cases hl' : alookup b.blocks [p.1.getD 0 (0, 0)] with
      | none => rw [hl'] at hpq; cases hpq
      | some bb' => rw [hl'] at hpq; cases hpq; rfl
  have hlook : alookup (tensordotBlockwise a (solveX K a b) [0] [1] [0] []).blocks [s.getD 0 (0, 0)]
      = some (arr.tensordotK (K.solve arr bb) [1] [0]) := by
    apply alookup_of_mem_nodup hkeys
    rw [hblocks, List.mem_filterMap]
    exact ⟨(s, arr), hm, by simp only [hl, Option.map_some]⟩
  have hph : (tensordotBlockwise a (solveX K a b) [0] [1] [0] []).phases = [] :=
    abelian_phases (x := a) hva hfa
  have hsol := hK.solve arr bb m n B.hshape B.hwf
  have hi' : i < m := by simpa [B.hshape] using hi
  have hval := hS s arr bb hm hl i hi
  simp only [B.hshape, List.getD_cons_succ, List.getD_cons_zero] at hval
  simp only [Arr.elem, hlook, hph, hl, hbp, alookup]
  rw [← hval]
  simpa using tensordotK_matvec_get arr (K.solve arr bb) B.hshape hsol.1 hi'

end LinalgLemmas
end SymmModel
