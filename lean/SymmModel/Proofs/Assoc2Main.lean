/-
  SymmModel.Proofs.Assoc2Main — S7 of property C04 in full (chains and triangles): both routes
  visit the same stored sector triples, the second calls satisfy the weak guard, the index tables
  agree, and — for label lists on which the two label routes agree (`LabelRoutes`) — the two
  results agree.  Namespace `SymmModel.Assoc2P`.
-/
import SymmModel.Proofs.Assoc2Right

namespace SymmModel
namespace Assoc2P
open TdotP GradedP RoutesP KoszulP AssocP
open Lazy (sgnI)
set_option linter.unusedSectionVars false

variable {R : Type}

/-- `t = (sa, sb, sc)` is a stored sector triple, aligned on all three bonds, with free parts `s` -/
def IsTriple (A B C : Arr R) (xa1 xa3 xb1 xb2 xc2 xc3 : List Nat) (s : Sector)
    (t : Sector × Sector × Sector) : Prop :=
  t.1 ∈ A.sectors ∧ t.2.1 ∈ B.sectors ∧ t.2.2 ∈ C.sectors
    ∧ permuted t.2.1 xb1 = permuted t.1 xa1 ∧ permuted t.2.2 xc2 = permuted t.2.1 xb2
    ∧ permuted t.2.2 xc3 = permuted t.1 xa3
    ∧ permuted t.1 (freeAxes A.ndim (xa1 ++ xa3)) ++ permuted t.2.1 (freeAxes B.ndim (xb1 ++ xb2)) ++ permuted t.2.2 (freeAxes C.ndim (xc2 ++ xc3)) = s

section triples
variable [AddMonoid R] [Mul R] [Neg R] [SignRing R]
variable {A B C AB BC : Arr R} {xa1 xa3 xb1 xb2 xc2 xc3 : List Nat} {ph : Int}

theorem mem_triplesL (I : Inter A B xa1 xb1 AB ph) (T : Tri A B C xa1 xa3 xb1 xb2 xc2 xc3)
    {s : Sector} {t : Sector × Sector × Sector} :
    t ∈ triplesL A B C AB xa1 xa3 xb1 xb2 xc2 xc3 s ↔ IsTriple A B C xa1 xa3 xb1 xb2 xc2 xc3 s t := by
  have hsa := Arr.shapesOk_of_validB T.hAB.va
  have hsb := Arr.shapesOk_of_validB T.hAB.vb
  have hsc := Arr.shapesOk_of_validB T.hBC.vb
  have hlenAC : xa3.length = xc3.length := contractible_len T.conAC
  unfold triplesL IsTriple
  simp only [List.mem_flatMap, List.mem_map]
  constructor
  · rintro ⟨⟨sab, sc⟩, hp, ⟨sa, sb⟩, hq, rfl⟩
    obtain ⟨_, hC, h23, h4⟩ := mem_storedPairs.mp hp
    obtain ⟨hA, hB, h1, hsab⟩ := mem_storedPairs.mp hq
    simp only at hsab h23 h4 hC ⊢
    subst hsab
    have hlsa := Arr.sector_length hsa hA
    have hlsb := Arr.sector_length hsb hB
    have hlsc := Arr.sector_length hsc hC
    rw [readAB_ax T.mA T.mB sa sb hlsa hlsb, ValidP.permuted_append] at h23
    obtain ⟨h3, h2⟩ := List.append_inj h23 (by
      rw [permuted_length _ _ (by rw [hlsc]; exact T.mC.lt2),
        permuted_length _ _ (by rw [hlsa]; exact T.mA.lt2), hlenAC])
    rw [I.ndim, readAB_free T.mA T.mB sa sb hlsa hlsb, freeM_comm C.ndim xc2 xc3] at h4
    exact ⟨hA, hB, hC, h1, h2, h3, h4⟩
  · obtain ⟨sa, sb, sc⟩ := t
    rintro ⟨hA, hB, hC, h1, h2, h3, h4⟩
    simp only at hA hB hC h1 h2 h3 h4
    have hlsa := Arr.sector_length hsa hA
    have hlsb := Arr.sector_length hsb hB
    refine ⟨(permuted sa (freeAxes A.ndim xa1) ++ permuted sb (freeAxes B.ndim xb1), sc),
      mem_storedPairs.mpr ⟨I.mem_sectors.mpr ⟨sa, hA, sb, hB, h1, rfl⟩, hC, ?_, ?_⟩,
      (sa, sb), mem_storedPairs.mpr ⟨hA, hB, h1, rfl⟩, rfl⟩
    · rw [readAB_ax T.mA T.mB sa sb hlsa hlsb, ValidP.permuted_append, h3, h2]
    · rw [I.ndim, readAB_free T.mA T.mB sa sb hlsa hlsb, freeM_comm C.ndim xc2 xc3]; exact h4

theorem mem_triplesR (I : Inter B C xb2 xc2 BC ph) (T : Tri A B C xa1 xa3 xb1 xb2 xc2 xc3)
    {s : Sector} {t : Sector × Sector × Sector} :
    t ∈ triplesR A B C BC xa1 xa3 xb1 xb2 xc2 xc3 s ↔ IsTriple A B C xa1 xa3 xb1 xb2 xc2 xc3 s t := by
  have hsa := Arr.shapesOk_of_validB T.hAB.va
  have hsb := Arr.shapesOk_of_validB T.hAB.vb
  have hsc := Arr.shapesOk_of_validB T.hBC.vb
  unfold triplesR IsTriple
  simp only [List.mem_flatMap, List.mem_map]
  constructor
  · rintro ⟨⟨sa, sbc⟩, hp, ⟨sb, sc⟩, hq, rfl⟩
    obtain ⟨hA, _, h13, h4⟩ := mem_storedPairs.mp hp
    obtain ⟨hB, hC, h2, hsbc⟩ := mem_storedPairs.mp hq
    simp only at hsbc h13 h4 hA ⊢
    subst hsbc
    have hlsa := Arr.sector_length hsa hA
    have hlsb := Arr.sector_length hsb hB
    have hlsc := Arr.sector_length hsc hC
    rw [readBC_ax T.mB T.mC sb sc hlsb hlsc, ValidP.permuted_append] at h13
    obtain ⟨h1, h3⟩ := List.append_inj h13 (by
      rw [permuted_length _ _ (by rw [hlsb]; exact T.mB.lt1),
        permuted_length _ _ (by rw [hlsa]; exact T.mA.lt1), T.hAB.len])
    rw [I.ndim, readBC_free T.mB T.mC sb sc hlsb hlsc, ← List.append_assoc] at h4
    exact ⟨hA, hB, hC, h1, h2, h3, h4⟩
  · obtain ⟨sa, sb, sc⟩ := t
    rintro ⟨hA, hB, hC, h1, h2, h3, h4⟩
    simp only at hA hB hC h1 h2 h3 h4
    have hlsb := Arr.sector_length hsb hB
    have hlsc := Arr.sector_length hsc hC
    refine ⟨(sa, permuted sb (freeAxes B.ndim xb2) ++ permuted sc (freeAxes C.ndim xc2)),
      mem_storedPairs.mpr ⟨hA, I.mem_sectors.mpr ⟨sb, hB, sc, hC, h2, rfl⟩, ?_, ?_⟩,
      (sb, sc), mem_storedPairs.mpr ⟨hB, hC, h2, rfl⟩, rfl⟩
    · rw [readBC_ax T.mB T.mC sb sc hlsb hlsc, ValidP.permuted_append, h1, h3]
    · rw [I.ndim, readBC_free T.mB T.mC sb sc hlsb hlsc, ← List.append_assoc]; exact h4

omit [SignRing R] in
theorem triplesL_nodup (hdAB : AB.sectors.Nodup) (hdA : A.sectors.Nodup) (hdB : B.sectors.Nodup)
    (hdC : C.sectors.Nodup) (s : Sector) : (triplesL A B C AB xa1 xa3 xb1 xb2 xc2 xc3 s).Nodup := by
  unfold triplesL
  rw [List.nodup_flatMap]
  constructor
  · intro p _
    refine (storedPairs_nodup _ _ _ _ _ hdA hdB).map ?_
    intro x y hxy
    simp only [Prod.mk.injEq] at hxy
    exact Prod.ext hxy.1 hxy.2.1
  · refine List.Pairwise.imp ?_ (storedPairs_nodup _ _ _ _ _ hdAB hdC)
    intro p p' hne
    simp only [Function.onFun, List.disjoint_left, List.mem_map, not_exists, not_and]
    rintro t ⟨q, hq, rfl⟩ q' hq' heq
    apply hne
    obtain ⟨_, _, _, e1⟩ := mem_storedPairs.mp hq
    obtain ⟨_, _, _, e2⟩ := mem_storedPairs.mp hq'
    simp only [Prod.mk.injEq] at heq
    apply Prod.ext
    · rw [← e1, ← e2, heq.1, heq.2.1]
    · exact heq.2.2.symm

omit [SignRing R] in
theorem triplesR_nodup (hdBC : BC.sectors.Nodup) (hdA : A.sectors.Nodup) (hdB : B.sectors.Nodup)
    (hdC : C.sectors.Nodup) (s : Sector) : (triplesR A B C BC xa1 xa3 xb1 xb2 xc2 xc3 s).Nodup := by
  unfold triplesR
  rw [List.nodup_flatMap]
  constructor
  · intro p _
    refine (storedPairs_nodup _ _ _ _ _ hdB hdC).map ?_
    intro x y hxy
    simp only [Prod.mk.injEq] at hxy
    exact Prod.ext hxy.2.1 hxy.2.2
  · refine List.Pairwise.imp ?_ (storedPairs_nodup _ _ _ _ _ hdA hdBC)
    intro p p' hne
    simp only [Function.onFun, List.disjoint_left, List.mem_map, not_exists, not_and]
    rintro t ⟨q, hq, rfl⟩ q' hq' heq
    apply hne
    obtain ⟨_, _, _, e1⟩ := mem_storedPairs.mp hq
    obtain ⟨_, _, _, e2⟩ := mem_storedPairs.mp hq'
    simp only [Prod.mk.injEq] at heq
    apply Prod.ext
    · exact heq.1.symm
    · rw [← e1, ← e2, heq.2.1, heq.2.2]

/-! ### the second calls satisfy the weak guard -/

omit [AddMonoid R] [Mul R] [Neg R] [SignRing R] in
theorem commonB_append {a b : Arr R} {x x' y y' : List Nat} (hl : x.length = y.length)
    (h1 : contractibleCommonB a b x y = true) (h2 : contractibleCommonB a b x' y' = true) :
    contractibleCommonB a b (x ++ x') (y ++ y') = true := by
  unfold contractibleCommonB at h1 h2 ⊢
  simp only [Bool.and_eq_true, beq_iff_eq] at h1 h2 ⊢
  refine ⟨by rw [List.length_append, List.length_append, h1.1, h2.1], ?_⟩
  rw [List.zip_append hl, List.all_append, h1.2, h2.2]
  rfl

theorem admW_left (I : Inter A B xa1 xb1 AB ph) (T : Tri A B C xa1 xa3 xb1 xb2 xc2 xc3) :
    AdmW AB C (axesAB A.ndim B.ndim xa1 xa3 xb1 xb2) (xc3 ++ xc2) := by
  refine ⟨I.valid, T.hBC.vb, I.fermi, T.hBC.fb, by rw [I.sym, T.hAB.sym, T.hBC.sym], ?_,
    axesAB_nodup T.mA T.mB,
    List.nodup_append.mpr ⟨T.mC.n2, T.mC.n1, fun x hx y hy e => T.mC.disj y hy (e ▸ hx)⟩, ?_, ?_⟩
  · unfold axesAB
    refine commonB_append (by rw [T.mA.pos_len, contractible_len T.conAC]) ?_
      (AssocP.admW_left I T.hAB T.hBC T.mB).con
    refine commonB_prune_left (a := A) (xa := xa3) T.mA.pos_len ?_
      (commonB_of_contractibleB T.hAB.va T.mA.lt2 T.conAC)
    intro j hj
    obtain ⟨e2, e3⟩ := pos_getD T.mA j hj
    have := I.leg_left _ e2
    rw [e3] at this
    exact this
  · rw [I.ndim]; exact axesAB_lt T.mA T.mB
  · intro i hi
    rcases List.mem_append.mp hi with h | h
    · exact T.mC.lt2 i h
    · exact T.mC.lt1 i h

theorem admW_right (I : Inter B C xb2 xc2 BC ph) (T : Tri A B C xa1 xa3 xb1 xb2 xc2 xc3) :
    AdmW A BC (xa1 ++ xa3) (axesBC B.ndim C.ndim xb1 xb2 xc2 xc3) := by
  refine ⟨T.hAB.va, I.valid, T.hAB.fa, I.fermi, by rw [I.sym]; exact T.hAB.sym, ?_,
    List.nodup_append.mpr ⟨T.mA.n1, T.mA.n2, fun x hx y hy e => T.mA.disj x hx (e ▸ hy)⟩,
    axesAB_nodup T.mB.symm T.mC, ?_, ?_⟩
  · unfold axesBC
    refine commonB_append (by rw [T.mB.symm.pos_len, T.hAB.len])
      (AssocP.admW_right I T.hAB T.mB).con ?_
    refine commonB_prune_right (b := C) (xb := xc3) (by rw [List.length_map, T.mC.pos_len]) ?_
      (commonB_of_contractibleB T.hAB.va T.mA.lt2 T.conAC)
    intro j hj
    obtain ⟨e1, e2, e3⟩ := AssocP.axesAB_getD (nA := B.ndim) (xa := xb2) T.mC j hj
    have := I.leg_right _ e2
    rw [e3, ← e1] at this
    exact this
  · intro i hi
    rcases List.mem_append.mp hi with h | h
    · exact T.mA.lt1 i h
    · exact T.mA.lt2 i h
  · rw [I.ndim]; exact axesAB_lt T.mB.symm T.mC

/-! ### sectors of the two final results -/

theorem keysL_iff (I : Inter A B xa1 xb1 AB ph) (T : Tri A B C xa1 xa3 xb1 xb2 xc2 xc3) (s : Sector) :
    s ∈ (tdKeys AB.sectors C.sectors (freeAxes AB.ndim (axesAB A.ndim B.ndim xa1 xa3 xb1 xb2)) (axesAB A.ndim B.ndim xa1 xa3 xb1 xb2) (xc3 ++ xc2) (freeAxes C.ndim (xc3 ++ xc2))).eraseDups
      ↔ ∃ t, IsTriple A B C xa1 xa3 xb1 xb2 xc2 xc3 s t := by
  rw [mem_keys_iff]
  constructor
  · rintro ⟨⟨sab, sc⟩, hp⟩
    obtain ⟨hsab, _, _, _⟩ := mem_storedPairs.mp hp
    obtain ⟨sa, hA, sb, hB, h1, e⟩ := I.mem_sectors.mp hsab
    refine ⟨(sa, sb, sc), (mem_triplesL I T).mp ?_⟩
    unfold triplesL
    exact List.mem_flatMap.mpr ⟨(sab, sc), hp, List.mem_map.mpr
      ⟨(sa, sb), mem_storedPairs.mpr ⟨hA, hB, h1, e.symm⟩, rfl⟩⟩
  · rintro ⟨t, ht⟩
    have := (mem_triplesL I T).mpr ht
    unfold triplesL at this
    obtain ⟨p, hp, _⟩ := List.mem_flatMap.mp this
    exact ⟨p, hp⟩

theorem keysR_iff (I : Inter B C xb2 xc2 BC ph) (T : Tri A B C xa1 xa3 xb1 xb2 xc2 xc3) (s : Sector) :
    s ∈ (tdKeys A.sectors BC.sectors (freeAxes A.ndim (xa1 ++ xa3)) (xa1 ++ xa3) (axesBC B.ndim C.ndim xb1 xb2 xc2 xc3) (freeAxes BC.ndim (axesBC B.ndim C.ndim xb1 xb2 xc2 xc3))).eraseDups
      ↔ ∃ t, IsTriple A B C xa1 xa3 xb1 xb2 xc2 xc3 s t := by
  rw [mem_keys_iff]
  constructor
  · rintro ⟨⟨sa, sbc⟩, hp⟩
    obtain ⟨_, hsbc, _, _⟩ := mem_storedPairs.mp hp
    obtain ⟨sb, hB, sc, hC, h1, e⟩ := I.mem_sectors.mp hsbc
    refine ⟨(sa, sb, sc), (mem_triplesR I T).mp ?_⟩
    unfold triplesR
    exact List.mem_flatMap.mpr ⟨(sa, sbc), hp, List.mem_map.mpr
      ⟨(sb, sc), mem_storedPairs.mpr ⟨hB, hC, h1, e.symm⟩, rfl⟩⟩
  · rintro ⟨t, ht⟩
    have := (mem_triplesR I T).mpr ht
    unfold triplesR at this
    obtain ⟨p, hp, _⟩ := List.mem_flatMap.mp this
    exact ⟨p, hp⟩

end triples

/-! ### boxes of the final address in the two (pruned) result frames -/

section boxes
variable [AddMonoid R] [Mul R] [Neg R] [SignRing R]
variable {A B C AB BC : Arr R} {xa1 xa3 xb1 xb2 xc2 xc3 : List Nat} {ph : Int}

omit [SignRing R] in
theorem FreeAddr.parts {LA LM LC : Sector} {oA oM oC : List Nat}
    (fa : FreeAddr A B C xa1 xa3 xb1 xb2 xc2 xc3 LA LM LC oA oM oC)
    (hsa : A.shapesOk) (hsb : B.shapesOk) (hsc : C.shapesOk)
    {t : Sector × Sector × Sector} (ht : IsTriple A B C xa1 xa3 xb1 xb2 xc2 xc3 (LA ++ LM ++ LC) t) :
    permuted t.1 (freeAxes A.ndim (xa1 ++ xa3)) = LA ∧ permuted t.2.1 (freeAxes B.ndim (xb1 ++ xb2)) = LM ∧ permuted t.2.2 (freeAxes C.ndim (xc2 ++ xc3)) = LC
      ∧ inBox (permuted (Arr.blockShapeD A.indices t.1) (freeAxes A.ndim (xa1 ++ xa3))) oA = true
      ∧ inBox (permuted (Arr.blockShapeD B.indices t.2.1) (freeAxes B.ndim (xb1 ++ xb2))) oM = true
      ∧ inBox (permuted (Arr.blockShapeD C.indices t.2.2) (freeAxes C.ndim (xc2 ++ xc3))) oC = true := by
  obtain ⟨hA, hB, hC, _, _, _, h3⟩ := ht
  have hlA : (permuted t.1 (freeAxes A.ndim (xa1 ++ xa3))).length = (freeAxes A.ndim (xa1 ++ xa3)).length :=
    permuted_length _ _ (by
      intro x hx; rw [Arr.sector_length hsa hA]; exact (mem_freeAxes.mp hx).1)
  have hlM : (permuted t.2.1 (freeAxes B.ndim (xb1 ++ xb2))).length = (freeAxes B.ndim (xb1 ++ xb2)).length :=
    permuted_length _ _ (by
      intro x hx; rw [Arr.sector_length hsb hB]; exact (mem_freeAxes.mp hx).1)
  obtain ⟨e1, e2⟩ := List.append_inj h3 (by
    rw [List.length_append, List.length_append, hlA, hlM, fa.lA, fa.lM])
  obtain ⟨e3, e4⟩ := List.append_inj e1 (by rw [hlA, fa.lA])
  refine ⟨e3, e4, e2, ?_, ?_, ?_⟩
  · have := fa.bA
    rw [← e3, shapeD_free hsa hA _ (fun x hx => (mem_freeAxes.mp hx).1)] at this
    exact this
  · have := fa.bM
    rw [← e4, shapeD_free hsb hB _ (fun x hx => (mem_freeAxes.mp hx).1)] at this
    exact this
  · have := fa.bC
    rw [← e2, shapeD_free hsc hC _ (fun x hx => (mem_freeAxes.mp hx).1)] at this
    exact this

omit [SignRing R] in
theorem inBox3 {s1 s2 s3 o1 o2 o3 : List Nat} (l1 : o1.length = s1.length) (l2 : o2.length = s2.length)
    (b1 : inBox s1 o1 = true) (b2 : inBox s2 o2 = true) (b3 : inBox s3 o3 = true) :
    inBox (s1 ++ s2 ++ s3) (o1 ++ o2 ++ o3) = true := by
  rw [inBox_append (by rw [List.length_append, List.length_append, l1, l2]), inBox_append l1, b1, b2, b3]
  rfl

theorem boxL (I : Inter A B xa1 xb1 AB ph) (T : Tri A B C xa1 xa3 xb1 xb2 xc2 xc3)
    {LA LM LC : Sector} {oA oM oC : List Nat}
    (fa : FreeAddr A B C xa1 xa3 xb1 xb2 xc2 xc3 LA LM LC oA oM oC)
    {t : Sector × Sector × Sector} (ht : IsTriple A B C xa1 xa3 xb1 xb2 xc2 xc3 (LA ++ LM ++ LC) t) :
    inBox (Arr.blockShapeD (without AB.indices (axesAB A.ndim B.ndim xa1 xa3 xb1 xb2) ++ without C.indices (xc3 ++ xc2)) (LA ++ LM ++ LC))
      ((oA ++ oM) ++ oC) = true := by
  have hsa := Arr.shapesOk_of_validB T.hAB.va
  have hsb := Arr.shapesOk_of_validB T.hAB.vb
  have hsc := Arr.shapesOk_of_validB T.hBC.vb
  obtain ⟨p1, p2, p3, b1, b2, b3⟩ := fa.parts hsa hsb hsc ht
  obtain ⟨sa, sb, sc⟩ := t
  obtain ⟨hA, hB, hC, h1, _, _, _⟩ := ht
  simp only at hA hB hC h1 p1 p2 p3 b1 b2 b3
  obtain ⟨shpA, hA1, hA2, hA3, hA4⟩ := shape_of_mem hsa hA
  obtain ⟨shpB, hB1, hB2, hB3, hB4⟩ := shape_of_mem hsb hB
  obtain ⟨shpC, hC1, hC2, hC3, hC4⟩ := shape_of_mem hsc hC
  have hAB := blockShape?_permuted (I.shape hsa hsb hA hB h1)
    (freeAxes AB.ndim (axesAB A.ndim B.ndim xa1 xa3 xb1 xb2)) (fun x hx => (mem_freeAxes.mp hx).1)
  rw [hA2, hB2, I.ndim, readAB_free T.mA T.mB sa sb hA4 hB4, readAB_free T.mA T.mB shpA shpB hA3 hB3,
    ← I.ndim] at hAB
  have hCC := blockShape?_permuted hC1 (freeAxes C.ndim (xc2 ++ xc3)) (fun x hx => (mem_freeAxes.mp hx).1)
  have e5 : AB.indices.length = AB.ndim := rfl
  have e6 : C.indices.length = C.ndim := rfl
  rw [without_eq_permuted_freeAxes, without_eq_permuted_freeAxes, e5, e6, freeM_comm C.ndim xc2 xc3,
    Arr.blockShapeD, ← p1, ← p2, ← p3, blockShape?_append hAB hCC]
  rw [hA2] at b1
  rw [hB2] at b2
  rw [hC2] at b3
  exact inBox3
    (by rw [fa.loA, permuted_length _ _ (by intro x hx; rw [hA3]; exact (mem_freeAxes.mp hx).1)])
    (by rw [fa.loM, permuted_length _ _ (by intro x hx; rw [hB3]; exact (mem_freeAxes.mp hx).1)])
    b1 b2 b3

theorem boxR (I : Inter B C xb2 xc2 BC ph) (T : Tri A B C xa1 xa3 xb1 xb2 xc2 xc3)
    {LA LM LC : Sector} {oA oM oC : List Nat}
    (fa : FreeAddr A B C xa1 xa3 xb1 xb2 xc2 xc3 LA LM LC oA oM oC)
    {t : Sector × Sector × Sector} (ht : IsTriple A B C xa1 xa3 xb1 xb2 xc2 xc3 (LA ++ LM ++ LC) t) :
    inBox (Arr.blockShapeD (without A.indices (xa1 ++ xa3) ++ without BC.indices (axesBC B.ndim C.ndim xb1 xb2 xc2 xc3)) (LA ++ LM ++ LC))
      (oA ++ (oM ++ oC)) = true := by
  have hsa := Arr.shapesOk_of_validB T.hAB.va
  have hsb := Arr.shapesOk_of_validB T.hAB.vb
  have hsc := Arr.shapesOk_of_validB T.hBC.vb
  obtain ⟨p1, p2, p3, b1, b2, b3⟩ := fa.parts hsa hsb hsc ht
  obtain ⟨sa, sb, sc⟩ := t
  obtain ⟨hA, hB, hC, _, h2, _, _⟩ := ht
  simp only at hA hB hC h2 p1 p2 p3 b1 b2 b3
  obtain ⟨shpA, hA1, hA2, hA3, hA4⟩ := shape_of_mem hsa hA
  obtain ⟨shpB, hB1, hB2, hB3, hB4⟩ := shape_of_mem hsb hB
  obtain ⟨shpC, hC1, hC2, hC3, hC4⟩ := shape_of_mem hsc hC
  have hBC := blockShape?_permuted (I.shape hsb hsc hB hC h2)
    (freeAxes BC.ndim (axesBC B.ndim C.ndim xb1 xb2 xc2 xc3)) (fun x hx => (mem_freeAxes.mp hx).1)
  rw [hB2, hC2, I.ndim, readBC_free T.mB T.mC sb sc hB4 hC4, readBC_free T.mB T.mC shpB shpC hB3 hC3,
    ← I.ndim] at hBC
  have hAA := blockShape?_permuted hA1 (freeAxes A.ndim (xa1 ++ xa3)) (fun x hx => (mem_freeAxes.mp hx).1)
  have e5 : BC.indices.length = BC.ndim := rfl
  have e6 : A.indices.length = A.ndim := rfl
  rw [without_eq_permuted_freeAxes, without_eq_permuted_freeAxes, e5, e6, Arr.blockShapeD,
    List.append_assoc LA LM LC, ← p1, ← p2, ← p3, blockShape?_append hAA hBC,
    ← List.append_assoc oA oM oC]
  rw [hA2] at b1
  rw [hB2] at b2
  rw [hC2] at b3
  show inBox (permuted shpA _ ++ (permuted shpB _ ++ permuted shpC _)) _ = true
  rw [← List.append_assoc]
  exact inBox3
    (by rw [fa.loA, permuted_length _ _ (by intro x hx; rw [hA3]; exact (mem_freeAxes.mp hx).1)])
    (by rw [fa.loM, permuted_length _ _ (by intro x hx; rw [hB3]; exact (mem_freeAxes.mp hx).1)])
    b1 b2 b3

/-! ### index tables -/

theorem idxL (I : Inter A B xa1 xb1 AB ph) (T : Tri A B C xa1 xa3 xb1 xb2 xc2 xc3) (Tr : Arr R)
    (F : CoreFrame AB C (axesAB A.ndim B.ndim xa1 xa3 xb1 xb2) (xc3 ++ xc2) Tr) :
    Tr.indices = dropUnused (permuted A.indices (freeAxes A.ndim (xa1 ++ xa3)) ++ (permuted B.indices (freeAxes B.ndim (xb1 ++ xb2)) ++ permuted C.indices (freeAxes C.ndim (xc2 ++ xc3)))) Tr.sectors := by
  have hsAB := Arr.shapesOk_of_validB I.valid
  have hfree : ∀ i ∈ freeAxes AB.ndim (axesAB A.ndim B.ndim xa1 xa3 xb1 xb2),
      i < (without A.indices xa1 ++ without B.indices xb1).length := by
    intro i hi
    have := (mem_freeAxes.mp hi).1
    have e : AB.ndim = AB.indices.length := rfl
    rw [e, I.indices, dropUnused_length] at this
    exact this
  have e5 : AB.indices.length = AB.ndim := rfl
  rw [F.indices, without_eq_permuted_freeAxes AB.indices, e5, I.indices]
  have := dropUnused_mid [] (without C.indices (xc3 ++ xc2)) (without A.indices xa1 ++ without B.indices xb1)
    AB.sectors Tr.sectors (freeAxes AB.ndim (axesAB A.ndim B.ndim xa1 xa3 xb1 xb2)) hfree (by
      intro s hs
      rw [F.sectors, List.mem_eraseDups, mem_tdKeys] at hs
      obtain ⟨sab, hsab, sc, _, _, rfl⟩ := hs
      refine ⟨sab, hsab, ?_⟩
      intro j f hjf
      have hlt : ∀ x ∈ freeAxes AB.ndim (axesAB A.ndim B.ndim xa1 xa3 xb1 xb2), x < sab.length := by
        intro x hx; rw [Arr.sector_length hsAB hsab]; exact (mem_freeAxes.mp hx).1
      have hj : j < (freeAxes AB.ndim (axesAB A.ndim B.ndim xa1 xa3 xb1 xb2)).length := by
        by_contra hc; rw [List.getElem?_eq_none (by omega)] at hjf; cases hjf
      rw [List.length_nil, Nat.zero_add,
        List.getElem?_append_left (by rw [permuted_length _ _ hlt]; exact hj),
        permuted_getElem? _ _ hlt, hjf]
      rfl)
  rw [List.nil_append, List.nil_append] at this
  rw [this]
  congr 1
  rw [without_eq_permuted_freeAxes A.indices, without_eq_permuted_freeAxes B.indices,
    without_eq_permuted_freeAxes C.indices, I.ndim]
  have e6 : A.indices.length = A.ndim := rfl
  have e7 : B.indices.length = B.ndim := rfl
  have e8 : C.indices.length = C.ndim := rfl
  rw [e6, e7, e8, readAB_free T.mA T.mB A.indices B.indices rfl rfl, freeM_comm C.ndim xc2 xc3,
    List.append_assoc]

theorem idxR (I : Inter B C xb2 xc2 BC ph) (T : Tri A B C xa1 xa3 xb1 xb2 xc2 xc3) (Tr : Arr R)
    (F : CoreFrame A BC (xa1 ++ xa3) (axesBC B.ndim C.ndim xb1 xb2 xc2 xc3) Tr) :
    Tr.indices = dropUnused (permuted A.indices (freeAxes A.ndim (xa1 ++ xa3)) ++ (permuted B.indices (freeAxes B.ndim (xb1 ++ xb2)) ++ permuted C.indices (freeAxes C.ndim (xc2 ++ xc3)))) Tr.sectors := by
  have hsBC := Arr.shapesOk_of_validB I.valid
  have hsa := Arr.shapesOk_of_validB T.hAB.va
  have hlA : (without A.indices (xa1 ++ xa3)).length = (freeAxes A.ndim (xa1 ++ xa3)).length := by
    rw [without_eq_permuted_freeAxes]
    exact permuted_length _ _ (fun x hx => (mem_freeAxes.mp hx).1)
  have hfree : ∀ i ∈ freeAxes BC.ndim (axesBC B.ndim C.ndim xb1 xb2 xc2 xc3),
      i < (without B.indices xb2 ++ without C.indices xc2).length := by
    intro i hi
    have := (mem_freeAxes.mp hi).1
    have e : BC.ndim = BC.indices.length := rfl
    rw [e, I.indices, dropUnused_length] at this
    exact this
  have e5 : BC.indices.length = BC.ndim := rfl
  rw [F.indices, without_eq_permuted_freeAxes BC.indices, e5, I.indices]
  have := dropUnused_mid (without A.indices (xa1 ++ xa3)) [] (without B.indices xb2 ++ without C.indices xc2)
    BC.sectors Tr.sectors (freeAxes BC.ndim (axesBC B.ndim C.ndim xb1 xb2 xc2 xc3)) hfree (by
      intro s hs
      rw [F.sectors, List.mem_eraseDups, mem_tdKeys] at hs
      obtain ⟨sa, hA, sbc, hsbc, _, rfl⟩ := hs
      refine ⟨sbc, hsbc, ?_⟩
      intro j f hjf
      have hlt : ∀ x ∈ freeAxes BC.ndim (axesBC B.ndim C.ndim xb1 xb2 xc2 xc3), x < sbc.length := by
        intro x hx; rw [Arr.sector_length hsBC hsbc]; exact (mem_freeAxes.mp hx).1
      have hlsa : (permuted sa (freeAxes A.ndim (xa1 ++ xa3))).length = (without A.indices (xa1 ++ xa3)).length := by
        rw [hlA, permuted_length _ _ (by
          intro x hx; rw [Arr.sector_length hsa hA]; exact (mem_freeAxes.mp hx).1)]
      rw [List.getElem?_append_right (by rw [hlsa]; omega), hlsa, Nat.add_sub_cancel_left,
        permuted_getElem? _ _ hlt, hjf]
      rfl)
  rw [List.append_nil, List.append_nil] at this
  rw [this]
  congr 1
  rw [without_eq_permuted_freeAxes A.indices, without_eq_permuted_freeAxes B.indices,
    without_eq_permuted_freeAxes C.indices, I.ndim]
  have e6 : A.indices.length = A.ndim := rfl
  have e7 : B.indices.length = B.ndim := rfl
  have e8 : C.indices.length = C.ndim := rfl
  rw [e6, e7, e8, readBC_free T.mB T.mC B.indices C.indices rfl rfl]

end boxes

/-! ### labels -/

/-- the two label routes succeed with the same final labels and the same total sign -/
def LabelRoutes (pa pb : Bool) (la lb lc : List (Int × Bool)) : Prop :=
  ∃ lab sab lbc sbc out s1 s2,
    OddposP.mergeOddpos pa la lb = .ok (lab, sab) ∧
    OddposP.mergeOddpos (xor pa pb) lab lc = .ok (out, s1) ∧
    OddposP.mergeOddpos pb lb lc = .ok (lbc, sbc) ∧
    OddposP.mergeOddpos pa la lbc = .ok (out, s2) ∧
    sab * s1 = sbc * s2 ∧
    (sab = 1 ∨ sab = -1) ∧ (s1 = 1 ∨ s1 = -1) ∧ (sbc = 1 ∨ sbc = -1) ∧ (s2 = 1 ∨ s2 = -1)

/-- pairwise-distinct labels satisfy `LabelRoutes` -/
theorem labelRoutes_of_distinct (pa pb : Bool) (la lb lc : List (Int × Bool))
    (hd : (la ++ lb ++ lc).Pairwise (fun x y => x.1 ≠ y.1)) : LabelRoutes pa pb la lb lc := by
  have hd_ab : OddposP.LabelsDistinct (la ++ lb) := (List.pairwise_append.1 hd).1
  have hd' : OddposP.LabelsDistinct (la ++ (lb ++ lc)) := by rw [← List.append_assoc]; exact hd
  have hd_bc : OddposP.LabelsDistinct (lb ++ lc) := (List.pairwise_append.1 hd').2.1
  obtain ⟨lab, p1, _, m1⟩ := OddposP.mergeOddpos_spec pa la lb hd_ab
  have hd_abc : OddposP.LabelsDistinct (lab ++ lc) :=
    OddposP.LabelsDistinct.perm hd (List.Perm.append_right _ p1.symm)
  obtain ⟨out1, _, _, m2⟩ := OddposP.mergeOddpos_spec (xor pa pb) lab lc hd_abc
  obtain ⟨lbc, p3, _, m3⟩ := OddposP.mergeOddpos_spec pb lb lc hd_bc
  have hd_a_bc : OddposP.LabelsDistinct (la ++ lbc) :=
    OddposP.LabelsDistinct.perm hd' (List.Perm.append_left _ p3.symm)
  obtain ⟨out2, _, _, m4⟩ := OddposP.mergeOddpos_spec pa la lbc hd_a_bc
  obtain ⟨lab', sab, lbc', sbc, out, s1, s2, n1, n2, n3, n4, hs⟩ :=
    OddposP.oddpos_assoc' pa pb la lb lc hd
  rw [m1] at n1
  simp only [Except.ok.injEq, Prod.mk.injEq] at n1
  obtain ⟨rfl, rfl⟩ := n1
  rw [m2] at n2
  simp only [Except.ok.injEq, Prod.mk.injEq] at n2
  obtain ⟨rfl, rfl⟩ := n2
  rw [m3] at n3
  simp only [Except.ok.injEq, Prod.mk.injEq] at n3
  obtain ⟨rfl, rfl⟩ := n3
  rw [m4] at n4
  simp only [Except.ok.injEq, Prod.mk.injEq] at n4
  obtain ⟨rfl, rfl⟩ := n4
  exact ⟨_, _, _, _, _, _, _, m1, m2, m3, m4, hs, sgn_cases _, sgn_cases _, sgn_cases _, sgn_cases _⟩

/-! ### S7 -/

section final
variable [AddCommMonoid R] [Mul R] [Neg R] [SignRing R] [AssocLaws R]

/-- **associativity of `tensordotF`** for three operands with bonds `A–B`, `B–C` and (optionally)
    `A–C` (see `Props/C04d.lean`) -/
theorem tdotF_assoc_tri (A B C : Arr R) (xa1 xa3 xb1 xb2 xc2 xc3 : List Nat)
    (hA : A.validB = true) (hB : B.validB = true) (hC : C.validB = true)
    (hfA : A.fermi = true) (hfB : B.fermi = true) (hfC : C.fermi = true)
    (h1 : ValidP.tdotAdmissibleB A B xa1 xb1 = true) (h2 : ValidP.tdotAdmissibleB B C xb2 xc2 = true)
    (h3 : ValidP.contractibleB A C xa3 xc3 = true)
    (hnA : (xa1 ++ xa3).Nodup) (hnB : (xb1 ++ xb2).Nodup) (hnC : (xc2 ++ xc3).Nodup)
    (hltA : ∀ i ∈ xa3, i < A.ndim) (hltC : ∀ i ∈ xc3, i < C.ndim)
    (hL : LabelRoutes A.parity B.parity A.oddpos B.oddpos C.oddpos) :
    ∃ AB BC c1 c2 : Arr R,
      A.tensordotF B (.pair (xa1.map Int.ofNat) (xb1.map Int.ofNat)) .blockwise = .ok AB
      ∧ AB.tensordotF C (.pair ((axesAB A.ndim B.ndim xa1 xa3 xb1 xb2).map Int.ofNat) ((xc3 ++ xc2).map Int.ofNat)) .blockwise = .ok c1
      ∧ B.tensordotF C (.pair (xb2.map Int.ofNat) (xc2.map Int.ofNat)) .blockwise = .ok BC
      ∧ A.tensordotF BC (.pair ((xa1 ++ xa3).map Int.ofNat) ((axesBC B.ndim C.ndim xb1 xb2 xc2 xc3).map Int.ofNat)) .blockwise = .ok c2
      ∧ c2.oddpos = c1.oddpos ∧ c2.charge = c1.charge ∧ c2.sym = c1.sym ∧ c2.fermi = c1.fermi
      ∧ (∀ s, s ∈ c1.sectors ↔ ∃ t, IsTriple A B C xa1 xa3 xb1 xb2 xc2 xc3 s t)
      ∧ (∀ s, s ∈ c2.sectors ↔ s ∈ c1.sectors)
      ∧ c2.indices = c1.indices
      ∧ c1.indices = dropUnused (permuted A.indices (freeAxes A.ndim (xa1 ++ xa3)) ++ (permuted B.indices (freeAxes B.ndim (xb1 ++ xb2)) ++ permuted C.indices (freeAxes C.ndim (xc2 ++ xc3)))) c1.sectors
      ∧ ∀ (LA LM LC : Sector) (oA oM oC : List Nat),
          FreeAddr A B C xa1 xa3 xb1 xb2 xc2 xc3 LA LM LC oA oM oC →
          c2.elem (LA ++ LM ++ LC) (oA ++ oM ++ oC) = c1.elem (LA ++ LM ++ LC) (oA ++ oM ++ oC) := by
  have hAB := Adm.of hA hB hfA hfB h1
  have hBC := Adm.of hB hC hfB hfC h2
  have T : Tri A B C xa1 xa3 xb1 xb2 xc2 xc3 :=
    ⟨hAB, hBC,
      Mid.of hnA (by
        intro i hi
        rcases List.mem_append.mp hi with h | h
        · exact hAB.ltA i h
        · exact hltA i h),
      Mid.of hnB (by
        intro i hi
        rcases List.mem_append.mp hi with h | h
        · exact hAB.ltB i h
        · exact hBC.ltA i h),
      Mid.of hnC (by
        intro i hi
        rcases List.mem_append.mp hi with h | h
        · exact hBC.ltB i h
        · exact hltC i h), h3⟩
  have hsa := Arr.shapesOk_of_validB hA
  have hsb := Arr.shapesOk_of_validB hB
  have hsc := Arr.shapesOk_of_validB hC
  obtain ⟨lab, sab, lbc, sbc, out, s1, s2, m1, m2, m3, m4, hs, q1, q2, q3, q4⟩ := hL
  obtain ⟨call1, I1, o1⟩ := inter_of_call A B xa1 xb1 hA hB hfA hfB h1 (lab, sab) m1 q1
  obtain ⟨call3, I2, o2⟩ := inter_of_call B C xb2 xc2 hB hC hfB hfC h2 (lbc, sbc) m3 q3
  generalize hABdef : finish (coreT A B xa1 xb1) (lab, sab) = AB at call1 I1 o1
  generalize hBCdef : finish (coreT B C xb2 xc2) (lbc, sbc) = BC at call3 I2 o2
  simp only at o1 o2 I1 I2
  have W1 := admW_left I1 T
  have W2 := admW_right I2 T
  have hparAB : AB.parity = xor A.parity B.parity := by
    unfold Arr.parity
    rw [I1.sym, I1.charge, ValidP.parity_combine_pair', hAB.sym]
  have call2 := tensordotF_eq_core_w AB C _ _ W1
  rw [hparAB, o1, m2] at call2
  have call4 := tensordotF_eq_core_w A BC _ _ W2
  rw [o2, m4] at call4
  have F1 := coreT_frame_w AB C _ _ W1
  have F2 := coreT_frame_w A BC _ _ W2
  obtain ⟨f1, f2, f3, f4, f5, f6⟩ := finish_fields (coreT AB C (axesAB A.ndim B.ndim xa1 xa3 xb1 xb2) (xc3 ++ xc2)) (out, s1)
  obtain ⟨g1, g2, g3, g4, g5, g6⟩ := finish_fields (coreT A BC (xa1 ++ xa3) (axesBC B.ndim C.ndim xb1 xb2 xc2 xc3)) (out, s2)
  have hsec1 : ∀ s, s ∈ (finish (coreT AB C (axesAB A.ndim B.ndim xa1 xa3 xb1 xb2) (xc3 ++ xc2)) (out, s1)).sectors
      ↔ ∃ t, IsTriple A B C xa1 xa3 xb1 xb2 xc2 xc3 s t := by
    intro s
    rw [f5, F1.sectors]
    exact keysL_iff I1 T s
  have hsec2 : ∀ s, s ∈ (finish (coreT A BC (xa1 ++ xa3) (axesBC B.ndim C.ndim xb1 xb2 xc2 xc3)) (out, s2)).sectors
      ↔ ∃ t, IsTriple A B C xa1 xa3 xb1 xb2 xc2 xc3 s t := by
    intro s
    rw [g5, F2.sectors]
    exact keysR_iff I2 T s
  refine ⟨AB, BC, _, _, call1, call2, call3, call4, by rw [f6, g6], ?_, ?_, ?_, hsec1,
    fun s => (hsec2 s).trans (hsec1 s).symm, ?_, ?_, ?_⟩
  · rw [g1, f1, F1.charge, F2.charge, I1.sym, I1.charge, I2.charge, ← hAB.sym]
    exact (C17.combine_assoc A.sym A.charge B.charge C.charge ((ValidP.validB_iff A).mp hA).chg
      (by rw [hAB.sym, hBC.sym]; exact ((ValidP.validB_iff C).mp hC).chg)).symm
  · rw [g2, f2, F1.sym, F2.sym, I1.sym]
  · rw [g3, f3, F1.fermi, F2.fermi, I1.fermi, hfA]
  · rw [g4, f4, idxL I1 T _ F1, idxR I2 T _ F2, ← f5, ← g5]
    exact dropUnused_congr_mem _ (fun s => (hsec2 s).trans (hsec1 s).symm)
  · rw [f4, idxL I1 T _ F1, ← f5]
  · intro LA LM LC oA oM oC fa
    by_cases hex : ∃ t, IsTriple A B C xa1 xa3 xb1 xb2 xc2 xc3 (LA ++ LM ++ LC) t
    · obtain ⟨t, ht⟩ := hex
      rw [finish_elem _ _ (coreFrame_signOk F1), finish_elem _ _ (coreFrame_signOk F2),
        F1.elem _ (oA ++ oM) oC (by
          rw [I1.ndim, freeAB_len T.mA T.mB, List.length_append, fa.loA, fa.loM])
          (boxL I1 T fa ht),
        route_left I1 T fa]
      rw [List.append_assoc oA oM oC, F2.elem _ oA (oM ++ oC) fa.loA (boxR I2 T fa ht),
        route_right I2 T fa]
      simp only []
      rw [sgnI_comp q2 q1, sgnI_comp q4 q3]
      have hperm : (triplesR A B C BC xa1 xa3 xb1 xb2 xc2 xc3 (LA ++ LM ++ LC)).Perm
          (triplesL A B C AB xa1 xa3 xb1 xb2 xc2 xc3 (LA ++ LM ++ LC)) := by
        rw [List.perm_ext_iff_of_nodup
          (triplesR_nodup (allDistinct_iff_nodup.mp (Arr.allDistinct_of_validB I2.valid))
            (allDistinct_iff_nodup.mp (Arr.allDistinct_of_validB hA))
            (allDistinct_iff_nodup.mp (Arr.allDistinct_of_validB hB))
            (allDistinct_iff_nodup.mp (Arr.allDistinct_of_validB hC)) _)
          (triplesL_nodup (allDistinct_iff_nodup.mp (Arr.allDistinct_of_validB I1.valid))
            (allDistinct_iff_nodup.mp (Arr.allDistinct_of_validB hA))
            (allDistinct_iff_nodup.mp (Arr.allDistinct_of_validB hB))
            (allDistinct_iff_nodup.mp (Arr.allDistinct_of_validB hC)) _)]
        intro t'
        exact (mem_triplesR I2 T).trans (mem_triplesL I1 T).symm
      rw [(hperm.map _).sum_eq]
      congr 1
      rw [Int.mul_comm, ← hs, Int.mul_comm]
    · rw [Arr.elem_of_not_mem (fun hm => hex ((hsec1 _).mp hm)),
        Arr.elem_of_not_mem (fun hm => hex ((hsec2 _).mp hm))]

end final

/-! ### the value clause, sector by sector in the result's own (pruned) frame -/

section atsector
variable [Zero R] [Neg R]

theorem elem_eq_of_sector (A B C c1 c2 : Arr R) (xa1 xa3 xb1 xb2 xc2 xc3 : List Nat)
    (hsa : A.shapesOk) (hsb : B.shapesOk) (hsc : C.shapesOk)
    (hidx : c1.indices = dropUnused (permuted A.indices (freeAxes A.ndim (xa1 ++ xa3)) ++ (permuted B.indices (freeAxes B.ndim (xb1 ++ xb2)) ++ permuted C.indices (freeAxes C.ndim (xc2 ++ xc3)))) c1.sectors)
    (hsec1 : ∀ s, s ∈ c1.sectors ↔ ∃ t, IsTriple A B C xa1 xa3 xb1 xb2 xc2 xc3 s t)
    (hsec2 : ∀ s, s ∈ c2.sectors ↔ s ∈ c1.sectors)
    (helem : ∀ (LA LM LC : Sector) (oA oM oC : List Nat),
      FreeAddr A B C xa1 xa3 xb1 xb2 xc2 xc3 LA LM LC oA oM oC →
      c2.elem (LA ++ LM ++ LC) (oA ++ oM ++ oC) = c1.elem (LA ++ LM ++ LC) (oA ++ oM ++ oC))
    (s : Sector) (o : List Nat)
    (ho : s ∈ c1.sectors → inBox (Arr.blockShapeD c1.indices s) o = true) :
    c2.elem s o = c1.elem s o := by
  by_cases hs : s ∈ c1.sectors
  · have hbox := ho hs
    obtain ⟨⟨sa, sb, sc⟩, hA, hB, hC, _, _, _, h3⟩ := (hsec1 s).mp hs
    simp only at hA hB hC h3
    obtain ⟨shpA, hA1, hA2, hA3, hA4⟩ := shape_of_mem hsa hA
    obtain ⟨shpB, hB1, hB2, hB3, hB4⟩ := shape_of_mem hsb hB
    obtain ⟨shpC, hC1, hC2, hC3, hC4⟩ := shape_of_mem hsc hC
    have qA := blockShape?_permuted hA1 (freeAxes A.ndim (xa1 ++ xa3)) (fun x hx => (mem_freeAxes.mp hx).1)
    have qB := blockShape?_permuted hB1 (freeAxes B.ndim (xb1 ++ xb2)) (fun x hx => (mem_freeAxes.mp hx).1)
    have qC := blockShape?_permuted hC1 (freeAxes C.ndim (xc2 ++ xc3)) (fun x hx => (mem_freeAxes.mp hx).1)
    rw [hidx, Arr.blockShapeD, ValidP.dropUnused_blockShape _ _ _ hs, ← h3, List.append_assoc,
      blockShape?_append qA (blockShape?_append qB qC)] at hbox
    obtain ⟨oA, oM, oC, rfl, l1, l2, l3, b1, b2, b3⟩ := inBox_split3 hbox
    have pl : ∀ {z : List Nat} {n : Nat} (hz : z.length = n) (F : List Nat),
        (∀ x ∈ F, x < n) → (permuted z F).length = F.length := by
      intro z n hz F hF
      exact permuted_length _ _ (by rw [hz]; exact hF)
    have plS : ∀ {z : Sector} {n : Nat} (hz : z.length = n) (F : List Nat),
        (∀ x ∈ F, x < n) → (permuted z F).length = F.length := by
      intro z n hz F hF
      exact permuted_length _ _ (by rw [hz]; exact hF)
    rw [← h3]
    apply helem
    refine ⟨plS hA4 _ (fun x hx => (mem_freeAxes.mp hx).1), plS hB4 _ (fun x hx => (mem_freeAxes.mp hx).1),
      by rw [l1, pl hA3 _ (fun x hx => (mem_freeAxes.mp hx).1)],
      by rw [l2, pl hB3 _ (fun x hx => (mem_freeAxes.mp hx).1)],
      by rw [l3, pl hC3 _ (fun x hx => (mem_freeAxes.mp hx).1)], ?_, ?_, ?_⟩
    · rw [Arr.blockShapeD, qA]; exact b1
    · rw [Arr.blockShapeD, qB]; exact b2
    · rw [Arr.blockShapeD, qC]; exact b3
  · rw [Arr.elem_of_not_mem hs, Arr.elem_of_not_mem (fun h => hs ((hsec2 s).mp h))]

end atsector

end Assoc2P
end SymmModel
