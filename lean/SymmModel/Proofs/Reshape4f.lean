/-
  SymmModel.Proofs.Reshape4f — element-exact forward statement of the fermionic `reshape` when the
  plan merges one run of adjacent axes: every stored element of the result is the element of the
  input at the address obtained by splitting the fused axis (`splitAddr`, the row-major address
  inside the sub-sector found in the fused index's own tables), times the sign of the fuse rule;
  the transposition is the identity, so only the flip / reversal sign of a dual group remains.
-/
import SymmModel.Proofs.Reshape4e

namespace SymmModel
namespace Reshape4
open C07 ReshapeP FuseP SymmModel.Lazy

variable {R : Type}

theorem forward_elem_fermionic_single [Zero R] [Neg R] [LawfulNeg R] (a : Arr R) (p n : Nat)
    (hv : a.validB = true) (hf : a.fermi = true) (hn : 2 ≤ n) (hle : p + n ≤ a.ndim) :
    ∃ y, applyPlan a ([], [[List.range' p n]], []) = .ok y ∧
      ∀ ns B, alookup y.blocks ns = some B → ∀ i, inBox B.shape i = true →
        ∃ ss so, splitAddr (y.indices.getD p default) (ns.getD p (0, 0)) (i.getD p 0) = some (ss, so)
          ∧ ∀ s offs, s.length = a.ndim → offs.length = a.ndim →
              s = ns.take p ++ ss ++ ns.drop (p + 1) → offs = i.take p ++ so ++ i.drop (p + 1) →
              y.elem ns i = sgnI (fuseSignT a [List.range' p n] s) (a.elem s offs) := by
  have hgok := groupsOk_single p n a.ndim (by omega) hle
  have hdl := FuseP.duals_length a
  obtain ⟨hb, _, hperm⟩ := ValidP.groupInfo_consecutive (groups := [List.range' p n]) (duals := a.duals)
    (p := p) (n := n) (by simp) (by omega) (by rw [hdl]; exact hle)
  rw [hdl] at hperm
  have hpos : (calcFuseGroupInfo [List.range' p n] a.duals).position = p := by
    obtain ⟨_, _, _, _, _, hb', _⟩ := C05.calcFuseGroupInfo_perm [List.range' p n] a.duals
      (by rw [hdl]; exact hgok)
    have := congrArg List.length (hb'.symm.trans hb)
    simpa using this
  obtain ⟨y, hy, hel⟩ := C05.fuseF_elem a [List.range' p n] true hv hf hgok
  rw [hpos, hperm] at hel
  refine ⟨y, ?_, ?_⟩
  · simp only [applyPlan, List.foldlM_cons, List.foldlM_nil, bind, Except.bind, pure, Except.pure,
      fuseDispatch, hf, if_true]
    rw [hy]
  · intro ns B hB i hi
    obtain ⟨segs, hsl, hseg, hval⟩ := hel ns B hB i hi
    obtain ⟨sg, rfl⟩ : ∃ sg, segs = [sg] := by
      cases segs with
      | nil => simp at hsl
      | cons x r =>
        cases r with
        | nil => exact ⟨x, rfl⟩
        | cons _ _ => simp at hsl
    have h0 := (hseg 0 (List.range' p n) rfl).2 (by simp; omega)
    simp only [Nat.add_zero, List.getElem?_cons_zero] at h0
    refine ⟨sg.1, sg.2, h0, ?_⟩
    intro s offs hs ho hse hoe
    have e1 : permuted s (List.range a.ndim) = s := by rw [← hs]; exact Lazy.permuted_range s
    have e2 : permuted offs (List.range a.ndim) = offs := by rw [← ho]; exact Lazy.permuted_range offs
    have := hval s offs hs ho (by rw [e1, hse]; simp) (by rw [e2, hoe]; simp)
    rw [this]
    congr 1
    unfold fuseSignF
    rw [hperm, e1, KoszulP.koszul_id', Int.mul_one]

end Reshape4
end SymmModel
