/-
  SymmModel.Proofs.C07T5_4 — kernel-checked planner table, shapes with 5 axes whose first
  axis has size 4 (one chunk per size of the second axis; ~1 800 shape/target pairs each,
  every pair forward and back).  `decide +kernel` only.
-/
import SymmModel.Model.ReshapePlan
namespace SymmModel.C07

theorem table_5_4_1 : chunkOk [4, 1] 3 = true := by decide +kernel
theorem table_5_4_2 : chunkOk [4, 2] 3 = true := by decide +kernel
theorem table_5_4_3 : chunkOk [4, 3] 3 = true := by decide +kernel
theorem table_5_4_4 : chunkOk [4, 4] 3 = true := by decide +kernel
theorem table_5_4_6 : chunkOk [4, 6] 3 = true := by decide +kernel

end SymmModel.C07
