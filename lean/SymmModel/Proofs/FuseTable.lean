/-
  SymmModel.Proofs.FuseTable — layer L2 for property C05: prefix-sum addressing inside one extent
  (`splitOffset`/`joinOffset`, after notes/lean_probes.md §3), its link to the model's
  `offsets`/`extentStart?`, and the characterisation of `accumExtents`.  Core Lean only.
-/
import SymmModel.Proofs.FuseAssoc
namespace SymmModel
namespace FuseP
set_option linter.unusedSectionVars false

/-! ### prefix-sum addressing in an extent -/

/-- offset inside a fused charge ↦ (sub-sector whose cumulative range contains it, offset inside) -/
def splitOffset : Extent → Nat → Option (Sector × Nat)
  | [], _ => none
  | (k, d) :: rest, p => if p < d then some (k, p) else splitOffset rest (p - d)

/-- `(start, size)` of a sub-sector's range inside an extent -/
def startOf : Extent → Sector → Option (Nat × Nat)
  | [], _ => none
  | (k, d) :: rest, ss =>
    if k == ss then some (0, d) else (startOf rest ss).map (fun q => (q.1 + d, q.2))

/-- (sub-sector, offset inside it) ↦ offset inside the fused charge -/
def joinOffset (ext : Extent) (ss : Sector) (r : Nat) : Option Nat :=
  match startOf ext ss with
  | some (st, d) => if r < d then some (st + r) else none
  | none => none

theorem startOf_mem {ext : Extent} {ss : Sector} {st d : Nat} (h : startOf ext ss = some (st, d)) :
    (ss, d) ∈ ext := by
  induction ext generalizing st with
  | nil => simp [startOf] at h
  | cons p rest ih =>
    obtain ⟨k, d0⟩ := p
    simp only [startOf] at h
    split at h
    · rename_i hk; have := eq_of_beq hk; subst this
      simp only [Option.some.injEq, Prod.mk.injEq] at h; simp [h.2]
    · cases hq : startOf rest ss with
      | none => simp [hq] at h
      | some q =>
        obtain ⟨q1, q2⟩ := q
        simp only [hq, Option.map_some, Option.some.injEq, Prod.mk.injEq] at h
        rw [h.2] at hq
        exact List.mem_cons_of_mem _ (ih hq)

theorem startOf_isSome_of_mem {ext : Extent} {ss : Sector} (h : ss ∈ ext.map (·.1)) :
    ∃ st d, startOf ext ss = some (st, d) := by
  induction ext with
  | nil => simp at h
  | cons p rest ih =>
    obtain ⟨k, d0⟩ := p
    simp only [startOf]
    by_cases hk : k == ss
    · simp [hk]
    · have hne : k ≠ ss := fun e => hk (by rw [e]; exact BEq.rfl)
      simp only [List.map_cons, List.mem_cons] at h
      rcases h with h | h
      · exact absurd h.symm hne
      · obtain ⟨st, d, hs⟩ := ih h
        exact ⟨st + d0, d, by simp [hk, hs]⟩

theorem startOf_of_mem_nodup {ext : Extent} (hnd : (ext.map (·.1)).Nodup) {ss : Sector} {d : Nat}
    (h : (ss, d) ∈ ext) : ∃ st, startOf ext ss = some (st, d) := by
  obtain ⟨st, d', hs⟩ := startOf_isSome_of_mem (List.mem_map.2 ⟨(ss, d), h, rfl⟩)
  have h1 := alookup_of_mem_nodup hnd h
  have h2 := alookup_of_mem_nodup hnd (startOf_mem hs)
  rw [h1] at h2; simp only [Option.some.injEq] at h2; subst h2
  exact ⟨st, hs⟩

theorem startOf_bound {ext : Extent} {ss : Sector} {st d : Nat} (h : startOf ext ss = some (st, d)) :
    st + d ≤ sumN (ext.map (·.2)) := by
  induction ext generalizing st with
  | nil => simp [startOf] at h
  | cons p rest ih =>
    obtain ⟨k, d0⟩ := p
    simp only [startOf] at h
    simp only [List.map_cons, sumN]
    split at h
    · simp only [Option.some.injEq, Prod.mk.injEq] at h; omega
    · cases hq : startOf rest ss with
      | none => simp [hq] at h
      | some q =>
        obtain ⟨q1, q2⟩ := q
        simp only [hq, Option.map_some, Option.some.injEq, Prod.mk.injEq] at h
        rw [h.2] at hq
        have := ih hq
        omega

/-- two different sub-sectors of one extent occupy disjoint ranges -/
theorem startOf_disjoint {ext : Extent} {s1 s2 : Sector} {st1 d1 st2 d2 : Nat}
    (h1 : startOf ext s1 = some (st1, d1)) (h2 : startOf ext s2 = some (st2, d2)) (hne : s1 ≠ s2) :
    st1 + d1 ≤ st2 ∨ st2 + d2 ≤ st1 := by
  induction ext generalizing st1 st2 with
  | nil => simp [startOf] at h1
  | cons p rest ih =>
    obtain ⟨k, d0⟩ := p
    simp only [startOf] at h1 h2
    by_cases hk1 : k == s1
    · have e1 := eq_of_beq hk1
      have hk2 : (k == s2) = false := by
        cases hk : k == s2
        · rfl
        · exact absurd ((e1.symm.trans (eq_of_beq hk))) hne
      simp only [hk1, if_true, Option.some.injEq, Prod.mk.injEq] at h1
      simp only [hk2, Bool.false_eq_true, if_false] at h2
      cases hq : startOf rest s2 with
      | none => simp [hq] at h2
      | some q =>
        simp only [hq, Option.map_some, Option.some.injEq, Prod.mk.injEq] at h2
        omega
    · simp only [hk1, Bool.false_eq_true, if_false] at h1
      cases hq1 : startOf rest s1 with
      | none => simp [hq1] at h1
      | some q1 =>
        simp only [hq1, Option.map_some, Option.some.injEq, Prod.mk.injEq] at h1
        by_cases hk2 : k == s2
        · simp only [hk2, if_true, Option.some.injEq, Prod.mk.injEq] at h2
          omega
        · simp only [hk2, Bool.false_eq_true, if_false] at h2
          cases hq2 : startOf rest s2 with
          | none => simp [hq2] at h2
          | some q2 =>
            simp only [hq2, Option.map_some, Option.some.injEq, Prod.mk.injEq] at h2
            have := ih (st1 := q1.1) (st2 := q2.1) (by rw [hq1, ← h1.2]) (by rw [hq2, ← h2.2])
            omega

theorem splitOffset_some {ext : Extent} {o : Nat} (h : o < sumN (ext.map (·.2))) :
    ∃ ss r, splitOffset ext o = some (ss, r) := by
  induction ext generalizing o with
  | nil => simp [sumN] at h
  | cons p rest ih =>
    obtain ⟨k, d⟩ := p
    simp only [splitOffset]
    split
    · exact ⟨k, o, rfl⟩
    · apply ih; simp only [List.map_cons, sumN] at h; omega

theorem splitOffset_mem {ext : Extent} {o : Nat} {ss : Sector} {r : Nat}
    (h : splitOffset ext o = some (ss, r)) : ss ∈ ext.map (·.1) := by
  induction ext generalizing o with
  | nil => simp [splitOffset] at h
  | cons p rest ih =>
    obtain ⟨k, d⟩ := p
    simp only [splitOffset] at h
    split at h
    · simp only [Option.some.injEq, Prod.mk.injEq] at h; simp [h.1]
    · simp [ih h]

/-- `splitOffset` finds exactly the range `[start, start + size)` containing the offset -/
theorem splitOffset_startOf {ext : Extent} (hnd : (ext.map (·.1)).Nodup) {o : Nat} {ss : Sector}
    {r : Nat} (h : splitOffset ext o = some (ss, r)) :
    ∃ st d, startOf ext ss = some (st, d) ∧ r < d ∧ o = st + r := by
  induction ext generalizing o with
  | nil => simp [splitOffset] at h
  | cons p rest ih =>
    obtain ⟨k, d0⟩ := p
    simp only [List.map_cons, List.nodup_cons] at hnd
    simp only [splitOffset] at h
    split at h
    · rename_i hp
      simp only [Option.some.injEq, Prod.mk.injEq] at h
      obtain ⟨rfl, rfl⟩ := h
      exact ⟨0, d0, by simp [startOf], hp, by simp⟩
    · rename_i hp
      have hk : k ≠ ss := by
        rintro rfl; exact hnd.1 (splitOffset_mem h)
      have hk' : (k == ss) = false := by
        cases hb : k == ss
        · rfl
        · exact absurd (eq_of_beq hb) hk
      obtain ⟨st, d, hs, hr, ho⟩ := ih hnd.2 h
      exact ⟨st + d0, d, by simp [startOf, hk', hs], hr, by omega⟩

theorem startOf_splitOffset {ext : Extent} {ss : Sector} {st d r : Nat}
    (h : startOf ext ss = some (st, d)) (hr : r < d) : splitOffset ext (st + r) = some (ss, r) := by
  induction ext generalizing st with
  | nil => simp [startOf] at h
  | cons p rest ih =>
    obtain ⟨k, d0⟩ := p
    simp only [startOf] at h
    split at h
    · rename_i hk; have := eq_of_beq hk; subst this
      simp only [Option.some.injEq, Prod.mk.injEq] at h
      obtain ⟨rfl, rfl⟩ := h
      simp [splitOffset, hr]
    · cases hq : startOf rest ss with
      | none => simp [hq] at h
      | some q =>
        obtain ⟨q1, q2⟩ := q
        simp only [hq, Option.map_some, Option.some.injEq, Prod.mk.injEq] at h
        obtain ⟨rfl, rfl⟩ := h
        have : ¬ (q1 + d0 + r < d0) := by omega
        simp only [splitOffset, this, if_false]
        have e : q1 + d0 + r - d0 = q1 + r := by omega
        rw [e]; exact ih hq

/-- the two address maps of one extent are mutually inverse (extent with distinct sub-sectors) -/
theorem joinOffset_splitOffset {ext : Extent} (hnd : (ext.map (·.1)).Nodup) {o : Nat} {ss : Sector}
    {r : Nat} (h : splitOffset ext o = some (ss, r)) : joinOffset ext ss r = some o := by
  obtain ⟨st, d, hs, hr, ho⟩ := splitOffset_startOf hnd h
  simp [joinOffset, hs, hr, ho]

theorem splitOffset_joinOffset {ext : Extent} {o : Nat} {ss : Sector} {r : Nat}
    (h : joinOffset ext ss r = some o) : splitOffset ext o = some (ss, r) := by
  simp only [joinOffset] at h
  split at h
  · rename_i st d hs
    split at h
    · rename_i hr
      simp only [Option.some.injEq] at h; subst h
      exact startOf_splitOffset hs hr
    · cases h
  · cases h

/-! ### link to `offsets` / `indexOf?` / `extentStart?` -/

theorem offsets_length (ds : List Nat) : (offsets ds).length = ds.length := by
  induction ds with
  | nil => rfl
  | cons d ds ih => simp [offsets, ih]

theorem indexOf?_lt {α : Type} [BEq α] {l : List α} {a : α} {j : Nat} (h : indexOf? l a = some j) :
    j < l.length := by
  induction l generalizing j with
  | nil => simp [indexOf?] at h
  | cons x xs ih =>
    simp only [indexOf?] at h
    split at h
    · simp only [Option.some.injEq] at h; subst h; simp
    · cases hq : indexOf? xs a with
      | none => simp [hq] at h
      | some j' =>
        simp only [hq, Option.map_some, Option.some.injEq] at h
        subst h
        have := ih hq
        simp; omega

theorem startOf_eq_indexOf (ext : Extent) (ss : Sector) :
    startOf ext ss = (indexOf? (ext.map (·.1)) ss).map
      (fun k => ((offsets (ext.map (·.2))).getD k 0, (ext.map (·.2)).getD k 0)) := by
  induction ext with
  | nil => rfl
  | cons p rest ih =>
    obtain ⟨k, d0⟩ := p
    simp only [startOf, List.map_cons, indexOf?, offsets]
    split
    · simp
    · rw [ih]
      cases hq : indexOf? (rest.map (·.1)) ss with
      | none => rfl
      | some j =>
        simp only [Option.map_some, List.getD_cons_succ, Option.some.injEq, Prod.mk.injEq, and_true]
        simp only [List.getD_eq_getElem?_getD, List.getElem?_map]
        cases hnone : (offsets (List.map (fun x => x.2) rest))[j]? with
        | some x => rfl
        | none =>
          -- out of range cannot happen, but the defaults differ (`0 + d0` vs `0`): rule it out
          exfalso
          have hlt : j < rest.length := by
            simpa using indexOf?_lt hq
          rw [List.getElem?_eq_none_iff, offsets_length, List.length_map] at hnone
          omega

theorem extentStart?_eq {ix : Index} {subs : List Index} {exts : Extents} {c : Charge} {ext : Extent}
    (h1 : ix.sub = some (subs, exts)) (h2 : alookup exts c = some ext) (ss : Sector) :
    extentStart? ix c ss = startOf ext ss := by
  simp only [extentStart?, h1, h2, startOf_eq_indexOf]
  cases indexOf? (ext.map (·.1)) ss <;> rfl

/-- the `(entry, start)` pairs that `unfuse` iterates over are exactly the ranges of `startOf` -/
theorem mem_zip_offsets {ext : Extent} (hnd : (ext.map (·.1)).Nodup) {ss : Sector} {d st : Nat} :
    ((ss, d), st) ∈ ext.zip (offsets (ext.map (·.2))) ↔ startOf ext ss = some (st, d) := by
  induction ext generalizing st with
  | nil => simp [startOf]
  | cons p rest ih =>
    obtain ⟨k, d0⟩ := p
    simp only [List.map_cons, List.nodup_cons] at hnd
    simp only [List.map_cons, offsets, List.zip_cons_cons, List.mem_cons, Prod.mk.injEq, startOf]
    rw [List.zip_map_right]
    simp only [List.mem_map, Prod.map, id, Prod.mk.injEq, Prod.exists]
    constructor
    · rintro (⟨⟨rfl, rfl⟩, rfl⟩ | ⟨a, b, c, hm, ⟨rfl, rfl⟩, rfl⟩)
      · simp
      · have hk : (k == a) = false := by
          cases hb : k == a
          · rfl
          · have := eq_of_beq hb; subst this
            exact absurd (List.mem_map.2 ⟨(k, b), (List.of_mem_zip hm).1, rfl⟩) hnd.1
        simp [hk, (ih hnd.2).1 hm]
    · intro h
      split at h
      · rename_i hk; have := eq_of_beq hk; subst this
        simp only [Option.some.injEq, Prod.mk.injEq] at h
        exact Or.inl ⟨⟨rfl, h.2.symm⟩, h.1.symm⟩
      · cases hq : startOf rest ss with
        | none => simp [hq] at h
        | some q =>
          obtain ⟨q1, q2⟩ := q
          simp only [hq, Option.map_some, Option.some.injEq, Prod.mk.injEq] at h
          obtain ⟨rfl, rfl⟩ := h
          exact Or.inr ⟨ss, q2, q1, (ih hnd.2).2 hq, ⟨rfl, rfl⟩, rfl⟩

/-! ### `accumExtents` -/

/-- one step of the accumulation loop -/
def accStep (acc : List (Charge × Nat) × Extents) (x : Sector × Charge × Nat) :
    List (Charge × Nat) × Extents :=
  match alookup acc.1 x.2.1 with
  | none => (acc.1 ++ [(x.2.1, x.2.2)], acc.2 ++ [(x.2.1, [(x.1, x.2.2)])])
  | some d0 => (ainsert acc.1 x.2.1 (d0 + x.2.2),
                acc.2.map (fun (c', e) => if c' == x.2.1 then (c', ainsert e x.1 x.2.2) else (c', e)))

theorem accumExtents_eq_foldl (l : List (Sector × Charge × Nat)) :
    accumExtents l = l.foldl accStep ([], []) := by
  cases l with
  | nil => rfl
  | cons x rest =>
    obtain ⟨ss, c, d⟩ := x
    simp only [accumExtents, List.foldl_cons]
    rfl

/-- the entries of `l` carrying fused charge `c`, in order, as an extent -/
def sel (l : List (Sector × Charge × Nat)) (c : Charge) : Extent :=
  (l.filter (fun x => x.2.1 == c)).map (fun x => (x.1, x.2.2))

theorem sel_append (l1 l2 : List (Sector × Charge × Nat)) (c : Charge) :
    sel (l1 ++ l2) c = sel l1 c ++ sel l2 c := by simp [sel]

theorem sel_keys_sub (l : List (Sector × Charge × Nat)) (c : Charge) (ss : Sector)
    (h : ss ∈ (sel l c).map (·.1)) : ss ∈ l.map (·.1) := by
  simp only [sel, List.map_map, List.mem_map, List.mem_filter, Function.comp] at h
  obtain ⟨x, ⟨hx, _⟩, rfl⟩ := h
  exact List.mem_map.2 ⟨x, hx, rfl⟩

/-- invariant of the accumulation after the entries `done` -/
structure AccInv (done : List (Sector × Charge × Nat)) (st : List (Charge × Nat) × Extents) : Prop where
  keys : st.1.map (·.1) = st.2.map (·.1)
  nodup : (st.2.map (·.1)).Nodup
  ext : ∀ c, alookup st.2 c = if sel done c = [] then none else some (sel done c)
  cm : ∀ c, alookup st.1 c = (alookup st.2 c).map (fun e => sumN (e.map (·.2)))

theorem alookup_map_if (exts : Extents) (c : Charge) (f : Extent → Extent) (c' : Charge) :
    alookup (exts.map (fun (p : Charge × Extent) => if p.1 == c then (p.1, f p.2) else (p.1, p.2))) c'
      = if c' == c then (alookup exts c').map f else alookup exts c' := by
  induction exts with
  | nil => simp [alookup]
  | cons p rest ih =>
    obtain ⟨a, e⟩ := p
    simp only [List.map_cons]
    by_cases hac : a == c
    · have := eq_of_beq hac; subst this
      simp only [BEq.rfl, if_true, alookup_cons]
      by_cases hk : a == c'
      · have := eq_of_beq hk; subst this; simp
      · simp only [hk, Bool.false_eq_true, if_false]; exact ih
    · simp only [hac, Bool.false_eq_true, if_false, alookup_cons]
      by_cases hk : a == c'
      · have := eq_of_beq hk; subst this
        simp [hac]
      · simp only [hk, Bool.false_eq_true, if_false]; exact ih

theorem map_if_keys (exts : Extents) (c : Charge) (f : Extent → Extent) :
    (exts.map (fun (p : Charge × Extent) => if p.1 == c then (p.1, f p.2) else (p.1, p.2))).map (·.1)
      = exts.map (·.1) := by
  induction exts with
  | nil => rfl
  | cons p rest ih =>
    simp only [List.map_cons, ih]
    split <;> rfl

theorem accInv_step {done : List (Sector × Charge × Nat)} {st : List (Charge × Nat) × Extents}
    (hinv : AccInv done st) (x : Sector × Charge × Nat) (hx : x.1 ∉ done.map (·.1)) :
    AccInv (done ++ [x]) (accStep st x) := by
  obtain ⟨ss, c, d⟩ := x
  have hselx : ∀ c', sel [(ss, c, d)] c' = if c == c' then [(ss, d)] else [] := by
    intro c'; simp only [sel, List.filter_cons, List.filter_nil]
    split <;> simp
  simp only [accStep]
  cases hl : alookup st.1 c with
  | none =>
    have hle : alookup st.2 c = none := by
      have := hinv.cm c; rw [hl] at this
      cases h2 : alookup st.2 c with
      | none => rfl
      | some e => rw [h2] at this; simp at this
    have hsel : sel done c = [] := by
      have := hinv.ext c; rw [hle] at this
      split at this
      · assumption
      · cases this
    refine ⟨?_, ?_, ?_, ?_⟩
    · simp [hinv.keys]
    · simp only [List.map_append, List.map_cons, List.map_nil]
      rw [List.nodup_append]
      refine ⟨hinv.nodup, by simp, ?_⟩
      intro a ha b hb
      simp only [List.mem_singleton] at hb; subst hb
      rintro rfl
      exact absurd (alookup_isSome_iff.2 ha) (by simp [hle])
    · intro c'
      simp only [alookup_append, hinv.ext c', sel_append, hselx]
      by_cases hcc : c = c'
      · subst hcc; simp [hsel, alookup]
      · have : (c == c') = false := by
          cases hb : c == c'
          · rfl
          · exact absurd (eq_of_beq hb) hcc
        simp only [this, Bool.false_eq_true, if_false, List.append_nil, alookup]
        by_cases hs : sel done c' = [] <;> simp [hs]
    · intro c'
      simp only [alookup_append, hinv.cm c']
      cases alookup st.2 c' with
      | some e => rfl
      | none =>
        simp only [Option.map_none, alookup]
        split <;> simp [sumN]
  | some d0 =>
    have hle : ∃ e, alookup st.2 c = some e ∧ sumN (e.map (·.2)) = d0 := by
      have := hinv.cm c; rw [hl] at this
      cases h2 : alookup st.2 c with
      | none => rw [h2] at this; simp at this
      | some e => rw [h2] at this; simp at this; exact ⟨e, rfl, this.symm⟩
    obtain ⟨e, hle, hsum⟩ := hle
    have hsel : e = sel done c ∧ sel done c ≠ [] := by
      have := hinv.ext c; rw [hle] at this
      split at this
      · cases this
      · rename_i hne; simp only [Option.some.injEq] at this; exact ⟨this, hne⟩
    have hss : ss ∉ e.map (·.1) := by
      rw [hsel.1]; intro hm; exact hx (sel_keys_sub _ _ _ hm)
    have hne := hsel.2
    have he := hsel.1
    subst he
    have hmapeq : (st.2.map (fun (p : Charge × Extent) =>
          match p with | (c', e) => if c' == c then (c', ainsert e ss d) else (c', e)))
        = st.2.map (fun (p : Charge × Extent) =>
          if p.1 == c then (p.1, ainsert p.2 ss d) else (p.1, p.2)) := by
      apply List.map_congr_left; intro p _; obtain ⟨a, b⟩ := p; rfl
    simp only [hmapeq]
    have hmk := map_if_keys st.2 c (fun e => ainsert e ss d)
    have hml := alookup_map_if st.2 c (fun e => ainsert e ss d)
    have hkc : c ∈ st.1.map (·.1) := alookup_isSome_iff.1 (by simp [hl])
    refine ⟨?_, ?_, ?_, ?_⟩
    · rw [hmk, ainsert_keys_of_mem _ hkc]; exact hinv.keys
    · rw [hmk]; exact hinv.nodup
    · intro c'
      simp only [hml, sel_append, hselx]
      by_cases hcc : c' = c
      · subst hcc
        simp only [BEq.rfl, if_true, hle, Option.map_some, ainsert_of_not_mem _ hss]
        simp
      · have h1 : (c' == c) = false := by
          cases hb : c' == c
          · rfl
          · exact absurd (eq_of_beq hb) hcc
        have h2 : (c == c') = false := by
          cases hb : c == c'
          · rfl
          · exact absurd (eq_of_beq hb).symm hcc
        simp only [h1, h2, Bool.false_eq_true, if_false, List.append_nil]
        exact hinv.ext c'
    · intro c'
      simp only [alookup_ainsert, hml]
      by_cases hcc : c = c'
      · subst hcc
        simp only [BEq.rfl, if_true, hle, Option.map_some, ainsert_of_not_mem _ hss,
          List.map_append, sumN_append, hsum]
        simp [sumN]
      · have h1 : (c' == c) = false := by
          cases hb : c' == c
          · rfl
          · exact absurd (eq_of_beq hb).symm hcc
        have h2 : (c == c') = false := by
          cases hb : c == c'
          · rfl
          · exact absurd (eq_of_beq hb) hcc
        simp only [h1, h2, Bool.false_eq_true, if_false]
        exact hinv.cm c'

theorem accInv_foldl {done : List (Sector × Charge × Nat)} {st : List (Charge × Nat) × Extents}
    (hinv : AccInv done st) (l : List (Sector × Charge × Nat))
    (hnd : ((done ++ l).map (·.1)).Nodup) : AccInv (done ++ l) (l.foldl accStep st) := by
  induction l generalizing done st with
  | nil => simpa using hinv
  | cons x l ih =>
    have hx : x.1 ∉ done.map (·.1) := by
      intro hm
      rw [List.map_append, List.nodup_append] at hnd
      exact hnd.2.2 _ hm x.1 (by simp) rfl
    have := ih (accInv_step hinv x hx) (by simpa using hnd)
    simpa using this

/-- characterisation of `accumExtents` on entries with distinct sub-sectors -/
theorem accumExtents_inv (l : List (Sector × Charge × Nat)) (hnd : (l.map (·.1)).Nodup) :
    AccInv l (accumExtents l) := by
  rw [accumExtents_eq_foldl]
  have h0 : AccInv [] (([], []) : List (Charge × Nat) × Extents) :=
    ⟨rfl, by simp, fun c => by simp [sel, alookup], fun c => by simp [alookup]⟩
  simpa using accInv_foldl h0 l (by simpa using hnd)

end FuseP
end SymmModel
