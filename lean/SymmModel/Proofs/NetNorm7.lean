/-
  SymmModel.Proofs.NetNorm7 — network form of the norm (property C10), continuation part 7:
  THREE-TENSOR CHAINS `a – b – c` (bond 1: `xa`/`xb1`, bond 2: `xb2`/`xc`; legs of ANY direction;
  WEAK guards on both bonds): the bra network built tensor by tensor (`braOf a xa`,
  `braOf b (xb1 ++ xb2)`, `braOf c xc`: dangling bra-like legs flipped, bond legs spared), halves route
  with left-nested halves `((ā·b̄)·c̄)·((a·b)·c) = Σ|K₃|²`: `conj_tensordot_spared_w` for `(a, b)`, then
  for `(a·b, c)` — the second call satisfies the weak guard by `admW_left_chain_w`.
-/
import SymmModel.Proofs.NetNorm6
namespace SymmModel.NormNet
open SymmModel SymmModel.Lazy SymmModel.Norm SymmModel.TdotP SymmModel.GradedP SymmModel.RoutesP
open SymmModel.AssocP
set_option linter.unusedSectionVars false

theorem axesAB_nil (nA nB : Nat) (xa xb : List Nat) : AssocP.axesAB nA nB xa xb [] = [] := rfl

section chain
variable {R : Type} [AddMonoid R] [Mul R] [Neg R] [Conj R] [NetLaws R]

/-- the conclusion of `network_norm_chain3`: `K2 = a·b`, `Kb2 = ā·b̄`, `K3 = K2·c`, `Kb3 = Kb2·c̄` -/
def Chain3 (a b c : Arr R) (xa xb1 xb2 xc : List Nat) : Prop :=
  ∃ K2 Kb2 K3 Kb3,
    a.tensordotF b (.pair (xa.map Int.ofNat) (xb1.map Int.ofNat)) .blockwise = .ok K2
    ∧ (braOf a xa).tensordotF (braOf b (xb1 ++ xb2))
        (.pair (xa.map Int.ofNat) (xb1.map Int.ofNat)) .blockwise = .ok Kb2
    ∧ K2.tensordotF c (.pair ((AssocP.axesAB a.ndim b.ndim xa xb1 xb2).map Int.ofNat)
        (xc.map Int.ofNat)) .blockwise = .ok K3
    ∧ Kb2.tensordotF (braOf c xc) (.pair ((AssocP.axesAB a.ndim b.ndim xa xb1 xb2).map Int.ofNat)
        (xc.map Int.ofNat)) .blockwise = .ok Kb3
    ∧ ObsEq Kb2 (braOf K2 (AssocP.axesAB a.ndim b.ndim xa xb1 xb2))
    ∧ ObsEq Kb3 (K3.conjF true true)
    ∧ Kb3.ndim = K3.ndim
    ∧ K3.oddpos.Perm ((a.oddpos ++ b.oddpos) ++ c.oddpos)
    ∧ K3.validB = true ∧ K3.fermi = true ∧ Kb3.validB = true ∧ Kb3.fermi = true
    ∧ (∃ r, Kb3.tensordotF K3 (allAxes K3.ndim) .blockwise = .ok r
        ∧ r.ndim = 0 ∧ r.oddpos = [] ∧ r.elem [] [] = normSq K3)
    ∧ (∃ r, K3.tensordotF Kb3 (allAxes K3.ndim) .blockwise = .ok r
        ∧ r.ndim = 0 ∧ r.oddpos = [] ∧ r.elem [] [] = normSq' K3)

/-- **three-tensor chain, halves route** (weak guards on the two bonds of the INPUT tensors) -/
theorem network_norm_chain3 (a b c : Arr R) (xa xb1 xb2 xc : List Nat)
    (ha : a.validB = true) (hb : b.validB = true) (hc : c.validB = true)
    (hfa : a.fermi = true) (hfb : b.fermi = true) (hfc : c.fermi = true)
    (hadm1 : tdotAdmissibleCommonB a b xa xb1 = true)
    (hadm2 : tdotAdmissibleCommonB b c xb2 xc = true)
    (hnd : (xb1 ++ xb2).Nodup)
    (hoA : KetLabels a.oddpos) (hoB : KetLabels b.oddpos) (hoC : KetLabels c.oddpos)
    (hd : ((a.oddpos ++ b.oddpos) ++ c.oddpos).Pairwise (fun x y => x.1 ≠ y.1)) :
    Chain3 a b c xa xb1 xb2 xc := by
  have W1 := AdmW.of ha hb hfa hfb hadm1
  have Wbc := AdmW.of hb hc hfb hfc hadm2
  have hM : Mid b.ndim xb1 xb2 := Mid.of hnd (by
    intro i hi
    rcases List.mem_append.mp hi with h | h
    · exact W1.ltB i h
    · exact Wbc.ltA i h)
  have hd1 : (a.oddpos ++ b.oddpos).Pairwise (fun x y => x.1 ≠ y.1) :=
    (List.pairwise_append.mp hd).1
  obtain ⟨K, Kb2, eK, eKb2, hobs1, hKv, hKf, hKbv, hKbf, hk, hs, hdl, I, hperm⟩ :=
    conj_tensordot_spared_w a b xa xb1 xb2 W1 hM hoA hoB hd1
  have hd2 : (K.oddpos ++ c.oddpos).Pairwise (fun x y => x.1 ≠ y.1) :=
    OddposP.LabelsDistinct.perm (l := (a.oddpos ++ b.oddpos) ++ c.oddpos) hd
      (List.Perm.append_right _ hperm).symm
  -- the second call under the weak guard
  have W2 : AdmW K c (AssocP.axesAB a.ndim b.ndim xa xb1 xb2) xc := admW_left_chain_w I W1 Wbc hM
  have hMc : Mid c.ndim xc [] :=
    ⟨W2.nB, List.nodup_nil, (fun _ _ h => nomatch h), W2.ltB, (fun _ h => nomatch h)⟩
  obtain ⟨K3, Kb3', eK3, eKb3', hobs2, hK3v, hK3f, hKb3v, hKb3f, hk3, hs3, hdl3, _, hperm3⟩ :=
    conj_tensordot_spared_w K c _ xc [] W2 hMc ⟨hk, hs⟩ hoC hd2
  rw [List.append_nil] at eKb3'
  rw [axesAB_nil] at hobs2
  have hobs2' : ObsEq Kb3' (K3.conjF true true) :=
    hobs2.trans (conjF_obs_braOf K3 [] (SignOk.of_valid hK3v hK3f)
      (fun _ h => nomatch h)).symm
  have hnd2 : Kb2.ndim = K.ndim := by
    unfold Arr.ndim; rw [hobs1.indices]; exact braOf_ndim K _
  have hB2 := braOf_admW' W2 (AssocP.axesAB a.ndim b.ndim xa xb1 xb2) xc
  have econg : Kb2.tensordotF (braOf c xc)
        (.pair ((AssocP.axesAB a.ndim b.ndim xa xb1 xb2).map Int.ofNat) (xc.map Int.ofNat)) .blockwise
      = (braOf K (AssocP.axesAB a.ndim b.ndim xa xb1 xb2)).tensordotF (braOf c xc)
        (.pair ((AssocP.axesAB a.ndim b.ndim xa xb1 xb2).map Int.ofNat) (xc.map Int.ofNat))
        .blockwise :=
    tensordotF_congr hobs1 (ObsEq.refl _) (Full.of_valid hKbv hKbf) (Full.of_valid hB2.va hB2.fa)
      (Full.of_valid hB2.vb hB2.fb) (Full.of_valid hB2.vb hB2.fb) _ _
      (by rw [hnd2, braOf_ndim]
          exact congr_guard _ _ _ _ W2.len W2.nA W2.nB W2.ltA W2.ltB)
  obtain ⟨r, r', hnd3, e1, n1, o1, v1, e2, n2, o2, v2⟩ :=
    norm_of_obs hK3v hK3f hKb3v hKb3f hobs2' hk3 hs3 hdl3
  exact ⟨K, Kb2, K3, Kb3', eK, eKb2, eK3, econg.trans eKb3', hobs1, hobs2', hnd3,
    hperm3.trans (List.Perm.append_right _ hperm), hK3v, hK3f, hKb3v, hKb3f, ⟨r, e1, n1, o1, v1⟩,
    ⟨r', e2, n2, o2, v2⟩⟩

end chain

end SymmModel.NormNet
