/-
  SymmModel.Proofs.NormNet22 — network form of the norm (property C10), part 22:
  a half contracted in the OTHER operand order against the opposite half: the full contraction
  with the crossed leg pairs gives the same scalar (`swap_eqv`, congruence `Assoc3P.tdotF_congr`,
  S6 `RoutesP.tdotF_pretranspose`).
-/
import SymmModel.Proofs.NormNet21
namespace SymmModel.NormNet
open SymmModel SymmModel.Lazy SymmModel.Norm SymmModel.TdotP SymmModel.GradedP SymmModel.RoutesP
open SymmModel.AssocP SymmModel.Assoc3P
set_option linter.unusedSectionVars false

theorem swapsLoop_nil (q moved : List Nat) : swapsLoop [] q moved = 0 := by
  induction q generalizing moved with
  | nil => rfl
  | cons ax rest ih => simp [swapsLoop, isOdd, ih]

theorem koszul_nil (q : List Nat) : koszul [] (some q) = 1 := by
  show (if (swapsLoop [] q [] % 2 == 1) = true then (-1 : Int) else 1) = 1
  rw [swapsLoop_nil]; rfl

/-- the legs of `q·p` listed in the order of the legs of `p·q`: position of leg `i` of `p·q` in
    `q·p` (`p`'s `m` dangling legs come after `q`'s `k`) -/
def crossAx (m k : Nat) : List Nat := positions (rotAx m k) (List.range (m + k))

theorem rotAx_length (m k : Nat) : (rotAx m k).length = m + k := by
  unfold rotAx; simp; omega

theorem crossAx_perm (m k : Nat) : (crossAx m k).Perm (List.range (m + k)) := by
  have := positions_perm (rotAx m k) (List.range (m + k)) (rotAx_perm m k).symm
    ((rotAx_perm m k).nodup_iff.mpr List.nodup_range)
  rw [rotAx_length] at this
  exact this

section mixed
variable {R : Type} [AddCommMonoid R] [Mul R] [Neg R] [SignRing R]

/-- **a swapped half against the opposite half.**  `P = p·q`, `P' = q·p`; `Y` contractible with `P`
    over all legs (strong guard), `P·Y = r` a scalar.  Then `P'·Y` with the crossed leg pairs
    succeeds and is a scalar with the same labels and value. -/
theorem mixed_full (hmul : ∀ x y : R, x * y = y * x) (p q P P' Y r : Arr R) (xp xq : List Nat)
    (h : Adm p q xp xq) (hd : (p.oddpos ++ q.oddpos).Pairwise (fun x y => x.1 ≠ y.1))
    (eP : p.tensordotF q (.pair (xp.map Int.ofNat) (xq.map Int.ofNat)) .blockwise = .ok P)
    (eP' : q.tensordotF p (.pair (xq.map Int.ofNat) (xp.map Int.ofNat)) .blockwise = .ok P')
    (hPv : P.validB = true) (hPf : P.fermi = true) (hP'v : P'.validB = true)
    (hA : Adm P Y (List.range P.ndim) (List.range P.ndim)) (hYn : Y.ndim = P.ndim)
    (hr : P.tensordotF Y (allAxes P.ndim) .blockwise = .ok r) :
    ∃ r', P'.tensordotF Y (.pair
          ((crossAx (freeAxes p.ndim xp).length (freeAxes q.ndim xq).length).map Int.ofNat)
          ((List.range P.ndim).map Int.ofNat)) .blockwise = .ok r'
      ∧ r'.ndim = 0 ∧ r'.oddpos = r.oddpos ∧ r'.elem [] [] = r.elem [] [] := by
  have hE := swap_eqv hmul p q P P' xp xq h hd eP eP' hPv hPf
  obtain ⟨_, hI⟩ := tdot_sectors h eP
  have hnd : P.ndim = (freeAxes p.ndim xp).length + (freeAxes q.ndim xq).length := by
    unfold Arr.ndim
    rw [hI, dropUnused_length, frame_eq, List.length_append, List.length_map, List.length_map]
    rfl
  have hperm : (rotAx (freeAxes p.ndim xp).length (freeAxes q.ndim xq).length).Perm
      (List.range P.ndim) := by rw [hnd]; exact rotAx_perm _ _
  have hisp := ValidP.isPerm_of_perm hperm
  have hlt : ∀ i ∈ List.range P.ndim, i < P.ndim := fun i hi => List.mem_range.mp hi
  have hT := PreT.canonical hperm List.nodup_range hlt
  have hcross : positions (rotAx (freeAxes p.ndim xp).length (freeAxes q.ndim xq).length)
      (List.range P.ndim) = crossAx (freeAxes p.ndim xp).length (freeAxes q.ndim xq).length := by
    unfold crossAx; rw [hnd]
  rw [hcross] at hT
  obtain ⟨c', ec', o1, _, _, _, hel⟩ := RoutesP.tdotF_pretranspose P Y r _ _ _ _ _ hA hisp hT hr
  have hA' := hA.pre hisp hT
  -- the result of the transposed call is a scalar
  have hfree : freeAxes P.ndim (List.range P.ndim) = [] := freeAxes_range_self _
  have hc'n : c'.ndim = 0 := by
    obtain ⟨_, hI'⟩ := tdot_sectors hA' ec'
    unfold Arr.ndim
    rw [hI', dropUnused_length, frame_eq, List.length_append, List.length_map, List.length_map]
    have hTn : (P.transposeF (rotAx (freeAxes p.ndim xp).length (freeAxes q.ndim xq).length)).ndim
        = P.ndim := hT.lenT P.indices rfl
    have hcp := crossAx_perm (freeAxes p.ndim xp).length (freeAxes q.ndim xq).length
    rw [← hnd] at hcp
    rw [hTn, freeAxes_all P.ndim _ (fun i hi => hcp.mem_iff.mpr (List.mem_range.mpr hi)), hYn, hfree]
    rfl
  -- congruence: replace the transposed half by the swapped half
  have hTv : (P.transposeF (rotAx (freeAxes p.ndim xp).length (freeAxes q.ndim xq).length)).validB
      = true := hA'.va
  obtain ⟨Z', eZ', hZ⟩ := Assoc3P.tdotF_congr (AdmW.ofAdm hA') hE.symm (Eqv.refl Y) hP'v hA.vb c' ec'
  refine ⟨Z', eZ', by rw [← hZ.ndim]; exact hc'n, hZ.oddpos.symm.trans o1, ?_⟩
  have hci : c'.indices = [] := List.eq_nil_of_length_eq_zero hc'n
  rw [← hZ.elem [] [] (fun _ => by rw [hci]; rfl)]
  have e1 : without P.indices (List.range P.ndim) = [] := without_range_length P.indices
  have e2 : without Y.indices (List.range P.ndim) = [] := by
    rw [← hYn]; exact without_range_length Y.indices
  have := hel [] [] [] [] (by rw [hfree]; rfl) (by rw [hfree]) (by rw [e1, e2]; rfl)
  simp only [TdotP.permuted_nil, List.map_nil, List.append_nil, koszul_nil, sgnI_one] at this
  exact this

end mixed

end SymmModel.NormNet
