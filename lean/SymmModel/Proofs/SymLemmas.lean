/-
  SymmModel.Proofs.SymLemmas — helper lemmas for property C17 about `Model/Sym.lean`
  (`Sym.combine/sign/valid/parity`) and the sector enumeration in `Model/Arr.lean`
  (`cartesian`, `Arr.genValidSectors`).  Nothing here changes a model definition; awkward
  definitions (`foldl` sums, the Z2Z2 xor fold) get characterisation lemmas.
-/
import SymmModel.Model.Arr
import Mathlib.Data.List.Forall2
import Mathlib.Data.List.Nodup
import Mathlib.Data.List.Perm.Basic

namespace SymmModel
namespace Sym

/-! ### `sum1` / `sum2` : the `foldl (+) 0` sums as a recursion -/

theorem foldl_add (l : List Int) (a : Int) :
    l.foldl (· + ·) a = a + l.foldl (· + ·) 0 := by
  induction l generalizing a with
  | nil => simp
  | cons x xs ih =>
    simp only [List.foldl_cons]
    rw [ih (a + x), ih (0 + x)]
    omega

@[simp] theorem sum1_nil : sum1 [] = 0 := rfl
@[simp] theorem sum2_nil : sum2 [] = 0 := rfl

theorem sum1_cons (c : Charge) (cs : List Charge) : sum1 (c :: cs) = c.1 + sum1 cs := by
  unfold sum1
  simp only [List.map_cons, List.foldl_cons]
  rw [foldl_add]
  omega

theorem sum2_cons (c : Charge) (cs : List Charge) : sum2 (c :: cs) = c.2 + sum2 cs := by
  unfold sum2
  simp only [List.map_cons, List.foldl_cons]
  rw [foldl_add]
  omega

theorem sum1_append (xs ys : List Charge) : sum1 (xs ++ ys) = sum1 xs + sum1 ys := by
  induction xs with
  | nil => simp
  | cons x xs ih => simp only [List.cons_append, sum1_cons, ih]; omega

theorem sum2_append (xs ys : List Charge) : sum2 (xs ++ ys) = sum2 xs + sum2 ys := by
  induction xs with
  | nil => simp
  | cons x xs ih => simp only [List.cons_append, sum2_cons, ih]; omega

theorem sum1_perm {xs ys : List Charge} (h : xs.Perm ys) : sum1 xs = sum1 ys := by
  induction h with
  | nil => rfl
  | cons x _ ih => simp only [sum1_cons, ih]
  | swap x y l => simp only [sum1_cons]; omega
  | trans _ _ ih1 ih2 => exact ih1.trans ih2

theorem sum2_perm {xs ys : List Charge} (h : xs.Perm ys) : sum2 xs = sum2 ys := by
  induction h with
  | nil => rfl
  | cons x _ ih => simp only [sum2_cons, ih]
  | swap x y l => simp only [sum2_cons]; omega
  | trans _ _ ih1 ih2 => exact ih1.trans ih2

/-! ### the Z2Z2 xor fold is a sum modulo two -/

theorem xorFold1 (cs : List Charge) (a : Int) (ha : a % 2 = a) :
    cs.foldl (fun acc c => (acc + c.1) % 2) a = (a + sum1 cs) % 2 := by
  induction cs generalizing a with
  | nil => simp only [List.foldl_nil, sum1_nil]; omega
  | cons c cs ih =>
    simp only [List.foldl_cons, sum1_cons]
    rw [ih ((a + c.1) % 2) (by omega)]
    omega

theorem xorFold2 (cs : List Charge) (a : Int) (ha : a % 2 = a) :
    cs.foldl (fun acc c => (acc + c.2) % 2) a = (a + sum2 cs) % 2 := by
  induction cs generalizing a with
  | nil => simp only [List.foldl_nil, sum2_nil]; omega
  | cons c cs ih =>
    simp only [List.foldl_cons, sum2_cons]
    rw [ih ((a + c.2) % 2) (by omega)]
    omega

/-! ### `combine` in closed form -/

theorem combine_Z2 (cs : List Charge) : combine Z2 cs = (sum1 cs % 2, 0) := rfl
theorem combine_Z4 (cs : List Charge) : combine Z4 cs = (sum1 cs % 4, 0) := rfl
theorem combine_U1 (cs : List Charge) : combine U1 cs = (sum1 cs, 0) := rfl
theorem combine_U1U1 (cs : List Charge) : combine U1U1 cs = (sum1 cs, sum2 cs) := rfl
theorem combine_Z2Z2 (cs : List Charge) : combine Z2Z2 cs = (sum1 cs % 2, sum2 cs % 2) := by
  show (cs.foldl (fun acc c => (acc + c.1) % 2) 0, cs.foldl (fun acc c => (acc + c.2) % 2) 0) = _
  rw [xorFold1 cs 0 (by omega), xorFold2 cs 0 (by omega)]
  simp

/-- unfold every scalar group operation to integer arithmetic and finish with `omega`
    (use after `cases s` and destructuring the charges). -/
macro "sym_arith" : tactic => `(tactic| (
  simp only [combine_Z2, combine_Z4, combine_U1, combine_U1U1, combine_Z2Z2,
    Sym.sign, Sym.valid, Sym.zero, sum1_cons, sum1_nil, sum2_cons, sum2_nil,
    sum1_append, sum2_append, Bool.and_eq_true, Bool.or_eq_true, beq_iff_eq,
    Prod.mk.injEq, Bool.true_eq_false, Bool.false_eq_true, if_true, if_false,
    ite_true, ite_false, and_true, true_and, Bool.not_true, Bool.not_false] at * <;> omega))

/-- parity bookkeeping: `z ≡ x + y (mod 2)` as a Boolean xor -/
theorem beq_one_xor (x y z : Int) (h : z % 2 = (x + y) % 2) :
    (z % 2 == 1) = xor (x % 2 == 1) (y % 2 == 1) := by
  rcases (by omega : x % 2 = 0 ∨ x % 2 = 1) with hx | hx <;>
  rcases (by omega : y % 2 = 0 ∨ y % 2 = 1) with hy | hy <;>
  rcases (by omega : z % 2 = 0 ∨ z % 2 = 1) with hz | hz <;>
  simp [hx, hy, hz] <;> omega

end Sym

/-! ### `cartesian` -/

theorem mem_cartesian {α : Type} {ls : List (List α)} {s : List α} :
    s ∈ cartesian ls ↔ List.Forall₂ (fun x l => x ∈ l) s ls := by
  induction ls generalizing s with
  | nil => simp [cartesian]
  | cons l ls ih =>
    simp only [cartesian, List.mem_flatMap, List.mem_map, List.forall₂_cons_right_iff]
    constructor
    · rintro ⟨a, ha, r, hr, rfl⟩
      exact ⟨a, r, ha, ih.mp hr, rfl⟩
    · rintro ⟨a, r, ha, hr, rfl⟩
      exact ⟨a, ha, r, ih.mpr hr, rfl⟩

theorem cartesian_nodup {α : Type} {ls : List (List α)} (h : ∀ l ∈ ls, l.Nodup) :
    (cartesian ls).Nodup := by
  induction ls with
  | nil => simp [cartesian]
  | cons l ls ih =>
    have hl : l.Nodup := h l (by simp)
    have hls : (cartesian ls).Nodup := ih (fun l' hl' => h l' (by simp [hl']))
    simp only [cartesian]
    rw [List.nodup_flatMap]
    refine ⟨fun a _ => hls.map (fun x y hxy => (List.cons.inj hxy).2), ?_⟩
    refine List.Pairwise.imp ?_ hl
    intro a b hab
    simp only [Function.onFun, List.disjoint_left, List.mem_map]
    rintro s ⟨r, _, rfl⟩ ⟨r', _, h'⟩
    exact hab (List.cons.inj h').1.symm

theorem forall₂_concat_right {α β : Type} {R : α → β → Prop} {s : List α} {l : List β} {x : β} :
    List.Forall₂ R s (l ++ [x]) ↔ ∃ p r, s = p ++ [r] ∧ List.Forall₂ R p l ∧ R r x := by
  induction l generalizing s with
  | nil =>
    simp only [List.nil_append, List.forall₂_cons_right_iff, List.forall₂_nil_right_iff]
    constructor
    · rintro ⟨a, u, hr, rfl, rfl⟩
      exact ⟨[], a, rfl, rfl, hr⟩
    · rintro ⟨p, r, rfl, rfl, hr⟩
      exact ⟨r, [], hr, rfl, rfl⟩
  | cons b l ih =>
    simp only [List.cons_append, List.forall₂_cons_right_iff]
    constructor
    · rintro ⟨a, u, hab, hu, rfl⟩
      obtain ⟨p, r, rfl, hp, hr⟩ := ih.mp hu
      exact ⟨a :: p, r, rfl, ⟨a, p, hab, hp, rfl⟩, hr⟩
    · rintro ⟨p, r, rfl, ⟨a, p', hab, hp', rfl⟩, hr⟩
      exact ⟨a, p' ++ [r], hab, ih.mpr ⟨p', r, rfl, hp', hr⟩, rfl⟩

/-! ### solving the charge constraint for the last charge -/

namespace Sym
theorem solve_last (s : Sym) (A B t r : Charge) (d : Bool)
    (hA : s.valid A = true) (hB : s.valid B = true) (ht : s.valid t = true) (hr : s.valid r = true)
    (hAB : s.combine [A, B] = s.zero) :
    s.combine [A, s.sign r d] = t ↔ r = s.sign (s.combine [t, B]) d := by
  obtain ⟨a1, a2⟩ := A
  obtain ⟨b1, b2⟩ := B
  obtain ⟨t1, t2⟩ := t
  obtain ⟨r1, r2⟩ := r
  cases s <;> cases d <;> sym_arith

theorem combine_valid (s : Sym) (cs : List Charge) : s.valid (s.combine cs) = true := by
  cases s <;> sym_arith

theorem combine_append (s : Sym) (xs ys : List Charge) :
    s.combine (xs ++ ys) = s.combine [s.combine xs, s.combine ys] := by
  cases s <;> sym_arith

theorem combine_snoc (s : Sym) (xs : List Charge) (y : Charge) :
    s.combine (xs ++ [y]) = s.combine [s.combine xs, y] := by
  obtain ⟨y1, y2⟩ := y
  cases s <;> sym_arith

/-- the signed and the oppositely signed version of a list of valid charges are inverse -/
theorem combine_anti (s : Sym) (p : List Charge) (ds : List Bool)
    (hp : ∀ c ∈ p, s.valid c = true) :
    s.combine [s.combine (List.zipWith (fun c d => s.sign c d) p ds),
               s.combine (List.zipWith (fun c d => s.sign c (!d)) p ds)] = s.zero := by
  induction p generalizing ds with
  | nil => simp only [List.zipWith_nil_left]; cases s <;> rfl
  | cons c p ih =>
    cases ds with
    | nil => cases s <;> rfl
    | cons d ds =>
      have hc : s.valid c = true := hp c (by simp)
      have ih' := ih ds (fun c' hc' => hp c' (by simp [hc']))
      obtain ⟨c1, c2⟩ := c
      simp only [List.zipWith_cons_cons]
      generalize List.zipWith (fun c d => s.sign c d) p ds = X at *
      generalize List.zipWith (fun c d => s.sign c (!d)) p ds = Y at *
      cases s <;> cases d <;> sym_arith
end Sym

namespace Arr
open Sym
variable {R : Type}

/-- solving the charge constraint for the last charge, as `gen_valid_sectors` does -/
theorem solve_sector (s : Sym) (first : List Index) (last : Index) (t : Charge)
    (p : List Charge) (r : Charge)
    (hp : ∀ c ∈ p, s.valid c = true) (hlen : p.length = first.length)
    (ht : s.valid t = true) (hr : s.valid r = true) :
    sectorCharge s ((first ++ [last]).map Index.dual) (p ++ [r]) = t ↔
      r = s.sign (s.combine [t, s.combine
            (List.zipWith (fun c (ix : Index) => s.sign c (!ix.dual)) p first)]) last.dual := by
  have hz : List.zipWith (fun c (ix : Index) => s.sign c (!ix.dual)) p first
      = List.zipWith (fun c d => s.sign c (!d)) p (first.map Index.dual) := by
    rw [List.zipWith_map_right]
  unfold sectorCharge
  rw [hz, List.map_append, List.map_cons, List.map_nil,
    List.zipWith_append (by simp [hlen]), List.zipWith_cons_cons, List.zipWith_nil_left,
    combine_snoc]
  exact solve_last s _ _ t r last.dual (combine_valid s _) (combine_valid s _) ht hr
    (combine_anti s p _ hp)

theorem forall₂_mem_valid (s : Sym) {p : List Charge} {first : List Index}
    (hp : List.Forall₂ (fun c (ix : Index) => c ∈ ix.charges) p first)
    (hfirst : ∀ ix ∈ first, ∀ c ∈ ix.charges, s.valid c = true) :
    ∀ c ∈ p, s.valid c = true := by
  induction hp with
  | nil => simp
  | cons hab _ ih =>
    intro c hc
    rcases List.mem_cons.mp hc with rfl | hc
    · exact hfirst _ (by simp) _ hab
    · exact ih (fun ix hix => hfirst ix (by simp [hix])) c hc

theorem mem_genValidSectors (a : Arr R)
    (hidx : ∀ ix ∈ a.indices, ∀ c ∈ ix.charges, a.sym.valid c = true)
    (hch : a.sym.valid a.charge = true) (s : Sector) :
    s ∈ a.genValidSectors ↔
      List.Forall₂ (fun c (ix : Index) => c ∈ ix.charges) s a.indices ∧ a.isValidSector s = true := by
  unfold genValidSectors
  split
  next h0 =>
    have hI : a.indices = [] := by simpa using h0
    simp only [hI, List.forall₂_nil_right_iff, isValidSector, duals, List.map_nil]
    constructor
    · intro h
      split at h
      next hc =>
        have hs : s = [] := by simpa using h
        subst hs
        refine ⟨rfl, ?_⟩
        simp only [sectorCharge, List.zipWith_nil_left, beq_iff_eq] at hc ⊢
        exact hc.symm
      next => simp at h
    · rintro ⟨rfl, hc⟩
      simp only [sectorCharge, List.zipWith_nil_left, beq_iff_eq] at hc
      have : (a.charge == a.sym.zero) = true := by
        simp only [beq_iff_eq]; exact hc.symm
      simp [this]
  next last revFirst h0 =>
    have hI : a.indices = revFirst.reverse ++ [last] := by
      have := congrArg List.reverse h0
      simpa using this
    have hfirst : ∀ ix ∈ revFirst.reverse, ∀ c ∈ ix.charges, a.sym.valid c = true :=
      fun ix hix => hidx ix (by rw [hI]; exact List.mem_append_left _ hix)
    have hlast : ∀ c ∈ last.charges, a.sym.valid c = true :=
      hidx last (by rw [hI]; simp)
    generalize revFirst.reverse = first at *
    simp only [List.mem_filterMap, mem_cartesian, List.forall₂_map_right_iff, isValidSector,
      duals, hI, forall₂_concat_right, beq_iff_eq]
    have hvalid : ∀ p : List Charge,
        List.Forall₂ (fun c (ix : Index) => c ∈ ix.charges) p first → ∀ c ∈ p, a.sym.valid c = true :=
      fun p hp => forall₂_mem_valid a.sym hp hfirst
    constructor
    · rintro ⟨p, hp, hf⟩
      split at hf
      next hcont =>
        have hs := Option.some.inj hf
        subst hs
        have hmem := List.contains_iff_mem.mp hcont
        refine ⟨⟨p, _, rfl, hp, hmem⟩, ?_⟩
        exact (solve_sector a.sym first last a.charge p _ (hvalid p hp) hp.length_eq hch
          (hlast _ hmem)).mpr rfl
      next => simp at hf
    · rintro ⟨⟨p, r, rfl, hp, hr⟩, hc⟩
      have hreq := (solve_sector a.sym first last a.charge p r (hvalid p hp) hp.length_eq hch
          (hlast _ hr)).mp hc
      refine ⟨p, hp, ?_⟩
      rw [← hreq, if_pos (List.contains_iff_mem.mpr hr)]

theorem genValidSectors_nodup_aux (a : Arr R) (h : ∀ ix ∈ a.indices, ix.charges.Nodup) :
    a.genValidSectors.Nodup := by
  unfold genValidSectors
  split
  next => split <;> simp
  next last revFirst h0 =>
    have hI : a.indices = revFirst.reverse ++ [last] := by
      have := congrArg List.reverse h0
      simpa using this
    refine List.Nodup.filterMap ?_ (cartesian_nodup ?_)
    · intro p p' b hb hb'
      simp only [Option.mem_def] at hb hb'
      split at hb
      next =>
        split at hb'
        next =>
          have e := (Option.some.inj hb).trans (Option.some.inj hb').symm
          exact (List.append_inj' e rfl).1
        next => simp at hb'
      next => simp at hb
    · intro l hl
      obtain ⟨ix, hix, rfl⟩ := List.mem_map.mp hl
      exact h ix (by rw [hI]; exact List.mem_append_left _ hix)

end Arr
end SymmModel
